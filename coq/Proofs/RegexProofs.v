(* Proofs/RegexProofs.v — correctness of the derivative matcher of Base/Regex.v. *)
From Coq Require Import List NArith Bool Lia.
From V Require Import Base.Bytes Base.Regex.
Import ListNotations.

(* ---------------------------------------------------------------- inversion lemmas *)
Lemma matches_Empty s : ~ matches Empty s.
Proof. intro H. inversion H. Qed.

Lemma matches_Eps s : matches Eps s <-> s = [].
Proof. split; intro H; [inversion H; reflexivity | subst; constructor]. Qed.

Lemma matches_Chr cs s : matches (Chr cs) s <-> exists b, s = [b] /\ cs_mem cs b = true.
Proof.
  split.
  - intro H. inversion H; subst. eauto.
  - intros (b & -> & H). constructor. exact H.
Qed.

Lemma matches_Cat a b s :
  matches (Cat a b) s <-> exists s1 s2, s = s1 ++ s2 /\ matches a s1 /\ matches b s2.
Proof.
  split.
  - intro H. inversion H; subst. eauto.
  - intros (s1 & s2 & -> & H1 & H2). constructor; assumption.
Qed.

Lemma matches_Alt a b s : matches (Alt a b) s <-> matches a s \/ matches b s.
Proof.
  split.
  - intro H. inversion H; subst; auto.
  - intros [H | H]; [apply MAltL | apply MAltR]; exact H.
Qed.

Lemma matches_Star_nil a : matches (Star a) [].
Proof. constructor. Qed.

Lemma matches_Star_cons a c s :
  matches (Star a) (c :: s) <->
  exists s1 s2, s = s1 ++ s2 /\ matches a (c :: s1) /\ matches (Star a) s2.
Proof.
  split.
  - intro H. remember (Star a) as r eqn:Er. remember (c :: s) as w eqn:Ew.
    revert c s Er Ew.
    induction H as [| | | | | a0 | a0 u t Hu IHu Ht IHt]; intros c0 s0 Er Ew; try discriminate Er.
    + discriminate Ew.
    + inversion Er; subst a0. destruct u as [|x u'].
      * simpl in Ew. apply IHt; [reflexivity | exact Ew].
      * simpl in Ew. inversion Ew; subst. exists u', t. auto.
  - intros (s1 & s2 & -> & H1 & H2). change (c :: s1 ++ s2) with ((c :: s1) ++ s2).
    constructor; assumption.
Qed.

Lemma matches_Star_app a s t : matches (Star a) s -> matches (Star a) t -> matches (Star a) (s ++ t).
Proof.
  intro H. remember (Star a) as r eqn:Er. revert Er.
  induction H as [| | | | | a0 | a0 u v Hu IHu Hv IHv]; intros Er Ht; try discriminate Er.
  - exact Ht.
  - inversion Er; subst a0. rewrite <- app_assoc. constructor; [exact Hu | apply IHv; auto].
Qed.

Lemma matches_Star_one a s : matches a s -> matches (Star a) s.
Proof. intro H. rewrite <- (app_nil_r s). constructor; [exact H | constructor]. Qed.

(* ---------------------------------------------------------------- syntactic equality *)
Lemma cset_eqb_eq a b : cset_eqb a b = true -> a = b.
Proof.
  revert b. induction a as [|[l1 h1] a IH]; intros [|[l2 h2] b]; simpl; intro H; try discriminate.
  - reflexivity.
  - apply andb_true_iff in H. destruct H as [H H3]. apply andb_true_iff in H. destruct H as [H1 H2].
    apply N.eqb_eq in H1. apply N.eqb_eq in H2. apply IH in H3. subst. reflexivity.
Qed.

Lemma re_eqb_eq a b : re_eqb a b = true -> a = b.
Proof.
  revert b. induction a as [| |x|a1 IH1 a2 IH2|a1 IH1 a2 IH2|a IH]; intros [| |y|b1 b2|b1 b2|b];
    simpl; intro H; try discriminate; try reflexivity.
  - apply cset_eqb_eq in H. subst. reflexivity.
  - apply andb_true_iff in H. destruct H as [H1 H2]. apply IH1 in H1. apply IH2 in H2. subst. reflexivity.
  - apply andb_true_iff in H. destruct H as [H1 H2]. apply IH1 in H1. apply IH2 in H2. subst. reflexivity.
  - apply IH in H. subst. reflexivity.
Qed.

(* ---------------------------------------------------------------- smart constructors *)
Lemma alt_mem_matches a b s : alt_mem a b = true -> matches a s -> matches b s.
Proof.
  revert a. induction b as [| |x|b1 _ b2 _|b1 _ b2 IH2|b _]; simpl; intros a H Ha;
    try (apply re_eqb_eq in H; subst; exact Ha).
  apply orb_true_iff in H. destruct H as [H | H].
  - apply re_eqb_eq in H. subst. apply MAltL. exact Ha.
  - apply MAltR. eapply IH2; eassumption.
Qed.

Lemma alt1_spec a b s : matches (alt1 a b) s <-> matches a s \/ matches b s.
Proof.
  assert (G : matches (if alt_mem a b then b else Alt a b) s <-> matches a s \/ matches b s).
  { destruct (alt_mem a b) eqn:E.
    - split; [auto | intros [H | H]; [eapply alt_mem_matches; eassumption | exact H]].
    - apply matches_Alt. }
  assert (E0 : forall x, matches Empty x <-> False) by (intro x; split; [apply matches_Empty | tauto]).
  unfold alt1. destruct a; destruct b; try exact G; rewrite ?E0; tauto.
Qed.

Lemma alt_spec a b s : matches (alt a b) s <-> matches a s \/ matches b s.
Proof.
  revert b s. induction a as [| |x|a1 _ a2 _|a1 IH1 a2 IH2|a _]; intros b s;
    try (cbn [alt]; apply alt1_spec).
  cbn [alt]. rewrite IH1, IH2, matches_Alt. tauto.
Qed.

Lemma cat1_spec a b s :
  matches (cat1 a b) s <-> exists s1 s2, s = s1 ++ s2 /\ matches a s1 /\ matches b s2.
Proof.
  rewrite <- matches_Cat.
  assert (L : forall r x, matches (Cat Eps r) x <-> matches r x).
  { intros r x. rewrite matches_Cat. split.
    - intros (s1 & s2 & -> & H1 & H2). apply matches_Eps in H1. subst. exact H2.
    - intro H. exists [], x. repeat split; [constructor | exact H]. }
  assert (R : forall r x, matches (Cat r Eps) x <-> matches r x).
  { intros r x. rewrite matches_Cat. split.
    - intros (s1 & s2 & -> & H1 & H2). apply matches_Eps in H2. subst. rewrite app_nil_r. exact H1.
    - intro H. exists x, []. rewrite app_nil_r. repeat split; [exact H | constructor]. }
  assert (ZL : forall r x, matches (Cat Empty r) x <-> matches Empty x).
  { intros r x. rewrite matches_Cat. split.
    - intros (s1 & s2 & _ & H1 & _). destruct (matches_Empty _ H1).
    - intro H. destruct (matches_Empty _ H). }
  assert (ZR : forall r x, matches (Cat r Empty) x <-> matches Empty x).
  { intros r x. rewrite matches_Cat. split.
    - intros (s1 & s2 & _ & _ & H2). destruct (matches_Empty _ H2).
    - intro H. destruct (matches_Empty _ H). }
  unfold cat1. destruct a; destruct b; rewrite ?ZL, ?ZR, ?L, ?R; tauto.
Qed.

Lemma cat_spec a b s :
  matches (cat a b) s <-> exists s1 s2, s = s1 ++ s2 /\ matches a s1 /\ matches b s2.
Proof.
  revert b s. induction a as [| |x|a1 IH1 a2 IH2|a1 _ a2 _|a _]; intros b s;
    try (cbn [cat]; apply cat1_spec).
  cbn [cat]. rewrite IH1. split.
  - intros (s1 & s2 & -> & H1 & H2). apply IH2 in H2. destruct H2 as (t1 & t2 & -> & H2 & H3).
    exists (s1 ++ t1), t2. rewrite app_assoc. repeat split; [constructor; assumption | exact H3].
  - intros (s1 & s2 & -> & H1 & H2). apply matches_Cat in H1. destruct H1 as (t1 & t2 & -> & H1 & H3).
    exists t1, (t2 ++ s2). rewrite app_assoc. repeat split; [exact H1 |].
    apply IH2. exists t2, s2. auto.
Qed.

(* ---------------------------------------------------------------- nullable, derivative *)
Theorem nullable_spec r : nullable r = true <-> matches r [].
Proof.
  induction r as [| |x|a IHa b IHb|a IHa b IHb|a _]; simpl.
  - split; [discriminate | intro H; destruct (matches_Empty _ H)].
  - split; [constructor | reflexivity].
  - split; [discriminate | intro H; apply matches_Chr in H; destruct H as (b & H & _); discriminate].
  - rewrite andb_true_iff, IHa, IHb, matches_Cat. split.
    + intros [H1 H2]. exists [], []. auto.
    + intros (s1 & s2 & E & H1 & H2). symmetry in E. apply app_eq_nil in E. destruct E; subst. auto.
  - rewrite orb_true_iff, IHa, IHb, matches_Alt. tauto.
  - split; [constructor | reflexivity].
Qed.

Theorem deriv_spec c r s : matches (deriv c r) s <-> matches r (c :: s).
Proof.
  revert s. induction r as [| |x|a IHa b IHb|a IHa b IHb|a IHa]; intro s; cbn [deriv].
  - split; intro H; destruct (matches_Empty _ H).
  - split; intro H; [destruct (matches_Empty _ H) | apply matches_Eps in H; discriminate].
  - rewrite matches_Chr. destruct (cs_mem x c) eqn:E.
    + rewrite matches_Eps. split.
      * intros ->. exists c. auto.
      * intros (b & H & _). inversion H. reflexivity.
    + split; [intro H; destruct (matches_Empty _ H) |].
      intros (b & H & Hb). inversion H; subst. congruence.
  - assert (G : (exists s1 s2, s = s1 ++ s2 /\ matches (deriv c a) s1 /\ matches b s2) <->
                exists t1 t2, c :: s = (c :: t1) ++ t2 /\ matches a (c :: t1) /\ matches b t2).
    { split; intros (s1 & s2 & E & H1 & H2); exists s1, s2.
      - subst. repeat split; [apply IHa; exact H1 | exact H2].
      - simpl in E. inversion E. repeat split; [apply IHa; exact H1 | exact H2]. }
    rewrite matches_Cat. destruct (nullable a) eqn:Na.
    + rewrite alt_spec, cat_spec, G, IHb. split.
      * intros [(t1 & t2 & E & H1 & H2) | H]; [eauto |].
        exists [], (c :: s). repeat split; [apply nullable_spec; exact Na | exact H].
      * intros (s1 & s2 & E & H1 & H2). destruct s1 as [|x s1].
        -- right. simpl in E. subst. exact H2.
        -- left. simpl in E. inversion E; subst. exists s1, s2. auto.
    + rewrite cat_spec, G. split.
      * intros (t1 & t2 & E & H1 & H2). eauto.
      * intros (s1 & s2 & E & H1 & H2). destruct s1 as [|x s1].
        -- apply nullable_spec in H1. congruence.
        -- simpl in E. inversion E; subst. exists s1, s2. auto.
  - rewrite alt_spec, IHa, IHb, matches_Alt. tauto.
  - rewrite cat_spec, matches_Star_cons. split; intros (s1 & s2 & E & H1 & H2); exists s1, s2;
      (repeat split; [exact E | apply IHa; exact H1 | exact H2]).
Qed.

Theorem matchb_spec r s : matchb r s = true <-> matches r s.
Proof.
  revert r. induction s as [|c s IH]; intro r; cbn [matchb].
  - apply nullable_spec.
  - destruct r; cbn [is_Empty]; try (rewrite IH; apply deriv_spec).
    split; [discriminate | intro H; destruct (matches_Empty _ H)].
Qed.

Lemma deriv_all_spec r s t : matches (deriv_all r s) t <-> matches r (s ++ t).
Proof.
  revert r. induction s as [|c s IH]; intro r; simpl; [tauto |].
  rewrite IH. apply deriv_spec.
Qed.

(* ---------------------------------------------------------------- longest match *)
Definition pmatch (r : re) (s : bytes) (k : nat) : Prop := k <= length s /\ matches r (firstn k s).

Lemma pmatch_cons_S r c s k : pmatch r (c :: s) (S k) <-> pmatch (deriv c r) s k.
Proof. unfold pmatch. simpl. rewrite deriv_spec. intuition lia. Qed.

Lemma pmatch_0 r s : pmatch r s 0 <-> nullable r = true.
Proof. unfold pmatch. simpl. rewrite nullable_spec. intuition lia. Qed.

Lemma lm_go_spec r s : forall n best,
  (exists k, pmatch r s k /\ (forall m, pmatch r s m -> m <= k) /\ lm_go r s n best = Some (n + k)) \/
  ((forall m, ~ pmatch r s m) /\ lm_go r s n best = best).
Proof.
  revert r. induction s as [|c s IH]; intros r n best; cbn [lm_go].
  - destruct (nullable r) eqn:Nr.
    + left. exists 0. split; [apply pmatch_0; exact Nr | split].
      * intros m [Hm _]. simpl in Hm. lia.
      * f_equal. lia.
    + right. split; [| reflexivity]. intros m [Hm H]. simpl in Hm. assert (m = 0) by lia. subst.
      apply nullable_spec in H. congruence.
  - destruct (is_Empty r) eqn:Er.
    + destruct r; try discriminate Er. right. split; [| reflexivity].
      intros m [_ H]. destruct (matches_Empty _ H).
    + destruct (IH (deriv c r) (S n) (if nullable r then Some n else best))
        as [(k & Hk & Hmax & E) | (Hno & E)].
      * left. exists (S k). split; [apply pmatch_cons_S; exact Hk | split].
        -- intros [|m] Hm; [lia |]. apply pmatch_cons_S in Hm. apply Hmax in Hm. lia.
        -- rewrite E. f_equal. lia.
      * rewrite E. destruct (nullable r) eqn:Nr.
        -- left. exists 0. split; [apply pmatch_0; exact Nr | split].
           ++ intros [|m] Hm; [lia |]. apply pmatch_cons_S in Hm. destruct (Hno _ Hm).
           ++ f_equal. lia.
        -- right. split; [| reflexivity]. intros [|m] Hm.
           ++ apply pmatch_0 in Hm. congruence.
           ++ apply pmatch_cons_S in Hm. destruct (Hno _ Hm).
Qed.

Theorem longest_match_spec r s n :
  longest_match r s = Some n <->
  n <= length s /\ matches r (firstn n s) /\
  forall m, n < m -> m <= length s -> ~ matches r (firstn m s).
Proof.
  unfold longest_match. destruct (lm_go_spec r s 0 None) as [(k & [Hk1 Hk2] & Hmax & E) | (Hno & E)];
    rewrite E; simpl.
  - split.
    + intro H. inversion H; subst. repeat split; try assumption.
      intros m Hlt Hle Hm. assert (m <= n) by (apply Hmax; split; assumption). lia.
    + intros (H1 & H2 & H3). f_equal.
      assert (n <= k) by (apply Hmax; split; assumption).
      destruct (PeanoNat.Nat.eq_dec k n) as [-> | Hne]; [reflexivity |].
      exfalso. apply (H3 k); [lia | exact Hk1 | exact Hk2].
  - split; [discriminate |]. intros (H1 & H2 & _). destruct (Hno n). split; assumption.
Qed.

Theorem longest_match_none r s :
  longest_match r s = None <-> forall m, m <= length s -> ~ matches r (firstn m s).
Proof.
  unfold longest_match. destruct (lm_go_spec r s 0 None) as [(k & [Hk1 Hk2] & Hmax & E) | (Hno & E)];
    rewrite E; simpl.
  - split; [discriminate |]. intro H. destruct (H k Hk1 Hk2).
  - split; [| reflexivity]. intros _ m Hm H. apply (Hno m). split; assumption.
Qed.

Lemma longest_match_some_iff r s :
  (exists n, longest_match r s = Some n) <-> exists m, m <= length s /\ matches r (firstn m s).
Proof.
  split.
  - intros (n & H). apply longest_match_spec in H. exists n. tauto.
  - intros (m & H1 & H2). destruct (longest_match r s) eqn:E; [eauto |].
    exfalso. eapply longest_match_none in E; eauto.
Qed.

(* ---------------------------------------------------------------- derived forms *)
Lemma matches_Plus r s :
  matches (Plus r) s <-> exists s1 s2, s = s1 ++ s2 /\ matches r s1 /\ matches (Star r) s2.
Proof. apply matches_Cat. Qed.

Lemma matches_Opt r s : matches (Opt r) s <-> s = [] \/ matches r s.
Proof. unfold Opt. rewrite matches_Alt, matches_Eps. tauto. Qed.

Lemma matches_Power_S n r s :
  matches (Power (S n) r) s <-> exists s1 s2, s = s1 ++ s2 /\ matches r s1 /\ matches (Power n r) s2.
Proof. apply matches_Cat. Qed.

(* a single-byte class repeated: the matched string is a run of bytes of the class *)
Lemma matches_Power_Chr n cs s :
  matches (Power n (Chr cs)) s <-> length s = n /\ Forall (fun b => cs_mem cs b = true) s.
Proof.
  revert s. induction n as [|n IH]; intro s.
  - simpl. rewrite matches_Eps. split.
    + intros ->. auto.
    + intros [H _]. destruct s; [reflexivity | discriminate].
  - rewrite matches_Power_S. split.
    + intros (s1 & s2 & -> & H1 & H2). apply matches_Chr in H1. destruct H1 as (b & -> & Hb).
      apply IH in H2. destruct H2 as [H2 H3]. simpl. split; [lia | constructor; assumption].
    + intros [H1 H2]. destruct s as [|b s]; [discriminate |]. inversion H2; subst.
      exists [b], s. repeat split; [constructor; assumption |]. apply IH. simpl in H1. split; [lia | assumption].
Qed.

Lemma matches_Star_Chr cs s :
  matches (Star (Chr cs)) s <-> Forall (fun b => cs_mem cs b = true) s.
Proof.
  induction s as [|c s IH].
  - split; constructor.
  - rewrite matches_Star_cons. split.
    + intros (s1 & s2 & -> & H1 & H2). apply matches_Chr in H1. destruct H1 as (b & E & Hb).
      inversion E; subst. simpl. constructor; [exact Hb | apply IH; exact H2].
    + intro H. inversion H; subst. exists [], s. repeat split; [constructor; assumption | apply IH; assumption].
Qed.

Lemma matches_UpTo_Chr n cs s :
  matches (UpTo n (Chr cs)) s <-> length s <= n /\ Forall (fun b => cs_mem cs b = true) s.
Proof.
  revert s. induction n as [|n IH]; intro s.
  - simpl. rewrite matches_Eps. split.
    + intros ->. simpl. auto.
    + intros [H _]. destruct s; [reflexivity | simpl in H; lia].
  - cbn [UpTo]. rewrite matches_Opt, matches_Cat. split.
    + intros [-> | (s1 & s2 & -> & H1 & H2)]; [simpl; split; [lia | constructor] |].
      apply matches_Chr in H1. destruct H1 as (b & -> & Hb). apply IH in H2. destruct H2 as [H2 H3].
      simpl. split; [lia | constructor; assumption].
    + intros [H1 H2]. destruct s as [|b s]; [left; reflexivity | right]. inversion H2; subst.
      exists [b], s. repeat split; [constructor; assumption |]. apply IH. simpl in H1. split; [lia | assumption].
Qed.

Lemma matches_Repeat_Chr n m cs s :
  n <= m ->
  (matches (Repeat n m (Chr cs)) s <-> n <= length s <= m /\ Forall (fun b => cs_mem cs b = true) s).
Proof.
  intro Hnm. unfold Repeat. rewrite matches_Cat. split.
  - intros (s1 & s2 & -> & H1 & H2). apply matches_Power_Chr in H1. apply matches_UpTo_Chr in H2.
    destruct H1 as [H1 H3], H2 as [H2 H4]. rewrite app_length. split; [lia | apply Forall_app; auto].
  - intros [H1 H2]. exists (firstn n s), (skipn n s). rewrite firstn_skipn. repeat split.
    + apply matches_Power_Chr. split; [apply firstn_length_le; lia |].
      rewrite <- (firstn_skipn n s) in H2. apply Forall_app in H2. tauto.
    + apply matches_UpTo_Chr. rewrite skipn_length. split; [lia |].
      rewrite <- (firstn_skipn n s) in H2. apply Forall_app in H2. tauto.
Qed.

Lemma matches_AtLeast_Chr n cs s :
  matches (AtLeast n (Chr cs)) s <-> n <= length s /\ Forall (fun b => cs_mem cs b = true) s.
Proof.
  unfold AtLeast. rewrite matches_Cat. split.
  - intros (s1 & s2 & -> & H1 & H2). apply matches_Power_Chr in H1. apply matches_Star_Chr in H2.
    destruct H1 as [H1 H3]. rewrite app_length. split; [lia | apply Forall_app; auto].
  - intros [H1 H2]. exists (firstn n s), (skipn n s). rewrite firstn_skipn.
    rewrite <- (firstn_skipn n s) in H2. apply Forall_app in H2. repeat split.
    + apply matches_Power_Chr. split; [apply firstn_length_le; lia | tauto].
    + apply matches_Star_Chr. tauto.
Qed.

Lemma matches_Plus_Chr cs s :
  matches (Plus (Chr cs)) s <-> 1 <= length s /\ Forall (fun b => cs_mem cs b = true) s.
Proof.
  rewrite matches_Plus. split.
  - intros (s1 & s2 & -> & H1 & H2). apply matches_Chr in H1. destruct H1 as (b & -> & Hb).
    apply matches_Star_Chr in H2. simpl. split; [lia | constructor; assumption].
  - intros [H1 H2]. destruct s as [|b s]; [simpl in H1; lia |]. inversion H2; subst.
    exists [b], s. repeat split; [constructor; assumption | apply matches_Star_Chr; assumption].
Qed.

(* ---------------------------------------------------------------- a lower bound on match lengths *)
Fixpoint min_len (r : re) : nat :=
  match r with
  | Empty => 0
  | Eps => 0
  | Chr _ => 1
  | Cat a b => min_len a + min_len b
  | Alt a b => Nat.min (min_len a) (min_len b)
  | Star _ => 0
  end.

Lemma min_len_le r s : matches r s -> min_len r <= length s.
Proof. induction 1; simpl; rewrite ?app_length; lia. Qed.
