(* Proofs/SpxProofs.v — Spx::consume under the verbatim hypothesis, its refutation without it, and the
   signed column arithmetic. *)
From Coq Require Import List NArith ZArith Bool Lia Strings.String.
From V Require Import Base.Bytes Base.Res Model.Ast Model.Spx.
Import ListNotations.
Local Open Scope list_scope.
Local Open Scope N_scope.

(* a piece is verbatim: it lies on one line and its span has exactly its byte count
   (sc >= 1, ec + 1 = sc + x; a piece of zero bytes has ec = sc - 1) *)
Definition verbatim (p : piece) : Prop :=
  let (sp, x) := p in 1 <= sc sp /\ ec sp + 1 = sc sp + x.

(* consecutive pieces are adjacent in the source *)
Fixpoint contiguous (q : list piece) : Prop :=
  match q with
  | [] => True
  | p :: q' => match q' with
               | [] => True
               | p' :: _ => sc (fst p') = ec (fst p) + 1
               end /\ contiguous q'
  end.

Definition total (q : list piece) : N := fold_right (fun p a => snd p + a) 0 q.
Definition q_start (q : list piece) : N := match q with p :: _ => sc (fst p) | [] => 0 end.
Fixpoint q_end (q : list piece) : N :=
  match q with [] => 0 | [p] => ec (fst p) | _ :: q' => q_end q' end.

Lemma contiguous_span : forall q, q <> [] -> Forall verbatim q -> contiguous q ->
  q_end q + 1 = q_start q + total q.
Proof.
  induction q as [|[sp x] q IH]; intros Hne Hv Hc; [congruence|].
  inversion Hv as [|? ? Hp Hv']; subst. unfold verbatim in Hp. destruct Hp as [H1 H2].
  destruct q as [|[sp' x'] q'].
  - cbn [q_end q_start total fold_right fst snd]. lia.
  - destruct Hc as [Hadj Hc'].
    assert (E := IH ltac:(discriminate) Hv' Hc').
    cbn [q_end q_start total fold_right fst snd] in *. lia.
Qed.

(* the main statement, with the invariant that lets consume be called again *)
Lemma consume_ok_inv : forall q rem, q <> [] -> Forall verbatim q -> contiguous q -> rem <= total q ->
  exists c q', consume q rem = Ok (c, q') /\
    c + 1 = q_start q + rem /\
    Forall verbatim q' /\ contiguous q' /\ total q' = total q - rem /\
    (q' <> [] -> q_start q' = c + 1 /\ q_end q' = q_end q).
Proof.
  induction q as [|[sp x] q IH]; intros rem Hne Hv Hc Hrem; [congruence|].
  inversion Hv as [|? ? Hp Hv']; subst. unfold verbatim in Hp. destruct Hp as [H1 H2].
  cbn [consume]. destruct (rem ?= x) eqn:Cmp.
  - (* Equal *)
    apply N.compare_eq in Cmp. subst x.
    exists (ec sp), q. split; [reflexivity|].
    destruct Hc as [Hadj Hc'].
    cbn [q_start fst total fold_right snd] in *. fold (total q) in *.
    split; [lia|]. split; [exact Hv'|]. split; [exact Hc'|]. split; [lia|].
    intro Hq. destruct q as [|p' q'']; [congruence|]. split; [exact Hadj | reflexivity].
  - (* Less *)
    rewrite N.compare_lt_iff in Cmp.
    assert (ec sp <? sc sp = false) as -> by (apply N.ltb_ge; lia).
    assert (ec sp - sc sp + 1 =? x = true) as -> by (apply N.eqb_eq; lia).
    cbn [orb negb].
    assert (sc sp + rem =? 0 = false) as -> by (apply N.eqb_neq; lia).
    eexists. eexists. split; [reflexivity|].
    destruct Hc as [Hadj Hc'].
    cbn [q_start fst total fold_right snd sc ec] in *. fold (total q) in *.
    split; [lia|].
    split. { constructor; [|exact Hv']. unfold verbatim. cbn [sc ec]. lia. }
    split. { cbn [contiguous fst ec]. split; [|exact Hc']. destruct q; [exact I|exact Hadj]. }
    split; [lia|].
    intros _. split; [lia|]. destruct q; reflexivity.
  - (* Greater *)
    rewrite N.compare_gt_iff in Cmp.
    cbn [total fold_right snd] in Hrem. fold (total q) in Hrem.
    assert (q <> []) as Hq.
    { intro E. subst q. cbn in Hrem. lia. }
    destruct Hc as [Hadj Hc'].
    destruct (IH (rem - x) Hq Hv' Hc' ltac:(lia)) as (c & q' & E & Ec & Hv2 & Hc2 & Ht & Hn).
    exists c, q'. split; [exact E|].
    destruct q as [|p' q'']; [congruence|].
    cbn [q_start fst total fold_right snd] in *. fold (total q'') in *.
    split; [lia|]. split; [exact Hv2|]. split; [exact Hc2|]. split; [lia|].
    intro Hq'. destruct (Hn Hq') as [E1 E2]. split; [exact E1|]. rewrite E2. reflexivity.
Qed.

(* never panics; returns start + consumed - 1; within the merged span *)
Theorem spx_consume_ok : forall q rem, q <> [] -> Forall verbatim q -> contiguous q -> rem <= total q ->
  exists c q', consume q rem = Ok (c, q') /\
    c + 1 = q_start q + rem /\ q_start q <= c + 1 /\ c <= q_end q.
Proof.
  intros q rem Hne Hv Hc Hrem.
  destruct (consume_ok_inv q rem Hne Hv Hc Hrem) as (c & q' & E & Ec & _).
  exists c, q'. split; [exact E|]. split; [exact Ec|].
  pose proof (contiguous_span q Hne Hv Hc). lia.
Qed.

(* without the hypothesis: a piece whose span is shorter than its byte count (what smart punctuation or a
   text spanning a line break produces) makes the assert fire although enough bytes are queued *)
Definition refute_q : list piece := [(mkSp 1 1 1 1, 3)].
Theorem spx_consume_refuted : exists q rem, q <> [] /\ rem <= total q /\ consume q rem = Panic site_assert.
Proof. exists refute_q, 1. split; [discriminate|]. split; [vm_compute; discriminate | reflexivity]. Qed.

(* F25: a piece whose end column is before its start column (a footnote reference whose name spans a
   line break: start column from the first line, end column from the second) panics in the subtraction *)
Definition refute_q25 : list piece := [(mkSp 1 1 1 10, 10); (mkSp 1 11 2 2, 5)].
Theorem spx_consume_sub_overflow : exists q rem, q <> [] /\ rem <= total q /\ consume q rem = Panic site_sub1.
Proof. exists refute_q25, 12. split; [discriminate|]. split; [vm_compute; discriminate | reflexivity]. Qed.

(* nothing queued for what is asked: unreachable!() *)
Theorem spx_consume_unreachable : forall rem, consume [] rem = Panic site_unreachable.
Proof. reflexivity. Qed.

(* ---- signed arithmetic ---- *)
Local Open Scope Z_scope.

Lemma to_usize_ok site v : 0 <= v -> to_usize site v = Ok (Z.to_N v).
Proof. intro H. unfold to_usize. assert (v <? 0 = false) as -> by (apply Z.ltb_ge; lia). reflexivity. Qed.

Lemma to_usize_panic site v : v < 0 -> to_usize site v = Panic site.
Proof. intro H. unfold to_usize. assert (v <? 0 = true) as -> by (apply Z.ltb_lt; lia). reflexivity. Qed.

Theorem column_add_ok : forall col off, 0 <= Z.of_N col + off ->
  exists c, column_add col off = Ok c /\ Z.of_N c = Z.of_N col + off.
Proof.
  intros col off H. unfold column_add. rewrite to_usize_ok by exact H.
  eexists. split; [reflexivity|]. rewrite Z2N.id; lia.
Qed.

Theorem column_add_panics_iff : forall col off,
  column_add col off = Panic site_column_add <-> Z.of_N col + off < 0.
Proof.
  intros col off. unfold column_add, to_usize. destruct (Z.of_N col + off <? 0) eqn:E.
  - apply Z.ltb_lt in E. tauto.
  - apply Z.ltb_ge in E. split; [discriminate | lia].
Qed.

(* make_inline: no panic when start + column_offset + line_offset >= -1 ... stated with pos >= 0:
   the invariant of handle_newline is column_offset >= -start_column *)
Theorem make_inline_ok : forall s e co lo, (s <= e)%N -> 0 <= Z.of_N s + co + Z.of_N lo ->
  exists s' e', make_inline_cols s e co lo = Ok (s', e') /\
    Z.of_N s' = Z.of_N s + 1 + co + Z.of_N lo /\
    Z.of_N e' = Z.of_N e + 1 + co + Z.of_N lo /\
    (e' - s' = e - s)%N /\ (1 <= s')%N.
Proof.
  intros s e co lo Hse H. unfold make_inline_cols.
  rewrite to_usize_ok by lia. cbn [bind]. rewrite to_usize_ok by lia. cbn [bind].
  eexists. eexists. split; [reflexivity|].
  rewrite !Z2N.id by lia. repeat split; lia.
Qed.

(* after handle_newline at byte position p (column_offset = -p) every later position q >= p satisfies the
   hypothesis of make_inline_ok, and position p itself gets column line_offset + 1 *)
Theorem newline_offset_invariant : forall p q lo, (p <= q)%N ->
  0 <= Z.of_N q + newline_offset p + Z.of_N lo.
Proof. intros. unfold newline_offset. lia. Qed.

Theorem newline_first_column : forall p lo,
  make_inline_cols p p (newline_offset p) lo = Ok (lo + 1, lo + 1)%N.
Proof.
  intros p lo. unfold make_inline_cols, newline_offset.
  rewrite to_usize_ok by lia. cbn [bind].
  replace (Z.of_N p + 1 + - Z.of_N p + Z.of_N lo) with (Z.of_N (lo + 1)) by lia.
  rewrite N2Z.id. reflexivity.
Qed.

(* adjust_node_newlines: the offset it sets is at least the newline offset (so the invariant is kept) *)
Theorem adjust_offset_invariant : forall p q sn ex lo, (p <= q)%N ->
  0 <= Z.of_N q + adjust_offset p sn ex + Z.of_N lo.
Proof. intros. unfold adjust_offset. lia. Qed.
