(* Proofs/StrLeafParse.v — clean_url / clean_title / clean_autolink, link destination scanners, autolink helpers,
   list markers. *)
From Coq Require Import List NArith Bool Lia Arith.
From Coq Require Import Strings.String.
From V Require Import Base.Bytes Base.Res Gen.Ctype Gen.StrLeafGen Spec.EscapeSpec Spec.StrLeafSpec Model.Ast.
From V Require Import Model.Entity Model.Strings Model.LinkUrl Model.AutolinkLeaf Model.ListMarker.
From V Require Import Proofs.StrLeafProofs Proofs.StrLeafEntity.
Import ListNotations.
Local Open Scope string_scope.
Local Open Scope list_scope.

(* ------------------------------------------------------------------ clean_url, clean_title, clean_autolink *)
Theorem clean_url_spec u : exists h,
  Entity.unescape_html (trim_slice u) = Ok h /\ clean_url u = Ok (unescape_spec h).
Proof.
  unfold clean_url. destruct (trim_slice u) as [|x l] eqn:E.
  - exists []. split; reflexivity.
  - destruct (unescape_html_total (x :: l)) as [h Hh]. exists h. rewrite Hh. cbn [bind].
    split; [reflexivity | apply unescape_is_spec].
Qed.

Theorem clean_title_total title : List.length title <> 1 -> exists o, clean_title title = Ok o.
Proof.
  intro H. unfold clean_title. destruct title as [|a t]; [eexists; reflexivity|].
  destruct t as [|b t']; [simpl in H; lia|].
  match goal with |- context [if ?c then _ else _] => destruct c end.
  - cbn [List.length Nat.sub Nat.ltb Nat.leb].
    destruct (unescape_html_total (firstn (List.length (a :: b :: t') - 2) (skipn 1 (a :: b :: t')))) as [h Hh].
    cbn [List.length Nat.sub] in Hh. rewrite Hh. cbn [bind]. rewrite unescape_is_spec. eexists; reflexivity.
  - destruct (unescape_html_total (a :: b :: t')) as [h Hh]. rewrite Hh. cbn [bind].
    rewrite unescape_is_spec. eexists; reflexivity.
Qed.

Lemma clean_title_refuted : clean_title [x27] = Panic "strings.rs:clean_title:title[1..title_len - 1]".
Proof. reflexivity. Qed.

Theorem clean_autolink_total u e : exists o, clean_autolink u e = Ok o.
Proof.
  unfold clean_autolink. rewrite trim_ok. cbn [bind]. destruct (trim_slice u) as [|x l]; [eexists; reflexivity|].
  destruct (unescape_html_total (x :: l)) as [h Hh]. rewrite Hh. cbn [bind]. eexists; reflexivity.
Qed.

(* ------------------------------------------------------------------ manual_scan_link_url *)
Lemma angle_loop_gt : forall s skip i j, angle_loop s skip i = Some j -> i < j.
Proof.
  induction s as [|b r IH]; intros skip i j H; [discriminate|].
  cbn [angle_loop] in H. destruct skip as [|k].
  - destruct (beqb b x3e); [inversion H; lia|].
    destruct (beqb b x5c); [apply IH in H; lia|].
    destruct (beqb b x0a || beqb b x3c); [discriminate|]. apply IH in H. lia.
  - apply IH in H. lia.
Qed.

Theorem manual_scan_link_url_total input : exists r, manual_scan_link_url input = Ok r /\
  match r with Some (url, n) => n < List.length input | None => True end.
Proof.
  unfold manual_scan_link_url. destruct input as [|b r]; [eexists; split; [reflexivity|]|].
  - unfold manual_scan_link_url_2. cbn. exact I.
  - destruct (beqb b x3c).
    + destruct (angle_loop r 0 1) as [i|] eqn:E; [|eexists; split; [reflexivity | exact I]].
      apply angle_loop_gt in E.
      destruct (Nat.leb (List.length (b :: r)) i) eqn:El; [eexists; split; [reflexivity | exact I]|].
      apply Nat.leb_gt in El.
      destruct (Nat.ltb (i - 1) 1) eqn:E1; [apply Nat.ltb_lt in E1; lia|].
      eexists; split; [reflexivity | exact El].
    + eexists; split; [reflexivity|]. unfold manual_scan_link_url_2.
      destruct (url2_loop (b :: r) 0 0 0) as [i|] eqn:E; [|exact I].
      (* bound proved below in url2_loop_spec; restated here through the same lemma *)
      revert E. generalize (b :: r). intros s E.
      assert (forall s skip i nb j, url2_loop s skip i nb = Some j -> j < i + List.length s) as K.
      { clear. induction s as [|c t IH]; intros skip i nb j H; [discriminate|].
        cbn [url2_loop] in H. cbn [List.length]. destruct skip as [|k]; [|apply IH in H; lia].
        destruct (beqb c x5c && match t with d :: _ => sl_ispunct d | [] => false end); [apply IH in H; lia|].
        destruct (beqb c x28).
        { destruct (Nat.ltb link_paren_cap (S nb)); [discriminate | apply IH in H; lia]. }
        destruct (beqb c x29).
        { destruct nb; [inversion H; lia | apply IH in H; lia]. }
        destruct (sl_isspace c || is_ascii_control c).
        { destruct (Nat.eqb i 0); [discriminate|]. destruct (Nat.eqb nb 0); [inversion H; lia | discriminate]. }
        apply IH in H. lia. }
      apply K in E. lia.
Qed.

(* the second form: the result is a proper prefix, and the running depth of its unescaped parentheses
   (skipping backslash + punctuation pairs) never exceeds the cap and ends at zero *)
Lemma url2_loop_spec : forall s skip i nb j, url2_loop s skip i nb = Some j ->
  i + skip <= j /\ j < i + List.length s /\
  paren_depth link_paren_cap (firstn (j - i) s) skip nb = Some 0.
Proof.
  induction s as [|c t IH]; intros skip i nb j H; [discriminate|].
  cbn [url2_loop] in H. cbn [List.length]. destruct skip as [|k].
  - destruct (beqb c x5c && match t with d :: _ => sl_ispunct d | [] => false end) eqn:Ee.
    + apply IH in H. destruct H as [H1 [H2 H3]]. repeat split; try lia.
      replace (j - i) with (S (j - S i)) by lia. cbn [firstn paren_depth].
      assert ((beqb c x5c && match firstn (j - S i) t with e :: _ => ispunct e | [] => false end) = true) as Ee'.
      { apply andb_true_iff in Ee. destruct Ee as [E1 E2]. rewrite E1. cbn [andb].
        destruct t as [|d t']; [discriminate|]. replace (j - S i) with (S (j - S (S i))) by lia.
        cbn [firstn]. rewrite <- ispunct_fast. exact E2. }
      rewrite Ee'. exact H3.
    + assert (forall u, (beqb c x5c && match firstn u t with e :: _ => ispunct e | [] => false end) = false) as Ee'.
      { intro u. apply andb_false_iff in Ee. destruct Ee as [E1|E2]; [rewrite E1; reflexivity|].
        destruct (beqb c x5c); [|reflexivity]. cbn [andb]. destruct t as [|d t']; [destruct u; reflexivity|].
        destruct u; [reflexivity|]. cbn [firstn]. rewrite <- ispunct_fast. exact E2. }
      destruct (beqb c x28) eqn:Eo.
      * destruct (Nat.ltb link_paren_cap (S nb)) eqn:Ec; [discriminate|].
        apply IH in H. destruct H as [H1 [H2 H3]]. repeat split; try lia.
        replace (j - i) with (S (j - S i)) by lia. cbn [firstn paren_depth]. rewrite Ee', Eo, Ec. exact H3.
      * destruct (beqb c x29) eqn:Ecl.
        -- destruct nb as [|n].
           ++ inversion H; subst. repeat split; try lia. rewrite Nat.sub_diag. reflexivity.
           ++ apply IH in H. destruct H as [H1 [H2 H3]]. repeat split; try lia.
              replace (j - i) with (S (j - S i)) by lia. cbn [firstn paren_depth]. rewrite Ee', Eo, Ecl. exact H3.
        -- destruct (sl_isspace c || is_ascii_control c).
           ++ destruct (Nat.eqb i 0); [discriminate|]. destruct (Nat.eqb nb 0) eqn:En; [|discriminate].
              inversion H; subst. apply Nat.eqb_eq in En. subst. repeat split; try lia.
              rewrite Nat.sub_diag. reflexivity.
           ++ apply IH in H. destruct H as [H1 [H2 H3]]. repeat split; try lia.
              replace (j - i) with (S (j - S i)) by lia. cbn [firstn paren_depth]. rewrite Ee', Eo, Ecl. exact H3.
  - apply IH in H. destruct H as [H1 [H2 H3]]. repeat split; try lia.
    replace (j - i) with (S (j - S i)) by lia. cbn [firstn paren_depth]. exact H3.
Qed.

Theorem manual_scan_link_url_2_spec input url n : manual_scan_link_url_2 input = Some (url, n) ->
  n < List.length input /\ url = firstn n input /\ paren_depth link_paren_cap url 0 0 = Some 0.
Proof.
  unfold manual_scan_link_url_2. destruct (url2_loop input 0 0 0) as [i|] eqn:E; [|discriminate].
  intro H. inversion H; subst. apply url2_loop_spec in E. destruct E as [_ [H2 H3]].
  rewrite Nat.sub_0_r in H3. repeat split; [lia | exact H3].
Qed.

(* the cap is what the spec function enforces: a depth beyond it is never reported *)
Lemma paren_depth_cap : forall cap s skip d e, paren_depth cap s skip d = Some e -> d <= cap -> e <= cap.
Proof.
  induction s as [|b r IH]; intros skip d e H Hd.
  - inversion H; subst. exact Hd.
  - cbn [paren_depth] in H. destruct skip; [|eapply IH; eauto].
    destruct (beqb b x5c && match r with e0 :: _ => ispunct e0 | [] => false end); [eapply IH; eauto|].
    destruct (beqb b x28).
    + destruct (Nat.ltb cap (S d)) eqn:E; [discriminate|]. apply Nat.ltb_ge in E. eapply IH; eauto.
    + destruct (beqb b x29); [destruct d; [discriminate|]; eapply IH; eauto; lia | eapply IH; eauto].
Qed.

(* ------------------------------------------------------------------ autolink helpers *)
Theorem validate_protocol_total p c cursor : cursor <= List.length c -> exists b, validate_protocol p c cursor = Ok b.
Proof.
  intro H. unfold validate_protocol. destruct (Nat.ltb (List.length c) cursor) eqn:E.
  - apply Nat.ltb_lt in E. lia.
  - eexists; reflexivity.
Qed.

Lemma validate_protocol_refuted : validate_protocol [] [] 1 = Panic "autolink.rs:validate_protocol:contents[cursor - rewind - 1]".
Proof. reflexivity. Qed.

Lemma cd_loop_total hc len a : 0 < len -> forall s skip i np u1 u2, exists e, cd_loop hc len a s skip i np u1 u2 = Ok e.
Proof.
  intros Hl. induction s as [|b r IH]; intros skip i np u1 u2; [eexists; reflexivity|].
  cbn [cd_loop]. destruct skip; [|apply IH].
  destruct (beqb b x5c).
  - destruct (Nat.eqb len 0) eqn:E; [apply Nat.eqb_eq in E; lia|].
    destruct (Nat.ltb i (len - 1)); [apply IH|].
    destruct (negb _ && negb _); [eexists; reflexivity | apply IH].
  - destruct (beqb b x5f); [apply IH|]. destruct (beqb b x2e); [apply IH|].
    destruct (negb _ && negb _); [eexists; reflexivity | apply IH].
Qed.

Theorem check_domain_total hc data a : exists r, check_domain hc data a = Ok r /\
  match r with Some n => n <= List.length data | None => True end.
Proof.
  unfold check_domain. destruct data as [|b r].
  - cbn. destruct a; eexists; split; try reflexivity; cbn; auto.
  - assert (forall len s skip i np u1 u2 e, i + List.length s = len ->
              cd_loop hc len a s skip i np u1 u2 = Ok e ->
              match e with CdReturn (Some n) => n <= len | _ => True end) as K.
    { intro len. induction s as [|c t IH]; intros skip i np u1 u2 e Hi H.
      - inversion H; subst. exact I.
      - cbn [cd_loop] in H. cbn [List.length] in Hi. destruct skip; [|eapply IH; [|exact H]; lia].
        destruct (beqb c x5c).
        + destruct (Nat.eqb len 0); [discriminate|].
          destruct (Nat.ltb i (len - 1)); [eapply IH; [|exact H]; lia|].
          destruct (negb _ && negb _).
          * inversion H; subst. destruct (_ && _); [lia | exact I].
          * eapply IH; [|exact H]; lia.
        + destruct (beqb c x5f); [eapply IH; [|exact H]; lia|].
          destruct (beqb c x2e); [eapply IH; [|exact H]; lia|].
          destruct (negb _ && negb _).
          * inversion H; subst. destruct (_ && _); [lia | exact I].
          * eapply IH; [|exact H]; lia. }
    destruct (cd_loop_total hc (List.length (b :: r)) a (Nat.lt_0_succ _) (b :: r) 0 0 0 0 0) as [e He].
    rewrite He. cbn [bind]. specialize (K (List.length (b :: r)) (b :: r) 0 0 0 0 0 e eq_refl He).
    destruct e as [[n|]|np u1 u2].
    + eexists; split; [reflexivity | exact K].
    + eexists; split; [reflexivity | exact I].
    + destruct (_ && _); [eexists; split; [reflexivity | exact I]|].
      destruct (a || _); eexists; split; try reflexivity; cbn; auto.
Qed.

(* autolink_delim *)
Lemma last_app_ne : forall (p s : bytes) d, s <> [] -> last (p ++ s) d = last s d.
Proof.
  induction p as [|x p IH]; intros s d H; [reflexivity|].
  cbn [app]. destruct (p ++ s) eqn:E.
  - destruct p; [cbn in E; contradiction | discriminate].
  - rewrite <- E. cbn [last]. rewrite E. rewrite <- E. apply IH, H.
Qed.

Lemma strip_alpha_suffix : forall t, t <> [] ->
  exists p, t = p ++ strip_alpha_keep_last t /\ strip_alpha_keep_last t <> [].
Proof.
  induction t as [|b r IH]; intro H; [contradiction|].
  cbn [strip_alpha_keep_last]. destruct r as [|c r'].
  - exists []. split; [reflexivity | discriminate].
  - destruct (sl_isalpha b).
    + destruct IH as [p [E N]]; [discriminate|]. exists (b :: p). split; [cbn [app]; f_equal; exact E | exact N].
    + exists []. split; [reflexivity | discriminate].
Qed.

Definition no_semi_last (rp : bytes) : Prop := rp <> [] -> last rp x00 <> x3b.

Lemma no_semi_suffix p s : no_semi_last (p ++ s) -> no_semi_last s.
Proof.
  intros H N. rewrite <- (last_app_ne p s x00 N). apply H. destruct p; [exact N | discriminate].
Qed.

Lemma delim_loop_ok : forall fuel relaxed rp, List.length rp < fuel -> no_semi_last rp ->
  exists n, delim_loop fuel relaxed rp = Ok n /\ n <= List.length rp.
Proof.
  induction fuel as [|f IH]; intros relaxed rp Hf Hs; [lia|].
  cbn [delim_loop]. destruct rp as [|cclose rest]; [exists 0; split; [reflexivity | lia]|].
  cbn [List.length] in Hf.
  assert (no_semi_last rest) as Hrest by (apply (no_semi_suffix [cclose] rest Hs)).
  assert (forall r', (exists p, rest = p ++ r') -> exists n, delim_loop f relaxed r' = Ok n /\ n <= List.length (cclose :: rest)) as Go.
  { intros r' [p E]. destruct (IH relaxed r') as [n [H1 H2]].
    - assert (List.length rest = List.length p + List.length r') by (rewrite E, app_length; reflexivity). lia.
    - apply (no_semi_suffix p r'). rewrite <- E. exact Hrest.
    - exists n. split; [exact H1|]. assert (List.length rest = List.length p + List.length r') by (rewrite E, app_length; reflexivity).
      cbn [List.length]. lia. }
  destruct (sl_link_end_assortment cclose); [apply Go; exists []; reflexivity|].
  destruct (beqb cclose x3b) eqn:Esemi.
  - destruct rest as [|r0 rest'].
    + exfalso. apply beqb_eq in Esemi. subst. apply Hs; [discriminate | reflexivity].
    + destruct (strip_alpha_suffix (r0 :: rest')) as [p [E N]]; [discriminate|].
      destruct (strip_alpha_keep_last (r0 :: rest')) as [|c below] eqn:Et; [contradiction|].
      destruct (Nat.ltb _ _ && beqb c x26).
      * apply Go. exists (p ++ [c]). rewrite <- app_assoc. exact E.
      * apply Go. exists []. reflexivity.
  - match goal with |- context [match ?co with Some _ => _ | None => _ end] => destruct co end.
    + destruct (Nat.leb _ _); [eexists; split; [reflexivity | lia]|]. apply Go. exists []. reflexivity.
    + eexists; split; [reflexivity | lia].
Qed.

Lemma last_rev_hd : forall (l : bytes) d, l <> [] -> last (rev l) d = hd d l.
Proof.
  intros l d H. destruct l as [|x l]; [contradiction|]. cbn [rev hd]. rewrite last_app_ne by discriminate. reflexivity.
Qed.

Theorem autolink_delim_total data link_end relaxed :
  link_end <= List.length data -> hd x00 data <> x3b ->
  exists n, autolink_delim data link_end relaxed = Ok n /\ n <= link_end.
Proof.
  intros Hl Hh. unfold autolink_delim.
  set (pre := firstn link_end data).
  assert (List.length pre = link_end) as Hpre by (unfold pre; apply firstn_length_le, Hl).
  set (cut := count_while_b (fun b => negb (beqb b x3c)) pre).
  assert (cut <= List.length pre) as Hcut.
  { unfold cut. clear. induction pre as [|b r IH]; cbn; [lia|]. destruct (negb _); cbn; lia. }
  set (le1 := if Nat.ltb cut (List.length pre) then cut else link_end).
  assert (le1 <= link_end) as Hle1 by (unfold le1; destruct (Nat.ltb cut (List.length pre)); lia).
  destruct (Nat.ltb (List.length data) le1) eqn:E; [apply Nat.ltb_lt in E; lia|].
  destruct (delim_loop_ok (S le1) relaxed (rev (firstn le1 data))) as [n [H1 H2]].
  - rewrite rev_length, firstn_length. lia.
  - intro N. rewrite last_rev_hd by (intro K; rewrite K in N; apply N; reflexivity).
    destruct data as [|d0 dt]; [destruct le1; cbn in N; contradiction|].
    destruct le1; [cbn in N; contradiction|]. exact Hh.
  - exists n. split; [exact H1|]. rewrite rev_length, firstn_length in H2. lia.
Qed.

Lemma autolink_delim_refuted : autolink_delim [x3b] 1 false = Panic "autolink.rs:autolink_delim:link_end - 2".
Proof. reflexivity. Qed.

(* ------------------------------------------------------------------ parse_list_marker *)
Definition digit_val_ok (b : byte) : bool := implb (sl_isdigit b) ((48 <=? bN b)%N && (bN b - 48 <=? 9)%N).
Lemma digit_val_ok_all : forall b, digit_val_ok b = true.
Proof. apply forall_bytes. vm_compute. reflexivity. Qed.

Opaque N.mul.
Lemma digits_loop_spec : forall left s start digits st' d' rest,
  digits_loop left s start digits = Ok (st', d', rest) ->
  match s with d :: _ => sl_isdigit d = true | [] => True end ->
  digits < d' /\ d' <= digits + Nat.max left 1 /\
  ((start < 10 ^ N.of_nat digits)%N -> (st' < 10 ^ N.of_nat d')%N).
Proof.
  induction left as [|l IH]; intros s start digits st' d' rest H Hd; destruct s as [|d r]; cbn [digits_loop] in H; try discriminate.
  - pose proof (digit_val_ok_all d) as K. unfold digit_val_ok in K. rewrite Hd in K. cbn [implb] in K.
    apply andb_true_iff in K. destruct K as [K1 K2]. apply N.leb_le in K1. apply N.leb_le in K2.
    destruct (bN d <? 48)%N eqn:E; [apply N.ltb_lt in E; lia|].
    injection H as Ea Eb Ec; subst st' d' rest. repeat split; try lia. intro Hs.
    rewrite Nat2N.inj_succ, N.pow_succ_r'. lia.
  - pose proof (digit_val_ok_all d) as K. unfold digit_val_ok in K. rewrite Hd in K. cbn [implb] in K.
    apply andb_true_iff in K. destruct K as [K1 K2]. apply N.leb_le in K1. apply N.leb_le in K2.
    destruct (bN d <? 48)%N eqn:E; [apply N.ltb_lt in E; lia|].
    assert ((start < 10 ^ N.of_nat digits)%N -> (10 * start + (bN d - 48) < 10 ^ N.of_nat (S digits))%N) as Hst.
    { intro Hs. rewrite Nat2N.inj_succ, N.pow_succ_r'. lia. }
    destruct l as [|l'].
    + injection H as Ea Eb Ec; subst st' d' rest. repeat split; try lia; try exact Hst.
    + destruct r as [|e r']; [discriminate|]. destruct (sl_isdigit e) eqn:Ee.
      * apply IH in H; [|exact Ee]. destruct H as [H1 [H2 H3]]. repeat split; try lia; try (intro Hs; apply H3, Hst, Hs).
      * injection H as Ea Eb Ec; subst st' d' rest. repeat split; try lia; try exact Hst.
Qed.

Transparent N.mul.

Theorem parse_list_marker_facts line pos ip n l :
  parse_list_marker line pos ip = Ok (Some (n, l)) ->
  (l_type l = Bullet /\ n = 1 /\ (l_bullet l = 42 \/ l_bullet l = 45 \/ l_bullet l = 43)%N /\ l_start l = 1%N) \/
  (l_type l = Ordered /\ 2 <= n /\ n <= S list_digits_cap /\ (l_start l < 10 ^ N.of_nat (n - 1))%N /\ l_bullet l = 0%N).
Proof.
  unfold parse_list_marker. destruct (skipn pos line) as [|c s1]; [discriminate|].
  destruct (beqb c x2a || beqb c x2d || beqb c x2b) eqn:Eb.
  - destruct s1 as [|d s1']; [discriminate|]. destruct (negb (sl_isspace d)); [discriminate|].
    destruct ip.
    + destruct (after_spaces (d :: s1')) as [e| |]; cbn [bind]; try discriminate.
      destruct (beqb e x0a); [discriminate|]. intro H. inversion H; subst. left.
      cbn. repeat split. apply orb_true_iff in Eb. destruct Eb as [Eb|Eb]; [apply orb_true_iff in Eb; destruct Eb as [Eb|Eb]|];
        apply beqb_eq in Eb; subst c; cbn; auto.
    + cbn [bind]. intro H. inversion H; subst. left.
      cbn. repeat split. apply orb_true_iff in Eb. destruct Eb as [Eb|Eb]; [apply orb_true_iff in Eb; destruct Eb as [Eb|Eb]|];
        apply beqb_eq in Eb; subst c; cbn; auto.
  - destruct (sl_isdigit c) eqn:Ed; [|discriminate].
    destruct (digits_loop list_digits_cap (c :: s1) 0%N 0) as [[[start digits] s2]| |] eqn:El; cbn [bind]; try discriminate.
    apply digits_loop_spec in El; [|exact Ed]. destruct El as [H1 [H2 H3]].
    destruct (ip && negb (start =? 1)%N); [discriminate|].
    destruct s2 as [|c2 s3]; [discriminate|].
    destruct (negb (beqb c2 x2e) && negb (beqb c2 x29)); [discriminate|].
    destruct s3 as [|d s3']; [discriminate|]. destruct (negb (sl_isspace d)); [discriminate|].
    assert ((start < 10 ^ N.of_nat digits)%N) as Hs by (apply H3; cbn; lia).
    unfold list_digits_cap in *. cbn [Nat.max] in H2.
    destruct ip.
    + destruct (after_spaces (d :: s3')) as [e| |]; cbn [bind]; try discriminate.
      destruct (is_line_end_char e); [discriminate|]. intro H. inversion H; subst. right.
      cbn. replace (digits - 0) with digits by lia. repeat split; try lia; try exact Hs.
    + cbn [bind]. intro H. inversion H; subst. right.
      cbn. replace (digits - 0) with digits by lia. repeat split; try lia; try exact Hs.
Qed.

Lemma parse_list_marker_refuted : parse_list_marker [x2d] 0 false = Panic "parser/mod.rs:parse_list_marker:line[pos]".
Proof. reflexivity. Qed.
