(* Proofs/CliProofs.v — C16: the flag -> option mapping of main.rs equals the documented one, the --gfm
   bundle, the in-place rule, the config splice, the overlapping-config characterisation. *)
From Coq Require Import List NArith ZArith Bool Lia Strings.String.
From V Require Import Base.Bytes Base.Res Gen.Cli Model.CliModel Spec.CliDoc.
Import ListNotations.
Local Open Scope string_scope.
Local Open Scope list_scope.
Local Open Scope bool_scope.

(* ------------------------------------------------------------------ names <-> variants *)
Lemma extension_eqb_eq a b : extension_eqb a b = true <-> a = b.
Proof. split; [destruct a, b; cbv; intro H; try reflexivity; discriminate H | intros ->; destruct b; reflexivity]. Qed.

Lemma extension_name_inj a b : extension_name a = extension_name b -> a = b.
Proof. destruct a, b; cbv; intro H; try reflexivity; discriminate H. Qed.

Lemma name_eqb_variant e x : String.eqb (extension_name x) (extension_name e) = extension_eqb e x.
Proof. destruct e, x; reflexivity. Qed.

Lemma ext_given_mem e c : ext_given (extension_name e) c = ext_mem e (c_extensions c).
Proof.
  unfold ext_given, ext_mem. induction (c_extensions c) as [|x l IH]; [reflexivity|].
  cbn [existsb]. rewrite IH, name_eqb_variant. reflexivity.
Qed.

Lemma ext_mem_In e l : ext_mem e l = true <-> In e l.
Proof.
  unfold ext_mem. rewrite existsb_exists. split.
  - intros [x [Hin He]]. apply extension_eqb_eq in He. subst. exact Hin.
  - intro H. exists e. split; [exact H | apply extension_eqb_eq; reflexivity].
Qed.

Lemma doc_list_style_into l : doc_list_style l = list_style_into l.
Proof. destruct l; reflexivity. Qed.

(* ------------------------------------------------------------------ the mapping *)
Lemma options_documented : forall c, options_of_cli c = documented_options c.
Proof.
  intro c. unfold options_of_cli, documented_options.
  rewrite <- !(ext_given_mem _ c). rewrite doc_list_style_into. reflexivity.
Qed.

(* each -e NAME switches on exactly the option of that name: stated on membership *)
Lemma extension_exact : forall c e,
  In e (c_extensions c) <-> ext_given (extension_name e) c = true.
Proof. intros c e. rewrite ext_given_mem, ext_mem_In. reflexivity. Qed.

Lemma extension_names_documented : map extension_name all_extensions = documented_extension_names.
Proof. reflexivity. Qed.
Lemma format_names_documented : map format_name all_formats = documented_format_names.
Proof. reflexivity. Qed.
Lemma list_style_names_documented : map list_style_name all_list_styles = documented_list_style_names.
Proof. reflexivity. Qed.
Lemma all_extensions_complete : forall e, In e all_extensions.
Proof. destruct e; cbv; tauto. Qed.

Lemma flags_documented :
  map flag_view (filter (fun f => negb (is_positional f)) cli_flags) = documented_flags.
Proof. reflexivity. Qed.

(* ------------------------------------------------------------------ --gfm *)
Definition with_gfm (b : bool) (c : cli) : cli := {|
  c_files := c_files c; c_config_file := c_config_file c; c_inplace := c_inplace c; c_hardbreaks := c_hardbreaks c;
  c_smart := c_smart c; c_github_pre_lang := c_github_pre_lang c; c_full_info_string := c_full_info_string c;
  c_gfm := b; c_gfm_quirks := c_gfm_quirks c; c_relaxed_tasklist_character := c_relaxed_tasklist_character c;
  c_relaxed_autolinks := c_relaxed_autolinks c; c_tasklist_classes := c_tasklist_classes c;
  c_default_info_string := c_default_info_string c; c_unsafe_ := c_unsafe_ c; c_escape := c_escape c;
  c_escaped_char_spans := c_escaped_char_spans c; c_extensions := c_extensions c; c_format := c_format c;
  c_output := c_output c; c_width := c_width c; c_header_ids := c_header_ids c;
  c_front_matter_delimiter := c_front_matter_delimiter c; c_syntax_highlighting := c_syntax_highlighting c;
  c_list_style := c_list_style c; c_sourcepos := c_sourcepos c; c_ignore_setext := c_ignore_setext c;
  c_ignore_empty_links := c_ignore_empty_links c;
  c_experimental_minimize_commonmark := c_experimental_minimize_commonmark c |}.

(* the same command line with --gfm spelled out: -e strikethrough,tagfilter,table,autolink,tasklist
   --github-pre-lang --gfm-quirks *)
Definition gfm_spelled_out (c : cli) : cli := {|
  c_files := c_files c; c_config_file := c_config_file c; c_inplace := c_inplace c; c_hardbreaks := c_hardbreaks c;
  c_smart := c_smart c; c_github_pre_lang := true; c_full_info_string := c_full_info_string c;
  c_gfm := false; c_gfm_quirks := true; c_relaxed_tasklist_character := c_relaxed_tasklist_character c;
  c_relaxed_autolinks := c_relaxed_autolinks c; c_tasklist_classes := c_tasklist_classes c;
  c_default_info_string := c_default_info_string c; c_unsafe_ := c_unsafe_ c; c_escape := c_escape c;
  c_escaped_char_spans := c_escaped_char_spans c; c_extensions := gfm_bundle_exts ++ c_extensions c; c_format := c_format c;
  c_output := c_output c; c_width := c_width c; c_header_ids := c_header_ids c;
  c_front_matter_delimiter := c_front_matter_delimiter c; c_syntax_highlighting := c_syntax_highlighting c;
  c_list_style := c_list_style c; c_sourcepos := c_sourcepos c; c_ignore_setext := c_ignore_setext c;
  c_ignore_empty_links := c_ignore_empty_links c;
  c_experimental_minimize_commonmark := c_experimental_minimize_commonmark c |}.

Lemma ext_mem_app e a b : ext_mem e (a ++ b) = ext_mem e a || ext_mem e b.
Proof. unfold ext_mem. apply existsb_app. Qed.

Lemma gfm_bundle_exts_value :
  gfm_bundle_exts = [E_Strikethrough; E_Tagfilter; E_Table; E_Autolink; E_Tasklist].
Proof. reflexivity. Qed.

Lemma gfm_is_its_bundle : forall c,
  options_of_cli (with_gfm true c) = options_of_cli (gfm_spelled_out c).
Proof.
  intro c. unfold options_of_cli, with_gfm, gfm_spelled_out. cbn [c_gfm c_extensions c_github_pre_lang c_gfm_quirks
    c_header_ids c_front_matter_delimiter c_smart c_default_info_string c_relaxed_tasklist_character c_relaxed_autolinks
    c_hardbreaks c_full_info_string c_width c_unsafe_ c_escape c_list_style c_sourcepos c_experimental_minimize_commonmark
    c_escaped_char_spans c_ignore_setext c_ignore_empty_links c_tasklist_classes].
  rewrite !ext_mem_app, gfm_bundle_exts_value.
  repeat match goal with |- context [ext_mem ?e [E_Strikethrough; E_Tagfilter; E_Table; E_Autolink; E_Tasklist]] =>
    change (ext_mem e [E_Strikethrough; E_Tagfilter; E_Table; E_Autolink; E_Tasklist]) with true
    || change (ext_mem e [E_Strikethrough; E_Tagfilter; E_Table; E_Autolink; E_Tasklist]) with false end.
  cbn [orb]. rewrite ?orb_true_r, ?orb_false_r. reflexivity.
Qed.

(* and --gfm sets the seven options whatever else is given *)
Lemma gfm_sets_seven : forall c, c_gfm c = true ->
  let o := options_of_cli c in
  o_strikethrough o = true /\ o_tagfilter o = true /\ o_table o = true /\ o_autolink o = true /\
  o_tasklist o = true /\ o_github_pre_lang o = true /\ o_gfm_quirks o = true.
Proof. intros c H. cbn. rewrite H, !orb_true_r. repeat split. Qed.

(* nothing else depends on --gfm *)
Lemma gfm_touches_only_seven : forall c b,
  let o := options_of_cli (with_gfm b c) in let o' := options_of_cli c in
  o_superscript o = o_superscript o' /\ o_header_ids o = o_header_ids o' /\ o_footnotes o = o_footnotes o' /\
  o_description_lists o = o_description_lists o' /\ o_multiline_block_quotes o = o_multiline_block_quotes o' /\
  o_math_dollars o = o_math_dollars o' /\ o_math_code o = o_math_code o' /\
  o_wikilinks_title_after_pipe o = o_wikilinks_title_after_pipe o' /\
  o_wikilinks_title_before_pipe o = o_wikilinks_title_before_pipe o' /\ o_underline o = o_underline o' /\
  o_subscript o = o_subscript o' /\ o_spoiler o = o_spoiler o' /\ o_greentext o = o_greentext o' /\
  o_alerts o = o_alerts o' /\ o_front_matter_delimiter o = o_front_matter_delimiter o' /\ o_smart o = o_smart o' /\
  o_default_info_string o = o_default_info_string o' /\ o_relaxed_tasklist_matching o = o_relaxed_tasklist_matching o' /\
  o_relaxed_autolinks o = o_relaxed_autolinks o' /\ o_hardbreaks o = o_hardbreaks o' /\
  o_full_info_string o = o_full_info_string o' /\ o_width o = o_width o' /\ o_unsafe_ o = o_unsafe_ o' /\
  o_escape o = o_escape o' /\ o_list_style o = o_list_style o' /\ o_sourcepos o = o_sourcepos o' /\
  o_experimental_minimize_commonmark o = o_experimental_minimize_commonmark o' /\
  o_escaped_char_spans o = o_escaped_char_spans o' /\ o_ignore_setext o = o_ignore_setext o' /\
  o_ignore_empty_links o = o_ignore_empty_links o' /\ o_tasklist_classes o = o_tasklist_classes o' /\
  o_prefer_fenced o = o_prefer_fenced o' /\ o_figure_with_caption o = o_figure_with_caption o' /\ o_ol_width o = o_ol_width o'.
Proof. intros c b. cbn. repeat split. Qed.

(* ------------------------------------------------------------------ formatter, sink, in-place *)
Lemma inplace_commonmark : forall c, c_inplace c = true -> formatter_of c = R_commonmark.
Proof. intros c H. unfold formatter_of. rewrite H. reflexivity. Qed.

Lemma inplace_no_highlighter : forall c, c_inplace c = true -> installs_highlighter c = false.
Proof. intros c H. unfold installs_highlighter. rewrite H. reflexivity. Qed.

Lemma renderer_documented : forall c, formatter_of c = documented_renderer c.
Proof. intro c. unfold formatter_of, documented_renderer. destruct (c_inplace c); [reflexivity|]. destruct (c_format c); reflexivity. Qed.

Lemma sink_documented : forall c, sink_of c = documented_sink c.
Proof. reflexivity. Qed.

Lemma highlighter_html_only : forall c, installs_highlighter c = true <-> formatter_of c = R_html.
Proof.
  intro c. unfold installs_highlighter, formatter_of. destruct (c_inplace c); [split; discriminate|].
  destruct (c_format c); split; (reflexivity || discriminate).
Qed.

Lemma highlighter_documented : forall c, highlighter_of c = documented_highlighter c.
Proof.
  intro c. unfold highlighter_of, documented_highlighter, highlight_none_word.
  change (B "none") with [x6e; x6f; x6e; x65].
  destruct (c_syntax_highlighting c) as [|b t]; [reflexivity|].
  cbn [is_empty_bytes orb]. destruct (bytes_eqb (b :: t) [x6e; x6f; x6e; x65]); reflexivity.
Qed.

(* in-place needs exactly one FILE; otherwise exit status EXIT_CHECK_FILE_NUM = 4, nothing rendered *)
Lemma inplace_precheck_spec : forall c,
  inplace_precheck c = None <-> (c_inplace c = false \/ exists f, c_files c = Some [f]).
Proof.
  intro c. unfold inplace_precheck. destruct (c_inplace c).
  - destruct (c_files c) as [[|f [|g r]]|]; cbn; split; intro H; try discriminate; try reflexivity.
    + destruct H as [H|[x H]]; discriminate.
    + right. exists f. reflexivity.
    + destruct H as [H|[x H]]; discriminate.
    + destruct H as [H|[x H]]; discriminate.
  - split; [left; reflexivity | reflexivity].
Qed.

Lemma exit_codes_distinct :
  EXIT_SUCCESS = 0%Z /\ EXIT_PARSE_CONFIG <> 0%Z /\ EXIT_READ_INPUT <> 0%Z /\ EXIT_CHECK_FILE_NUM <> 0%Z /\
  read_error_exit <> success_exit /\ config_parse_error_exit <> success_exit.
Proof. cbv. repeat split; discriminate. Qed.

(* ------------------------------------------------------------------ config splice *)
Lemma vec_insert_at {A} (pre : list A) x l : vec_insert (List.length pre) x (pre ++ l) = Ok (pre ++ x :: l).
Proof. induction pre as [|y p IH]; [reflexivity|]. cbn [List.length app vec_insert]. rewrite IH. reflexivity. Qed.

Lemma splice_from_all_utf8 : forall real pre config,
  splice_from (List.length pre) (map Some real) (pre ++ config) = Ok (pre ++ real ++ config).
Proof.
  induction real as [|w r IH]; intros pre config; [reflexivity|].
  cbn [map splice_from]. rewrite vec_insert_at. cbn [bind].
  replace (S (List.length pre)) with (List.length (pre ++ [w])) by (rewrite app_length; cbn; lia).
  replace (pre ++ w :: config) with ((pre ++ [w]) ++ config) by (rewrite <- app_assoc; reflexivity).
  rewrite IH. rewrite <- app_assoc. reflexivity.
Qed.

(* every real argument valid UTF-8: clap's second parse receives the real argv followed by the config words *)
Lemma splice_all_utf8 : forall real config, splice (map Some real) config = Ok (real ++ config).
Proof. intros. exact (splice_from_all_utf8 real [] config). Qed.

Lemma config_model_splice : forall real cf config,
  bytes_eqb cf config_none_word = false ->
  cli_with_config_model (map Some real) cf (Cfg_words config) = Ok (Parse_twice (map Some real) (real ++ config)).
Proof. intros real cf config H. unfold cli_with_config_model. rewrite H, splice_all_utf8. reflexivity. Qed.

Lemma config_model_none : forall real src,
  cli_with_config_model real config_none_word src = Ok (Parse_once real).
Proof. reflexivity. Qed.

Lemma config_model_unreadable : forall real cf,
  cli_with_config_model real cf Cfg_unreadable = Ok (Parse_once real).
Proof. intros. unfold cli_with_config_model. destruct (bytes_eqb cf config_none_word); reflexivity. Qed.

Lemma config_model_bad_quotes : forall real cf, bytes_eqb cf config_none_word = false ->
  cli_with_config_model real cf Cfg_bad_quotes = Ok (Exit_with 2%Z).
Proof. intros real cf H. unfold cli_with_config_model. rewrite H. reflexivity. Qed.

(* the general statement (any argv) is false: an argument that is not UTF-8 consumes an index *)
Definition w (s : string) : word := B s.
Lemma splice_nonutf8_panics :
  exists site, splice [Some (w "comrak"); None; Some (w "b.md")] [] = Panic site.
Proof. eexists. reflexivity. Qed.

Lemma splice_nonutf8_drops_and_reorders :
  splice [Some (w "comrak"); None; Some (w "b.md")] [w "--smart"] = Ok [w "comrak"; w "--smart"; w "b.md"].
Proof. reflexivity. Qed.

(* ------------------------------------------------------------------ overlapping config (F19) *)
Lemma is_append_same f : is_append_flag f = flag_is_append f.
Proof. reflexivity. Qed.

Lemma mem_str_app s a b : mem_str s (a ++ b) = mem_str s a || mem_str s b.
Proof. unfold mem_str. apply existsb_app. Qed.

Lemma clap_accepts_app : forall real config,
  clap_accepts (real ++ config) = clap_accepts real && clap_accepts config && negb (overlapping_config real config).
Proof.
  induction real as [|f r IH]; intro config.
  - cbn. rewrite andb_true_r. reflexivity.
  - cbn [app clap_accepts]. rewrite IH, mem_str_app. unfold overlapping_config. cbn [existsb].
    fold (overlapping_config r config). fold (mem_str f config). change (flag_is_append f) with (is_append_flag f).
    destruct (is_append_flag f), (mem_str f r), (mem_str f config), (clap_accepts r), (clap_accepts config),
      (overlapping_config r config); reflexivity.
Qed.

Lemma merge_ok_iff_disjoint : forall real config,
  clap_accepts real = true -> clap_accepts config = true ->
  clap_accepts (documented_effective_flags real config) = negb (overlapping_config real config).
Proof. intros real config H1 H2. unfold documented_effective_flags. rewrite clap_accepts_app, H1, H2. reflexivity. Qed.

Lemma merge_refuted :
  exists real config, clap_accepts real = true /\ clap_accepts config = true /\
    overlapping_config real config = true /\ clap_accepts (real ++ config) = false.
Proof. exists ["gfm"], ["gfm"]. repeat split. Qed.

Lemma append_flags_may_overlap :
  clap_accepts (["extensions"; "smart"] ++ ["extensions"; "files"; "files"]) = true.
Proof. reflexivity. Qed.

(* ------------------------------------------------------------------ outside nonutf8_argv_with_config *)
Lemma all_utf8_map_some : forall real, existsb is_nonutf8 real = false -> exists r, real = map Some r.
Proof.
  induction real as [|a l IH]; intro H; [exists []; reflexivity|].
  cbn [existsb] in H. apply orb_false_iff in H. destruct H as [Ha Hl].
  destruct a as [x|]; [|discriminate Ha]. destruct (IH Hl) as [r ->]. exists (x :: r). reflexivity.
Qed.

Lemma splice_outside_known : forall real config,
  nonutf8_argv_with_config real true = false ->
  exists r, real = map Some r /\ splice real config = Ok (r ++ config).
Proof.
  intros real config H. unfold nonutf8_argv_with_config in H. cbn [andb] in H.
  destruct (all_utf8_map_some real H) as [r ->]. exists r. split; [reflexivity | apply splice_all_utf8].
Qed.

Lemma splice_witness_in_known :
  nonutf8_argv_with_config [Some (w "comrak"); None; Some (w "b.md")] true = true.
Proof. reflexivity. Qed.

(* the two general statements that are false of the code (pinned in Props/C16.v) *)
Lemma splice_full_refuted :
  ~ (forall (real : list (option word)) (config : list word),
       exists out, splice real config = Ok out /\ List.length out = List.length real + List.length config).
Proof.
  intro H. destruct (H [Some (w "comrak"); None; Some (w "b.md")] []) as [out [E _]].
  destruct splice_nonutf8_panics as [site P]. rewrite P in E. discriminate E.
Qed.

Lemma merge_full_refuted :
  ~ (forall real config, clap_accepts real = true -> clap_accepts config = true ->
       clap_accepts (documented_effective_flags real config) = true).
Proof. intro H. specialize (H ["gfm"] ["gfm"] eq_refl eq_refl). discriminate H. Qed.

Lemma inplace_forces : forall c, c_inplace c = true ->
  formatter_of c = R_commonmark /\ installs_highlighter c = false.
Proof. intros c H. split; [apply inplace_commonmark | apply inplace_no_highlighter]; exact H. Qed.

Lemma plan_documented : forall c,
  formatter_of c = documented_renderer c /\ sink_of c = documented_sink c /\
  highlighter_of c = documented_highlighter c /\ (installs_highlighter c = true <-> formatter_of c = R_html).
Proof. intro c. repeat split; try apply renderer_documented; try apply sink_documented; try apply highlighter_documented; apply highlighter_html_only. Qed.

Lemma value_names_documented :
  map extension_name all_extensions = documented_extension_names /\
  map format_name all_formats = documented_format_names /\
  map list_style_name all_list_styles = documented_list_style_names /\
  (forall e, In e all_extensions).
Proof. exact (conj extension_names_documented (conj format_names_documented (conj list_style_names_documented all_extensions_complete))). Qed.

Lemma config_untouched : forall real cf src,
  cli_with_config_model real config_none_word src = Ok (Parse_once real) /\
  cli_with_config_model real cf Cfg_unreadable = Ok (Parse_once real) /\
  (bytes_eqb cf config_none_word = false -> cli_with_config_model real cf Cfg_bad_quotes = Ok (Exit_with 2%Z)).
Proof. intros real cf src. exact (conj (config_model_none real src) (conj (config_model_unreadable real cf) (config_model_bad_quotes real cf))). Qed.
