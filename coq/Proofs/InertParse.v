(* Proofs/InertParse.v -- property C13 on the WHOLE parser model Parse.parse_document_model: the composition
   block phase -> inline phase per leaf -> footnote pass -> text post-pass.

   1. `po_with F v o`: the option record of the whole parser with the switch of feature F (Spec/Triggers.v) set to v.
      Its image in the block options (`bopts_of`) and in the inline options (`iopts_of`, = InertFeatures.io_with).
   2. Extensionality of the phases after the block phase: `after_blocks o1 .. = after_blocks o2 ..` when
        - the inline parser gives the same result on every leaf of the block tree (run_leaves_ext),
        - the footnote pass does the same (it reads po_footnotes only),
        - the four options the text post-pass reads agree (autolink, tasklist, relaxed_autolinks,
          relaxed_tasklist_matching: `postprocess_block_ext`; nothing else is read by postprocess_text_nodes).
   3. `parse_compose_okle` / `parse_compose_eq`: the whole parser.
   4. The features whose switch is read by the block phase ONLY (alerts, multiline block quotes, description lists,
      table): the okle theorems of Proofs/InertBlocks.v lift to the whole parser.
   The features read by the inline phase need the leaf contents to be trigger free: Proofs/InertParseContent.v, then
   Proofs/InertParseFeatures.v. *)
From Coq Require Import List NArith Arith Bool Lia Strings.String.
From V Require Import Base.Bytes Base.Res Model.Ast Model.Strings Model.RefDef Model.Blocks Model.Inlines Model.Footnotes
  Model.Parse Proofs.InertRegex Proofs.InertBlocks Proofs.InertInlines Proofs.InertFeatures Spec.Triggers.
Import ListNotations.
Local Open Scope string_scope.
Local Open Scope list_scope.

(* ================================================================== 1. the switch of a feature *)
(* the front matter delimiter of the check (Spec/Triggers.v): three hyphens *)
Definition fm_delim : bytes := [x2d; x2d; x2d].

(* Tagfilter and HeaderIds are read by the renderers only: the parser's record has no such field *)
Definition po_with (F : feature) (v : bool) (o : popts) : popts :=
  match F with
| Triggers.Strikethrough => mkPO (po_table o) (po_footnotes o) (po_description_lists o) (po_multiline_block_quotes o)
      (po_alerts o) (po_spoiler o) (po_greentext o) (po_ignore_setext o) (po_front_matter_delimiter o)
      (po_default_info_string o) (po_autolink o) v (po_subscript o) (po_superscript o) (po_underline o)
      (po_math_dollars o) (po_math_code o) (po_wikilinks_after o) (po_wikilinks_before o) (po_tasklist o) (po_smart o)
      (po_relaxed_autolinks o) (po_relaxed_tasklist o) (po_escaped_char_spans o) (po_ignore_empty_links o)
| Triggers.Table => mkPO v (po_footnotes o) (po_description_lists o) (po_multiline_block_quotes o) (po_alerts o)
      (po_spoiler o) (po_greentext o) (po_ignore_setext o) (po_front_matter_delimiter o) (po_default_info_string o)
      (po_autolink o) (po_strikethrough o) (po_subscript o) (po_superscript o) (po_underline o) (po_math_dollars o)
      (po_math_code o) (po_wikilinks_after o) (po_wikilinks_before o) (po_tasklist o) (po_smart o)
      (po_relaxed_autolinks o) (po_relaxed_tasklist o) (po_escaped_char_spans o) (po_ignore_empty_links o)
| Triggers.Autolink => mkPO (po_table o) (po_footnotes o) (po_description_lists o) (po_multiline_block_quotes o)
      (po_alerts o) (po_spoiler o) (po_greentext o) (po_ignore_setext o) (po_front_matter_delimiter o)
      (po_default_info_string o) v (po_strikethrough o) (po_subscript o) (po_superscript o) (po_underline o)
      (po_math_dollars o) (po_math_code o) (po_wikilinks_after o) (po_wikilinks_before o) (po_tasklist o) (po_smart o)
      (po_relaxed_autolinks o) (po_relaxed_tasklist o) (po_escaped_char_spans o) (po_ignore_empty_links o)
| Triggers.Tasklist => mkPO (po_table o) (po_footnotes o) (po_description_lists o) (po_multiline_block_quotes o)
      (po_alerts o) (po_spoiler o) (po_greentext o) (po_ignore_setext o) (po_front_matter_delimiter o)
      (po_default_info_string o) (po_autolink o) (po_strikethrough o) (po_subscript o) (po_superscript o)
      (po_underline o) (po_math_dollars o) (po_math_code o) (po_wikilinks_after o) (po_wikilinks_before o) v (po_smart
      o) (po_relaxed_autolinks o) (po_relaxed_tasklist o) (po_escaped_char_spans o) (po_ignore_empty_links o)
| Triggers.Superscript => mkPO (po_table o) (po_footnotes o) (po_description_lists o) (po_multiline_block_quotes o)
      (po_alerts o) (po_spoiler o) (po_greentext o) (po_ignore_setext o) (po_front_matter_delimiter o)
      (po_default_info_string o) (po_autolink o) (po_strikethrough o) (po_subscript o) v (po_underline o)
      (po_math_dollars o) (po_math_code o) (po_wikilinks_after o) (po_wikilinks_before o) (po_tasklist o) (po_smart o)
      (po_relaxed_autolinks o) (po_relaxed_tasklist o) (po_escaped_char_spans o) (po_ignore_empty_links o)
| Triggers.Footnotes => mkPO (po_table o) v (po_description_lists o) (po_multiline_block_quotes o) (po_alerts o)
      (po_spoiler o) (po_greentext o) (po_ignore_setext o) (po_front_matter_delimiter o) (po_default_info_string o)
      (po_autolink o) (po_strikethrough o) (po_subscript o) (po_superscript o) (po_underline o) (po_math_dollars o)
      (po_math_code o) (po_wikilinks_after o) (po_wikilinks_before o) (po_tasklist o) (po_smart o)
      (po_relaxed_autolinks o) (po_relaxed_tasklist o) (po_escaped_char_spans o) (po_ignore_empty_links o)
| Triggers.DescriptionLists => mkPO (po_table o) (po_footnotes o) v (po_multiline_block_quotes o) (po_alerts o)
      (po_spoiler o) (po_greentext o) (po_ignore_setext o) (po_front_matter_delimiter o) (po_default_info_string o)
      (po_autolink o) (po_strikethrough o) (po_subscript o) (po_superscript o) (po_underline o) (po_math_dollars o)
      (po_math_code o) (po_wikilinks_after o) (po_wikilinks_before o) (po_tasklist o) (po_smart o)
      (po_relaxed_autolinks o) (po_relaxed_tasklist o) (po_escaped_char_spans o) (po_ignore_empty_links o)
| Triggers.FrontMatter => mkPO (po_table o) (po_footnotes o) (po_description_lists o) (po_multiline_block_quotes o)
      (po_alerts o) (po_spoiler o) (po_greentext o) (po_ignore_setext o) (if v then Some fm_delim else None)
      (po_default_info_string o) (po_autolink o) (po_strikethrough o) (po_subscript o) (po_superscript o)
      (po_underline o) (po_math_dollars o) (po_math_code o) (po_wikilinks_after o) (po_wikilinks_before o)
      (po_tasklist o) (po_smart o) (po_relaxed_autolinks o) (po_relaxed_tasklist o) (po_escaped_char_spans o)
      (po_ignore_empty_links o)
| Triggers.MultilineBlockQuotes => mkPO (po_table o) (po_footnotes o) (po_description_lists o) v (po_alerts o)
      (po_spoiler o) (po_greentext o) (po_ignore_setext o) (po_front_matter_delimiter o) (po_default_info_string o)
      (po_autolink o) (po_strikethrough o) (po_subscript o) (po_superscript o) (po_underline o) (po_math_dollars o)
      (po_math_code o) (po_wikilinks_after o) (po_wikilinks_before o) (po_tasklist o) (po_smart o)
      (po_relaxed_autolinks o) (po_relaxed_tasklist o) (po_escaped_char_spans o) (po_ignore_empty_links o)
| Triggers.Alerts => mkPO (po_table o) (po_footnotes o) (po_description_lists o) (po_multiline_block_quotes o) v
      (po_spoiler o) (po_greentext o) (po_ignore_setext o) (po_front_matter_delimiter o) (po_default_info_string o)
      (po_autolink o) (po_strikethrough o) (po_subscript o) (po_superscript o) (po_underline o) (po_math_dollars o)
      (po_math_code o) (po_wikilinks_after o) (po_wikilinks_before o) (po_tasklist o) (po_smart o)
      (po_relaxed_autolinks o) (po_relaxed_tasklist o) (po_escaped_char_spans o) (po_ignore_empty_links o)
| Triggers.MathDollars => mkPO (po_table o) (po_footnotes o) (po_description_lists o) (po_multiline_block_quotes o)
      (po_alerts o) (po_spoiler o) (po_greentext o) (po_ignore_setext o) (po_front_matter_delimiter o)
      (po_default_info_string o) (po_autolink o) (po_strikethrough o) (po_subscript o) (po_superscript o)
      (po_underline o) v (po_math_code o) (po_wikilinks_after o) (po_wikilinks_before o) (po_tasklist o) (po_smart o)
      (po_relaxed_autolinks o) (po_relaxed_tasklist o) (po_escaped_char_spans o) (po_ignore_empty_links o)
| Triggers.MathCode => mkPO (po_table o) (po_footnotes o) (po_description_lists o) (po_multiline_block_quotes o)
      (po_alerts o) (po_spoiler o) (po_greentext o) (po_ignore_setext o) (po_front_matter_delimiter o)
      (po_default_info_string o) (po_autolink o) (po_strikethrough o) (po_subscript o) (po_superscript o)
      (po_underline o) (po_math_dollars o) v (po_wikilinks_after o) (po_wikilinks_before o) (po_tasklist o) (po_smart
      o) (po_relaxed_autolinks o) (po_relaxed_tasklist o) (po_escaped_char_spans o) (po_ignore_empty_links o)
| Triggers.WikilinksAfterPipe => mkPO (po_table o) (po_footnotes o) (po_description_lists o)
      (po_multiline_block_quotes o) (po_alerts o) (po_spoiler o) (po_greentext o) (po_ignore_setext o)
      (po_front_matter_delimiter o) (po_default_info_string o) (po_autolink o) (po_strikethrough o) (po_subscript o)
      (po_superscript o) (po_underline o) (po_math_dollars o) (po_math_code o) v (po_wikilinks_before o) (po_tasklist
      o) (po_smart o) (po_relaxed_autolinks o) (po_relaxed_tasklist o) (po_escaped_char_spans o)
      (po_ignore_empty_links o)
| Triggers.WikilinksBeforePipe => mkPO (po_table o) (po_footnotes o) (po_description_lists o)
      (po_multiline_block_quotes o) (po_alerts o) (po_spoiler o) (po_greentext o) (po_ignore_setext o)
      (po_front_matter_delimiter o) (po_default_info_string o) (po_autolink o) (po_strikethrough o) (po_subscript o)
      (po_superscript o) (po_underline o) (po_math_dollars o) (po_math_code o) (po_wikilinks_after o) v (po_tasklist
      o) (po_smart o) (po_relaxed_autolinks o) (po_relaxed_tasklist o) (po_escaped_char_spans o)
      (po_ignore_empty_links o)
| Triggers.Underline => mkPO (po_table o) (po_footnotes o) (po_description_lists o) (po_multiline_block_quotes o)
      (po_alerts o) (po_spoiler o) (po_greentext o) (po_ignore_setext o) (po_front_matter_delimiter o)
      (po_default_info_string o) (po_autolink o) (po_strikethrough o) (po_subscript o) (po_superscript o) v
      (po_math_dollars o) (po_math_code o) (po_wikilinks_after o) (po_wikilinks_before o) (po_tasklist o) (po_smart o)
      (po_relaxed_autolinks o) (po_relaxed_tasklist o) (po_escaped_char_spans o) (po_ignore_empty_links o)
| Triggers.Subscript => mkPO (po_table o) (po_footnotes o) (po_description_lists o) (po_multiline_block_quotes o)
      (po_alerts o) (po_spoiler o) (po_greentext o) (po_ignore_setext o) (po_front_matter_delimiter o)
      (po_default_info_string o) (po_autolink o) (po_strikethrough o) v (po_superscript o) (po_underline o)
      (po_math_dollars o) (po_math_code o) (po_wikilinks_after o) (po_wikilinks_before o) (po_tasklist o) (po_smart o)
      (po_relaxed_autolinks o) (po_relaxed_tasklist o) (po_escaped_char_spans o) (po_ignore_empty_links o)
| Triggers.Spoiler => mkPO (po_table o) (po_footnotes o) (po_description_lists o) (po_multiline_block_quotes o)
      (po_alerts o) v (po_greentext o) (po_ignore_setext o) (po_front_matter_delimiter o) (po_default_info_string o)
      (po_autolink o) (po_strikethrough o) (po_subscript o) (po_superscript o) (po_underline o) (po_math_dollars o)
      (po_math_code o) (po_wikilinks_after o) (po_wikilinks_before o) (po_tasklist o) (po_smart o)
      (po_relaxed_autolinks o) (po_relaxed_tasklist o) (po_escaped_char_spans o) (po_ignore_empty_links o)
| Triggers.Greentext => mkPO (po_table o) (po_footnotes o) (po_description_lists o) (po_multiline_block_quotes o)
      (po_alerts o) (po_spoiler o) v (po_ignore_setext o) (po_front_matter_delimiter o) (po_default_info_string o)
      (po_autolink o) (po_strikethrough o) (po_subscript o) (po_superscript o) (po_underline o) (po_math_dollars o)
      (po_math_code o) (po_wikilinks_after o) (po_wikilinks_before o) (po_tasklist o) (po_smart o)
      (po_relaxed_autolinks o) (po_relaxed_tasklist o) (po_escaped_char_spans o) (po_ignore_empty_links o)
| Triggers.Smart => mkPO (po_table o) (po_footnotes o) (po_description_lists o) (po_multiline_block_quotes o)
      (po_alerts o) (po_spoiler o) (po_greentext o) (po_ignore_setext o) (po_front_matter_delimiter o)
      (po_default_info_string o) (po_autolink o) (po_strikethrough o) (po_subscript o) (po_superscript o)
      (po_underline o) (po_math_dollars o) (po_math_code o) (po_wikilinks_after o) (po_wikilinks_before o)
      (po_tasklist o) v (po_relaxed_autolinks o) (po_relaxed_tasklist o) (po_escaped_char_spans o)
      (po_ignore_empty_links o)
| Triggers.RelaxedTasklist => mkPO (po_table o) (po_footnotes o) (po_description_lists o) (po_multiline_block_quotes
      o) (po_alerts o) (po_spoiler o) (po_greentext o) (po_ignore_setext o) (po_front_matter_delimiter o)
      (po_default_info_string o) (po_autolink o) (po_strikethrough o) (po_subscript o) (po_superscript o)
      (po_underline o) (po_math_dollars o) (po_math_code o) (po_wikilinks_after o) (po_wikilinks_before o)
      (po_tasklist o) (po_smart o) (po_relaxed_autolinks o) v (po_escaped_char_spans o) (po_ignore_empty_links o)
| Triggers.RelaxedAutolinks => mkPO (po_table o) (po_footnotes o) (po_description_lists o) (po_multiline_block_quotes
      o) (po_alerts o) (po_spoiler o) (po_greentext o) (po_ignore_setext o) (po_front_matter_delimiter o)
      (po_default_info_string o) (po_autolink o) (po_strikethrough o) (po_subscript o) (po_superscript o)
      (po_underline o) (po_math_dollars o) (po_math_code o) (po_wikilinks_after o) (po_wikilinks_before o)
      (po_tasklist o) (po_smart o) v (po_relaxed_tasklist o) (po_escaped_char_spans o) (po_ignore_empty_links o)
  | Triggers.Tagfilter | Triggers.HeaderIds => o
  end.

Lemma iopts_of_with F v o : iopts_of (po_with F v o) = io_with F v (iopts_of o).
Proof. destruct F; reflexivity. Qed.

(* the features whose switch the block phase does not read *)
Definition block_blind (F : feature) : bool :=
  match F with
  | Triggers.Strikethrough | Triggers.Autolink | Triggers.Tasklist | Triggers.Superscript | Triggers.MathDollars
  | Triggers.MathCode | Triggers.WikilinksAfterPipe | Triggers.WikilinksBeforePipe | Triggers.Underline
  | Triggers.Subscript | Triggers.Smart | Triggers.RelaxedTasklist | Triggers.RelaxedAutolinks
  | Triggers.Tagfilter | Triggers.HeaderIds => true
  | _ => false
  end.

Lemma bopts_of_blind F v v' o u : block_blind F = true -> bopts_of (po_with F v o) u = bopts_of (po_with F v' o) u.
Proof. destruct F; intro H; try discriminate H; reflexivity. Qed.

Lemma bopts_of_footnotes v o u : bopts_of (po_with Triggers.Footnotes v o) u = bo_with_footnotes v (bopts_of o u).
Proof. reflexivity. Qed.
Lemma bopts_of_alerts v o u : bopts_of (po_with Triggers.Alerts v o) u = bo_with_alerts v (bopts_of o u).
Proof. reflexivity. Qed.
Lemma bopts_of_mbq v o u :
  bopts_of (po_with Triggers.MultilineBlockQuotes v o) u = bo_with_multiline_block_quotes v (bopts_of o u).
Proof. reflexivity. Qed.
Lemma bopts_of_dl v o u : bopts_of (po_with Triggers.DescriptionLists v o) u = bo_with_description_lists v (bopts_of o u).
Proof. reflexivity. Qed.
Lemma bopts_of_table v o u : bopts_of (po_with Triggers.Table v o) u = bo_with_table v (bopts_of o u).
Proof. reflexivity. Qed.

Lemma pbind_ext {A B} (r r' : res A) (k k' : A -> res B) :
  r = r' -> (forall a, k a = k' a) -> bind r k = bind r' k'.
Proof. intros -> H. destruct r'; cbn [bind]; auto. Qed.

(* ================================================================== 2a. the inline phase over the leaves *)
Lemma run_leaves_ext io1 io2 u refmap maxref : forall l,
  (forall p i, In (p, i) l -> forall rs,
     run_inlines_gen true io1 u (bi_content i) (map N.of_nat (bi_lo i)) (N.of_nat (bi_sl i)) refmap maxref rs
     = run_inlines_gen true io2 u (bi_content i) (map N.of_nat (bi_lo i)) (N.of_nat (bi_sl i)) refmap maxref rs) ->
  forall rs, run_leaves io1 u refmap maxref l rs = run_leaves io2 u refmap maxref l rs.
Proof.
  induction l as [|[p i] r IH]; intros H rs; cbn [run_leaves]; [reflexivity |].
  rewrite (H p i (or_introl eq_refl) rs).
  destruct (run_inlines_gen true io2 u (bi_content i) (map N.of_nat (bi_lo i)) (N.of_nat (bi_sl i)) refmap maxref rs)
    as [[ch rs'|w]| |]; cbn [bind]; try reflexivity.
  rewrite IH; [reflexivity |]. intros p' i' Hin. apply (H p' i'). right. exact Hin.
Qed.

(* ================================================================== 2b. the text post-pass reads four options *)
Record post_agree (a b : iopts) : Prop := mkPostAgree {
  pa_tasklist : io_tasklist a = io_tasklist b;
  pa_autolink : io_autolink a = io_autolink b;
  pa_relaxed_tasklist : io_relaxed_tasklist a = io_relaxed_tasklist b;
  pa_relaxed_autolinks : io_relaxed_autolinks a = io_relaxed_autolinks b }.

Section post.
Variables a b : iopts.
Hypothesis A : post_agree a b.

Lemma email_match_ext contents i : email_match a contents i = email_match b contents i.
Proof. unfold email_match. rewrite (pa_relaxed_autolinks _ _ A). reflexivity. Qed.

Lemma pea_scan_ext : forall fuel contents i bo, pea_scan a fuel contents i bo = pea_scan b fuel contents i bo.
Proof.
  induction fuel as [|f IH]; intros contents i bo; cbn [pea_scan]; [reflexivity |].
  rewrite (pa_relaxed_autolinks _ _ A).
  destruct (nth_error contents i) as [c|]; [| reflexivity].
  rewrite email_match_ext, !IH. reflexivity.
Qed.

Lemma pea_ext : forall fuel contents sp spx, pea a fuel contents sp spx = pea b fuel contents sp spx.
Proof.
  induction fuel as [|f IH]; intros contents sp spx; cbn [pea]; [reflexivity |].
  rewrite pea_scan_ext.
  apply pbind_ext; [reflexivity |]. intros [[i0 [[[url text] reverse] skip]]|]; [| reflexivity].
  apply pbind_ext; [reflexivity |]. intro i. lazy zeta.
  apply pbind_ext; [reflexivity |]. intros [endc spx1].
  apply pbind_ext; [reflexivity |]. intros [nsp_end spx2].
  destruct (if Nat.ltb (i + skip) (List.length contents) then Some (skipn (i + skip) contents) else None) as [rem|];
    [| reflexivity].
  rewrite IH. reflexivity.
Qed.

Lemma process_tasklist_ext ctx is_first has_next text sp spx :
  process_tasklist a ctx is_first has_next text sp spx = process_tasklist b ctx is_first has_next text sp spx.
Proof. unfold process_tasklist. rewrite (pa_relaxed_tasklist _ _ A). reflexivity. Qed.

Lemma pp_list_ext : forall fuel ctx top first l, pp_list a fuel ctx top first l = pp_list b fuel ctx top first l.
Proof.
  induction fuel as [|f IH]; intros ctx top first l; cbn [pp_list]; [reflexivity |].
  destruct l as [|[v sp ch] r]; [reflexivity |].
  destruct v; try (rewrite !IH; reflexivity).
  (* Text *)
  destruct (merge_texts r _ (ec sp) _) as [[[text endc] spxv] rest].
  rewrite (pa_tasklist _ _ A), (pa_autolink _ _ A), process_tasklist_ext.
  apply pbind_ext; [reflexivity |]. intros [[[text1 sp1] spx1] eff].
  apply pbind_ext; [destruct (io_autolink b); [apply pea_ext | reflexivity] |].
  intros [[[text2 sp2] spx2] inserted].
  rewrite IH. reflexivity.
Qed.

Lemma postprocess_block_ext ctx ch : postprocess_block a ctx ch = postprocess_block b ctx ch.
Proof. unfold postprocess_block. apply pp_list_ext. Qed.

Lemma run_post_ext : forall l, run_post a l = run_post b l.
Proof.
  induction l as [|[p [ctx ch]] r IH]; cbn [run_post]; [reflexivity |].
  rewrite postprocess_block_ext, IH. reflexivity.
Qed.
End post.

Lemma post_phase_ext o1 o2 t : post_agree (iopts_of o1) (iopts_of o2) -> post_phase o1 t = post_phase o2 t.
Proof. intro A. unfold post_phase. rewrite (run_post_ext _ _ A). reflexivity. Qed.

(* ================================================================== 2c. after_blocks *)
Lemma inline_phase_ext o1 o2 u root refmap maxref :
  (forall p i, In (p, i) (bleaves [] root) -> forall rs,
     run_inlines_gen true (iopts_of o1) u (bi_content i) (map N.of_nat (bi_lo i)) (N.of_nat (bi_sl i)) refmap maxref rs
     = run_inlines_gen true (iopts_of o2) u (bi_content i) (map N.of_nat (bi_lo i)) (N.of_nat (bi_sl i)) refmap maxref rs) ->
  inline_phase o1 u root refmap maxref = inline_phase o2 u root refmap maxref.
Proof. intro H. unfold inline_phase. rewrite (run_leaves_ext _ _ u refmap maxref _ H). reflexivity. Qed.

(* the footnote pass is allowed to differ in its switch when it does nothing to the tree at hand *)
Lemma after_blocks_ext o1 o2 u root refmap maxref :
  (forall p i, In (p, i) (bleaves [] root) -> forall rs,
     run_inlines_gen true (iopts_of o1) u (bi_content i) (map N.of_nat (bi_lo i)) (N.of_nat (bi_sl i)) refmap maxref rs
     = run_inlines_gen true (iopts_of o2) u (bi_content i) (map N.of_nat (bi_lo i)) (N.of_nat (bi_sl i)) refmap maxref rs) ->
  (forall t1, inline_phase o2 u root refmap maxref = Ok t1 -> footnote_phase o1 u t1 = footnote_phase o2 u t1) ->
  post_agree (iopts_of o1) (iopts_of o2) ->
  after_blocks o1 u root refmap maxref = after_blocks o2 u root refmap maxref.
Proof.
  intros HI HF HP. unfold after_blocks. rewrite (inline_phase_ext o1 o2 u root refmap maxref HI).
  destruct (inline_phase o2 u root refmap maxref) as [t1| |] eqn:E; cbn [bind]; try reflexivity.
  rewrite (HF t1 eq_refl). apply post_phase_ext. exact HP.
Qed.

Lemma footnote_phase_same o1 o2 u t : po_footnotes o1 = po_footnotes o2 -> footnote_phase o1 u t = footnote_phase o2 u t.
Proof. intro H. unfold footnote_phase. rewrite H. reflexivity. Qed.

(* ================================================================== 3. the whole parser *)
Theorem parse_compose_okle o1 o2 u x :
  okle (parse_blocks (bopts_of o1 u) x) (parse_blocks (bopts_of o2 u) x) ->
  (forall r, parse_blocks (bopts_of o1 u) x = Ok r ->
     after_blocks o1 u (br_root r) (br_refmap r) (br_max_ref_size r)
     = after_blocks o2 u (br_root r) (br_refmap r) (br_max_ref_size r)) ->
  okle (parse_document_model o1 u x) (parse_document_model o2 u x).
Proof.
  intros HB HA t H. unfold parse_document_model in *.
  destruct (parse_blocks (bopts_of o1 u) x) as [r| |] eqn:E; cbn [bind] in H; try discriminate H.
  rewrite (HB r eq_refl). cbn [bind]. rewrite <- (HA r eq_refl). exact H.
Qed.

Theorem parse_compose_eq o1 o2 u x :
  bopts_of o1 u = bopts_of o2 u ->
  (forall r, parse_blocks (bopts_of o2 u) x = Ok r ->
     after_blocks o1 u (br_root r) (br_refmap r) (br_max_ref_size r)
     = after_blocks o2 u (br_root r) (br_refmap r) (br_max_ref_size r)) ->
  parse_document_model o1 u x = parse_document_model o2 u x.
Proof.
  intros HB HA. unfold parse_document_model. rewrite HB.
  destruct (parse_blocks (bopts_of o2 u) x) as [r| |] eqn:E; cbn [bind]; try reflexivity.
  apply HA. reflexivity.
Qed.

(* ================================================================== 4. the switches read by the block phase only *)
Definition block_only (F : feature) : bool :=
  match F with
  | Triggers.Alerts | Triggers.MultilineBlockQuotes | Triggers.DescriptionLists | Triggers.Table | Triggers.Greentext
  | Triggers.FrontMatter => true
  | _ => false
  end.

(* after the block phase nothing reads these switches *)
Lemma after_blocks_block_only F v v' o u root refmap maxref :
  block_only F = true ->
  after_blocks (po_with F v o) u root refmap maxref = after_blocks (po_with F v' o) u root refmap maxref.
Proof. destruct F; intro H; try discriminate H; reflexivity. Qed.

Lemma parse_block_only_okle F o u x :
  block_only F = true ->
  okle (parse_blocks (bopts_of (po_with F true o) u) x) (parse_blocks (bopts_of (po_with F false o) u) x) ->
  okle (parse_document_model (po_with F true o) u x) (parse_document_model (po_with F false o) u x).
Proof.
  intros HF HB. apply parse_compose_okle; [exact HB |]. intros r _. apply after_blocks_block_only. exact HF.
Qed.

(* from the head bytes of the specification to the byte hypotheses of Proofs/InertBlocks.v *)
Lemma free_heads_nob F t x : In t (trigger_heads F) -> free_of_heads F x = true -> nob t x.
Proof.
  intros Ht H b Hb. unfold free_of_heads in H. rewrite forallb_forall in H. specialize (H b Hb).
  apply negb_true_iff in H. destruct (beqb b t) eqn:E; [| reflexivity].
  apply beqb_eq in E. subst b. apply mem_byte_In in Ht. congruence.
Qed.

Theorem parse_alerts_inert o u x :
  free_of_heads Triggers.Alerts x = true ->
  okle (parse_document_model (po_with Triggers.Alerts true o) u x) (parse_document_model (po_with Triggers.Alerts false o) u x).
Proof.
  intro H. apply parse_block_only_okle; [reflexivity |]. rewrite !bopts_of_alerts.
  apply alerts_blocks_inert. apply (free_heads_nob Triggers.Alerts); [left; reflexivity | exact H].
Qed.

Theorem parse_multiline_block_quotes_inert o u x :
  free_of_heads Triggers.MultilineBlockQuotes x = true ->
  okle (parse_document_model (po_with Triggers.MultilineBlockQuotes true o) u x)
       (parse_document_model (po_with Triggers.MultilineBlockQuotes false o) u x).
Proof.
  intro H. apply parse_block_only_okle; [reflexivity |]. rewrite !bopts_of_mbq.
  apply multiline_block_quotes_blocks_inert.
  apply (free_heads_nob Triggers.MultilineBlockQuotes); [left; reflexivity | exact H].
Qed.

(* description lists: the documented trigger (colon) AND the tilde the scanner also accepts (known class C13-b) *)
Theorem parse_description_lists_inert o u x :
  free_of_heads Triggers.DescriptionLists x = true -> nob x7e x ->
  okle (parse_document_model (po_with Triggers.DescriptionLists true o) u x)
       (parse_document_model (po_with Triggers.DescriptionLists false o) u x).
Proof.
  intros H H2. apply parse_block_only_okle; [reflexivity |]. rewrite !bopts_of_dl.
  apply description_lists_blocks_inert; [| exact H2].
  apply (free_heads_nob Triggers.DescriptionLists); [left; reflexivity | exact H].
Qed.

Theorem parse_table_inert o u x :
  free_of_heads Triggers.Table x = true ->
  okle (parse_document_model (po_with Triggers.Table true o) u x) (parse_document_model (po_with Triggers.Table false o) u x).
Proof.
  intro H. apply parse_block_only_okle; [reflexivity |]. rewrite !bopts_of_table.
  apply table_blocks_inert. apply (free_heads_nob Triggers.Table); [right; left; reflexivity | exact H].
Qed.

(* only the hyphen is needed: a document with vertical bars and no hyphen holds no table either *)
Theorem parse_table_inert_hyphen o u x :
  nob x2d x ->
  okle (parse_document_model (po_with Triggers.Table true o) u x) (parse_document_model (po_with Triggers.Table false o) u x).
Proof.
  intro H. apply parse_block_only_okle; [reflexivity |]. rewrite !bopts_of_table. apply table_blocks_inert. exact H.
Qed.

(* the two renderer-only features: the parser does not have the switch at all *)
Theorem parse_render_only_inert F v v' o u x :
  (F = Triggers.Tagfilter \/ F = Triggers.HeaderIds) ->
  parse_document_model (po_with F v o) u x = parse_document_model (po_with F v' o) u x.
Proof. intros [-> | ->]; reflexivity. Qed.

Lemma post_agree_fields a b :
  post_agree a b <->
  (io_tasklist a = io_tasklist b /\ io_autolink a = io_autolink b /\
   io_relaxed_tasklist a = io_relaxed_tasklist b /\ io_relaxed_autolinks a = io_relaxed_autolinks b).
Proof. split; [intros [h1 h2 h3 h4]; tauto | intros (h1 & h2 & h3 & h4); constructor; assumption]. Qed.
