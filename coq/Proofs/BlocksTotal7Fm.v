(* Proofs/BlocksTotal7Fm.v — totality of the block phase, seventh round: the three checked str slices of the front
   matter prologue (src/strings.rs split_off_front_matter, line_at) do not panic when the input is valid UTF-8.

   al7f = but fm_sites.  The walk is the one of Proofs/BlocksTotal6ValWalk.v (its invariant QI is kept: the lemmas that
   used it are unchanged); only the chain parse_blocks -> front_matter_prologue -> split_off_front_matter ->
   fm_line_at / find_closing_line / fm_slice / slice_to / slice_from has a new argument:
     s = trim_start_match x BOM is valid UTF-8 (trim_valid);
     every offset handed to fm_line_at, slice_to, slice_from is 0 or the `next` of a previous fm_line_at;
     fm_line_at s k from k <= |s|, at_boundary s k answers next <= |s| with at_boundary s next: `end` is |s| or the
       position of a line-end byte (ASCII), next is end (= |s|), end + 1 (after the ASCII byte at end) or end + 2 (after the LF
       at end + 1);
     at_boundary s k, k <= |s| on a valid s gives is_char_boundary s k = true (boundary_valid: skipn_utf8, bnd_valid). *)
From Coq Require Import List NArith Arith Bool Lia Strings.String.
From V Require Import Base.Bytes Base.Res Gen.Nodes Gen.BlocksConst Gen.FeedConst Model.Ast Model.Strings Model.Entity Model.LinkUrl Model.ListMarker
  Model.AutolinkLeaf Model.Feed Model.FrontMatter Model.RefDef Model.Scan Model.Blocks Spec.EscapeSpec
  Proofs.StrLeafProofs Proofs.StrLeafEntity Proofs.StrLeafParse Proofs.FeedProofs Proofs.BlocksProofs Proofs.BlocksCursor Proofs.BlocksTotal
  Proofs.BlocksTotal2Safe Proofs.BlocksTotal3Cur Proofs.BlocksTotal4Safe Proofs.BlocksTotal4Frame Proofs.BlocksPos Proofs.BlocksTotal6Val.
From V Require Proofs.BlocksTotal4Row Proofs.BlocksTotal4Scan Proofs.BlocksTotal4Fuel Proofs.FrontMatterProofs.
Import ListNotations.
Local Open Scope string_scope.
Local Open Scope list_scope.

Definition fm_sites : list string :=
  [ "strings.rs:split_off_front_matter:slice_from";
    "strings.rs:split_off_front_matter:slice_to";
    "strings.rs:line_at:slice" ].

Definition al7f : string -> bool := but fm_sites.
Notation ng7f := (ng al7f true).

Ltac allowed := vm_compute; reflexivity.

Create HintDb ng7f.

Ltac ngstep :=
  match goal with
  | |- ng _ _ (bind ?r _) => apply ng_bind; [ try solve [auto with ng7f] | intros ]
  | |- ng _ _ (Ok _) => exact I
  | |- ng _ _ OutOfFuel => reflexivity
  | |- ng _ _ (Panic _) => first [assumption | allowed]
  | |- ng _ _ no_node => allowed
  | |- ng _ _ (not_handled _ _) => exact I
  | |- ng _ _ (res_map _ _) => apply ng_res_map
  | |- ng _ _ (if ?b then _ else _) => destruct b
  | |- ng _ _ (match ?x with _ => _ end) => destruct x
  | |- ng _ _ (let (_, _) := ?x in _) => destruct x
  end.
Ltac nggo := repeat ngstep; auto with ng7f.

Lemma ng7f_idx site l i : al7f site = true -> ng7f (idx site l i).
Proof. intro H. apply ng_idx. now right. Qed.
Lemma ng7f_sub site a b : al7f site = true -> ng7f (sub site a b).
Proof. intro H. apply ng_sub. now right. Qed.
Lemma ng7f_slice_from site l i : al7f site = true -> ng7f (Blocks.slice_from site l i).
Proof. intro H. apply ng_slice_from. now right. Qed.
Lemma ng7f_from_utf8 site b : al7f site = true -> ng7f (from_utf8 site b).
Proof. intro H. apply ng_from_utf8. now right. Qed.
#[export] Hint Extern 1 (ng _ _ (idx _ _ _)) => (apply ng7f_idx; first [assumption | allowed]) : ng7f.
#[export] Hint Extern 1 (ng _ _ (sub _ _ _)) => (apply ng7f_sub; first [assumption | allowed]) : ng7f.
#[export] Hint Extern 1 (ng _ _ (Blocks.slice_from _ _ _)) => (apply ng7f_slice_from; first [assumption | allowed]) : ng7f.
#[export] Hint Extern 1 (ng _ _ (from_utf8 _ _)) => (apply ng7f_from_utf8; first [assumption | allowed]) : ng7f.

(* ---- leaf functions: total for all arguments *)
Lemma ng7f_trim s : ng7f (Strings.trim s). Proof. rewrite trim_ok. exact I. Qed.
Lemma ng7f_rtrim s : ng7f (Strings.rtrim s). Proof. rewrite rtrim_ok. exact I. Qed.
Lemma ng7f_unescape s : ng7f (Strings.unescape s). Proof. rewrite unescape_is_spec. exact I. Qed.
Lemma ng7f_unescape_html s : ng7f (unescape_html s). Proof. apply ng_ex. apply unescape_html_total. Qed.
Lemma ng7f_manual_scan_link_url s : ng7f (manual_scan_link_url s).
Proof. apply ng_ex. destruct (manual_scan_link_url_total s) as [r [E _]]. exists r. exact E. Qed.
Lemma ng7f_row s sp : ng7f (row s sp). Proof. apply ng_ex. apply BlocksTotal4Row.row_total. Qed.
Lemma ng7f_table_matches s sp : ng7f (table_matches s sp). Proof. apply ng_ex. apply BlocksTotal4Row.table_matches_total. Qed.
#[export] Hint Resolve ng7f_trim ng7f_rtrim ng7f_unescape ng7f_unescape_html ng7f_manual_scan_link_url ng7f_row ng7f_table_matches : ng7f.

(* ---- leaf functions with sites of their own *)
Lemma ng7f_remove_trailing_blank_lines s : ng7f (remove_trailing_blank_lines s).
Proof. unfold remove_trailing_blank_lines. nggo. Qed.
Lemma ng7f_chop_trailing_hashtags s : ng7f (chop_trailing_hashtags s).
Proof.
  unfold chop_trailing_hashtags. rewrite rtrim_ok. cbn [bind fst]. cbv zeta.
  destruct (rtrim_slice s) as [|x r] eqn:R; [allowed|]. rewrite <- R. clear R.
  destruct (Nat.leb _ _) eqn:Lb; [exact I|]. apply Nat.leb_gt in Lb.
  destruct (nth_error _ _) eqn:N; [|exfalso; apply nth_error_None in N; lia].
  destruct (_ && _); [rewrite rtrim_ok; exact I | exact I].
Qed.
Lemma ng7f_clean_url s : ng7f (clean_url s). Proof. unfold clean_url. nggo. Qed.
(* clean_title panics on a title of length 1 only (Props/StrLeaf.v); its one caller hands it a scan_link_title match *)
Lemma ng7f_clean_title s : List.length s <> 1 -> ng7f (clean_title s).
Proof. intro H. apply ng_ex. now apply clean_title_total. Qed.
#[export] Hint Resolve ng7f_remove_trailing_blank_lines ng7f_chop_trailing_hashtags ng7f_clean_url : ng7f.
Lemma scan_link_title_ge s m : scan_link_title s = Some m -> 2 <= m.
Proof. BlocksTotal4Scan.scan_ge. Qed.
Lemma scan_link_title_le s m : scan_link_title s = Some m -> m <= List.length s.
Proof. intro H. eapply as_opt_usize_cursor_le; [|exact H]. vm_compute. reflexivity. Qed.
(* ---- the front matter: offsets that are character boundaries of a valid string *)
Definition BP (s : bytes) (k : nat) : Prop := k <= List.length s /\ at_boundary s k.

Lemma boundary_valid s k : utf8_valid s = true -> BP s k -> is_char_boundary s k = true.
Proof.
  intros V [L B]. pose proof (skipn_utf8 _ _ V B) as Vk.
  assert (E : is_char_boundary (firstn k s ++ skipn k s) (List.length (firstn k s)) = true)
    by (rewrite FrontMatterProofs.boundary_app; now apply FrontMatterProofs.bnd_valid).
  rewrite firstn_skipn, firstn_length, Nat.min_l in E by lia. exact E.
Qed.

Lemma nth_error_skipn_plus {A} : forall k (l : list A) i, nth_error (skipn k l) i = nth_error l (k + i).
Proof. induction k as [|k IH]; intros l i; [reflexivity|]. destruct l as [|x l]; cbn [skipn Nat.add nth_error]; [now destruct i | apply IH]. Qed.

Lemma scan_line_end_at : forall t e0, scan_line_end t e0 = e0 + List.length t \/
  exists c, nth_error t (scan_line_end t e0 - e0) = Some c /\ Strings.is_line_end_char c = true.
Proof.
  induction t as [|b r IH]; intro e0; cbn [scan_line_end List.length]; [left; lia|].
  destruct (Strings.is_line_end_char b) eqn:E.
  - right. exists b. rewrite Nat.sub_diag. now split.
  - destruct (IH (S e0)) as [H|[c [H1 H2]]]; [left; lia|]. right. exists c. split; [|exact H2].
    pose proof (BlocksTotal4Fuel.scan_line_end_bounds r (S e0)).
    replace (scan_line_end r (S e0) - e0) with (S (scan_line_end r (S e0) - S e0)) by lia. exact H1.
Qed.

Lemma sg7f_fm_line_at s k : utf8_valid s = true -> BP s k -> sg al7f true (fun r => BP s (snd r)) (fm_line_at s k).
Proof.
  intros V Bk. pose proof Bk as [H _]. unfold fm_line_at.
  pose proof (BlocksTotal4Fuel.scan_line_end_bounds (skipn k s) k) as B.
  pose proof (scan_line_end_at (skipn k s) k) as A. rewrite skipn_length in B, A.
  set (e := scan_line_end (skipn k s) k) in *. unfold byte_slice_from.
  destruct (Nat.leb e (List.length s)) eqn:L; [|apply Nat.leb_gt in L; lia]. apply Nat.leb_le in L. cbn [bind].
  assert (A' : e = List.length s \/ exists c, nth_error s e = Some c /\ is_ascii c = true).
  { destruct A as [A|[c [A1 A2]]]; [left; lia|]. right. exists c. split; [|now apply line_end_ascii].
    rewrite nth_error_skipn_plus in A1. replace (k + (e - k)) with e in A1 by lia. exact A1. }
  assert (Be : BP s e).
  { split; [exact L|]. destruct A' as [A'|A']; [right; left; lia | right; right; left; exact A']. }
  unfold fm_slice. rewrite (boundary_valid s k V Bk), (boundary_valid s e V Be).
  replace (Nat.leb k e) with true by (symmetry; apply Nat.leb_le; lia). cbn [andb bind sg snd].
  destruct (starts_with (skipn e s) fm_crlf) eqn:Sw.
  - apply starts_with_app in Sw. destruct Sw as [r Er].
    assert (N1 : nth_error s (e + 1) = Some x0a) by (rewrite <- nth_error_skipn_plus, Er; reflexivity).
    apply (f_equal (@List.length byte)) in Er.
    rewrite skipn_length, app_length in Er. change (List.length fm_crlf) with 2 in Er.
    split; [lia|]. right; right; right. exists (e + 1), x0a. split; [lia|]. split; [exact N1 | reflexivity].
  - destruct (Nat.ltb e (List.length s)) eqn:Lt; [|exact Be]. apply Nat.ltb_lt in Lt.
    split; [lia|]. destruct A' as [A'|[c A']]; [lia|]. right; right; right. exists e, c. split; [lia | exact A'].
Qed.

Lemma sg7f_find_closing_line : forall fuel s d e, utf8_valid s = true -> BP s e ->
  sg al7f true (fun c => match c with Some e' => BP s e' | None => True end) (find_closing_line fuel s d e).
Proof.
  induction fuel as [|f IH]; intros s d e V H; cbn [find_closing_line]; [reflexivity|].
  destruct (Nat.eqb e (List.length s)); [exact I|].
  eapply sg_bind; [now apply sg7f_fm_line_at|]. intros ln _ Hn.
  destruct (bytes_eqb (fst ln) d); [exact Hn | now apply IH].
Qed.

Lemma ng7f_split_off_front_matter s d : utf8_valid s = true -> ng7f (split_off_front_matter s d).
Proof.
  intro V0. pose proof (FrontMatterProofs.trim_valid _ V0) as V. unfold split_off_front_matter.
  set (t := trim_start_match s fm_bom) in *.
  eapply sg_bind; [apply sg7f_fm_line_at; [exact V | split; [lia | now left]]|]. intros l0 _ H0.
  destruct (_ || _); [exact I|].
  eapply sg_bind; [now apply sg7f_find_closing_line|]. intros [e|] _ He; [|exact I].
  eapply sg_bind; [now apply sg7f_fm_line_at|]. intros l1 _ H1. cbv zeta.
  set (e' := match fst l1 with [] => snd l1 | _ :: _ => e end).
  assert (He' : BP t e') by (subst e'; destruct (fst l1); assumption).
  unfold slice_to, FrontMatter.slice_from. rewrite (boundary_valid t e' V He'). exact I.
Qed.
Lemma ng7f_peek s p : nonul s -> ng7f (peek s p).
Proof.
  intro N. unfold peek. destruct (nth_error s p) as [c|] eqn:E; [|exact I]. apply nth_error_In in E.
  destruct (beqb c x00) eqn:B; [apply beqb_eq in B; subst; now apply N in E | exact I].
Qed.
#[export] Hint Resolve nonul_skipn : ng7f.
#[export] Hint Resolve ng7f_peek : ng7f.
Lemma ng7f_skip_spaces : forall s, nonul s -> ng7f (skip_spaces s).
Proof.
  induction s as [|c r IH]; intro N; cbn [skip_spaces]; [exact I|].
  destruct (beqb c x00) eqn:B; [apply beqb_eq in B; subst; exfalso; apply (N x00); [now left | reflexivity]|].
  destruct (_ || _); [|exact I]. apply ng_bind; [|intros; exact I]. apply IH. intros b Hb. apply N. now right.
Qed.
#[export] Hint Resolve ng7f_skip_spaces : ng7f.
Lemma ng7f_skip_line_end s p : nonul s -> ng7f (skip_line_end s p). Proof. intro N. unfold skip_line_end. nggo. Qed.
#[export] Hint Resolve ng7f_skip_line_end : ng7f.
Lemma ng7f_spnl s p : nonul s -> ng7f (spnl s p). Proof. intro N. unfold spnl. nggo. Qed.
#[export] Hint Resolve ng7f_spnl : ng7f.
Lemma ng7f_label_loop : forall fuel s pos len c, nonul s -> ng7f (label_loop fuel s pos len c).
Proof. induction fuel as [|f IH]; intros s pos len c N; cbn [label_loop]; nggo. Qed.
#[export] Hint Resolve ng7f_label_loop : ng7f.
Lemma ng7f_link_label s : nonul s -> ng7f (link_label s). Proof. intro N. unfold link_label. nggo. Qed.
#[export] Hint Resolve ng7f_link_label : ng7f.
Lemma ng7f_parse_reference_inline fold m s : nonul s -> ng7f (parse_reference_inline fold m s).
Proof.
  intro N. unfold parse_reference_inline.
  apply ng_bind; [auto with ng7f|]. intros [[lab pos]|] _; [|exact I]. destruct lab as [|l0 lab]; [exact I|].
  apply ng_bind; [auto with ng7f|]. intros [c|] _; [|exact I]. destruct (negb (beqb c x3a)); [exact I|]. cbv zeta.
  apply ng_bind; [auto with ng7f|]. intros pos1 _.
  apply ng_bind; [auto with ng7f|]. intros [[url matchlen]|] _; [|exact I].
  apply ng_bind; [auto with ng7f|]. intros pos2 _.
  match goal with |- ng _ _ (let '(title, pos) := ?tp in _) =>
    assert (HT : List.length (fst tp) <> 1); [|destruct tp as [title pos3]; cbn [fst] in HT] end.
  { destruct (Nat.eqb pos2 (pos1 + matchlen)); [cbn; lia|].
    destruct (scan_link_title (skipn pos2 s)) as [ml|] eqn:Sc; [|cbn; lia].
    pose proof (scan_link_title_ge _ _ Sc). pose proof (scan_link_title_le _ _ Sc). cbn [fst]. rewrite firstn_length. lia. }
  apply ng_bind; [auto with ng7f|]. intros n _.
  apply ng_bind; [auto with ng7f|]. intros [p1 ok] _.
  eapply sg_bind with (P := fun fin : option (nat * bytes) => match fin with Some (_, t) => List.length t <> 1 | None => True end).
  { destruct ok; [exact HT|]. destruct title; [exact I|].
    apply sgb; [auto with ng7f|]. intros n2 _. apply sgb; [auto with ng7f|]. intros [p2 ok2] _.
    destruct ok2; cbn [sg List.length]; [lia | exact I]. }
  intros [[posf t]|] _ Hf; [|exact I].
  destruct (normalize_label fold (l0 :: lab) true); [exact I|].
  apply ng_bind; [auto with ng7f|]. intros cu _.
  apply ng_bind; [now apply ng7f_clean_title|]. intros ct _. nggo.
Qed.
#[export] Hint Resolve ng7f_parse_reference_inline : ng7f.
Lemma ng7f_resolve_loop fold : forall fuel m seek seeked, nonul seek -> ng7f (resolve_loop fuel fold m seek seeked).
Proof. induction fuel as [|f IH]; intros m seek seeked N; cbn [resolve_loop]; nggo. Qed.
#[export] Hint Resolve ng7f_resolve_loop : ng7f.
Lemma ng7f_resolve_refdefs fold m c : nonul c -> ng7f (resolve_refdefs fold m c).
Proof. intro N. unfold resolve_refdefs. nggo. Qed.
#[export] Hint Resolve ng7f_resolve_refdefs : ng7f.
Lemma ng7f_copy_line_offsets : forall n lo k, k + n <= List.length lo -> ng7f (copy_line_offsets n lo k).
Proof.
  induction n as [|m IH]; intros lo k H; cbn [copy_line_offsets]; [exact I|].
  destruct (nth_error lo k) eqn:E; [|apply nth_error_None in E; lia].
  apply ng_bind; [apply IH; lia | intros; exact I].
Qed.
Lemma ng7f_header_cells : forall cells id ln sl sc po, ng7f (header_cells cells id ln sl sc po).
Proof. induction cells as [|c r IH]; intros; cbn [header_cells]; nggo. Qed.
Lemma ng7f_row_cells : forall n cells id ln sc lc, ng7f (row_cells n cells id ln sc lc).
Proof. induction n as [|m IH]; intros cells id ln sc lc; destruct cells; cbn [row_cells]; nggo. Qed.
#[export] Hint Resolve ng7f_copy_line_offsets ng7f_header_cells ng7f_row_cells : ng7f.
Lemma ng7f_parse_html_block_prefix st t : (N.leb 1 t && N.leb t 7)%bool = true -> ng7f (parse_html_block_prefix st t).
Proof.
  intro H. unfold parse_html_block_prefix. apply andb_true_iff in H. destruct H as [H1 H2]. apply N.leb_le in H1, H2.
  destruct (N.leb 1 t && N.leb t 5)%bool eqn:A; [exact I|]. destruct (N.eqb t 6 || N.eqb t 7)%bool eqn:B; [exact I|]. exfalso.
  apply orb_false_iff in B. destruct B as [B1 B2]. apply N.eqb_neq in B1, B2.
  apply andb_false_iff in A. destruct A as [A|A]; apply N.leb_gt in A; lia.
Qed.
#[export] Hint Resolve ng7f_parse_html_block_prefix : ng7f.
Lemma ng7f_after_spaces : forall s, ng7f (after_spaces s).
Proof. induction s as [|b r IH]; cbn [after_spaces]; nggo. Qed.
Lemma ng7f_digits_loop : forall left s start digits, ng7f (digits_loop left s start digits).
Proof.
  induction left as [|l IH]; intros s start digits; destruct s as [|d r]; cbn [digits_loop]; try allowed.
  - destruct (N.ltb _ _); [allowed | exact I].
  - destruct (N.ltb _ _); [allowed|]. destruct l; [exact I|]. destruct r as [|e r']; [allowed|].
    destruct (StrLeafGen.sl_isdigit e); [apply IH | exact I].
Qed.
#[export] Hint Resolve ng7f_after_spaces ng7f_digits_loop : ng7f.
Lemma ng7f_parse_list_marker line pos ip : ng7f (parse_list_marker line pos ip).
Proof. unfold parse_list_marker. nggo. Qed.
#[export] Hint Resolve ng7f_parse_list_marker : ng7f.
Lemma ng7f_alert_title_loop line : forall fuel pos fl, ng7f (alert_title_loop fuel line pos fl).
Proof. induction fuel as [|f IH]; intros pos fl; cbn [alert_title_loop]; nggo. Qed.
Lemma ng7f_count_hashes : forall s, ng7f (count_hashes s).
Proof. induction s as [|b r IH]; cbn [count_hashes]; nggo. Qed.
#[export] Hint Resolve ng7f_alert_title_loop ng7f_count_hashes : ng7f.

(* ---- the cursor *)
Lemma ng7f_find_first_nonspace c line : ng7f (find_first_nonspace c line).
Proof. unfold find_first_nonspace. destruct (if Nat.leb _ _ then _ else _) as [f fc]. nggo. Qed.
Lemma ng7f_advance_loop line columns : forall fuel off col pct count, ng7f (advance_loop fuel line off col pct count columns).
Proof. induction fuel as [|f IH]; intros off col pct count; destruct count; cbn [advance_loop]; nggo. Qed.
#[export] Hint Resolve ng7f_find_first_nonspace ng7f_advance_loop : ng7f.
Lemma ng7f_advance_offset c line count columns : ng7f (advance_offset c line count columns).
Proof. unfold advance_offset. nggo. Qed.
#[export] Hint Resolve ng7f_advance_offset : ng7f.
Lemma ng7f_adv st line n b : ng7f (adv st line n b). Proof. unfold adv. nggo. Qed.
Lemma ng7f_ffn st line : ng7f (ffn st line). Proof. unfold ffn. nggo. Qed.
#[export] Hint Resolve ng7f_adv ng7f_ffn : ng7f.
Lemma ng7f_skip_one_space st line site : al7f site = true -> ng7f (skip_one_space st line site).
Proof. intro H. unfold skip_one_space. nggo. Qed.
Lemma ng7f_skip_fence_offset line site : al7f site = true -> forall i st, ng7f (skip_fence_offset i st line site).
Proof. intro H. induction i as [|j IH]; intro st; cbn [skip_fence_offset]; nggo. Qed.
Lemma ng7f_list_spaces_loop line sc : forall fuel st, ng7f (list_spaces_loop fuel st line sc).
Proof. induction fuel as [|f IH]; intro st; cbn [list_spaces_loop]; nggo. Qed.
#[export] Hint Resolve ng7f_list_spaces_loop : ng7f.
#[export] Hint Extern 1 (ng _ _ (skip_one_space _ _ _)) => (apply ng7f_skip_one_space; first [assumption | allowed]) : ng7f.
#[export] Hint Extern 1 (ng _ _ (skip_fence_offset _ _ _ _)) => (apply ng7f_skip_fence_offset; first [assumption | allowed]) : ng7f.

(* ---- tree primitives *)
Lemma ng7f_get st x : ng7f (get st x).
Proof. unfold get. destruct (find_node x (ps_root st)); [exact I | allowed]. Qed.
Lemma ng7f_modify st x f : ng7f (modify st x f).
Proof. unfold modify. destruct (upd x f (ps_root st)); [exact I | allowed]. Qed.
Lemma ng7f_modify_info st x f : ng7f (modify_info st x f).
Proof. apply ng7f_modify. Qed.
Lemma ng7f_bdetach st x : ng7f (bdetach st x).
Proof. unfold bdetach. destruct (edit_kids _ _ _); exact I. Qed.
Lemma ng7f_retighten st p : ng7f (retighten st p).
Proof. apply ng_ex. apply retighten_total. Qed.
#[export] Hint Resolve ng7f_get ng7f_modify ng7f_modify_info ng7f_bdetach ng7f_retighten : ng7f.
Lemma ng7f_append_child st p c : ng7f (append_child st p c).
Proof. apply ng7f_modify. Qed.
Lemma ng7f_last_child st x : ng7f (last_child st x). Proof. unfold last_child. nggo. Qed.
#[export] Hint Resolve ng7f_append_child ng7f_last_child : ng7f.
Lemma ng7f_last_child_is_open st x : ng7f (last_child_is_open st x).
Proof. unfold last_child_is_open. nggo. Qed.
#[export] Hint Resolve ng7f_last_child_is_open : ng7f.

Lemma ng7f_clear_llb_up : forall fuel st id, ng7f (clear_llb_up fuel st id).
Proof. induction fuel as [|f IH]; intros st id; cbn [clear_llb_up]; nggo. Qed.
Lemma ng7f_reopen : forall fuel st id, ng7f (reopen_ast_nodes fuel st id).
Proof. induction fuel as [|f IH]; intros st id; cbn [reopen_ast_nodes]; nggo. Qed.
#[export] Hint Resolve ng7f_clear_llb_up ng7f_reopen : ng7f.
Lemma ng7f_add_line st id line : ng7f (add_line st id line).
Proof. unfold add_line. nggo. Qed.
#[export] Hint Resolve ng7f_add_line : ng7f.
Lemma ng7f_is_not_greentext o st line : ng7f (is_not_greentext o st line).
Proof. unfold is_not_greentext. nggo. Qed.
#[export] Hint Resolve ng7f_is_not_greentext : ng7f.
Lemma ng7f_pbq o st line : ng7f (parse_block_quote_prefix o st line).
Proof. unfold parse_block_quote_prefix. nggo. Qed.
Lemma ng7f_pfn st line : ng7f (parse_footnote_definition_block_prefix st line).
Proof. unfold parse_footnote_definition_block_prefix. nggo. Qed.
Lemma ng7f_pip st line c mo pad : ng7f (parse_item_prefix st line c mo pad).
Proof. unfold parse_item_prefix. nggo. Qed.
#[export] Hint Resolve ng7f_pbq ng7f_pfn ng7f_pip : ng7f.

Lemma ng7f_finalize o st id : QI st -> ng7f (finalize o st id).
Proof.
  intro P. unfold finalize.
  apply ng_bind; [auto with ng7f|]. intros n G. pose proof (get_qn _ _ _ P G) as [_ Qa].
  destruct (negb _); [allowed|].
  apply ng_bind; [nggo|]. intros ends _. cbv zeta.
  destruct (bi_val (binf n)) eqn:Ev; try solve [nggo].
  apply ng_bind; [apply ng7f_resolve_refdefs; apply (Qa eq_refl)|]. intros r _. nggo.
Qed.
#[export] Hint Resolve ng7f_finalize : ng7f.

Section Line.
Variables (o : bopts) (line : bytes).
Hypothesis HLine : LOK line.

Ltac sat :=
  monall; repeat match goal with p : (_ * _)%type |- _ => destruct p end; cbn [fst snd] in *;
  repeat match goal with
         | A : add_child_gen _ ?s _ _ _ (fun i => i) [?k] = Ok (_, ?s'), Alc : all_info _ ?k, Ps : QI ?s |- _ =>
           lazymatch goal with
           | H : QI s' |- _ => fail
           | _ => assert (QI s') by (eapply add_child_gen_qi; [exact A | auto | reflexivity | constructor; [exact Alc | constructor] | exact Ps])
           end
         | s : pstate |- _ =>
           lazymatch goal with
           | H : QI s |- _ => fail
           | _ => assert (QI s) by (eauto 8 with qi)
           end
         end.

Ltac pstep :=
  match goal with
  | |- ng _ _ (bind ?r _) => apply ng_bind; [ try solve [auto with ng7f] | intros; sat ]
  | |- ng _ _ (Ok _) => exact I
  | |- ng _ _ OutOfFuel => reflexivity
  | |- ng _ _ (Panic _) => first [assumption | allowed]
  | |- ng _ _ no_node => allowed
  | |- ng _ _ (not_handled _ _) => exact I
  | |- ng _ _ (res_map _ _) => apply ng_res_map
  | |- ng _ _ (if ?b then _ else _) => destruct b
  | |- ng _ _ (match ?x with _ => _ end) => destruct x
  | |- ng _ _ (let (_, _) := ?x in _) => destruct x
  end.
Ltac pgo := repeat pstep; auto with ng7f.

Hint Resolve clear_llb_up_qi add_line_qi add_child_loop_qi list_spaces_loop_qi finalize_up_to_qi : qi.
Hint Resolve QI_st_next QI_st_current QI_st_refmap QI_st_cur QI_st_curline QI_st_last_line_length QI_st_line_number : ng7f.

Lemma ng7f_unwrap_parent site st id : al7f site = true -> QI st -> ng7f (unwrap_parent site (finalize o st id)).
Proof. intros H P. unfold unwrap_parent. pgo. Qed.
Hint Extern 1 (ng _ _ (unwrap_parent _ _)) => (apply ng7f_unwrap_parent; [first [assumption | allowed] | assumption]) : ng7f.
Lemma ng7f_add_child_loop k : forall fuel st parent, QI st -> ng7f (add_child_loop fuel o st parent k).
Proof. induction fuel as [|f IH]; intros st parent P; cbn [add_child_loop]; pgo. Qed.
Hint Resolve ng7f_add_child_loop : ng7f.
Lemma ng7f_add_child_gen st parent v col post kids : QI st -> ng7f (add_child_gen o st parent v col post kids).
Proof. intro P. unfold add_child_gen. apply ng_bind; [auto with ng7f|]. intros [p1 s1] _. nggo. Qed.
Lemma ng7f_add_child st parent v col : QI st -> ng7f (add_child o st parent v col).
Proof. apply ng7f_add_child_gen. Qed.
Hint Resolve ng7f_add_child_gen ng7f_add_child : ng7f.
Lemma ng7f_finalize_up_to target site : al7f site = true -> forall fuel st, QI st -> ng7f (finalize_up_to fuel o st target site).
Proof. intro H. induction fuel as [|f IH]; intros st P; cbn [finalize_up_to]; pgo. Qed.
Hint Extern 1 (ng _ _ (finalize_up_to _ _ _ _ _)) => (apply ng7f_finalize_up_to; [first [assumption | allowed] | assumption]) : ng7f.

Lemma ng7f_parse_desc_list_details st c m : QI st -> ng7f (parse_desc_list_details o st c m).
Proof.
  intro P. unfold parse_desc_list_details. cbv zeta.
  apply ng_bind; [auto with ng7f|]. intros cn G.
  apply ng_bind; [nggo|]. intros r R. destruct r as [[[tight c1] lc]|]; [|exact I].
  assert (Alc : all_info Qn lc).
  { monall;
    match goal with Hl : last_opt (bkids ?n) = Some lc, Hg : get st _ = Ok ?n |- _ =>
      exact (last_kid_all _ _ _ (get_allq _ _ _ P Hg) Hl) end. }
  clear R. destruct (bval lc) eqn:Bl; try exact I; pgo.
Qed.
Hint Resolve ng7f_parse_desc_list_details : ng7f.

Lemma ng7f_pcbp st cid cb : QI st -> ng7f (parse_code_block_prefix o st line cid cb).
Proof. intro P. unfold parse_code_block_prefix. pgo. Qed.
Lemma ng7f_pmbq st cid fl fo : QI st -> ng7f (parse_multiline_block_quote_prefix o st line cid fl fo).
Proof. intro P. unfold parse_multiline_block_quote_prefix. pgo. Qed.
Hint Resolve ng7f_pcbp ng7f_pmbq : ng7f.
Lemma ng7f_check_container st c : QI st -> Qn (binf c) -> ng7f (check_container o st line c).
Proof.
  intros P [Qh _]. unfold check_container. unfold bval in *. destruct (bi_val (binf c)) eqn:Bv; pgo.
Qed.
Lemma ng7f_cobi : forall fuel st c, QI st -> ng7f (check_open_blocks_inner fuel o st line c).
Proof.
  induction fuel as [|f IH]; intros st c P; cbn [check_open_blocks_inner]; [reflexivity|].
  apply ng_bind; [auto with ng7f|]. intros [cid|] _; [|exact I].
  apply ng_bind; [auto with ng7f|]. intros st1 E1. assert (P1 : QI st1) by eauto with qi.
  apply ng_bind; [auto with ng7f|]. intros cn G.
  apply ng_bind; [apply ng7f_check_container; [exact P1 | exact (get_qn _ _ _ P1 G)]|]. intros [[m sc] st2] E2.
  destruct m; [|exact I]. apply IH. eapply check_container_qi; eassumption.
Qed.
Hint Resolve ng7f_cobi : ng7f.
Lemma ng7f_check_open_blocks st : QI st -> ng7f (check_open_blocks o st line).
Proof. intro P. unfold check_open_blocks. pgo. Qed.

(* ---- tables *)
Lemma ng7f_try_inserting st c po : QI st -> (forall cn, get st c = Ok cn -> is_paragraph cn = true) ->
  ng7f (try_inserting_table_header_paragraph st c po).
Proof.
  intros P Hc. unfold try_inserting_table_header_paragraph.
  apply ng_bind; [auto with ng7f|]. intros cn G. pose proof (get_qn _ _ _ P G) as [_ Qc].
  pose proof (is_paragraph_val _ (Hc _ G)) as Bv. unfold bval in Bv. destruct (Qc Bv) as [_ Q2].
  destruct (Nat.ltb _ _); [allowed|]. cbv zeta.
  apply ng_bind; [auto with ng7f|]. intros pc _.
  destruct (parent_of c (ps_root st)); [|exact I].
  apply ng_bind; [auto with ng7f|]. intros pn _. destruct (negb _); [exact I|].
  apply ng_bind; [auto with ng7f|]. intros el _.
  apply ng_bind; [|intros; nggo].
  apply ng7f_copy_line_offsets. cbn [Nat.add].
  eapply Nat.le_trans; [apply cnl_unescape_pipes|]. eapply Nat.le_trans; [apply cnl_firstn | exact Q2].
Qed.

Lemma ng7f_try_opening_header st c : QI st -> (forall cn, get st c = Ok cn -> is_paragraph cn = true) -> ng7f (try_opening_header o st c line).
Proof.
  intros P Hc. unfold try_opening_header.
  apply ng_bind; [auto with ng7f|]. intros cn G. destruct (bi_tv (binf cn)); [exact I|].
  apply ng_bind; [auto with ng7f|]. intros rest _. destruct (scan_table_start rest); [|exact I].
  apply ng_bind; [auto with ng7f|]. intros [[dpo dcells]|] _; [|exact I].
  apply ng_bind; [auto with ng7f|]. intros [[po hcells]|] _; [|exact I].
  destruct (negb _); [exact I|].
  apply ng_bind; [destruct (Nat.ltb 0 po); [now apply ng7f_try_inserting | exact I]|].
  intros st1 _. nggo.
Qed.

Lemma ng7f_try_opening_row st c t : ng7f (try_opening_row o st c t line).
Proof. unfold try_opening_row. nggo. Qed.

Lemma ng7f_try_opening_block st c : QI st -> ng7f (try_opening_block o st c line).
Proof.
  intro P. unfold try_opening_block. apply ng_bind; [auto with ng7f|]. intros cn G.
  destruct (bval cn) eqn:Bv; try exact I.
  - apply ng7f_try_opening_header; [exact P|].
    intros cn' G'. rewrite G in G'. inversion G'; subst. unfold is_paragraph. now rewrite Bv.
  - apply ng7f_try_opening_row.
Qed.

(* ---- the handlers *)
Lemma ng7f_handle_alert st c ind : QI st -> ng7f (handle_alert o st c line ind).
Proof. intro P. unfold handle_alert. pgo. Qed.
Lemma ng7f_handle_mbq st c ind : QI st -> ng7f (handle_multiline_blockquote o st c line ind).
Proof. intro P. unfold handle_multiline_blockquote, rest_at_fns. pgo. Qed.
Lemma ng7f_handle_blockquote st c ind : QI st -> ng7f (handle_blockquote o st c line ind).
Proof. intro P. unfold handle_blockquote. pgo. Qed.
Lemma ng7f_handle_atx st c ind : QI st -> ng7f (handle_atx_heading o st c line ind).
Proof. intro P. unfold handle_atx_heading, rest_at_fns. pgo. Qed.
Lemma ng7f_handle_code_fence st c ind : QI st -> ng7f (handle_code_fence o st c line ind).
Proof. intro P. unfold handle_code_fence, rest_at_fns. pgo. Qed.
Lemma ng7f_handle_html_block st c ind : QI st -> ng7f (handle_html_block o st c line ind).
Proof. intro P. unfold handle_html_block, rest_at_fns. pgo. Qed.
Lemma ng7f_handle_setext st c ind : QI st -> ng7f (handle_setext_heading o st c line ind).
Proof.
  intro P. unfold handle_setext_heading, rest_at_fns. destruct ind; [exact I|].
  apply ng_bind; [auto with ng7f|]. intros cn G. destruct (is_paragraph cn) eqn:Pa; cbn [negb]; [|exact I].
  pose proof (get_qn _ _ _ P G) as [_ Qc]. apply is_paragraph_val in Pa. unfold bval in Pa. destruct (Qc Pa) as [Q1 _].
  apply ng_bind; [auto with ng7f|]. intros rest _. destruct (if bo_ignore_setext o then None else _); [|exact I].
  apply ng_bind; [now apply ng7f_resolve_refdefs|]. intros r _. nggo.
Qed.
Lemma ng7f_handle_thematic_break st c ind am : QI st -> ng7f (handle_thematic_break o st c line ind am).
Proof. intro P. unfold handle_thematic_break. pgo. Qed.
Lemma ng7f_handle_footnote st c ind d : QI st -> ng7f (handle_footnote o st c line ind d).
Proof. intro P. unfold handle_footnote, rest_at_fns. pgo. Qed.
Lemma ng7f_handle_description_list st c ind : QI st -> ng7f (handle_description_list o st c line ind).
Proof. intro P. unfold handle_description_list, rest_at_fns. pgo. Qed.
Lemma ng7f_handle_list st c ind d : QI st -> ng7f (handle_list o st c line ind d).
Proof. intro P. unfold handle_list. pgo. Qed.
Lemma ng7f_handle_code_block st c ind ml : QI st -> ng7f (handle_code_block o st c line ind ml).
Proof. intro P. unfold handle_code_block. pgo. Qed.

Definition HP (x : bool * nat * pstate) : Prop := QI (snd x).
Lemma sg7f_h st (r : hres) : QI st -> (QI st -> ng7f r) ->
  (forall b c s, r = Ok (b, c, s) -> QI st -> QI s) -> sg al7f true HP r.
Proof. intros P H Hp. eapply ng_sg; [now apply H|]. intros [[b c] s] E. unfold HP. cbn [snd]. eapply Hp; eassumption. Qed.
Lemma sg7f_or_else (r : hres) k : sg al7f true HP r -> (forall c s, QI s -> sg al7f true HP (k c s)) -> sg al7f true HP (or_else_h r k).
Proof. intros H K. unfold or_else_h. eapply sg_bind; [exact H|]. intros [[h c] s] E Hx. destruct h; [exact Hx|]. apply K. exact Hx. Qed.

Ltac hp X := intros ? ? ?; first [apply (X o line HLine) | apply (X o line)].

Lemma ng7f_step st c am ml d : QI st -> ng7f (open_new_blocks_step o st c line am ml d).
Proof.
  intro P. unfold open_new_blocks_step. apply ng_bind; [auto with ng7f|]. intros s0 F0.
  assert (P0 : QI s0) by eauto with qi.
  eapply sg_bind with (P := HP).
  { apply sg7f_or_else; [eapply sg7f_h; [exact P0 | apply ng7f_handle_alert | hp handle_alert_qi]|]. intros c1 s1 P1.
    apply sg7f_or_else; [eapply sg7f_h; [exact P1 | apply ng7f_handle_mbq | hp handle_mbq_qi]|]. clear c1 s1 P1. intros c1 s1 P1.
    apply sg7f_or_else; [eapply sg7f_h; [exact P1 | apply ng7f_handle_blockquote | hp handle_blockquote_qi]|]. clear c1 s1 P1. intros c1 s1 P1.
    apply sg7f_or_else; [eapply sg7f_h; [exact P1 | apply ng7f_handle_atx | hp handle_atx_qi]|]. clear c1 s1 P1. intros c1 s1 P1.
    apply sg7f_or_else; [eapply sg7f_h; [exact P1 | apply ng7f_handle_code_fence | hp handle_code_fence_qi]|]. clear c1 s1 P1. intros c1 s1 P1.
    apply sg7f_or_else; [eapply sg7f_h; [exact P1 | apply ng7f_handle_html_block | hp handle_html_block_qi]|]. clear c1 s1 P1. intros c1 s1 P1.
    apply sg7f_or_else; [eapply sg7f_h; [exact P1 | apply ng7f_handle_setext | hp handle_setext_qi]|]. clear c1 s1 P1. intros c1 s1 P1.
    apply sg7f_or_else; [eapply sg7f_h; [exact P1 | apply ng7f_handle_thematic_break | hp handle_thematic_break_qi]|]. clear c1 s1 P1. intros c1 s1 P1.
    apply sg7f_or_else; [eapply sg7f_h; [exact P1 | apply ng7f_handle_footnote | hp handle_footnote_qi]|]. clear c1 s1 P1. intros c1 s1 P1.
    apply sg7f_or_else; [eapply sg7f_h; [exact P1 | apply ng7f_handle_description_list | hp handle_description_list_qi]|]. clear c1 s1 P1. intros c1 s1 P1.
    apply sg7f_or_else; [eapply sg7f_h; [exact P1 | apply ng7f_handle_list | hp handle_list_qi]|]. clear c1 s1 P1. intros c1 s1 P1.
    eapply sg7f_h; [exact P1 | apply ng7f_handle_code_block | hp handle_code_block_qi]. }
  intros [[handled c1] s1] _ P1. unfold HP in P1. cbn [snd] in P1.
  match goal with |- sg ?a ?f _ ?r => change (ng a f r) end.
  apply ng_bind; [|intros [[go c2] s2] _; nggo].
  destruct handled; [exact I|].
  apply ng_bind; [|intros [[|mark|id] s2] _; nggo].
  destruct (negb _ && bo_table o); [|exact I]. now apply ng7f_try_opening_block.
Qed.

Lemma ng7f_loop am : forall fuel st c ml d, QI st -> ng7f (open_new_blocks_loop fuel o st c line am ml d).
Proof.
  induction fuel as [|f IH]; intros st c ml d P; cbn [open_new_blocks_loop]; [reflexivity|].
  apply ng_bind; [auto with ng7f|]. intros n _. destruct (is_code_or_html n); [exact I|].
  apply ng_bind; [now apply ng7f_step|]. intros [[go c1] s1] E. destruct go; [|exact I].
  apply IH. eapply open_new_blocks_step_qi; eassumption.
Qed.

Lemma ng7f_open_new_blocks st c am : QI st -> ng7f (open_new_blocks o st c line am).
Proof. intro P. unfold open_new_blocks. apply ng_bind; [auto with ng7f|]. intros n _. now apply ng7f_loop. Qed.

Lemma ng7f_add_text_to_container st c lmc : QI st -> ng7f (add_text_to_container o st c lmc line).
Proof.
  intro P. unfold add_text_to_container.
  apply ng_bind; [auto with ng7f|]. intros s0 E0. assert (P0 : QI s0) by eauto with qi.
  apply ng_bind; [auto with ng7f|]. intros cn _.
  apply ng_bind; [nggo|]. intros s1 E1.
  assert (P1 : QI s1) by (sat; eauto with qi).
  apply ng_bind; [auto with ng7f|]. intros s2 E2. assert (P2 : QI s2) by eauto with qi.
  apply ng_bind; [auto with ng7f|]. intros s3 E3. assert (P3 : QI s3) by eauto with qi.
  apply ng_bind; [nggo|]. intros lz _.
  destruct lz; [auto with ng7f|].
  apply ng_bind; [auto with ng7f|]. intros s4 E4. assert (P4 : QI s4) by eauto with qi.
  apply ng_bind; [auto with ng7f|]. intros c4 _.
  apply ng_bind; [|intros; exact I].
  destruct (bval c4); pgo.
Qed.
End Line.

(* ================================================================== process_line, run_lines, parse_blocks *)
Lemma ng7f_process_line o st line0 : LOK (norm_line line0) -> QI st -> ng7f (process_line o st line0).
Proof.
  intros HL P. unfold process_line. cbv zeta.
  match goal with |- context [check_open_blocks o ?s ?l] => assert (P0 : QI s) by (apply QI_st_line_number, QI_st_cur, QI_st_curline; exact P) end.
  apply ng_bind; [first [now apply (ng7f_check_open_blocks o (norm_line line0) HL) | now apply (ng7f_check_open_blocks o (norm_line line0))]|]. intros [r s1] E.
  assert (P1 : QI s1) by (eapply check_open_blocks_qi; eassumption).
  apply ng_bind; [|intros; exact I].
  destruct r as [[lm am]|]; [|exact I]. cbv zeta.
  apply ng_bind; [first [now apply (ng7f_open_new_blocks o (norm_line line0) HL) | now apply (ng7f_open_new_blocks o (norm_line line0))]|]. intros [c s2] E2.
  assert (P2 : QI s2) by (eapply open_new_blocks_qi; eassumption).
  destruct (Nat.eqb (ps_current s1) (ps_current s2)); [first [now apply (ng7f_add_text_to_container o (norm_line line0) HL) | now apply (ng7f_add_text_to_container o (norm_line line0))] | exact I].
Qed.

Lemma ng7f_process_lines o : forall ls st, Forall (fun l => LOK (norm_line l)) ls -> QI st -> ng7f (process_lines o st ls).
Proof.
  induction ls as [|l r IH]; intros st F P; cbn [process_lines]; [exact I|]. inversion F; subst.
  apply ng_bind; [now apply ng7f_process_line|]. intros s1 E. apply IH; [assumption|]. eapply process_line_qi; eassumption.
Qed.

Lemma ng7f_finalize_document o st : QI st -> ng7f (finalize_document o st).
Proof.
  intro P. unfold finalize_document.
  apply ng_bind; [apply ng7f_finalize_up_to; [allowed | exact P]|]. intros s1 E.
  apply ng_bind; [|intros; exact I]. apply ng7f_finalize. eapply finalize_up_to_qi; eassumption.
Qed.

Lemma ng7f_front_matter_prologue o x : utf8_valid x = true -> ng7f (front_matter_prologue o init_state x).
Proof.
  intro V. unfold front_matter_prologue. destruct (bo_front_matter_delimiter o) as [d|]; [|exact I].
  apply ng_bind; [now apply ng7f_split_off_front_matter|]. intros [[fm rest]|] _; [|exact I].
  apply ng_bind; [auto with ng7f|]. intros stripped _. cbn. exact I.
Qed.

Theorem parse_blocks_ng7f o x : utf8_valid x = true -> ng7f (parse_blocks o x).
Proof.
  intro V. unfold parse_blocks. apply ng_bind; [now apply ng7f_front_matter_prologue|]. intros [st rest] E.
  pose proof (front_matter_prologue_qi _ _ _ _ E) as P.
  pose proof (lines_lok rest) as LK. unfold lines in LK. destruct (feed_lines rest) as [ls total]. cbn [fst] in LK.
  apply ng_bind; [|intros; exact I]. unfold run_lines.
  apply ng_bind; [now apply ng7f_process_lines|]. intros s1 E1.
  apply ng7f_finalize_document. eapply process_lines_qi; eassumption.
Qed.

Theorem parse_blocks_no_fm_panic o x s : utf8_valid x = true -> In s fm_sites -> parse_blocks o x <> Panic s.
Proof. intros V H. eapply sg_no_panic; [now apply parse_blocks_ng7f | exact H]. Qed.
