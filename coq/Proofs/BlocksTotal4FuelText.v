(* Proofs/BlocksTotal4FuelText.v — totality of the block phase, fourth round, fuel, part 4: add_text_to_container as a
   whole (clear_llb_up, finalize_up_to, add_child, finalize: all the fuelled loops it contains), under W o st alone.
   The invariant W of the intermediate states comes from the `if it answers Ok` lemmas (Wgo). *)
From Coq Require Import List NArith Arith Bool Lia Strings.String.
From V Require Import Base.Bytes Base.Res Gen.Nodes Model.Ast Model.Strings Model.Feed Model.FrontMatter Model.RefDef
  Model.Scan Model.Blocks Spec.Shape Spec.Valid Proofs.BlocksProofs Proofs.BlocksCursor Proofs.BlocksTight
  Proofs.ParserShapeBlocks Proofs.ParserShapeTree Proofs.ParserShapeTabPrim Proofs.ParserShapeTables
  Proofs.BlocksTotal Proofs.BlocksTotal2Safe Proofs.BlocksTotal2Root Proofs.BlocksTotal2Tree Proofs.BlocksTotal2Walk
  Proofs.BlocksTotal3Cur Proofs.BlocksTotal4Fuel Proofs.BlocksTotal4FuelTree Proofs.BlocksTotal4FuelFin.
Import ListNotations.
Local Open Scope string_scope.
Local Open Scope list_scope.

Lemma nf_add_line st id line : nf (add_line st id line).
Proof. unfold add_line. fgo. Qed.
Lemma nf_chop_trailing_hashtags s : nf (chop_trailing_hashtags s).
Proof. unfold chop_trailing_hashtags. fgo. Qed.
#[export] Hint Resolve nf_add_line nf_chop_trailing_hashtags : fuel.

Lemma W_ffn o st line st' : ffn st line = Ok st' -> W o st -> W o st'.
Proof. intros E V. eapply W_eqtree; [eapply ffn_eqtree; exact E | exact V]. Qed.
Lemma W_adv o st line n b st' : adv st line n b = Ok st' -> W o st -> W o st'.
Proof. intros E V. eapply W_eqtree; [eapply adv_eqtree; exact E | exact V]. Qed.
Lemma W_set_llb o st x b st' : modify_info st x (set_llb b) = Ok st' -> W o st -> W o st'.
Proof. intros M V. eapply modify_info_set_W; [exact M | intro; split; reflexivity | exact V]. Qed.
Lemma W_clear_llb_up o fuel st id st' : clear_llb_up fuel st id = Ok st' -> W o st -> W o st'.
Proof. intros E V. Wgo V. Qed.
Lemma W_finalize_up_to o fuel st target site st' : finalize_up_to fuel o st target site = Ok st' -> W o st -> W o st'.
Proof. intros E V. Wgo V. Qed.
Lemma W_add_line o st id line st' : add_line st id line = Ok st' -> W o st -> W o st'.
Proof. intros E V. Wgo V. Qed.

Theorem add_text_to_container_fuel o st c lmc line : W o st -> add_text_to_container o st c lmc line <> OutOfFuel.
Proof.
  intro V. unfold add_text_to_container.
  apply bind_fuel; [apply nf_ne, nf_ffn|]. intros s0 E0. pose proof (W_ffn _ _ _ _ E0 V) as V0.
  apply bind_fuel; [apply nf_ne, nf_get|]. intros cn _.
  apply bind_fuel; [apply nf_ne; fgo|]. intros s1 E1.
  assert (V1 : W o s1).
  { destruct (blank s0); [|inversion E1; subst; exact V0].
    destruct (last_opt (bkids cn)); [|inversion E1; subst; exact V0]. eapply W_set_llb; eassumption. }
  apply bind_fuel; [apply nf_ne, nf_modify_info|]. intros s2 M2. pose proof (W_set_llb _ _ _ _ _ M2 V1) as V2.
  apply bind_fuel; [now apply (clear_llb_up_fuel o)|]. intros s3 E3. pose proof (W_clear_llb_up _ _ _ _ _ E3 V2) as V3.
  apply bind_fuel; [apply nf_ne; fgo|]. intros lz _.
  destruct lz; [apply nf_ne, nf_add_line|].
  apply bind_fuel; [now apply finalize_up_to_fuel|]. intros s4 E4. pose proof (W_finalize_up_to _ _ _ _ _ _ E4 V3) as V4.
  apply bind_fuel; [apply nf_ne, nf_get|]. intros cn4 _.
  apply bind_fuel; [|intros; discriminate].
  assert (Other : forall v,
    (if blank s4 then Ok (c, s4)
     else if accepts_lines (kind_of v) then
       do line1 <- (match v with
                    | Heading _ setext => if negb setext then chop_trailing_hashtags line else Ok line
                    | _ => Ok line
                    end);
       do count <- sub "mod.rs:add_text_to_container:self.first_nonspace - self.offset" (fns s4) (offset s4);
       if Nat.leb (fns s4) (List.length line1) then
         do st1 <- adv s4 line1 count false;
         do st2 <- add_line st1 c line1;
         Ok (c, st2)
       else Ok (c, s4)
     else
       do a <- add_child o s4 c Paragraph (S (fns s4));
       let '(p, st1) := a in
       do count <- sub "mod.rs:add_text_to_container:self.first_nonspace - self.offset" (fns st1) (offset st1);
       do st2 <- adv st1 line count false;
       do st3 <- add_line st2 p line;
       Ok (p, st3)) <> OutOfFuel).
  { intro v. destruct (blank s4); [discriminate|]. destruct (accepts_lines (kind_of v)).
    - apply nf_ne. fgo.
    - apply bind_fuel; [now apply add_child_fuel|]. intros [p st1] _. apply nf_ne. fgo. }
  destruct (bval cn4) eqn:Bv; try apply Other.
  - apply nf_ne. fgo.
  - apply nf_ne. fgo.
Qed.

(* ---- the front matter prologue: split_off_front_matter, add_child, finalize *)
Theorem front_matter_prologue_fuel o st s : W o st -> front_matter_prologue o st s <> OutOfFuel.
Proof.
  intro V. unfold front_matter_prologue. destruct (bo_front_matter_delimiter o) as [d|]; [|discriminate].
  apply bind_fuel; [apply split_off_front_matter_fuel|]. intros [[fm rest]|] _; [|discriminate].
  apply bind_fuel; [apply nf_ne, nf_remove_trailing_blank_lines|]. intros stripped _.
  apply bind_fuel; [now apply add_child_fuel|]. intros [node st1] _.
  apply nf_ne. fgo.
Qed.
