(* Proofs/BlocksCursor.v — the cursor of the block parser (Model/Blocks.v): advance_offset and
   find_first_nonspace keep `offset <= first_nonspace <= |line|`; on a line that ends with LF and has no
   other LF the look-ahead byte line[first_nonspace] exists whenever the cursor has not passed the end. *)
From Coq Require Import List NArith Arith Bool Lia Strings.String.
From V Require Import Base.Bytes Base.Res Gen.BlocksConst Model.Ast Model.Strings Model.Scan Model.Blocks Proofs.ScanProofs.
Import ListNotations.
Local Open Scope string_scope.
Local Open Scope list_scope.

Lemma idx_ok site l i : i < List.length l -> exists b, idx site l i = Ok b.
Proof.
  intro H. unfold idx. destruct (nth_error l i) eqn:E; [eauto|].
  apply nth_error_None in E. lia.
Qed.

(* advance_offset never panics while it stays inside the line, and moves the byte offset forward by at
   most `count` *)
Lemma advance_loop_ok line columns : forall fuel off col pct count,
  count <= fuel -> off + count <= List.length line ->
  exists off' col' pct', advance_loop fuel line off col pct count columns = Ok (off', col', pct')
                         /\ off <= off' <= off + count.
Proof.
  induction fuel as [|f IH]; intros off col pct count Hf Hl.
  - assert (count = 0) by lia. subst. cbn. exists off, col, pct. split; [reflexivity | lia].
  - destruct count as [|k]. { cbn. exists off, col, pct. split; [reflexivity | lia]. }
    cbn [advance_loop].
    destruct (idx_ok "mod.rs:advance_offset:line[self.offset]" line off ltac:(lia)) as [b Eb].
    rewrite Eb. cbn [bind].
    destruct (beqb b x09).
    + destruct columns.
      * set (ctt := tab_stop - col mod tab_stop).
        assert (1 <= ctt) by (unfold ctt, tab_stop, gen_tab_stop; pose proof (Nat.mod_upper_bound col 4 ltac:(lia)); lia).
        destruct (Nat.ltb (S k) ctt) eqn:Lt.
        -- apply Nat.ltb_lt in Lt. rewrite Nat.min_l by lia. replace (S k - S k) with 0 by lia.
           destruct f; cbn; exists off, (col + S k), true; (split; [reflexivity | lia]).
        -- apply Nat.ltb_ge in Lt. rewrite Nat.min_r by lia.
           destruct (IH (S off) (col + ctt) false (S k - ctt) ltac:(lia) ltac:(lia)) as [o' [c' [p' [E B]]]].
           exists o', c', p'. split; [exact E | lia].
      * replace (S k - 1) with k by lia.
        destruct (IH (S off) (col + (tab_stop - col mod tab_stop)) false k ltac:(lia) ltac:(lia)) as [o' [c' [p' [E B]]]].
        exists o', c', p'. split; [exact E | lia].
    + replace (S k - 1) with k by lia.
      destruct (IH (S off) (S col) false k ltac:(lia) ltac:(lia)) as [o' [c' [p' [E B]]]].
      exists o', c', p'. split; [exact E | lia].
Qed.

Lemma advance_offset_ok c line count columns :
  c_offset c + count <= List.length line ->
  exists c', advance_offset c line count columns = Ok c'
             /\ c_offset c <= c_offset c' <= c_offset c + count
             /\ c_fns c' = c_fns c.
Proof.
  intro H. unfold advance_offset.
  destruct (advance_loop_ok line columns count (c_offset c) (c_column c) (c_pct c) count (le_n _) H)
    as [o' [c' [p' [E B]]]].
  rewrite E. cbn [bind]. eexists. split; [reflexivity|]. cbn. split; [lia | reflexivity].
Qed.

(* the whitespace scan of find_first_nonspace *)
Lemma fns_loop_bounds : forall s fns fnsc ctt,
  let r := fns_loop s fns fnsc ctt in
  fns <= fst r <= fns + List.length s /\ fnsc <= snd r.
Proof.
  induction s as [|b s IH]; intros fns fnsc ctt; cbn [fns_loop]. { cbn. lia. }
  destruct (beqb b x20).
  - specialize (IH (S fns) (S fnsc) (if Nat.eqb (ctt - 1) 0 then tab_stop else ctt - 1)). cbn zeta in IH. cbn [List.length]. lia.
  - destruct (beqb b x09).
    + specialize (IH (S fns) (fnsc + ctt) tab_stop). cbn zeta in IH. cbn [List.length]. lia.
    + cbn. lia.
Qed.

(* the scan stops on a byte that is neither space nor tab, or at the end *)
Lemma fns_loop_stop : forall s fns fnsc ctt,
  let r := fns_loop s fns fnsc ctt in
  match nth_error s (fst r - fns) with
  | Some b => is_space_or_tab b = false
  | None => fst r = fns + List.length s
  end.
Proof.
  induction s as [|b s IH]; intros fns fnsc ctt; cbn [fns_loop]. { cbn. rewrite Nat.sub_diag. cbn. lia. }
  destruct (beqb b x20) eqn:E1.
  - specialize (IH (S fns) (S fnsc) (if Nat.eqb (ctt - 1) 0 then tab_stop else ctt - 1)). cbn zeta in IH.
    pose proof (fns_loop_bounds s (S fns) (S fnsc) (if Nat.eqb (ctt - 1) 0 then tab_stop else ctt - 1)) as Bd. cbn zeta in Bd.
    set (r := fns_loop s (S fns) (S fnsc) (if Nat.eqb (ctt - 1) 0 then tab_stop else ctt - 1)) in *.
    replace (fst r - fns) with (S (fst r - S fns)) by lia. cbn [nth_error List.length].
    destruct (nth_error s (fst r - S fns)); [exact IH | lia].
  - destruct (beqb b x09) eqn:E2.
    + specialize (IH (S fns) (fnsc + ctt) tab_stop). cbn zeta in IH.
      pose proof (fns_loop_bounds s (S fns) (fnsc + ctt) tab_stop) as Bd. cbn zeta in Bd.
      set (r := fns_loop s (S fns) (fnsc + ctt) tab_stop) in *.
      replace (fst r - fns) with (S (fst r - S fns)) by lia. cbn [nth_error List.length].
      destruct (nth_error s (fst r - S fns)); [exact IH | lia].
    + cbn [fst]. rewrite Nat.sub_diag. cbn [nth_error].
      unfold is_space_or_tab. destruct b; try reflexivity; discriminate.
Qed.

(* find_first_nonspace when it rescans (first_nonspace <= offset, the case after every advance that
   passes first_nonspace and at the start of a line): no panic, offset <= first_nonspace <= |line| *)
Lemma find_first_nonspace_ok c line :
  c_fns c <= c_offset c -> c_offset c <= List.length line ->
  exists c', find_first_nonspace c line = Ok c'
             /\ c_offset c' = c_offset c /\ c_offset c' <= c_fns c' <= List.length line.
Proof.
  intros H1 H2. unfold find_first_nonspace.
  apply Nat.leb_le in H1. rewrite H1.
  pose proof (fns_loop_bounds (skipn (c_offset c) line) (c_offset c) (c_column c) (tab_stop - c_column c mod tab_stop)) as Bd.
  cbn zeta in Bd. destruct (fns_loop _ _ _ _) as [f fc]. cbn [fst snd] in Bd.
  rewrite skipn_length in Bd.
  unfold sub. destruct (Nat.ltb fc (c_column c)) eqn:L; [apply Nat.ltb_lt in L; lia|].
  cbn [bind]. eexists. split; [reflexivity|]. cbn. lia.
Qed.

(* lines handed to the handlers: LF at the end *)
Definition lf_terminated (line : bytes) : Prop := exists l, line = l ++ [x0a].

(* the look-ahead byte: after a rescan from inside the line, line[first_nonspace] exists *)
Lemma fns_loop_lf : forall s fns fnsc ctt, fst (fns_loop (s ++ [x0a]) fns fnsc ctt) <= fns + List.length s.
Proof.
  induction s as [|b s IH]; intros fns0 fnsc ctt; cbn [fns_loop app].
  - cbn. lia.
  - destruct (beqb b x20).
    + specialize (IH (S fns0) (S fnsc) (if Nat.eqb (ctt - 1) 0 then tab_stop else ctt - 1)). cbn [List.length]. lia.
    + destruct (beqb b x09).
      * specialize (IH (S fns0) (fnsc + ctt) tab_stop). cbn [List.length]. lia.
      * cbn. lia.
Qed.

Lemma look_ahead_in_bounds c line c' :
  lf_terminated line -> c_fns c <= c_offset c -> c_offset c < List.length line ->
  find_first_nonspace c line = Ok c' -> c_fns c' < List.length line.
Proof.
  intros [l El] H1 H2. subst line. unfold find_first_nonspace.
  assert (H1b := H1). apply Nat.leb_le in H1b. rewrite H1b.
  rewrite app_length in *. cbn [List.length] in *.
  assert (Hs : skipn (c_offset c) (l ++ [x0a]) = skipn (c_offset c) l ++ [x0a]).
  { rewrite skipn_app. replace (c_offset c - List.length l) with 0 by lia. reflexivity. }
  rewrite Hs.
  pose proof (fns_loop_lf (skipn (c_offset c) l) (c_offset c) (c_column c) (tab_stop - c_column c mod tab_stop)) as Gx.
  rewrite skipn_length in Gx.
  destruct (fns_loop _ _ _ _) as [f fc]. cbn [fst] in Gx.
  unfold sub. destruct (Nat.ltb fc (c_column c)); [discriminate|]. cbn [bind]. intro E. inversion E; subst. cbn [c_fns].
  lia.
Qed.

(* ---- ATX headings: the level computed by handle_atx_heading *)
Lemma count_hashes_repeat : forall k tl c, beqb c x23 = false ->
  count_hashes (repeat x23 k ++ c :: tl) = Ok k.
Proof.
  induction k as [|k IH]; intros tl c Hc; cbn [repeat app count_hashes].
  - now rewrite Hc.
  - replace (beqb x23 x23) with true by reflexivity. rewrite IH by exact Hc. reflexivity.
Qed.

(* handle_atx_heading: the level it computes is the number of hashes the scanner accepted: 1..6 *)
Lemma atx_level_bounds rest m p level :
  scan_atx_heading_start rest = Some m -> position_hash rest = Some p ->
  count_hashes (skipn p rest) = Ok level -> 1 <= level <= 6.
Proof.
  intros S P C. apply atx_level_1_6 in S. destruct S as (k & ws & tl & E & Hk & _ & Hws).
  subst rest. destruct k as [|k]; [lia|]. cbn [repeat app position_hash] in P.
  replace (beqb x23 x23) with true in P by reflexivity. inversion P; subst p. cbn [skipn] in C.
  assert (exists c ws', ws = c :: ws' /\ beqb c x23 = false) as (c & ws' & -> & Hc).
  { destruct Hws as [[Hne Hf] | [c [-> Hc]]].
    - destruct ws as [|c ws']; [congruence|]. exists c, ws'. split; [reflexivity|].
      inversion Hf; subst. destruct H1; subst; reflexivity.
    - exists c, []. split; [reflexivity|]. destruct Hc; subst; reflexivity. }
  pose proof (count_hashes_repeat (S k) (ws' ++ tl) c Hc) as R.
  cbn [skipn repeat app] in C, R. rewrite R in C. inversion C; subst. lia.
Qed.
