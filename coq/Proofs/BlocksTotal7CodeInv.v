(* Proofs/BlocksTotal7CodeInv.v — the code block sites, part 2: the per-node invariant along the Ok path.

     Cx e i  :=  Some (bi_id i) = e  \/  Cn i          (Cn of Proofs/BlocksTotal7CodeFin.v; e : option nat, the exception)
     CX e st :=  all_info (Cx e) (ps_root st)

   e = None between lines; e = Some new between the add_child that creates a code block (empty content) and the
   add_line that gives it the rest of its opening line.  Ok-path lemmas `f .. = Ok (.., st') -> CX e st -> CX e st'`
   in the style of Proofs/BlocksTotal6Val.v for every function below the handlers, for ANY e (the predicate is per
   node); the two transitions (add_child of a CodeBlock: None -> Some new; add_line on the only node with the
   identifier: Some id -> None) and the walk lemma for finalize.  reopen_ast_nodes (description lists) sets `open` on
   nodes: it needs "not a CodeBlock" of them and is NOT covered here. *)
From Coq Require Import List NArith Arith Bool Lia Strings.String.
From V Require Import Base.Bytes Base.Res Gen.StrLeafGen Gen.FeedConst Gen.Nodes Gen.BlocksConst Model.Ast Model.Strings
  Model.AutolinkLeaf Model.Scan Spec.EscapeSpec Model.Feed Model.FrontMatter Model.RefDef Model.Blocks Spec.LineEndings Proofs.FeedProofs Proofs.StrLeafProofs
  Proofs.BlocksProofs Proofs.BlocksPos Proofs.BlocksTotal6Val Proofs.ParserShapeTree Proofs.BlocksTotal4Safe Proofs.BlocksTotal7CodeFin.
Import ListNotations.
Local Open Scope string_scope.
Local Open Scope list_scope.

Definition Cx (e : option nat) (i : binfo) : Prop := Some (bi_id i) = e \/ Cn i.
Definition noncode (v : node_value) : bool := match v with CodeBlock _ => false | _ => true end.

Lemma Cx_weaken e i : Cx None i -> Cx e i.
Proof. intros [H|H]; [discriminate H | now right]. Qed.
Lemma Cx_trivial e i : noncode (bi_val i) = true -> Cx e i.
Proof. intro H. right. apply Cn_not_code. intros cb E. rewrite E in H. discriminate H. Qed.
Lemma Cx_set_val e i v : noncode v = true -> Cx e i -> Cx e (set_val v i).
Proof. intros H [L|R]; [left; destruct i; exact L | apply Cx_trivial; destruct i; exact H]. Qed.

Inductive CX (e : option nat) (st : pstate) : Prop := CX_intro : all_info (Cx e) (ps_root st) -> CX e st.
Lemma CX_all e st : (CX e) st -> all_info (Cx e) (ps_root st). Proof. now intros [H]. Qed.

Lemma CX_st_next e st n : (CX e) st -> (CX e) (st_next st n). Proof. intros [H]. constructor. exact H. Qed.
Lemma CX_st_current e st n : (CX e) st -> (CX e) (st_current st n). Proof. intros [H]. constructor. exact H. Qed.
Lemma CX_st_refmap e st m : (CX e) st -> (CX e) (st_refmap st m). Proof. intros [H]. constructor. exact H. Qed.
Lemma CX_st_cur e st c : (CX e) st -> (CX e) (st_cur st c). Proof. intros [H]. constructor. exact H. Qed.
Lemma CX_st_curline e st a b : (CX e) st -> (CX e) (st_curline st a b). Proof. intros [H]. constructor. exact H. Qed.
Lemma CX_st_last_line_length e st n : (CX e) st -> (CX e) (st_last_line_length st n). Proof. intros [H]. constructor. exact H. Qed.
Lemma CX_st_line_number e st n : (CX e) st -> (CX e) (st_line_number st n). Proof. intros [H]. constructor. exact H. Qed.

Lemma get_allq e st id n : (CX e) st -> get st id = Ok n -> all_info (Cx e) n.
Proof. intros [A] G. apply get_find in G. exact (find_node_all _ _ _ _ A G). Qed.
Lemma get_cxn e st id n : (CX e) st -> get st id = Ok n -> (Cx e) (binf n).
Proof. intros P G. apply all_info_binf. eapply get_allq; eassumption. Qed.

Lemma modify_cx e st id f st' :
  (CX e) st -> modify st id f = Ok st' ->
  (forall n, find_node id (ps_root st) = Some n -> all_info (Cx e) n -> all_info (Cx e) (f n)) -> (CX e) st'.
Proof.
  unfold modify. intros [A] M Hf. destruct (upd id f (ps_root st)) as [r|] eqn:U; [|discriminate].
  inversion M; subst. constructor. cbn. exact (upd_all _ _ _ _ _ A U Hf).
Qed.

Lemma modify_info_cx e st id f st' :
  modify_info st id f = Ok st' -> (forall i, (Cx e) i -> (Cx e) (f i)) -> (CX e) st -> (CX e) st'.
Proof.
  intros M Hf P. eapply modify_cx; [exact P | exact M |].
  intros n _ An. destruct n as [i ch]. cbn [on_info]. apply all_info_node in An. apply all_info_node.
  split; [apply Hf; apply An | apply An].
Qed.

Lemma modify_info_const_cx e st id n i' st' :
  modify_info st id (fun _ => i') = Ok st' -> get st id = Ok n -> ((Cx e) (binf n) -> (Cx e) i') -> (CX e) st -> (CX e) st'.
Proof.
  intros M G Hf P. eapply modify_cx; [exact P | exact M |].
  intros m Fm Am. apply get_find in G. rewrite G in Fm. inversion Fm; subst m.
  destruct n as [i ch]. cbn [on_info binf] in *. apply all_info_node in Am. apply all_info_node.
  split; [apply Hf; apply Am | apply Am].
Qed.

(* modify_info with a function of the info found under the identifier *)
Lemma modify_info_get_cx e st id n f st' :
  modify_info st id f = Ok st' -> get st id = Ok n -> ((Cx e) (binf n) -> (Cx e) (f (binf n))) -> (CX e) st -> (CX e) st'.
Proof.
  intros M G Hf P. eapply modify_cx; [exact P | exact M |].
  intros m Fm Am. apply get_find in G. rewrite G in Fm. inversion Fm; subst m.
  destruct n as [i ch]. cbn [on_info binf] in *. apply all_info_node in Am. apply all_info_node.
  split; [apply Hf; apply Am | apply Am].
Qed.

Lemma edit_root_cx e st id g r :
  edit_kids id g (ps_root st) = Some r -> (CX e) st ->
  (forall pk pre c post, Forall (all_info (Cx e)) (pre ++ c :: post) -> Forall (all_info (Cx e)) (g pk pre c post)) ->
  (CX e) (st_root st r).
Proof. intros E [A] Hg. constructor. cbn. eapply edit_kids_all; eassumption. Qed.

Lemma bdetach_cx e st id st' : bdetach st id = Ok st' -> (CX e) st -> (CX e) st'.
Proof.
  unfold bdetach. intros D P.
  destruct (edit_kids id (fun _ pre _ post => pre ++ post) (ps_root st)) as [r|] eqn:E.
  - inversion D; subst. eapply edit_root_cx; [exact E | exact P |].
    intros pk pre c post K. apply Forall_app in K. destruct K as [K1 K2]. inversion K2; subst.
    apply Forall_app. split; assumption.
  - now inversion D; subst.
Qed.

Lemma append_child_cx e st pid c st' : append_child st pid c = Ok st' -> all_info (Cx e) c -> (CX e) st -> (CX e) st'.
Proof.
  intros A Ac P. eapply modify_cx; [exact P | exact A |].
  intros n _ An. destruct n as [i ch]. apply all_info_node in An. apply all_info_node. split; [apply An|].
  apply Forall_app. split; [apply An|]. constructor; [exact Ac | constructor].
Qed.

(* setters that touch neither the value, the content nor line_offsets *)
Ltac cx_side :=
  let i := fresh "i" in let H := fresh "H" in
  intros i H; destruct i; unfold Cx, Cn in *; cbn in *; try exact H.

Create HintDb qi.
#[export] Hint Resolve CX_st_next CX_st_current CX_st_refmap CX_st_cur CX_st_curline CX_st_last_line_length CX_st_line_number
  bdetach_cx modify_info_cx : cx.
#[export] Hint Extern 1 (forall i : binfo, Cx _ i -> Cx _ _) => cx_side : cx.

Ltac cxgo H := mon H; monall; repeat match goal with p : (_ * _)%type |- _ => destruct p end; cbn [fst snd] in *; eauto 20 with cx.

Lemma adv_cx e st line n b st' : adv st line n b = Ok st' -> (CX e) st -> (CX e) st'.
Proof. unfold adv. intros H P. mon H. now apply CX_st_cur. Qed.
Lemma ffn_cx e st line st' : ffn st line = Ok st' -> (CX e) st -> (CX e) st'.
Proof. unfold ffn. intros H P. mon H. now apply CX_st_cur. Qed.
#[export] Hint Resolve adv_cx ffn_cx : cx.

(* ================================================================== finalize *)
Lemma retighten_cx e st p st' : retighten st p = Ok st' -> (CX e) st -> (CX e) st'.
Proof.
  unfold retighten. intros H P. destruct p as [item|]; [|inversion H; subst; exact P].
  destruct (parent_of item (ps_root st)) as [lid|]; [|inversion H; subst; exact P].
  destruct (get st lid) as [l| |] eqn:G; cbn [bind] in H; try discriminate H.
  destruct (bi_open (binf l)); [inversion H; subst; exact P|].
  destruct (bval l) eqn:Bv; try (inversion H; subst; exact P).
  eapply modify_info_get_cx; [exact H | exact G | | exact P].
  apply Cx_set_val. reflexivity.
Qed.
#[export] Hint Resolve retighten_cx : cx.


Lemma finalize_cx e o st id p st' : finalize o st id = Ok (p, st') -> CX e st -> CX e st'.
Proof.
  intros F P. unfold finalize in F.
  mstep F. mstep F; [discriminate F|]. mstep F. clear E1.
  destruct (bi_val (binf a)) eqn:Ev; mon F;
  repeat first [ match goal with |- CX _ (st_refmap _ _) => apply CX_st_refmap end
               | (eapply retighten_cx; [eassumption|])
               | (eapply bdetach_cx; [eassumption|])
               | (eapply modify_info_const_cx; [eassumption | exact E | | exact P]; intros _) ];
  right; apply Cn_closed; destruct (binf a); reflexivity.
Qed.
#[export] Hint Resolve finalize_cx : cx.

Lemma unwrap_parent_fin_cx e site o st id p st' : unwrap_parent site (finalize o st id) = Ok (p, st') -> (CX e) st -> (CX e) st'.
Proof.
  unfold unwrap_parent. intros H P.
  destruct (finalize o st id) as [[op s1]| |] eqn:E; cbn [bind fst snd] in H; try discriminate H.
  destruct op; inversion H; subst. eapply finalize_cx; eassumption.
Qed.
#[export] Hint Resolve unwrap_parent_fin_cx : cx.

(* ================================================================== add_child *)
Lemma add_child_loop_cx e o k : forall fuel st parent p' st',
  add_child_loop fuel o st parent k = Ok (p', st') -> (CX e) st -> (CX e) st'.
Proof.
  induction fuel as [|f IH]; intros st parent p' st' H P; [discriminate|].
  cbn [add_child_loop] in H.
  destruct (get st parent) as [pn| |] eqn:G; cbn [bind] in H; try discriminate H.
  destruct (can_contain (bkind pn) k).
  - inversion H; subst. exact P.
  - match type of H with bind ?r _ = _ => destruct r as [[q s1]| |] eqn:U; cbn [bind fst snd] in H; try discriminate H end.
    eapply IH; [exact H|]. eapply unwrap_parent_fin_cx; eassumption.
Qed.

Lemma Cx_new e id v l c : noncode v = true -> (Cx e) (new_info id v l c).
Proof. intro H. apply Cx_trivial. exact H. Qed.

Lemma add_child_gen_cx e o st parent v col post kids id st' :
  add_child_gen o st parent v col post kids = Ok (id, st') ->
  (forall i, bi_val i = v -> (Cx e) i -> (Cx e) (post i)) -> noncode v = true -> Forall (all_info (Cx e)) kids ->
  (CX e) st -> (CX e) st'.
Proof.
  unfold add_child_gen. intros H Hp Hv Hk P.
  match type of H with bind ?r _ = _ => destruct r as [[p' s1]| |] eqn:E; cbn [bind] in H; try discriminate H end.
  pose proof (add_child_loop_cx _ _ _ _ _ _ _ _ E P) as P1.
  mon H. eapply append_child_cx; [eassumption | | apply CX_st_next; exact P1].
  apply all_info_node. split; [|exact Hk]. apply Hp; [reflexivity|]. now apply Cx_new.
Qed.

Lemma add_child_cx e o st parent v col id st' : add_child o st parent v col = Ok (id, st') -> noncode v = true -> (CX e) st -> (CX e) st'.
Proof.
  unfold add_child. intros H Hv P. eapply add_child_gen_cx; [exact H | auto | exact Hv | constructor | exact P].
Qed.
#[export] Hint Resolve add_child_cx : cx.
#[export] Hint Extern 1 (noncode _ = true) => reflexivity : cx.

(* ================================================================== check_open_blocks *)
Lemma skip_one_space_cx e st line site st' : skip_one_space st line site = Ok st' -> (CX e) st -> (CX e) st'.
Proof. unfold skip_one_space. intros H P. cxgo H. Qed.
#[export] Hint Resolve skip_one_space_cx : cx.
Lemma parse_block_quote_prefix_cx e o st line b st' : parse_block_quote_prefix o st line = Ok (b, st') -> (CX e) st -> (CX e) st'.
Proof. unfold parse_block_quote_prefix. intros H P. cxgo H. Qed.
#[export] Hint Resolve parse_block_quote_prefix_cx : cx.
Lemma parse_footnote_prefix_cx e st line b st' : parse_footnote_definition_block_prefix st line = Ok (b, st') -> (CX e) st -> (CX e) st'.
Proof. unfold parse_footnote_definition_block_prefix. intros H P. cxgo H. Qed.
#[export] Hint Resolve parse_footnote_prefix_cx : cx.
Lemma parse_item_prefix_cx e st line c mo pad b st' : parse_item_prefix st line c mo pad = Ok (b, st') -> (CX e) st -> (CX e) st'.
Proof. unfold parse_item_prefix. intros H P. cxgo H. Qed.
#[export] Hint Resolve parse_item_prefix_cx : cx.
Lemma skip_fence_offset_cx e line site : forall i st st', skip_fence_offset i st line site = Ok st' -> (CX e) st -> (CX e) st'.
Proof. induction i as [|j IH]; intros st st' H P; cbn [skip_fence_offset] in H; cxgo H. Qed.
#[export] Hint Resolve skip_fence_offset_cx : cx.
Lemma parse_code_block_prefix_cx e o st line c cb a b st' : parse_code_block_prefix o st line c cb = Ok (a, b, st') -> (CX e) st -> (CX e) st'.
Proof. unfold parse_code_block_prefix. intros H P. cxgo H. Qed.
#[export] Hint Resolve parse_code_block_prefix_cx : cx.
Lemma parse_mbq_prefix_cx e o st line c fl fo a b st' : parse_multiline_block_quote_prefix o st line c fl fo = Ok (a, b, st') -> (CX e) st -> (CX e) st'.
Proof. unfold parse_multiline_block_quote_prefix. intros H P. cxgo H. Qed.
#[export] Hint Resolve parse_mbq_prefix_cx : cx.
Lemma check_container_cx e o st line c a b st' : check_container o st line c = Ok (a, b, st') -> (CX e) st -> (CX e) st'.
Proof. unfold check_container. intros H P. destruct (bval c); cxgo H. Qed.
#[export] Hint Resolve check_container_cx : cx.
Lemma check_open_blocks_inner_cx e o line : forall fuel st container a c b st',
  check_open_blocks_inner fuel o st line container = Ok (a, c, b, st') -> (CX e) st -> (CX e) st'.
Proof. induction fuel as [|f IH]; intros st container a c b st' H P; cbn [check_open_blocks_inner] in H; cxgo H. Qed.
#[export] Hint Resolve check_open_blocks_inner_cx : cx.
Lemma check_open_blocks_cx e o st line r st' : check_open_blocks o st line = Ok (r, st') -> (CX e) st -> (CX e) st'.
Proof. unfold check_open_blocks. intros H P. cxgo H. Qed.
#[export] Hint Resolve check_open_blocks_cx : cx.

(* ================================================================== tables *)Lemma try_inserting_cx e st c po st' :
  try_inserting_table_header_paragraph st c po = Ok st' ->
  (forall cn, get st c = Ok cn -> is_paragraph cn = true) -> (CX e) st -> (CX e) st'.
Proof.
  unfold try_inserting_table_header_paragraph. intros H Hc P.
  destruct (get st c) as [cn| |] eqn:G; cbn [bind] in H; try discriminate H.
  mstep H; [discriminate H|]. cbv zeta in H. rewrite trim_ok in H. cbn [bind] in H.
  mon H; monall; try exact P.
  match goal with M : modify_info _ _ _ = Ok ?s |- _ => assert (P1 : (CX e) s) end.
  { eapply modify_info_cx; [eassumption | | apply CX_st_next; exact P]. cx_side. }
  eapply edit_root_cx; [eassumption | exact P1 |].
  intros pk pre x post K. cbv beta. destruct (can_contain pk KParagraph); [|exact K].
  apply Forall_app in K. destruct K as [K1 K2]. apply Forall_app. split; [exact K1|].
  cbn [app]. constructor; [|exact K2]. apply all_info_node. split; [|constructor].
  apply Cx_trivial. reflexivity.
Qed.

Lemma header_cells_cxn e : forall cells id ln sl sc po l, header_cells cells id ln sl sc po = Ok l -> Forall (all_info (Cx e)) l.
Proof.
  induction cells as [|c r IH]; intros id ln sl sc po l H; cbn [header_cells] in H.
  - inversion H. constructor.
  - mon H. constructor; [|eapply IH; eassumption].
    apply all_info_node. split; [|constructor]. apply Cx_trivial. reflexivity.
Qed.

Lemma try_opening_header_cx e o st c line r st' :
  try_opening_header o st c line = Ok (r, st') ->
  (forall cn, get st c = Ok cn -> is_paragraph cn = true) -> (CX e) st -> (CX e) st'.
Proof.
  unfold try_opening_header. intros H Hc P.
  destruct (get st c) as [cn0| |] eqn:G0; cbn [bind] in H; try discriminate H.
  pose proof (Hc _ eq_refl) as Hp. clear Hc.
  mon H; monall; try exact P;
  match goal with
  | I : try_inserting_table_header_paragraph _ _ _ = Ok ?s |- _ =>
    assert (P1 : (CX e) s)
      by (eapply try_inserting_cx; [exact I | intros cn' G'; rewrite G0 in G'; inversion G'; subst; exact Hp | exact P])
  | _ => pose proof P as P1
  end;
  (eapply edit_root_cx; [eassumption | eauto 10 with cx |]);
  intros pk pre x post K; cbv beta; (destruct (is_paragraph x); [|exact K]);
  apply Forall_app in K; destruct K as [K1 K2]; inversion K2; subst;
  apply Forall_app; (split; [exact K1|]); cbn [app]; (constructor; [|assumption]);
  apply all_info_node; (split; [apply Cx_trivial; reflexivity|]);
  (constructor; [|constructor]); apply all_info_node;
  (split; [apply Cx_trivial; reflexivity|]);
  eapply header_cells_cxn; eassumption.
Qed.

Lemma row_cells_cxn e : forall n cells id ln sc lc l lc', row_cells n cells id ln sc lc = Ok (l, lc') -> Forall (all_info (Cx e)) l.
Proof.
  induction n as [|m IH]; intros cells id ln sc lc l lc' H; cbn [row_cells] in H.
  - destruct cells; inversion H; subst; constructor.
  - destruct cells as [|c r]; [inversion H; subst; constructor|].
    mon H. repeat match goal with p : (_ * _)%type |- _ => destruct p end. cbn [fst snd] in *.
    constructor; [|eapply IH; eassumption]. apply all_info_node. split; [|constructor]. apply Cx_trivial. reflexivity.
Qed.

Lemma filler_cells_cxn e : forall n id ln lc, Forall (all_info (Cx e)) (filler_cells n id ln lc).
Proof.
  induction n as [|m IH]; intros id ln lc; cbn [filler_cells]; constructor; [|apply IH].
  apply all_info_node. split; [|constructor]. apply Cx_trivial. reflexivity.
Qed.

Lemma try_opening_row_cx e o st c t line r st' : try_opening_row o st c t line = Ok (r, st') -> (CX e) st -> (CX e) st'.
Proof.
  unfold try_opening_row. intros H P.
  mon H; monall; try exact P.
  match goal with M : modify _ _ _ = Ok ?s |- _ => assert ((CX e) s) end.
  { eapply modify_cx; [apply CX_st_next; exact P | eassumption |].
    intros nn Fn An. destruct nn as [i ch]. apply all_info_node in An. destruct An as [Ai Ak].
    apply all_info_node. split; [apply Cx_trivial; reflexivity|].
    apply Forall_app. split; [exact Ak|]. constructor; [|constructor].
    apply all_info_node. split; [apply Cx_trivial; reflexivity|].
    apply Forall_app. split; [eapply row_cells_cxn; eassumption | apply filler_cells_cxn]. }
  eauto 10 with cx.
Qed.

Lemma try_opening_block_cx e o st c line r st' : try_opening_block o st c line = Ok (r, st') -> (CX e) st -> (CX e) st'.
Proof.
  unfold try_opening_block. intros H P.
  destruct (get st c) as [cn| |] eqn:G; cbn [bind] in H; try discriminate H.
  destruct (bval cn) eqn:Bv; try (inversion H; subst; exact P).
  - eapply try_opening_header_cx; [exact H | | exact P].
    intros cn' G'. rewrite G in G'. inversion G'; subst. unfold is_paragraph. now rewrite Bv.
  - eapply try_opening_row_cx; [exact H | exact P].
Qed.

(* ================================================================== the handlers of open_new_blocks that create no code block
   (handle_description_list is left out: reopen_ast_nodes) *)
Section handlers.
Variables (o : bopts) (line : bytes).

Lemma handle_alert_cx e st c ind b c' st' : handle_alert o st c line ind = Ok (b, c', st') -> (CX e) st -> (CX e) st'.
Proof. unfold handle_alert. intros H P. cxgo H. Qed.
Lemma handle_mbq_cx e st c ind b c' st' : handle_multiline_blockquote o st c line ind = Ok (b, c', st') -> (CX e) st -> (CX e) st'.
Proof. unfold handle_multiline_blockquote, rest_at_fns. intros H P. cxgo H. Qed.
Lemma handle_blockquote_cx e st c ind b c' st' : handle_blockquote o st c line ind = Ok (b, c', st') -> (CX e) st -> (CX e) st'.
Proof. unfold handle_blockquote. intros H P. cxgo H. Qed.
Lemma handle_atx_cx e st c ind b c' st' : handle_atx_heading o st c line ind = Ok (b, c', st') -> (CX e) st -> (CX e) st'.
Proof.
  unfold handle_atx_heading, rest_at_fns. intros H P. mon H; monall; repeat match goal with p : (_ * _)%type |- _ => destruct p end; cbn [fst snd] in *; eauto with cx.
  eapply add_child_gen_cx; [eassumption | | reflexivity | constructor | eauto with cx].
  intros i Ev Hi. apply Cx_trivial. destruct i; reflexivity.
Qed.
Lemma handle_html_block_cx e st c ind b c' st' : handle_html_block o st c line ind = Ok (b, c', st') -> CX e st -> CX e st'.
Proof. unfold handle_html_block, rest_at_fns. intros H P. cxgo H. Qed.
Lemma handle_footnote_cx e st c ind d b c' st' : handle_footnote o st c line ind d = Ok (b, c', st') -> (CX e) st -> (CX e) st'.
Proof. unfold handle_footnote, rest_at_fns. intros H P. cxgo H. Qed.
Lemma list_spaces_loop_cx e sc : forall fuel st st', list_spaces_loop fuel st line sc = Ok st' -> (CX e) st -> (CX e) st'.
Proof. induction fuel as [|f IH]; intros st st' H P; cbn [list_spaces_loop] in H; cxgo H. Qed.
Hint Resolve list_spaces_loop_cx : cx.
Lemma handle_list_cx e st c ind d b c' st' : handle_list o st c line ind d = Ok (b, c', st') -> (CX e) st -> (CX e) st'.
Proof. unfold handle_list. intros H P. cxgo H. Qed.
Lemma handle_setext_cx e st c ind b c' st' : handle_setext_heading o st c line ind = Ok (b, c', st') -> CX e st -> CX e st'.
Proof.
  unfold handle_setext_heading, rest_at_fns. intros H P.
  mstep H; [inversion H; subst; exact P|].
  destruct (get st c) as [cn| |] eqn:G; cbn [bind] in H; try discriminate H.
  destruct (is_paragraph cn) eqn:Pa; cbn [negb] in H; [|inversion H; subst; exact P].
  apply is_paragraph_val in Pa.
  mon H; monall; repeat match goal with p : (_ * _)%type |- _ => destruct p end; cbn [fst snd] in *; eauto 10 with cx;
  match goal with M1 : modify_info (st_refmap st _) _ _ = Ok ?s1 |- _ => assert (P1 : CX e s1) end;
  try (eapply modify_info_get_cx; [eassumption | exact G | | apply CX_st_refmap; exact P]; intros _;
       apply Cx_trivial; destruct cn as [i ch]; destruct i; unfold bval in Pa; cbn in *; subst; reflexivity);
  eauto 10 with cx.
Qed.
Lemma handle_thematic_break_cx e st c ind am b c' st' : handle_thematic_break o st c line ind am = Ok (b, c', st') -> (CX e) st -> (CX e) st'.
Proof. unfold handle_thematic_break. intros H P. cxgo H. Qed.
End handlers.

(* ================================================================== the closing loops, add_line *)
Lemma clear_llb_up_cx e : forall fuel st id st', clear_llb_up fuel st id = Ok st' -> CX e st -> CX e st'.
Proof. induction fuel as [|f IH]; intros st id st' H P; cbn [clear_llb_up] in H; cxgo H. Qed.

Lemma finalize_up_to_cx e o target site : forall fuel st st', finalize_up_to fuel o st target site = Ok st' -> CX e st -> CX e st'.
Proof. induction fuel as [|f IH]; intros st st' H P; cbn [finalize_up_to] in H; cxgo H. Qed.

Lemma finalize_document_cx e o st st' : finalize_document o st = Ok st' -> CX e st -> CX e st'.
Proof.
  unfold finalize_document. intros H P. mon H; monall. repeat match goal with p : (_ * _)%type |- _ => destruct p end. cbn [fst snd] in *.
  eapply finalize_cx; [eassumption|]. eapply finalize_up_to_cx; eassumption.
Qed.

(* add_line keeps the invariant, on any node, with any line: the content grows at the end *)
Lemma add_line_cx e st id line st' : add_line st id line = Ok st' -> CX e st -> CX e st'.
Proof.
  intros H P. destruct (get st id) as [n| |] eqn:G; try (unfold add_line in H; rewrite G in H; discriminate H).
  destruct (add_line_grows _ _ _ _ _ H G) as (i' & s1 & M & R & K & Ei).
  assert (P1 : CX e s1).
  { eapply modify_info_const_cx; [exact M | exact G | | exact P]. intros [L|C]; [left; now rewrite Ei | right; now apply K]. }
  destruct P1 as [A]. constructor. now rewrite R.
Qed.
#[export] Hint Resolve clear_llb_up_cx finalize_up_to_cx add_line_cx : cx.

Lemma CX_weaken e st : CX None st -> CX e st.
Proof. intros [A]. constructor. eapply all_info_mono; [|exact A]. intros i. apply Cx_weaken. Qed.

Lemma CX_init : CX None init_state.
Proof. constructor. cbn [ps_root init_state all_info]. split; [|exact I]. apply Cx_trivial. reflexivity. Qed.

(* ================================================================== the exception appears: add_child of a CodeBlock *)
Lemma add_child_code_cx o st parent cb col id st' :
  add_child o st parent (CodeBlock cb) col = Ok (id, st') -> CX None st -> CX (Some id) st'.
Proof.
  unfold add_child, add_child_gen. intros H P.
  match type of H with bind ?r _ = _ => destruct r as [[p' s1]| |] eqn:E; cbn [bind] in H; try discriminate H end.
  pose proof (add_child_loop_cx _ _ _ _ _ _ _ _ E P) as P1.
  mon H. eapply append_child_cx; [eassumption | | apply CX_st_next; apply CX_weaken; exact P1].
  apply all_info_node. split; [|constructor]. left. reflexivity.
Qed.

(* ================================================================== the walk: finalize under the invariant *)
Lemma get_bid st id n : get st id = Ok n -> bi_id (binf n) = id.
Proof. intro G. apply get_find in G. now destruct (find_node_sub _ _ _ G). Qed.

Lemma ngk_finalize_cx e o st id : CX e st -> e <> Some id -> ngk (finalize o st id).
Proof.
  intros P Ne. apply ngk_finalize. intros n G. destruct (get_cxn _ _ _ _ P G) as [L|C]; [|exact C].
  exfalso. apply Ne. rewrite <- L. f_equal. eapply get_bid; exact G.
Qed.

Lemma ngk_unwrap_parent_cx e site o st id : alk site = true -> CX e st -> e <> Some id -> ngk (unwrap_parent site (finalize o st id)).
Proof.
  intros H P Ne. apply ngk_unwrap_parent; [exact H|]. intros n G. destruct (get_cxn _ _ _ _ P G) as [L|C]; [|exact C].
  exfalso. apply Ne. rewrite <- L. f_equal. eapply get_bid; exact G.
Qed.

(* between lines (no exception) the closing loops are safe *)
Lemma ngk_add_child_loop o k : forall fuel st parent, CX None st -> ngk (add_child_loop fuel o st parent k).
Proof.
  induction fuel as [|f IH]; intros st parent P; cbn [add_child_loop]; [reflexivity|].
  apply ng_bind; [auto with ngk|]. intros p G. destruct (can_contain (bkind p) k); [exact I|].
  apply ng_bind; [eapply ngk_unwrap_parent_cx; [allowed | exact P | discriminate]|].
  intros [q s1] U. cbn [fst snd]. apply IH. eapply unwrap_parent_fin_cx; eassumption.
Qed.

Lemma ngk_add_child_gen o st parent v col post kids : CX None st -> ngk (add_child_gen o st parent v col post kids).
Proof. intro P. unfold add_child_gen. apply ng_bind; [now apply ngk_add_child_loop|]. intros [p1 s1] _. nggok. Qed.

Lemma ngk_finalize_up_to o target site : alk site = true -> forall fuel st, CX None st -> ngk (finalize_up_to fuel o st target site).
Proof.
  intro H. induction fuel as [|f IH]; intros st P; cbn [finalize_up_to]; [reflexivity|].
  destruct (Nat.eqb (ps_current st) target); [exact I|].
  apply ng_bind; [eapply ngk_unwrap_parent_cx; [exact H | exact P | discriminate]|].
  intros [q s1] U. cbn [fst snd]. apply IH. apply CX_st_current. eapply unwrap_parent_fin_cx; eassumption.
Qed.

Lemma ngk_finalize_document o st : CX None st -> ngk (finalize_document o st).
Proof.
  intro P. unfold finalize_document.
  apply ng_bind; [apply ngk_finalize_up_to; [allowed | exact P]|]. intros s1 E.
  apply ng_bind; [|intros; exact I]. apply (ngk_finalize_cx None); [|discriminate]. eapply finalize_up_to_cx; eassumption.
Qed.
