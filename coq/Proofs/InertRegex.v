(* Proofs/InertRegex.v -- "this regular expression needs a byte of the class P": a syntactic, executable
   sufficient condition, its soundness w.r.t. the match relation, and the consequence for re2c rule blocks:
   when every rule needs a P-byte and the input has none, the default rule fires.  Instances for the scanners
   that guard the option-dependent block openers. *)
From Coq Require Import Strings.String.
From Coq Require Import List NArith Bool Lia.
From V Require Import Base.Bytes Base.Res Base.Regex Base.Re2c Proofs.RegexProofs Proofs.ScanProofs.
From V Require Import Model.Ast Gen.ScannersRe Model.Scan.
Import ListNotations.
Local Open Scope list_scope.

(* every string matched by r contains a byte satisfying P *)
Fixpoint needs (P : byte -> bool) (r : re) : bool :=
  match r with
  | Empty => true
  | Eps => false
  | Chr cs => forallb (fun c => negb (cs_mem cs c) || P c) all_bytes
  | Cat a b => needs P a || needs P b
  | Alt a b => needs P a && needs P b
  | Star _ => false
  end.

Lemma needs_sound P r s : needs P r = true -> matches r s -> exists b, In b s /\ P b = true.
Proof.
  intros Hn Hm. revert Hn. induction Hm; intro Hn; cbn [needs] in Hn.
  - discriminate Hn.
  - exists b. split; [left; reflexivity |].
    pose proof (forall_bytes _ Hn b) as Hb. cbv beta in Hb. rewrite H in Hb. exact Hb.
  - apply orb_true_iff in Hn. destruct Hn as [Hn | Hn].
    + destruct (IHHm1 Hn) as (c & Hc & Pc). exists c. split; [apply in_or_app; left; exact Hc | exact Pc].
    + destruct (IHHm2 Hn) as (c & Hc & Pc). exists c. split; [apply in_or_app; right; exact Hc | exact Pc].
  - apply andb_true_iff in Hn. apply IHHm. tauto.
  - apply andb_true_iff in Hn. apply IHHm. tauto.
  - discriminate Hn.
  - discriminate Hn.
Qed.

(* no byte of s satisfies P *)
Definition nop (P : byte -> bool) (s : bytes) : Prop := forall b, In b s -> P b = false.

Lemma nop_skipn P n s : nop P s -> nop P (skipn n s).
Proof.
  intros H b Hb. apply H. rewrite <- (firstn_skipn n s). apply in_or_app. right. exact Hb.
Qed.

Lemma nop_firstn P n s : nop P s -> nop P (firstn n s).
Proof.
  intros H b Hb. apply H. rewrite <- (firstn_skipn n s). apply in_or_app. left. exact Hb.
Qed.

Lemma nop_app P s t : nop P s -> nop P t -> nop P (s ++ t).
Proof. intros H1 H2 b Hb. apply in_app_or in Hb. destruct Hb; [apply H1 | apply H2]; assumption. Qed.

Lemma nop_repeat P c n : P c = false -> nop P (repeat c n).
Proof. intros H b Hb. apply repeat_spec in Hb. subst. exact H. Qed.

(* a rule block all of whose rules need a P-byte answers by its default rule on inputs without P-bytes *)
Lemma run_rules_needs P rules dflt pad s :
  forallb (fun x => needs P (rule_re x)) rules = true ->
  P x00 = false ->
  nop P s ->
  run_rules rules dflt pad s = mkOutcome dflt 1 0.
Proof.
  intros Hr H0 Hs. unfold run_rules.
  destruct (pick_rule rules (s ++ repeat x00 pad) None) as [[L x]|] eqn:E; [| reflexivity].
  exfalso. apply pick_rule_sound in E. destruct E as [E | [Hin Hl]]; [discriminate E |].
  rewrite forallb_forall in Hr. specialize (Hr _ Hin).
  apply longest_match_spec in Hl. destruct Hl as (_ & Hm & _).
  destruct (needs_sound _ _ _ Hr Hm) as (b & Hb & Pb).
  assert (nop P (firstn L (s ++ repeat x00 pad))) as Hw.
  { apply nop_firstn, nop_app; [exact Hs | apply nop_repeat; exact H0]. }
  rewrite (Hw _ Hb) in Pb. discriminate Pb.
Qed.

Lemma scan_usize_needs P rules dflt pad s :
  forallb (fun x => needs P (rule_re x)) rules = true -> P x00 = false -> nop P s ->
  as_opt_usize (run_rules rules dflt pad s) = as_opt_usize (mkOutcome dflt 1 0).
Proof. intros. f_equal. eapply run_rules_needs; eassumption. Qed.

Lemma scan_alert_needs P rules dflt pad s :
  forallb (fun x => needs P (rule_re x)) rules = true -> P x00 = false -> nop P s ->
  as_opt_alert (run_rules rules dflt pad s) = as_opt_alert (mkOutcome dflt 1 0).
Proof. intros. f_equal. eapply run_rules_needs; eassumption. Qed.

(* ---------------------------------------------------------------- the trigger bytes *)
(* s has no byte t *)
Definition nob (t : byte) (s : bytes) : Prop := forall b, In b s -> beqb b t = false.

Lemma nob_nop t s : nob t s -> nop (fun b => beqb b t) s.
Proof. exact (fun H => H). Qed.

Lemma nob_skipn t n s : nob t s -> nob t (skipn n s).
Proof. apply nop_skipn. Qed.

Lemma nob_firstn t n s : nob t s -> nob t (firstn n s).
Proof. apply nop_firstn. Qed.

Lemma nob_nth t s i b : nob t s -> nth_error s i = Some b -> beqb b t = false.
Proof. intros H E. apply H. eapply nth_error_In. exact E. Qed.

Lemma nob2_nop t u s : nob t s -> nob u s -> nop (fun b => beqb b t || beqb b u) s.
Proof. intros H1 H2 b Hb. rewrite (H1 _ Hb), (H2 _ Hb). reflexivity. Qed.

(* ---------------------------------------------------------------- scanner corollaries *)
(* footnote definitions need `[` *)
Theorem scan_footnote_definition_inert s : nob x5b s -> scan_footnote_definition s = None.
Proof.
  intro H. unfold scan_footnote_definition.
  rewrite (scan_usize_needs (fun b => beqb b x5b)); [reflexivity | vm_compute; reflexivity | reflexivity | exact H].
Qed.

(* alerts need `[` ... *)
Theorem scan_alert_start_inert_bracket s : nob x5b s -> scan_alert_start s = None.
Proof.
  intro H. unfold scan_alert_start.
  rewrite (scan_alert_needs (fun b => beqb b x5b)); [reflexivity | vm_compute; reflexivity | reflexivity | exact H].
Qed.

(* ... and `>` *)
Theorem scan_alert_start_inert_gt s : nob x3e s -> scan_alert_start s = None.
Proof.
  intro H. unfold scan_alert_start.
  rewrite (scan_alert_needs (fun b => beqb b x3e)); [reflexivity | vm_compute; reflexivity | reflexivity | exact H].
Qed.

(* multiline block quote fences need `>` *)
Theorem scan_open_multiline_block_quote_fence_inert s :
  nob x3e s -> scan_open_multiline_block_quote_fence s = None.
Proof.
  intro H. unfold scan_open_multiline_block_quote_fence.
  rewrite (scan_usize_needs (fun b => beqb b x3e)); [reflexivity | vm_compute; reflexivity | reflexivity | exact H].
Qed.

(* description item starts need `:` or `~` *)
Theorem scan_description_item_start_inert s :
  nob x3a s -> nob x7e s -> scan_description_item_start s = None.
Proof.
  intros H1 H2. unfold scan_description_item_start.
  rewrite (scan_usize_needs (fun b => beqb b x3a || beqb b x7e));
    [reflexivity | vm_compute; reflexivity | reflexivity | apply nob2_nop; assumption].
Qed.

(* table delimiter rows need `-` *)
Theorem scan_table_start_inert s : nob x2d s -> scan_table_start s = None.
Proof.
  intro H. unfold scan_table_start.
  rewrite (scan_usize_needs (fun b => beqb b x2d)); [reflexivity | vm_compute; reflexivity | reflexivity | exact H].
Qed.

(* the `:`-only reading of the description list trigger is NOT enough for the scanner: `~ ` is accepted *)
Example scan_description_item_start_tilde :
  scan_description_item_start [x7e; x20; x62] = Some 2.
Proof. vm_compute. reflexivity. Qed.
