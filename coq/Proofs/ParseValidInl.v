(* Proofs/ParseValidInl.v — C04, containment BELOW the leaves: the inline phase (Model/Inlines.parse_inlines and
   postprocess_block) only builds forests in which every edge satisfies the containment relation of Node::validate.

   `ivt nb n` strengthens ParserShapeInl.inl_tree7 (values are inline values, EscapedTag payloads inert) by the
   two facts the validator needs on top of the values:
     * a node whose kind carries its content as a literal (Text, SoftBreak, LineBreak, Code, HtmlInline,
       FootnoteReference, Math; Spec.Valid.leaf_kind) has NO children — the other inline kinds (Emph, Strong, Link,
       Image, WikiLink, Strikethrough, Superscript, Subscript, Underline, SpoileredText, Escaped, EscapedTag) accept every
       inline child in can_contain_type, so nothing more is needed for them;
     * with nb = true: no SoftBreak / LineBreak anywhere — the only two inline kinds a TableCell does not accept.
       They are created by handle_newline (the byte at pos is CR or LF) and by handle_backslash (a backslash followed
       by a line end): never when the input holds neither CR nor LF.
   The walk through the arms of parse_inline is the one of ParserShapeInl.v. *)
From Coq Require Import List NArith ZArith Bool Strings.String Lia.
From V Require Import Base.Bytes Base.Res Gen.StrLeafGen Gen.Consts Gen.Special Gen.Nodes Model.Special
     Model.Scan Model.Strings Model.Entity Model.LinkUrl Model.AutolinkLeaf Model.Spx Model.Ast Model.Inlines
     Proofs.InlinesProofs Proofs.ParserShapeInl Spec.Shape Spec.HtmlSpec Spec.Valid Spec.ParseValidSpec.
Import ListNotations.
Local Open Scope list_scope.

(* ================================================================== 0. definitions *)
Definition brk (v : node_value) : bool := match v with SoftBreak | LineBreak => true | _ => false end.
Definition lkind (v : node_value) : bool := leaf_kind (kind_of v).
Definition isnil (l : list node) : bool := match l with [] => true | _ => false end.

Definition vok (nb : bool) (v : node_value) (ch : list node) : bool :=
  inl_val7 v && negb (brk v && nb) && (negb (lkind v) || isnil ch).

Fixpoint ivt (nb : bool) (n : node) : bool :=
  match n with Node v _ ch => vok nb v ch && forallb (ivt nb) ch end.

Lemma ivt_node nb v sp ch : ivt nb (Node v sp ch) = true <-> vok nb v ch = true /\ forallb (ivt nb) ch = true.
Proof. cbn [ivt]. apply andb_true_iff. Qed.

Lemma vok_inv nb v ch : vok nb v ch = true ->
  inl_val7 v = true /\ (nb = true -> brk v = false) /\ (lkind v = true -> ch = []).
Proof.
  unfold vok. intro H. apply andb_true_iff in H. destruct H as [H H3]. apply andb_true_iff in H. destruct H as [H1 H2].
  split; [exact H1|]. split.
  - intro N. subst nb. destruct (brk v); [discriminate H2|reflexivity].
  - intro L. rewrite L in H3. destruct ch; [reflexivity|discriminate H3].
Qed.

Lemma vok_nonleaf nb v ch ch' : lkind v = false -> vok nb v ch = vok nb v ch'.
Proof. unfold vok. intro L. rewrite L. reflexivity. Qed.

Lemma vok_nil nb v ch : vok nb v ch = true -> vok nb v [] = true.
Proof. unfold vok. intro H. apply andb_true_iff in H. destruct H as [H _]. rewrite H. cbn [isnil]. apply orb_true_r. Qed.

(* the stronger predicate implies the old one, for every nb *)
Lemma ivt_tree7 nb : forall n, ivt nb n = true -> inl_tree7 n = true.
Proof.
  induction n as [v sp ch IH] using node_ind2. intro H. apply ivt_node in H. destruct H as [Hv Hc].
  apply inl_tree7_node. split; [exact (proj1 (vok_inv _ _ _ Hv))|].
  apply forallb_forall. intros x Hx. rewrite Forall_forall in IH. apply IH; [exact Hx|].
  rewrite forallb_forall in Hc. now apply Hc.
Qed.

Lemma ivt_weaken : forall n, ivt true n = true -> ivt false n = true.
Proof.
  induction n as [v sp ch IH] using node_ind2. intro H. apply ivt_node in H. destruct H as [Hv Hc].
  apply ivt_node. split.
  - unfold vok in *. rewrite andb_false_r. cbn [negb]. rewrite andb_true_r.
    apply andb_true_iff in Hv. destruct Hv as [Hv H3]. apply andb_true_iff in Hv. destruct Hv as [H1 _]. now rewrite H1, H3.
  - apply forallb_forall. intros x Hx. rewrite Forall_forall in IH. apply IH; [exact Hx|].
    rewrite forallb_forall in Hc. now apply Hc.
Qed.

(* ------------------------------------------------------------------ what the validator asks, edge by edge *)
(* an inline value is accepted by every inline container and by Paragraph / Heading; by TableCell unless it is a break *)
Lemma inl_val7_allowed_inline pv v :
  inl_val7 v = true -> lkind pv = false -> inl_val7 pv = true -> can_contain (kind_of pv) (kind_of v) = true.
Proof. destruct v; cbn; intro H; try discriminate H; destruct pv; cbn; intros L P; try discriminate L; try discriminate P; reflexivity. Qed.

Lemma inl_val7_allowed_leaf pv v :
  inl_val7 v = true -> match pv with Paragraph | Heading _ _ => True | TableCell => brk v = false | _ => False end ->
  can_contain (kind_of pv) (kind_of v) = true.
Proof. destruct v; cbn; intro H; try discriminate H; destruct pv; cbn; intro P; try contradiction; try discriminate P; reflexivity. Qed.

Theorem ivt_valid nb : forall n, ivt nb n = true -> valid n = true.
Proof.
  induction n as [v sp ch IH] using node_ind2. intro H. apply ivt_node in H. destruct H as [Hv Hc].
  destruct (vok_inv _ _ _ Hv) as (V & _ & L). cbn [valid]. apply andb_true_iff. split.
  - destruct (lkind v) eqn:E; [rewrite (L eq_refl); reflexivity|].
    apply forallb_forall. intros c Hin. rewrite forallb_forall in Hc. specialize (Hc c Hin).
    destruct c as [cv csp cch]. apply ivt_node in Hc. destruct Hc as [Hcv _].
    unfold child_allowed. cbn [nval]. apply inl_val7_allowed_inline; [exact (proj1 (vok_inv _ _ _ Hcv))|exact E|exact V].
  - apply forallb_forall. intros c Hin. rewrite Forall_forall in IH. apply IH; [exact Hin|].
    rewrite forallb_forall in Hc. now apply Hc.
Qed.

Section NB.
Variable nb : bool.

(* ================================================================== 1. parse_inlines *)
Definition pv_FI (l : list item) : Prop := Forall (fun it => (ivt nb) (snd it) = true) l.
Definition pv_INV (s : st) : Prop := pv_FI (sibs s).

(* ------------------------------------------------------------------ generic lemmas *)
Lemma pv_mk s v a b n : mk s v a b = Ok n -> exists sp, n = Node v sp [].
Proof. unfold mk. intro H. inv. eexists. reflexivity. Qed.

Lemma pv_mk_val s v a b n : mk s v a b = Ok n -> nval n = v.
Proof. intro H. apply pv_mk in H. destruct H as [sp ->]. reflexivity. Qed.

Lemma pv_set_sp_tree7 n sp : (ivt nb) (set_sp n sp) = (ivt nb) n.
Proof. destruct n; reflexivity. Qed.

Lemma pv_set_text_tree7 n t t0 : text_of n = Some t0 -> (ivt nb) n = true -> (ivt nb) (set_text n t) = true.
Proof.
  destruct n as [v sp ch]. unfold text_of. cbn [nval]. intros T H. destruct v; try discriminate T.
  apply ivt_node in H. apply ivt_node. exact H.
Qed.

(* the bytes CR and LF do not occur *)
Lemma pv_no_nl_nth inp p c : no_nl inp = true -> nth_error inp p = Some c -> beqb c x0a = false /\ beqb c x0d = false.
Proof.
  unfold no_nl. intros H E. apply nth_error_In in E. rewrite forallb_forall in H. specialize (H c E).
  apply andb_true_iff in H. destruct H as [H1 H2]. split; apply negb_true_iff; assumption.
Qed.

Lemma pv_beqb_sym a c : beqb a c = beqb c a.
Proof. destruct (beqb_spec a c) as [->|N]; [now rewrite beqb_refl|]. symmetry. apply beqb_neq. congruence. Qed.

Lemma pv_no_nl_peek_eq inp p : no_nl inp = true -> peek_eq inp p x0a = false /\ peek_eq inp p x0d = false.
Proof.
  intro H. unfold peek_eq, peek_is, peek. destruct (nth_error inp p) as [c|] eqn:E; [|split; reflexivity].
  destruct (pv_no_nl_nth _ _ _ H E) as [A B]. rewrite (pv_beqb_sym x0a c), (pv_beqb_sym x0d c). split; assumption.
Qed.

Lemma pv_no_nl_skip_line_end inp p : no_nl inp = true -> skip_line_end inp p = (p, eof inp p).
Proof.
  intro H. unfold skip_line_end. destruct (pv_no_nl_peek_eq inp p H) as [A B]. rewrite B, A.
  rewrite Nat.ltb_irrefl. reflexivity.
Qed.

Lemma pv_nb_false (P : Prop) : (nb = true -> P) -> (P -> False) -> nb = false.
Proof. intros H N. apply Bool.not_true_is_false. intro T. exact (N (H T)). Qed.

Lemma pv_split_at_id id l : forall a x b, split_at_id id l = Some (a, x, b) -> l = a ++ x :: b.
Proof.
  induction l as [|y r IH]; intros a x b H; cbn [split_at_id] in H; [discriminate|].
  destruct (Nat.eqb (fst y) id).
  - inversion H; subst. reflexivity.
  - destruct (split_at_id id r) as [[[a' y'] b']|]; [|discriminate].
    inversion H; subst. rewrite (IH a' x b eq_refl). reflexivity.
Qed.

Lemma pv_FI_app a b : pv_FI (a ++ b) <-> pv_FI a /\ pv_FI b.
Proof. unfold pv_FI. apply Forall_app. Qed.

Lemma pv_FI_cons x l : pv_FI (x :: l) <-> (ivt nb) (snd x) = true /\ pv_FI l.
Proof. unfold pv_FI. split; [intro H; inversion H; auto|intros [H1 H2]; constructor; assumption]. Qed.

Lemma pv_FI_nil : pv_FI [].
Proof. constructor. Qed.

Lemma pv_FI_rev l : pv_FI l -> pv_FI (rev l).
Proof. unfold pv_FI. apply Forall_rev. Qed.

Lemma pv_FI_rev_inv l : pv_FI (rev l) -> pv_FI l.
Proof. intro H. apply pv_FI_rev in H. rewrite rev_involutive in H. exact H. Qed.

Lemma pv_FI_map_snd l : pv_FI l -> forallb (ivt nb) (map snd l) = true.
Proof.
  induction 1 as [|x l Hx Hl IH]; cbn [map forallb]; [reflexivity|]. rewrite Hx, IH. reflexivity.
Qed.

Lemma pv_FI_filter f l : pv_FI l -> pv_FI (filter f l).
Proof.
  unfold pv_FI. intro H. apply Forall_forall. intros x Hx. apply filter_In in Hx.
  rewrite Forall_forall in H. apply H, Hx.
Qed.

Lemma pv_FI_split id l a x b :
  split_at_id id l = Some (a, x, b) -> pv_FI l -> pv_FI a /\ (ivt nb) (snd x) = true /\ pv_FI b.
Proof.
  intros H Hl. apply pv_split_at_id in H. subst l. apply pv_FI_app in Hl. destruct Hl as [Ha Hb].
  apply pv_FI_cons in Hb. tauto.
Qed.

Lemma pv_forallb_Forall l : forallb (ivt nb) l = true <-> Forall (fun n => (ivt nb) n = true) l.
Proof.
  rewrite forallb_forall, Forall_forall. tauto.
Qed.

Lemma pv_forallb_app a b : forallb (ivt nb) (a ++ b) = true <-> forallb (ivt nb) a = true /\ forallb (ivt nb) b = true.
Proof. rewrite forallb_app. apply andb_true_iff. Qed.

Lemma pv_emph_value_val7 o c n ch : vok nb (emph_value o c n) ch = true.
Proof. unfold emph_value. repeat match goal with |- context [if ?b then _ else _] => destruct b end; reflexivity. Qed.

(* ------------------------------------------------------------------ the one lemma about scan_to_closing_backtick
   (its body is being changed: nothing else in this file unfolds it) *)
Lemma pv_stcb_sibs memo inp s otl : sibs (snd (scan_to_closing_backtick memo inp s otl)) = sibs s.
Proof.
  unfold scan_to_closing_backtick.
  repeat match goal with
         | |- context [if ?b then _ else _] => destruct b
         | |- context [match ?x with _ => _ end] => destruct x
         end; reflexivity.
Qed.

(* ------------------------------------------------------------------ handlers that return (state, node) *)
Ltac pv_mks :=
  repeat match goal with
         | E : mk _ _ _ _ = Ok _ |- _ => apply pv_mk in E; destruct E as [? ->]
         end.
Ltac pv_fin :=
  pv_mks; split; [reflexivity | cbn [set_ch set_sp set_text]; reflexivity].

Lemma pv_adjust inp lo s n ml ex s' n' :
  adjust_node_newlines inp lo s n ml ex = Ok (s', n') -> sibs s' = sibs s /\ (ivt nb) n' = (ivt nb) n.
Proof.
  unfold adjust_node_newlines. intro H. inv; (split; [reflexivity|]); try reflexivity. apply pv_set_sp_tree7.
Qed.

Lemma pv_handle_newline inp s s' n :
  handle_newline inp s = Ok (s', n) -> nb = false -> sibs s' = sibs s /\ (ivt nb) n = true.
Proof. unfold handle_newline. intros H N. rewrite N. inv; pv_fin. Qed.

Lemma pv_handle_backticks memo inp lo s s' n :
  handle_backticks memo inp lo s = Ok (s', n) -> sibs s' = sibs s /\ (ivt nb) n = true.
Proof.
  unfold handle_backticks. intro H. cbv zeta in H.
  match type of H with (let (_, _) := ?x in _) = _ =>
    pose proof (pv_stcb_sibs memo inp (set_pos s (pos s + count_eq inp x60 (pos s))) (count_eq inp x60 (pos s))) as Hs;
    destruct x as [e s2] end.
  cbn [snd sibs set_pos] in Hs.
  destruct e as [endpos|].
  - inv. apply pv_adjust in H. destruct H as [H1 H2]. pv_mks. rewrite H1, H2. split; [exact Hs|reflexivity].
  - inv. pv_mks. split; [exact Hs|reflexivity].
Qed.

Lemma pv_handle_backslash o inp s s' n :
  handle_backslash o inp s = Ok (s', n) -> (nb = true -> no_nl inp = true) -> sibs s' = sibs s /\ (ivt nb) n = true.
Proof.
  unfold handle_backslash. intros H HNB. destruct (Bool.bool_dec nb true) as [T|F].
  - rewrite (pv_no_nl_skip_line_end inp _ (HNB T)) in H. rewrite andb_negb_l in H. inv; pv_fin.
  - apply Bool.not_true_is_false in F. rewrite F. unfold skip_line_end in H. inv; pv_fin.
Qed.

Lemma pv_handle_entity inp s s' n :
  handle_entity inp s = Ok (s', n) -> sibs s' = sibs s /\ (ivt nb) n = true.
Proof. unfold handle_entity. intro H. inv; pv_fin. Qed.

Lemma pv_make_autolink s url email a b n : make_autolink s url email a b = Ok n -> (ivt nb) n = true.
Proof. unfold make_autolink. intro H. inv. pv_mks. reflexivity. Qed.

Lemma pv_handle_pointy_brace inp lo s s' n :
  handle_pointy_brace inp lo s = Ok (s', n) -> sibs s' = sibs s /\ (ivt nb) n = true.
Proof.
  unfold handle_pointy_brace. intro H.
  inv1. inv1.
  { inv. match goal with E : make_autolink _ _ _ _ _ = Ok _ |- _ => apply pv_make_autolink in E; rewrite E end. split; reflexivity. }
  inv1.
  { inv. match goal with E : make_autolink _ _ _ _ _ = Ok _ |- _ => apply pv_make_autolink in E; rewrite E end. split; reflexivity. }
  match type of H with (let '(_, _) := ?x in _) = _ => destruct x as [ml [[[fc fd] fp] fm]] end.
  destruct ml.
  - inv. apply pv_adjust in H. destruct H as [H1 H2]. pv_mks. rewrite H1, H2. split; reflexivity.
  - inv. pv_fin.
Qed.

Lemma pv_handle_delim o u inp s c s' n d :
  handle_delim o u inp s c = Ok (s', n, d) -> sibs s' = sibs s /\ (ivt nb) n = true.
Proof.
  unfold handle_delim. intro H.
  destruct (scan_delims o u inp (pos s) c) as [[[p' nd] co] cc].
  inv; pv_fin.
Qed.

Lemma pv_handle_hyphen o inp s s' n :
  handle_hyphen o inp s = Ok (s', n) -> sibs s' = sibs s /\ (ivt nb) n = true.
Proof. unfold handle_hyphen. intro H. inv; pv_fin. Qed.

Lemma pv_handle_period o inp s s' n :
  handle_period o inp s = Ok (s', n) -> sibs s' = sibs s /\ (ivt nb) n = true.
Proof. unfold handle_period. intro H. inv; pv_fin. Qed.

Lemma pv_handle_dollars o inp lo s s' n :
  handle_dollars o inp lo s = Ok (s', n) -> sibs s' = sibs s /\ (ivt nb) n = true.
Proof.
  unfold handle_dollars. intro H.
  inv1. { inv; pv_fin. }
  inv1. inv1.
  all: match type of H with match ?e with _ => _ end = _ => destruct e as [endpos|] end.
  all: inv; try (apply pv_adjust in H; destruct H as [H1 H2]; pv_mks; rewrite H1, H2; split; reflexivity); pv_fin.
Qed.

(* ------------------------------------------------------------------ emphasis *)
Lemma pv_replace_item_text site id t items items' :
  replace_item_text site id t items = Ok items' -> pv_FI items -> pv_FI items'.
Proof.
  unfold replace_item_text. intros H Hi.
  destruct (split_at_id id items) as [[[a it] b]|] eqn:Es; [|discriminate].
  destruct (pv_FI_split _ _ _ _ _ Es Hi) as (Ha & Hx & Hb).
  destruct (text_of (snd it)) eqn:Et; [|discriminate]. inversion H; subst.
  apply pv_FI_app. split; [exact Ha|]. apply pv_FI_cons. split; [|exact Hb].
  cbn [snd]. eapply pv_set_text_tree7; [exact Et|exact Hx].
Qed.

Lemma pv_insert_emph o s n0 items op cl items' k1 k2 n1 :
  insert_emph o s n0 items op cl = Ok (Some (items', k1, k2, n1)) -> pv_FI items -> pv_FI items'.
Proof.
  unfold insert_emph. intros H Hi.
  destruct (split_at_id (d_id op) items) as [[[pre opi] rest1]|] eqn:Es1; [|discriminate].
  destruct (pv_FI_split _ _ _ _ _ Es1 Hi) as (Hpre & Hop & Hrest1).
  destruct (split_at_id (d_id cl) rest1) as [[[mid cli] post]|] eqn:Es2; [|discriminate].
  destruct (pv_FI_split _ _ _ _ _ Es2 Hrest1) as (Hmid & Hcl & Hpost).
  destruct (text_of (snd opi)) as [ot|] eqn:Eot; [|discriminate].
  destruct (text_of (snd cli)) as [ct|] eqn:Ect; [|discriminate].
  destruct ot as [|oc ot']; [discriminate|].
  cbv zeta in H.
  remember (if Nat.leb 2 (List.length ct) && Nat.leb 2 (List.length (oc :: ot')) then 2 else 1) as ud.
  inv1. inv1. inv1. inv1. inv1.
  match goal with E : mk _ _ _ _ = Ok ?t |- _ => apply pv_mk_val in E; rename E into Etmp end.
  inv1.
  match type of H with bind ?r _ = _ => destruct r as [opl| |] eqn:Eopl; cbn [bind] in H; try discriminate H end.
  assert (pv_FI opl) as Hl.
  { inv; [apply pv_FI_nil|]. apply pv_FI_cons. split; [|apply pv_FI_nil].
    cbn [snd]. rewrite pv_set_sp_tree7. eapply pv_set_text_tree7; [exact Eot|exact Hop]. }
  clear Eopl. inversion H; subst items'.
  apply pv_FI_app. split; [exact Hpre|].
  apply pv_FI_app. split; [exact Hl|].
  cbn [app]. apply pv_FI_cons. split.
  { cbn [snd]. apply ivt_node. split.
    - rewrite Etmp. apply pv_emph_value_val7.
    - apply pv_FI_map_snd, Hmid. }
  apply pv_FI_app. split; [|exact Hpost].
  match goal with |- pv_FI (if ?b then _ else _) => destruct b end; [apply pv_FI_nil|].
  apply pv_FI_cons. split; [|apply pv_FI_nil].
  cbn [snd]. rewrite pv_set_sp_tree7. eapply pv_set_text_tree7; [exact Ect|exact Hcl].
Qed.

Lemma pv_pe_loop o : forall fuel s n0 items ob below closer above items' n1,
  pe_loop o fuel s n0 items ob below closer above = Ok (items', n1) -> pv_FI items -> pv_FI items'.
Proof.
  induction fuel as [|f IH]; intros s n0 items ob below closer above items' n1 H Hi; [discriminate|].
  cbn [pe_loop] in H.
  destruct closer as [c|]; [|inversion H; subst; exact Hi].
  cbv zeta in H.
  destruct (d_close c); [|eapply IH; eassumption].
  match type of H with bind ?r _ = _ => destruct r as [ix| |]; cbn [bind] in H; try discriminate H end.
  match type of H with (let (_, _) := ?x in _) = _ => destruct x as [found mod3] end.
  destruct (is_emph_char o (d_char c)).
  - destruct found as [[[between op] rest]|]; [|eapply IH; eassumption].
    match type of H with bind ?r _ = _ => destruct r as [r0| |] eqn:Er; cbn [bind] in H; try discriminate H end.
    destruct r0 as [[[[items1 k1] k2] n2]|].
    + pose proof (pv_insert_emph _ _ _ _ _ _ _ _ _ _ Er Hi) as Hi1.
      destruct k2; eapply IH; eassumption.
    + inversion H; subst; exact Hi.
  - destruct (beqb (d_char c) x27 || beqb (d_char c) x22); [|discriminate].
    match type of H with bind ?r _ = _ => destruct r as [it1| |] eqn:Er1; cbn [bind] in H; try discriminate H end.
    pose proof (pv_replace_item_text _ _ _ _ _ Er1 Hi) as Hi1.
    destruct found as [[[between op] rest]|]; [|eapply IH; eassumption].
    match type of H with bind ?r _ = _ => destruct r as [it2| |] eqn:Er2; cbn [bind] in H; try discriminate H end.
    pose proof (pv_replace_item_text _ _ _ _ _ Er2 Hi1) as Hi2.
    eapply IH; eassumption.
Qed.

Lemma pv_process_emphasis o inp s n0 items ds bottom items' n1 :
  process_emphasis o inp s n0 items ds bottom = Ok (items', n1) -> pv_FI items -> pv_FI items'.
Proof.
  unfold process_emphasis. intros H Hi. destruct ds as [|c above]; [inversion H; subst; exact Hi|].
  eapply pv_pe_loop; eassumption.
Qed.

(* ------------------------------------------------------------------ brackets *)
Lemma pv_close_bracket_match o inp s img url title s' :
  close_bracket_match o inp s img url title = Ok s' -> pv_INV s -> pv_INV s'.
Proof.
  unfold close_bracket_match, pv_INV. intros H Hi.
  match type of H with bind ?r _ = _ => destruct r as [b| |]; cbn [bind] in H; try discriminate H end.
  match type of H with bind ?r _ = _ => destruct r as [tmp| |] eqn:Etmp; cbn [bind] in H; try discriminate H end.
  apply pv_mk_val in Etmp.
  destruct (split_at_id (b_id b) (sibs s)) as [[[after_rev bi] before_rev]|] eqn:Es; [|discriminate].
  destruct (pv_FI_split _ _ _ _ _ Es Hi) as (Ha & Hb & Hbe).
  match type of H with bind ?r _ = _ => destruct r as [ecol| |]; cbn [bind] in H; try discriminate H end.
  cbv zeta in H. unfold fresh_id in H.
  match type of H with bind ?r _ = _ => destruct r as [[kids n1]| |] eqn:Epe; cbn [bind] in H; try discriminate H end.
  apply pv_process_emphasis in Epe; [|apply pv_FI_rev, Ha].
  assert ((ivt nb) (Node (nval tmp) (mkSp (sl (nsp (snd bi))) (sc (nsp (snd bi))) (el (nsp tmp)) ecol) (map snd kids)) = true) as Hl.
  { apply ivt_node. split; [|apply pv_FI_map_snd, Epe]. rewrite Etmp. destruct img; reflexivity. }
  inversion H; subst s'. clear H.
  destruct img; cbn [sibs set_nlo pop_bracket set_brackets set_delims set_sibs];
    (apply pv_FI_cons; split; [exact Hl|exact Hbe]).
Qed.

Lemma pv_ref_lookup refmap maxref s lab s' r : ref_lookup refmap maxref s lab = Ok (s', r) -> sibs s' = sibs s.
Proof. unfold ref_lookup. intro H. inv; reflexivity. Qed.

Definition pv_opt7 (n : option node) : Prop := match n with Some n => (ivt nb) n = true | None => True end.

Lemma pv_close_text s s' n :
  (do n <- mk s (Text [x5d]) (pos s - 1) (pos s - 1); Ok (s, Some n)) = Ok (s', n) -> s' = s /\ pv_opt7 n.
Proof. intro H. inv. pv_mks. split; reflexivity. Qed.

Lemma pv_handle_close_bracket o u inp refmap maxref s0 s' n :
  handle_close_bracket o u inp refmap maxref s0 = Ok (s', n) -> pv_INV s0 -> pv_INV s' /\ pv_opt7 n.
Proof.
  unfold handle_close_bracket, pv_INV. intros H Hi. cbv zeta in H.
  remember (set_pos s0 (S (pos s0))) as s eqn:Hs.
  assert (pv_FI (sibs s)) as His by (subst s; exact Hi). clear Hs Hi.
  destruct (brackets s) as [|b br] eqn:Ebr.
  { apply pv_close_text in H. destruct H as [-> H]. split; assumption. }
  match type of H with (if ?c then _ else _) = _ => destruct c end.
  { apply pv_close_text in H. destruct H as [-> H]. split; assumption. }
  destruct (split_at_id (b_id b) (sibs s)) as [[[after_rev bi] before_rev]|] eqn:Es; [|discriminate].
  destruct (pv_FI_split _ _ _ _ _ Es His) as (Ha & Hb & Hbe).
  match type of H with (if ?c then _ else _) = _ => destruct c end.
  { apply pv_close_text in H. destruct H as [-> H]. split; assumption. }
  match type of H with bind ?r _ = _ => destruct r as [il| |]; cbn [bind] in H; try discriminate H end.
  destruct il as [[[p' cu] ct]|].
  { match type of H with bind ?r _ = _ => destruct r as [s1| |] eqn:Ecb; cbn [bind] in H; try discriminate H end.
    inversion H; subst. apply pv_close_bracket_match in Ecb; [|exact His]. split; [exact Ecb|exact I]. }
  match type of H with (let '(_, _) := ?x in _) = _ => destruct x as [[lab0 found0] p1] end.
  match type of H with bind ?r _ = _ => destruct r as [[lab found_label]| |]; cbn [bind] in H; try discriminate H end.
  match type of H with bind ?r _ = _ => destruct r as [[s2 reff]| |] eqn:Elk; cbn [bind] in H; try discriminate H end.
  assert (sibs s2 = sibs s) as Hs2.
  { destruct found_label; [apply pv_ref_lookup in Elk; exact Elk|inversion Elk; reflexivity]. }
  destruct reff as [[url title]|].
  { match type of H with bind ?r _ = _ => destruct r as [s3| |] eqn:Ecb; cbn [bind] in H; try discriminate H end.
    inversion H; subst. apply pv_close_bracket_match in Ecb; [|unfold pv_INV; rewrite Hs2; exact His].
    split; [exact Ecb|exact I]. }
  match type of H with (if ?c then _ else _) = _ => destruct c end.
  - match type of H with bind ?r _ = _ => destruct r as [tmp| |] eqn:Etmp; cbn [bind] in H; try discriminate H end.
    apply pv_mk_val in Etmp.
    match type of H with bind ?r _ = _ => destruct r as [ecol| |]; cbn [bind] in H; try discriminate H end.
    unfold fresh_id in H. inversion H; subst s' n. clear H. split; [|exact I].
    cbn [sibs pop_bracket set_brackets set_delims set_sibs].
    apply pv_FI_app. split; [apply pv_FI_filter, Ha|].
    apply pv_FI_cons. split; [|exact Hbe].
    cbn [snd]. apply ivt_node. split; [rewrite Etmp; reflexivity|reflexivity].
  - apply pv_close_text in H. destruct H as [-> H]. split; [|exact H].
    cbn [sibs set_pos pop_bracket set_brackets]. rewrite Hs2. exact His.
Qed.

(* ------------------------------------------------------------------ wikilinks *)
Lemma pv_lbe_loop_n o s sc0 : forall k rest, List.length rest <= k -> forall offset startpos cur acc l,
  lbe_loop o s sc0 rest offset startpos cur acc = Ok l ->
  forallb (ivt nb) acc = true -> forallb (ivt nb) l = true.
Proof.
  induction k as [|k IH]; intros rest Hk offset startpos cur acc l H Ha.
  - destruct rest as [|c r]; [|cbn [List.length] in Hk; lia]. cbn [lbe_loop] in H.
    assert (forallb (ivt nb) (rev acc) = true) as Hr.
    { apply pv_forallb_Forall, Forall_rev, pv_forallb_Forall, Ha. }
    destruct (Nat.eqb startpos offset); [inversion H; subst; exact Hr|].
    inv. pv_mks. cbn [rev]. apply pv_forallb_app. split; [exact Hr|reflexivity].
  - destruct rest as [|c r].
    { apply (IH [] (Nat.le_0_l _) offset startpos cur acc l H Ha). }
    cbn [List.length] in Hk. cbn [lbe_loop] in H.
    destruct r as [|c2 r2]; [eapply (IH []); [cbn; lia|eassumption|assumption]|].
    cbn [List.length] in Hk.
    destruct (beqb c x5c && sl_ispunct c2); [|eapply (IH (c2 :: r2)); [cbn [List.length]; lia|eassumption|assumption]].
    match type of H with bind ?r _ = _ => destruct r as [e| |]; cbn [bind] in H; try discriminate H end.
    match type of H with bind ?r _ = _ => destruct r as [pre| |] eqn:Epre; cbn [bind] in H; try discriminate H end.
    match type of H with bind ?r _ = _ => destruct r as [t| |] eqn:Et; cbn [bind] in H; try discriminate H end.
    match type of H with bind ?r _ = _ => destruct r as [x| |] eqn:Ex; cbn [bind] in H; try discriminate H end.
    assert ((ivt nb) x = true) as Hx by (inv; pv_mks; reflexivity).
    assert ((ivt nb) pre = true) as Hpre by (pv_mks; reflexivity).
    clear Ex Et Epre.
    eapply (IH r2); [lia|exact H|].
    cbn [forallb]. rewrite Hx, Hpre, Ha. reflexivity.
Qed.

Lemma pv_lbe_loop o s sc0 rest offset startpos cur acc l :
  lbe_loop o s sc0 rest offset startpos cur acc = Ok l ->
  forallb (ivt nb) acc = true -> forallb (ivt nb) l = true.
Proof. apply (pv_lbe_loop_n o s sc0 (List.length rest) rest (Nat.le_refl _)). Qed.

Lemma pv_handle_wikilink o inp s s' n :
  handle_wikilink o inp s = Ok (Some (s', n)) -> sibs s' = sibs s /\ (ivt nb) n = true.
Proof.
  unfold handle_wikilink. intro H.
  destruct (wikilink_url_link_label o inp (pos s)) as [[[url ll] p']|]; [|discriminate].
  cbv zeta in H.
  match type of H with bind ?r _ = _ => destruct r as [cu| |]; cbn [bind] in H; try discriminate H end.
  match type of H with bind ?r _ = _ => destruct r as [lab| |]; cbn [bind] in H; try discriminate H end.
  match type of H with bind ?r _ = _ => destruct r as [a| |]; cbn [bind] in H; try discriminate H end.
  match type of H with bind ?r _ = _ => destruct r as [n0| |] eqn:En; cbn [bind] in H; try discriminate H end.
  match type of H with bind ?r _ = _ => destruct r as [kids| |] eqn:Ek; cbn [bind] in H; try discriminate H end.
  apply pv_lbe_loop in Ek; [|reflexivity].
  inversion H; subst. pv_mks. split; [reflexivity|].
  cbn [set_ch]. apply ivt_node. split; [reflexivity|exact Ek].
Qed.

(* ------------------------------------------------------------------ autolink extension *)
Lemma pv_rewind_loop : forall fuel reverse l l', rewind_loop fuel reverse l = Ok l' -> pv_FI l -> pv_FI l'.
Proof.
  induction fuel as [|f IH]; intros reverse l l' H Hl.
  - destruct reverse; [inversion H; subst; exact Hl|discriminate].
  - cbn [rewind_loop] in H. destruct reverse as [|rv]; [inversion H; subst; exact Hl|].
    destruct l as [|[id n] r]; [discriminate|].
    apply pv_FI_cons in Hl. destruct Hl as [Hn Hr]. cbn [snd] in Hn.
    destruct (text_of n) as [prev|] eqn:Eprev; [|discriminate].
    match type of H with (if ?c then _ else _) = _ => destruct c end.
    + cbv zeta in H. inv. apply pv_FI_cons. split; [|exact Hr].
      cbn [snd]. rewrite pv_set_sp_tree7. eapply pv_set_text_tree7; [exact Eprev|exact Hn].
    + eapply IH; eassumption.
Qed.

Lemma pv_handle_autolink_with o s m s' n :
  handle_autolink_with o s m = Ok (Some (s', n)) -> pv_INV s -> pv_INV s' /\ (ivt nb) n = true.
Proof.
  unfold handle_autolink_with, pv_INV. intros H Hi.
  match type of H with (if ?c then _ else _) = _ => destruct c; [discriminate|] end.
  cbv zeta in H.
  match type of H with bind ?r _ = _ => destruct r as [r0| |]; cbn [bind] in H; try discriminate H end.
  destruct r0 as [[[[url text] need_reverse] skip]|]; [|discriminate].
  match type of H with bind ?r _ = _ => destruct r as [adv| |]; cbn [bind] in H; try discriminate H end.
  match type of H with bind ?r _ = _ => destruct r as [l'| |] eqn:Er; cbn [bind] in H; try discriminate H end.
  apply pv_rewind_loop in Er; [|exact Hi].
  inversion H; subst. split; [exact Er|reflexivity].
Qed.

(* ------------------------------------------------------------------ parse_inline *)
Lemma pv_append_inv r s s2 :
  (forall s1 n, r = Ok (s1, n) -> sibs s1 = sibs s /\ (ivt nb) n = true) ->
  append r = Ok (Some s2) -> pv_FI (sibs s) -> pv_INV s2.
Proof.
  unfold append, pv_INV. intros Hr H Hs. destruct r as [[s1 n]| |]; cbn [bind] in H; try discriminate H.
  destruct (Hr s1 n eq_refl) as [H1 H2]. inversion H; subst.
  cbn [push_item fst sibs set_sibs]. apply pv_FI_cons. split; [exact H2|rewrite H1; exact Hs].
Qed.

Lemma pv_text1 s c s2 : text1 s c = Ok (Some s2) -> pv_FI (sibs s) -> pv_INV s2.
Proof.
  unfold text1. intros H Hs. cbv zeta in H. eapply pv_append_inv; [|exact H|exact Hs].
  intros s1 n E. inv. pv_fin.
Qed.

Lemma pv_push_item s n : pv_FI (sibs s) -> (ivt nb) n = true -> pv_FI (sibs (fst (push_item s n))).
Proof. intros Hs Hn. cbn [push_item fst sibs set_sibs]. apply pv_FI_cons. split; assumption. Qed.

Lemma pv_push_bracket s img id : sibs (push_bracket s img id) = sibs s.
Proof. unfold push_bracket. destruct img; reflexivity. Qed.

Ltac pv_app L := (eapply pv_append_inv; [|eassumption|eassumption]); intros ? ? ?; eapply L; eassumption.

Lemma pv_parse_inline memo o u inp lo sl refmap maxref s0 s' :
  (nb = true -> no_nl inp = true) ->
  parse_inline memo o u inp lo sl refmap maxref s0 = Ok (Some s') -> pv_INV s0 -> pv_INV s'.
Proof.
  intros HNB H Hi. unfold parse_inline in H.
  destruct (peek inp (pos s0)) as [c|] eqn:Epk; [|discriminate].
  unfold peek in Epk. set (p0 := pos s0) in Epk. clearbody p0.
  match type of H with bind ?r _ = _ => destruct r as [adj| |]; cbn [bind] in H; try discriminate H end.
  destruct (nth_error lo (N.to_nat adj)) as [off|]; [|discriminate].
  cbv zeta in H.
  remember (set_lineoff s0 off) as s eqn:Hs.
  assert (pv_FI (sibs s)) as His by (subst s; exact Hi). clear Hs Hi s0 adj.
  match type of H with (if ?c then _ else _) = _ => destruct c; [discriminate|] end.
  match type of H with (if ?c then _ else _) = _ => destruct c eqn:Enl end.
  { assert (N : nb = false).
    { apply (pv_nb_false _ HNB). intro Hn. destruct (pv_no_nl_nth _ _ _ Hn Epk) as [A B]. rewrite A, B in Enl. discriminate Enl. }
    (eapply pv_append_inv; [|eassumption|eassumption]). intros ? ? ?. eapply pv_handle_newline; eassumption. }
  match type of H with (if ?c then _ else _) = _ => destruct c end. { pv_app pv_handle_backticks. }
  match type of H with (if ?c then _ else _) = _ => destruct c end.
  { (eapply pv_append_inv; [|eassumption|eassumption]). intros ? ? ?. eapply pv_handle_backslash; eassumption. }
  match type of H with (if ?c then _ else _) = _ => destruct c end. { pv_app pv_handle_entity. }
  match type of H with (if ?c then _ else _) = _ => destruct c end. { pv_app pv_handle_pointy_brace. }
  match type of H with (if ?c then _ else _) = _ => destruct c end.
  { match type of H with bind ?r _ = _ => destruct r as [r0| |] eqn:Er; cbn [bind] in H; try discriminate H end.
    destruct r0 as [[s1 n]|]; [|eapply pv_text1; eassumption].
    destruct (io_autolink o); [|discriminate].
    apply pv_handle_autolink_with in Er; [|exact His]. destruct Er as [H1 H2].
    inversion H; subst. apply pv_push_item; assumption. }
  match type of H with (if ?c then _ else _) = _ => destruct c end.
  { match type of H with bind ?r _ = _ => destruct r as [r0| |] eqn:Er; cbn [bind] in H; try discriminate H end.
    destruct r0 as [[s1 n]|]; [|eapply pv_text1; eassumption].
    apply pv_handle_autolink_with in Er; [|exact His]. destruct Er as [H1 H2].
    inversion H; subst. apply pv_push_item; assumption. }
  match type of H with (if ?c then _ else _) = _ => destruct c end.
  { match type of H with bind ?r _ = _ => destruct r as [[[s1 n] d]| |] eqn:Er; cbn [bind] in H; try discriminate H end.
    apply pv_handle_delim in Er. destruct Er as [H1 H2].
    unfold push_item in H. inversion H; subst. unfold pv_INV.
    destruct d; cbn [sibs set_delims set_sibs]; (apply pv_FI_cons; split; [exact H2|rewrite H1; exact His]). }
  match type of H with (if ?c then _ else _) = _ => destruct c end. { pv_app pv_handle_hyphen. }
  match type of H with (if ?c then _ else _) = _ => destruct c end. { pv_app pv_handle_period. }
  match type of H with (if ?c then _ else _) = _ => destruct c end.
  { match type of H with bind ?r _ = _ => destruct r as [w| |] eqn:Ew; cbn [bind] in H; try discriminate H end.
    destruct w as [[s2 n]|].
    - match type of Ew with (if ?c then _ else _) = _ => destruct c; [|discriminate] end.
      apply pv_handle_wikilink in Ew. destruct Ew as [H1 H2]. cbn [sibs set_pos] in H1.
      inversion H; subst. apply pv_push_item; [rewrite H1; exact His|exact H2].
    - match type of H with bind ?r _ = _ => destruct r as [n| |] eqn:En; cbn [bind] in H; try discriminate H end.
      unfold push_item in H. inversion H; subst. unfold pv_INV.
      cbn [sibs set_within]. try rewrite pv_push_bracket. cbn [sibs set_within set_nlo set_brackets set_sibs set_pos].
      apply pv_FI_cons. split; [|exact His]. pv_mks. reflexivity. }
  match type of H with (if ?c then _ else _) = _ => destruct c end.
  { match type of H with bind ?r _ = _ => destruct r as [[s1 n]| |] eqn:Er; cbn [bind] in H; try discriminate H end.
    apply pv_handle_close_bracket in Er; [|exact His]. destruct Er as [H1 H2].
    inversion H; subst. destruct n as [n|]; [|exact H1]. apply pv_push_item; assumption. }
  match type of H with (if ?c then _ else _) = _ => destruct c end.
  { match type of H with (if ?c then _ else _) = _ => destruct c end.
    - match type of H with bind ?r _ = _ => destruct r as [n| |] eqn:En; cbn [bind] in H; try discriminate H end.
      unfold push_item in H. inversion H; subst. unfold pv_INV.
      cbn [sibs set_within]. try rewrite pv_push_bracket. cbn [sibs set_within set_nlo set_brackets set_sibs set_pos].
      apply pv_FI_cons. split; [|exact His]. pv_mks. reflexivity.
    - eapply pv_append_inv; [|exact H|exact His]. intros s1 n E. inv. pv_fin. }
  match type of H with (if ?c then _ else _) = _ => destruct c end. { pv_app pv_handle_dollars. }
  match type of H with bind ?r _ = _ => destruct r as [contents| |]; cbn [bind] in H; try discriminate H end.
  match type of H with bind ?r _ = _ => destruct r as [[contents1 endpos1]| |]; cbn [bind] in H; try discriminate H end.
  match type of H with bind ?r _ = _ => destruct r as [[contents2 startpos2]| |]; cbn [bind] in H; try discriminate H end.
  match type of H with bind ?r _ = _ => destruct r as [e| |]; cbn [bind] in H; try discriminate H end.
  eapply pv_append_inv; [|exact H|exact His]. intros s1 n E. inv. pv_fin.
Qed.

Lemma pv_inline_loop memo o u inp lo sl refmap maxref : forall fuel s s',
  (nb = true -> no_nl inp = true) ->
  inline_loop memo o u inp lo sl refmap maxref fuel s = Ok s' -> pv_INV s -> pv_INV s'.
Proof.
  induction fuel as [|f IH]; intros s s' HNB H Hi; [discriminate|]. cbn [inline_loop] in H.
  destruct (parse_inline memo o u inp lo sl refmap maxref s) as [[s1|]| |] eqn:E; cbn [bind] in H; try discriminate H.
  - apply (IH s1 s' HNB H). eapply pv_parse_inline; eassumption.
  - inversion H; subst; exact Hi.
Qed.

Theorem pv_parse_inlines_tree7 : forall memo o u inp lo sl refmap maxref rs0 ch rs,
  (nb = true -> no_nl inp = true) ->
  parse_inlines memo o u inp lo sl refmap maxref rs0 = Ok (ch, rs) -> forallb (ivt nb) ch = true.
Proof.
  intros memo o u inp lo sl refmap maxref rs0 ch rs HNB H. unfold parse_inlines in H.
  match type of H with bind ?r _ = _ => destruct r as [s| |] eqn:El; cbn [bind] in H; try discriminate H end.
  match type of H with bind ?r _ = _ => destruct r as [[items n1]| |] eqn:Ep; cbn [bind] in H; try discriminate H end.
  apply pv_inline_loop in El; [|exact HNB|apply pv_FI_nil].
  apply pv_process_emphasis in Ep; [|apply pv_FI_rev, El].
  inversion H; subst. cbn [fst]. apply pv_FI_map_snd, Ep.
Qed.

(* ================================================================== 2. postprocess_block *)
Lemma pv_merge_texts : forall l acc endc pcs t e p rest,
  merge_texts l acc endc pcs = (t, e, p, rest) -> forallb (ivt nb) l = true -> forallb (ivt nb) rest = true.
Proof.
  induction l as [|[v sp ch] r IH]; intros acc endc pcs t e p rest H Hl.
  - cbn [merge_texts] in H. inversion H; subst. reflexivity.
  - pose proof Hl as Hl0. cbn [forallb] in Hl. apply andb_true_iff in Hl. destruct Hl as [_ Hr].
    cbn [merge_texts] in H.
    destruct v; try (inversion H; subst; exact Hl0).
    eapply IH; eassumption.
Qed.

Lemma pv_pea o : forall fuel contents sp spx c' sp' spx' ins,
  pea o fuel contents sp spx = Ok (c', sp', spx', ins) -> forallb (ivt nb) ins = true.
Proof.
  induction fuel as [|f IH]; intros contents sp spx c' sp' spx' ins H; [discriminate|].
  cbn [pea] in H.
  match type of H with bind ?r _ = _ => destruct r as [r0| |]; cbn [bind] in H; try discriminate H end.
  destruct r0 as [[i0 [[[url text] reverse] skip]]|]; [|inversion H; subst; reflexivity].
  match type of H with bind ?r _ = _ => destruct r as [i| |]; cbn [bind] in H; try discriminate H end.
  cbv zeta in H.
  match type of H with bind ?r _ = _ => destruct r as [[endc spx1]| |]; cbn [bind] in H; try discriminate H end.
  match type of H with bind ?r _ = _ => destruct r as [[nsp_end spx2]| |]; cbn [bind] in H; try discriminate H end.
  match type of H with match ?c with _ => _ end = _ => destruct c as [rem|] end.
  - match type of H with bind ?r _ = _ => destruct r as [[[[rem' asp'] spx3] more]| |] eqn:Er; cbn [bind] in H; try discriminate H end.
    apply IH in Er. inversion H; subst. cbn [forallb]. rewrite Er. reflexivity.
  - inversion H; subst. reflexivity.
Qed.

Lemma pv_pp_list o : forall fuel ctx top first l l' eff,
  pp_list o fuel ctx top first l = Ok (l', eff) -> forallb (ivt nb) l = true -> forallb (ivt nb) l' = true.
Proof.
  induction fuel as [|f IH]; intros ctx top first l l' eff H Hl; [discriminate|].
  cbn [pp_list] in H.
  destruct l as [|[v sp ch] r]; [inversion H; subst; reflexivity|].
  cbn [forallb] in Hl. apply andb_true_iff in Hl. destruct Hl as [Hn Hr].
  apply ivt_node in Hn. destruct Hn as [Hv Hc].
  assert (forall rr, bind (pp_list o f ctx top false r) (fun rr0 => let (rest', eff') := rr0 in
             if is_bracket_kind v then Ok (Node v sp ch :: rest', eff')
             else bind (pp_list o f None false true ch) (fun cc => Ok (Node v sp (fst cc) :: rest', eff'))) = Ok (l', rr) ->
          forallb (ivt nb) l' = true) as Hgen.
  { intros rr Hg.
    match type of Hg with bind ?r _ = _ => destruct r as [[rest' eff']| |] eqn:Er; cbn [bind] in Hg; try discriminate Hg end.
    apply IH in Er; [|exact Hr].
    destruct (is_bracket_kind v).
    - inversion Hg; subst. cbn [forallb]. rewrite Er, andb_true_r. apply ivt_node. split; assumption.
    - match type of Hg with bind ?r _ = _ => destruct r as [[cc ceff]| |] eqn:Ec; cbn [bind] in Hg; try discriminate Hg end.
      pose proof Ec as Ec0. apply IH in Ec; [|exact Hc]. inversion Hg; subst. cbn [forallb fst]. rewrite Er, andb_true_r.
      apply ivt_node. split; [|exact Ec].
      destruct (lkind v) eqn:L; [|rewrite (vok_nonleaf nb v cc ch L); exact Hv].
      rewrite (proj2 (proj2 (vok_inv _ _ _ Hv)) L) in Ec0. destruct f; [discriminate Ec0|]. cbn [pp_list] in Ec0.
      inversion Ec0; subst. eapply vok_nil; exact Hv. }
  destruct v; try (exact (Hgen _ H)).
  clear Hgen.
  match type of H with (let '(_, _) := ?x in _) = _ => destruct x as [[[text endc] spxv] rest] eqn:Em end.
  apply pv_merge_texts in Em; [|exact Hr].
  match type of H with bind ?r _ = _ => destruct r as [[[[text1 sp1] spx1] eff1]| |]; cbn [bind] in H; try discriminate H end.
  match type of H with bind ?r _ = _ => destruct r as [[[[text2 sp2] spx2] inserted]| |] eqn:Ep; cbn [bind] in H; try discriminate H end.
  assert (forallb (ivt nb) inserted = true) as Hins.
  { destruct (io_autolink o); [eapply pv_pea; exact Ep|inversion Ep; subst; reflexivity]. }
  match type of H with bind ?r _ = _ => destruct r as [[rest' eff']| |] eqn:Er; cbn [bind] in H; try discriminate H end.
  apply IH in Er; [|apply pv_forallb_app; split; assumption].
  destruct text2; inversion H; subst; [exact Er|].
  cbn [forallb]. rewrite Er, andb_true_r. apply ivt_node. split; [exact Hv|exact Hc].
Qed.

Theorem pv_postprocess_tree7 : forall o ctx children ch' eff,
  forallb (ivt nb) children = true -> postprocess_block o ctx children = Ok (ch', eff) ->
  forallb (ivt nb) ch' = true.
Proof. unfold postprocess_block. intros o ctx children ch' eff Hc H. eapply pv_pp_list; eassumption. Qed.


End NB.

(* ================================================================== 3. the two contexts *)
(* under a Paragraph or a Heading: every inline value is accepted; under a TableCell: every inline value except the breaks *)
Lemma ivt_allowed_under nb pv n :
  ivt nb n = true ->
  match pv with Paragraph | Heading _ _ => True | TableCell => nb = true | _ => False end ->
  child_allowed pv n = true.
Proof.
  destruct n as [v sp ch]. intros H P. apply ivt_node in H. destruct H as [Hv _].
  destruct (vok_inv _ _ _ Hv) as (V & B & _). unfold child_allowed. cbn [nval].
  apply inl_val7_allowed_leaf; [exact V|]. destruct pv; try exact P; try exact I. exact (B P).
Qed.

Print Assumptions pv_parse_inlines_tree7.
Print Assumptions pv_postprocess_tree7.
Print Assumptions ivt_valid.
