(* Proofs/InlinesTotal4Leaves.v — C01, fourth wave: the inline phase of a whole document (Model/Parse.v inline_phase:
   run_leaves over the leaves of the block tree, the reference budget threaded from 0) is total as soon as every leaf
   the block phase hands over meets the premises of inlines_total (leaf_ok: after the right-trim run_inlines_gen does
   itself - empty, or NUL-free, valid UTF-8, first line not blank, line endings covered by the leaf's line offsets).
   The budget: parse_inlines leaves ref_size <= max_ref_size (RInv of the final state).
   (For a document without NUL the NUL clause is Proofs/InertParseContent.parse_blocks_leaf_contents with Q = not NUL.)
   That the block phase establishes the other three clauses is NOT proved.  No axioms. *)
From Coq Require Import List NArith ZArith Arith Bool Strings.String Lia.
From V Require Spec.EscapeSpec.
From V Require Import Base.Bytes Base.Res Gen.StrLeafGen Model.Strings Model.Ast Model.RefDef Model.Blocks Model.Inlines Model.Parse
     Proofs.StrLeafProofs Proofs.InlinesTotal2 Proofs.InlinesTotal2Sites Proofs.InlinesTotal2Walk Proofs.InlinesProofs Proofs.InertParseContent
     Proofs.InlinesTotal4Main.
Import ListNotations.
Local Open Scope list_scope.

Lemma drop_while_idem f : forall l : bytes, drop_while f (drop_while f l) = drop_while f l.
Proof.
  induction l as [|a l IH]; cbn [drop_while]; [reflexivity|].
  destruct (f a) eqn:E; [exact IH|]. cbn [drop_while]. rewrite E. reflexivity.
Qed.

Lemma rtrim_slice_idem s : rtrim_slice (rtrim_slice s) = rtrim_slice s.
Proof. unfold rtrim_slice. rewrite rev_involutive, drop_while_idem. reflexivity. Qed.

Lemma parse_inlines_budget memo o u inp lo sl refmap maxref rs0 ch rs :
  rtrim_slice inp = inp -> first_line_not_blank inp = true -> line_endings inp < List.length lo -> (rs0 <= maxref)%N ->
  parse_inlines memo o u inp lo sl refmap maxref rs0 = Ok (ch, rs) -> (rs <= maxref)%N.
Proof.
  intros Hrt Hfl Hlo Hr H. unfold parse_inlines in H.
  destruct (inline_loop memo o u inp lo sl refmap maxref (S (len inp)) (init_st sl rs0)) as [s| |] eqn:E; cbn [bind] in H; try discriminate.
  destruct (process_emphasis _ _ _ _ _ _ _) as [r| |]; cbn [bind] in H; try discriminate. inversion H; subst.
  destruct (loop_TInv memo o u inp lo sl refmap maxref Hrt Hfl (S (len inp)) _ (TInv_init o inp lo sl maxref rs0 Hlo Hr)) as [_ B].
  destruct (B s E) as [(_ & _ & R) _]. exact R.
Qed.

(* an empty content (an ATX heading without text has content [] and NO line offsets: the premise on the line offsets
   is false of it) is parsed at once *)
Lemma parse_inlines_empty memo o u lo sl refmap maxref rs0 :
  parse_inlines memo o u [] lo sl refmap maxref rs0 = Ok ([], rs0).
Proof. reflexivity. Qed.

Definition leaf_ok (i : binfo) : Prop :=
  let c := rtrim_slice (bi_content i) in
  c = [] \/
  (has_nul c = false /\ Spec.EscapeSpec.utf8_valid c = true /\ first_line_not_blank c = true
   /\ line_endings c < List.length (bi_lo i)).

Lemma run_leaves_total io u refmap maxref : forall l rs,
  (rs <= maxref)%N -> (forall p i, In (p, i) l -> leaf_ok i) ->
  exists tbl, run_leaves io u refmap maxref l rs = Ok tbl.
Proof.
  induction l as [|[p i] r IH]; intros rs Hr Hl; cbn [run_leaves]; [eexists; reflexivity|].
  destruct (Hl p i (or_introl eq_refl)) as [A0|(A & B & C & D)].
  { unfold run_inlines_gen. cbv zeta. rewrite A0. cbn [has_nul existsb]. rewrite parse_inlines_empty. cbn [bind fst snd].
    destruct (IH rs Hr) as [tbl Et]; [intros q j Hq; apply (Hl q j); right; exact Hq|].
    rewrite Et. cbn [bind]. eexists. reflexivity. }
  unfold run_inlines_gen. cbv zeta. rewrite A.
  assert (line_endings (rtrim_slice (bi_content i)) < List.length (map N.of_nat (bi_lo i))) as D' by (rewrite map_length; exact D).
  destruct (inlines_total_utf8 true io u (rtrim_slice (bi_content i)) (map N.of_nat (bi_lo i)) (N.of_nat (bi_sl i))
              refmap maxref rs A (rtrim_slice_idem _) B C D' Hr) as (ch & rs' & E).
  rewrite E. cbn [bind fst snd].
  pose proof (parse_inlines_budget _ _ _ _ _ _ _ _ _ _ _ (rtrim_slice_idem _) C D' Hr E) as Hr'.
  destruct (IH rs' Hr') as [tbl Et]; [intros q j Hq; apply (Hl q j); right; exact Hq|].
  rewrite Et. cbn [bind]. eexists. reflexivity.
Qed.

Theorem inline_phase_total o u root refmap maxref :
  (forall p i, In (p, i) (bleaves [] root) -> leaf_ok i) ->
  exists t, inline_phase o u root refmap maxref = Ok t.
Proof.
  intro H. unfold inline_phase.
  destruct (run_leaves_total (iopts_of o) u refmap maxref (bleaves [] root) 0%N (N.le_0_l _) H) as [tbl E].
  rewrite E. cbn [bind]. eexists. reflexivity.
Qed.

(* for a document without NUL the NUL clause comes from the block phase (InertParseContent.parse_blocks_leaf_contents) *)
Lemma leaf_nul_free o x r p i :
  parse_blocks o x = Ok r -> has_nul x = false -> In (p, i) (bleaves [] (br_root r)) ->
  has_nul (rtrim_slice (bi_content i)) = false.
Proof.
  intros H Hn Hin.
  assert (forallb (fun b => negb (beqb b x00)) (bi_content i) = true) as K.
  { eapply (parse_blocks_leaf_contents (fun b => negb (beqb b x00))); [|  |exact H|exact Hin].
    - split; [reflexivity|]. split; reflexivity.
    - unfold has_nul in Hn. apply forallb_forall. intros b Hb.
      destruct (beqb b x00) eqn:E; [|reflexivity]. apply beqb_eq in E. subst b. exfalso.
      assert (existsb (beqb x00) x = true) as K by (apply existsb_exists; exists x00; split; [exact Hb|reflexivity]).
      rewrite K in Hn. discriminate Hn. }
  destruct (has_nul (rtrim_slice (bi_content i))) eqn:E; [|reflexivity]. exfalso.
  unfold has_nul in E. apply existsb_exists in E. destruct E as (b & Hb & Eb).
  apply rtrim_slice_In in Hb. rewrite forallb_forall in K. specialize (K b Hb).
  rewrite beqb_sym, Eb in K. discriminate K.
Qed.

Theorem inline_phase_total_nul_free o u x r :
  parse_blocks (bopts_of o u) x = Ok r -> has_nul x = false ->
  (forall p i, In (p, i) (bleaves [] (br_root r)) ->
     let c := rtrim_slice (bi_content i) in
     c = [] \/ (Spec.EscapeSpec.utf8_valid c = true /\ first_line_not_blank c = true /\ line_endings c < List.length (bi_lo i))) ->
  exists t, inline_phase o u (br_root r) (br_refmap r) (br_max_ref_size r) = Ok t.
Proof.
  intros H Hn Hl. apply inline_phase_total. intros p i Hin.
  destruct (Hl p i Hin) as [E|(B & C & D)]; [left; exact E|right].
  split; [eapply leaf_nul_free; eassumption|]. auto.
Qed.
