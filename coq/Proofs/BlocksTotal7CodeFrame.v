(* Proofs/BlocksTotal7CodeFrame.v — the code block sites: a frame for open_new_blocks.
   FR k c st := k <= ps_next st /\ ps_current st = c: no function called by open_new_blocks lowers the identifier
   counter or moves self.current. *)
From Coq Require Import List NArith Arith Bool Lia Strings.String.
From V Require Import Base.Bytes Base.Res Gen.Nodes Gen.BlocksConst Model.Ast Model.Strings Model.Scan Model.Blocks
  Proofs.BlocksProofs.
Import ListNotations.
Local Open Scope string_scope.
Local Open Scope list_scope.

Definition FR (k c : nat) (st : pstate) : Prop := k <= ps_next st /\ ps_current st = c.

Lemma FR_st_next k c st n : ps_next st <= n -> FR k c st -> FR k c (st_next st n).
Proof. intros H [A B]. split; [cbn; lia | exact B]. Qed.
Lemma FR_st_refmap k c st m : FR k c st -> FR k c (st_refmap st m). Proof. exact (fun H => H). Qed.
Lemma FR_st_cur k c st x : FR k c st -> FR k c (st_cur st x). Proof. exact (fun H => H). Qed.
Lemma FR_st_root k c st r : FR k c st -> FR k c (st_root st r). Proof. exact (fun H => H). Qed.
Lemma modify_fr k c st id f st' : modify st id f = Ok st' -> FR k c st -> FR k c st'.
Proof. unfold modify. intros M P. destruct (upd id f (ps_root st)); inversion M; subst. exact P. Qed.
Lemma modify_info_fr k c st id f st' : modify_info st id f = Ok st' -> FR k c st -> FR k c st'.
Proof. apply modify_fr. Qed.
Lemma append_child_fr k c st p n st' : append_child st p n = Ok st' -> FR k c st -> FR k c st'.
Proof. apply modify_fr. Qed.
Lemma bdetach_fr k c st id st' : bdetach st id = Ok st' -> FR k c st -> FR k c st'.
Proof. unfold bdetach. intros D P. destruct (edit_kids _ _ _); inversion D; subst; exact P. Qed.
Lemma adv_fr k c st line n b st' : adv st line n b = Ok st' -> FR k c st -> FR k c st'.
Proof. unfold adv. intros H P. mon H. exact P. Qed.
Lemma ffn_fr k c st line st' : ffn st line = Ok st' -> FR k c st -> FR k c st'.
Proof. unfold ffn. intros H P. mon H. exact P. Qed.

Create HintDb fr.
#[export] Hint Resolve FR_st_refmap FR_st_cur FR_st_root modify_fr modify_info_fr append_child_fr bdetach_fr adv_fr ffn_fr : fr.
#[export] Hint Extern 1 (FR _ _ (st_next _ _)) => (apply FR_st_next; [cbn; lia|]) : fr.

Ltac frgo H := mon H; monall; repeat match goal with p : (_ * _)%type |- _ => destruct p end; cbn [fst snd] in *; eauto 20 with fr.

Lemma retighten_fr k c st p st' : retighten st p = Ok st' -> FR k c st -> FR k c st'.
Proof. unfold retighten. intros H P. frgo H. Qed.
#[export] Hint Resolve retighten_fr : fr.
Lemma finalize_fr k c o st id p st' : finalize o st id = Ok (p, st') -> FR k c st -> FR k c st'.
Proof. unfold finalize. intros H P. frgo H. Qed.
#[export] Hint Resolve finalize_fr : fr.
Lemma unwrap_parent_fin_fr k c site o st id p st' : unwrap_parent site (finalize o st id) = Ok (p, st') -> FR k c st -> FR k c st'.
Proof.
  unfold unwrap_parent. intros H P.
  destruct (finalize o st id) as [[op s1]| |] eqn:E; cbn [bind fst snd] in H; try discriminate H.
  destruct op; inversion H; subst. eapply finalize_fr; eassumption.
Qed.
#[export] Hint Resolve unwrap_parent_fin_fr : fr.
Lemma add_child_loop_fr k c o kd : forall fuel st parent p' st', add_child_loop fuel o st parent kd = Ok (p', st') -> FR k c st -> FR k c st'.
Proof. induction fuel as [|f IH]; intros st parent p' st' H P; cbn [add_child_loop] in H; frgo H. Qed.
#[export] Hint Resolve add_child_loop_fr : fr.
Lemma add_child_gen_fr k c o st parent v col post kids id st' : add_child_gen o st parent v col post kids = Ok (id, st') -> FR k c st -> FR k c st'.
Proof. unfold add_child_gen. intros H P. frgo H. Qed.
Lemma add_child_fr k c o st parent v col id st' : add_child o st parent v col = Ok (id, st') -> FR k c st -> FR k c st'.
Proof. apply add_child_gen_fr. Qed.
#[export] Hint Resolve add_child_gen_fr add_child_fr : fr.
(* the identifier add_child answers is at least the bound *)
Lemma add_child_gen_id_ge k c o st parent v col post kids id st' : add_child_gen o st parent v col post kids = Ok (id, st') -> FR k c st -> k <= id.
Proof.
  unfold add_child_gen. intros H P.
  match type of H with bind ?r _ = _ => destruct r as [[p' s1]| |] eqn:E; cbn [bind] in H; try discriminate H end.
  pose proof (add_child_loop_fr _ _ _ _ _ _ _ _ _ E P) as [A _]. mon H. exact A.
Qed.

Lemma try_inserting_fr k c st cn po st' : try_inserting_table_header_paragraph st cn po = Ok st' -> FR k c st -> FR k c st'.
Proof. unfold try_inserting_table_header_paragraph. intros H P. frgo H. Qed.
#[export] Hint Resolve try_inserting_fr : fr.
Lemma try_opening_header_fr k c o st cn line r st' : try_opening_header o st cn line = Ok (r, st') -> FR k c st -> FR k c st'.
Proof. unfold try_opening_header. intros H P. frgo H. Qed.
Lemma try_opening_row_fr k c o st cn t line r st' : try_opening_row o st cn t line = Ok (r, st') -> FR k c st -> FR k c st'.
Proof. unfold try_opening_row. intros H P. frgo H. Qed.
#[export] Hint Resolve try_opening_header_fr try_opening_row_fr : fr.
Lemma try_opening_block_fr k c o st cn line r st' : try_opening_block o st cn line = Ok (r, st') -> FR k c st -> FR k c st'.
Proof. unfold try_opening_block. intros H P. frgo H. Qed.
#[export] Hint Resolve try_opening_block_fr : fr.
Lemma reopen_fr k c : forall fuel st id st', reopen_ast_nodes fuel st id = Ok st' -> FR k c st -> FR k c st'.
Proof. induction fuel as [|f IH]; intros st id st' H P; cbn [reopen_ast_nodes] in H; frgo H. Qed.
#[export] Hint Resolve reopen_fr : fr.
Lemma parse_desc_list_details_fr k c o st cn m b c' st' : parse_desc_list_details o st cn m = Ok (b, c', st') -> FR k c st -> FR k c st'.
Proof. unfold parse_desc_list_details. intros H P. frgo H. Qed.
#[export] Hint Resolve parse_desc_list_details_fr : fr.

Lemma skip_one_space_fr k c st line site st' : skip_one_space st line site = Ok st' -> FR k c st -> FR k c st'.
Proof. unfold skip_one_space. intros H P. frgo H. Qed.
#[export] Hint Resolve skip_one_space_fr : fr.

Section handlers.
Variables (o : bopts) (line : bytes) (k cu : nat).
Lemma handle_alert_fr st c ind b c' st' : handle_alert o st c line ind = Ok (b, c', st') -> FR k cu st -> FR k cu st'.
Proof. unfold handle_alert. intros H P. frgo H. Qed.
Lemma handle_mbq_fr st c ind b c' st' : handle_multiline_blockquote o st c line ind = Ok (b, c', st') -> FR k cu st -> FR k cu st'.
Proof. unfold handle_multiline_blockquote, rest_at_fns. intros H P. frgo H. Qed.
Lemma handle_blockquote_fr st c ind b c' st' : handle_blockquote o st c line ind = Ok (b, c', st') -> FR k cu st -> FR k cu st'.
Proof. unfold handle_blockquote. intros H P. frgo H. Qed.
Lemma handle_atx_fr st c ind b c' st' : handle_atx_heading o st c line ind = Ok (b, c', st') -> FR k cu st -> FR k cu st'.
Proof. unfold handle_atx_heading, rest_at_fns. intros H P. frgo H. Qed.
Lemma handle_code_fence_fr st c ind b c' st' : handle_code_fence o st c line ind = Ok (b, c', st') -> FR k cu st -> FR k cu st'.
Proof. unfold handle_code_fence, rest_at_fns. intros H P. frgo H. Qed.
Lemma handle_html_block_fr st c ind b c' st' : handle_html_block o st c line ind = Ok (b, c', st') -> FR k cu st -> FR k cu st'.
Proof. unfold handle_html_block, rest_at_fns. intros H P. frgo H. Qed.
Lemma handle_setext_fr st c ind b c' st' : handle_setext_heading o st c line ind = Ok (b, c', st') -> FR k cu st -> FR k cu st'.
Proof. unfold handle_setext_heading, rest_at_fns. intros H P. frgo H. Qed.
Lemma handle_thematic_break_fr st c ind am b c' st' : handle_thematic_break o st c line ind am = Ok (b, c', st') -> FR k cu st -> FR k cu st'.
Proof. unfold handle_thematic_break. intros H P. frgo H. Qed.
Lemma handle_footnote_fr st c ind d b c' st' : handle_footnote o st c line ind d = Ok (b, c', st') -> FR k cu st -> FR k cu st'.
Proof. unfold handle_footnote, rest_at_fns. intros H P. frgo H. Qed.
Lemma handle_description_list_fr st c ind b c' st' : handle_description_list o st c line ind = Ok (b, c', st') -> FR k cu st -> FR k cu st'.
Proof. unfold handle_description_list, rest_at_fns. intros H P. frgo H. Qed.
Lemma list_spaces_loop_fr sc : forall fuel st st', list_spaces_loop fuel st line sc = Ok st' -> FR k cu st -> FR k cu st'.
Proof. induction fuel as [|f IH]; intros st st' H P; cbn [list_spaces_loop] in H; frgo H. Qed.
Hint Resolve list_spaces_loop_fr : fr.
Lemma handle_list_fr st c ind d b c' st' : handle_list o st c line ind d = Ok (b, c', st') -> FR k cu st -> FR k cu st'.
Proof. unfold handle_list. intros H P. frgo H. Qed.
Lemma handle_code_block_fr st c ind ml b c' st' : handle_code_block o st c line ind ml = Ok (b, c', st') -> FR k cu st -> FR k cu st'.
Proof. unfold handle_code_block. intros H P. frgo H. Qed.
End handlers.
