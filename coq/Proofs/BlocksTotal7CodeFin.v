(* Proofs/BlocksTotal7CodeFin.v — totality of the block phase, seventh round, the two sites of a FENCED code block at finalize

     mod.rs:finalize_borrowed:assert!(pos < content.len())
     mod.rs:finalize_borrowed:content.as_bytes()[pos]

   alk = but code_sites.  This file: the leaf walk under alk (copy of Proofs/BlocksTotal7Add.v); Cn, the per-node
   condition that makes finalize safe (an OPEN fenced code block has a content with first_line_end < |content| and a CR
   found there is not the last byte: lend_ok, stable when the content grows; true of a content that ends with LF);
   ngk_finalize; add_line keeps Cn and establishes it on a code block when the line ends with LF and the cursor is
   inside the line; the front matter text is never empty (fm_nonempty, not needed by the two sites).
   The rest: BlocksTotal7CodeInv (CX e along the Ok path), CodeUniq (the exception disappears: add_line on the only node
   with the identifier), CodeTree (parents are not code blocks: reopen, the closing loop while the exception is active),
   CodeFrame (open_new_blocks keeps self.current and does not lower the identifier counter), CodeFence (the cursor after
   handle_code_fence, locally), CodeOpen (open_new_blocks along the Ok path with the exception), CodeWalk (the walk and
   parse_blocks_no_code_panic).  The indented case (strings.rs:remove_trailing_blank_lines:line.len() - 1) is NOT
   covered: it needs the cursor invariant F1 of Proofs/BlocksTotal4Walk.v at handle_code_block. *)
From Coq Require Import List NArith Arith Bool Lia Strings.String.
From V Require Import Base.Bytes Base.Res Gen.Nodes Gen.BlocksConst Gen.FeedConst Model.Ast Model.Strings Model.Entity Model.LinkUrl Model.ListMarker
  Model.Feed Model.FrontMatter Model.RefDef Model.Scan Model.Blocks Spec.EscapeSpec Spec.Shape Spec.Valid
  Proofs.StrLeafProofs Proofs.StrLeafEntity Proofs.StrLeafParse Proofs.BlocksProofs Proofs.BlocksCursor Proofs.BlocksTight Proofs.BlocksTotal
  Proofs.ParserShapeBlocks Proofs.ParserShapeTree Proofs.ParserShapeTabPrim Proofs.ParserShapeTables
  Proofs.BlocksTotal2Safe Proofs.BlocksTotal3Cur Proofs.BlocksTotal4Safe Proofs.BlocksTotal4Frame.
From V Require Proofs.BlocksTotal4Row Proofs.BlocksTotal4Scan Proofs.BlocksTotal4Fuel Proofs.BlocksTotal2Tree Proofs.BlocksTotal4Spine.
Import ListNotations.
Local Open Scope string_scope.
Local Open Scope list_scope.

Definition code_sites : list string :=
  [ "mod.rs:finalize_borrowed:assert!(pos < content.len())";
    "mod.rs:finalize_borrowed:content.as_bytes()[pos]" ].

Definition alk : string -> bool := but code_sites.
Notation ngk := (ng alk true).


Ltac allowed := vm_compute; reflexivity.

Create HintDb ngk.

Ltac ngstepk :=
  match goal with
  | |- ng _ _ (bind ?r _) => apply ng_bind; [ try solve [auto with ngk] | intros ]
  | |- ng _ _ (Ok _) => exact I
  | |- ng _ _ OutOfFuel => reflexivity
  | |- ng _ _ (Panic _) => first [assumption | allowed]
  | |- ng _ _ no_node => allowed
  | |- ng _ _ (not_handled _ _) => exact I
  | |- ng _ _ (res_map _ _) => apply ng_res_map
  | |- ng _ _ (if ?b then _ else _) => destruct b
  | |- ng _ _ (match ?x with _ => _ end) => destruct x
  | |- ng _ _ (let (_, _) := ?x in _) => destruct x
  end.
Ltac nggok := repeat ngstepk; auto with ngk.

Lemma ngk_idx site l i : alk site = true -> ngk (idx site l i).
Proof. intro H. apply ng_idx. now right. Qed.
Lemma ngk_sub site a b : alk site = true -> ngk (sub site a b).
Proof. intro H. apply ng_sub. now right. Qed.
Lemma ngk_slice_from site l i : alk site = true -> ngk (Blocks.slice_from site l i).
Proof. intro H. apply ng_slice_from. now right. Qed.
Lemma ngk_from_utf8 site b : alk site = true -> ngk (from_utf8 site b).
Proof. intro H. apply ng_from_utf8. now right. Qed.
#[export] Hint Extern 1 (ng _ _ (idx _ _ _)) => (apply ngk_idx; first [assumption | allowed]) : ngk.
#[export] Hint Extern 1 (ng _ _ (sub _ _ _)) => (apply ngk_sub; first [assumption | allowed]) : ngk.
#[export] Hint Extern 1 (ng _ _ (Blocks.slice_from _ _ _)) => (apply ngk_slice_from; first [assumption | allowed]) : ngk.
#[export] Hint Extern 1 (ng _ _ (from_utf8 _ _)) => (apply ngk_from_utf8; first [assumption | allowed]) : ngk.

(* ---- leaf functions: total for all arguments *)
Lemma ngk_trim s : ngk (Strings.trim s). Proof. rewrite trim_ok. exact I. Qed.
Lemma ngk_rtrim s : ngk (Strings.rtrim s). Proof. rewrite rtrim_ok. exact I. Qed.
Lemma ngk_unescape s : ngk (Strings.unescape s). Proof. rewrite unescape_is_spec. exact I. Qed.
Lemma ngk_unescape_html s : ngk (unescape_html s). Proof. apply ng_ex. apply unescape_html_total. Qed.
Lemma ngk_manual_scan_link_url s : ngk (manual_scan_link_url s).
Proof. apply ng_ex. destruct (manual_scan_link_url_total s) as [r [E _]]. exists r. exact E. Qed.
Lemma ngk_row s sp : ngk (row s sp). Proof. apply ng_ex. apply BlocksTotal4Row.row_total. Qed.
Lemma ngk_table_matches s sp : ngk (table_matches s sp). Proof. apply ng_ex. apply BlocksTotal4Row.table_matches_total. Qed.
#[export] Hint Resolve ngk_trim ngk_rtrim ngk_unescape ngk_unescape_html ngk_manual_scan_link_url ngk_row ngk_table_matches : ngk.

(* ---- leaf functions with sites of their own *)
Lemma ngk_remove_trailing_blank_lines s : ngk (remove_trailing_blank_lines s).
Proof. unfold remove_trailing_blank_lines. nggok. Qed.
Lemma ngk_chop_trailing_hashtags s : ngk (chop_trailing_hashtags s).
Proof. unfold chop_trailing_hashtags. nggok. Qed.
Lemma ngk_clean_url s : ngk (clean_url s). Proof. unfold clean_url. nggok. Qed.
(* clean_title panics on a title of length 1 only (Props/StrLeaf.v); its one caller hands it a scan_link_title match *)
Lemma ngk_clean_title s : List.length s <> 1 -> ngk (clean_title s).
Proof. intro H. apply ng_ex. now apply clean_title_total. Qed.
#[export] Hint Resolve ngk_remove_trailing_blank_lines ngk_chop_trailing_hashtags ngk_clean_url : ngk.
Lemma scan_link_title_ge s m : scan_link_title s = Some m -> 2 <= m.
Proof. BlocksTotal4Scan.scan_ge. Qed.
Lemma scan_link_title_le s m : scan_link_title s = Some m -> m <= List.length s.
Proof. intro H. eapply as_opt_usize_cursor_le; [|exact H]. vm_compute. reflexivity. Qed.
(* line_at: bytes[end..] is inside the string as long as the start is; split_off_front_matter starts at 0 and goes on
   from the `next` of the line before *)
Lemma sgk_fm_line_at s k : k <= List.length s -> sg alk true (fun r => snd r <= List.length s) (fm_line_at s k).
Proof.
  intro H. unfold fm_line_at. pose proof (BlocksTotal4Fuel.scan_line_end_bounds (skipn k s) k) as B. rewrite skipn_length in B.
  set (e := scan_line_end (skipn k s) k) in *. unfold byte_slice_from.
  destruct (Nat.leb e (List.length s)) eqn:L; [|apply Nat.leb_gt in L; lia]. apply Nat.leb_le in L. cbn [bind].
  unfold fm_slice. destruct (_ && _ && _); [cbn [bind sg snd] | allowed].
  destruct (starts_with (skipn e s) fm_crlf) eqn:Sw.
  - apply starts_with_app in Sw. destruct Sw as [r Er]. apply (f_equal (@List.length byte)) in Er.
    rewrite skipn_length, app_length in Er. change (List.length fm_crlf) with 2 in Er. lia.
  - destruct (Nat.ltb e (List.length s)) eqn:Lt; [apply Nat.ltb_lt in Lt; lia | lia].
Qed.
Lemma sgk_find_closing_line : forall fuel s d e, e <= List.length s ->
  sg alk true (fun c => match c with Some e' => e' <= List.length s | None => True end) (find_closing_line fuel s d e).
Proof.
  induction fuel as [|f IH]; intros s d e H; cbn [find_closing_line]; [reflexivity|].
  destruct (Nat.eqb e (List.length s)); [exact I|].
  eapply sg_bind; [now apply sgk_fm_line_at|]. intros ln _ Hn.
  destruct (bytes_eqb (fst ln) d); [exact Hn | now apply IH].
Qed.
Lemma ngk_split_off_front_matter s d : ngk (split_off_front_matter s d).
Proof.
  unfold split_off_front_matter, slice_to, FrontMatter.slice_from.
  eapply sg_bind; [apply sgk_fm_line_at; lia|]. intros l0 _ H0.
  destruct (_ || _); [exact I|].
  eapply sg_bind; [now apply sgk_find_closing_line|]. intros [e|] _ He; [|exact I].
  eapply sg_bind; [now apply sgk_fm_line_at|]. intros l1 _ _. cbv zeta. match goal with |- sg ?a ?f _ ?r => change (ng a f r) end. nggok.
Qed.
#[export] Hint Resolve ngk_split_off_front_matter : ngk.
Lemma ngk_peek s p : ngk (peek s p). Proof. unfold peek. nggok. Qed.
#[export] Hint Resolve ngk_peek : ngk.
Lemma ngk_skip_spaces : forall s, ngk (skip_spaces s).
Proof. induction s as [|c r IH]; cbn [skip_spaces]; nggok. Qed.
#[export] Hint Resolve ngk_skip_spaces : ngk.
Lemma ngk_skip_line_end s p : ngk (skip_line_end s p). Proof. unfold skip_line_end. nggok. Qed.
#[export] Hint Resolve ngk_skip_line_end : ngk.
Lemma ngk_spnl s p : ngk (spnl s p). Proof. unfold spnl. nggok. Qed.
#[export] Hint Resolve ngk_spnl : ngk.
Lemma ngk_label_loop : forall fuel s pos len c, ngk (label_loop fuel s pos len c).
Proof. induction fuel as [|f IH]; intros s pos len c; cbn [label_loop]; nggok. Qed.
#[export] Hint Resolve ngk_label_loop : ngk.
Lemma ngk_link_label s : ngk (link_label s). Proof. unfold link_label. nggok. Qed.
#[export] Hint Resolve ngk_link_label : ngk.
Lemma ngk_parse_reference_inline fold m s : ngk (parse_reference_inline fold m s).
Proof.
  unfold parse_reference_inline.
  apply ng_bind; [auto with ngk|]. intros [[lab pos]|] _; [|exact I]. destruct lab as [|l0 lab]; [exact I|].
  apply ng_bind; [auto with ngk|]. intros [c|] _; [|exact I]. destruct (negb (beqb c x3a)); [exact I|]. cbv zeta.
  apply ng_bind; [auto with ngk|]. intros pos1 _.
  apply ng_bind; [auto with ngk|]. intros [[url matchlen]|] _; [|exact I].
  apply ng_bind; [auto with ngk|]. intros pos2 _.
  match goal with |- ng _ _ (let '(title, pos) := ?tp in _) =>
    assert (HT : List.length (fst tp) <> 1); [|destruct tp as [title pos3]; cbn [fst] in HT] end.
  { destruct (Nat.eqb pos2 (pos1 + matchlen)); [cbn; lia|].
    destruct (scan_link_title (skipn pos2 s)) as [ml|] eqn:Sc; [|cbn; lia].
    pose proof (scan_link_title_ge _ _ Sc). pose proof (scan_link_title_le _ _ Sc). cbn [fst]. rewrite firstn_length. lia. }
  apply ng_bind; [auto with ngk|]. intros n _.
  apply ng_bind; [auto with ngk|]. intros [p1 ok] _.
  eapply sg_bind with (P := fun fin : option (nat * bytes) => match fin with Some (_, t) => List.length t <> 1 | None => True end).
  { destruct ok; [exact HT|]. destruct title; [exact I|].
    apply sgb; [auto with ngk|]. intros n2 _. apply sgb; [auto with ngk|]. intros [p2 ok2] _.
    destruct ok2; cbn [sg List.length]; [lia | exact I]. }
  intros [[posf t]|] _ Hf; [|exact I].
  destruct (normalize_label fold (l0 :: lab) true); [exact I|].
  apply ng_bind; [auto with ngk|]. intros cu _.
  apply ng_bind; [now apply ngk_clean_title|]. intros ct _. nggok.
Qed.
#[export] Hint Resolve ngk_parse_reference_inline : ngk.
Lemma ngk_resolve_loop fold : forall fuel m seek seeked, ngk (resolve_loop fuel fold m seek seeked).
Proof. induction fuel as [|f IH]; intros m seek seeked; cbn [resolve_loop]; nggok. Qed.
#[export] Hint Resolve ngk_resolve_loop : ngk.
Lemma ngk_resolve_refdefs fold m c : ngk (resolve_refdefs fold m c).
Proof. unfold resolve_refdefs. nggok. Qed.
#[export] Hint Resolve ngk_resolve_refdefs : ngk.
Lemma ngk_copy_line_offsets : forall n lo k, ngk (copy_line_offsets n lo k).
Proof. induction n as [|m IH]; intros lo k; cbn [copy_line_offsets]; nggok. Qed.
Lemma ngk_header_cells : forall cells id ln sl sc po, ngk (header_cells cells id ln sl sc po).
Proof. induction cells as [|c r IH]; intros; cbn [header_cells]; nggok. Qed.
Lemma ngk_row_cells : forall n cells id ln sc lc, ngk (row_cells n cells id ln sc lc).
Proof. induction n as [|m IH]; intros cells id ln sc lc; destruct cells; cbn [row_cells]; nggok. Qed.
#[export] Hint Resolve ngk_copy_line_offsets ngk_header_cells ngk_row_cells : ngk.
Lemma ngk_parse_html_block_prefix st t : ngk (parse_html_block_prefix st t).
Proof. unfold parse_html_block_prefix. nggok. Qed.
#[export] Hint Resolve ngk_parse_html_block_prefix : ngk.
Lemma ngk_after_spaces : forall s, ngk (after_spaces s).
Proof. induction s as [|b r IH]; cbn [after_spaces]; nggok. Qed.
Lemma ngk_digits_loop : forall left s start digits, ngk (digits_loop left s start digits).
Proof.
  induction left as [|l IH]; intros s start digits; destruct s as [|d r]; cbn [digits_loop]; try allowed.
  - destruct (N.ltb _ _); [allowed | exact I].
  - destruct (N.ltb _ _); [allowed|]. destruct l; [exact I|]. destruct r as [|e r']; [allowed|].
    destruct (StrLeafGen.sl_isdigit e); [apply IH | exact I].
Qed.
#[export] Hint Resolve ngk_after_spaces ngk_digits_loop : ngk.
Lemma ngk_parse_list_marker line pos ip : ngk (parse_list_marker line pos ip).
Proof. unfold parse_list_marker. nggok. Qed.
#[export] Hint Resolve ngk_parse_list_marker : ngk.
Lemma ngk_alert_title_loop line : forall fuel pos fl, ngk (alert_title_loop fuel line pos fl).
Proof. induction fuel as [|f IH]; intros pos fl; cbn [alert_title_loop]; nggok. Qed.
Lemma ngk_count_hashes : forall s, ngk (count_hashes s).
Proof. induction s as [|b r IH]; cbn [count_hashes]; nggok. Qed.
#[export] Hint Resolve ngk_alert_title_loop ngk_count_hashes : ngk.

(* ---- the cursor *)
Lemma ngk_find_first_nonspace c line : ngk (find_first_nonspace c line).
Proof. unfold find_first_nonspace. destruct (if Nat.leb _ _ then _ else _) as [f fc]. nggok. Qed.
Lemma ngk_advance_loop line columns : forall fuel off col pct count, ngk (advance_loop fuel line off col pct count columns).
Proof. induction fuel as [|f IH]; intros off col pct count; destruct count; cbn [advance_loop]; nggok. Qed.
#[export] Hint Resolve ngk_find_first_nonspace ngk_advance_loop : ngk.
Lemma ngk_advance_offset c line count columns : ngk (advance_offset c line count columns).
Proof. unfold advance_offset. nggok. Qed.
#[export] Hint Resolve ngk_advance_offset : ngk.
Lemma ngk_adv st line n b : ngk (adv st line n b). Proof. unfold adv. nggok. Qed.
Lemma ngk_ffn st line : ngk (ffn st line). Proof. unfold ffn. nggok. Qed.
#[export] Hint Resolve ngk_adv ngk_ffn : ngk.
Lemma ngk_skip_one_space st line site : alk site = true -> ngk (skip_one_space st line site).
Proof. intro H. unfold skip_one_space. nggok. Qed.
Lemma ngk_skip_fence_offset line site : alk site = true -> forall i st, ngk (skip_fence_offset i st line site).
Proof. intro H. induction i as [|j IH]; intro st; cbn [skip_fence_offset]; nggok. Qed.
Lemma ngk_list_spaces_loop line sc : forall fuel st, ngk (list_spaces_loop fuel st line sc).
Proof. induction fuel as [|f IH]; intro st; cbn [list_spaces_loop]; nggok. Qed.
#[export] Hint Resolve ngk_list_spaces_loop : ngk.
#[export] Hint Extern 1 (ng _ _ (skip_one_space _ _ _)) => (apply ngk_skip_one_space; first [assumption | allowed]) : ngk.
#[export] Hint Extern 1 (ng _ _ (skip_fence_offset _ _ _ _)) => (apply ngk_skip_fence_offset; first [assumption | allowed]) : ngk.

(* ---- tree primitives *)
Lemma ngk_get st x : ngk (get st x).
Proof. unfold get. destruct (find_node x (ps_root st)); [exact I | allowed]. Qed.
Lemma ngk_modify st x f : ngk (modify st x f).
Proof. unfold modify. destruct (upd x f (ps_root st)); [exact I | allowed]. Qed.
Lemma ngk_modify_info st x f : ngk (modify_info st x f).
Proof. apply ngk_modify. Qed.
Lemma ngk_bdetach st x : ngk (bdetach st x).
Proof. unfold bdetach. destruct (edit_kids _ _ _); exact I. Qed.
Lemma ngk_retighten st p : ngk (retighten st p).
Proof. apply ng_ex. apply retighten_total. Qed.
#[export] Hint Resolve ngk_get ngk_modify ngk_modify_info ngk_bdetach ngk_retighten : ngk.
Lemma ngk_append_child st p c : ngk (append_child st p c).
Proof. apply ngk_modify. Qed.
Lemma ngk_last_child st x : ngk (last_child st x). Proof. unfold last_child. nggok. Qed.
#[export] Hint Resolve ngk_append_child ngk_last_child : ngk.
Lemma ngk_last_child_is_open st x : ngk (last_child_is_open st x).
Proof. unfold last_child_is_open. nggok. Qed.
#[export] Hint Resolve ngk_last_child_is_open : ngk.

(* ================================================================== the content of a code block *)
Definition ends_lf (s : bytes) : Prop := exists p, s = p ++ [x0a].

(* a string that ends with LF contains a line end, and a CR at the first line end is not its last byte *)
Lemma first_line_end_ends_lf : forall p, let s := p ++ [x0a] in
  first_line_end s < List.length s /\ (nth_error s (first_line_end s) = Some x0d -> S (first_line_end s) < List.length s).
Proof.
  induction p as [|b r IH]; cbv zeta.
  - cbn. split; [lia|]. intro H. discriminate H.
  - cbn [app first_line_end]. destruct (is_line_end_char b).
    + cbn [List.length]. rewrite app_length. cbn [List.length]. split; lia.
    + cbv zeta in IH. destruct IH as [A B]. cbn [List.length nth_error]. split; [lia|]. intro H. specialize (B H). lia.
Qed.

(* what finalize needs of the content of a fenced code block; stable when the content grows at the end *)
Definition lend_ok (s : bytes) : Prop :=
  first_line_end s < List.length s /\ (nth_error s (first_line_end s) = Some x0d -> S (first_line_end s) < List.length s).

Lemma ends_lf_lend_ok s : ends_lf s -> lend_ok s.
Proof. intros [p ->]. exact (first_line_end_ends_lf p). Qed.

Lemma first_line_end_app : forall s t, first_line_end s < List.length s -> first_line_end (s ++ t) = first_line_end s.
Proof.
  induction s as [|b r IH]; intros t H; [cbn in H; lia|]. cbn [app first_line_end List.length] in *.
  destruct (is_line_end_char b); [reflexivity|]. f_equal. apply IH. lia.
Qed.

Lemma lend_ok_app s t : lend_ok s -> lend_ok (s ++ t).
Proof.
  intros [A B]. unfold lend_ok. rewrite (first_line_end_app _ t A), app_length. split; [lia|].
  rewrite nth_error_app1 by exact A. intro H. specialize (B H). lia.
Qed.

Definition code_ok (fenced : bool) (content : bytes) : Prop := if fenced then lend_ok content else True.

Lemma code_ok_app f s t : code_ok f s -> code_ok f (s ++ t).
Proof. destruct f; cbn [code_ok]; [apply lend_ok_app | auto]. Qed.

Definition Cn (i : binfo) : Prop :=
  match bi_val i with
  | CodeBlock cb => bi_open i = true -> code_ok (cb_fenced cb) (bi_content i)
  | _ => True
  end.

(* ================================================================== finalize on a node that satisfies Cn *)
Lemma ngk_finalize o st id : (forall n, get st id = Ok n -> Cn (binf n)) -> ngk (finalize o st id).
Proof.
  intro HC. unfold finalize.
  apply ng_bind; [auto with ngk|]. intros n G. specialize (HC n G). unfold Cn in HC. cbv zeta.
  destruct (negb (bi_open (binf n))) eqn:Op; [allowed|]. apply negb_false_iff in Op.
  apply ng_bind; [nggok|]. intros ends _.
  destruct (bi_val (binf n)) as [] eqn:Ev; try solve [nggok].
  (* CodeBlock *)
  specialize (HC Op). unfold code_ok in HC.
  apply ng_bind; [|intros [info lit] _; nggok].
  match goal with |- context [cb_fenced ?c] => destruct (cb_fenced c) eqn:Fe end; cbn [negb].
  - destruct HC as [A B]. cbv zeta.
    apply Nat.ltb_lt in A. rewrite A. cbn [negb]. apply Nat.ltb_lt in A.
    apply ng_bind; [auto with ngk|]. intros t0 _.
    apply ng_bind; [auto with ngk|]. intros t1 _.
    apply ng_bind; [auto with ngk|]. intros t2 _.
    apply ng_bind; [nggok|]. intros info _.
    apply ng_bind; [apply ng_idx; now left|]. intros b1 I1.
    unfold idx in I1. destruct (nth_error (bi_content (binf n)) (first_line_end (bi_content (binf n)))) as [b|] eqn:N; [|discriminate I1].
    inversion I1; subst b1.
    apply ng_bind; [|intros; exact I].
    apply ng_idx. left. destruct (beqb b x0d) eqn:Eb; [|exact A].
    apply beqb_eq in Eb. subst b. now apply B.
  - apply ng_bind; [apply ngk_remove_trailing_blank_lines | intros; exact I].
Qed.

Lemma ngk_unwrap_parent site o st id : alk site = true -> (forall n, get st id = Ok n -> Cn (binf n)) ->
  ngk (unwrap_parent site (finalize o st id)).
Proof. intros H HC. unfold unwrap_parent. apply ng_bind; [now apply ngk_finalize|]. intros [p s1] _. cbn [fst snd]. destruct p; [exact I | exact H]. Qed.

(* finalize closes the node: Cn holds of the node it leaves behind, whatever it was *)
Lemma Cn_closed i : bi_open i = false -> Cn i.
Proof. intro H. unfold Cn. destruct (bi_val i); try exact I. rewrite H. discriminate. Qed.

(* ================================================================== add_line *)
(* what add_line stores: the content grows at the end; with a line that ends with LF and the cursor inside the line
   the new content ends with LF, in particular it is not empty; a pending partial tab alone makes it non-empty *)
Lemma skipn_ends_lf p k : k < List.length (p ++ [x0a]) -> ends_lf (skipn k (p ++ [x0a])).
Proof.
  intro H. rewrite app_length in H. cbn [List.length] in H. exists (skipn k p).
  rewrite skipn_app. replace (k - List.length p) with 0 by lia. reflexivity.
Qed.

Lemma ends_lf_app a b : ends_lf b -> ends_lf (a ++ b).
Proof. intros [p ->]. exists (a ++ p). now rewrite app_assoc. Qed.
Lemma ends_lf_nonempty s : ends_lf s -> s <> [].
Proof. intros [p ->]. destruct p; discriminate. Qed.

Lemma from_utf8_eq site b a : Blocks.from_utf8 site b = Ok a -> a = b.
Proof. unfold Blocks.from_utf8. destruct (EscapeSpec.utf8_valid b); intro H; now inversion H. Qed.

Lemma slc_val l c i : bi_val (set_lo l (set_content c i)) = bi_val i. Proof. now destruct i. Qed.
Lemma slc_id l c i : bi_id (set_lo l (set_content c i)) = bi_id i. Proof. now destruct i. Qed.
Lemma slc_open l c i : bi_open (set_lo l (set_content c i)) = bi_open i. Proof. now destruct i. Qed.
Lemma slc_content l c i : bi_content (set_lo l (set_content c i)) = c. Proof. now destruct i. Qed.

(* the node add_line has written, read back from its own modify_info *)
Lemma add_line_code st id line st' n cb p :
  add_line st id line = Ok st' -> get st id = Ok n -> bi_val (binf n) = CodeBlock cb -> line = p ++ [x0a] ->
  (if c_pct (ps_cur st) then S (offset st) else offset st) < List.length line ->
  exists i' s1, modify_info st id (fun _ => i') = Ok s1 /\ ps_root st' = ps_root s1 /\ bi_val i' = CodeBlock cb /\
                bi_id i' = bi_id (binf n) /\ bi_open i' = bi_open (binf n) /\ ends_lf (bi_content i').
Proof.
  unfold add_line. intros H G Ev El Ho. rewrite G in H. cbn [bind] in H.
  destruct (negb (bi_open (binf n))); [discriminate H|]. cbv zeta in H. unfold offset in Ho.
  destruct (c_pct (ps_cur st)); cbv iota beta in H; cbn [c_offset] in H;
  (apply Nat.ltb_lt in Ho; rewrite Ho in H; apply Nat.ltb_lt in Ho);
  (match type of H with bind (bind ?r _) _ = _ => destruct r as [s| |] eqn:U; cbn [bind] in H; try discriminate H end);
  apply from_utf8_eq in U; subst s;
  (match type of H with bind ?r _ = _ => destruct r as [s1| |] eqn:M; cbn [bind] in H; try discriminate H end);
  inversion H; subst st'; clear H;
  (eexists; exists s1; split; [exact M|]); (split; [reflexivity|]);
  rewrite slc_val, slc_id, slc_open, slc_content; (split; [exact Ev|]); (split; [reflexivity|]); (split; [reflexivity|]);
  apply ends_lf_app; subst line; now apply skipn_ends_lf.
Qed.

(* add_line keeps Cn: the content only grows at the end *)
Lemma Cn_grow i l t : Cn i -> Cn (set_lo l (set_content (bi_content i ++ t) i)).
Proof.
  unfold Cn. rewrite slc_val, slc_open, slc_content. destruct (bi_val i); auto. intros H O. apply code_ok_app. auto.
Qed.
Lemma Cn_grow' i t : Cn i -> Cn (set_content (bi_content i ++ t) i).
Proof. destruct i. unfold Cn. cbn. destruct bi_val; auto. intros H O. apply code_ok_app. auto. Qed.
Lemma Cn_not_code i : (forall cb, bi_val i <> CodeBlock cb) -> Cn i.
Proof. intro H. unfold Cn. destruct (bi_val i) eqn:E; try exact I. exfalso. eapply H. reflexivity. Qed.

Lemma add_line_grows st id line st' n :
  add_line st id line = Ok st' -> get st id = Ok n ->
  exists i' s1, modify_info st id (fun _ => i') = Ok s1 /\ ps_root st' = ps_root s1 /\ (Cn (binf n) -> Cn i') /\ bi_id i' = bi_id (binf n).
Proof.
  unfold add_line. intros H G. rewrite G in H. cbn [bind] in H.
  destruct (negb (bi_open (binf n))); [discriminate H|]. cbv zeta in H.
  destruct (c_pct (ps_cur st)); cbv iota beta in H;
  (match type of H with bind ?r _ = _ => destruct r as [i2| |] eqn:U; cbn [bind] in H; try discriminate H end);
  (match type of H with bind ?r _ = _ => destruct r as [s1| |] eqn:M; cbn [bind] in H; try discriminate H end);
  inversion H; subst st'; clear H; exists i2, s1; (split; [exact M|]); (split; [reflexivity|]);
  (match type of U with (if ?b then _ else _) = _ => destruct b end);
  [ mstep U | | mstep U | ]; inversion U; subst i2;
  first [ rewrite <- app_assoc; rewrite slc_id; split; [apply Cn_grow | reflexivity]
        | split; [apply Cn_grow' | now destruct (binf n)] ].
Qed.

(* ================================================================== the front matter call *)
(* split_off_front_matter answers a front matter text that starts with the delimiter line: it is never empty *)
Lemma fm_line_at_next s k l nx : fm_line_at s k = Ok (l, nx) -> k <= nx /\ k + List.length l <= nx.
Proof.
  unfold fm_line_at. intro H.
  pose proof (BlocksTotal4Fuel.scan_line_end_bounds (skipn k s) k) as B.
  set (e := scan_line_end (skipn k s) k) in *.
  destruct (byte_slice_from s e) as [tl| |]; cbn [bind] in H; try discriminate H.
  unfold fm_slice in H. destruct (_ && _ && _); cbn [bind] in H; [|discriminate H].
  pose proof (Nat.le_min_l (e - k) (List.length (skipn k s))) as Mn.
  destruct B as [B1 B2].
  destruct (starts_with tl fm_crlf); [|destruct (Nat.ltb e (List.length s))]; injection H as Hl Hn; subst l nx;
  rewrite firstn_length; split; lia.
Qed.

Lemma find_closing_line_ge d s : forall fuel e0 e, find_closing_line fuel s d e0 = Ok (Some e) -> e0 <= e.
Proof.
  induction fuel as [|f IH]; intros e0 e H; cbn [find_closing_line] in H; [discriminate H|].
  destruct (Nat.eqb e0 (List.length s)); [discriminate H|].
  destruct (fm_line_at s e0) as [[l nx]| |] eqn:E; cbn [bind fst snd] in H; try discriminate H.
  apply fm_line_at_next in E. destruct (bytes_eqb l d); [inversion H; subst; lia|]. apply IH in H. lia.
Qed.

Lemma char_boundary_le s k : FrontMatter.is_char_boundary s k = true -> k <= List.length s.
Proof.
  unfold FrontMatter.is_char_boundary. destruct k; [lia|]. destruct (nth_error s (S k)) eqn:N.
  - intros _. assert (S k < List.length s) by (apply nth_error_Some; congruence). lia.
  - intro H. apply Nat.eqb_eq in H. lia.
Qed.

Lemma fm_nonempty s d fm rest : split_off_front_matter s d = Ok (Some (fm, rest)) -> fm <> [].
Proof.
  unfold split_off_front_matter. cbv zeta. generalize (trim_start_match s fm_bom) as t. intros t H.
  destruct (fm_line_at t 0) as [[l0 n0]| |] eqn:E0; cbn [bind fst snd] in H; try discriminate H.
  destruct (_ || _) eqn:C; [discriminate H|]. apply orb_false_iff in C. destruct C as [_ C]. apply Nat.eqb_neq in C.
  apply fm_line_at_next in E0. cbn in E0.
  destruct (find_closing_line _ _ _ _) as [[e|]| |] eqn:F; cbn [bind] in H; try discriminate H.
  apply find_closing_line_ge in F.
  destruct (fm_line_at t e) as [[l1 n1]| |] eqn:E1; cbn [bind fst snd] in H; try discriminate H.
  apply fm_line_at_next in E1.
  set (k := match l1 with [] => n1 | _ :: _ => e end) in *.
  assert (1 <= k) by (unfold k; destruct l1; lia).
  unfold slice_to in H. destruct (FrontMatter.is_char_boundary t k) eqn:Bd; cbn [bind] in H; [|discriminate H].
  apply char_boundary_le in Bd.
  destruct (FrontMatter.slice_from t k); cbn [bind] in H; try discriminate H. inversion H; subst.
  intro Z. apply (f_equal (@List.length byte)) in Z. rewrite firstn_length in Z. cbn in Z. lia.
Qed.
