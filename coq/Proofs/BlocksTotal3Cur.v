(* Proofs/BlocksTotal3Cur.v — totality of the block phase, third round: bricks for the cursor sites (step 4) and the
   fuel bounds (step 3).  Everything here is about single functions, for ALL arguments.

   Scanners.  A rule block of Base/Re2c.v run without NUL padding leaves the cursor inside the string whenever a
   rule fired (run_rules_cursor_le): the winner is a longest match of some rule (length <= |s|), a trailing context
   moves the cursor back.  Hence every Option<usize> scanner of the block phase whose actions are `return Some(cursor)`
   answers Some m only with m <= |s| (scan_*_le; the rule lists are the regenerated Gen/ScannersRe.v, checked by
   computation), and on the slice line[first_nonspace..] this is first_nonspace + m <= |line| (scan_at_fns_le).

   advance_offset(line, count, false) (byte mode) moves the offset by exactly count bytes when they are there, keeps
   first_nonspace, and re-establishes the cursor invariant CI of Proofs/BlocksTotal.v when it reaches first_nonspace
   (adv_bytes_exact, CI_after_adv_to): this is the advance every handler performs after a scanner match.

   Fuel.  advance_loop never runs out of fuel with fuel >= count; row_loop never runs out of fuel with
   fuel > |s| - offset (every iteration that recurses moves the offset forward), so `row` and `table_matches`
   never answer OutOfFuel; alert_title_loop has no OutOfFuel branch at all. *)
From Coq Require Import List NArith Arith Bool Lia Strings.String.
From V Require Import Base.Bytes Base.Res Base.Regex Base.Re2c Gen.ScannersRe Model.Ast Model.Strings Model.Scan
  Model.Blocks Spec.EscapeSpec Proofs.RegexProofs Proofs.ScanProofs Proofs.BlocksCursor Proofs.BlocksTotal.
From V Require Proofs.StrLeafProofs.
Import ListNotations.
Local Open Scope string_scope.
Local Open Scope list_scope.

(* ================================================================== scanners stay inside the string *)
Definition is_cursor_rule (x : rule) : bool := match rule_act x with ActCursor => true | _ => false end.

Lemma run_rules_cursor_le rules d s :
  o_act (run_rules rules d 0 s) <> d \/ d <> ActCursor ->
  o_act (run_rules rules d 0 s) = ActCursor -> o_cursor (run_rules rules d 0 s) <= List.length s.
Proof.
  unfold run_rules. cbn [repeat]. rewrite app_nil_r. intros Hd Ha.
  destruct (pick_rule rules s None) as [[L x]|] eqn:E.
  - apply pick_rule_sound in E. destruct E as [E|[_ E]]; [discriminate E|].
    apply longest_match_spec in E. destruct E as [HL _].
    destruct x as [r a|r1 r2 a|r1 r2 a]; cbn [o_cursor]; try exact HL.
    + destruct (split_go r1 r2 (firstn L s) L) as [k|] eqn:Sg; cbn [o_cursor]; [|exact HL].
      apply split_go_sound in Sg. lia.
    + destruct (split_go r1 r2 (firstn L s) L); cbn [o_cursor]; exact HL.
  - cbn [o_act] in Ha, Hd. destruct Hd as [Hd|Hd]; [now elim Hd | congruence].
Qed.

(* a scanner whose default action is `return None` and whose result is Option<usize> by `return Some(cursor)` *)
Lemma as_opt_usize_cursor_le rules s m :
  forallb is_cursor_rule rules = true ->
  as_opt_usize (run_rules rules ActNone 0 s) = Some m -> m <= List.length s.
Proof.
  intros Hr H. unfold as_opt_usize in H.
  destruct (o_act (run_rules rules ActNone 0 s)) eqn:A; try discriminate H.
  - inversion H; subst. apply run_rules_cursor_le; [right; discriminate | exact A].
  - exfalso. revert A. unfold run_rules. cbn [repeat]. rewrite app_nil_r.
    destruct (pick_rule rules s None) as [[L x]|] eqn:E; [|cbn [o_act]; discriminate].
    apply pick_rule_sound in E. destruct E as [E|[Hin _]]; [discriminate E|].
    rewrite forallb_forall in Hr. specialize (Hr _ Hin). unfold is_cursor_rule in Hr.
    destruct x as [r a|r1 r2 a|r1 r2 a]; cbn [rule_act] in Hr; destruct a; try discriminate Hr;
      repeat match goal with |- context [match ?sg with Some _ => _ | None => _ end] => destruct sg end; cbn [o_act]; discriminate.
Qed.

Ltac scan_le := let H := fresh "H" in intro H; eapply as_opt_usize_cursor_le; [|exact H]; vm_compute; reflexivity.

Lemma scan_atx_heading_start_le s m : scan_atx_heading_start s = Some m -> m <= List.length s.
Proof. scan_le. Qed.
Lemma scan_open_code_fence_le s m : scan_open_code_fence s = Some m -> m <= List.length s.
Proof. scan_le. Qed.
Lemma scan_close_code_fence_le s m : scan_close_code_fence s = Some m -> m <= List.length s.
Proof. scan_le. Qed.
Lemma scan_footnote_definition_le s m : scan_footnote_definition s = Some m -> m <= List.length s.
Proof. scan_le. Qed.
Lemma scan_open_mbq_fence_le s m : scan_open_multiline_block_quote_fence s = Some m -> m <= List.length s.
Proof. scan_le. Qed.
Lemma scan_close_mbq_fence_le s m : scan_close_multiline_block_quote_fence s = Some m -> m <= List.length s.
Proof. scan_le. Qed.
Lemma scan_description_item_start_le s m : scan_description_item_start s = Some m -> m <= List.length s.
Proof. scan_le. Qed.
Lemma scan_table_start_le s m : scan_table_start s = Some m -> m <= List.length s.
Proof. scan_le. Qed.
Lemma scan_table_cell_le s sp m : scan_table_cell s sp = Some m -> m <= List.length s.
Proof. unfold scan_table_cell. destruct sp; scan_le. Qed.
Lemma scan_table_cell_end_le s m : scan_table_cell_end s = Some m -> m <= List.length s.
Proof. scan_le. Qed.
Lemma scan_table_row_end_le s m : scan_table_row_end s = Some m -> m <= List.length s.
Proof. scan_le. Qed.

(* on the slice line[first_nonspace..]: the match ends inside the line *)
Lemma scan_at_fns_le (line : bytes) k m : k <= List.length line -> m <= List.length (skipn k line) -> k + m <= List.length line.
Proof. intros Hk Hm. rewrite skipn_length in Hm. lia. Qed.

Lemma or0_le (o : option nat) n : (forall m, o = Some m -> m <= n) -> or0 o <= n.
Proof. intro H. destruct o as [m|]; cbn [or0]; [now apply H | lia]. Qed.

(* ================================================================== advance_offset in byte mode *)
Lemma advance_bytes_exact line : forall fuel off col pct count,
  count <= fuel -> off + count <= List.length line ->
  exists col' , advance_loop fuel line off col pct count false = Ok (off + count, col', if Nat.eqb count 0 then pct else false).
Proof.
  induction fuel as [|f IH]; intros off col pct count Hf Hl.
  - assert (count = 0) by lia. subst. cbn. exists col. now rewrite Nat.add_0_r.
  - destruct count as [|k]. { cbn. exists col. now rewrite Nat.add_0_r. }
    cbn [advance_loop Nat.eqb].
    destruct (idx_ok "mod.rs:advance_offset:line[self.offset]" line off ltac:(lia)) as [b Eb].
    rewrite Eb. cbn [bind]. replace (S k - 1) with k by lia.
    destruct (beqb b x09).
    + destruct (IH (S off) (col + (tab_stop - col mod tab_stop)) false k ltac:(lia) ltac:(lia)) as [c' E].
      exists c'. rewrite E. replace (S off + k) with (off + S k) by lia. now destruct (Nat.eqb k 0).
    + destruct (IH (S off) (S col) false k ltac:(lia) ltac:(lia)) as [c' E].
      exists c'. rewrite E. replace (S off + k) with (off + S k) by lia. now destruct (Nat.eqb k 0).
Qed.

Lemma adv_bytes_exact c line count :
  c_offset c + count <= List.length line ->
  exists c', advance_offset c line count false = Ok c'
             /\ c_offset c' = c_offset c + count /\ c_fns c' = c_fns c /\ c_fnsc c' = c_fnsc c /\ c_indent c' = c_indent c
             /\ c_blank c' = c_blank c /\ c_tbkp c' = c_tbkp c.
Proof.
  intro H. unfold advance_offset.
  destruct (advance_bytes_exact line count (c_offset c) (c_column c) (c_pct c) count (le_n _) H) as [col' E].
  rewrite E. cbn [bind]. eexists. split; [reflexivity|]. cbn. repeat split.
Qed.

(* the advance of a handler after a scanner match: from offset to first_nonspace + matched *)
Lemma CI_after_adv_to c line m k :
  c_offset c <= c_fns c -> c_fns c + m <= List.length line -> k = c_fns c + m - c_offset c ->
  exists c', advance_offset c line k false = Ok c' /\ c_offset c' = c_fns c + m /\ CI c' line.
Proof.
  intros Ho Hm ->. destruct (adv_bytes_exact c line (c_fns c + m - c_offset c) ltac:(lia)) as (c' & E & A & B & _).
  exists c'. split; [exact E|]. split; [lia|]. split; [lia | left; lia].
Qed.

(* `sub` never panics when the subtrahend is not larger *)
Lemma sub_ok site a b : b <= a -> sub site a b = Ok (a - b).
Proof. intro H. unfold sub. destruct (Nat.ltb a b) eqn:E; [apply Nat.ltb_lt in E; lia | reflexivity]. Qed.

Lemma slice_from_ok site (l : bytes) i : i <= List.length l -> slice_from site l i = Ok (skipn i l).
Proof. intro H. unfold slice_from. destruct (Nat.ltb (List.length l) i) eqn:E; [apply Nat.ltb_lt in E; lia | reflexivity]. Qed.

(* ---- a handler, end to end on the cursor side: the fenced code block opener.  From a freshly scanned cursor
   (find_first_nonspace ran: offset <= first_nonspace <= |line|) every index / slice / subtraction of
   detect_code_fence / handle_code_fence is defined, and the advance behind the fence lands inside the line *)
Lemma code_fence_cursor c line rest m :
  c_offset c <= c_fns c <= List.length line -> rest = skipn (c_fns c) line -> scan_open_code_fence rest = Some m ->
  slice_from "mod.rs:detect_code_fence:line[self.first_nonspace..]" line (c_fns c) = Ok rest /\
  sub "mod.rs:handle_code_fence:first_nonspace - offset" (c_fns c) (c_offset c) = Ok (c_fns c - c_offset c) /\
  sub "mod.rs:handle_code_fence:first_nonspace + *matched - offset" (c_fns c + m) (c_offset c) = Ok (c_fns c + m - c_offset c) /\
  exists c', advance_offset c line (c_fns c + m - c_offset c) false = Ok c' /\ c_offset c' = c_fns c + m /\ CI c' line.
Proof.
  intros [H1 H2] -> Sc. pose proof (scan_open_code_fence_le _ _ Sc) as Lm.
  pose proof (scan_at_fns_le line _ _ H2 Lm) as Le.
  split; [now apply slice_from_ok|]. split; [apply sub_ok; lia|]. split; [apply sub_ok; lia|].
  now apply CI_after_adv_to.
Qed.

Lemma atx_heading_cursor c line rest m :
  c_offset c <= c_fns c <= List.length line -> rest = skipn (c_fns c) line -> scan_atx_heading_start rest = Some m ->
  slice_from "mod.rs:detect_atx_heading:line[self.first_nonspace..]" line (c_fns c) = Ok rest /\
  sub "mod.rs:handle_atx_heading:heading_startpos + *matched - offset" (c_fns c + m) (c_offset c) = Ok (c_fns c + m - c_offset c) /\
  exists c', advance_offset c line (c_fns c + m - c_offset c) false = Ok c' /\ c_offset c' = c_fns c + m /\ CI c' line.
Proof.
  intros [H1 H2] -> Sc. pose proof (scan_atx_heading_start_le _ _ Sc) as Lm.
  pose proof (scan_at_fns_le line _ _ H2 Lm) as Le.
  split; [now apply slice_from_ok|]. split; [apply sub_ok; lia|]. now apply CI_after_adv_to.
Qed.

Lemma mbq_cursor c line rest m :
  c_offset c <= c_fns c <= List.length line -> rest = skipn (c_fns c) line ->
  scan_open_multiline_block_quote_fence rest = Some m ->
  slice_from "mod.rs:detect_multiline_blockquote:line[self.first_nonspace..]" line (c_fns c) = Ok rest /\
  sub "mod.rs:handle_multiline_blockquote:first_nonspace - offset" (c_fns c) (c_offset c) = Ok (c_fns c - c_offset c) /\
  sub "mod.rs:handle_multiline_blockquote:first_nonspace + *matched - offset" (c_fns c + m) (c_offset c) = Ok (c_fns c + m - c_offset c) /\
  exists c', advance_offset c line (c_fns c + m - c_offset c) false = Ok c' /\ c_offset c' = c_fns c + m /\ CI c' line.
Proof.
  intros [H1 H2] -> Sc. pose proof (scan_open_mbq_fence_le _ _ Sc) as Lm.
  pose proof (scan_at_fns_le line _ _ H2 Lm) as Le.
  split; [now apply slice_from_ok|]. split; [apply sub_ok; lia|]. split; [apply sub_ok; lia|].
  now apply CI_after_adv_to.
Qed.

Lemma footnote_cursor c line rest m :
  c_offset c <= c_fns c <= List.length line -> rest = skipn (c_fns c) line -> scan_footnote_definition rest = Some m ->
  slice_from "mod.rs:detect_footnote:line[self.first_nonspace..]" line (c_fns c) = Ok rest /\
  Nat.ltb (List.length line) (c_fns c + m) = false /\
  sub "mod.rs:handle_footnote:self.first_nonspace + *matched - self.offset" (c_fns c + m) (c_offset c) = Ok (c_fns c + m - c_offset c) /\
  exists c', advance_offset c line (c_fns c + m - c_offset c) false = Ok c' /\ c_offset c' = c_fns c + m /\ CI c' line.
Proof.
  intros [H1 H2] -> Sc. pose proof (scan_footnote_definition_le _ _ Sc) as Lm.
  pose proof (scan_at_fns_le line _ _ H2 Lm) as Le.
  split; [now apply slice_from_ok|]. split; [apply Nat.ltb_ge; lia|]. split; [apply sub_ok; lia|].
  now apply CI_after_adv_to.
Qed.

Lemma description_item_cursor c line rest m :
  c_offset c <= c_fns c <= List.length line -> rest = skipn (c_fns c) line -> scan_description_item_start rest = Some m ->
  slice_from "mod.rs:detect_description_list:line[self.first_nonspace..]" line (c_fns c) = Ok rest /\
  sub "mod.rs:handle_description_list:self.first_nonspace + *matched - self.offset" (c_fns c + m) (c_offset c) = Ok (c_fns c + m - c_offset c) /\
  exists c', advance_offset c line (c_fns c + m - c_offset c) false = Ok c' /\ c_offset c' = c_fns c + m /\ CI c' line.
Proof.
  intros [H1 H2] -> Sc. pose proof (scan_description_item_start_le _ _ Sc) as Lm.
  pose proof (scan_at_fns_le line _ _ H2 Lm) as Le.
  split; [now apply slice_from_ok|]. split; [apply sub_ok; lia|]. now apply CI_after_adv_to.
Qed.

(* the closing fences of check_open_blocks: advance_offset(line, matched, false) from first_nonspace... the model
   advances from OFFSET by `matched` bytes; offset <= first_nonspace, so the advance stays inside the line *)
Lemma close_fence_advance c line m :
  c_offset c <= c_fns c <= List.length line -> m <= List.length (skipn (c_fns c) line) ->
  exists c', advance_offset c line m false = Ok c' /\ c_offset c' = c_offset c + m.
Proof.
  intros [H1 H2] Lm. rewrite skipn_length in Lm.
  destruct (adv_bytes_exact c line m ltac:(lia)) as (c' & E & A & _). eauto.
Qed.

(* ================================================================== fuel *)
Lemma bind_fuel {A B} (r : res A) (k : A -> res B) : r <> OutOfFuel -> (forall a, r = Ok a -> k a <> OutOfFuel) -> bind r k <> OutOfFuel.
Proof. destruct r; cbn [bind]; intros H K; [now apply K | discriminate | contradiction]. Qed.

Lemma idx_fuel site l i : idx site l i <> OutOfFuel.
Proof. unfold idx. destruct (nth_error l i); discriminate. Qed.
Lemma sub_fuel site a b : sub site a b <> OutOfFuel.
Proof. unfold sub. destruct (Nat.ltb a b); discriminate. Qed.
Lemma slice_from_fuel site (l : bytes) i : slice_from site l i <> OutOfFuel.
Proof. unfold slice_from. destruct (Nat.ltb _ i); discriminate. Qed.
Lemma from_utf8_fuel site b : from_utf8 site b <> OutOfFuel.
Proof. unfold from_utf8. destruct (utf8_valid b); discriminate. Qed.

Lemma advance_loop_fuel line columns : forall fuel off col pct count,
  count <= fuel -> advance_loop fuel line off col pct count columns <> OutOfFuel.
Proof.
  induction fuel as [|f IH]; intros off col pct count Hf.
  - assert (count = 0) by lia. subst. cbn. discriminate.
  - destruct count as [|k]; [cbn; discriminate|]. cbn [advance_loop].
    apply bind_fuel; [apply idx_fuel|]. intros b _.
    pose proof (ctt_of_pos col) as P. unfold ctt_of in P.
    destruct (beqb b x09); [destruct columns|]; apply IH; lia.
Qed.

Lemma advance_offset_fuel c line count columns : advance_offset c line count columns <> OutOfFuel.
Proof.
  unfold advance_offset. pose proof (advance_loop_fuel line columns count (c_offset c) (c_column c) (c_pct c) count (le_n _)) as H.
  destruct (advance_loop count line _ _ _ count columns) as [[[a b] d]| |]; cbn [bind]; [discriminate | discriminate | contradiction].
Qed.

Lemma cell_start_loop_fuel s : forall fuel so io po, cell_start_loop fuel s so io po <> OutOfFuel.
Proof.
  induction fuel as [|f IH]; intros so io po; cbn [cell_start_loop]; [discriminate|].
  destruct (Nat.ltb po so); [|discriminate]. apply bind_fuel; [apply idx_fuel|]. intros b _.
  destruct (beqb b x7c); [discriminate | apply IH].
Qed.

(* the row scanner: every iteration that goes on moves the offset forward *)
Lemma row_loop_fuel s sp : forall fuel off po cells,
  List.length s - off < fuel -> row_loop fuel s sp off po cells <> OutOfFuel.
Proof.
  induction fuel as [|f IH]; intros off po cells Hf; [lia|].
  cbn [row_loop]. destruct (Nat.ltb off (List.length s)) eqn:Lt; cbn [negb]; [|discriminate].
  apply Nat.ltb_lt in Lt.
  apply bind_fuel; [apply slice_from_fuel|]. intros rest _.
  set (cm := or0 (scan_table_cell (skipn off s) sp)). set (pm := or0 (scan_table_cell_end rest)).
  apply bind_fuel.
  { destruct (Nat.ltb 0 cm || Nat.ltb 0 pm); [|discriminate].
    apply bind_fuel; [destruct (Nat.ltb _ _); discriminate|]. intros c0 _.
    apply bind_fuel; [rewrite Proofs.StrLeafProofs.trim_ok; discriminate|]. intros c1 _.
    apply bind_fuel; [apply cell_start_loop_fuel|]. intros so _.
    destruct (Nat.eqb _ max_columns); [discriminate|].
    apply bind_fuel; [apply sub_fuel|]. intros e _. apply bind_fuel; [apply from_utf8_fuel|]. intros c2 _. discriminate. }
  intros [cells1 abort] _. destruct abort; [discriminate|].
  destruct (Nat.ltb 0 pm) eqn:Pm.
  - apply Nat.ltb_lt in Pm. apply IH. lia.
  - apply bind_fuel; [apply slice_from_fuel|]. intros rest2 _.
    destruct (Nat.ltb 0 (or0 (scan_table_row_end rest2)) && negb (Nat.eqb _ (List.length s))) eqn:C; [|discriminate].
    apply andb_true_iff in C. destruct C as [C _]. apply Nat.ltb_lt in C.
    apply bind_fuel; [apply slice_from_fuel|]. intros rest3 _. apply IH. lia.
Qed.

Theorem row_fuel s sp : row s sp <> OutOfFuel.
Proof.
  unfold row. apply bind_fuel; [apply row_loop_fuel; lia|]. intros [[[off po] cells] abort] _.
  destruct (_ || _); discriminate.
Qed.

Theorem table_matches_fuel s sp : table_matches s sp <> OutOfFuel.
Proof. unfold table_matches. apply bind_fuel; [apply row_fuel | intros; discriminate]. Qed.

Lemma alert_title_loop_fuel line : forall fuel pos fl, alert_title_loop fuel line pos fl <> OutOfFuel.
Proof.
  induction fuel as [|f IH]; intros pos fl; cbn [alert_title_loop]; [discriminate|].
  apply bind_fuel; [apply idx_fuel|]. intros b _. destruct (beqb b x5d); [discriminate | apply IH].
Qed.

Lemma find_first_nonspace_fuel c line : find_first_nonspace c line <> OutOfFuel.
Proof.
  unfold find_first_nonspace. destruct (if Nat.leb _ _ then _ else _) as [f fc].
  apply bind_fuel; [apply sub_fuel | intros; discriminate].
Qed.
