(* Proofs/BlocksNestTab.v — C11 for the block phase, part 2: the invariant XI of Proofs/BlocksNest.v through
   parser/table.rs (try_inserting_table_header_paragraph, try_opening_header, try_opening_row) and
   parse_desc_list_details.  These are the steps that need the pairwise distinct identifiers (TI of
   Proofs/ParserShapeTabPrim.v) and the containment invariant (SV of Proofs/BlocksProofs.v: a Paragraph has no children):

     * try_inserting_table_header_paragraph moves the start of the paragraph `c` forward by the LF count of the preface
       and keeps its line_offsets, so the node breaks the clause Qb until try_opening_header replaces it by the Table:
       in between the tree satisfies the clauses Qx / rlx, which know the identifier `c` and the start `v` the paragraph
       had (the inserted paragraph starts at v, the table at v + LF count; the parent of `c` starts at or before v).
       After the replacement no node carries the identifier `c` (count of identifiers), and Qx / rlx are Q / rl again.
     * parse_desc_list_details writes the start of the absorbed paragraph into nodes it has just created, through their
       identifiers: the node found is the new one (identifiers in the tree are below ps_next). *)
From Coq Require Import List NArith Arith Bool Lia Strings.String.
From V Require Import Base.Bytes Base.Res Gen.StrLeafGen Gen.FeedConst Gen.Nodes Gen.BlocksConst Model.Ast Model.Strings
  Model.Feed Model.FrontMatter Model.RefDef Model.Scan Model.Blocks Spec.Shape Spec.HtmlSpec Spec.Valid
  Proofs.FeedProofs Proofs.BlocksProofs Proofs.BlocksCursor
  Proofs.ParserShapeBlocks Proofs.ParserShapeTree Proofs.ParserShapeTabPrim Proofs.ParserShapeTables Proofs.BlocksNest.
Import ListNotations.
Local Open Scope string_scope.
Local Open Scope list_scope.

(* ================================================================== tree facts *)
Lemma tn_in P rel : forall t k, tn P rel t -> In k (bsub t) -> P (binf k).
Proof.
  induction t as [i ch IH] using bnode_ind2. intros k A Hk. cbn [bsub] in Hk. destruct Hk as [<-|Hk]; [exact (tn_binf _ _ _ A)|].
  apply in_flat_map in Hk. destruct Hk as [x [Hx Hk]]. apply tn_node in A. destruct A as [_ A].
  rewrite Forall_forall in IH, A. exact (IH x Hx k (proj2 (A x Hx)) Hk).
Qed.

(* the node upd rewrites is in the new tree *)
Lemma upd_in id f : forall t t', upd id f t = Some t' -> exists n, find_node id t = Some n /\ In (f n) (bsub t').
Proof.
  induction t as [i ch IH] using bnode_ind2. intros t' U. cbn [upd] in U. cbn [find_node].
  destruct (Nat.eqb (bi_id i) id). { inversion U; subst. eexists. split; [reflexivity | apply bsub_self]. }
  match type of U with match ?g with _ => _ end = _ => destruct g as [ch'|] eqn:G; [|discriminate] end.
  inversion U; subst. clear U.
  enough (exists n, (fix go (l : list bnode) : option bnode :=
                       match l with [] => None | c :: r => match find_node id c with Some x => Some x | None => go r end end) ch = Some n
                    /\ exists y, In y ch' /\ In (f n) (bsub y)) as (n & A & y & Hy & B).
  { exists n. split; [exact A | eapply bsub_kid; eassumption]. }
  revert ch' G. induction ch as [|c r IHr]; intros ch' G; [discriminate|].
  inversion IH as [|? ? IHc IHrest]; subst.
  destruct (upd id f c) as [c'|] eqn:Uc.
  - inversion G; subst. destruct (IHc c' eq_refl) as (n & Fn & Hn). exists n. rewrite Fn. split; [reflexivity|].
    exists c'. split; [left; reflexivity | exact Hn].
  - match type of G with match ?g with _ => _ end = _ => destruct g as [r'|] eqn:Gr; [|discriminate] end.
    inversion G; subst. rewrite (upd_none_find _ _ _ Uc).
    destruct (IHr IHrest r' eq_refl) as (n & Fn & y & Hy & Hn). exists n. split; [exact Fn|].
    exists y. split; [right; exact Hy | exact Hn].
Qed.

Lemma append_child_in st pid c st' : append_child st pid c = Ok st' -> In c (bsub (ps_root st')).
Proof.
  unfold append_child, modify. intro A.
  match type of A with match upd ?i ?f ?t with _ => _ end = _ => destruct (upd i f t) as [r|] eqn:E; [|discriminate] end.
  inversion A; subst. cbn [ps_root st_root]. destruct (upd_in _ _ _ _ E) as (n & _ & Hn). destruct n as [i ch].
  eapply bsub_trans; [exact Hn|]. eapply bsub_kid; [|apply bsub_self]. apply in_or_app. right. left. reflexivity.
Qed.

(* the node add_child returns the identifier of *)
Lemma add_child_fresh o ex st parent v col id st' :
  add_child o st parent v col = Ok (id, st') -> TI o ex st' ->
  forall n, find_node id (ps_root st') = Some n -> bval n = v.
Proof.
  unfold add_child, add_child_gen. intros H V n Fn.
  match type of H with bind ?r _ = _ => destruct r as [[p' s1]| |] eqn:E; cbn [bind] in H; try discriminate H end.
  mon H.
  match goal with A : append_child _ _ ?nd = Ok _ |- _ => pose proof (append_child_in _ _ _ _ A) as Hin;
    pose proof (find_node_unique _ nd (TI_distinct _ _ _ V) Hin) as Fu end.
  unfold bid in Fu. cbn [binf new_info bi_id] in Fu. rewrite Fu in Fn. inversion Fn; subst. reflexivity.
Qed.

(* a Paragraph has no children *)
Lemma bvok_not_inline o v : bvok o v = true -> can_contain KParagraph (kind_of v) = false.
Proof. destruct v; cbn; intro H; try reflexivity; discriminate H. Qed.

Lemma para_no_kids o st c cn : SV st -> NI o st -> get st c = Ok cn -> is_paragraph cn = true -> bkids cn = [].
Proof.
  intros V N G Pa. pose proof (get_valid _ _ _ V G) as Vc. pose proof (get_ball _ _ _ _ N G) as Bc.
  destruct cn as [i ch]. cbn [bkids]. destruct ch as [|k r]; [reflexivity|]. exfalso.
  apply tvalid_node in Vc. apply kids_ok_cons in Vc. destruct Vc as [[Ak _] _].
  apply ball_node in Bc. destruct Bc as [_ Bc]. apply forallb_cons in Bc. destruct Bc as [Bk _].
  destruct k as [ik chk]. apply ball_node in Bk. destruct Bk as [Bk _].
  unfold is_paragraph, bval in Pa. cbn [binf] in Pa. destruct (bi_val i); try discriminate Pa.
  unfold allowed, bkind, bval in Ak. cbn [kind_of binf] in Ak. rewrite (bvok_not_inline _ _ Bk) in Ak. discriminate Ak.
Qed.

Lemma copy_line_offsets_len : forall n lo k l, copy_line_offsets n lo k = Ok l -> List.length l = n /\ (k <= List.length lo -> k + n <= List.length lo).
Proof.
  induction n as [|m IH]; intros lo k l H; cbn [copy_line_offsets] in H.
  - inversion H. cbn. lia.
  - destruct (nth_error lo k) as [x|] eqn:E; [|discriminate H].
    destruct (copy_line_offsets m lo (S k)) as [r| |] eqn:R; cbn [bind] in H; try discriminate H.
    inversion H; subst. destruct (IH _ _ _ R) as [A B]. cbn [List.length]. split; [now rewrite A|].
    intros _. assert (k < List.length lo) by (apply nth_error_Some; congruence). lia.
Qed.

(* ================================================================== the clauses around the moved paragraph *)
Definition Qx (L c v : nat) (i : binfo) : Prop :=
  Qa L i /\ (bi_id i = c -> v <= bi_sl i /\ bi_val i = Paragraph) /\ (bi_id i <> c -> Qb L 0 i).
Definition rlx (dl : bool) (c v : nat) (i k : binfo) : Prop :=
  dl = false -> if Nat.eqb (bi_id k) c then bi_sl i <= v else bi_sl i <= bi_sl k.

Lemma to_x o ex L st c cn :
  TI o ex st -> get st c = Ok cn -> is_paragraph cn = true ->
  tn (Q L 0) (rl (bo_description_lists o)) (ps_root st) ->
  tn (Qx L c (bi_sl (binf cn))) (rlx (bo_description_lists o) c (bi_sl (binf cn))) (ps_root st).
Proof.
  intros V G Pa. apply get_find in G.
  assert (U : forall k, In k (bsub (ps_root st)) -> bid k = c -> k = cn).
  { intros k Hk Hb. pose proof (find_node_unique _ k (TI_distinct _ _ _ V) Hk) as F. rewrite Hb, G in F. now inversion F. }
  apply tn_conv.
  - intros k Hk [A B]. split; [exact A|]. split; [|intros _; exact B].
    intro Hb. rewrite (U k Hk Hb). split; [lia|]. unfold is_paragraph, bval in Pa. destruct (bi_val (binf cn)); try discriminate Pa; reflexivity.
  - intros p k Hp Hk R D. specialize (R D). destruct (Nat.eqb (bi_id (binf k)) c) eqn:E; [|exact R].
    apply Nat.eqb_eq in E. rewrite <- (U k (bsub_kid_of _ _ _ Hp Hk) E). exact R.
Qed.

Lemma from_x dl L c v t :
  cnt c (ids t) = 0 -> tn (Qx L c v) (rlx dl c v) t -> tn (Q L 0) (rl dl) t.
Proof.
  intro Z.
  assert (N : forall k, In k (bsub t) -> bi_id (binf k) <> c).
  { intros k Hk E. pose proof (bsub_cnt _ _ Hk) as B. unfold bid in B. rewrite E in B. lia. }
  apply tn_conv.
  - intros k Hk (A & _ & B). split; [exact A | exact (B (N k Hk))].
  - intros p k Hp Hk R D. specialize (R D).
    pose proof (N k (bsub_kid_of _ _ _ Hp Hk)) as E. apply Nat.eqb_neq in E. now rewrite E in R.
Qed.

Lemma in_tree_lt o ex st k : TI o ex st -> In k (bsub (ps_root st)) -> bid k < ps_next st.
Proof. intros [_ [U _]] Hk. destruct (U (bid k)) as [_ B]. apply B. pose proof (bsub_cnt _ _ Hk). lia. Qed.

Section tables.
Variables (o : bopts) (ex : list nat) (L : nat).
Hypothesis HL : 1 <= L.
Let dl := bo_description_lists o.

(* ---- try_inserting_table_header_paragraph *)
Lemma try_inserting_x st c po st' cn :
  try_inserting_table_header_paragraph st c po = Ok st' -> TI o ex st -> SV st ->
  get st c = Ok cn -> is_paragraph cn = true -> Q L 0 (binf cn) ->
  tn (Qx L c (bi_sl (binf cn))) (rlx dl c (bi_sl (binf cn))) (ps_root st) ->
  tn (Qx L c (bi_sl (binf cn))) (rlx dl c (bi_sl (binf cn))) (ps_root st') /\ ps_line_number st' = ps_line_number st.
Proof.
  unfold try_inserting_table_header_paragraph. intros H V S G Pa Qc X. rewrite G in H. cbn [bind] in H.
  pose proof (para_no_kids _ _ _ _ S (TI_NI _ _ _ V) G Pa) as NK.
  assert (Hlt : c < ps_next st).
  { pose proof (get_find _ _ _ G) as F. destruct (find_node_sub _ _ _ F) as [A B]. rewrite <- A. eapply in_tree_lt; eassumption. }
  mon H; monall; try (split; [exact X | reflexivity]).
  match goal with C : copy_line_offsets _ _ _ = Ok _ |- _ => destruct (copy_line_offsets_len _ _ _ _ C) as [Ln Lb] end.
  destruct Qc as [[A1 A2] A3].
  assert (Vp : bi_val (binf cn) = Paragraph).
  { unfold is_paragraph, bval in Pa. destruct (bi_val (binf cn)); try discriminate Pa; reflexivity. }
  specialize (A3 Vp). specialize (Lb (Nat.le_0_l _)). cbn [Nat.add] in Lb.
  match goal with M : modify_info _ _ _ = Ok ?s1, E : edit_kids _ _ (ps_root ?s1) = Some ?r |- _ =>
    assert (X1 : tn (Qx L c (bi_sl (binf cn))) (rlx dl c (bi_sl (binf cn))) (ps_root s1) /\ ps_line_number s1 = ps_line_number st) end.
  { unfold modify_info, modify in *.
    match goal with M : match upd ?a ?b ?t with _ => _ end = Ok _ |- _ => destruct (upd a b t) as [r1|] eqn:U; [|discriminate M]; inversion M; subst; clear M end.
    cbn [ps_root ps_line_number st_root st_next] in *. split; [|reflexivity].
    refine (proj1 (upd_tn _ _ _ _ _ _ X U _)).
    intros nn Fn An. rewrite (get_find _ _ _ G) in Fn. inversion Fn; subst nn.
    destruct cn as [i ch]. cbn [bkids] in NK. subst ch. cbn [on_info binf] in *. split.
    - apply tn_node. split; [|constructor].
      pose proof (find_node_sub _ _ _ (get_find _ _ _ G)) as [Hid _]. unfold bid in Hid. cbn [binf] in Hid.
      unfold Qx, Qa, max1 in *. cbn [set_start bi_sl bi_el bi_val bi_id]. repeat split; try assumption; try lia.
    - intros j R D. specialize (R D). cbn [set_start bi_id bi_sl] in *. destruct (Nat.eqb (bi_id i) c); [exact R | lia]. }
  destruct X1 as [X1 EL1]. split; [|cbn [ps_line_number st_root]; exact EL1].
  cbn [ps_root st_root].
  match goal with E : edit_kids _ _ _ = Some _ |- _ => refine (proj1 (edit_kids_tn _ _ _ _ _ _ X1 E _)) end.
  intros i pre x post Qi Hb K. cbv beta. destruct (can_contain (kind_of (bi_val i)) KParagraph); [|exact K].
  apply Forall_app in K. destruct K as [K1 K2]. apply Forall_cons_iff in K2. destruct K2 as [Kx Kp].
  apply Forall_app. split; [exact K1|]. cbn [app]. constructor; [|constructor; assumption].
  destruct Kx as [Rx Tx]. split.
  - intro D. specialize (Rx D). unfold bid in Hb. rewrite Hb, Nat.eqb_refl in Rx.
    cbn [binf set_lo set_content set_end new_info bi_id bi_sl].
    assert (Ne : Nat.eqb (ps_next st) c = false) by (apply Nat.eqb_neq; lia). rewrite Ne. exact Rx.
  - apply tn_node. split; [|constructor].
    unfold Qx, Qa, Qb, max1 in *. cbn [set_lo set_content set_end new_info bi_id bi_sl bi_el bi_val bi_lo is_fm].
    match goal with S1 : sub _ _ 1 = Ok ?e |- _ => unfold sub in S1; destruct (Nat.ltb _ 1); [discriminate S1|]; inversion S1; subst; clear S1 end.
    repeat split; try lia.
Qed.

(* ---- try_opening_header *)
Lemma header_cells_x c v : forall cells id ln sl sc po l i,
  header_cells cells id ln sl sc po = Ok l -> c < id -> sl <= max1 L -> bi_sl i <= sl ->
  Forall (kid_ok (Qx L c v) (rlx dl c v) i) l.
Proof.
  induction cells as [|ce r IH]; intros id ln sl sc po l i H Hlt Hs Hi; cbn [header_cells] in H.
  - inversion H. constructor.
  - mon H. constructor; [|eapply IH; [eassumption | lia | assumption | assumption]].
    split.
    + intro D. cbn [binf set_lo set_content set_ioff set_end set_start new_info bi_id bi_sl].
      assert (Ne : Nat.eqb id c = false) by (apply Nat.eqb_neq; lia). rewrite Ne. exact Hi.
    + apply tn_node. split; [|constructor].
      unfold Qx, Qa, Qb. cbn [set_lo set_content set_ioff set_end set_start new_info bi_id bi_sl bi_el bi_val is_fm].
      repeat split; try assumption; try lia. intros _ Vp; discriminate Vp.
Qed.

Lemma adv_line st line n b st' : adv st line n b = Ok st' -> ps_line_number st' = ps_line_number st.
Proof. unfold adv. intro H. mon H. reflexivity. Qed.

Lemma try_opening_header_xi st c line r st' :
  try_opening_header o st c line = Ok (r, st') -> TI o ex st -> SV st ->
  (forall cn, get st c = Ok cn -> is_paragraph cn = true) ->
  XI o L 0 st -> XI o L 0 st'.
Proof.
  unfold try_opening_header. intros H V SVh Hc [EL X].
  destruct (conj (Nat.eq_le_incl _ _ EL) (Nat.eq_le_incl _ _ (eq_sym EL))) as [ELx ELy]; clear EL.
  destruct (get st c) as [cn0| |] eqn:G0; cbn [bind] in H; try discriminate H.
  pose proof (Hc _ eq_refl) as Hp. clear Hc.
  pose proof (tn_binf _ _ _ (find_node_tn _ _ _ _ _ X (get_find _ _ _ G0))) as Qc.
  pose proof (to_x _ _ _ _ _ _ V G0 Hp X) as X0. fold dl in X0.
  mon H; monall; try (split; [lia | assumption]).
  all: match goal with
       | I : try_inserting_table_header_paragraph _ _ _ = Ok ?s |- _ =>
         destruct (try_inserting_x _ _ _ _ _ I V SVh G0 Hp Qc X0) as [X1 EL1];
         destruct (try_inserting_TI _ _ _ _ _ _ I V) as [V1 _]
       | _ => pose proof X0 as X1; pose proof V as V1
       end.
  all: match goal with A : adv (st_next ?s1 ?n1) _ _ _ = Ok ?s3, E : edit_kids _ _ (ps_root ?s3) = Some ?r0,
                       G1 : get ?s1 _ = Ok ?c1, HC : header_cells ?hc _ _ _ _ _ = Ok ?cells |- _ =>
         destruct (adv_same _ _ _ _ _ A) as [Rt _]; cbn [ps_root st_next] in Rt; rewrite Rt in E;
         pose proof (adv_line _ _ _ _ _ A) as ELa; cbn [ps_line_number st_next] in ELa;
         assert (ELs : ps_line_number s1 = L) by lia;
         pose proof (get_find _ _ _ G1) as F1; destruct (find_node_sub _ _ _ F1) as [Hid1 Hin1];
         pose proof (tn_in _ _ _ _ X1 Hin1) as (Qa1 & Qc1 & _); unfold bid in Hid1;
         destruct (Qc1 Hid1) as [Hv1 _];
         pose proof (in_tree_lt _ _ _ _ V1 Hin1) as Hlt; unfold bid in Hlt; rewrite Hid1 in Hlt;
         destruct (header_cells_ids _ _ _ _ _ _ _ HC) as (Hi & _ & _);
         pose proof (fun i => header_cells_x c (bi_sl (binf cn0)) _ _ _ _ _ _ _ i HC ltac:(lia) (proj1 Qa1)) as HCx
       end.
  all: split; [cbn [ps_line_number st_root]; lia|]; cbn [ps_root st_root]; fold dl.
  all: apply (from_x dl L c (bi_sl (binf cn0))).
  all: match goal with E : edit_kids _ _ _ = Some _, G1 : get ?s1 _ = Ok _, _ : header_cells _ _ _ _ _ _ = Ok _ |- _ =>
         try (refine (proj1 (edit_kids_tn _ _ _ _ _ _ X1 E _));
              intros i pre x post Qi Hb K; cbv beta;
              apply Forall_app in K; destruct K as [K1 K2]; apply Forall_cons_iff in K2; destruct K2 as [[Rx Tx] Kp];
              assert (Px : is_paragraph x = true)
                by (destruct (tn_binf _ _ _ Tx) as (_ & Cx & _); destruct (Cx Hb) as [_ Vx]; unfold is_paragraph, bval; now rewrite Vx);
              rewrite Px; apply Forall_app; (split; [exact K1|]); cbn [app]; (constructor; [|exact Kp]);
              assert (Ne0 : Nat.eqb (ps_next s1) c = false) by (apply Nat.eqb_neq; lia);
              assert (Ne1 : Nat.eqb (S (ps_next s1)) c = false) by (apply Nat.eqb_neq; lia);
              split;
              [ intro D; specialize (Rx D); unfold bid in Hb; rewrite Hb, Nat.eqb_refl in Rx;
                cbn [binf new_info bi_id bi_sl]; rewrite Ne0; lia
              | apply tn_node; split;
                [ unfold Qx, Qa, Qb in *; cbn [new_info bi_id bi_sl bi_el bi_val is_fm]; repeat split; try tauto; try lia; intros _ Vp; discriminate Vp
                | constructor; [|constructor]; split;
                  [ intro D; cbn [binf new_info set_end set_start bi_id bi_sl]; rewrite Ne1; lia
                  | apply tn_node; split; [|apply HCx; cbn [set_end set_start new_info bi_sl]; lia];
                    unfold Qx, Qa, Qb in *; cbn [new_info set_end set_start bi_id bi_sl bi_el bi_val is_fm]; repeat split; try tauto; try lia; intros _ Vp; discriminate Vp ] ] ])
       end.
  all: match goal with E : edit_kids _ _ _ = Some _ |- _ =>
         destruct (edit_kids_cnt _ _ _ _ E) as (pk & pre & c0 & post & Hb0 & Hin0 & C);
         assert (P0 : is_paragraph c0 = true)
           by (destruct (tn_in _ _ _ _ X1 Hin0) as (_ & Cx & _); destruct (Cx Hb0) as [_ Vx]; unfold is_paragraph, bval; now rewrite Vx);
         specialize (C c); cbv beta in C; rewrite P0 in C;
         pose proof (TI_distinct _ _ _ V1 c) as D1;
         pose proof (bsub_cnt _ _ (bsub_self c0)) as B0; rewrite Hb0 in B0;
         cnt_norm; cbn [new_info set_end set_start bi_id] in C; rewrite Hi in C;
         match type of C with context [seq ?a ?len] => destruct (seq_cnt c a len) as [S1 S2] end;
         unfold one in *;
         repeat match goal with H : context [Nat.eq_dec ?a ?b] |- _ => destruct (Nat.eq_dec a b) end; lia
       end.
Qed.

(* ---- try_opening_row *)
Lemma row_cells_xq s : forall n cells id sc lc l lc' i,
  row_cells n cells id L sc lc = Ok (l, lc') -> bi_sl i <= L ->
  Forall (kid_ok (Q L s) (rl dl) i) l.
Proof.
  induction n as [|m IH]; intros cells id sc lc l lc' i H Hi; cbn [row_cells] in H.
  - destruct cells; inversion H; subst; constructor.
  - destruct cells as [|ce r]; [inversion H; subst; constructor|].
    mon H. repeat match goal with p : (_ * _)%type |- _ => destruct p end. cbn [fst snd] in *.
    constructor; [|eapply IH; eassumption]. split; [intros _; exact Hi|].
    apply tn_node. split; [|constructor]. unfold Q, Qa, Qb, max1. cbn [set_lo set_content set_end set_ioff new_info bi_sl bi_el bi_val bi_lo is_fm]. repeat split; try lia; try (intro Vp; discriminate Vp).
Qed.

Lemma filler_cells_xq s : forall n id lc i, bi_sl i <= L -> Forall (kid_ok (Q L s) (rl dl) i) (filler_cells n id L lc).
Proof.
  induction n as [|m IH]; intros id lc i Hi; cbn [filler_cells]; constructor; [|now apply IH].
  split; [intros _; exact Hi|]. apply tn_node. split; [|constructor].
  unfold Q, Qa, Qb, max1. cbn [set_lo set_content set_end set_ioff new_info bi_sl bi_el bi_val bi_lo is_fm]. repeat split; try lia; try (intro Vp; discriminate Vp).
Qed.

Lemma try_opening_row_xi s st c t line r st' :
  (exists cn, get st c = Ok cn /\ bval cn = Table t) ->
  try_opening_row o st c t line = Ok (r, st') -> XI o L s st -> XI o L s st'.
Proof.
  intros [cn [G Bv]]. unfold try_opening_row. intros H P. rewrite G in H. cbn [bind] in H.
  pose proof (get_q _ _ _ _ _ _ P G) as [[A1 A2] _].
  mon H; monall; try exact P.
  match goal with M : modify _ _ _ = Ok ?s1 |- _ => assert (XI o L s s1) end.
  { eapply modify_xi; [apply XI_st_next; exact P | eassumption |].
    intros nn Fn An. cbn in Fn. rewrite (get_find _ _ _ G) in Fn. inversion Fn; subst nn.
    destruct cn as [i ch]. unfold bval in Bv. cbn [binf] in *. split; [|intros j R; exact R].
    apply tn_node in An. destruct An as [Ai Ak]. rewrite (proj1 P) in *.
    assert (Hs : bi_sl i <= L) by (unfold max1 in A1; lia).
    apply tn_node. split.
    - destruct i. unfold Q, Qa, Qb in *. cbn in *. subst. destruct Ai as [[B1 B2] _]. repeat split; auto; try (intro Vp; discriminate Vp).
    - apply Forall_app. split.
      + eapply Forall_impl; [|exact Ak]. intros k [Rk Tk]. split; [exact Rk | exact Tk].
      + constructor; [|constructor]. split; [intros _; cbn; exact Hs|].
        apply tn_node. split.
        * unfold Q, Qa, Qb, max1. cbn [set_lo set_content set_end set_ioff new_info bi_sl bi_el bi_val bi_lo is_fm]. repeat split; try lia; try (intro Vp; discriminate Vp).
        * apply Forall_app. split; [eapply row_cells_xq; [eassumption | cbn; lia] | apply filler_cells_xq; cbn; lia]. }
  eauto 10 with xi.
Qed.

Lemma try_opening_block_xi st c line r st' :
  try_opening_block o st c line = Ok (r, st') -> TI o ex st -> SV st -> XI o L 0 st -> XI o L 0 st'.
Proof.
  unfold try_opening_block. intros H V S P.
  destruct (get st c) as [cn| |] eqn:G; cbn [bind] in H; try discriminate H.
  destruct (bval cn) eqn:Bv; try (inversion H; subst; exact P).
  - eapply try_opening_header_xi; [exact H | exact V | exact S | | exact P].
    intros cn' G'. rewrite G in G'. inversion G'; subst. unfold is_paragraph. now rewrite Bv.
  - eapply try_opening_row_xi; [exists cn; split; [exact G | exact Bv] | exact H | exact P].
Qed.
End tables.

(* ================================================================== description lists *)
Lemma rl_true i k : rl true i k. Proof. intro H; discriminate H. Qed.

(* the start written into a node that add_child has just created *)
Lemma set_start_fresh_xi o ex L s st p v col id sA l c sB :
  add_child o st p v col = Ok (id, sA) -> modify_info sA id (set_start l c) = Ok sB ->
  TI o ex sA -> v <> Paragraph -> bo_description_lists o = true -> l <= max1 L -> XI o L s sA -> XI o L s sB.
Proof.
  intros A M V Nv D Hl X. eapply modify_xi; [exact X | exact M |].
  intros n Fn An. pose proof (add_child_fresh _ _ _ _ _ _ _ _ A V n Fn) as Bv. rewrite D in *.
  destruct n as [i ch]. unfold bval in Bv. cbn [binf on_info] in *. split; [|intros; apply rl_true].
  apply tn_node in An. destruct An as [[[A1 A2] A3] Ak]. apply tn_node. split.
  - unfold Q, Qa, Qb. cbn [set_start bi_sl bi_el bi_val bi_lo]. repeat split; auto. intro Vp. rewrite Bv in Vp. contradiction.
  - eapply Forall_impl; [|exact Ak]. intros k [_ Tk]. split; [apply rl_true | exact Tk].
Qed.

Lemma parse_desc_list_details_xi o ex L s st c m b c' st' :
  parse_desc_list_details o st c m = Ok (b, c', st') -> bo_description_lists o = true -> 1 <= L ->
  TI o ex st -> XI o L s st -> XI o L s st'.
Proof.
  unfold parse_desc_list_details. intros H D HL V P.
  destruct (get st c) as [cn| |] eqn:G; cbn [bind] in H; try discriminate H.
  match type of H with bind ?r _ = _ => destruct r as [[[[tight c1] lc]|]| |] eqn:R; cbn [bind] in H; try discriminate H end;
    [|inversion H; subst; exact P].
  assert (Hl : tn (Q L s) (rl (bo_description_lists o)) lc /\ exists p, In p (bsub (ps_root st)) /\ In lc (bkids p)).
  { destruct (last_opt (bkids cn)) eqn:Lk.
    - inversion R; subst. pose proof (get_tn _ _ _ _ _ _ P G) as Tc. apply last_opt_in in Lk. split.
      + exact (proj2 (tn_kid _ _ _ _ Tc Lk)).
      + exists cn. split; [eapply get_sub; eassumption | exact Lk].
    - mon R.
      match goal with G2 : get st ?pp = Ok ?pn, L2 : last_opt (bkids ?pn) = Some _ |- _ =>
        pose proof (get_tn _ _ _ _ _ _ P G2) as Tc; apply last_opt_in in L2; split;
        [ exact (proj2 (tn_kid _ _ _ _ Tc L2)) | exists pn; split; [eapply get_sub; exact G2 | exact L2] ] end. }
  destruct Hl as (Tlc & p & Hp & Hlc).
  clear R.
  pose proof (tn_binf _ _ _ Tlc) as [[Lsl _] _].
  destruct (bval lc) eqn:Bl; try (inversion H; subst; exact P).
  - (* DescriptionItem *) xigo H.
  - (* Paragraph *)
    mon H; monall; repeat match goal with q : (_ * _)%type |- _ => destruct q end; cbn [fst snd] in *.
    all: match goal with D0 : bdetach _ _ = Ok ?s1 |- _ =>
           assert (V1 : TI o (ids lc ++ ex) s1) by (eapply bdetach_TI_keep; [exact D0 | exact V | exact Hp | exact Hlc | rewrite Bl; reflexivity]);
           assert (X1 : XI o L s s1) by (eapply bdetach_xi; eassumption)
         end.
    (* the list: reopened, or created and given the start of the paragraph *)
    all: try match goal with Ro : reopen_ast_nodes _ ?s1 _ = Ok ?s2 |- _ =>
           assert (V2 : TI o (ids lc ++ ex) s2) by eauto with ti;
           assert (X2 : XI o L s s2) by eauto with xi
         end.
    all: try match goal with A : add_child _ ?s1 _ DescriptionList _ = Ok (?id, ?sA), M : modify_info ?sA ?id (set_start _ _) = Ok ?s2 |- _ =>
           assert (VA : TI o (ids lc ++ ex) sA) by (eapply add_child_TI; [exact A | reflexivity | reflexivity | reflexivity | exact V1]);
           assert (V2 : TI o (ids lc ++ ex) s2) by (eapply modify_info_set_TI; [exact M | intro; split; reflexivity | exact VA]);
           assert (X2 : XI o L s s2)
             by (eapply set_start_fresh_xi; [exact A | exact M | exact VA | discriminate | exact D | exact Lsl | eapply add_child_xi; eassumption])
         end.
    all: match goal with A : add_child _ ?s2 _ (DescriptionItem _ _ _) _ = Ok (?item, ?s3), M : modify_info ?s3 ?item (set_start _ _) = Ok ?s4 |- _ =>
           assert (V3 : TI o (ids lc ++ ex) s3) by (eapply add_child_TI; [exact A | reflexivity | reflexivity | reflexivity | exact V2]);
           assert (X4 : XI o L s s4)
             by (eapply set_start_fresh_xi; [exact A | exact M | exact V3 | discriminate | exact D | exact Lsl | eapply add_child_xi; eassumption])
         end.
    all: match goal with A : add_child_gen _ ?s4 _ DescriptionTerm _ _ _ = Ok (_, ?s5) |- _ =>
           assert (X5 : XI o L s s5)
             by (eapply add_child_gen_xi; [exact A | exact HL | intros; split; [assumption | reflexivity] | | exact X4];
                 constructor; [split; [rewrite D; apply rl_true | exact Tlc] | constructor])
         end.
    all: eauto with xi.
Qed.
