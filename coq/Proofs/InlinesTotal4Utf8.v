(* Proofs/InlinesTotal4Utf8.v — C01, inline phase, fourth wave: the three raw-HTML forms whose length is
   `scanner match + k` (processing instruction `<?`, declaration `<!X`, CDATA `<![`): on valid UTF-8 without NUL the
   scanner stops only in front of the terminator, so the k bytes added are the terminator and the last one is `>`.

     u0 r                executable: every string r matches leaves the UTF-8 validator, started in U0, in U0
                         (byte classes of ASCII bytes; star-free sequences checked by running the validator over their
                         byte classes: post)            -> what follows a match in a valid string is a valid string
     cover excl C        executable: from U0 every valid character whose first byte is not in excl is matched by C
                         (nested loops over the bytes the validator accepts, derivatives of C)
     longest match + extension lemmas (Star): the rest behind the match cannot start with a string that extends it.
   No axioms. *)
From Coq Require Import List NArith ZArith Arith Bool Strings.String Lia.
From V Require Import Base.Bytes Base.Res Base.Regex Base.Re2c Gen.ScannersRe Gen.StrLeafGen Model.Scan Model.Strings Model.Ast Model.Inlines
     Spec.EscapeSpec Proofs.RegexProofs Proofs.ScanProofs Proofs.InlinesProofs Proofs.InlinesMemo
     Proofs.InlinesTotal4Last Proofs.InlinesTotal4Auto Proofs.InlinesTotal4Inv.
Import ListNotations.
Local Open Scope list_scope.

(* ------------------------------------------------------------------ the validator as a state function *)
Fixpoint run_state (st : ust) (s : bytes) : option ust :=
  match s with
  | [] => Some st
  | b :: r => match ustep st b with Some st' => run_state st' r | None => None end
  end.

Definition is_u0 (st : ust) : bool := match st with U0 => true | _ => false end.

Lemma is_u0_eq st : is_u0 st = true -> st = U0.
Proof. destruct st; try discriminate; reflexivity. Qed.

Lemma utf8_run_state : forall s st, utf8_run st s = match run_state st s with Some st' => is_u0 st' | None => false end.
Proof.
  induction s as [|b r IH]; intro st; cbn [utf8_run run_state]; [destruct st; reflexivity|].
  destruct (ustep st b); [apply IH|reflexivity].
Qed.

Lemma run_state_app : forall a st b,
  run_state st (a ++ b) = match run_state st a with Some st' => run_state st' b | None => None end.
Proof.
  induction a as [|x a IH]; intros st b; cbn [app run_state]; [reflexivity|].
  destruct (ustep st x); [apply IH|reflexivity].
Qed.

Lemma ustep_ascii st b st' : is_ascii b = true -> ustep st b = Some st' -> st = U0 /\ st' = U0.
Proof.
  intros Ha H. unfold is_ascii in Ha. apply N.ltb_lt in Ha.
  destruct st; cbn [ustep] in H; unfold cont, in_range in H.
  - unfold is_ascii in H. destruct (bN b <? 128)%N eqn:E; [inversion H; auto|apply N.ltb_ge in E; lia].
  - destruct (_ && _) eqn:E; [|discriminate]. apply andb_true_iff in E. destruct E as [E _]. apply N.leb_le in E. lia.
  - destruct (_ && _) eqn:E; [|discriminate]. apply andb_true_iff in E. destruct E as [E _]. apply N.leb_le in E. lia.
  - destruct (_ && _) eqn:E; [|discriminate]. apply andb_true_iff in E. destruct E as [E _]. apply N.leb_le in E. lia.
  - destruct (_ && _) eqn:E; [|discriminate]. apply andb_true_iff in E. destruct E as [E _]. apply N.leb_le in E. lia.
  - destruct (_ && _) eqn:E; [|discriminate]. apply andb_true_iff in E. destruct E as [E _]. apply N.leb_le in E. lia.
  - destruct (_ && _) eqn:E; [|discriminate]. apply andb_true_iff in E. destruct E as [E _]. apply N.leb_le in E. lia.
  - destruct (_ && _) eqn:E; [|discriminate]. apply andb_true_iff in E. destruct E as [E _]. apply N.leb_le in E. lia.
Qed.

(* behind an ASCII byte of a valid string the rest is valid *)
Lemma valid_after_ascii inp p c :
  utf8_valid inp = true -> nth_error inp p = Some c -> is_ascii c = true -> utf8_run U0 (skipn (S p) inp) = true.
Proof.
  unfold utf8_valid. intros Hv E Ha.
  destruct (skipn_nth inp p c E) as [r Hr].
  assert (inp = firstn p inp ++ c :: r) as Ei by (rewrite <- Hr; symmetry; apply firstn_skipn).
  assert (skipn (S p) inp = r) as -> by (apply skipn_cons_nth in Hr; tauto).
  rewrite utf8_run_state in Hv. rewrite Ei, run_state_app in Hv.
  destruct (run_state U0 (firstn p inp)) as [st|]; [|discriminate]. cbn [run_state] in Hv.
  destruct (ustep st c) as [st'|] eqn:Es; [|discriminate].
  destruct (ustep_ascii _ _ _ Ha Es) as [_ ->]. rewrite utf8_run_state. exact Hv.
Qed.

(* ------------------------------------------------------------------ u0: matches end on a character boundary *)
Fixpoint starfree (r : re) : bool :=
  match r with Star _ => false | Cat a b | Alt a b => starfree a && starfree b | _ => true end.

Fixpoint post (r : re) (S : list ust) : list ust :=
  match r with
  | Empty => []
  | Eps => S
  | Chr cs => flat_map (fun st => flat_map (fun b => if cs_mem cs b then match ustep st b with Some st' => [st'] | None => [] end else [])
                                          all_bytes) S
  | Cat a b => post b (post a S)
  | Alt a b => post a S ++ post b S
  | Star _ => []
  end.

Lemma post_sound r w : matches r w -> starfree r = true ->
  forall st st' S, run_state st w = Some st' -> In st S -> In st' (post r S).
Proof.
  induction 1; cbn [starfree post]; intros Hsf st st' S Hr Hin; try discriminate Hsf.
  - cbn in Hr. inversion Hr; subst. exact Hin.
  - cbn [run_state] in Hr. destruct (ustep st b) as [st1|] eqn:Es; [|discriminate]. inversion Hr; subst st1.
    apply in_flat_map. exists st. split; [exact Hin|]. apply in_flat_map. exists b. split; [apply all_bytes_complete|].
    rewrite H, Es. left. reflexivity.
  - apply andb_true_iff in Hsf. destruct Hsf as [S1 S2]. rewrite run_state_app in Hr.
    destruct (run_state st s) as [st1|] eqn:E1; [|discriminate].
    eapply IHmatches2; [exact S2|exact Hr|]. eapply IHmatches1; [exact S1|exact E1|exact Hin].
  - apply andb_true_iff in Hsf. destruct Hsf as [S1 S2]. apply in_or_app. left. eapply IHmatches; eassumption.
  - apply andb_true_iff in Hsf. destruct Hsf as [S1 S2]. apply in_or_app. right. eapply IHmatches; eassumption.
Qed.

Fixpoint u0 (r : re) : bool :=
  match r with
  | Empty | Eps => true
  | Chr cs => forallb (fun b => implb (cs_mem cs b) (is_ascii b)) all_bytes
  | Cat a b => (u0 a && u0 b) || (starfree a && starfree b && forallb is_u0 (post b (post a [U0])))
  | Alt a b => u0 a && u0 b
  | Star a => u0 a
  end.

Lemma u0_sound r w : matches r w -> u0 r = true -> forall st', run_state U0 w = Some st' -> st' = U0.
Proof.
  induction 1; cbn [u0]; intros Hu st' Hr.
  - cbn in Hr. inversion Hr. reflexivity.
  - cbn [run_state] in Hr. destruct (ustep U0 b) as [st1|] eqn:Es; [|discriminate]. inversion Hr; subst st1.
    pose proof (forall_bytes_impl _ _ Hu b H) as Ha. destruct (ustep_ascii _ _ _ Ha Es) as [_ K]. exact K.
  - apply orb_true_iff in Hu. destruct Hu as [Hu|Hu].
    + apply andb_true_iff in Hu. destruct Hu as [U1' U2']. rewrite run_state_app in Hr.
      destruct (run_state U0 s) as [st1|] eqn:E1; [|discriminate].
      rewrite (IHmatches1 U1' _ eq_refl) in Hr. exact (IHmatches2 U2' _ Hr).
    + apply andb_true_iff in Hu. destruct Hu as [Hu Hp].
      assert (In st' (post (Cat a b) [U0])) as Hin.
      { eapply (post_sound (Cat a b) (s ++ t)); [constructor; assumption|exact Hu|exact Hr|left; reflexivity]. }
      cbn [post] in Hin. rewrite forallb_forall in Hp. apply is_u0_eq, Hp, Hin.
  - apply andb_true_iff in Hu. destruct Hu as [U1' U2']. eapply IHmatches; eassumption.
  - apply andb_true_iff in Hu. destruct Hu as [U1' U2']. eapply IHmatches; eassumption.
  - cbn in Hr. inversion Hr. reflexivity.
  - rewrite run_state_app in Hr. destruct (run_state U0 s) as [st1|] eqn:E1; [|discriminate].
    rewrite (IHmatches1 Hu _ eq_refl) in Hr. exact (IHmatches2 Hu _ Hr).
Qed.

(* what follows a match inside a valid string is valid *)
Lemma valid_rest r s m :
  matches r (firstn m s) -> u0 r = true -> utf8_run U0 s = true -> utf8_run U0 (skipn m s) = true.
Proof.
  intros Hm Hu Hv. rewrite utf8_run_state in *. rewrite <- (firstn_skipn m s), run_state_app in Hv.
  destruct (run_state U0 (firstn m s)) as [st|] eqn:E; [|discriminate].
  rewrite (u0_sound _ _ Hm Hu _ E) in Hv. exact Hv.
Qed.

(* ------------------------------------------------------------------ cover: a class matches every valid character *)
Fixpoint cov (n : nat) (st : ust) (D : re) : bool :=
  match n with
  | O => false
  | S n' => forallb (fun b => match ustep st b with
                              | None => true
                              | Some st' => if is_u0 st' then nullable (deriv b D) else cov n' st' (deriv b D)
                              end) all_bytes
  end.

Lemma cov_sound : forall n st D rest, is_u0 st = false -> cov n st D = true -> utf8_run st rest = true ->
  exists ch rest', rest = ch ++ rest' /\ ch <> [] /\ matches D ch /\ utf8_run U0 rest' = true.
Proof.
  induction n as [|n IH]; intros st D rest Hst Hc Hv; [discriminate Hc|].
  cbn [cov] in Hc. destruct rest as [|b r]; [destruct st; discriminate|].
  cbn [utf8_run] in Hv. destruct (ustep st b) as [st'|] eqn:Es; [|discriminate].
  pose proof (forall_bytes _ Hc b) as K. cbv beta in K. rewrite Es in K.
  destruct (is_u0 st') eqn:Eu.
  - apply is_u0_eq in Eu. subst st'. exists [b], r. split; [reflexivity|]. split; [discriminate|]. split; [|exact Hv].
    apply deriv_spec. apply nullable_spec. exact K.
  - destruct (IH st' (deriv b D) r Eu K Hv) as (ch & rest' & -> & _ & Hm & Hv').
    exists (b :: ch), rest'. split; [reflexivity|]. split; [discriminate|]. split; [|exact Hv'].
    apply deriv_spec. exact Hm.
Qed.

Definition cover (excl : byte -> bool) (C : re) : bool :=
  forallb (fun b => match ustep U0 b with
                    | None => true
                    | Some st' => if is_u0 st' then excl b || nullable (deriv b C) else cov 3 st' (deriv b C)
                    end) all_bytes.

Lemma cover_sound excl C b rest :
  cover excl C = true -> utf8_run U0 (b :: rest) = true -> excl b = false ->
  exists ch rest', b :: rest = ch ++ rest' /\ ch <> [] /\ matches C ch /\ utf8_run U0 rest' = true.
Proof.
  intros Hc Hv He. pose proof (forall_bytes _ Hc b) as K. cbv beta in K.
  cbn [utf8_run] in Hv. destruct (ustep U0 b) as [st'|] eqn:Es; [|discriminate].
  destruct (is_u0 st') eqn:Eu.
  - apply is_u0_eq in Eu. subst st'. rewrite He in K. cbn [orb] in K.
    exists [b], rest. split; [reflexivity|]. split; [discriminate|]. split; [|exact Hv].
    apply deriv_spec. apply nullable_spec. exact K.
  - destruct (cov_sound 3 st' (deriv b C) rest Eu K Hv) as (ch & rest' & -> & _ & Hm & Hv').
    exists (b :: ch), rest'. split; [reflexivity|]. split; [discriminate|]. split; [|exact Hv'].
    apply deriv_spec. exact Hm.
Qed.

Definition ex20 (b : byte) : bool := beqb b x3f || beqb b x3e || beqb b x00.
Definition ex22 (b : byte) : bool := beqb b x3e || beqb b x00.
Definition ex24 (b : byte) : bool := beqb b x5d || beqb b x00.

Lemma cover20 : cover ex20 cls_20 = true. Proof. vm_compute. reflexivity. Qed.
Lemma cover22 : cover ex22 cls_22 = true. Proof. vm_compute. reflexivity. Qed.
Lemma cover24 : cover ex24 cls_24 = true. Proof. vm_compute. reflexivity. Qed.

Lemma u0_pi : u0 re_processinginstruction = true. Proof. vm_compute. reflexivity. Qed.
Lemma u0_decl : u0 re_declaration = true. Proof. vm_compute. reflexivity. Qed.
Lemma u0_cdata : u0 re_cdata = true. Proof. vm_compute. reflexivity. Qed.
