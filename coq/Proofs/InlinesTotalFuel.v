(* Proofs/InlinesTotalFuel.v — the fuel of the bounded inner loops of the inline phase is never exhausted:
   scan_to_closing_dollar / scan_to_closing_code_dollar (fuel |input| + 1: every iteration moves forward),
   the rewind loop of handle_autolink_with (fuel = number of siblings + 1: every iteration drops one),
   the backward walk of autolink_delim (fuel = link_end + 1: every iteration shortens the link). *)
From Coq Require Import List NArith ZArith Bool Strings.String Lia.
From V Require Import Base.Bytes Base.Res Gen.StrLeafGen Gen.Consts Gen.Special Model.Special
     Model.Scan Model.Strings Model.Entity Model.LinkUrl Model.AutolinkLeaf Model.Spx Model.Ast Model.Inlines
     Proofs.InlinesProofs Proofs.InlinesMemo.
Import ListNotations.
Local Open Scope list_scope.

Section Fuel.
Variable o : iopts.
Variable inp : bytes.

(* the byte where `while peek != c` stops is c *)
Lemma count_while_neg_stop (c : byte) (l : bytes) :
  let n := count_while_b (fun x => negb (beqb x c)) l in
  n < List.length l -> nth_error l n = Some c.
Proof.
  induction l as [|x l IH]; simpl; intro H; [lia|].
  destruct (beqb x c) eqn:E; simpl in *.
  - apply beqb_eq in E. congruence.
  - apply IH. lia.
Qed.

Lemma skipn_length' {A} (l : list A) p : List.length (skipn p l) = List.length l - p.
Proof. apply skipn_length. Qed.

Lemma dollar_at p :
  let p1 := p + count_while_b (fun c => negb (beqb c x24)) (skipn p inp) in
  p1 < len inp -> p <= len inp -> nth_error inp p1 = Some x24.
Proof.
  intros p1 H Hp. unfold p1 in *.
  rewrite <- nth_error_skipn. apply count_while_neg_stop.
  rewrite skipn_length. unfold len in H. lia.
Qed.

Lemma stcd_loop_fuel odl : forall fuel p,
  len inp - p < fuel -> stcd_loop inp fuel p odl <> OutOfFuel.
Proof.
  induction fuel as [|f IH]; intros p Hf; [lia|].
  cbn [stcd_loop].
  set (p1 := p + count_while_b (fun c => negb (beqb c x24)) (skipn p inp)).
  destruct (Nat.leb (len inp) p1) eqn:El; [discriminate|]. apply Nat.leb_gt in El.
  assert (p <= len inp) as Hp by (unfold p1 in El; lia).
  pose proof (dollar_at p El Hp) as Hd. fold p1 in Hd.
  unfold usub. destruct (Nat.ltb p1 1); cbn [bind]; [discriminate|].
  destruct (nth_error inp (p1 - 1)) as [c|]; [|discriminate].
  destruct (Nat.eqb odl 1 && sl_isspace c); [discriminate|].
  destruct (Nat.eqb odl 1 && beqb c x5c).
  { apply IH. lia. }
  assert (1 <= count_eq inp x24 p1) as Hc by (eapply count_eq_pos; [exact Hd|reflexivity]).
  unfold count_eq_limit.
  destruct (Nat.eqb odl 1 && peek_is inp (p1 + Nat.min odl (count_eq inp x24 p1)) sl_isdigit); [discriminate|].
  destruct (Nat.eqb (Nat.min odl (count_eq inp x24 p1)) odl) eqn:Em; [discriminate|].
  apply Nat.eqb_neq in Em. apply IH. lia.
Qed.

Lemma scan_to_closing_dollar_fuel p odl : scan_to_closing_dollar o inp p odl <> OutOfFuel.
Proof.
  unfold scan_to_closing_dollar.
  destruct (_ || _); [discriminate|]. destruct (_ && _); [discriminate|].
  apply stcd_loop_fuel. lia.
Qed.

Lemma stccd_loop_fuel : forall fuel p, len inp - p < fuel -> stccd_loop inp fuel p <> OutOfFuel.
Proof.
  induction fuel as [|f IH]; intros p Hf; [lia|].
  cbn [stccd_loop].
  set (p1 := p + count_while_b (fun c => negb (beqb c x24)) (skipn p inp)).
  destruct (Nat.leb (len inp) p1) eqn:El; [discriminate|]. apply Nat.leb_gt in El.
  unfold usub. destruct (Nat.ltb p1 1); cbn [bind]; [discriminate|].
  destruct (nth_error inp (p1 - 1)) as [c|]; [|discriminate].
  destruct (beqb c x60); [discriminate|].
  apply IH. unfold p1 in *. lia.
Qed.

Lemma rewind_loop_fuel : forall fuel reverse l, List.length l < fuel -> rewind_loop fuel reverse l <> OutOfFuel.
Proof.
  induction fuel as [|f IH]; intros reverse l Hf; [lia|].
  destruct reverse as [|rv]; [discriminate|].
  cbn [rewind_loop]. destruct l as [|[id n] r]; [discriminate|].
  destruct (text_of n) as [prev|]; [|discriminate].
  destruct (Nat.ltb (S rv) (List.length prev)).
  - unfold nsub. destruct (_ <? _)%N; discriminate.
  - apply IH. simpl in Hf. lia.
Qed.

End Fuel.

Lemma strip_alpha_keep_last_length t : List.length (strip_alpha_keep_last t) <= List.length t.
Proof.
  induction t as [|b t IH]; [simpl; lia|].
  cbn [strip_alpha_keep_last]. destruct t as [|c t]; [simpl; lia|].
  destruct (sl_isalpha b); [|lia]. cbn [List.length] in *. lia.
Qed.

Lemma delim_loop_fuel relaxed : forall fuel rp, List.length rp < fuel -> delim_loop fuel relaxed rp <> OutOfFuel.
Proof.
  induction fuel as [|f IH]; intros rp Hf; [lia|].
  cbn [delim_loop]. destruct rp as [|cclose rest]; [discriminate|]. cbn [List.length] in Hf.
  destruct (sl_link_end_assortment cclose); [apply IH; lia|].
  destruct (beqb cclose x3b).
  { destruct rest as [|y rest']; [discriminate|].
    pose proof (strip_alpha_keep_last_length (y :: rest')) as Hl.
    destruct (strip_alpha_keep_last (y :: rest')) as [|c below]; [discriminate|].
    destruct (_ && _); apply IH; cbn [List.length] in *; lia. }
  match goal with |- match ?co with _ => _ end <> _ => destruct co end; [|discriminate].
  match goal with |- (if ?b then _ else _) <> _ => destruct b end; [discriminate|apply IH; lia].
Qed.

Lemma autolink_delim_fuel data link_end relaxed : autolink_delim data link_end relaxed <> OutOfFuel.
Proof.
  unfold autolink_delim.
  match goal with |- (if ?b then _ else _) <> _ => destruct b eqn:E end.
  - match goal with |- match ?x with _ => _ end <> _ => destruct x end; discriminate.
  - apply delim_loop_fuel. rewrite rev_length, firstn_length. lia.
Qed.

Lemma cd_loop_fuel hc len a s : forall skip i np u1 u2, cd_loop hc len a s skip i np u1 u2 <> OutOfFuel.
Proof.
  induction s as [|b s IH]; intros skip i np u1 u2; simpl; [discriminate|].
  destruct skip; [|apply IH].
  repeat match goal with
         | |- (if ?c then _ else _) <> _ => destruct c
         | |- Panic _ <> _ => discriminate
         | |- Ok _ <> _ => discriminate
         | |- cd_loop _ _ _ _ _ _ _ _ _ <> _ => apply IH
         end.
Qed.

Lemma check_domain_fuel hc data a : check_domain hc data a <> OutOfFuel.
Proof.
  unfold check_domain.
  destruct (cd_loop hc (List.length data) a data 0 0 0 0 0) as [[r|np u1 u2]| |] eqn:E; cbn [bind]; try discriminate.
  - repeat match goal with |- (if ?c then _ else _) <> _ => destruct c end; discriminate.
  - exfalso. eapply cd_loop_fuel; exact E.
Qed.

Section AutoFuel.
Variable o : iopts.
Variable u : oracle.
Variable inp : bytes.

Lemma url_match_fuel i : url_match o u inp i <> OutOfFuel.
Proof.
  unfold url_match.
  destruct (_ || _ || _); [discriminate|].
  destruct (_ && _); [discriminate|].
  destruct (check_domain _ _ _) as [[le0|]| |] eqn:E; cbn [bind]; try discriminate.
  - destruct (ext_loop _ _ _ _); [|discriminate].
    destruct (autolink_delim _ _ _) eqn:Ea; cbn [bind]; try discriminate.
    exfalso. eapply autolink_delim_fuel; exact Ea.
  - exfalso. eapply check_domain_fuel; exact E.
Qed.

Lemma www_match_fuel i : www_match o u inp i <> OutOfFuel.
Proof.
  unfold www_match.
  destruct (_ && _ && _); [discriminate|].
  destruct (negb _); [discriminate|].
  destruct (check_domain _ _ _) as [[le0|]| |] eqn:E; cbn [bind]; try discriminate.
  - unfold usub. destruct (Nat.ltb _ _); cbn [bind]; [discriminate|].
    destruct (ext_loop _ _ _ _); [|discriminate].
    destruct (autolink_delim _ _ _) eqn:Ea; cbn [bind]; try discriminate.
    exfalso. eapply autolink_delim_fuel; exact Ea.
  - exfalso. eapply check_domain_fuel; exact E.
Qed.

Lemma handle_autolink_with_fuel s m :
  (forall i, m i <> OutOfFuel) -> handle_autolink_with o s m <> OutOfFuel.
Proof.
  intro Hm. unfold handle_autolink_with.
  destruct (_ && _); [discriminate|].
  destruct (m (pos s)) as [[[[[url text] rv] sk]|]| |] eqn:E; cbn [bind]; try discriminate.
  - unfold usub. destruct (Nat.ltb sk rv); cbn [bind]; [discriminate|].
    destruct (rewind_loop _ _ _) eqn:Er; cbn [bind]; try discriminate.
    exfalso. eapply rewind_loop_fuel; [|exact Er]. cbn [sibs set_pos]. lia.
  - exfalso. eapply Hm; exact E.
Qed.

End AutoFuel.
