(* Proofs/BlocksTotal7Hdr.v — totality of the block phase, seventh round, the two sites
     table.rs:try_opening_header:content.len() - 2
     table.rs:try_opening_header:content.len() - 2 - header_row.paragraph_offset
   One more fact about what table.rs `row` ANSWERS (next to Proofs/BlocksTotal6Row.v row_facts): on a string that ends
   with LF, when row answers Some (paragraph_offset, cells), paragraph_offset + 2 <= |string|: after the last row end
   at least one cell byte (or pipe) and the final LF follow; with paragraph_offset = 0 the string [LF] alone gives no
   cell.  Consequence (try_opening_header_no_hdr_panic): try_opening_header does not panic at the two sites when the
   content of the container ends with LF (the content is NOT cut by try_inserting_table_header_paragraph, which only
   changes the start position of the container and inserts a sibling).

   Invariant of row_loop at the head of an iteration (hinv): paragraph_offset + 2 <= |s|, or no cell is collected yet
   and paragraph_offset <= offset.  In the second case a cell is pushed only with cell_matched > 0 or pipe_matched > 0
   at offset < |s|; were paragraph_offset + 2 > |s|, then offset = paragraph_offset = |s| - 1, the rest of the string
   is [LF], and neither table_cell nor table_cell_end matches anything there. *)
From Coq Require Import List NArith Arith Bool Lia Strings.String.
From V Require Import Base.Bytes Base.Res Model.Ast Model.Strings Model.Scan Model.Blocks Spec.EscapeSpec
  Proofs.BlocksProofs Proofs.BlocksCursor Proofs.BlocksTotal Proofs.BlocksTotal3Cur Proofs.BlocksTotal4Safe Proofs.BlocksTotal4Row
  Proofs.BlocksTotal6Row.
From V Require Proofs.StrLeafProofs.
Import ListNotations.
Local Open Scope string_scope.
Local Open Scope list_scope.

Definition hdr_sites : list string :=
  ["table.rs:try_opening_header:content.len() - 2";
   "table.rs:try_opening_header:content.len() - 2 - header_row.paragraph_offset"].

(* the string ends with LF *)
Definition lf_last (s : bytes) : Prop := exists p, s = p ++ [x0a].

Definition hinv (s : bytes) (off po : nat) (cells : list tcell) : Prop :=
  po + 2 <= List.length s \/ (cells = [] /\ po <= off).

Lemma lf_last_skipn s off : lf_last s -> S off = List.length s -> skipn off s = [x0a].
Proof.
  intros [p ->] H. rewrite app_length in H. cbn in H.
  rewrite skipn_app. replace (off - List.length p) with 0 by lia.
  rewrite skipn_all2 by lia. reflexivity.
Qed.

Lemma scan_cell_lf sp : or0 (scan_table_cell [x0a] sp) = 0.
Proof. destruct sp; vm_compute; reflexivity. Qed.
Lemma scan_cell_end_lf : or0 (scan_table_cell_end [x0a]) = 0.
Proof. vm_compute; reflexivity. Qed.

Lemma row_loop_hdr s sp : lf_last s -> forall fuel off po cells off' po' cells' ab,
  row_loop fuel s sp off po cells = Ok (off', po', cells', ab) ->
  hinv s off po cells ->
  po' + 2 <= List.length s \/ cells' = [].
Proof.
  intro LF.
  induction fuel as [|f IH]; intros off po cells off' po' cells' ab H Hi; cbn [row_loop] in H; [discriminate H|].
  destruct (Nat.ltb off (List.length s)) eqn:Lt; cbn [negb] in H;
    [|inversion H; subst; destruct Hi as [Hi|[Hi _]]; [left; exact Hi | right; exact Hi]].
  apply Nat.ltb_lt in Lt.
  set (cm := or0 (scan_table_cell (skipn off s) sp)) in *.
  unfold slice_from in H at 1.
  destruct (Nat.ltb (List.length s) (off + cm)) eqn:Lc; cbn [bind] in H; [discriminate H|]. apply Nat.ltb_ge in Lc.
  set (pm := or0 (scan_table_cell_end (skipn (off + cm) s))) in *.
  match type of H with bind ?r _ = _ => destruct r as [[cells1 abort]| |] eqn:R; cbn [bind] in H; try discriminate H end.
  assert (A1 : po + 2 <= List.length s \/ (cells1 = [] /\ po <= off)).
  { destruct (Nat.ltb 0 cm || Nat.ltb 0 pm) eqn:C; [|inversion R; subst; exact Hi].
    destruct Hi as [Hi|[Hc Hp]]; [left; exact Hi|].
    destruct (le_lt_dec (po + 2) (List.length s)) as [G|G]; [left; exact G|].
    exfalso. assert (E : S off = List.length s) by lia.
    pose proof (lf_last_skipn s off LF E) as Sk.
    assert (Z : cm = 0). { unfold cm. rewrite Sk. apply scan_cell_lf. }
    unfold pm in C. rewrite Z, Nat.add_0_r, Sk, scan_cell_end_lf in C. cbn in C. discriminate C. }
  destruct abort.
  { inversion H; subst. destruct A1 as [A|[A _]]; [left; exact A | right; exact A]. }
  destruct (Nat.ltb 0 pm) eqn:Pm.
  - eapply IH; [exact H|]. destruct A1 as [A|[A B]]; [left; exact A | right; split; [exact A | lia]].
  - unfold slice_from in H at 1.
    destruct (Nat.ltb (List.length s) (off + cm + pm)) eqn:L1; cbn [bind] in H; [discriminate H|]. apply Nat.ltb_ge in L1.
    set (re := or0 (scan_table_row_end (skipn (off + cm + pm) s))) in *.
    destruct (Nat.ltb 0 re && negb (Nat.eqb (off + cm + pm + re) (List.length s))) eqn:C2.
    + unfold slice_from in H at 1.
      destruct (Nat.ltb (List.length s) (off + cm + pm + re)) eqn:L2; cbn [bind] in H; [discriminate H|].
      eapply IH; [exact H|]. right. split; [reflexivity | lia].
    + inversion H; subst. destruct A1 as [A|[A _]]; [left; exact A | right; exact A].
Qed.

(* the fact about row *)
Theorem row_po_room s sp po cells :
  lf_last s -> row s sp = Ok (Some (po, cells)) -> po + 2 <= List.length s.
Proof.
  unfold row. intros LF H.
  destruct (row_loop _ s sp _ 0 []) as [[[[off po1] cells1] ab]| |] eqn:R; cbn [bind] in H; try discriminate H.
  destruct (negb (Nat.eqb off (List.length s))) eqn:E1; cbn [orb] in H; [discriminate H|].
  destruct (is_cons cells1) eqn:E2; cbn [negb orb] in H; [|discriminate H].
  destruct ab; [discriminate H|]. inversion H; subst.
  destruct (row_loop_hdr s sp LF _ _ _ _ _ _ _ _ R) as [G|G].
  - right. split; [reflexivity | lia].
  - exact G.
  - subst. discriminate E2.
Qed.

(* ================================================================== closure facts for the clause a future invariant
   needs on the Paragraphs that can be the container of try_opening_header: content = [] or lf_last content.
   lf_last is BlocksCursor.lf_terminated. *)
Lemma lf_last_terminated s : lf_last s <-> lf_terminated s.
Proof. unfold lf_last, lf_terminated. reflexivity. Qed.

Definition par_content_ok (s : bytes) : Prop := s = [] \/ lf_last s.

Lemma lf_last_app a b : lf_last b -> lf_last (a ++ b).
Proof. intros [p ->]. exists (a ++ p). now rewrite app_assoc. Qed.

Lemma lf_last_skipn_lt k s : lf_last s -> k < List.length s -> lf_last (skipn k s).
Proof.
  intros [p ->] H. rewrite app_length in H. cbn in H. exists (skipn k p).
  rewrite skipn_app. replace (k - List.length p) with 0 by lia. reflexivity.
Qed.

(* resolve_reference_link_definitions / finalize keep a suffix of the content *)
Lemma par_content_ok_skipn k s : par_content_ok s -> par_content_ok (skipn k s).
Proof.
  intros [->|H]; [left; now destruct k|].
  destruct (le_lt_dec (List.length s) k) as [L|L]; [left; now apply skipn_all2 | right; now apply lf_last_skipn_lt].
Qed.

(* add_line, the branch offset < |line|: whatever the content and the padding were, the new content ends with LF *)
Lemma par_content_add_line content pad line off :
  lf_last line -> off < List.length line -> lf_last ((content ++ pad) ++ skipn off line).
Proof. intros H L. apply lf_last_app. now apply lf_last_skipn_lt. Qed.

(* with par_content_ok the first site never fires either: row [] answers None *)
Lemma row_nil sp : row [] sp = Ok None.
Proof. destruct sp; vm_compute; reflexivity. Qed.

Theorem row_po_room_ok s sp po cells :
  par_content_ok s -> row s sp = Ok (Some (po, cells)) -> po + 2 <= List.length s.
Proof. intros [->|H] R; [rewrite row_nil in R; discriminate R | eapply row_po_room; eassumption]. Qed.
