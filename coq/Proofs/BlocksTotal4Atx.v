(* Proofs/BlocksTotal4Atx.v — the one tree fact the cursor walk needs: the node add_child creates is the node its
   identifier denotes afterwards (identifiers are pairwise distinct and below ps_next: W), so the Heading that
   handle_atx_heading opens accepts lines and the loop of open_new_blocks stops on it — this matters because
   atx_heading_start may consume the final LF, after which no look-ahead byte exists. *)
From Coq Require Import List NArith Arith Bool Lia Strings.String.
From V Require Import Base.Bytes Base.Res Gen.Nodes Model.Ast Model.Strings Model.Feed Model.FrontMatter Model.RefDef
  Model.Scan Model.Blocks Spec.Shape Spec.Valid Proofs.BlocksProofs Proofs.BlocksCursor Proofs.BlocksTight
  Proofs.ParserShapeBlocks Proofs.ParserShapeTree Proofs.ParserShapeTabPrim Proofs.ParserShapeTables
  Proofs.BlocksTotal Proofs.BlocksTotal2Safe Proofs.BlocksTotal2Root Proofs.BlocksTotal2Tree Proofs.BlocksTotal2Walk.
From V Require Proofs.BlocksTotal3Tab Proofs.BlocksTotal4Scan.
Import ListNotations.
Local Open Scope string_scope.
Local Open Scope list_scope.

Lemma add_child_gen_get o st parent v col post id st' :
  add_child_gen o st parent v col post [] = Ok (id, st') -> W o st -> W o st' -> has st parent ->
  (forall i, bi_id (post i) = bi_id i) ->
  exists l, get st' id = Ok (BNode (post (new_info id v l col)) []).
Proof.
  unfold add_child_gen. intros H V V' Hp Hpost.
  match type of H with bind ?r _ = _ => destruct r as [[p' s1]| |] eqn:E; cbn [bind] in H; try discriminate H end.
  destruct (add_child_loop_post _ _ _ _ _ _ _ E V Hp) as (V1 & H1 & L & Sm).
  mon H. rename E1 into A. unfold append_child, modify in A.
  match type of A with match upd ?a ?b ?c with _ => _ end = _ => destruct (upd a b c) as [r|] eqn:U; [|discriminate A] end.
  inversion A; subst. clear A. cbn [ps_root ps_next ps_current ps_line_number st_root st_next] in *.
  set (nd := BNode (post (new_info (ps_next s1) v (ps_line_number s1) col)) []) in *.
  destruct (has_get _ _ H1) as [pn Gp]. apply get_find in Gp.
  match type of U with upd _ ?ff _ = _ => set (f := ff) in * end.
  assert (Fp : find_node p' r = Some (f pn)).
  { eapply upd_find; [exact U | exact Gp |]. destruct (find_node_sub _ _ _ Gp) as [Bp _]. destruct pn as [i ch].
    unfold bid in *. cbn [f binf] in *. rewrite Bp. apply Nat.eqb_refl. }
  assert (Hn : In nd (bsub r)).
  { destruct (find_node_sub _ _ _ Fp) as [_ Hs]. eapply bsub_kid_of; [exact Hs|]. destruct pn as [i ch]. cbn [f bkids].
    apply in_or_app. right. now left. }
  assert (Bn : bid nd = ps_next s1) by (unfold bid, nd; cbn [binf]; rewrite Hpost; reflexivity).
  assert (Fn : find_node (ps_next s1) r = Some nd).
  { rewrite <- Bn. apply find_node_unique; [|exact Hn]. exact (W_uq _ _ V'). }
  exists (ps_line_number s1). unfold get. cbn [ps_root st_root]. rewrite Fn. reflexivity.
Qed.

(* the heading handle_atx_heading has just opened accepts lines *)
Lemma handle_atx_eol o lmc cur0 st c line ind id st' :
  J o lmc cur0 st c -> handle_atx_heading o st c line ind = Ok (true, id, st') ->
  forall n, get st' id = Ok n -> accepts_lines (bkind n) = true.
Proof.
  intros Jc H n G.
  pose proof (handle_atx_spec o lmc cur0 st c line ind Jc) as S. rewrite H in S. cbn [safe HJ fst snd] in S.
  destruct S as (V' & _). destruct Jc as (V & Hc & _).
  unfold handle_atx_heading, rest_at_fns, not_handled in H. mon H. cbn [fst snd] in *. destruct a3 as [id s2]. cbn [fst snd] in *.
  match goal with A : adv st line _ false = Ok ?s1, B : add_child_gen o ?s1 c _ _ _ [] = Ok _ |- _ =>
    pose proof (adv_eqtree _ _ _ _ _ A) as T;
    destruct (add_child_gen_get _ _ _ _ _ _ _ _ B (W_eqtree _ _ _ T V) V' (has_eqtree _ _ _ T Hc) (fun i => eq_refl)) as [l Gn] end.
  rewrite Gn in G. inversion G; subst n. reflexivity.
Qed.
