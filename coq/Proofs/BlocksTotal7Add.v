(* Proofs/BlocksTotal7Add.v — totality of the block phase, seventh round, walk 1: the site

     mod.rs:add_child:self.finalize(parent).unwrap()

   al7 = but add_sites.  add_child walks up from `parent`, finalizing, until a node accepts the kind of the new node;
   finalize answers the parent computed BEFORE it closes the node, so None means that `parent` has no parent, i.e. it
   is the root (Proofs/BlocksTotal2Tree.v parent_some: no uniqueness needed), and the root is a Document (NI, the
   first clause of the shape invariant TI of Proofs/ParserShapeTables.v, an Ok-path invariant of every function).
   The Document accepts every kind add_child is called with except Item, DescriptionItem, DescriptionTerm and
   DescriptionDetails; those four are added under a node that accepts them AT ONCE (the loop does not even start):
   the List handle_list has matched or just created, the DescriptionList reopened or just created, the parent of a
   DescriptionItem (containment SV + pairwise distinct identifiers UQ), the DescriptionItem just created.  "The node
   add_child has just created is the node its identifier denotes" needs UQ of the RESULT state only
   (add_child_gen_new), which the Ok-path lemmas of TI give.
   The walk itself is the `only` walk of Proofs/BlocksTotal5Only.v with the new allowed set: only add_child_loop, its
   callers and the chain up to parse_blocks carry the invariant (TI o [] and SV between handlers). *)
From Coq Require Import List NArith Arith Bool Lia Strings.String.
From V Require Import Base.Bytes Base.Res Gen.Nodes Gen.BlocksConst Gen.FeedConst Model.Ast Model.Strings Model.Entity Model.LinkUrl Model.ListMarker
  Model.Feed Model.FrontMatter Model.RefDef Model.Scan Model.Blocks Spec.EscapeSpec Spec.Shape Spec.Valid
  Proofs.StrLeafProofs Proofs.StrLeafEntity Proofs.StrLeafParse Proofs.BlocksProofs Proofs.BlocksCursor Proofs.BlocksTight Proofs.BlocksTotal
  Proofs.ParserShapeBlocks Proofs.ParserShapeTree Proofs.ParserShapeTabPrim Proofs.ParserShapeTables
  Proofs.BlocksTotal2Safe Proofs.BlocksTotal3Cur Proofs.BlocksTotal4Safe Proofs.BlocksTotal4Frame.
From V Require Proofs.BlocksTotal4Row Proofs.BlocksTotal4Scan Proofs.BlocksTotal4Fuel Proofs.BlocksTotal2Tree Proofs.BlocksTotal4Spine.
Import ListNotations.
Local Open Scope string_scope.
Local Open Scope list_scope.

Definition add_sites : list string := [ "mod.rs:add_child:self.finalize(parent).unwrap()" ].

Definition al7 : string -> bool := but add_sites.
Notation ng7 := (ng al7 true).

Ltac allowed := vm_compute; reflexivity.

Create HintDb ng7.

Ltac ngstep :=
  match goal with
  | |- ng _ _ (bind ?r _) => apply ng_bind; [ try solve [auto with ng7] | intros ]
  | |- ng _ _ (Ok _) => exact I
  | |- ng _ _ OutOfFuel => reflexivity
  | |- ng _ _ (Panic _) => first [assumption | allowed]
  | |- ng _ _ no_node => allowed
  | |- ng _ _ (not_handled _ _) => exact I
  | |- ng _ _ (res_map _ _) => apply ng_res_map
  | |- ng _ _ (if ?b then _ else _) => destruct b
  | |- ng _ _ (match ?x with _ => _ end) => destruct x
  | |- ng _ _ (let (_, _) := ?x in _) => destruct x
  end.
Ltac nggo := repeat ngstep; auto with ng7.

Lemma ng7_idx site l i : al7 site = true -> ng7 (idx site l i).
Proof. intro H. apply ng_idx. now right. Qed.
Lemma ng7_sub site a b : al7 site = true -> ng7 (sub site a b).
Proof. intro H. apply ng_sub. now right. Qed.
Lemma ng7_slice_from site l i : al7 site = true -> ng7 (Blocks.slice_from site l i).
Proof. intro H. apply ng_slice_from. now right. Qed.
Lemma ng7_from_utf8 site b : al7 site = true -> ng7 (from_utf8 site b).
Proof. intro H. apply ng_from_utf8. now right. Qed.
#[export] Hint Extern 1 (ng _ _ (idx _ _ _)) => (apply ng7_idx; first [assumption | allowed]) : ng7.
#[export] Hint Extern 1 (ng _ _ (sub _ _ _)) => (apply ng7_sub; first [assumption | allowed]) : ng7.
#[export] Hint Extern 1 (ng _ _ (Blocks.slice_from _ _ _)) => (apply ng7_slice_from; first [assumption | allowed]) : ng7.
#[export] Hint Extern 1 (ng _ _ (from_utf8 _ _)) => (apply ng7_from_utf8; first [assumption | allowed]) : ng7.

(* ---- leaf functions: total for all arguments *)
Lemma ng7_trim s : ng7 (Strings.trim s). Proof. rewrite trim_ok. exact I. Qed.
Lemma ng7_rtrim s : ng7 (Strings.rtrim s). Proof. rewrite rtrim_ok. exact I. Qed.
Lemma ng7_unescape s : ng7 (Strings.unescape s). Proof. rewrite unescape_is_spec. exact I. Qed.
Lemma ng7_unescape_html s : ng7 (unescape_html s). Proof. apply ng_ex. apply unescape_html_total. Qed.
Lemma ng7_manual_scan_link_url s : ng7 (manual_scan_link_url s).
Proof. apply ng_ex. destruct (manual_scan_link_url_total s) as [r [E _]]. exists r. exact E. Qed.
Lemma ng7_row s sp : ng7 (row s sp). Proof. apply ng_ex. apply BlocksTotal4Row.row_total. Qed.
Lemma ng7_table_matches s sp : ng7 (table_matches s sp). Proof. apply ng_ex. apply BlocksTotal4Row.table_matches_total. Qed.
#[export] Hint Resolve ng7_trim ng7_rtrim ng7_unescape ng7_unescape_html ng7_manual_scan_link_url ng7_row ng7_table_matches : ng7.

(* ---- leaf functions with sites of their own *)
Lemma ng7_remove_trailing_blank_lines s : ng7 (remove_trailing_blank_lines s).
Proof. unfold remove_trailing_blank_lines. nggo. Qed.
Lemma ng7_chop_trailing_hashtags s : ng7 (chop_trailing_hashtags s).
Proof. unfold chop_trailing_hashtags. nggo. Qed.
Lemma ng7_clean_url s : ng7 (clean_url s). Proof. unfold clean_url. nggo. Qed.
(* clean_title panics on a title of length 1 only (Props/StrLeaf.v); its one caller hands it a scan_link_title match *)
Lemma ng7_clean_title s : List.length s <> 1 -> ng7 (clean_title s).
Proof. intro H. apply ng_ex. now apply clean_title_total. Qed.
#[export] Hint Resolve ng7_remove_trailing_blank_lines ng7_chop_trailing_hashtags ng7_clean_url : ng7.
Lemma scan_link_title_ge s m : scan_link_title s = Some m -> 2 <= m.
Proof. BlocksTotal4Scan.scan_ge. Qed.
Lemma scan_link_title_le s m : scan_link_title s = Some m -> m <= List.length s.
Proof. intro H. eapply as_opt_usize_cursor_le; [|exact H]. vm_compute. reflexivity. Qed.
(* line_at: bytes[end..] is inside the string as long as the start is; split_off_front_matter starts at 0 and goes on
   from the `next` of the line before *)
Lemma sg7_fm_line_at s k : k <= List.length s -> sg al7 true (fun r => snd r <= List.length s) (fm_line_at s k).
Proof.
  intro H. unfold fm_line_at. pose proof (BlocksTotal4Fuel.scan_line_end_bounds (skipn k s) k) as B. rewrite skipn_length in B.
  set (e := scan_line_end (skipn k s) k) in *. unfold byte_slice_from.
  destruct (Nat.leb e (List.length s)) eqn:L; [|apply Nat.leb_gt in L; lia]. apply Nat.leb_le in L. cbn [bind].
  unfold fm_slice. destruct (_ && _ && _); [cbn [bind sg snd] | allowed].
  destruct (starts_with (skipn e s) fm_crlf) eqn:Sw.
  - apply starts_with_app in Sw. destruct Sw as [r Er]. apply (f_equal (@List.length byte)) in Er.
    rewrite skipn_length, app_length in Er. change (List.length fm_crlf) with 2 in Er. lia.
  - destruct (Nat.ltb e (List.length s)) eqn:Lt; [apply Nat.ltb_lt in Lt; lia | lia].
Qed.
Lemma sg7_find_closing_line : forall fuel s d e, e <= List.length s ->
  sg al7 true (fun c => match c with Some e' => e' <= List.length s | None => True end) (find_closing_line fuel s d e).
Proof.
  induction fuel as [|f IH]; intros s d e H; cbn [find_closing_line]; [reflexivity|].
  destruct (Nat.eqb e (List.length s)); [exact I|].
  eapply sg_bind; [now apply sg7_fm_line_at|]. intros ln _ Hn.
  destruct (bytes_eqb (fst ln) d); [exact Hn | now apply IH].
Qed.
Lemma ng7_split_off_front_matter s d : ng7 (split_off_front_matter s d).
Proof.
  unfold split_off_front_matter, slice_to, FrontMatter.slice_from.
  eapply sg_bind; [apply sg7_fm_line_at; lia|]. intros l0 _ H0.
  destruct (_ || _); [exact I|].
  eapply sg_bind; [now apply sg7_find_closing_line|]. intros [e|] _ He; [|exact I].
  eapply sg_bind; [now apply sg7_fm_line_at|]. intros l1 _ _. cbv zeta. match goal with |- sg ?a ?f _ ?r => change (ng a f r) end. nggo.
Qed.
#[export] Hint Resolve ng7_split_off_front_matter : ng7.
Lemma ng7_peek s p : ng7 (peek s p). Proof. unfold peek. nggo. Qed.
#[export] Hint Resolve ng7_peek : ng7.
Lemma ng7_skip_spaces : forall s, ng7 (skip_spaces s).
Proof. induction s as [|c r IH]; cbn [skip_spaces]; nggo. Qed.
#[export] Hint Resolve ng7_skip_spaces : ng7.
Lemma ng7_skip_line_end s p : ng7 (skip_line_end s p). Proof. unfold skip_line_end. nggo. Qed.
#[export] Hint Resolve ng7_skip_line_end : ng7.
Lemma ng7_spnl s p : ng7 (spnl s p). Proof. unfold spnl. nggo. Qed.
#[export] Hint Resolve ng7_spnl : ng7.
Lemma ng7_label_loop : forall fuel s pos len c, ng7 (label_loop fuel s pos len c).
Proof. induction fuel as [|f IH]; intros s pos len c; cbn [label_loop]; nggo. Qed.
#[export] Hint Resolve ng7_label_loop : ng7.
Lemma ng7_link_label s : ng7 (link_label s). Proof. unfold link_label. nggo. Qed.
#[export] Hint Resolve ng7_link_label : ng7.
Lemma ng7_parse_reference_inline fold m s : ng7 (parse_reference_inline fold m s).
Proof.
  unfold parse_reference_inline.
  apply ng_bind; [auto with ng7|]. intros [[lab pos]|] _; [|exact I]. destruct lab as [|l0 lab]; [exact I|].
  apply ng_bind; [auto with ng7|]. intros [c|] _; [|exact I]. destruct (negb (beqb c x3a)); [exact I|]. cbv zeta.
  apply ng_bind; [auto with ng7|]. intros pos1 _.
  apply ng_bind; [auto with ng7|]. intros [[url matchlen]|] _; [|exact I].
  apply ng_bind; [auto with ng7|]. intros pos2 _.
  match goal with |- ng _ _ (let '(title, pos) := ?tp in _) =>
    assert (HT : List.length (fst tp) <> 1); [|destruct tp as [title pos3]; cbn [fst] in HT] end.
  { destruct (Nat.eqb pos2 (pos1 + matchlen)); [cbn; lia|].
    destruct (scan_link_title (skipn pos2 s)) as [ml|] eqn:Sc; [|cbn; lia].
    pose proof (scan_link_title_ge _ _ Sc). pose proof (scan_link_title_le _ _ Sc). cbn [fst]. rewrite firstn_length. lia. }
  apply ng_bind; [auto with ng7|]. intros n _.
  apply ng_bind; [auto with ng7|]. intros [p1 ok] _.
  eapply sg_bind with (P := fun fin : option (nat * bytes) => match fin with Some (_, t) => List.length t <> 1 | None => True end).
  { destruct ok; [exact HT|]. destruct title; [exact I|].
    apply sgb; [auto with ng7|]. intros n2 _. apply sgb; [auto with ng7|]. intros [p2 ok2] _.
    destruct ok2; cbn [sg List.length]; [lia | exact I]. }
  intros [[posf t]|] _ Hf; [|exact I].
  destruct (normalize_label fold (l0 :: lab) true); [exact I|].
  apply ng_bind; [auto with ng7|]. intros cu _.
  apply ng_bind; [now apply ng7_clean_title|]. intros ct _. nggo.
Qed.
#[export] Hint Resolve ng7_parse_reference_inline : ng7.
Lemma ng7_resolve_loop fold : forall fuel m seek seeked, ng7 (resolve_loop fuel fold m seek seeked).
Proof. induction fuel as [|f IH]; intros m seek seeked; cbn [resolve_loop]; nggo. Qed.
#[export] Hint Resolve ng7_resolve_loop : ng7.
Lemma ng7_resolve_refdefs fold m c : ng7 (resolve_refdefs fold m c).
Proof. unfold resolve_refdefs. nggo. Qed.
#[export] Hint Resolve ng7_resolve_refdefs : ng7.
Lemma ng7_copy_line_offsets : forall n lo k, ng7 (copy_line_offsets n lo k).
Proof. induction n as [|m IH]; intros lo k; cbn [copy_line_offsets]; nggo. Qed.
Lemma ng7_header_cells : forall cells id ln sl sc po, ng7 (header_cells cells id ln sl sc po).
Proof. induction cells as [|c r IH]; intros; cbn [header_cells]; nggo. Qed.
Lemma ng7_row_cells : forall n cells id ln sc lc, ng7 (row_cells n cells id ln sc lc).
Proof. induction n as [|m IH]; intros cells id ln sc lc; destruct cells; cbn [row_cells]; nggo. Qed.
#[export] Hint Resolve ng7_copy_line_offsets ng7_header_cells ng7_row_cells : ng7.
Lemma ng7_parse_html_block_prefix st t : ng7 (parse_html_block_prefix st t).
Proof. unfold parse_html_block_prefix. nggo. Qed.
#[export] Hint Resolve ng7_parse_html_block_prefix : ng7.
Lemma ng7_after_spaces : forall s, ng7 (after_spaces s).
Proof. induction s as [|b r IH]; cbn [after_spaces]; nggo. Qed.
Lemma ng7_digits_loop : forall left s start digits, ng7 (digits_loop left s start digits).
Proof.
  induction left as [|l IH]; intros s start digits; destruct s as [|d r]; cbn [digits_loop]; try allowed.
  - destruct (N.ltb _ _); [allowed | exact I].
  - destruct (N.ltb _ _); [allowed|]. destruct l; [exact I|]. destruct r as [|e r']; [allowed|].
    destruct (StrLeafGen.sl_isdigit e); [apply IH | exact I].
Qed.
#[export] Hint Resolve ng7_after_spaces ng7_digits_loop : ng7.
Lemma ng7_parse_list_marker line pos ip : ng7 (parse_list_marker line pos ip).
Proof. unfold parse_list_marker. nggo. Qed.
#[export] Hint Resolve ng7_parse_list_marker : ng7.
Lemma ng7_alert_title_loop line : forall fuel pos fl, ng7 (alert_title_loop fuel line pos fl).
Proof. induction fuel as [|f IH]; intros pos fl; cbn [alert_title_loop]; nggo. Qed.
Lemma ng7_count_hashes : forall s, ng7 (count_hashes s).
Proof. induction s as [|b r IH]; cbn [count_hashes]; nggo. Qed.
#[export] Hint Resolve ng7_alert_title_loop ng7_count_hashes : ng7.

(* ---- the cursor *)
Lemma ng7_find_first_nonspace c line : ng7 (find_first_nonspace c line).
Proof. unfold find_first_nonspace. destruct (if Nat.leb _ _ then _ else _) as [f fc]. nggo. Qed.
Lemma ng7_advance_loop line columns : forall fuel off col pct count, ng7 (advance_loop fuel line off col pct count columns).
Proof. induction fuel as [|f IH]; intros off col pct count; destruct count; cbn [advance_loop]; nggo. Qed.
#[export] Hint Resolve ng7_find_first_nonspace ng7_advance_loop : ng7.
Lemma ng7_advance_offset c line count columns : ng7 (advance_offset c line count columns).
Proof. unfold advance_offset. nggo. Qed.
#[export] Hint Resolve ng7_advance_offset : ng7.
Lemma ng7_adv st line n b : ng7 (adv st line n b). Proof. unfold adv. nggo. Qed.
Lemma ng7_ffn st line : ng7 (ffn st line). Proof. unfold ffn. nggo. Qed.
#[export] Hint Resolve ng7_adv ng7_ffn : ng7.
Lemma ng7_skip_one_space st line site : al7 site = true -> ng7 (skip_one_space st line site).
Proof. intro H. unfold skip_one_space. nggo. Qed.
Lemma ng7_skip_fence_offset line site : al7 site = true -> forall i st, ng7 (skip_fence_offset i st line site).
Proof. intro H. induction i as [|j IH]; intro st; cbn [skip_fence_offset]; nggo. Qed.
Lemma ng7_list_spaces_loop line sc : forall fuel st, ng7 (list_spaces_loop fuel st line sc).
Proof. induction fuel as [|f IH]; intro st; cbn [list_spaces_loop]; nggo. Qed.
#[export] Hint Resolve ng7_list_spaces_loop : ng7.
#[export] Hint Extern 1 (ng _ _ (skip_one_space _ _ _)) => (apply ng7_skip_one_space; first [assumption | allowed]) : ng7.
#[export] Hint Extern 1 (ng _ _ (skip_fence_offset _ _ _ _)) => (apply ng7_skip_fence_offset; first [assumption | allowed]) : ng7.

(* ---- tree primitives *)
Lemma ng7_get st x : ng7 (get st x).
Proof. unfold get. destruct (find_node x (ps_root st)); [exact I | allowed]. Qed.
Lemma ng7_modify st x f : ng7 (modify st x f).
Proof. unfold modify. destruct (upd x f (ps_root st)); [exact I | allowed]. Qed.
Lemma ng7_modify_info st x f : ng7 (modify_info st x f).
Proof. apply ng7_modify. Qed.
Lemma ng7_bdetach st x : ng7 (bdetach st x).
Proof. unfold bdetach. destruct (edit_kids _ _ _); exact I. Qed.
Lemma ng7_retighten st p : ng7 (retighten st p).
Proof. apply ng_ex. apply retighten_total. Qed.
#[export] Hint Resolve ng7_get ng7_modify ng7_modify_info ng7_bdetach ng7_retighten : ng7.
Lemma ng7_append_child st p c : ng7 (append_child st p c).
Proof. apply ng7_modify. Qed.
Lemma ng7_last_child st x : ng7 (last_child st x). Proof. unfold last_child. nggo. Qed.
#[export] Hint Resolve ng7_append_child ng7_last_child : ng7.
Lemma ng7_last_child_is_open st x : ng7 (last_child_is_open st x).
Proof. unfold last_child_is_open. nggo. Qed.
#[export] Hint Resolve ng7_last_child_is_open : ng7.
Lemma ng7_finalize o st id : ng7 (finalize o st id).
Proof. unfold finalize. nggo. Qed.
#[export] Hint Resolve ng7_finalize : ng7.
Lemma ng7_unwrap_parent site o st id : al7 site = true -> ng7 (unwrap_parent site (finalize o st id)).
Proof. intro H. unfold unwrap_parent. nggo. Qed.
#[export] Hint Extern 1 (ng _ _ (unwrap_parent _ _)) => (apply ng7_unwrap_parent; first [assumption | allowed]) : ng7.

(* ================================================================== add_child: the tree facts *)
(* finalize answers the parent the node had before *)
Lemma finalize_parent o st id p st' : finalize o st id = Ok (p, st') -> p = parent_of id (ps_root st).
Proof.
  unfold finalize. intro H. destruct (get st id) as [n| |]; cbn [bind] in H; try discriminate H.
  destruct (negb (bi_open (binf n))); [discriminate H|]. mstep H.
  destruct (bi_val (binf n)); mon H; reflexivity.
Qed.

(* a node without a parent is the root *)
Lemma no_parent_root st id n : get st id = Ok n -> parent_of id (ps_root st) = None -> n = ps_root st.
Proof.
  intros G P. apply get_find in G. destruct (find_node_sub _ _ _ G) as [B S].
  destruct (Nat.eq_dec id (bid (ps_root st))) as [E|E].
  - rewrite E in G. clear E B S. destruct (ps_root st) as [i ch]. unfold bid in G. cbn [binf find_node] in G.
    rewrite Nat.eqb_refl in G. now inversion G.
  - exfalso. apply (BlocksTotal2Tree.parent_some (ps_root st) id); [|exact E | exact P].
    apply bsub_cnt in S. rewrite B in S. now apply cnt_in.
Qed.

(* the node add_child_gen has created is the node its identifier denotes (identifiers of the RESULT pairwise distinct) *)
Lemma add_child_gen_new o ex st parent v col post kids id st' :
  add_child_gen o st parent v col post kids = Ok (id, st') -> TI o ex st' ->
  (forall i, bi_open (post i) = bi_open i) -> (forall i, bi_id (post i) = bi_id i) ->
  exists new l, get st' id = Ok new /\ binf new = post (new_info id v l col).
Proof.
  intros H T Ho Hi.
  destruct (BlocksTotal4Spine.add_child_gen_last_open _ _ _ _ _ _ _ _ _ H Ho) as (p' & st1 & pn & new & L & F1 & F2 & Bn & Kn & _ & Ei).
  exists new, (ps_line_number st1). split; [|exact Bn].
  assert (Hn : In new (bsub (ps_root st'))).
  { destruct (find_node_sub _ _ _ F2) as [_ Hs]. eapply bsub_kid_of; [exact Hs|]. cbn [bkids]. apply in_or_app. right. now left. }
  assert (Bi : bid new = id) by (unfold bid; rewrite Bn, Hi; reflexivity).
  unfold get. rewrite <- Bi. rewrite (find_node_unique _ _ (TI_distinct _ _ _ T) Hn). reflexivity.
Qed.

Lemma add_child_new_kind o ex st parent v col id st' :
  add_child o st parent v col = Ok (id, st') -> TI o ex st' -> forall p, get st' id = Ok p -> bkind p = kind_of v.
Proof.
  unfold add_child. intros H T p G.
  destruct (add_child_gen_new _ _ _ _ _ _ _ _ _ _ H T (fun _ => eq_refl) (fun _ => eq_refl)) as (new & l & G' & B).
  rewrite G' in G. inversion G; subst p. unfold bkind, bval. rewrite B. reflexivity.
Qed.

(* ================================================================== add_child: the walk *)
Lemma ng7_add_child_loop_doc o k : can_contain KDocument k = true ->
  forall fuel st parent, NI o st -> ng7 (add_child_loop fuel o st parent k).
Proof.
  intro C. induction fuel as [|f IH]; intros st parent V; cbn [add_child_loop]; [reflexivity|].
  apply ng_bind; [auto with ng7|]. intros p G.
  destruct (can_contain (bkind p) k) eqn:Cp; [exact I|].
  apply ng_bind.
  - unfold unwrap_parent. apply ng_bind; [auto with ng7|]. intros [po s1] F. cbn [fst snd].
    destruct po; [exact I|]. exfalso. apply finalize_parent in F. symmetry in F.
    pose proof (no_parent_root _ _ _ G F). subst p. destruct V as [Vd _]. unfold bkind in Cp. rewrite Vd in Cp.
    cbn [kind_of] in Cp. congruence.
  - intros [q s1] U. cbn [fst snd]. apply IH. eapply unwrap_parent_fin_NI; eassumption.
Qed.

Lemma ng7_add_child_loop_acc o k fuel st parent K :
  (forall p, get st parent = Ok p -> bkind p = K) -> can_contain K k = true -> ng7 (add_child_loop fuel o st parent k).
Proof.
  intros Kp C. destruct fuel as [|f]; cbn [add_child_loop]; [reflexivity|].
  apply ng_bind; [auto with ng7|]. intros p G. rewrite (Kp p G), C. exact I.
Qed.

Lemma ng7_add_child_gen_doc o st parent v col post kids : NI o st -> can_contain KDocument (kind_of v) = true ->
  ng7 (add_child_gen o st parent v col post kids).
Proof. intros V C. unfold add_child_gen. apply ng_bind; [now apply ng7_add_child_loop_doc|]. intros [p1 s1] _. nggo. Qed.
Lemma ng7_add_child_doc o st parent v col : NI o st -> can_contain KDocument (kind_of v) = true -> ng7 (add_child o st parent v col).
Proof. apply ng7_add_child_gen_doc. Qed.
Lemma ng7_add_child_gen_acc o st parent v col post kids K :
  (forall p, get st parent = Ok p -> bkind p = K) -> can_contain K (kind_of v) = true ->
  ng7 (add_child_gen o st parent v col post kids).
Proof. intros Kp C. unfold add_child_gen. apply ng_bind; [eapply ng7_add_child_loop_acc; eassumption|]. intros [p1 s1] _. nggo. Qed.
Lemma ng7_add_child_acc o st parent v col K :
  (forall p, get st parent = Ok p -> bkind p = K) -> can_contain K (kind_of v) = true -> ng7 (add_child o st parent v col).
Proof. apply ng7_add_child_gen_acc. Qed.

Ltac ni := solve [monall; repeat match goal with p : (_ * _)%type |- _ => destruct p end; cbn [fst snd] in *; eauto 12 with ni].
#[export] Hint Extern 2 (ng _ _ (add_child _ _ _ _ _)) => (apply ng7_add_child_doc; [ni | reflexivity]) : ng7.
#[export] Hint Extern 2 (ng _ _ (add_child_gen _ _ _ _ _ _ _)) => (apply ng7_add_child_gen_doc; [ni | reflexivity]) : ng7.
Lemma ng7_clear_llb_up : forall fuel st id, ng7 (clear_llb_up fuel st id).
Proof. induction fuel as [|f IH]; intros st id; cbn [clear_llb_up]; nggo. Qed.
Lemma ng7_finalize_up_to o target site : al7 site = true -> forall fuel st, ng7 (finalize_up_to fuel o st target site).
Proof. intro H. induction fuel as [|f IH]; intros st; cbn [finalize_up_to]; nggo. Qed.
Lemma ng7_reopen : forall fuel st id, ng7 (reopen_ast_nodes fuel st id).
Proof. induction fuel as [|f IH]; intros st id; cbn [reopen_ast_nodes]; nggo. Qed.
#[export] Hint Resolve ng7_clear_llb_up ng7_reopen : ng7.
#[export] Hint Extern 1 (ng _ _ (finalize_up_to _ _ _ _ _)) => (apply ng7_finalize_up_to; first [assumption | allowed]) : ng7.

(* parse_desc_list_details: every kind it adds is accepted by the Document *)
Lemma ng7_parse_desc_list_details o st c m : NI o st -> ng7 (parse_desc_list_details o st c m).
Proof.
  intro V. unfold parse_desc_list_details. cbv zeta.
  apply ng_bind; [auto with ng7|]. intros cn G.
  apply ng_bind; [nggo|]. intros r R. destruct r as [[[tight c1] lc]|]; [|exact I].
  assert (Vlc : ball o lc = true).
  { pose proof (get_ball _ _ _ _ V G) as Vc.
    destruct (last_opt (bkids cn)) eqn:L.
    - inversion R; subst. eapply last_kid_ball; eassumption.
    - mon R. eapply last_kid_ball; [eapply get_ball; [exact V | eassumption] | eassumption]. }
  clear R. destruct (bval lc) eqn:Bl; try exact I.
  - (* DescriptionItem *) nggo.
  - (* Paragraph *)
    apply ng_bind; [auto with ng7|]. intros st1 D. assert (V1 : NI o st1) by ni.
    apply ng_bind; [auto with ng7|]. intros c1' G1'.
    apply ng_bind; [destruct (last_opt (bkids c1')) as [l2|]; [destruct (bval l2)|]; nggo|].
    intros [list st2] E2.
    assert (V2 : NI o st2) by (destruct (last_opt (bkids c1')) as [l2|]; [destruct (bval l2)|]; ni).
    apply ng_bind; [auto with ng7|]. intros [item st3] E3. assert (V3 : NI o st3) by ni.
    apply ng_bind; [auto with ng7|]. intros st4 E4. assert (V4 : NI o st4) by ni.
    apply ng_bind; [auto with ng7|]. intros [term st5] E5.
    assert (V5 : NI o st5).
    { eapply add_child_gen_NI; [exact E5 | exact V4 | intros; reflexivity | apply forallb_cons; split; [exact Vlc | reflexivity]]. }
    apply ng_bind; [auto with ng7|]. intros [details st6] _. exact I.
Qed.
#[export] Hint Extern 2 (ng _ _ (parse_desc_list_details _ _ _ _)) => (apply ng7_parse_desc_list_details; ni) : ng7.
Lemma ng7_try_inserting st c po : ng7 (try_inserting_table_header_paragraph st c po).
Proof. unfold try_inserting_table_header_paragraph. nggo. Qed.
#[export] Hint Resolve ng7_try_inserting : ng7.
Lemma ng7_add_line st id line : ng7 (add_line st id line).
Proof. unfold add_line. nggo. Qed.
#[export] Hint Resolve ng7_add_line : ng7.

(* ---- check_open_blocks *)
Lemma ng7_is_not_greentext o st line : ng7 (is_not_greentext o st line).
Proof. unfold is_not_greentext. nggo. Qed.
#[export] Hint Resolve ng7_is_not_greentext : ng7.
Lemma ng7_pbq o st line : ng7 (parse_block_quote_prefix o st line).
Proof. unfold parse_block_quote_prefix. nggo. Qed.
Lemma ng7_pfn st line : ng7 (parse_footnote_definition_block_prefix st line).
Proof. unfold parse_footnote_definition_block_prefix. nggo. Qed.
Lemma ng7_pip st line c mo pad : ng7 (parse_item_prefix st line c mo pad).
Proof. unfold parse_item_prefix. nggo. Qed.
#[export] Hint Resolve ng7_pbq ng7_pfn ng7_pip : ng7.
Lemma ng7_pcbp o st line cid cb : ng7 (parse_code_block_prefix o st line cid cb).
Proof. unfold parse_code_block_prefix. nggo. Qed.
Lemma ng7_pmbq o st line cid fl fo : ng7 (parse_multiline_block_quote_prefix o st line cid fl fo).
Proof. unfold parse_multiline_block_quote_prefix. nggo. Qed.
#[export] Hint Resolve ng7_pcbp ng7_pmbq : ng7.
Lemma ng7_check_container o st line c : ng7 (check_container o st line c).
Proof. unfold check_container. destruct (bval c); nggo. Qed.
#[export] Hint Resolve ng7_check_container : ng7.
Lemma ng7_cobi o line : forall fuel st c, ng7 (check_open_blocks_inner fuel o st line c).
Proof. induction fuel as [|f IH]; intros st c; cbn [check_open_blocks_inner]; nggo. Qed.
#[export] Hint Resolve ng7_cobi : ng7.
Lemma ng7_check_open_blocks o st line : ng7 (check_open_blocks o st line).
Proof. unfold check_open_blocks. nggo. Qed.
#[export] Hint Resolve ng7_check_open_blocks : ng7.

(* ---- open_new_blocks *)
Lemma ng7_try_opening_header o st c line : ng7 (try_opening_header o st c line).
Proof. unfold try_opening_header. nggo. Qed.
Lemma ng7_try_opening_row o st c t line : ng7 (try_opening_row o st c t line).
Proof. unfold try_opening_row. nggo. Qed.
Lemma ng7_try_opening_block o st c line : ng7 (try_opening_block o st c line).
Proof.
  unfold try_opening_block. apply ng_bind; [auto with ng7|]. intros cn _.
  destruct (bval cn); try exact I; [apply ng7_try_opening_header | apply ng7_try_opening_row].
Qed.
#[export] Hint Resolve ng7_try_opening_block : ng7.


Section Handlers.
Variables (o : bopts) (line : bytes).
Lemma ng7_handle_alert st c ind : NI o st -> ng7 (handle_alert o st c line ind).
Proof. intro V. unfold handle_alert. nggo. Qed.
Lemma ng7_handle_mbq st c ind : NI o st -> ng7 (handle_multiline_blockquote o st c line ind).
Proof. intro V. unfold handle_multiline_blockquote, rest_at_fns. nggo. Qed.
Lemma ng7_handle_blockquote st c ind : NI o st -> ng7 (handle_blockquote o st c line ind).
Proof. intro V. unfold handle_blockquote. nggo. Qed.
Lemma ng7_handle_atx st c ind : NI o st -> ng7 (handle_atx_heading o st c line ind).
Proof. intro V. unfold handle_atx_heading, rest_at_fns. nggo. Qed.
Lemma ng7_handle_code_fence st c ind : NI o st -> ng7 (handle_code_fence o st c line ind).
Proof. intro V. unfold handle_code_fence, rest_at_fns. nggo. Qed.
Lemma ng7_handle_html_block st c ind : NI o st -> ng7 (handle_html_block o st c line ind).
Proof. intro V. unfold handle_html_block, rest_at_fns. nggo. Qed.
Lemma ng7_handle_setext st c ind : ng7 (handle_setext_heading o st c line ind).
Proof. unfold handle_setext_heading, rest_at_fns. nggo. Qed.
Lemma ng7_handle_thematic_break st c ind am : NI o st -> ng7 (handle_thematic_break o st c line ind am).
Proof. intro V. unfold handle_thematic_break. nggo. Qed.
Lemma ng7_handle_footnote st c ind d : NI o st -> ng7 (handle_footnote o st c line ind d).
Proof. intro V. unfold handle_footnote, rest_at_fns. nggo. Qed.
Lemma ng7_handle_description_list st c ind : NI o st -> ng7 (handle_description_list o st c line ind).
Proof. intro V. unfold handle_description_list, rest_at_fns. nggo. Qed.
Lemma ng7_handle_code_block st c ind ml : NI o st -> ng7 (handle_code_block o st c line ind ml).
Proof. intro V. unfold handle_code_block. nggo. Qed.

(* handle_list: the Item goes under a List: the container that matched, or the List just created *)
Lemma ng7_handle_list st c ind d : TI o [] st -> ng7 (handle_list o st c line ind d).
Proof.
  intro T. unfold handle_list.
  apply ng_bind; [auto with ng7|]. intros cn G. cbv zeta.
  destruct (_ || _ || _); [exact I|].
  apply ng_bind; [auto with ng7|]. intros [[matched nl0]|] _; [|exact I].
  apply ng_bind; [auto with ng7|]. intros k _.
  apply ng_bind; [auto with ng7|]. intros st1 E1.
  apply ng_bind; [auto with ng7|]. intros st2 E2.
  apply ng_bind; [auto with ng7|]. intros i _.
  apply ng_bind; [auto with ng7|]. intros b _.
  apply ng_bind; [nggo|]. intros [padding st5] E5.
  assert (T5 : TI o [] st5) by (monall; eauto 12 with ti).
  apply ng_bind; [auto with ng7|]. intros c5 G5.
  match goal with |- ng _ _ (bind (if ?nl then _ else _) _) => destruct nl eqn:NL end.
  - apply ng_bind; [apply ng7_add_child_doc; [exact (TI_NI _ _ _ T5) | reflexivity]|]. intros [p sa] Ea. cbn [fst snd].
    apply ng_bind; [|intros; exact I].
    eapply ng7_add_child_acc with (K := KList); [|reflexivity].
    intros q Gq. assert (Ta : TI o [] sa) by eauto 12 with ti.
    exact (add_child_new_kind _ _ _ _ _ _ _ _ Ea Ta q Gq).
  - cbn [bind fst snd]. apply ng_bind; [|intros; exact I].
    eapply ng7_add_child_acc with (K := KList); [|reflexivity].
    intros q Gq. rewrite G5 in Gq. inversion Gq; subst q. unfold bkind. destruct (bval c5); try discriminate NL. reflexivity.
Qed.

Definition HP (x : bool * nat * pstate) : Prop := TI o [] (snd x).
Lemma sg7_h (r : hres) : ng7 r -> (forall b c s, r = Ok (b, c, s) -> TI o [] s) -> sg al7 true HP r.
Proof. intros H Hp. eapply ng_sg; [exact H|]. intros [[b c] s] E. unfold HP. cbn [snd]. eapply Hp; eassumption. Qed.
Lemma sg7_or_else (r : hres) k : sg al7 true HP r -> (forall c s, TI o [] s -> sg al7 true HP (k c s)) -> sg al7 true HP (or_else_h r k).
Proof. intros H K. unfold or_else_h. eapply sg_bind; [exact H|]. intros [[h c] s] E Hx. destruct h; [exact Hx|]. apply K. exact Hx. Qed.

Ltac hh N X := apply sg7_h; [apply N; eauto using TI_NI | intros ? ? ? ?; eapply X; eassumption].

Lemma ng7_step st c am ml d : TI o [] st -> ng7 (open_new_blocks_step o st c line am ml d).
Proof.
  intro T. unfold open_new_blocks_step. apply ng_bind; [auto with ng7|]. intros s0 F0.
  assert (T0 : TI o [] s0) by eauto with ti.
  eapply sg_bind with (P := HP).
  { apply sg7_or_else; [hh ng7_handle_alert handle_alert_TI|]. intros c1 s1 T1.
    apply sg7_or_else; [hh ng7_handle_mbq handle_mbq_TI|]. clear c1 s1 T1. intros c1 s1 T1.
    apply sg7_or_else; [hh ng7_handle_blockquote handle_blockquote_TI|]. clear c1 s1 T1. intros c1 s1 T1.
    apply sg7_or_else; [hh ng7_handle_atx handle_atx_TI|]. clear c1 s1 T1. intros c1 s1 T1.
    apply sg7_or_else; [hh ng7_handle_code_fence handle_code_fence_TI|]. clear c1 s1 T1. intros c1 s1 T1.
    apply sg7_or_else; [hh ng7_handle_html_block handle_html_block_TI|]. clear c1 s1 T1. intros c1 s1 T1.
    apply sg7_or_else; [apply sg7_h; [apply ng7_handle_setext | intros ? ? ? ?; eapply handle_setext_TI; eassumption]|]. clear c1 s1 T1. intros c1 s1 T1.
    apply sg7_or_else; [hh ng7_handle_thematic_break handle_thematic_break_TI|]. clear c1 s1 T1. intros c1 s1 T1.
    apply sg7_or_else; [hh ng7_handle_footnote handle_footnote_TI|]. clear c1 s1 T1. intros c1 s1 T1.
    apply sg7_or_else; [hh ng7_handle_description_list handle_description_list_TI|]. clear c1 s1 T1. intros c1 s1 T1.
    apply sg7_or_else; [apply sg7_h; [now apply ng7_handle_list | intros ? ? ? ?; eapply handle_list_TI; eassumption]|]. clear c1 s1 T1. intros c1 s1 T1.
    hh ng7_handle_code_block handle_code_block_TI. }
  intros [[handled c1] s1] _ _.
  match goal with |- sg ?a ?f _ ?r => change (ng a f r) end. nggo.
Qed.

Lemma ng7_loop am : forall fuel st c ml d, TI o [] st -> ng7 (open_new_blocks_loop fuel o st c line am ml d).
Proof.
  induction fuel as [|f IH]; intros st c ml d T; cbn [open_new_blocks_loop]; [reflexivity|].
  apply ng_bind; [auto with ng7|]. intros n _. destruct (is_code_or_html n); [exact I|].
  apply ng_bind; [now apply ng7_step|]. intros [[go c1] s1] E. destruct go; [|exact I].
  apply IH. eapply open_new_blocks_step_TI; eassumption.
Qed.

Lemma ng7_open_new_blocks st c am : TI o [] st -> ng7 (open_new_blocks o st c line am).
Proof. intro T. unfold open_new_blocks. apply ng_bind; [auto with ng7|]. intros n _. now apply ng7_loop. Qed.

Lemma ng7_add_text_to_container st c lmc : NI o st -> ng7 (add_text_to_container o st c lmc line).
Proof. intro V. unfold add_text_to_container. cbv zeta. nggo. Qed.
End Handlers.

Lemma ng7_process_line o st line0 : TI o [] st -> ng7 (process_line o st line0).
Proof.
  intro T. unfold process_line. cbv zeta.
  match goal with |- context [check_open_blocks o ?s ?l] => assert (T0 : TI o [] s) by (apply TI_st_line_number, TI_st_cur, TI_st_curline; exact T) end.
  apply ng_bind; [auto with ng7|]. intros [r s1] E.
  assert (T1 : TI o [] s1) by (eapply check_open_blocks_TI; eassumption).
  apply ng_bind; [|intros; exact I].
  destruct r as [[lm am]|]; [|exact I]. cbv zeta.
  apply ng_bind; [now apply ng7_open_new_blocks|]. intros [c s2] E2.
  assert (T2 : TI o [] s2) by (eapply open_new_blocks_TI; eassumption).
  destruct (Nat.eqb (ps_current s1) (ps_current s2)); [apply ng7_add_text_to_container; exact (TI_NI _ _ _ T2) | exact I].
Qed.

Lemma ng7_process_lines o : forall ls st, TI o [] st -> ng7 (process_lines o st ls).
Proof.
  induction ls as [|l r IH]; intros st T; cbn [process_lines]; [exact I|].
  apply ng_bind; [now apply ng7_process_line|]. intros s1 E. apply IH. eapply process_line_TI; eassumption.
Qed.

Lemma ng7_finalize_document o st : ng7 (finalize_document o st).
Proof. unfold finalize_document. nggo. Qed.

Lemma ng7_front_matter_prologue o s : ng7 (front_matter_prologue o init_state s).
Proof.
  pose proof (TI_NI _ _ _ (BlocksTotal2Tree.W_TI _ _ (BlocksTotal2Tree.W_init o))) as V.
  unfold front_matter_prologue. nggo.
Qed.

Theorem parse_blocks_ng7 o x : ng7 (parse_blocks o x).
Proof.
  unfold parse_blocks. apply ng_bind; [apply ng7_front_matter_prologue|]. intros [st rest] E.
  assert (T : TI o [] st) by (eapply front_matter_prologue_TI; [exact E | exact (BlocksTotal2Tree.W_TI _ _ (BlocksTotal2Tree.W_init o))]).
  destruct (feed_lines rest) as [lines total].
  apply ng_bind; [|intros; exact I]. unfold run_lines.
  apply ng_bind; [now apply ng7_process_lines | intros; apply ng7_finalize_document].
Qed.

Theorem parse_blocks_no_add_panic o x s : In s add_sites -> parse_blocks o x <> Panic s.
Proof. intro H. eapply sg_no_panic; [apply parse_blocks_ng7 | exact H]. Qed.
