(* Proofs/BlocksTotal4Fuel.v — totality of the block phase, fourth round, fuel, part 1: the loops that stand alone.

     nf r  :=  r is not OutOfFuel                                    (nf_ne: nf r <-> r <> OutOfFuel)

   For ALL arguments (no premise):
     label_loop / link_label / parse_reference_inline   (Model/RefDef.v; the label loop advances pos by >= 1)
     resolve_loop with fuel > |seek| / resolve_refdefs  (every iteration that goes on consumed pos >= 1 bytes: pri_pos)
     find_closing_line with fuel > |s| - end / split_off_front_matter   (every line_at moves forward)
     list_spaces_loop 8                                  (advance_offset(line, 1, true) moves the column by exactly 1)
     finalize, check_container and the prefix parsers    (they contain no loop of their own besides the above)
   The loops on the tree (check_open_blocks_inner, clear_llb_up, reopen_ast_nodes, finalize_up_to, add_child_loop)
   are in Proofs/BlocksTotal4FuelTree.v and Proofs/BlocksTotal4FuelFin.v. *)
From Coq Require Import List NArith Arith Bool Lia Strings.String.
From V Require Import Base.Bytes Base.Res Gen.Nodes Gen.StrLeafGen Model.Ast Model.Strings Model.Entity Model.LinkUrl Model.ListMarker
  Model.Feed Model.FrontMatter Model.RefDef Model.Scan Model.Blocks Spec.EscapeSpec
  Proofs.StrLeafProofs Proofs.StrLeafEntity Proofs.BlocksTotal Proofs.BlocksTotal3Cur.
From V Require Proofs.RefDefTitle.
Import ListNotations.
Local Open Scope string_scope.
Local Open Scope list_scope.

Definition nf {A} (r : res A) : Prop := match r with OutOfFuel => False | _ => True end.

Lemma nf_ne {A} (r : res A) : nf r <-> r <> OutOfFuel.
Proof. destruct r; cbn; split; intro H; try exact I; try discriminate; try contradiction; try (now elim H). Qed.

Lemma nf_bind {A B} (r : res A) (k : A -> res B) : nf r -> (forall a, r = Ok a -> nf (k a)) -> nf (bind r k).
Proof. destruct r; cbn [bind nf]; intros H K; [now apply K | exact I | exact H]. Qed.

Lemma nf_ex {A} (r : res A) : (exists a, r = Ok a) -> nf r.
Proof. intros [a ->]. exact I. Qed.

Lemma nf_res_map {A B} (f : A -> B) (r : res A) : nf r -> nf (res_map f r).
Proof. destruct r; cbn; auto. Qed.

Lemma nf_of {A} (r : res A) : r <> OutOfFuel -> nf r.
Proof. apply nf_ne. Qed.

Create HintDb fuel.

Ltac fstep :=
  match goal with
  | |- nf (bind ?r _) => apply nf_bind; [ try solve [auto with fuel] | intros ]
  | |- nf (Ok _) => exact I
  | |- nf (Panic _) => exact I
  | |- nf (OutOfScope _) => exact I
  | |- nf no_node => exact I
  | |- nf (not_handled _ _) => exact I
  | |- nf (res_map _ _) => apply nf_res_map
  | |- nf (if ?b then _ else _) => destruct b
  | |- nf (match ?x with _ => _ end) => destruct x
  | |- nf (let (_, _) := ?x in _) => destruct x
  end.
Ltac fgo := repeat fstep; auto with fuel.

(* ---- helpers with a site *)
Lemma nf_idx site l i : nf (idx site l i).
Proof. apply nf_of, idx_fuel. Qed.
Lemma nf_sub site a b : nf (sub site a b).
Proof. apply nf_of, sub_fuel. Qed.
Lemma nf_slice_from site l i : nf (Blocks.slice_from site l i).
Proof. apply nf_of, slice_from_fuel. Qed.
Lemma nf_from_utf8 site b : nf (from_utf8 site b).
Proof. apply nf_of, from_utf8_fuel. Qed.
#[export] Hint Resolve nf_idx nf_sub nf_slice_from nf_from_utf8 : fuel.

(* ---- Model/Strings.v, Model/Entity.v, Model/LinkUrl.v *)
Lemma nf_trim s : nf (Strings.trim s).
Proof. rewrite trim_ok. exact I. Qed.
Lemma nf_rtrim s : nf (Strings.rtrim s).
Proof. rewrite rtrim_ok. exact I. Qed.
Lemma nf_unescape s : nf (Strings.unescape s).
Proof. rewrite unescape_is_spec. exact I. Qed.
Lemma nf_unescape_html s : nf (unescape_html s).
Proof. apply nf_ex. apply unescape_html_total. Qed.
#[export] Hint Resolve nf_trim nf_rtrim nf_unescape nf_unescape_html : fuel.

Lemma nf_remove_trailing_blank_lines s : nf (remove_trailing_blank_lines s).
Proof. unfold remove_trailing_blank_lines. fgo. Qed.
Lemma nf_clean_url s : nf (clean_url s).
Proof. unfold clean_url. fgo. Qed.
Lemma nf_clean_title s : nf (clean_title s).
Proof. unfold clean_title. fgo. Qed.
Lemma nf_manual_scan_link_url s : nf (manual_scan_link_url s).
Proof. unfold manual_scan_link_url. fgo. Qed.
#[export] Hint Resolve nf_remove_trailing_blank_lines nf_clean_url nf_clean_title nf_manual_scan_link_url : fuel.

(* ================================================================== Model/RefDef.v *)
Lemma nf_peek s p : nf (peek s p).
Proof. unfold peek. fgo. Qed.
#[export] Hint Resolve nf_peek : fuel.
Lemma nf_skip_spaces : forall s, nf (skip_spaces s).
Proof. induction s as [|c r IH]; cbn [skip_spaces]; fgo. Qed.
#[export] Hint Resolve nf_skip_spaces : fuel.
Lemma nf_skip_line_end s p : nf (skip_line_end s p).
Proof. unfold skip_line_end. fgo. Qed.
#[export] Hint Resolve nf_skip_line_end : fuel.
Lemma nf_spnl s p : nf (spnl s p).
Proof. unfold spnl. fgo. Qed.
#[export] Hint Resolve nf_spnl : fuel.

Lemma peek_some_lt s p c : peek s p = Ok (Some c) -> p < List.length s.
Proof.
  unfold peek. destruct (nth_error s p) eqn:E; [|discriminate]. intros _. apply nth_error_Some. congruence.
Qed.

(* the label loop: every iteration that goes on moved pos forward, inside the input *)
Lemma label_loop_fuel input : forall fuel pos len c,
  List.length input - pos < fuel -> label_loop fuel input pos len c <> OutOfFuel.
Proof.
  induction fuel as [|f IH]; intros pos len c Hf; [lia|]. cbn [label_loop].
  apply bind_fuel; [apply nf_ne, nf_peek|]. intros [c'|] P; [|discriminate].
  apply peek_some_lt in P.
  destruct (beqb c' x5b || beqb c' x5d); [discriminate|].
  apply bind_fuel.
  { destruct (beqb c' x5c); [|discriminate]. apply bind_fuel; [apply nf_ne, nf_peek|]. intros [d|] _; [|discriminate].
    destruct (sl_ispunct d); discriminate. }
  intros [pos' len'] E.
  assert (Hp : pos < pos').
  { destruct (beqb c' x5c); [|inversion E; lia].
    destruct (peek input (S pos)) as [[d|]| |]; cbn [bind] in E; try discriminate E.
    - destruct (sl_ispunct d); inversion E; lia.
    - inversion E; lia. }
  destruct (Nat.ltb max_link_label_length len'); [discriminate|]. apply IH. lia.
Qed.

Theorem link_label_fuel input : link_label input <> OutOfFuel.
Proof.
  unfold link_label. apply bind_fuel; [apply nf_ne, nf_peek|]. intros [b|] _; [|discriminate].
  destruct (negb (beqb b x5b)); [discriminate|].
  apply bind_fuel; [apply label_loop_fuel; lia|]. intros [[pos c]|] _; [|discriminate].
  destruct (beqb c x5d); [|discriminate]. destruct (utf8_valid _); discriminate.
Qed.
Lemma nf_link_label input : nf (link_label input).
Proof. apply nf_of, link_label_fuel. Qed.
#[export] Hint Resolve nf_link_label : fuel.

Lemma nf_parse_reference_inline fold m s : nf (parse_reference_inline fold m s).
Proof. unfold parse_reference_inline. fgo. Qed.
#[export] Hint Resolve nf_parse_reference_inline : fuel.

Theorem parse_reference_inline_fuel fold m s : parse_reference_inline fold m s <> OutOfFuel.
Proof. apply nf_ne, nf_parse_reference_inline. Qed.

(* ---- the position a definition consumes is at least 1 *)
Lemma spnl_ge input pos q : spnl input pos = Ok q -> pos <= q.
Proof.
  unfold spnl. intro H.
  destruct (skip_spaces (skipn pos input)) as [n1| |]; cbn [bind] in H; try discriminate H.
  destruct (skip_line_end input (pos + n1)) as [[pos2 ok]| |] eqn:SL; cbn [bind] in H; try discriminate H.
  apply RefDefTitle.R.skip_line_end_ge in SL.
  destruct ok.
  - destruct (skip_spaces (skipn pos2 input)) as [n3| |]; cbn [bind] in H; try discriminate H. inversion H; lia.
  - inversion H; lia.
Qed.

Lemma pri_pos fold m content pos m' : parse_reference_inline fold m content = Ok (Some (pos, m')) -> 1 <= pos.
Proof.
  unfold parse_reference_inline. intros H.
  destruct (link_label content) as [[[lab0 p0]|]| |]; cbn [bind] in H; try discriminate H.
  destruct lab0 as [|l0 lr]; [discriminate H|].
  destruct (peek content p0) as [[c|]| |]; cbn [bind] in H; try discriminate H.
  destruct (negb (beqb c x3a)); [discriminate H|].
  destruct (spnl content (S p0)) as [p1| |] eqn:SP1; cbn [bind] in H; try discriminate H.
  apply spnl_ge in SP1.
  destruct (manual_scan_link_url _) as [[[url0 ml]|]| |]; cbn [bind] in H; try discriminate H.
  set (bt := p1 + ml) in *.
  destruct (spnl content bt) as [p3| |] eqn:SP3; cbn [bind] in H; try discriminate H.
  apply spnl_ge in SP3.
  destruct (if Nat.eqb p3 bt then None else scan_link_title (skipn p3 content)) as [tl|] eqn:TS.
  - destruct (skip_spaces (skipn (p3 + tl) content)) as [n1| |]; cbn [bind] in H; try discriminate H.
    destruct (skip_line_end content (p3 + tl + n1)) as [[p6 ok]| |] eqn:SL; cbn [bind] in H; try discriminate H.
    apply RefDefTitle.R.skip_line_end_ge in SL.
    destruct ok.
    + cbn [bind] in H.
      destruct (normalize_label fold (l0 :: lr) true) as [|b0 br]; [inversion H; subst; lia|].
      destruct (clean_url url0) as [cu| |]; cbn [bind] in H; try discriminate H.
      destruct (clean_title _) as [ct0| |]; cbn [bind] in H; try discriminate H.
      destruct (negb (utf8_valid cu)); [discriminate H|]. destruct (negb (utf8_valid ct0)); [discriminate H|].
      inversion H; subst. lia.
    + destruct (firstn tl (skipn p3 content)) eqn:FT; [discriminate H|].
      destruct (skip_spaces (skipn bt content)) as [n2| |]; cbn [bind] in H; try discriminate H.
      destruct (skip_line_end content (bt + n2)) as [[q2 ok2]| |] eqn:SL2; cbn [bind] in H; try discriminate H.
      apply RefDefTitle.R.skip_line_end_ge in SL2.
      destruct ok2; [|discriminate H]. cbn [bind] in H.
      destruct (normalize_label fold (l0 :: lr) true) as [|b0 br]; [inversion H; subst; lia|].
      destruct (clean_url url0) as [cu| |]; cbn [bind] in H; try discriminate H.
      destruct (clean_title _) as [ct0| |]; cbn [bind] in H; try discriminate H.
      destruct (negb (utf8_valid cu)); [discriminate H|]. destruct (negb (utf8_valid ct0)); [discriminate H|].
      inversion H; subst. lia.
  - destruct (skip_spaces (skipn bt content)) as [n1| |]; cbn [bind] in H; try discriminate H.
    destruct (skip_line_end content (bt + n1)) as [[p6 ok]| |] eqn:SL; cbn [bind] in H; try discriminate H.
    apply RefDefTitle.R.skip_line_end_ge in SL.
    destruct ok; [|discriminate H]. cbn [bind] in H.
    destruct (normalize_label fold (l0 :: lr) true) as [|b0 br]; [inversion H; subst; lia|].
    destruct (clean_url url0) as [cu| |]; cbn [bind] in H; try discriminate H.
    destruct (clean_title _) as [ct0| |]; cbn [bind] in H; try discriminate H.
    destruct (negb (utf8_valid cu)); [discriminate H|]. destruct (negb (utf8_valid ct0)); [discriminate H|].
    inversion H; subst. lia.
Qed.

(* ================================================================== resolve_reference_link_definitions *)
Lemma resolve_loop_fuel fold : forall fuel m seek seeked,
  List.length seek < fuel -> resolve_loop fuel fold m seek seeked <> OutOfFuel.
Proof.
  induction fuel as [|f IH]; intros m seek seeked Hf; [lia|]. cbn [resolve_loop].
  destruct seek as [|b r]; [discriminate|]. destruct (beqb b x5b); [|discriminate].
  apply bind_fuel; [apply parse_reference_inline_fuel|]. intros [[pos m']|] E; [|discriminate].
  apply pri_pos in E. apply IH. rewrite skipn_length. cbn [List.length] in *. lia.
Qed.

Theorem resolve_refdefs_fuel fold m content : resolve_refdefs fold m content <> OutOfFuel.
Proof.
  unfold resolve_refdefs. apply bind_fuel; [apply resolve_loop_fuel; lia|]. intros [seeked m'] _.
  apply bind_fuel; [|intros; discriminate].
  destruct (Nat.eqb seeked 0); [discriminate|]. destruct (is_char_boundary content seeked); discriminate.
Qed.
Lemma nf_resolve_refdefs fold m content : nf (resolve_refdefs fold m content).
Proof. apply nf_of, resolve_refdefs_fuel. Qed.
#[export] Hint Resolve nf_resolve_refdefs : fuel.

(* ================================================================== Model/FrontMatter.v *)
Lemma scan_line_end_bounds : forall t e, e <= scan_line_end t e <= e + List.length t.
Proof.
  induction t as [|b r IH]; intro e; cbn [scan_line_end List.length]; [lia|].
  destruct (Strings.is_line_end_char b); [lia|]. specialize (IH (S e)). lia.
Qed.

Lemma nf_fm_line_at s k : nf (fm_line_at s k).
Proof. unfold fm_line_at, fm_slice, byte_slice_from. fgo. Qed.
#[export] Hint Resolve nf_fm_line_at : fuel.

(* a line that starts inside the string ends later, inside the string *)
Lemma fm_line_at_next s start line next :
  start < List.length s -> fm_line_at s start = Ok (line, next) -> start < next <= List.length s.
Proof.
  intros Hs H. unfold fm_line_at in H.
  pose proof (scan_line_end_bounds (skipn start s) start) as B. rewrite skipn_length in B.
  set (e := scan_line_end (skipn start s) start) in *.
  unfold byte_slice_from in H. destruct (Nat.leb e (List.length s)) eqn:L; cbn [bind] in H; [|discriminate H].
  destruct (fm_slice s start e) as [ln| |]; cbn [bind] in H; try discriminate H.
  assert (SW2 : starts_with (skipn e s) fm_crlf = true -> e + 2 <= List.length s).
  { intro SW. assert (H2 : 2 <= List.length (skipn e s)).
    { unfold fm_crlf in SW. destruct (skipn e s) as [|a [|b t]]; cbn in SW; try discriminate SW.
      - destruct (beqb a x0d); discriminate SW.
      - cbn [List.length]. lia. }
    rewrite skipn_length in H2. lia. }
  destruct (starts_with (skipn e s) fm_crlf).
  - specialize (SW2 eq_refl). inversion H; subst. lia.
  - destruct (Nat.ltb e (List.length s)) eqn:Lt; inversion H; subst; [apply Nat.ltb_lt in Lt; lia|]. apply Nat.ltb_ge in Lt. lia.
Qed.

Lemma find_closing_line_fuel s d : forall fuel e,
  List.length s - e < fuel -> find_closing_line fuel s d e <> OutOfFuel.
Proof.
  induction fuel as [|f IH]; intros e Hf; [lia|]. cbn [find_closing_line].
  destruct (Nat.eqb e (List.length s)) eqn:Eq; [discriminate|]. apply Nat.eqb_neq in Eq.
  apply bind_fuel; [apply nf_ne, nf_fm_line_at|]. intros [line next] E. cbn [fst snd].
  destruct (bytes_eqb line d); [discriminate|].
  destruct (Nat.lt_ge_cases e (List.length s)) as [Lt|Ge].
  - pose proof (fm_line_at_next _ _ _ _ Lt E) as B. apply IH. lia.
  - exfalso. unfold fm_line_at in E. rewrite skipn_all2 in E by lia. cbn [scan_line_end] in E.
    unfold byte_slice_from in E. destruct (Nat.leb e (List.length s)) eqn:L; [apply Nat.leb_le in L; lia|]. discriminate E.
Qed.

Theorem split_off_front_matter_fuel s d : split_off_front_matter s d <> OutOfFuel.
Proof.
  unfold split_off_front_matter. apply bind_fuel; [apply nf_ne, nf_fm_line_at|]. intros l0 _.
  destruct (_ || _); [discriminate|].
  apply bind_fuel; [apply find_closing_line_fuel; lia|]. intros [e|] _; [|discriminate].
  apply nf_ne. unfold slice_to, FrontMatter.slice_from. fgo.
Qed.

(* ================================================================== the cursor on the state *)
Lemma nf_adv st line n b : nf (adv st line n b).
Proof. unfold adv. apply nf_bind; [apply nf_of, advance_offset_fuel | intros; exact I]. Qed.
Lemma nf_ffn st line : nf (ffn st line).
Proof. unfold ffn. apply nf_bind; [apply nf_of, find_first_nonspace_fuel | intros; exact I]. Qed.
#[export] Hint Resolve nf_adv nf_ffn : fuel.

Lemma nf_skip_one_space st line site : nf (skip_one_space st line site).
Proof. unfold skip_one_space. fgo. Qed.
#[export] Hint Resolve nf_skip_one_space : fuel.
Lemma nf_skip_fence_offset line site : forall i st, nf (skip_fence_offset i st line site).
Proof. induction i as [|j IH]; intro st; cbn [skip_fence_offset]; fgo. Qed.
#[export] Hint Resolve nf_skip_fence_offset : fuel.

(* advance_offset(line, 1, true) moves the column by exactly one *)
Lemma adv1_column st line st1 : adv st line 1 true = Ok st1 -> c_column (ps_cur st1) = S (c_column (ps_cur st)).
Proof.
  unfold adv, advance_offset. intro H.
  destruct (advance_loop 1 line (c_offset (ps_cur st)) (c_column (ps_cur st)) (c_pct (ps_cur st)) 1 true)
    as [[[off col] pct]| |] eqn:E; cbn [bind] in H; try discriminate H.
  inversion H; subst. clear H. cbn [ps_cur st_cur cur_set_oc c_column].
  cbn [advance_loop] in E.
  destruct (idx "mod.rs:advance_offset:line[self.offset]" line (c_offset (ps_cur st))) as [b| |]; cbn [bind] in E; try discriminate E.
  pose proof (ctt_of_pos (c_column (ps_cur st))) as P. unfold ctt_of in P.
  destruct (beqb b x09).
  - replace (Nat.min 1 (tab_stop - c_column (ps_cur st) mod tab_stop)) with 1 in E by lia.
    cbn [Nat.sub advance_loop] in E. inversion E; subst. lia.
  - cbn [Nat.sub advance_loop] in E. inversion E; subst. reflexivity.
Qed.

Lemma list_spaces_loop_fuel_gen line save : forall fuel st,
  6 + save - c_column (ps_cur st) < fuel \/ (c_column (ps_cur st) < save /\ 0 < fuel) ->
  list_spaces_loop fuel st line save <> OutOfFuel.
Proof.
  induction fuel as [|f IH]; intros st Hf; [lia|]. cbn [list_spaces_loop].
  unfold sub. destruct (Nat.ltb (c_column (ps_cur st)) save) eqn:Lt; cbn [bind]; [discriminate|].
  apply Nat.ltb_ge in Lt. destruct Hf as [Hf|[Hf _]]; [|lia].
  destruct (Nat.leb (c_column (ps_cur st) - save) 5) eqn:Le; [|discriminate]. apply Nat.leb_le in Le.
  apply bind_fuel; [apply idx_fuel|]. intros b _. destruct (is_space_or_tab b); [|discriminate].
  apply bind_fuel; [apply nf_ne, nf_adv|]. intros st1 E. apply adv1_column in E.
  apply IH. left. lia.
Qed.

Theorem list_spaces_loop_fuel st line save : list_spaces_loop 8 st line save <> OutOfFuel.
Proof.
  apply list_spaces_loop_fuel_gen.
  destruct (Nat.lt_ge_cases (c_column (ps_cur st)) save); [right; lia | left; lia].
Qed.
Lemma nf_list_spaces_loop st line save : nf (list_spaces_loop 8 st line save).
Proof. apply nf_of, list_spaces_loop_fuel. Qed.
#[export] Hint Resolve nf_list_spaces_loop : fuel.

(* ================================================================== the tree primitives, finalize *)
Lemma nf_get st x : nf (get st x).
Proof. unfold get. fgo. Qed.
Lemma nf_modify st x f : nf (modify st x f).
Proof. unfold modify. fgo. Qed.
Lemma nf_modify_info st x f : nf (modify_info st x f).
Proof. apply nf_modify. Qed.
Lemma nf_bdetach st x : nf (bdetach st x).
Proof. unfold bdetach. fgo. Qed.
#[export] Hint Resolve nf_get nf_modify nf_modify_info nf_bdetach : fuel.
Lemma nf_retighten st p : nf (retighten st p).
Proof. unfold retighten. fgo. Qed.
Lemma nf_append_child st p c : nf (append_child st p c).
Proof. apply nf_modify. Qed.
Lemma nf_last_child st x : nf (last_child st x).
Proof. unfold last_child. fgo. Qed.
#[export] Hint Resolve nf_retighten nf_append_child nf_last_child : fuel.
Lemma nf_last_child_is_open st x : nf (last_child_is_open st x).
Proof. unfold last_child_is_open. fgo. Qed.
#[export] Hint Resolve nf_last_child_is_open : fuel.

Lemma nf_finalize o st id : nf (finalize o st id).
Proof. unfold finalize. fgo. Qed.
#[export] Hint Resolve nf_finalize : fuel.
Theorem finalize_fuel o st id : finalize o st id <> OutOfFuel.
Proof. apply nf_ne, nf_finalize. Qed.

Lemma nf_unwrap_parent site o st id : nf (unwrap_parent site (finalize o st id)).
Proof. unfold unwrap_parent. fgo. Qed.
#[export] Hint Resolve nf_unwrap_parent : fuel.

(* ================================================================== the prefix parsers of check_open_blocks *)
Lemma nf_is_not_greentext o st line : nf (is_not_greentext o st line).
Proof. unfold is_not_greentext. fgo. Qed.
#[export] Hint Resolve nf_is_not_greentext : fuel.
Lemma nf_pbq o st line : nf (parse_block_quote_prefix o st line).
Proof. unfold parse_block_quote_prefix. fgo. Qed.
Lemma nf_pfn st line : nf (parse_footnote_definition_block_prefix st line).
Proof. unfold parse_footnote_definition_block_prefix. fgo. Qed.
Lemma nf_pip st line c mo pad : nf (parse_item_prefix st line c mo pad).
Proof. unfold parse_item_prefix. fgo. Qed.
Lemma nf_phb st t : nf (parse_html_block_prefix st t).
Proof. unfold parse_html_block_prefix. fgo. Qed.
#[export] Hint Resolve nf_pbq nf_pfn nf_pip nf_phb : fuel.
Lemma nf_pcbp o st line cid cb : nf (parse_code_block_prefix o st line cid cb).
Proof. unfold parse_code_block_prefix. fgo. Qed.
Lemma nf_pmbq o st line cid fl fo : nf (parse_multiline_block_quote_prefix o st line cid fl fo).
Proof. unfold parse_multiline_block_quote_prefix. fgo. Qed.
Lemma nf_table_matches s sp : nf (table_matches s sp).
Proof. apply nf_of, table_matches_fuel. Qed.
#[export] Hint Resolve nf_pcbp nf_pmbq nf_table_matches : fuel.

Lemma nf_check_container o st line c : nf (check_container o st line c).
Proof. unfold check_container. fgo. Qed.
#[export] Hint Resolve nf_check_container : fuel.
Theorem check_container_fuel o st line c : check_container o st line c <> OutOfFuel.
Proof. apply nf_ne, nf_check_container. Qed.
