(* Proofs/LeafPremBlank.v — C01, the premises of the inline phase, part 7 (bricks for the clause `first line not blank`):
   ALS c — every line of c is non-blank: the suffix of c at every line start (0, or just after a LF) is empty or not
   `is_blank`.  Preserved by appending a non-blank line suffix (add_line) and by cutting at a line start; the reference
   definitions resolve_refdefs strips end at a line start (skip_line_end succeeded; the content holds no CR), so what is
   left of a paragraph is empty or starts with a non-blank line. *)
From Coq Require Import List NArith Arith Bool Lia Strings.String.
From V Require Import Base.Bytes Base.Res Gen.StrLeafGen Model.Ast Model.Strings Spec.EscapeSpec Model.FrontMatter Model.RefDef Model.Blocks
  Proofs.StrLeafProofs Proofs.BlocksProofs Proofs.BlocksTotal6Val Proofs.InlinesTotal2 Proofs.LeafPremBytes.
Import ListNotations.
Local Open Scope list_scope.

(* ------------------------------------------------------------------ is_blank *)
Lemma is_blank_app_false a b : is_blank a = false -> is_blank (a ++ b) = false.
Proof.
  induction a as [|c r IH]; cbn [is_blank app]; [discriminate|].
  destruct (is_line_end_char c); [discriminate|]. destruct (is_space_or_tab c); [exact IH | reflexivity].
Qed.

Lemma is_blank_ws_app w s : forallb is_space_or_tab w = true -> is_blank (w ++ s) = is_blank s.
Proof.
  induction w as [|c r IH]; intro H; [reflexivity|]. cbn [forallb] in H. apply andb_true_iff in H as [H1 H2].
  cbn [app is_blank]. rewrite H1. assert (is_line_end_char c = false) as -> by (destruct c; try discriminate H1; reflexivity).
  now apply IH.
Qed.

Lemma ws_repeat n : forallb is_space_or_tab (repeat_bytes n x20) = true.
Proof. induction n as [|n IH]; [reflexivity|]. cbn [repeat_bytes forallb]. now rewrite IH. Qed.

(* the inline phase's test on the right-trimmed content *)
Lemma not_blank_first_line c : is_blank c = false -> first_line_not_blank (rtrim_slice c) = true \/ rtrim_slice c = [].
Proof.
  intro B.
  (* c = w ++ b :: r with w spaces / tabs and b neither white space nor a line end *)
  assert (D : exists w b r, c = w ++ b :: r /\ forallb (fun x => beqb x x20 || beqb x x09) w = true
                            /\ (beqb b x20 || beqb b x09) = false /\ is_line_end_char b = false).
  { induction c as [|x c IH]; [discriminate B|]. cbn [is_blank] in B.
    destruct (is_line_end_char x) eqn:L; [discriminate B|].
    destruct (is_space_or_tab x) eqn:S.
    - destruct (IH B) as (w & b & r & -> & Hw & Hb & Hl). exists (x :: w), b, r. split; [reflexivity|].
      split; [|split; assumption]. cbn [forallb]. rewrite Hw, andb_true_r. destruct x; try discriminate S; reflexivity.
    - exists [], x, c. split; [reflexivity|]. split; [reflexivity|]. split; [|exact L].
      destruct x; try reflexivity; discriminate S. }
  destruct D as (w & b & r & -> & Hw & Hb & Hl).
  assert (Nb : sl_isspace b = false) by (destruct b; try reflexivity; discriminate).
  left. assert (E : rtrim_slice (w ++ b :: r) = w ++ rtrim_slice (b :: r)).
  { apply rtrim_app_nws. unfold allws. cbn [forallb]. now rewrite Nb. }
  rewrite E. unfold first_line_not_blank. rewrite drop_while_app_all by exact Hw.
  change (b :: r) with ([b] ++ r).
  destruct (allws r) eqn:Wr.
  - rewrite rtrim_app_ws by exact Wr. unfold rtrim_slice. cbn [rev app drop_while]. rewrite Nb. cbn [rev app drop_while].
    rewrite Hb. now rewrite Hl.
  - rewrite rtrim_app_nws by exact Wr. cbn [app drop_while]. rewrite Hb. now rewrite Hl.
Qed.

(* ------------------------------------------------------------------ line starts *)
Definition LS (c : bytes) (k : nat) : Prop :=
  k = 0 \/ List.length c <= k \/ exists j, k = S j /\ nth_error c j = Some x0a.

Definition ALS (c : bytes) : Prop := forall k, LS c k -> skipn k c = [] \/ is_blank (skipn k c) = false.

Lemma ALS_nil : ALS [].
Proof. intros k _. left. now destruct k. Qed.

Lemma ALS_first c : ALS c -> c = [] \/ is_blank c = false.
Proof. intro A. exact (A 0 (or_introl eq_refl)). Qed.

Lemma nth_error_skipn' {A} (c : list A) : forall k j, nth_error (skipn k c) j = nth_error c (k + j).
Proof. revert c. intros c k. revert c. induction k as [|k IH]; intros c j; [reflexivity|]. destruct c; [now destruct j | apply IH]. Qed.

Lemma skipn_add {A} (l : list A) : forall b a, skipn a (skipn b l) = skipn (b + a) l.
Proof. revert l. intros l b. revert l. induction b as [|b IH]; intros l a; [reflexivity|]. destruct l; [now destruct a | apply IH]. Qed.

Lemma LS_skipn c k j : LS c k -> LS (skipn k c) j -> LS c (k + j).
Proof.
  intros Hk [->|[H|(i & -> & N)]].
  - now rewrite Nat.add_0_r.
  - right. left. rewrite skipn_length in H. lia.
  - right. right. exists (k + i). split; [lia|]. now rewrite <- nth_error_skipn'.
Qed.

Lemma ALS_skipn c k : ALS c -> LS c k -> ALS (skipn k c).
Proof.
  intros A Hk j Hj. rewrite skipn_add. apply A. now apply LS_skipn.
Qed.

(* appending pad ++ s to c, s = m ++ t a line suffix (m without LF, t = [] or [LF]) that is not blank *)
Lemma ALS_push c x : ALS c -> (exists m t, x = m ++ t /\ cnl m = 0 /\ (t = [] \/ t = [x0a])) -> is_blank x = false -> ALS (c ++ x).
Proof.
  intros A (m & t & -> & Nm & T) B k Hk.
  destruct (Nat.lt_ge_cases k (List.length c)) as [Lt|Ge].
  - (* inside c *)
    assert (Hc : LS c k).
    { destruct Hk as [->|[H|(i & -> & N)]]; [now left | rewrite app_length in H; lia|].
      right. right. exists i. split; [reflexivity|]. rewrite nth_error_app1 in N by lia. exact N. }
    rewrite skipn_app. replace (k - List.length c) with 0 by lia. cbn [skipn].
    destruct (A k Hc) as [E|E]; [|right; now apply is_blank_app_false].
    exfalso. assert (List.length (skipn k c) = 0) by (now rewrite E). rewrite skipn_length in H. lia.
  - rewrite skipn_app. rewrite (skipn_all2 c) by lia. cbn [app].
    destruct (Nat.eq_dec k (List.length c)) as [->|Ne].
    + rewrite Nat.sub_diag. right. exact B.
    + left. destruct Hk as [->|[H|(i & -> & N)]]; [lia | rewrite app_length in H; apply skipn_all2; lia|].
      (* a LF of m ++ t at index i - |c|: it is the last byte *)
      rewrite nth_error_app2 in N by lia. set (d := i - List.length c) in *.
      assert (Hd : S d = List.length (m ++ t)).
      { destruct (Nat.lt_ge_cases d (List.length m)) as [Lm|Gm].
        - exfalso. rewrite nth_error_app1 in N by exact Lm. apply nth_error_In in N.
          unfold count_byte_nl in Nm. apply length_zero_iff_nil in Nm.
          assert (In x0a (filter (fun b => beqb b x0a) m)) as F by (apply filter_In; split; [exact N | reflexivity]).
          rewrite Nm in F. destruct F.
        - rewrite nth_error_app2 in N by exact Gm. destruct T as [->| ->]; [now destruct (d - List.length m)|].
          destruct (d - List.length m) as [|e] eqn:De; [|now destruct e]. rewrite app_length. cbn [List.length]. lia. }
      apply skipn_all2. replace (S i - List.length c) with (S d) by (unfold d; lia). lia.
Qed.

(* ------------------------------------------------------------------ reference definitions end at a line start *)
Definition nocr (c : bytes) : Prop := forall b, In b c -> b <> x0d.

Lemma skip_line_end_ls input pos pos2 : nocr input -> skip_line_end input pos = Ok (pos2, true) -> LS input pos2.
Proof.
  intros C H. unfold skip_line_end, peek in H.
  destruct (nth_error input pos) as [c|] eqn:N.
  - destruct (beqb c x00); cbn [bind] in H; [discriminate H|].
    assert (Hc : beqb c x0d = false).
    { destruct (beqb c x0d) eqn:E; [|reflexivity]. apply beqb_eq in E. subst c. exfalso. exact (C _ (nth_error_In _ _ N) eq_refl). }
    rewrite Hc, N in H. destruct (beqb c x00); cbn [bind] in H; [discriminate H|].
    destruct (beqb c x0a) eqn:E.
    + apply beqb_eq in E. subst c. inversion H; subst. right. right. exists pos. split; [reflexivity | exact N].
    + inversion H as [[H1 H2]]. subst pos2. rewrite Nat.ltb_irrefl in H2. cbn [orb] in H2. apply Nat.leb_le in H2. right. left. exact H2.
  - cbn [bind] in H. rewrite N in H. cbn [bind] in H. inversion H as [[H1 H2]]. subst pos2.
    rewrite Nat.ltb_irrefl in H2. cbn [orb] in H2. apply Nat.leb_le in H2. right. left. exact H2.
Qed.

Lemma parse_reference_inline_ls fold m c pos m' : nocr c -> parse_reference_inline fold m c = Ok (Some (pos, m')) -> LS c pos.
Proof.
  intros C H. unfold parse_reference_inline in H.
  mon H; monall; try discriminate;
  repeat match goal with S : skip_line_end c _ = Ok (_, true) |- _ => apply (skip_line_end_ls _ _ _ C) in S end;
  assumption.
Qed.

Lemma nocr_skipn k c : nocr c -> nocr (skipn k c).
Proof. intros H b Hb. apply H. eapply in_skipn; exact Hb. Qed.

Lemma resolve_loop_ls fold content : nocr content -> forall fuel m seek seeked seeked' m',
  seek = skipn seeked content -> LS content seeked ->
  resolve_loop fuel fold m seek seeked = Ok (seeked', m') -> LS content seeked'.
Proof.
  intro C. induction fuel as [|f IH]; intros m seek seeked seeked' m' Es Hs H; cbn [resolve_loop] in H; [discriminate H|].
  destruct seek as [|b r] eqn:Sk; [inversion H; subst; exact Hs|].
  destruct (beqb b x5b); [|inversion H; subst; exact Hs].
  destruct (parse_reference_inline fold m (b :: r)) as [[[pos m1]|]| |] eqn:P; cbn [bind] in H; try discriminate H;
    [|inversion H; subst; exact Hs].
  rewrite <- Sk in *. clear Sk b r.
  assert (Lp : LS seek pos) by (eapply parse_reference_inline_ls; [|exact P]; subst seek; now apply nocr_skipn).
  eapply IH; [| |exact H].
  - subst seek. now rewrite skipn_add.
  - subst seek. now apply LS_skipn.
Qed.

Lemma resolve_refdefs_ls fold m c c' hc m' : nocr c -> resolve_refdefs fold m c = Ok (c', hc, m') ->
  (exists k, c' = skipn k c /\ LS c k) /\ hc = negb (is_blank c').
Proof.
  intros C H. unfold resolve_refdefs in H.
  destruct (resolve_loop (S (List.length c)) fold m c 0) as [[seeked m1]| |] eqn:R; cbn [bind] in H; try discriminate H.
  pose proof (resolve_loop_ls fold c C _ _ _ _ _ _ eq_refl (or_introl eq_refl) R) as L.
  destruct (Nat.eqb seeked 0) eqn:Z.
  - cbn [bind] in H. inversion H; subst. split; [exists 0; split; [reflexivity | now left] | reflexivity].
  - destruct (is_char_boundary c seeked); cbn [bind] in H; [|discriminate H]. inversion H; subst.
    split; [exists seeked; split; [reflexivity | exact L] | reflexivity].
Qed.

(* what is left of a paragraph after the reference definitions *)
Lemma ALS_refdefs fold m c c' hc m' : nocr c -> ALS c -> resolve_refdefs fold m c = Ok (c', hc, m') ->
  nocr c' /\ ALS c' /\ (hc = true -> is_blank c' = false) /\ (hc = false -> c' = []).
Proof.
  intros C A H. destruct (resolve_refdefs_ls _ _ _ _ _ _ C H) as [(k & -> & Lk) ->].
  split; [now apply nocr_skipn|]. split; [now apply ALS_skipn|].
  split; [intro E; now apply negb_true_iff in E|].
  intro E. apply negb_false_iff in E. destruct (A k Lk) as [Z|Z]; [exact Z | congruence].
Qed.
