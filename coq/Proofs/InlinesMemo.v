(* Proofs/InlinesMemo.v — soundness of the backtick memo of scan_to_closing_backtick (C06 mechanism; finding INL-1
   repaired): the parser that consults the memo (`scanned_for_backticks && backticks[n] <= pos` answers "no closer"
   without scanning) computes the same result as the parser that always scans.

   Invariant (`Inv`): the table has MAXBACKTICKS + 1 entries and, once a scan has reached the end of the input,
   every maximal backtick run of length n <= MAXBACKTICKS that starts at or after `pos` starts at or before
   backticks[n].  It is established by the first complete scan (`stcb_complete`), kept by every later scan because
   the table is frozen from then on (`stcb_frozen`), and kept by every other arm of parse_inline because they leave
   the table alone and never move `pos` backwards (`parse_inline_cases`).  Under the invariant a scan that the
   memo skips would have found nothing (`stcb_found` + the invariant), and since a frozen scan changes nothing the
   two parsers stay in the SAME state. *)
From Coq Require Import List NArith ZArith Bool Strings.String Lia.
From V Require Import Base.Bytes Base.Res Gen.StrLeafGen Gen.Consts Gen.Special Model.Special
     Model.Scan Model.Strings Model.Entity Model.LinkUrl Model.AutolinkLeaf Model.Spx Model.Ast Model.Inlines
     Proofs.InlinesProofs Proofs.InlinesTotalAutolink.
Import ListNotations.
Local Open Scope list_scope.

(* ------------------------------------------------------------------ list_set *)
Lemma list_set_length {A} (l : list A) : forall i v, List.length (list_set l i v) = List.length l.
Proof. induction l as [|x l IH]; intros [|i] v; simpl; auto. Qed.

Lemma nth_list_set_same {A} (l : list A) : forall i v d, i < List.length l -> nth i (list_set l i v) d = v.
Proof. induction l as [|x l IH]; intros [|i] v d H; simpl in *; try lia; auto. apply IH. lia. Qed.

Lemma nth_list_set_cases {A} (l : list A) : forall i v n d,
  nth n (list_set l i v) d = nth n l d \/ nth n (list_set l i v) d = v.
Proof.
  induction l as [|x l IH]; intros [|i] v [|n] d; simpl; auto.
Qed.

Lemma skipn_cons_nth {A} (l : list A) : forall p c r,
  skipn p l = c :: r -> nth_error l p = Some c /\ skipn (S p) l = r.
Proof.
  induction l as [|x l IH]; intros [|p] c r H; simpl in *; try discriminate.
  - inversion H; auto.
  - apply IH in H. exact H.
Qed.

Lemma skipn_nil_nth {A} (l : list A) : forall p, skipn p l = [] -> nth_error l p = None.
Proof.
  induction l as [|x l IH]; intros [|p] H; simpl in *; try discriminate; auto.
Qed.

Lemma nth_error_skipn {A} (l : list A) : forall p n, nth_error (skipn p l) n = nth_error l (p + n).
Proof.
  induction l as [|x l IH]; intros [|p] n; simpl; auto. destruct n; reflexivity.
Qed.

Lemma count_while_b_stop f (l : bytes) :
  match nth_error l (count_while_b f l) with Some c => f c = false | None => True end.
Proof.
  induction l as [|x l IH]; simpl; auto. destruct (f x) eqn:E; simpl; auto.
Qed.

Section Memo.
Variable inp : bytes.

(* the byte at i is a backtick *)
Definition bq (i : nat) : bool := match nth_error inp i with Some c => beqb c x60 | None => false end.

(* a maximal run of n >= 1 backticks starts at q *)
Definition isrun (q n : nat) : Prop :=
  1 <= n /\ (forall i, q <= i < q + n -> bq i = true) /\ bq (q + n) = false /\ (q = 0 \/ bq (q - 1) = false).

(* the state of the scanning loop at p with `run` backticks just read *)
Definition LI (p run : nat) : Prop :=
  run <= p /\ (forall i, p - run <= i < p -> bq i = true) /\ (p - run = 0 \/ bq (p - run - 1) = false).

Lemma LI_step_tick p run : LI p run -> bq p = true -> LI (S p) (S run).
Proof.
  intros (H1 & H2 & H3) Hb. unfold LI. replace (S p - S run) with (p - run) by lia.
  split; [lia|]. split; [|exact H3].
  intros i Hi. destruct (Nat.eq_dec i p) as [->|Hn]; [exact Hb|]. apply H2. lia.
Qed.

Lemma LI_step_other p : bq p = false -> LI (S p) 0.
Proof.
  intro Hb. unfold LI. split; [lia|]. split; [intros i Hi; lia|].
  right. replace (S p - 0 - 1) with p by lia. exact Hb.
Qed.

Lemma LI_run_here p run : LI p (S run) -> bq p = false -> isrun (p - S run) (S run).
Proof.
  intros (H1 & H2 & H3) Hb. unfold isrun. split; [lia|]. split.
  - intros i Hi. apply H2. lia.
  - split; [|exact H3]. replace (p - S run + S run) with p by lia. exact Hb.
Qed.

(* a run that starts inside the backticks just read is that run *)
Lemma LI_run_unique p run q n :
  LI p run -> bq p = false -> isrun q n -> p - run <= q -> q < p -> q = p - run /\ n = run.
Proof.
  intros (H1 & H2 & H3) Hb (R1 & R2 & R3 & R4) Hq1 Hq2.
  assert (q = p - run) as ->.
  { destruct (Nat.eq_dec q (p - run)) as [E|E]; [exact E|exfalso].
    destruct R4 as [R4|R4]; [lia|]. rewrite H2 in R4; [discriminate|lia]. }
  split; [reflexivity|].
  destruct (Nat.lt_trichotomy n run) as [Hlt|[E|Hgt]]; [exfalso|exact E|exfalso].
  - rewrite H2 in R3; [discriminate|lia].
  - rewrite R2 in Hb; [discriminate|lia].
Qed.

Lemma bq_skipn_cons p c r : skipn p inp = c :: r -> bq p = beqb c x60.
Proof. intro H. apply skipn_cons_nth in H. unfold bq. destruct H as [-> _]. reflexivity. Qed.

Lemma bq_skipn_nil p : skipn p inp = [] -> bq p = false.
Proof. intro H. apply skipn_nil_nth in H. unfold bq. rewrite H. reflexivity. Qed.

Lemma isrun_bq q n : isrun q n -> bq q = true.
Proof. intros (R1 & R2 & _). apply R2. lia. Qed.

(* ------------------------------------------------------------------ the loop *)
Definition fin_run (fr : bool) (run p : nat) (b : list nat) : list nat :=
  if negb fr && Nat.leb run maxbt then list_set b run (p - run) else b.

Lemma stcb_nil p run otl fr b :
  stcb_loop [] p run otl fr b =
  match run with
  | O => (None, b, true)
  | _ => if Nat.eqb run otl then (Some p, fin_run fr run p b, false) else (None, fin_run fr run p b, true)
  end.
Proof. destruct run; reflexivity. Qed.

Lemma stcb_cons c r p run otl fr b :
  stcb_loop (c :: r) p run otl fr b =
  if beqb c x60 then stcb_loop r (S p) (S run) otl fr b
  else match run with
       | O => stcb_loop r (S p) 0 otl fr b
       | _ => if Nat.eqb run otl then (Some p, fin_run fr run p b, false)
              else stcb_loop r (S p) 0 otl fr (fin_run fr run p b)
       end.
Proof. destruct run; reflexivity. Qed.

Lemma fin_run_entries fr run p b n :
  List.length (fin_run fr run p b) = List.length b /\
  (nth n (fin_run fr run p b) 0 = nth n b 0 \/ nth n (fin_run fr run p b) 0 = p - run).
Proof.
  unfold fin_run. destruct (negb fr && Nat.leb run maxbt); [|auto].
  split; [apply list_set_length|apply nth_list_set_cases].
Qed.

Lemma fin_run_same run p b :
  run <= maxbt -> run < List.length b -> nth run (fin_run false run p b) 0 = p - run.
Proof.
  intros H1 H2. unfold fin_run. apply Nat.leb_le in H1. rewrite H1. cbn [negb andb].
  apply nth_list_set_same. exact H2.
Qed.

(* a closer that the scan reports is a maximal run of the wanted length *)
Lemma stcb_found rest : forall p run otl fr b e b' sc,
  rest = skipn p inp -> LI p run ->
  stcb_loop rest p run otl fr b = (Some e, b', sc) ->
  isrun (e - otl) otl /\ p - run <= e - otl.
Proof.
  induction rest as [|c r IH]; intros p run otl fr b e b' sc Hr HL H; simpl in H; symmetry in Hr.
  - pose proof (bq_skipn_nil p Hr) as Hb.
    destruct run as [|run]; [discriminate|].
    destruct (Nat.eqb (S run) otl) eqn:E; [|discriminate]. apply Nat.eqb_eq in E. inversion H; subst.
    split; [apply LI_run_here; assumption|lia].
  - pose proof (bq_skipn_cons p c r Hr) as Hb. apply skipn_cons_nth in Hr. destruct Hr as [_ Hr]. symmetry in Hr.
    destruct (beqb c x60).
    + apply IH in H; [|exact Hr|apply LI_step_tick; assumption]. destruct H as [Ha Hc]. split; [exact Ha|lia].
    + destruct run as [|run].
      * apply IH in H; [|exact Hr|apply LI_step_other; assumption]. destruct H as [Ha Hc]. split; [exact Ha|lia].
      * destruct (Nat.eqb (S run) otl) eqn:E.
        -- apply Nat.eqb_eq in E. inversion H; subst. split; [apply LI_run_here; assumption|lia].
        -- apply IH in H; [|exact Hr|apply LI_step_other; assumption]. destruct H as [Ha Hc]. split; [exact Ha|lia].
Qed.

(* every entry is left alone or set to a position at or after the start of the current run *)
Lemma stcb_entries rest : forall p run otl fr b r b' sc n,
  stcb_loop rest p run otl fr b = (r, b', sc) ->
  List.length b' = List.length b /\ (nth n b' 0 = nth n b 0 \/ p - run <= nth n b' 0).
Proof.
  induction rest as [|c r0 IH]; intros p run otl fr b r b' sc n H.
  - rewrite stcb_nil in H.
    destruct run as [|run]; [inversion H; subst; auto|].
    destruct (fin_run_entries fr (S run) p b n) as [Hl Hf].
    destruct (Nat.eqb (S run) otl); inversion H; subst; (split; [exact Hl|]); destruct Hf as [Hf|Hf]; auto; right; rewrite Hf; lia.
  - rewrite stcb_cons in H.
    destruct (beqb c x60).
    + apply (IH _ _ _ _ _ _ _ _ n) in H. destruct H as [Hl [Hn|Hn]]; (split; [exact Hl|]); auto; right; lia.
    + destruct run as [|run].
      * apply (IH _ _ _ _ _ _ _ _ n) in H. destruct H as [Hl [Hn|Hn]]; (split; [exact Hl|]); auto; right; lia.
      * destruct (fin_run_entries fr (S run) p b n) as [Hl1 Hf].
        destruct (Nat.eqb (S run) otl).
        -- inversion H; subst. split; [exact Hl1|]. destruct Hf as [Hf|Hf]; auto. right. rewrite Hf. lia.
        -- apply (IH _ _ _ _ _ _ _ _ n) in H. destruct H as [Hl Hn]. split; [congruence|].
           destruct Hn as [Hn|Hn]; [|right; lia]. rewrite Hn. destruct Hf as [Hf|Hf]; auto. right. rewrite Hf. lia.
Qed.

(* the loop either finds a closer or reaches the end *)
Lemma stcb_outcome rest : forall p run otl fr b r b' sc,
  stcb_loop rest p run otl fr b = (r, b', sc) -> (r = None /\ sc = true) \/ (exists e, r = Some e /\ sc = false).
Proof.
  induction rest as [|c r0 IH]; intros p run otl fr b r b' sc H; simpl in H.
  - destruct run as [|run]; [inversion H; auto|]. destruct (Nat.eqb (S run) otl); inversion H; eauto.
  - destruct (beqb c x60); [eapply IH; exact H|].
    destruct run as [|run]; [eapply IH; exact H|].
    destruct (Nat.eqb (S run) otl); [inversion H; eauto|eapply IH; exact H].
Qed.

(* once a scan has reached the end the table is final *)
Lemma stcb_frozen rest : forall p run otl b r b' sc,
  stcb_loop rest p run otl true b = (r, b', sc) -> b' = b.
Proof.
  induction rest as [|c r0 IH]; intros p run otl b r b' sc H; simpl in H.
  - destruct run as [|run]; [inversion H; auto|]. destruct (Nat.eqb (S run) otl); inversion H; auto.
  - destruct (beqb c x60); [eapply IH; exact H|].
    destruct run as [|run]; [eapply IH; exact H|].
    destruct (Nat.eqb (S run) otl); [inversion H; auto|eapply IH; exact H].
Qed.

(* a scan that reaches the end has recorded, for every length, a position at or after every run it passed *)
Lemma stcb_complete rest : forall p run otl b b',
  rest = skipn p inp -> LI p run -> S maxbt <= List.length b ->
  stcb_loop rest p run otl false b = (None, b', true) ->
  forall q n, isrun q n -> n <= maxbt -> p - run <= q -> q <= nth n b' 0.
Proof.
  induction rest as [|c r IH]; intros p run otl b b' Hr HL Hlen H q n Hq Hn Hpq; symmetry in Hr.
  - rewrite stcb_nil in H.
    pose proof (bq_skipn_nil p Hr) as Hb.
    assert (q < p) as Hqp.
    { destruct (Nat.lt_ge_cases q p) as [L|L]; [exact L|exfalso].
      pose proof (isrun_bq q n Hq) as Hbq. unfold bq in Hbq.
      apply skipn_nil_nth in Hr.
      assert (nth_error inp q = None) as Hnone.
      { apply nth_error_None. apply nth_error_None in Hr. lia. }
      rewrite Hnone in Hbq. discriminate. }
    destruct run as [|run]; [lia|].
    destruct (LI_run_unique p (S run) q n HL Hb Hq Hpq Hqp) as [-> ->].
    destruct (Nat.eqb (S run) otl); inversion H; subst.
    rewrite fin_run_same; lia.
  - rewrite stcb_cons in H.
    pose proof (bq_skipn_cons p c r Hr) as Hb. apply skipn_cons_nth in Hr. destruct Hr as [_ Hr]. symmetry in Hr.
    destruct (beqb c x60).
    + eapply (IH (S p) (S run)); [exact Hr|apply LI_step_tick; assumption|exact Hlen|exact H|exact Hq|exact Hn|lia].
    + assert (q <> p) as Hne.
      { intros ->. pose proof (isrun_bq p n Hq) as Hbq. congruence. }
      destruct run as [|run].
      * eapply (IH (S p) 0); [exact Hr|apply LI_step_other; assumption|exact Hlen|exact H|exact Hq|exact Hn|lia].
      * destruct (Nat.eqb (S run) otl); [discriminate|].
        destruct (Nat.lt_ge_cases q p) as [L|L].
        -- destruct (LI_run_unique p (S run) q n HL Hb Hq Hpq L) as [-> ->].
           destruct (stcb_entries _ _ _ _ _ _ _ _ _ (S run) H) as [_ [Hs|Hs]]; [|lia].
           rewrite Hs, fin_run_same; lia.
        -- eapply (IH (S p) 0); [exact Hr|apply LI_step_other; assumption| |exact H|exact Hq|exact Hn|lia].
           destruct (fin_run_entries false (S run) p b 0) as [Hl _]. rewrite Hl. exact Hlen.
Qed.

(* ------------------------------------------------------------------ the invariant *)
Definition Inv' (p : nat) (b : list nat) (sc : bool) : Prop :=
  List.length b = S maxbt /\
  (sc = true -> forall q n, isrun q n -> n <= maxbt -> p <= q -> q <= nth n b 0).
Definition Inv (s : st) : Prop := Inv' (pos s) (bt s) (scanned s).

Lemma Inv'_mono p p' b sc : Inv' p b sc -> p <= p' -> Inv' p' b sc.
Proof. intros [H1 H2] Hp. split; [exact H1|]. intros Hs q n Hq Hn Hpq. apply H2; auto. lia. Qed.

Lemma Inv_init sl rs0 : Inv (init_st sl rs0).
Proof. split; cbn [init_st bt scanned]; [apply repeat_length|discriminate]. Qed.

(* scans that start at a byte that is not a backtick *)
Lemma stcb_found0 p otl fr b e b' sc :
  bq p = false -> stcb_loop (skipn p inp) p 0 otl fr b = (Some e, b', sc) -> isrun (e - otl) otl /\ p < e - otl.
Proof.
  intros Hb H. destruct (skipn p inp) as [|c r] eqn:Hr; simpl in H; [discriminate|].
  rewrite <- (bq_skipn_cons p c r Hr), Hb in H.
  apply skipn_cons_nth in Hr. destruct Hr as [_ Hr].
  apply stcb_found in H; [|symmetry; exact Hr|apply LI_step_other; exact Hb].
  destruct H as [Ha Hc]. split; [exact Ha|lia].
Qed.

Lemma stcb_complete0 p otl b b' :
  bq p = false -> S maxbt <= List.length b ->
  stcb_loop (skipn p inp) p 0 otl false b = (None, b', true) ->
  forall q n, isrun q n -> n <= maxbt -> p <= q -> q <= nth n b' 0.
Proof.
  intros Hb Hlen H q n Hq Hn Hpq.
  assert (q <> p) as Hne by (intros ->; pose proof (isrun_bq p n Hq); congruence).
  destruct (skipn p inp) as [|c r] eqn:Hr; simpl in H.
  - exfalso. pose proof (isrun_bq q n Hq) as Hbq. unfold bq in Hbq.
    apply skipn_nil_nth in Hr.
    assert (nth_error inp q = None) as Hnone by (apply nth_error_None; apply nth_error_None in Hr; lia).
    rewrite Hnone in Hbq. discriminate.
  - rewrite <- (bq_skipn_cons p c r Hr), Hb in H.
    apply skipn_cons_nth in Hr. destruct Hr as [_ Hr].
    eapply (stcb_complete r (S p) 0); [symmetry; exact Hr|apply LI_step_other; exact Hb|exact Hlen|exact H|exact Hq|exact Hn|lia].
Qed.

Lemma st_eta s : set_bt s (bt s) (scanned s) = s.
Proof. destruct s; reflexivity. Qed.

(* the memo never changes the answer, and not the state either *)
Lemma scan_memo_eq s otl :
  Inv s -> bq (pos s) = false ->
  scan_to_closing_backtick true inp s otl = scan_to_closing_backtick false inp s otl.
Proof.
  intros [Hlen HI] Hb. unfold scan_to_closing_backtick.
  destruct (Nat.ltb maxbt otl) eqn:Emax; [reflexivity|]. apply Nat.ltb_ge in Emax.
  cbn [andb].
  destruct (scanned s) eqn:Esc; [|reflexivity].
  destruct (Nat.leb (nth otl (bt s) 0) (pos s)) eqn:Ele; [|reflexivity]. apply Nat.leb_le in Ele.
  cbn [andb orb].
  destruct (stcb_loop (skipn (pos s) inp) (pos s) 0 otl true (bt s)) as [[r b'] sc] eqn:El.
  pose proof (stcb_frozen _ _ _ _ _ _ _ _ El) as ->.
  destruct r as [e|].
  - exfalso. apply stcb_found0 in El; [|exact Hb]. destruct El as [Hrun Hlt].
    specialize (HI eq_refl (e - otl) otl Hrun Emax). lia.
  - f_equal. rewrite <- Esc at 1. symmetry. apply st_eta.
Qed.

(* the scan keeps the invariant and the position *)
Lemma scan_keeps_inv memo s otl r s2 :
  Inv s -> bq (pos s) = false ->
  scan_to_closing_backtick memo inp s otl = (r, s2) -> Inv s2 /\ pos s2 = pos s.
Proof.
  intros HI0 Hb H. unfold scan_to_closing_backtick in H.
  destruct (Nat.ltb maxbt otl); [inversion H; subst; auto|].
  destruct (memo && scanned s && Nat.leb (nth otl (bt s) 0) (pos s)); [inversion H; subst; auto|].
  destruct (stcb_loop (skipn (pos s) inp) (pos s) 0 otl (scanned s) (bt s)) as [[r' b'] sc] eqn:El.
  inversion H; subst. clear H. split; [|reflexivity].
  destruct HI0 as [Hlen HI]. unfold Inv, Inv'. cbn [pos bt scanned set_bt].
  destruct (stcb_entries _ _ _ _ _ _ _ _ _ 0 El) as [Hl _].
  split; [congruence|].
  destruct (scanned s) eqn:Esc.
  - pose proof (stcb_frozen _ _ _ _ _ _ _ _ El) as ->. intros _. apply HI. reflexivity.
  - cbn [orb]. intros ->.
    destruct (stcb_outcome _ _ _ _ _ _ _ _ _ El) as [[-> _]|[e [_ Hc]]]; [|discriminate].
    apply (stcb_complete0 (pos s) otl (bt s) b' Hb); [lia|exact El].
Qed.

Lemma count_eq_stop c p : c = x60 -> bq (p + count_eq inp c p) = false.
Proof.
  intros ->. unfold count_eq, bq.
  pose proof (count_while_b_stop (beqb x60) (skipn p inp)) as H.
  rewrite nth_error_skipn in H.
  destruct (nth_error inp (p + count_while_b (beqb x60) (skipn p inp))) as [c|]; [|reflexivity].
  rewrite beqb_sym. exact H.
Qed.

Section Arms.
Variable o : iopts.
Variable u : oracle.
Variable lo : list N.
Variable start_line : N.
Variable refmap : list (bytes * (bytes * bytes)).
Variable maxref : N.

Lemma handle_backticks_memo_eq s :
  Inv s -> handle_backticks true inp lo s = handle_backticks false inp lo s.
Proof.
  intro HI. unfold handle_backticks.
  rewrite scan_memo_eq; [reflexivity| |].
  - unfold Inv. cbn [pos bt scanned set_pos]. eapply Inv'_mono; [exact HI|lia].
  - cbn [pos set_pos]. apply count_eq_stop. reflexivity.
Qed.

Lemma adjust_keeps s n ml ex s' n' :
  adjust_node_newlines inp lo s n ml ex = Ok (s', n') ->
  pos s' = pos s /\ bt s' = bt s /\ scanned s' = scanned s.
Proof. unfold adjust_node_newlines. intro H. inv; auto. Qed.

Lemma handle_backticks_keeps_inv memo s s' n :
  Inv s -> handle_backticks memo inp lo s = Ok (s', n) -> Inv s'.
Proof.
  intros HI H. unfold handle_backticks in H.
  set (p1 := pos s + count_eq inp x60 (pos s)) in *.
  destruct (scan_to_closing_backtick memo inp (set_pos s p1) (count_eq inp x60 (pos s))) as [e s2] eqn:Es.
  assert (Inv s2 /\ pos s2 = p1) as [HI2 Hp2].
  { eapply (scan_keeps_inv memo (set_pos s p1)); [| |exact Es].
    - unfold Inv. cbn [pos bt scanned set_pos]. eapply Inv'_mono; [exact HI|unfold p1; lia].
    - cbn [pos set_pos]. apply count_eq_stop. reflexivity. }
  destruct e as [endpos|].
  - assert (p1 <= endpos) as Hge.
    { unfold scan_to_closing_backtick in Es.
      destruct (Nat.ltb maxbt (count_eq inp x60 (pos s))); [inversion Es|].
      destruct (_ && _ && _); [inversion Es|].
      cbn [pos set_pos] in Es.
      destruct (stcb_loop _ _ _ _ _ _) as [[r b'] sc] eqn:El. inversion Es; subst.
      apply stcb_loop_ge in El. exact El. }
    inv. apply adjust_keeps in H. destruct H as (Hp & Hb & Hs).
    unfold Inv. rewrite Hp, Hb, Hs. cbn [pos bt scanned set_pos].
    eapply Inv'_mono; [exact HI2|lia].
  - inv. unfold Inv. cbn [pos bt scanned set_pos]. eapply Inv'_mono; [exact HI2|lia].
Qed.

(* ---- the other arms leave the table alone and never move backwards ---- *)
Definition keeps (s s' : st) : Prop := bt s' = bt s /\ scanned s' = scanned s.

Ltac kp :=
  unfold keeps;
  cbn [bt scanned pos set_pos set_linecol set_flags set_lineoff set_refsize set_delims set_brackets set_within set_bt
       set_nlo set_sibs push_item fresh_id fst snd];
  repeat match goal with |- context [if ?b then _ else _] => destruct b end;
  repeat match goal with |- context [match ?x with Some _ => _ | None => _ end] => destruct x end;
  auto.

Lemma keeps_refl s : keeps s s.
Proof. split; reflexivity. Qed.

Lemma keeps_trans s1 s2 s3 : keeps s1 s2 -> keeps s2 s3 -> keeps s1 s3.
Proof. unfold keeps. intros [A B] [C D]. split; congruence. Qed.

Lemma kp_newline s s' n : handle_newline inp s = Ok (s', n) -> keeps s s'.
Proof. unfold handle_newline. intro H. inv; kp. Qed.

Lemma kp_backslash s s' n : handle_backslash o inp s = Ok (s', n) -> keeps s s'.
Proof. unfold handle_backslash, skip_line_end. intro H. inv; kp. Qed.

Lemma kp_entity s s' n : handle_entity inp s = Ok (s', n) -> keeps s s'.
Proof. unfold handle_entity. intro H. inv; kp. Qed.

Lemma kp_pointy s s' n : handle_pointy_brace inp lo s = Ok (s', n) -> keeps s s'.
Proof.
  unfold handle_pointy_brace. intro H.
  inv1. inv1.
  { inv; kp. }
  inv1.
  { inv; kp. }
  match type of H with (let '(_, _) := ?x in _) = _ => destruct x as [ml [[[fc fd] fp] fm]] end.
  destruct ml.
  - inv. apply adjust_keeps in H. destruct H as (_ & Hb & Hs). unfold keeps. rewrite Hb, Hs. kp.
  - inv. kp.
Qed.

Lemma kp_delim s c s' n d : handle_delim o u inp s c = Ok (s', n, d) -> keeps s s'.
Proof.
  unfold handle_delim. intro H.
  destruct (scan_delims o u inp (pos s) c) as [[[p' nd] co] cc].
  inv; kp.
Qed.

Lemma kp_hyphen s s' n : handle_hyphen o inp s = Ok (s', n) -> keeps s s'.
Proof. unfold handle_hyphen. intro H. inv; kp. Qed.

Lemma kp_period s s' n : handle_period o inp s = Ok (s', n) -> keeps s s'.
Proof. unfold handle_period. intro H. inv; kp. Qed.

Lemma kp_dollars s s' n : handle_dollars o inp lo s = Ok (s', n) -> keeps s s'.
Proof.
  unfold handle_dollars. intro H.
  inv1. { inv; kp. }
  inv1. inv1.
  all: match type of H with match ?e with _ => _ end = _ => destruct e as [endpos|] end.
  all: inv; try (apply adjust_keeps in H; destruct H as (_ & Hb & Hs); unfold keeps; rewrite Hb, Hs); kp.
Qed.

Lemma kp_wikilink s s' n : handle_wikilink o inp s = Ok (Some (s', n)) -> keeps s s'.
Proof.
  unfold handle_wikilink. intro H.
  destruct (wikilink_url_link_label o inp (pos s)) as [[[url ll] p']|]; [|discriminate].
  inv; kp.
Qed.

Lemma kp_close_bracket_match s img url title s' :
  close_bracket_match o inp s img url title = Ok s' -> keeps s s'.
Proof. unfold close_bracket_match, top_bracket, pop_bracket, fresh_id. intro H. inv; kp. Qed.

Lemma kp_ref_lookup s lab s' r : ref_lookup refmap maxref s lab = Ok (s', r) -> keeps s s'.
Proof. unfold ref_lookup. intro H. inv; kp. Qed.

Lemma kp_close_bracket s0 s' n : handle_close_bracket o u inp refmap maxref s0 = Ok (s', n) -> keeps s0 s'.
Proof.
  unfold handle_close_bracket. intro H. cbv zeta in H. cbn [pos set_pos] in H.
  destruct (link_label inp (S (pos s0))) as [[l pl]|] eqn:El.
  - inv;
      repeat match goal with
             | Hc : close_bracket_match _ _ _ _ _ _ = Ok _ |- _ => apply kp_close_bracket_match in Hc; destruct Hc as [Hc1 Hc2]; unfold keeps; rewrite ?Hc1, ?Hc2
             | Hr : ref_lookup _ _ _ _ = Ok _ |- _ => apply kp_ref_lookup in Hr; destruct Hr as [Hr1 Hr2]; unfold keeps; rewrite ?Hr1, ?Hr2
             end; unfold pop_bracket, fresh_id in *; inv; kp.
  - inv;
      repeat match goal with
             | Hc : close_bracket_match _ _ _ _ _ _ = Ok _ |- _ => apply kp_close_bracket_match in Hc; destruct Hc as [Hc1 Hc2]; unfold keeps; rewrite ?Hc1, ?Hc2
             | Hr : ref_lookup _ _ _ _ = Ok _ |- _ => apply kp_ref_lookup in Hr; destruct Hr as [Hr1 Hr2]; unfold keeps; rewrite ?Hr1, ?Hr2
             end; unfold pop_bracket, fresh_id in *; inv; kp.
Qed.

Lemma kp_autolink s m s' n :
  handle_autolink_with o s m = Ok (Some (s', n)) -> keeps s s' /\ pos s <= pos s'.
Proof.
  unfold handle_autolink_with. intro H. inv; (split; [kp|cbn [pos set_pos set_sibs]; lia]).
Qed.

Ltac fk :=
  unfold keeps;
  cbn [push_item fresh_id fst snd bt scanned pos set_pos set_linecol set_flags set_lineoff set_refsize set_delims
       set_brackets set_within set_bt set_nlo set_sibs];
  repeat split; auto; try lia.

Lemma done_push s1 s2 n :
  keeps s1 s2 -> pos s1 < pos s2 -> keeps s1 (fst (push_item s2 n)) /\ pos s1 < pos (fst (push_item s2 n)).
Proof. unfold keeps. cbn [push_item fst bt scanned pos set_sibs]. intros [A B] C. repeat split; auto. Qed.

(* parse_inline: the backtick arm, or an arm that leaves the table alone and moves forward *)
Lemma parse_inline_cases memo s s' :
  parse_inline memo o u inp lo start_line refmap maxref s = Ok (Some s') ->
  (bq (pos s) = true /\
   exists off s2 n, handle_backticks memo inp lo (set_lineoff s off) = Ok (s2, n) /\ s' = fst (push_item s2 n))
  \/ (keeps s s' /\ pos s < pos s').
Proof.
  intro H. unfold parse_inline in H.
  destruct (peek inp (pos s)) as [c|] eqn:Ec; [|discriminate]. unfold peek in Ec.
  inv1. destruct (nth_error lo (N.to_nat a)) as [off|]; [|discriminate].
  remember (set_lineoff s off) as s1 eqn:Hs1.
  assert (keeps s s1 /\ pos s1 = pos s) as Hk by (subst s1; split; [split|]; reflexivity).
  cut ((bq (pos s1) = true /\ exists s2 n, handle_backticks memo inp lo s1 = Ok (s2, n) /\ s' = fst (push_item s2 n))
       \/ (keeps s1 s' /\ pos s1 < pos s')).
  { destruct Hk as [[K1 K2] K3].
    intros [[Hb (s2 & n & A & B)]|[[A1 A2] B]].
    - left. rewrite K3 in Hb. split; [exact Hb|]. exists off, s2, n. subst s1. auto.
    - right. split; [split; congruence|lia]. }
  rewrite <- (proj2 Hk) in Ec. clear Hs1 Hk E a s.
  destruct (beqb c x00) eqn:E00; [discriminate|].
  destruct (beqb c x0d || beqb c x0a) eqn:Enl.
  { unfold append in H. inv. right. apply done_push; [eapply kp_newline; eauto|eapply adv_newline; eauto]. }
  destruct (beqb c x60) eqn:Ebt.
  { unfold append in H. inv. left. split; [unfold bq; rewrite Ec; exact Ebt|]. eauto. }
  destruct (beqb c x5c) eqn:Ebs.
  { unfold append in H. inv. right. apply done_push; [eapply kp_backslash; eauto|eapply adv_backslash; eauto]. }
  destruct (beqb c x26) eqn:Eamp.
  { unfold append in H. inv. right. apply done_push; [eapply kp_entity; eauto|eapply adv_entity; eauto]. }
  destruct (beqb c x3c) eqn:Elt.
  { unfold append in H. inv. right. apply done_push; [eapply kp_pointy; eauto|eapply adv_pointy; eauto]. }
  destruct (beqb c x3a) eqn:Ecolon.
  { right. apply beqb_eq in Ecolon. subst c. inv1.
    match type of H with match ?w with _ => _ end = _ => destruct w as [[s2 n]|] end.
    - match goal with E : (if ?b then _ else _) = Ok _ |- _ =>
        destruct b; [|discriminate E]; pose proof (adv_autolink_url _ _ _ _ _ _ Ec E) as Hadv;
        apply kp_autolink in E; destruct E as [[K1 K2] K3] end.
      inv; fk.
    - unfold text1, append in H. inv; fk. }
  match type of H with (if ?b then _ else _) = _ => destruct b eqn:Ew end.
  { right. inv1.
    match type of H with match ?w with _ => _ end = _ => destruct w as [[s2 n]|] end.
    - match goal with E : handle_autolink_with _ _ _ = Ok _ |- _ =>
        pose proof (adv_autolink_www _ _ _ _ _ _ E) as Hadv;
        apply kp_autolink in E; destruct E as [[K1 K2] K3] end.
      inv; fk.
    - unfold text1, append in H. inv; fk. }
  match type of H with (if ?b then _ else _) = _ => destruct b eqn:Edel end.
  { right. inv;
      match goal with E : handle_delim _ _ _ _ _ = Ok _ |- _ =>
        pose proof (kp_delim _ _ _ _ _ E) as [K1 K2];
        eapply adv_delim in E; [|exact Ec|unfold beqb; apply N.eqb_refl] end;
      unfold push_item in *; inv; unfold keeps;
      match goal with |- context [match ?x with Some _ => _ | None => _ end] => destruct x end;
      cbn [bt scanned pos set_sibs set_delims]; repeat split; auto; lia. }
  destruct (beqb c x2d) eqn:Ehy.
  { unfold append in H. inv. right. apply done_push; [eapply kp_hyphen; eauto|eapply adv_hyphen; eauto]. }
  destruct (beqb c x2e) eqn:Epe.
  { unfold append in H. inv. right. apply done_push; [eapply kp_period; eauto|eapply adv_period; eauto]. }
  destruct (beqb c x5b) eqn:Eob.
  { right. cbv zeta in H. inv1.
    match type of H with match ?w with _ => _ end = _ => destruct w as [[s2 n]|] end.
    - match goal with E : (if ?b then _ else _) = Ok _ |- _ =>
        destruct b; [|discriminate E]; pose proof (kp_wikilink _ _ _ E) as [K1 K2];
        apply adv_wikilink in E; cbn [pos set_pos] in E end.
      inv. unfold keeps. cbn [push_item fst bt scanned pos set_sibs set_pos] in *. repeat split; auto; lia.
    - inv; unfold push_item, push_bracket in *; inv; kp; cbn [pos set_pos set_within set_brackets set_nlo set_sibs];
        repeat match goal with |- context [if ?b then _ else _] => destruct b end;
        cbn [bt scanned pos set_pos set_within set_brackets set_nlo set_sibs]; repeat split; auto; lia. }
  destruct (beqb c x5d) eqn:Ecb.
  { right. inv1.
    match goal with E : handle_close_bracket _ _ _ _ _ _ = Ok ?p |- _ =>
      destruct p as [s2 n]; pose proof (kp_close_bracket _ _ _ E) as [K1 K2];
      apply adv_close_bracket in E; cbn [pos bt scanned set_within] in * end.
    unfold push_item in *; inv; unfold keeps;
      repeat match goal with |- context [match ?x with Some _ => _ | None => _ end] => destruct x end;
      cbn [fst bt scanned pos set_sibs]; repeat split; auto; lia. }
  destruct (beqb c x21) eqn:Ebang.
  { right. cbv zeta in H. unfold append, push_bracket, push_item in H.
    inv; unfold keeps; cbn [fst bt scanned pos set_pos set_within set_brackets set_nlo set_sibs]; repeat split; auto; lia. }
  destruct (beqb c x24) eqn:Edol.
  { unfold append in H. inv. right. apply done_push; [eapply kp_dollars; eauto|eapply adv_dollars; eauto]. }
  (* default arm *)
  assert (stops_at (io_fn o) (within s1) c = false) as Hstop.
  { rewrite io_fn_tables. cbv zeta.
    match goal with |- stops_at (io_fn ?o') ?w c = false =>
      pose proof (stop_handled_bool (io_autolink o) (io_strikethrough o) (io_subscript o) (io_superscript o)
                                    (io_underline o) (io_spoiler o) (io_smart o) w c) as Hh end.
    cbv zeta in Hh.
    destruct (stops_at _ _ c); [|reflexivity].
    simpl in Hh. unfold handled in Hh. cbn [io_autolink io_strikethrough io_subscript io_superscript io_spoiler] in Hh.
    rewrite E00, Enl, Ebt, Ebs, Eamp, Elt, Ecolon, Ehy, Epe, Eob, Ecb, Ebang, Edol in Hh.
    rewrite Ew, Edel in Hh. discriminate. }
  pose proof (find_special_gt (io_fn o) (within s1) inp (pos s1) c Ec Hstop) as Hgt.
  right. cbv zeta in H. unfold append in H. inv; fk.
Qed.

Lemma parse_inline_keeps_inv memo s s' :
  Inv s -> parse_inline memo o u inp lo start_line refmap maxref s = Ok (Some s') -> Inv s'.
Proof.
  intros HI H. apply parse_inline_cases in H.
  destruct H as [[_ (off & s2 & n & A & ->)]|[[K1 K2] K3]].
  - apply handle_backticks_keeps_inv in A; [|exact HI]. exact A.
  - unfold Inv. rewrite K1, K2. eapply Inv'_mono; [exact HI|lia].
Qed.

Lemma parse_inline_memo_eq s :
  Inv s ->
  parse_inline true o u inp lo start_line refmap maxref s = parse_inline false o u inp lo start_line refmap maxref s.
Proof.
  intro HI. unfold parse_inline.
  destruct (peek inp (pos s)) as [c|]; [|reflexivity].
  destruct (nsub _ (line s) start_line) as [a| |]; cbn [bind]; try reflexivity.
  destruct (nth_error lo (N.to_nat a)) as [off|]; [|reflexivity].
  destruct (beqb c x00); [reflexivity|].
  destruct (beqb c x0d || beqb c x0a); [reflexivity|].
  destruct (beqb c x60); [|reflexivity].
  rewrite handle_backticks_memo_eq; [reflexivity|exact HI].
Qed.

Lemma inline_loop_memo_eq : forall fuel s,
  Inv s ->
  inline_loop true o u inp lo start_line refmap maxref fuel s = inline_loop false o u inp lo start_line refmap maxref fuel s.
Proof.
  induction fuel as [|f IH]; intros s HI; [reflexivity|].
  cbn [inline_loop]. rewrite <- parse_inline_memo_eq by exact HI.
  destruct (parse_inline true o u inp lo start_line refmap maxref s) as [[s'|]| |] eqn:E; cbn [bind]; try reflexivity.
  apply IH. eapply parse_inline_keeps_inv; eauto.
Qed.

Lemma parse_inlines_memo_eq rs0 :
  parse_inlines true o u inp lo start_line refmap maxref rs0 = parse_inlines false o u inp lo start_line refmap maxref rs0.
Proof.
  unfold parse_inlines. rewrite inline_loop_memo_eq; [reflexivity|apply Inv_init].
Qed.

(* the invariant along the run of the parser: for Props *)
Lemma inline_loop_inv memo : forall fuel s s',
  Inv s -> inline_loop memo o u inp lo start_line refmap maxref fuel s = Ok s' -> Inv s'.
Proof.
  induction fuel as [|f IH]; intros s s' HI H; [discriminate|].
  cbn [inline_loop] in H.
  destruct (parse_inline memo o u inp lo start_line refmap maxref s) as [[s1|]| |] eqn:E; cbn [bind] in H; try discriminate.
  - eapply IH; [|exact H]. eapply parse_inline_keeps_inv; eauto.
  - inversion H; subst. exact HI.
Qed.

End Arms.
End Memo.

Theorem backtick_memo_sound_lemma : backtick_memo_sound_full_statement.
Proof.
  intros o u content lo sl refmap maxref rs0. unfold run_inlines_gen.
  destruct (has_nul (rtrim_slice content)); [reflexivity|].
  rewrite parse_inlines_memo_eq. reflexivity.
Qed.

Theorem backtick_memo_invariant_lemma memo o u inp lo sl refmap maxref rs0 fuel s :
  inline_loop memo o u inp lo sl refmap maxref fuel (init_st sl rs0) = Ok s -> Inv inp s.
Proof. intro H. eapply inline_loop_inv; [apply Inv_init|exact H]. Qed.

(* the local form: when the memo answers "no closer" for a run of n backticks that ends just before `pos`, the scan
   it skips finds none either (from any table, frozen or not) *)
Theorem backtick_memo_local_lemma inp s otl fr b :
  Inv inp s -> bq inp (pos s) = false -> otl <= maxbt ->
  scanned s = true -> nth otl (bt s) 0 <= pos s ->
  fst (fst (stcb_loop (skipn (pos s) inp) (pos s) 0 otl fr b)) = None.
Proof.
  intros [Hlen HI] Hb Hmax Hsc Hle.
  destruct (stcb_loop (skipn (pos s) inp) (pos s) 0 otl fr b) as [[r b'] sc] eqn:El. cbn [fst].
  destruct r as [e|]; [exfalso|reflexivity].
  apply stcb_found0 in El; [|exact Hb]. destruct El as [Hrun Hlt].
  specialize (HI Hsc (e - otl) otl Hrun Hmax). lia.
Qed.
