(* Proofs/ParseValid.v — C04, tree clause, for the ONE function Model/Parse.parse_document_model:

     parse_valid_cells    structurally_valid t  for every tree t the parser model returns, PROVIDED the content of every
                          TableCell of the block tree holds neither CR nor LF (`bcells_ok`, an executable predicate on the
                          result of the block phase);
     parse_valid_no_table structurally_valid t  unconditionally when the table extension is off (the block phase then
                          creates no TableCell: ParserShapeBlocks.bvok).

   Why the premise: a TableCell accepts every inline kind except SoftBreak and LineBreak (can_contain_type), and the
   inline parser makes those two exactly at a CR / LF of its input (ParseValidInl.v).  That the cells table.rs::row cuts
   out of a line hold no line end is a fact about scanners::table_cell (the class excludes CR and LF) and about the
   block phase never appending to a cell; it is proved in ParseValidCells.v when that file is present.

   The proof lists the positions: the leaves `bleaves` enumerates are the leaves of to_node root at those positions
   (bleaves_spec), so the forest the inline model returns for a cell is the one `attach` puts under that cell. *)
From Coq Require Import List NArith Arith Bool Lia Strings.String.
From V Require Import Base.Bytes Base.Res Gen.Nodes Model.Ast Model.Strings Model.RefDef Model.Blocks Model.Inlines Model.Footnotes Model.Parse
  Spec.Shape Spec.HtmlSpec Spec.Valid Spec.ParseValidSpec
  Proofs.BlocksProofs Proofs.InlinesProofs Proofs.FootnoteProofs Proofs.ValidProofs
  Proofs.ParserShapeBlocks Proofs.ParserShapeBlocksRead Proofs.ParserShapeTablesRead Proofs.ParserShapeInl Proofs.ParserShapeFn
  Proofs.ParserShapeAttach Proofs.ParserShapeCompose Proofs.ParseProofs Proofs.ParseValidInl Proofs.ParseValidTree.
Import ListNotations.
Local Open Scope string_scope.
Local Open Scope list_scope.

(* ================================================================== 0. the premise *)
Lemma drop_while_In (f : byte -> bool) : forall l x, In x (drop_while f l) -> In x l.
Proof.
  induction l as [|y r IH]; intros x H; cbn [drop_while] in H; [exact H|].
  destruct (f y); [right; now apply IH|exact H].
Qed.

Lemma no_nl_rtrim s : no_nl s = true -> no_nl (rtrim_slice s) = true.
Proof.
  unfold no_nl, rtrim_slice. intro H. apply forallb_forall. intros x Hx. rewrite forallb_forall in H. apply H.
  apply in_rev in Hx. apply drop_while_In in Hx. now apply in_rev.
Qed.

(* ================================================================== 1. positions *)
Lemma path_eqb_eq : forall a b, path_eqb a b = true -> a = b.
Proof.
  induction a as [|x a IH]; destruct b as [|y b]; cbn [path_eqb]; intro H; try discriminate; [reflexivity|].
  apply andb_true_iff in H as [H1 H2]. apply Nat.eqb_eq in H1. subst. f_equal. now apply IH.
Qed.

Lemma passoc_In_at {A} (tbl : list (list nat * A)) p a : passoc tbl p = Some a -> In (p, a) tbl.
Proof.
  induction tbl as [|[q b] r IH]; cbn [passoc]; [discriminate|].
  destruct (path_eqb q p) eqn:E.
  - intro H. inversion H; subst. apply path_eqb_eq in E. subst. now left.
  - intro H. right. now apply IH.
Qed.

Fixpoint bleaves_kids (path : list nat) (k : nat) (l : list bnode) : list (list nat * binfo) :=
  match l with
  | [] => []
  | c :: r => bleaves (path ++ [k]) c ++ bleaves_kids path (S k) r
  end.

Lemma bleaves_node path i ch :
  bleaves path (BNode i ch) = if contains_inlines (bi_val i) then [(path, i)] else bleaves_kids path 0 ch.
Proof.
  cbn [bleaves]. destruct (contains_inlines (bi_val i)); [reflexivity|].
  generalize 0. induction ch as [|c r IH]; intro k; [reflexivity|]. cbn [bleaves_kids]. now rewrite IH.
Qed.

Lemma bleaves_kids_In path e : forall l k, In e (bleaves_kids path k l) ->
  exists j c, nth_error l j = Some c /\ In e (bleaves (path ++ [k + j]) c).
Proof.
  induction l as [|c r IH]; intros k H; cbn [bleaves_kids] in H; [contradiction|].
  apply in_app_or in H as [H|H].
  - exists 0, c. split; [reflexivity|]. now rewrite Nat.add_0_r.
  - destruct (IH _ H) as (j & c' & E & I). exists (S j), c'. split; [exact E|]. now rewrite Nat.add_succ_r.
Qed.

Lemma bleaves_spec : forall t pre p i, In (p, i) (bleaves pre t) ->
  exists q, p = pre ++ q /\ vat (to_node t) q = Some (bi_val i) /\
            (bcells_ok t = true -> is_cell_v (bi_val i) = true -> no_nl (bi_content i) = true).
Proof.
  induction t as [inf ch IH] using bnode_ind2. intros pre p i H. rewrite bleaves_node in H.
  destruct (contains_inlines (bi_val inf)).
  - destruct H as [H|[]]. inversion H; subst. exists []. split; [now rewrite app_nil_r|]. split; [reflexivity|].
    cbn [bcells_ok]. intros B C. rewrite C in B. now apply andb_true_iff in B as [B _].
  - apply bleaves_kids_In in H as (j & c & E & I). cbn [Nat.add] in I.
    rewrite Forall_forall in IH. destruct (IH c (nth_error_In _ _ E) _ _ _ I) as (q & -> & V & B).
    exists (j :: q). split; [now rewrite <- app_assoc|]. split.
    + cbn [to_node vat nch]. rewrite (map_nth_error to_node _ _ E). exact V.
    + cbn [bcells_ok]. intros Bt. apply B. apply andb_true_iff in Bt as [_ Bt].
      rewrite forallb_forall in Bt. apply Bt. eapply nth_error_In; exact E.
Qed.

(* the same for the leaves the text post-pass lists *)
Fixpoint pleaves_kids (v : node_value) (pv : option node_value) (path : list nat) (k : nat) (l : list node)
  : list (list nat * (option N * list node)) :=
  match l with
  | [] => []
  | c :: r => pleaves (Some v) pv (path ++ [k]) k c ++ pleaves_kids v pv path (S k) r
  end.

Lemma pleaves_node pv gv' path k v sp ch :
  pleaves pv gv' path k (Node v sp ch) =
  if contains_inlines v then
    [(path, (match v, k, pv, gv' with
             | Paragraph, O, Some (Item _), Some (NList _) => Some (sc sp)
             | _, _, _, _ => None
             end, ch))]
  else pleaves_kids v pv path 0 ch.
Proof.
  cbn [pleaves]. destruct (contains_inlines v); [reflexivity|].
  generalize 0. induction ch as [|c r IH]; intro i; [reflexivity|]. cbn [pleaves_kids]. now rewrite IH.
Qed.

Lemma pleaves_kids_In v pv path e : forall l k, In e (pleaves_kids v pv path k l) ->
  exists j c, nth_error l j = Some c /\ In e (pleaves (Some v) pv (path ++ [k + j]) (k + j) c).
Proof.
  induction l as [|c r IH]; intros k H; cbn [pleaves_kids] in H; [contradiction|].
  apply in_app_or in H as [H|H].
  - exists 0, c. split; [reflexivity|]. now rewrite Nat.add_0_r.
  - destruct (IH _ H) as (j & c' & E & I). exists (S j), c'. split; [exact E|]. now rewrite Nat.add_succ_r.
Qed.

Lemma pleaves_spec : forall n pv gv' pre k p ctx ch, In (p, (ctx, ch)) (pleaves pv gv' pre k n) -> gv n = true ->
  exists q v, p = pre ++ q /\ vat n q = Some v /\ inline_leaf v = true /\ forallb (ivt (is_cell_v v)) ch = true.
Proof.
  induction n as [v sp kids IH] using node_ind2. intros pv gv' pre k p ctx ch H G. rewrite pleaves_node in H.
  rewrite contains_inlines_eq in H. cbn [gv] in G. destruct (inline_leaf v) eqn:L.
  - destruct H as [H|[]]. inversion H; subst. exists [], v. split; [now rewrite app_nil_r|]. repeat split; assumption.
  - apply pleaves_kids_In in H as (j & c & E & I). cbn [Nat.add] in I.
    apply andb_true_iff in G as [_ G]. rewrite forallb_forall in G. specialize (G c (nth_error_In _ _ E)).
    rewrite Forall_forall in IH. destruct (IH c (nth_error_In _ _ E) _ _ _ _ _ _ _ I G) as (q & w & -> & V & Lw & F).
    exists (j :: q), w. split; [now rewrite <- app_assoc|]. split; [|split; assumption].
    cbn [vat nch]. now rewrite E.
Qed.

(* ================================================================== 2. the tables of Model/Parse.v *)
Lemma run_leaves_v io u refmap maxref : forall l rs tbl,
  run_leaves io u refmap maxref l rs = Ok tbl ->
  Forall (fun e => exists i, In (fst e, i) l /\
                   forall nb, (nb = true -> no_nl (bi_content i) = true) -> forallb (ivt nb) (snd e) = true) tbl.
Proof.
  induction l as [|[p i] r IH]; intros rs tbl H; cbn [run_leaves] in H.
  - inversion H. constructor.
  - destruct (run_inlines_gen true io u (bi_content i) (map N.of_nat (bi_lo i)) (N.of_nat (bi_sl i)) refmap maxref rs)
      as [out| |] eqn:E; cbn [bind] in H; try discriminate.
    destruct out as [ch rs'|w]; [|discriminate].
    destruct (run_leaves io u refmap maxref r rs') as [rest| |] eqn:E2; cbn [bind] in H; try discriminate.
    inversion H; subst. constructor.
    + cbn [fst snd]. exists i. split; [now left|]. intros nb HNB.
      unfold run_inlines_gen in E. destruct (has_nul (rtrim_slice (bi_content i))); [discriminate|].
      destruct (parse_inlines true io u (rtrim_slice (bi_content i)) (map N.of_nat (bi_lo i)) (N.of_nat (bi_sl i)) refmap maxref rs)
        as [[c q]| |] eqn:E3; cbn [bind fst snd] in E; try discriminate.
      inversion E; subst. eapply pv_parse_inlines_tree7; [|exact E3]. intro T. apply no_nl_rtrim. now apply HNB.
    + eapply Forall_impl; [|eapply IH; exact E2]. intros e (i' & I & F). exists i'. split; [now right|exact F].
Qed.

Lemma run_post_v io : forall l tbl,
  run_post io l = Ok tbl ->
  Forall (fun e => exists ctx ch, In (fst e, (ctx, ch)) l /\
                   forall nb, forallb (ivt nb) ch = true -> forallb (ivt nb) (fst (snd e)) = true) tbl.
Proof.
  induction l as [|[p [ctx ch]] r IH]; intros tbl H; cbn [run_post] in H.
  - inversion H. constructor.
  - destruct (postprocess_block io ctx ch) as [[ch' eff]| |] eqn:E; cbn [bind] in H; try discriminate.
    destruct (run_post io r) as [rest| |] eqn:E2; cbn [bind] in H; try discriminate.
    inversion H; subst. constructor.
    + cbn [fst snd]. exists ctx, ch. split; [now left|]. intros nb F. eapply pv_postprocess_tree7; [exact F|exact E].
    + eapply Forall_impl; [|eapply IH; reflexivity]. intros e (c' & h' & I & F). exists c', h'. split; [now right|exact F].
Qed.

Lemma inl_lookup_at tbl root :
  Forall (fun e => exists i, In (fst e, i) (bleaves [] root) /\
                   forall nb, (nb = true -> no_nl (bi_content i) = true) -> forallb (ivt nb) (snd e) = true) tbl ->
  bcells_ok root = true -> inl_at (inl_lookup tbl) [] (to_node root).
Proof.
  intros F B p v V L. cbn [app]. unfold inl_lookup. destruct (passoc tbl p) as [ch|] eqn:E; [|reflexivity].
  apply passoc_In_at in E. rewrite Forall_forall in F. destruct (F _ E) as (i & I & Hi). cbn [fst snd] in *.
  destruct (bleaves_spec _ _ _ _ I) as (q & Eq & Vq & C). cbn [app] in Eq. subst q.
  rewrite V in Vq. inversion Vq; subst. apply Hi. intro T. now apply C.
Qed.

Lemma post_lookup_at tbl t :
  Forall (fun e => exists ctx ch, In (fst e, (ctx, ch)) (pleaves None None [] 0 t) /\
                   forall nb, forallb (ivt nb) ch = true -> forallb (ivt nb) (fst (snd e)) = true) tbl ->
  gv t = true -> inl_at (post_lookup tbl) [] t.
Proof.
  intros F G p v V L. cbn [app]. unfold post_lookup. destruct (passoc tbl p) as [a|] eqn:E; [|reflexivity].
  apply passoc_In_at in E. rewrite Forall_forall in F. destruct (F _ E) as (ctx & ch & I & Hi). cbn [fst snd] in *.
  destruct (pleaves_spec _ _ _ _ _ _ _ _ I G) as (q & w & Eq & Vq & _ & Fw). cbn [app] in Eq. subst q.
  rewrite V in Vq. inversion Vq; subst. now apply Hi.
Qed.

(* ================================================================== 3. the theorem *)
Lemma inl_ok_tcols inl : inl_ok inl -> forall p, forallb (fnp_allv ptc) (inl p) = true.
Proof.
  intros I p. specialize (I p). eapply forallb_imp; [|exact I]. apply Forall_forall. intros n _. apply tree7_tcols.
Qed.

Theorem parse_valid_cells o u x t :
  parse_document_model o u x = Ok t ->
  exists r, parse_blocks (bopts_of o u) x = Ok r /\ (bcells_ok (br_root r) = true -> structurally_valid t = true).
Proof.
  intro H0. pose proof H0 as H. unfold parse_document_model in H.
  destruct (parse_blocks (bopts_of o u) x) as [r| |] eqn:B; cbn [bind] in H; try discriminate.
  exists r. split; [reflexivity|]. intro C.
  destruct (parse_shape _ _ _ _ H0) as (A2 & A3 & A4 & _).
  unfold after_blocks, inline_phase in H.
  destruct (run_leaves (iopts_of o) u (br_refmap r) (br_max_ref_size r) (bleaves [] (br_root r)) 0%N) as [tbl1| |] eqn:E1;
    cbn [bind] in H; try discriminate.
  unfold post_phase in H.
  set (t0 := to_node (br_root r)) in *.
  set (t1 := p_attach (inl_lookup tbl1) [] t0) in *.
  destruct (run_post (iopts_of o) (pleaves None None [] 0 (footnote_phase o u t1))) as [tbl2| |] eqn:E2;
    cbn [bind] in H; try discriminate.
  inversion H as [Ht]. clear H.
  (* the block tree *)
  pose proof (blocks_structurally_valid _ _ _ B) as SV. fold t0 in SV. rewrite structurally_valid_reduced in SV.
  apply andb_true_iff in SV as [SV T0]. apply andb_true_iff in SV as [SV _]. apply andb_true_iff in SV as [V0 S0].
  assert (TC0 : tcols t0 = true).
  { apply tables_ok_in_tcols. unfold tables_ok in T0. unfold s2 in S0. destruct (nval t0); try discriminate S0. exact T0. }
  (* the inline lists *)
  assert (I1 : inl_ok (inl_lookup tbl1)) by (apply inl_lookup_ok; eapply run_leaves_ok; exact E1).
  assert (G1 : gv t1 = true).
  { subst t1. rewrite p_attach_eq. apply attach_gv; [now apply valid_gvb|].
    apply inl_lookup_at; [eapply run_leaves_v; exact E1|exact C]. }
  assert (S1 : s2 t1 = true) by (subst t1; rewrite p_attach_eq; now apply attach_s2).
  assert (TC1 : tcols t1 = true).
  { subst t1. rewrite p_attach_eq. apply attach_allv; [now apply inl_ok_tcols|exact TC0]. }
  set (t2 := footnote_phase o u t1) in *.
  assert (G2 : gv t2 = true /\ tcols t2 = true).
  { subst t2. unfold footnote_phase. destruct (po_footnotes o); [|split; assumption]. split.
    - now apply process_gv.
    - apply fnp_allv_process; [| |exact TC1].
      + intros v; destruct v; cbn [fnp_is_tr]; intro Hv; try discriminate; reflexivity.
      + intros a b; reflexivity. }
  destruct G2 as [G2 TC2].
  assert (L2 : lok t2 = true).
  { subst t2. unfold footnote_phase. subst t1. rewrite p_attach_eq. destruct (po_footnotes o).
    - apply lok_process; [|now apply lok_attach]. apply attach_s2. exact S0.
    - now apply lok_attach. }
  assert (I2 : inl_ok (post_lookup tbl2)).
  { apply post_lookup_ok. eapply run_post_ok; [|exact E2]. now apply pleaves_ok. }
  set (t3 := p_attach (post_lookup tbl2) [] t2) in *.
  assert (G3 : gv t3 = true).
  { subst t3. rewrite p_attach_eq. apply attach_gv; [now apply gv_gvb|].
    apply post_lookup_at; [eapply run_post_v; exact E2|exact G2]. }
  assert (TC3 : tcols t3 = true).
  { subst t3. rewrite p_attach_eq. apply attach_allv; [now apply inl_ok_tcols|exact TC2]. }
  assert (G : gv t = true).
  { rewrite <- Ht. rewrite p_taskify_eq. apply taskify_gv. now apply recol_gv. }
  assert (TC : tcols t = true).
  { rewrite <- Ht. rewrite p_taskify_eq. apply taskify_allv; [apply ptc_taskify|]. now apply recol_allv. }
  rewrite Ht, structurally_valid_reduced. rewrite (gv_valid _ G), A2. cbn [andb].
  rewrite headings_ok_is_s4, A4. cbn [andb]. now apply s3_tcols_tables_ok.
Qed.

(* without the table extension there is no cell *)
Lemma ball_no_cells o : bo_table o = false -> forall t, ball o t = true -> bcells_ok t = true.
Proof.
  intro T. induction t as [i ch IH] using bnode_ind2. intro H. apply ball_node in H as [Hv Hc].
  cbn [bcells_ok]. apply andb_true_iff. split.
  - destruct (bi_val i); try reflexivity. cbn [bvok] in Hv. congruence.
  - apply forallb_forall. intros c Hin. rewrite Forall_forall in IH. apply IH; [exact Hin|].
    rewrite forallb_forall in Hc. now apply Hc.
Qed.

Theorem parse_valid_no_table o u x t :
  po_table o = false -> parse_document_model o u x = Ok t -> structurally_valid t = true.
Proof.
  intros T H. destruct (parse_valid_cells _ _ _ _ H) as (r & B & V). apply V.
  destruct (parse_blocks_NI _ _ _ B) as [_ A]. eapply ball_no_cells; [|exact A]. exact T.
Qed.

(* what `ivt nb` says in the validator's terms *)
Lemma ivt_meaning nb n : ivt nb n = true ->
  valid n = true /\ child_allowed Paragraph n = true /\ (forall l s, child_allowed (Heading l s) n = true) /\
  (nb = true -> child_allowed TableCell n = true).
Proof.
  intro H. split; [eapply ivt_valid; exact H|]. split; [eapply ivt_allowed_under; [exact H|exact I]|].
  split; [intros l s; eapply ivt_allowed_under; [exact H|exact I]|]. intro T. eapply ivt_allowed_under; [exact H|exact T].
Qed.

Print Assumptions parse_valid_cells.
Print Assumptions parse_valid_no_table.

(* the report the check evaluates: whenever it answers, the premise implies the conclusion *)
Theorem parse_valid_report_sound o u x c v :
  parse_valid_report o u x = Some (c, v) -> c = true -> v = true.
Proof.
  unfold parse_valid_report. intros H C.
  destruct (parse_blocks (bopts_of o u) x) as [r| |] eqn:B; try discriminate H.
  destruct (parse_document_model o u x) as [t| |] eqn:P; try discriminate H.
  inversion H; subst. destruct (parse_valid_cells _ _ _ _ P) as (r' & B' & V). rewrite B in B'. inversion B'; subst.
  now apply V.
Qed.
