(* Proofs/RefDefTitle.v — parse_reference_inline after the repair of INL-2 (`title.clear()` where the position is
   rewound): the title a definition stores is never made of bytes that are given back to the paragraph.

   Both transcriptions of parse_reference_inline are covered: Model/Inlines.v (Section RefDefs, tied by
   tie_refdefs of tools/checks/inlines_tie.py) and Model/RefDef.v (the one Model/Blocks.v runs, tied by
   tools/checks/blocks_tie.py through the reference map).

   Statement, for EVERY content: when a definition is accepted with a non-empty (cleaned) title, that title is
   clean_title of a link_title match at some position p of length tl, and p + tl is not after the consumed
   length: the whole title lies inside the bytes the definition removes from the paragraph.  Before the repair
   the witness  [a]: /u NEWLINE "t" junk NEWLINE  consumed 8 bytes and stored the title t found at 8..11. *)
From Coq Require Import List NArith Arith Bool Lia Strings.String.
From V Require Import Base.Bytes Base.Res Model.Strings Model.Scan Model.LinkUrl Model.Ast Spec.EscapeSpec.
From V Require Model.Inlines Model.RefDef Proofs.InlinesProofs.
Import ListNotations.
Local Open Scope list_scope.

Lemma clean_title_nil : clean_title [] = Ok [].
Proof. reflexivity. Qed.

(* ------------------------------------------------------------------ Model/Inlines.v *)
Module I.
Import Model.Inlines.

Lemma skip_spaces_ge inp p : p <= skip_spaces inp p.
Proof. unfold skip_spaces. lia. Qed.

Lemma skip_line_end_ge inp p : p <= fst (skip_line_end inp p).
Proof.
  unfold skip_line_end. cbn [fst].
  destruct (peek_eq inp p x0d); destruct (peek_eq inp _ x0a); lia.
Qed.

Theorem title_inside_consumed fold inp n lab url ct :
  parse_reference_inline fold inp = Ok (Some (n, Some (lab, (url, ct)))) -> ct <> [] ->
  exists p tl, scan_link_title (skipn p inp) = Some tl
               /\ clean_title (firstn tl (skipn p inp)) = Ok ct /\ p + tl <= n.
Proof.
  unfold parse_reference_inline. intros H Hne.
  destruct (link_label inp 0) as [[lab0 p0]|]; [|discriminate H].
  destruct lab0 as [|l0 lr]; [discriminate H|].
  destruct (negb (peek_eq inp p0 x3a)); [discriminate H|].
  destruct (manual_scan_link_url _) as [[[url0 ml]|]| |]; cbn [bind] in H; try discriminate H.
  set (bt := spnl inp (S p0) + ml) in *.
  set (p3 := spnl inp bt) in *.
  destruct (if Nat.eqb p3 bt then None else scan_link_title (skipn p3 inp)) as [tl|] eqn:TS.
  - (* a title was found at p3 *)
    assert (TS' : scan_link_title (skipn p3 inp) = Some tl) by (destruct (Nat.eqb p3 bt); [discriminate TS | exact TS]).
    pose proof (skip_spaces_ge inp (p3 + tl)) as G1.
    pose proof (skip_line_end_ge inp (skip_spaces inp (p3 + tl))) as G2.
    destruct (skip_line_end inp (skip_spaces inp (p3 + tl))) as [p6 ok] eqn:SL. cbn [fst] in G2.
    destruct ok.
    + destruct (normalize_label fold (l0 :: lr) true); [discriminate H|].
      destruct (clean_url url0) as [cu| |]; cbn [bind] in H; try discriminate H.
      destruct (clean_title (firstn tl (skipn p3 inp))) as [ct0| |] eqn:CT; cbn [bind] in H; try discriminate H.
      inversion H; subst. exists p3, tl. repeat split; [exact TS' | exact CT | lia].
    + destruct (firstn tl (skipn p3 inp)) eqn:FT; [discriminate H|].
      destruct (skip_line_end inp (skip_spaces inp bt)) as [q2 ok2]. destruct ok2; [|discriminate H].
      destruct (normalize_label fold (l0 :: lr) true); [discriminate H|].
      destruct (clean_url url0) as [cu| |]; cbn [bind] in H; try discriminate H.
      rewrite clean_title_nil in H. cbn [bind] in H. inversion H; subst. now elim Hne.
  - (* no title *)
    destruct (skip_line_end inp (skip_spaces inp bt)) as [p6 ok]. destruct ok; [|discriminate H].
    destruct (normalize_label fold (l0 :: lr) true); [discriminate H|].
    destruct (clean_url url0) as [cu| |]; cbn [bind] in H; try discriminate H.
    rewrite clean_title_nil in H. cbn [bind] in H. inversion H; subst. now elim Hne.
Qed.
End I.

(* ------------------------------------------------------------------ Model/RefDef.v *)
Module R.
Import Model.RefDef.

Lemma skip_line_end_ge input pos pos' ok : skip_line_end input pos = Ok (pos', ok) -> pos <= pos'.
Proof.
  unfold skip_line_end. intro H.
  destruct (peek input pos) as [p1| |]; cbn [bind] in H; try discriminate H.
  destruct (peek input _) as [p2| |]; cbn [bind] in H; try discriminate H.
  inversion H; subst. destruct p1 as [c1|]; [destruct (beqb c1 x0d)|]; (destruct p2 as [c2|]; [destruct (beqb c2 x0a)|]); lia.
Qed.

Lemma ref_insert_new m k v k' u t :
  ref_lookup m k' = None -> ref_lookup (ref_insert m k v) k' = Some (u, t) -> v = (u, t).
Proof.
  unfold ref_insert. intros N L. destruct (ref_lookup m k); [congruence|].
  revert N L. induction m as [|[k0 v0] r IH]; cbn [app ref_lookup]; intros N L.
  - destruct (bytes_eqb k k'); [now inversion L | discriminate L].
  - destruct (bytes_eqb k0 k'); [discriminate N | now apply IH].
Qed.

Theorem title_inside_consumed fold m content pos m' k u t :
  parse_reference_inline fold m content = Ok (Some (pos, m')) ->
  ref_lookup m k = None -> ref_lookup m' k = Some (u, t) -> t <> [] ->
  exists p tl, scan_link_title (skipn p content) = Some tl
               /\ clean_title (firstn tl (skipn p content)) = Ok t /\ p + tl <= pos.
Proof.
  unfold parse_reference_inline. intros H N L Hne.
  destruct (link_label content) as [[[lab0 p0]|]| |]; cbn [bind] in H; try discriminate H.
  destruct lab0 as [|l0 lr]; [discriminate H|].
  destruct (peek content p0) as [[c|]| |]; cbn [bind] in H; try discriminate H.
  destruct (negb (beqb c x3a)); [discriminate H|].
  destruct (spnl content (S p0)) as [p1| |]; cbn [bind] in H; try discriminate H.
  destruct (manual_scan_link_url _) as [[[url0 ml]|]| |]; cbn [bind] in H; try discriminate H.
  set (bt := p1 + ml) in *.
  destruct (spnl content bt) as [p3| |]; cbn [bind] in H; try discriminate H.
  destruct (if Nat.eqb p3 bt then None else scan_link_title (skipn p3 content)) as [tl|] eqn:TS.
  - assert (TS' : scan_link_title (skipn p3 content) = Some tl) by (destruct (Nat.eqb p3 bt); [discriminate TS | exact TS]).
    destruct (skip_spaces (skipn (p3 + tl) content)) as [n1| |]; cbn [bind] in H; try discriminate H.
    destruct (skip_line_end content (p3 + tl + n1)) as [[p6 ok]| |] eqn:SL; cbn [bind] in H; try discriminate H.
    apply skip_line_end_ge in SL.
    destruct ok.
    + cbn [bind] in H.
      destruct (normalize_label fold (l0 :: lr) true) as [|b0 br] eqn:NL.
      { inversion H; subst. congruence. }
      destruct (clean_url url0) as [cu| |]; cbn [bind] in H; try discriminate H.
      destruct (clean_title (firstn tl (skipn p3 content))) as [ct0| |] eqn:CT; cbn [bind] in H; try discriminate H.
      destruct (negb (utf8_valid cu)); [discriminate H|]. destruct (negb (utf8_valid ct0)); [discriminate H|].
      inversion H; subst. pose proof (ref_insert_new _ _ _ _ _ _ N L) as E. inversion E; subst.
      exists p3, tl. repeat split; [exact TS' | exact CT | lia].
    + destruct (firstn tl (skipn p3 content)) eqn:FT; [discriminate H|].
      destruct (skip_spaces (skipn bt content)) as [n2| |]; cbn [bind] in H; try discriminate H.
      destruct (skip_line_end content (bt + n2)) as [[q2 ok2]| |]; cbn [bind] in H; try discriminate H.
      destruct ok2; [|discriminate H]. cbn [bind] in H.
      destruct (normalize_label fold (l0 :: lr) true) as [|b0 br] eqn:NL.
      { inversion H; subst. congruence. }
      destruct (clean_url url0) as [cu| |]; cbn [bind] in H; try discriminate H.
      rewrite clean_title_nil in H. cbn [bind] in H.
      destruct (negb (utf8_valid cu)); [discriminate H|]. destruct (negb (utf8_valid [])); [discriminate H|].
      inversion H; subst. pose proof (ref_insert_new _ _ _ _ _ _ N L) as E. inversion E; subst. now elim Hne.
  - destruct (skip_spaces (skipn bt content)) as [n1| |]; cbn [bind] in H; try discriminate H.
    destruct (skip_line_end content (bt + n1)) as [[p6 ok]| |]; cbn [bind] in H; try discriminate H.
    destruct ok; [|discriminate H]. cbn [bind] in H.
    destruct (normalize_label fold (l0 :: lr) true) as [|b0 br] eqn:NL.
    { inversion H; subst. congruence. }
    destruct (clean_url url0) as [cu| |]; cbn [bind] in H; try discriminate H.
    rewrite clean_title_nil in H. cbn [bind] in H.
    destruct (negb (utf8_valid cu)); [discriminate H|]. destruct (negb (utf8_valid [])); [discriminate H|].
    inversion H; subst. pose proof (ref_insert_new _ _ _ _ _ _ N L) as E. inversion E; subst. now elim Hne.
Qed.
End R.
