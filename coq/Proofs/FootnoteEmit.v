(* Proofs/FootnoteEmit.v — every reference node the reference walk leaves in the tree has an entry in the FINAL map that
   carries the reference's number and whose normalised name is the reference's name: the link between the numbers on the
   references and the numbers on the appended definitions (Proofs/FootnoteNumbers.v).  The entry a reference was made from
   keeps its number and its name through all later steps of the walk (monotonicity). *)
From Coq Require Import List NArith Bool Lia Permutation.
From V Require Import Base.Bytes Model.Ast Model.Footnotes Spec.FootnoteSpec
  Proofs.FootnoteProofs Proofs.FootnoteOrder.
Import ListNotations.
Local Open Scope list_scope.

Section Emit.
  Variable fold : bytes -> bytes.
  Variable pres : bytes -> bytes.

  Definition Emit (m : fmap) (p : bytes * N * N) : Prop :=
    exists f, In f m /\ f_ix f = Some (snd p) /\ fst (fst p) = f_name f.

  Lemma emit_bump (m : fmap) k f0 fix_ tot p :
    map_get k m = Some f0 -> (forall i, f_ix f0 = Some i -> fix_ = Some i) ->
    Emit m p -> Emit (map_set (mkFdef (f_key f0) fix_ (f_idx f0) (f_name f0) tot) m) p.
  Proof.
    intros G Keep [f [Hf [Hi Hn]]].
    destruct (map_get_split _ _ _ G) as [l1 [l2 [-> S]]]. rewrite S by reflexivity.
    apply in_app_or in Hf. destruct Hf as [Hf|[<-|Hf]].
    - exists f. split; [apply in_or_app; left; exact Hf | auto].
    - eexists. split; [apply in_or_app; right; left; reflexivity|]. cbn [f_ix f_name]. split; [apply Keep, Hi | exact Hn].
    - exists f. split; [apply in_or_app; right; right; exact Hf | auto].
  Qed.

  Lemma map_set_in (m : fmap) k f0 e : map_get k m = Some f0 -> f_key e = f_key f0 -> In e (map_set e m).
  Proof.
    intros G K. destruct (map_get_split _ _ _ G) as [l1 [l2 [-> S]]]. rewrite S by exact K.
    apply in_or_app. right. left. reflexivity.
  Qed.

  Definition emit_at (n : node) : Prop :=
    forall st : fmap * N, refs_leaf n = true ->
      (forall p, Emit (fst st) p -> Emit (fst (snd (refs fold pres n st))) p) /\
      Forall (Emit (fst (snd (refs fold pres n st)))) (all_refs (fst (refs fold pres n st))).

  Lemma emit_list ch : Forall emit_at ch -> forall st : fmap * N, forallb refs_leaf ch = true ->
    (forall p, Emit (fst st) p -> Emit (fst (snd (refs_list fold pres ch st))) p) /\
    Forall (Emit (fst (snd (refs_list fold pres ch st)))) (flat_map all_refs (fst (refs_list fold pres ch st))).
  Proof.
    induction 1 as [|c r Hc _ IHr]; intros st L; cbn [refs_list].
    - split; [auto | constructor].
    - cbn [forallb] in L. apply andb_prop in L. destruct L as [Lc Lr].
      destruct (Hc st Lc) as [M1 F1]. destruct (refs fold pres c st) as [c' st1]. cbn [fst snd] in M1, F1.
      destruct (IHr st1 Lr) as [M2 F2]. destruct (refs_list fold pres r st1) as [r' st2]. cbn [fst snd] in M2, F2 |- *.
      split; [intros p Hp; apply M2, M1, Hp|].
      cbn [flat_map]. apply Forall_app. split; [|exact F2].
      eapply Forall_impl; [|exact F1]. exact M2.
  Qed.

  Lemma emit_node : forall n, emit_at n.
  Proof.
    induction n as [v sp ch IH] using node_ind2. intros st L.
    destruct (is_ref v) eqn:R.
    - destruct v; try discriminate. cbn [refs_leaf] in L. destruct ch; [|discriminate]. cbn [refs].
      destruct (map_get (fold name) (fst st)) as [f|] eqn:G.
      + destruct (f_ix f) as [i|] eqn:Fi; cbn [fst snd all_refs]; split.
        * intros p Hp. apply (emit_bump _ _ _ _ _ _ G); [|exact Hp]. intros i' Hi'. rewrite Fi in Hi'. exact Hi'.
        * constructor; [|constructor]. eexists. split; [apply (map_set_in _ _ _ _ G); reflexivity|].
          cbn [f_ix f_name fst snd]. split; reflexivity.
        * intros p Hp. apply (emit_bump _ _ _ _ _ _ G); [|exact Hp]. intros i' Hi'. rewrite Fi in Hi'. discriminate.
        * constructor; [|constructor]. eexists. split; [apply (map_set_in _ _ _ _ G); reflexivity|].
          cbn [f_ix f_name fst snd]. split; reflexivity.
      + cbn [fst snd all_refs flat_map]. split; [auto | constructor].
    - rewrite refs_nonref by exact R. rewrite refs_leaf_nonref in L by exact R.
      destruct (emit_list ch IH st L) as [M1 F1].
      destruct (refs_list fold pres ch st) as [ch' st']. cbn [fst snd] in M1, F1 |- *.
      split; [exact M1|].
      assert (all_refs (Node v sp ch') = flat_map all_refs ch') as -> by (destruct v; try discriminate; reflexivity).
      exact F1.
  Qed.

  Theorem refs_have_entries root : refs_leaf root = true ->
    let r := refs fold pres root (collect fold pres (top_defs root) 0 [], 0%N) in
    Forall (Emit (fst (snd r))) (all_refs (fst r)).
  Proof. intro L. cbv zeta. exact (proj2 (emit_node root _ L)). Qed.
End Emit.
