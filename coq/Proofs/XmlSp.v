(* Proofs/XmlSp.v — C18, XML half.  The model of src/xml.rs reads the sourcepos option in one place
   (xml_enter).  By C09 (Proofs/XmlProofs.v) its output on every tree it accepts is the generic
   writer's rendering of the mirror element tree; the mirror trees with the option on and off differ
   exactly by the attributes named sourcepos: `xdrop_sp` of the one is the other.  Hence: the bytes
   with the option off are the generic writer's rendering of the element tree written with the option
   on after its sourcepos attributes are dropped, and the reader gets back trees related by xdrop_sp. *)
From Coq Require Import List NArith Bool Strings.String.
From V Require Import Base.Bytes Base.Res Model.Ast Gen.NodesXml Model.Xml Spec.EscapeSpec Spec.XmlLex Spec.SpSpec.
From V Require Import Proofs.XmlProofs Proofs.XmlRead Proofs.HtmlSp.
Import ListNotations.
Local Open Scope string_scope.
Local Open Scope list_scope.

(* no attribute written for a node value is called sourcepos *)
Lemma spec_attrs_no_sp v par gp ix : filter not_sp_kv (spec_attrs v par gp ix) = spec_attrs v par gp ix.
Proof.
  destruct v; cbn [spec_attrs]; try reflexivity.
  all: try (destruct l as [ty mo pad start delim bul tight task]; cbn [l_type l_task l_tight l_start l_delim];
            destruct ty, task; reflexivity).
  all: try (destruct cb as [fenced fc fl fo info lit]; cbn [cb_info cb_literal];
            destruct info as [|i0 info]; [reflexivity|]; destruct (bytes_eqb (i0 :: info) (B "math")); reflexivity).
  all: try (destruct (header_table par gp) as [t|]; [|reflexivity];
            destruct (nth_error (t_aligns t) ix) as [a|]; [|reflexivity]; destruct a; reflexivity).
  all: try (destruct symbol; reflexivity).
  all: try (destruct a as [ty title ml fl fo]; cbn [a_type a_title a_multiline]; destruct title, ml; reflexivity).
Qed.

Lemma spec_sp_attr_dropped o sp : filter not_sp_kv (spec_sp_attr o sp) = [].
Proof. unfold spec_sp_attr. destruct (o_sourcepos o && negb (sl sp =? 0)%N); reflexivity. Qed.

Lemma spec_sp_attr_off o sp : spec_sp_attr (set_sp false o) sp = [].
Proof. reflexivity. Qed.

(* dropping the sourcepos attributes of the mirror tree written under ANY option set gives the mirror
   tree with the option off *)
Lemma mirror_drop o : forall t par gp ix,
  xdrop_sp (tree_to_xtree_at o par gp ix t) = tree_to_xtree_at (set_sp false o) par gp ix t.
Proof.
  induction t as [v sp ch IH] using node_ind2. intros par gp ix.
  cbn [tree_to_xtree_at]. rewrite spec_sp_attr_off. cbn [app].
  destruct (spec_text v) as [t|]; cbn [xdrop_sp]; rewrite filter_app, spec_sp_attr_dropped, spec_attrs_no_sp; cbn [app];
    [reflexivity|].
  f_equal.
  assert (forall l i, Forall (fun t => forall par gp ix,
             xdrop_sp (tree_to_xtree_at o par gp ix t) = tree_to_xtree_at (set_sp false o) par gp ix t) l ->
          map xdrop_sp (map_ix (fun i c => tree_to_xtree_at o (Some v) par i c) l i) =
          map_ix (fun i c => tree_to_xtree_at (set_sp false o) (Some v) par i c) l i) as Hk.
  { induction l as [|c r IHr]; intros i HF; cbn [map_ix map]; [reflexivity|].
    inversion HF as [|? ? Hc Hr]; subst. rewrite Hc, (IHr _ Hr). reflexivity. }
  apply Hk. exact IH.
Qed.

Theorem xml_sp_tree o t :
  xdrop_sp (tree_to_xtree (set_sp true o) t) = tree_to_xtree (set_sp false o) t.
Proof. unfold tree_to_xtree. rewrite mirror_drop. reflexivity. Qed.

(* the renderer fails on exactly the same trees with the option on and off *)
Theorem xml_sp_total o t :
  (exists b, xml (set_sp true o) t = Ok b) <-> (exists b, xml (set_sp false o) t = Ok b).
Proof. rewrite !xml_ok_iff. reflexivity. Qed.

(* bytes: with X the element tree written with the option on, the output with the option off is the
   generic writer's rendering of X with every sourcepos attribute dropped *)
Theorem xml_sp_bytes o t :
  shape_ok t = true ->
  let X := tree_to_xtree (set_sp true o) t in
  xml (set_sp true o) t = Ok (xml_prolog ++ xml_write 0 X) /\
  xml (set_sp false o) t = Ok (xml_prolog ++ xml_write 0 (xdrop_sp X)).
Proof.
  intros H X. subst X. split.
  - apply xml_is_write. exact H.
  - rewrite xml_sp_tree. apply xml_is_write. exact H.
Qed.

(* reader: what an XML reader gets from the two outputs differs by the sourcepos attributes only *)
Theorem xml_sp_read o t b1 :
  shape_ok t = true -> xml (set_sp true o) t = Ok b1 ->
  exists b0 X, xml (set_sp false o) t = Ok b0 /\ xml_read b1 = Some X /\ xml_read b0 = Some (xdrop_sp X).
Proof.
  intros H H1.
  exists (xml_prolog ++ xml_write 0 (tree_to_xtree (set_sp false o) t)), (tree_to_xtree (set_sp true o) t).
  split; [apply xml_is_write; exact H|]. split.
  - apply (xml_mirrors _ _ _ H H1).
  - rewrite xml_sp_tree. apply (xml_mirrors (set_sp false o) t); [exact H|]. apply xml_is_write. exact H.
Qed.

(* without the literal-leaves clause: the bytes are those of node_bytes, which reads the option only
   through spec_sp_attr (Proofs/XmlProofs.v: enter_bytes) *)
Theorem xml_sp_doc_bytes o t :
  cells_ok t = true ->
  xml (set_sp true o) t = Ok (doc_bytes (set_sp true o) t) /\
  xml (set_sp false o) t = Ok (doc_bytes (set_sp false o) t).
Proof. intro H. split; apply xml_is_doc_bytes; exact H. Qed.

(* the equality test used by the extracted check is sound *)
Lemma kvs_eqb_eq : forall a b, kvs_eqb a b = true -> a = b.
Proof.
  induction a as [|[k v] a IH]; destruct b as [|[k' v'] b]; cbn [kvs_eqb]; intro H; try discriminate; [reflexivity|].
  apply andb_true_iff in H. destruct H as [H H3]. apply andb_true_iff in H. destruct H as [H1 H2].
  apply bytes_eqb_eq in H1. apply bytes_eqb_eq in H2. subst. rewrite (IH _ H3). reflexivity.
Qed.

Lemma xtree_eqb_eq : forall x y, xtree_eqb x y = true -> x = y.
Proof.
  induction x as [n a cs IH|n a t] using xtree_ind2; destruct y as [n' a' cs'|n' a' t']; cbn [xtree_eqb]; intro H; try discriminate.
  - apply andb_true_iff in H. destruct H as [H H3]. apply andb_true_iff in H. destruct H as [H1 H2].
    apply bytes_eqb_eq in H1. apply kvs_eqb_eq in H2. subst. f_equal.
    revert cs' H3. induction cs as [|c r IHr]; destruct cs' as [|c' r']; intro H3; try discriminate; [reflexivity|].
    apply andb_true_iff in H3. destruct H3 as [Hc Hr]. inversion IH as [|? ? Pc Pr]; subst.
    rewrite (Pc _ Hc), (IHr Pr _ Hr). reflexivity.
  - apply andb_true_iff in H. destruct H as [H H3]. apply andb_true_iff in H. destruct H as [H1 H2].
    apply bytes_eqb_eq in H1. apply kvs_eqb_eq in H2. apply bytes_eqb_eq in H3. subst. reflexivity.
Qed.
