(* Proofs/SpecialProofs.v — C13: the inline parser's tables, scan and dispatch do not depend on a feature
   outside the feature's trigger bytes. *)
From Coq Require Import List NArith Bool Lia Strings.String.
From V Require Import Base.Bytes Gen.Special Gen.AuditOptions Model.Special Spec.Triggers.
Import ListNotations.
Local Open Scope string_scope.
Local Open Scope list_scope.

(* ------------------------------------------------------------------ audits (ties to the source) *)
Lemma audit_option_reads :
  option_reads = map (fun e => fst e) expected_option_reads.
Proof. reflexivity. Qed.

Lemma audit_no_struct_escape : option_struct_escapes = [].
Proof. reflexivity. Qed.

Lemma audit_table_uses : special_table_uses = expected_table_uses.
Proof. reflexivity. Qed.

Lemma audit_smart_guard : find_special_smart_guard = option_path Smart.
Proof. reflexivity. Qed.

(* every option name met in a table guard or in the dispatch belongs to a feature of the specification
   (a new extension that claims a character breaks this) *)
Definition known_names : list string := flat_map read_names all_features.

Fixpoint guard_opts (g : guard) : list string :=
  match g with
  | GTrue | GWithinBrackets => []
  | GOpt p => [p]
  | GNot a => guard_opts a
  | GAnd a b | GOr a b => guard_opts a ++ guard_opts b
  end.

Definition str_mem (s : string) (l : list string) : bool := existsb (String.eqb s) l.

Lemma str_mem_In s l : str_mem s l = true <-> In s l.
Proof.
  unfold str_mem. rewrite existsb_exists. split.
  - intros [x [Hx E]]. apply String.eqb_eq in E. subst. exact Hx.
  - intros H. exists s. split; [exact H | apply String.eqb_refl].
Qed.

Definition all_guard_names : list string :=
  flat_map (fun e => snd e) special_chars_init ++ flat_map (fun e => snd e) skip_chars_init
  ++ flat_map (fun e => snd e) smart_chars_init ++ [find_special_smart_guard]
  ++ flat_map (fun a => guard_opts (arm_guard a) ++ arm_reads a) dispatch_arms.

Lemma audit_guard_names_known : forallb (fun n => str_mem n known_names) all_guard_names = true.
Proof. vm_compute. reflexivity. Qed.

(* ------------------------------------------------------------------ what a feature adds *)
Definition mentions (F : feature) (g : list string) : bool :=
  existsb (fun n => str_mem n g) (read_names F).

Definition added0 (init : list (byte * list string)) (F : feature) : list byte :=
  map fst (filter (fun e => mentions F (snd e)) init).

(* the byte is also set unconditionally (underline re-registers the underscore) *)
Definition always (init : list (byte * list string)) (b : byte) : bool :=
  existsb (fun e => beqb (fst e) b && match snd e with [] => true | _ => false end) init.

Definition added (init : list (byte * list string)) (F : feature) : list byte :=
  filter (fun b => negb (always init b)) (added0 init F).

(* bytes whose table entry (or whose reading in find_special_char) is conditional on F *)
Definition added_bytes (F : feature) : list byte :=
  added special_chars_init F ++ added skip_chars_init F ++ added smart_chars_init F
  ++ (if mentions F [find_special_smart_guard] then map fst smart_chars_init else []).

Definition special_delta_check : bool :=
  forallb (fun F => forallb (fun b => mem_byte b (trigger_heads F)) (added_bytes F)) all_features.

Lemma special_delta_check_ok : special_delta_check = true.
Proof. vm_compute. reflexivity. Qed.

Lemma special_delta : forall F b, In b (added_bytes F) -> In b (trigger_heads F).
Proof.
  intros F b H. pose proof special_delta_check_ok as C. unfold special_delta_check in C.
  rewrite forallb_forall in C. specialize (C F (all_features_complete F)).
  rewrite forallb_forall in C. apply mem_byte_In. apply C. exact H.
Qed.

(* two option sets that differ at most on the names under which F is read *)
Definition agree_except (F : feature) (o1 o2 : opts) : Prop :=
  forall p, ~ In p (read_names F) -> o1 p = o2 p.

Lemma agree_except_with F v1 v2 o :
  agree_except F (opts_with_all (read_names F) v1 o) (opts_with_all (read_names F) v2 o).
Proof.
  unfold agree_except. generalize (read_names F) as ps. intros ps p Hn.
  induction ps as [|q ps IH]; simpl; [reflexivity|].
  unfold opts_with. destruct (String.eqb p q) eqn:E.
  - apply String.eqb_eq in E. subst. exfalso. apply Hn. left. reflexivity.
  - apply IH. intro H. apply Hn. right. exact H.
Qed.

Lemma mentions_false F g : mentions F g = false -> forall p, In p g -> ~ In p (read_names F).
Proof.
  unfold mentions. intros H p Hp Hin.
  assert (existsb (fun n => str_mem n g) (read_names F) = true) as T.
  { apply existsb_exists. exists p. split; [exact Hin | apply str_mem_In; exact Hp]. }
  congruence.
Qed.

Lemma mentions_app F a b : mentions F (a ++ b) = false -> mentions F a = false /\ mentions F b = false.
Proof.
  intro H. split.
  - destruct (mentions F a) eqn:E; [|reflexivity]. exfalso.
    unfold mentions in E. apply existsb_exists in E. destruct E as [n [Hn E]]. apply str_mem_In in E.
    apply (mentions_false F _ H n); [apply in_or_app; left; exact E | exact Hn].
  - destruct (mentions F b) eqn:E; [|reflexivity]. exfalso.
    unfold mentions in E. apply existsb_exists in E. destruct E as [n [Hn E]]. apply str_mem_In in E.
    apply (mentions_false F _ H n); [apply in_or_app; right; exact E | exact Hn].
Qed.

Lemma existsb_agree (o1 o2 : opts) g : (forall p, In p g -> o1 p = o2 p) -> existsb o1 g = existsb o2 g.
Proof.
  induction g as [|p g IH]; simpl; intro H; [reflexivity|].
  rewrite (H p (or_introl eq_refl)). rewrite IH; [reflexivity|]. intros q Hq. apply H. right. exact Hq.
Qed.

Lemma guard_on_agree F o1 o2 g :
  agree_except F o1 o2 -> mentions F g = false -> guard_on o1 g = guard_on o2 g.
Proof.
  intros A M. unfold guard_on. destruct g as [|p g]; [reflexivity|].
  apply existsb_agree. intros q Hq. apply A. apply (mentions_false F _ M). exact Hq.
Qed.

Lemma table_of_agree0 init F o1 o2 b :
  agree_except F o1 o2 -> ~ In b (added0 init F) -> table_of init o1 b = table_of init o2 b.
Proof.
  intros A. unfold table_of, added0. induction init as [|[b' g] init IH]; simpl; intro H; [reflexivity|].
  destruct (mentions F g) eqn:M; simpl in H.
  - destruct (beqb b' b) eqn:E.
    + apply beqb_eq in E. subst. exfalso. apply H. left. reflexivity.
    + simpl. apply IH. intro K. apply H. right. exact K.
  - rewrite (guard_on_agree F o1 o2 g A M). rewrite IH; [reflexivity | exact H].
Qed.

Lemma table_of_always init o b : always init b = true -> table_of init o b = true.
Proof.
  unfold always, table_of. intro H. apply existsb_exists in H. destruct H as [e [He E]].
  apply existsb_exists. exists e. split; [exact He|]. apply andb_true_iff in E. destruct E as [E1 E2].
  rewrite E1. destruct (snd e); [reflexivity | discriminate].
Qed.

Lemma table_of_agree init F o1 o2 b :
  agree_except F o1 o2 -> ~ In b (added init F) -> table_of init o1 b = table_of init o2 b.
Proof.
  intros A H. destruct (always init b) eqn:E.
  - rewrite !table_of_always; auto.
  - apply (table_of_agree0 init F); [exact A|]. intro K. apply H. unfold added. apply filter_In.
    split; [exact K | rewrite E; reflexivity].
Qed.

Lemma table_of_true_In init o b : table_of init o b = true -> In b (map fst init).
Proof.
  unfold table_of. intro H. apply existsb_exists in H. destruct H as [e [He E]].
  apply andb_true_iff in E. destruct E as [E _]. apply beqb_eq in E. subst.
  apply in_map. exact He.
Qed.

(* the tables of Subject::new: the same outside the bytes conditional on F *)
Lemma table_inert F o1 o2 b :
  agree_except F o1 o2 -> ~ In b (added_bytes F) ->
  special_chars o1 b = special_chars o2 b /\ skip_chars o1 b = skip_chars o2 b /\ smart_chars o1 b = smart_chars o2 b.
Proof.
  intros A H. unfold added_bytes in H. split; [|split].
  - apply (table_of_agree _ F); [exact A|]. intro K. apply H. apply in_or_app. left. exact K.
  - apply (table_of_agree _ F); [exact A|]. intro K. apply H. apply in_or_app. right. apply in_or_app. left. exact K.
  - apply (table_of_agree _ F); [exact A|]. intro K. apply H. apply in_or_app. right. apply in_or_app. right.
    apply in_or_app. left. exact K.
Qed.

Lemma stops_at_agree F o1 o2 wb c :
  agree_except F o1 o2 -> ~ In c (added_bytes F) -> stops_at o1 wb c = stops_at o2 wb c.
Proof.
  intros A H. unfold stops_at. destruct (table_inert F o1 o2 c A H) as [E1 [_ E3]]. rewrite E1. f_equal.
  destruct (mentions F [find_special_smart_guard]) eqn:M.
  - (* the smart read is conditional on F: then c is not a smart byte at all *)
    assert (~ In c (map fst smart_chars_init)) as N.
    { intro K. apply H. unfold added_bytes. rewrite M. apply in_or_app. right. apply in_or_app. right.
      apply in_or_app. right. exact K. }
    assert (forall o, smart_chars o c = false) as Z.
    { intro o. destruct (smart_chars o c) eqn:E; [|reflexivity]. exfalso. apply N.
      apply (table_of_true_In _ o). exact E. }
    rewrite (Z o1), (Z o2). rewrite !andb_false_r. reflexivity.
  - rewrite E3. f_equal. apply A. apply (mentions_false F _ M). left. reflexivity.
Qed.

Lemma scan_agree F o1 o2 wb l : agree_except F o1 o2 ->
  (forall c, In c l -> ~ In c (added_bytes F)) -> forall n, scan o1 wb l n = scan o2 wb l n.
Proof.
  intros A. induction l as [|c r IH]; intros H n; simpl; [reflexivity|].
  rewrite (stops_at_agree F o1 o2 wb c A (H c (or_introl eq_refl))).
  destruct (stops_at o2 wb c); [reflexivity|]. apply IH. intros d Hd. apply H. right. exact Hd.
Qed.

Definition no_added (F : feature) (d : bytes) : bool :=
  forallb (fun c => negb (mem_byte c (added_bytes F))) d.

Lemma no_added_spec F d : no_added F d = true -> forall c, In c d -> ~ In c (added_bytes F).
Proof.
  unfold no_added. rewrite forallb_forall. intros H c Hc K. specialize (H c Hc).
  apply mem_byte_In in K. rewrite K in H. discriminate.
Qed.

Lemma In_skipn {A} (x : A) n l : In x (skipn n l) -> In x l.
Proof.
  revert l; induction n as [|n IH]; intros l H; [exact H|]. destruct l as [|y l]; [exact H|].
  right. apply IH. exact H.
Qed.

(* find_special_char does not depend on F on input without the bytes conditional on F *)
Lemma find_special_inert_added F o1 o2 wb input pos :
  agree_except F o1 o2 -> no_added F input = true ->
  find_special_char o1 wb input pos = find_special_char o2 wb input pos.
Proof.
  intros A H. unfold find_special_char. destruct (Nat.leb pos (List.length input)); [|reflexivity].
  apply (scan_agree F); [exact A|]. intros c Hc. apply (no_added_spec F input H). apply (In_skipn _ pos). exact Hc.
Qed.

Lemma heads_no_added F d : free_of_heads F d = true -> no_added F d = true.
Proof.
  unfold free_of_heads, no_added. rewrite !forallb_forall. intros H c Hc. specialize (H c Hc).
  destruct (mem_byte c (added_bytes F)) eqn:E; [|reflexivity].
  apply mem_byte_In in E. apply special_delta in E. apply mem_byte_In in E. rewrite E in H. discriminate.
Qed.

Lemma find_special_inert_heads F o1 o2 wb input pos :
  agree_except F o1 o2 -> free_of_heads F input = true ->
  find_special_char o1 wb input pos = find_special_char o2 wb input pos.
Proof. intros A H. apply (find_special_inert_added F); [exact A | apply heads_no_added; exact H]. Qed.

(* features whose conditional bytes are all one-byte triggers: free_of is enough *)
Definition bytes_mem (t : bytes) (l : list bytes) : bool := existsb (bytes_eqb t) l.

Definition exact_heads (F : feature) : bool :=
  forallb (fun b => bytes_mem [b] (triggers F)) (added_bytes F).

Lemma occurs_single b d : In b d -> occurs [b] d = true.
Proof.
  induction d as [|x d IH]; intro H; [destruct H|].
  simpl. destruct H as [-> | H].
  - rewrite beqb_refl. reflexivity.
  - rewrite (IH H). apply orb_true_r.
Qed.

Lemma free_no_added F d : exact_heads F = true -> free_of F d = true -> no_added F d = true.
Proof.
  unfold exact_heads, free_of, no_added. rewrite !forallb_forall. intros X H c Hc.
  destruct (mem_byte c (added_bytes F)) eqn:E; [|reflexivity]. exfalso.
  apply mem_byte_In in E. specialize (X c E). unfold bytes_mem in X. apply existsb_exists in X.
  destruct X as [t [Ht Et]]. apply bytes_eqb_eq in Et. subst t.
  specialize (H [c] Ht). rewrite (occurs_single c d Hc) in H. discriminate.
Qed.

Lemma find_special_inert_free F o1 o2 wb input pos :
  exact_heads F = true -> agree_except F o1 o2 -> free_of F input = true ->
  find_special_char o1 wb input pos = find_special_char o2 wb input pos.
Proof. intros X A H. apply (find_special_inert_added F); [exact A | apply free_no_added; assumption]. Qed.

Lemma exact_heads_all_but_three :
  forall F, F <> Autolink -> F <> Spoiler -> F <> Smart -> exact_heads F = true.
Proof. intros F H1 H2 H3. destruct F; try reflexivity; congruence. Qed.

(* the three exceptions are real: the scan does stop earlier (the text node is split; merged again by
   postprocess_text_nodes, which this development does not model) *)
Definition opts_none : opts := fun _ => false.

Lemma find_special_autolink_splits :
  free_of Autolink (B "aw") = true /\
  find_special_char (opts_with (option_path Autolink) true opts_none) false (B "aw") 0
  <> find_special_char (opts_with (option_path Autolink) false opts_none) false (B "aw") 0.
Proof. split; [reflexivity | vm_compute; discriminate]. Qed.

Lemma find_special_spoiler_splits :
  free_of Spoiler (B "a|b") = true /\
  find_special_char (opts_with (option_path Spoiler) true opts_none) false (B "a|b") 0
  <> find_special_char (opts_with (option_path Spoiler) false opts_none) false (B "a|b") 0.
Proof. split; [reflexivity | vm_compute; discriminate]. Qed.

Lemma find_special_smart_splits :
  free_of Smart (B "a-b") = true /\
  find_special_char (opts_with (option_path Smart) true opts_none) false (B "a-b") 0
  <> find_special_char (opts_with (option_path Smart) false opts_none) false (B "a-b") 0.
Proof. split; [reflexivity | vm_compute; discriminate]. Qed.

(* ------------------------------------------------------------------ dispatch *)
Definition arm_mentions (F : feature) (a : arm) : bool :=
  mentions F (guard_opts (arm_guard a) ++ arm_reads a).

Definition arm_keyed_on_heads (F : feature) (a : arm) : bool :=
  match arm_pat a with
  | None => false
  | Some bs => forallb (fun b => mem_byte b (trigger_heads F)) bs
  end.

Definition dispatch_check : bool :=
  forallb (fun F => forallb (fun a => implb (arm_mentions F a) (arm_keyed_on_heads F a)) dispatch_arms) all_features.

Lemma dispatch_check_ok : dispatch_check = true.
Proof. vm_compute. reflexivity. Qed.

(* every arm whose guard or body reads F is keyed on trigger bytes of F (and is not the default arm) *)
Lemma dispatch_guard_inert F a :
  In a dispatch_arms -> arm_mentions F a = true ->
  exists bs, arm_pat a = Some bs /\ forall b, In b bs -> In b (trigger_heads F).
Proof.
  intros Ha M. pose proof dispatch_check_ok as C. unfold dispatch_check in C.
  rewrite forallb_forall in C. specialize (C F (all_features_complete F)).
  rewrite forallb_forall in C. specialize (C a Ha). rewrite M in C. simpl in C.
  unfold arm_keyed_on_heads in C. destruct (arm_pat a) as [bs|]; [|discriminate].
  exists bs. split; [reflexivity|]. intros b Hb. rewrite forallb_forall in C. apply mem_byte_In. apply C. exact Hb.
Qed.

Lemma eval_guard_agree F o1 o2 wb g :
  agree_except F o1 o2 -> mentions F (guard_opts g) = false -> eval_guard o1 wb g = eval_guard o2 wb g.
Proof.
  intros A. induction g as [| |p|a IHa|a IHa b IHb|a IHa b IHb]; simpl; intro M; try reflexivity.
  - apply A. apply (mentions_false F _ M). left. reflexivity.
  - rewrite IHa; [reflexivity | exact M].
  - apply mentions_app in M. destruct M as [Ma Mb]. rewrite IHa, IHb; auto.
  - apply mentions_app in M. destruct M as [Ma Mb]. rewrite IHa, IHb; auto.
Qed.

Lemma select_from_agree F o1 o2 wb c l :
  agree_except F o1 o2 -> ~ In c (trigger_heads F) ->
  (forall a, In a l -> In a dispatch_arms) ->
  forall i, select_from o1 wb c l i = select_from o2 wb c l i.
Proof.
  intros A H. induction l as [|a r IH]; intros Hl i; simpl; [reflexivity|].
  assert (arm_matches o1 wb c a = arm_matches o2 wb c a) as E.
  { unfold arm_matches. destruct (arm_pat a) as [bs|] eqn:P; [|reflexivity].
    destruct (mem_byte c bs) eqn:Mb; [|reflexivity]. simpl.
    destruct (arm_mentions F a) eqn:M.
    - exfalso. destruct (dispatch_guard_inert F a (Hl a (or_introl eq_refl)) M) as [bs' [P' K]].
      rewrite P in P'. inversion P'; subst bs'. apply H. apply K. apply mem_byte_In. exact Mb.
    - unfold arm_mentions in M. apply mentions_app in M. destruct M as [Mg _].
      apply (eval_guard_agree F); assumption. }
  rewrite E. destruct (arm_matches o2 wb c a); [reflexivity|]. apply IH. intros b Hb. apply Hl. right. exact Hb.
Qed.

(* the arm of parse_inline taken for a byte outside F's trigger heads is the same with F on or off *)
Lemma select_arm_inert F o1 o2 wb c :
  agree_except F o1 o2 -> ~ In c (trigger_heads F) -> select_arm o1 wb c = select_arm o2 wb c.
Proof. intros A H. unfold select_arm. apply (select_from_agree F); auto. Qed.

(* totality of the dispatch: the default arm catches every byte *)
Lemma select_arm_total o wb c : select_arm o wb c <> None.
Proof.
  assert (forall l i, (exists a, In a l /\ arm_pat a = None) -> select_from o wb c l i <> None) as G.
  { induction l as [|a r IH]; intros i [x [Hx Px]]; [destruct Hx|]. simpl.
    destruct (arm_matches o wb c a) eqn:E; [discriminate|].
    destruct Hx as [-> | Hx].
    - unfold arm_matches in E. rewrite Px in E. discriminate.
    - apply IH. exists x. split; assumption. }
  apply G. exists (None, GTrue, [], [], ["find_special_char"]). split; [|reflexivity].
  unfold dispatch_arms. repeat (try (left; reflexivity); right).
Qed.

(* ------------------------------------------------------------------ free_of and heads *)
Lemma starts_with_head d t b r : t = b :: r -> starts_with d t = true -> In b d.
Proof. intros -> H. destruct d as [|x d]; simpl in H; [discriminate|]. apply andb_true_iff in H. destruct H as [H _]. apply beqb_eq in H. subst. left. reflexivity. Qed.

Lemma occurs_head t b r d : t = b :: r -> occurs t d = true -> In b d.
Proof.
  intros E. induction d as [|x d IH]; simpl; intro H.
  - rewrite orb_false_r in H. subst t. simpl in H. discriminate.
  - apply orb_true_iff in H. destruct H as [H | H].
    + apply (starts_with_head (x :: d) t b r E H).
    + right. apply IH. exact H.
Qed.

Definition triggers_nonempty_check : bool :=
  forallb (fun F => forallb (fun t => match t with [] => false | _ => true end) (triggers F)) all_features.

Lemma triggers_nonempty : triggers_nonempty_check = true.
Proof. vm_compute. reflexivity. Qed.

(* a document without any head byte of F's triggers is free of F *)
Lemma heads_free F d : free_of_heads F d = true -> free_of F d = true.
Proof.
  unfold free_of_heads, free_of. rewrite !forallb_forall. intros H t Ht.
  destruct (occurs t d) eqn:E; [|reflexivity]. exfalso.
  pose proof triggers_nonempty as N. unfold triggers_nonempty_check in N. rewrite forallb_forall in N.
  specialize (N F (all_features_complete F)). rewrite forallb_forall in N. specialize (N t Ht).
  destruct t as [|b r]; [discriminate|].
  pose proof (occurs_head (b :: r) b r d eq_refl E) as Hb. specialize (H b Hb).
  assert (mem_byte b (trigger_heads F) = true) as M.
  { apply mem_byte_In. unfold trigger_heads. apply in_flat_map. exists (b :: r). split; [exact Ht | left; reflexivity]. }
  rewrite M in H. discriminate.
Qed.
