(* Proofs/HtmlSafe.v — C02: the events of the HTML renderer model are safe when `unsafe` is off.
   Part 1: the generated dangerous_url model decides exactly dangerous_spec.
   Part 2: decimal output is inert; image alt text decodes.
   Part 3: per-kind lemmas for enter / exit_ / put_footnote_backref.
   Part 4: traversal (render / render_list) and the main theorem.
   Part 5: corollaries (raw HTML, URL attributes). *)
From Coq Require Import List NArith Bool Lia Strings.String.
From V Require Import Base.Bytes Base.Res Gen.Scanners Model.Escape Model.Ast Model.Html
  Spec.EscapeSpec Spec.HtmlSpec Proofs.EscapeProofs.
Import ListNotations.
Local Open Scope string_scope.
Local Open Scope list_scope.

(* ------------------------------------------------------------------ Part 1 *)
Lemma ci_prefix_starts : forall p s, ci_prefix s p = ci_starts s p.
Proof. reflexivity. Qed.   (* the two fixpoints have the same text *)

Lemma ci_starts_app : forall p q s,
  ci_starts s (p ++ q) = ci_starts s p && ci_starts (skipn (List.length p) s) q.
Proof.
  induction p as [|y p IH]; intros q s.
  - reflexivity.
  - destruct s as [|x s]; cbn [ci_starts app List.length skipn].
    + reflexivity.
    + rewrite IH, andb_assoc. reflexivity.
Qed.

Lemma ci_starts_first_diff u y p y' p' :
  beqb y y' = false -> ci_starts u (y :: p) = true -> ci_starts u (y' :: p') = false.
Proof.
  intros D H. destruct u as [|x u]; cbn [ci_starts] in *; [reflexivity|].
  apply andb_true_iff in H. destruct H as [H _]. apply beqb_eq in H. rewrite H, D. reflexivity.
Qed.

Definition lit_data : bytes := Eval compute in B "data:".

Lemma dangerous_model_spec : forall u, dangerous_url u = dangerous_spec u.
Proof.
  intro u. unfold dangerous_url, dangerous_spec, dangerous_safe_literals, dangerous_literals.
  cbn [existsb]. change ci_prefix with ci_starts.
  change (B "javascript:") with [x6a; x61; x76; x61; x73; x63; x72; x69; x70; x74; x3a].
  change (B "vbscript:") with [x76; x62; x73; x63; x72; x69; x70; x74; x3a].
  change (B "file:") with [x66; x69; x6c; x65; x3a].
  change (B "data:") with lit_data.
  change (B "data:image/png") with (lit_data ++ [x69; x6d; x61; x67; x65; x2f; x70; x6e; x67]).
  change (B "data:image/gif") with (lit_data ++ [x69; x6d; x61; x67; x65; x2f; x67; x69; x66]).
  change (B "data:image/jpeg") with (lit_data ++ [x69; x6d; x61; x67; x65; x2f; x6a; x70; x65; x67]).
  change (B "data:image/webp") with (lit_data ++ [x69; x6d; x61; x67; x65; x2f; x77; x65; x62; x70]).
  change [x64; x61; x74; x61; x3a; x69; x6d; x61; x67; x65; x2f; x70; x6e; x67]
    with (lit_data ++ [x69; x6d; x61; x67; x65; x2f; x70; x6e; x67]).
  change [x64; x61; x74; x61; x3a; x69; x6d; x61; x67; x65; x2f; x67; x69; x66]
    with (lit_data ++ [x69; x6d; x61; x67; x65; x2f; x67; x69; x66]).
  change [x64; x61; x74; x61; x3a; x69; x6d; x61; x67; x65; x2f; x6a; x70; x65; x67]
    with (lit_data ++ [x69; x6d; x61; x67; x65; x2f; x6a; x70; x65; x67]).
  change [x64; x61; x74; x61; x3a; x69; x6d; x61; x67; x65; x2f; x77; x65; x62; x70]
    with (lit_data ++ [x69; x6d; x61; x67; x65; x2f; x77; x65; x62; x70]).
  change [x64; x61; x74; x61; x3a] with lit_data.
  rewrite !ci_starts_app.
  set (t := skipn (List.length lit_data) u).
  destruct (ci_starts u lit_data) eqn:D.
  - unfold lit_data in D.
    rewrite (ci_starts_first_diff u x64 _ x6a _ eq_refl D).
    rewrite (ci_starts_first_diff u x64 _ x76 _ eq_refl D).
    rewrite (ci_starts_first_diff u x64 _ x66 _ eq_refl D).
    destruct (ci_starts t _), (ci_starts t _), (ci_starts t _), (ci_starts t _); reflexivity.
  - cbn [andb orb].
    destruct (ci_starts u _), (ci_starts u _), (ci_starts u _); reflexivity.
Qed.

(* ------------------------------------------------------------------ Part 2 *)
Lemma forallb_cons {A} (f : A -> bool) x l : forallb f (x :: l) = f x && forallb f l.
Proof. reflexivity. Qed.

Lemma digit_inert : forall b, implb (is_digit b) (inert_byte b) = true.
Proof. apply forall_bytes. vm_compute. reflexivity. Qed.

Lemma digit_byte n : is_digit (byte_of_N (48 + n mod 10)) = true.
Proof.
  pose proof (N.mod_upper_bound n 10 ltac:(discriminate)) as H.
  set (m := (n mod 10)%N) in *.
  assert (m = 0 \/ m = 1 \/ m = 2 \/ m = 3 \/ m = 4 \/ m = 5 \/ m = 6 \/ m = 7 \/ m = 8 \/ m = 9)%N
    as C by lia.
  repeat (destruct C as [-> | C]; [reflexivity|]). subst m. rewrite C. reflexivity.
Qed.

Lemma dec_aux_digits : forall fuel n acc,
  forallb is_digit acc = true -> forallb is_digit (dec_aux fuel n acc) = true.
Proof.
  induction fuel as [|f IH]; intros n acc H; cbn [dec_aux]; [exact H|].
  destruct (n <? 10)%N.
  - rewrite forallb_cons, digit_byte. exact H.
  - apply IH. rewrite forallb_cons, digit_byte. exact H.
Qed.

Lemma dec_digits n : forallb is_digit (dec n) = true.
Proof. unfold dec. apply dec_aux_digits. reflexivity. Qed.

Lemma digits_inert l : forallb is_digit l = true -> forallb inert_byte l = true.
Proof.
  induction l as [|b l IH]; [reflexivity|]. rewrite !forallb_cons. intro H.
  apply andb_true_iff in H. destruct H as [H1 H2]. rewrite (IH H2), andb_true_r.
  pose proof (digit_inert b) as D. rewrite H1 in D. exact D.
Qed.

Lemma dec_inert n : forallb inert_byte (dec n) = true.
Proof. apply digits_inert, dec_digits. Qed.

(* image alt text: the plain-mode rendering is the text escape of a byte string *)
Definition plain_head (v : node_value) : bytes :=
  match v with
  | Text l => l | Code _ l => l | HtmlInline l => l
  | LineBreak => [x20] | SoftBreak => [x20] | Math _ _ l => l
  | _ => []
  end.

Fixpoint plain_src (n : node) : bytes :=
  match n with Node v _ ch => plain_head v ++ flat_map plain_src ch end.

Lemma plain_is_escape : forall n, plain n = escape_spec (plain_src n).
Proof.
  induction n as [v sp ch IH] using node_ind2.
  cbn [plain plain_src]. rewrite escape_spec_app. f_equal.
  - destruct v; reflexivity.
  - induction IH as [|x l Hx _ IHl]; [reflexivity|].
    cbn [flat_map]. rewrite escape_spec_app, Hx, IHl. reflexivity.
Qed.

Lemma plain_list_is_escape ch : flat_map plain ch = escape_spec (flat_map plain_src ch).
Proof.
  induction ch as [|x l IH]; [reflexivity|].
  cbn [flat_map]. rewrite escape_spec_app, plain_is_escape, IH. reflexivity.
Qed.

Lemma alt_safe ch : part_safe (PPre (flat_map plain ch)) = true.
Proof. cbn [part_safe]. rewrite plain_list_is_escape, unescape_escape. reflexivity. Qed.

(* ------------------------------------------------------------------ Part 3 *)
(* what S7 and S4 say about one node value *)
Definition v_ok (v : node_value) : bool :=
  match v with
  | Raw _ => false
  | EscapedTag l => forallb inert_byte l
  | Heading level _ => (1 <=? level)%N && (level <=? 6)%N
  | _ => true
  end.

Lemma s7_s4_node v sp ch :
  s7 (Node v sp ch) = true -> s4 (Node v sp ch) = true ->
  v_ok v = true /\ forallb s7 ch = true /\ forallb s4 ch = true.
Proof.
  cbn [s7 s4]. intros H7 H4. apply andb_true_iff in H7, H4.
  destruct H7 as [A7 B7], H4 as [A4 B4]. repeat split; try assumption.
  destruct v; try reflexivity; assumption.
Qed.

Ltac brk H :=
  repeat match type of H with
  | context [if ?b then _ else _] => destruct b eqn:?
  | context [match ?x with _ => _ end] => destruct x eqn:?
  end.

Ltac done_true := lazymatch goal with |- true = true => reflexivity | _ => fail "residue" end.
Ltac okinv3 H := try discriminate H; injection H as <- <- <-.
Ltac okinv2 H := try discriminate H; injection H as <- <-.

Lemma url_parts_ps o u : forallb part_safe (url_parts o u) = true.
Proof. unfold url_parts. destruct (_ || _); reflexivity. Qed.

Lemma url_parts_vs o u : o_unsafe o = false -> url_value_safe (url_parts o u) = true.
Proof.
  intro U. unfold url_parts, dangerous. rewrite U, dangerous_model_spec. cbn [orb].
  destruct (dangerous_spec u) eqn:D; cbn [negb url_value_safe]; [reflexivity|]. rewrite D. reflexivity.
Qed.

(* the only place that looks inside the anchorizer *)
Lemma anchorize_inert slug iss header iss' id :
  (forall h, forallb inert_byte (slug h) = true) ->
  h_anchorize slug iss header = Ok (iss', id) -> forallb inert_byte id = true.
Proof.
  intros SL H. unfold h_anchorize in H.
  destruct (h_uniq_loop _ _ _ _) as [a| |] eqn:UL; cbn [bind] in H; try discriminate H.
  injection H as _ <-. pose proof (SL header) as Hid. revert UL Hid.
  generalize (slug header) as s, 0%N as k, (S (List.length iss)) as fuel. clear.
  intros s k fuel; revert k. induction fuel as [|f IH]; intros k H Hid; cbn [h_uniq_loop] in H; [discriminate|].
  destruct (existsb _ iss).
  - eapply IH; eauto.
  - injection H as <-. destruct (k =? 0)%N; [exact Hid|].
    rewrite ?forallb_app, ?forallb_cons, Hid, dec_inert. reflexivity.
Qed.

Ltac expose := cbn [forallb safe_ev attr_safe part_safe url_value_safe app].
Ltac fin := vm_compute; done_true.

Lemma heading_levels level : (1 <=? level)%N && (level <=? 6)%N = true ->
  (level = 1 \/ level = 2 \/ level = 3 \/ level = 4 \/ level = 5 \/ level = 6)%N.
Proof. intro V. apply andb_true_iff in V. destruct V as [V1 V2]. apply N.leb_le in V1, V2. lia. Qed.

Lemma enter_safe slug o c v sp ch st e st' m :
  o_unsafe o = false -> (forall h, forallb inert_byte (slug h) = true) -> v_ok v = true ->
  enter slug o c (Node v sp ch) st = Ok (e, st', m) -> forallb safe_ev e = true.
Proof.
  intros U SL V H. destruct v; try discriminate V;
  unfold enter, sp_attr, align_attr, alert_css, alert_title in H; cbv beta iota zeta in H;
  try rewrite U in H; cbn [negb] in H.
  all: lazymatch type of V with
  | v_ok (Heading _ _) = true =>
    apply heading_levels in V;
    destruct (o_header_ids o) as [prefix|];
    [ destruct (h_anchorize _ _ _) as [[iss' id]| |] eqn:AN; cbn [bind] in H; try discriminate H;
      apply anchorize_inert in AN; [|exact SL];
      brk H; okinv3 H; expose; rewrite AN;
      repeat (destruct V as [-> | V]; [fin|]); subst level; fin
    | brk H; okinv3 H;
      repeat (destruct V as [-> | V]; [fin|]); subst level; fin ]
  | v_ok (EscapedTag _) = true =>
    cbn [v_ok] in V; okinv3 H; expose; rewrite V; reflexivity
  | v_ok (NList _) = true => brk H; okinv3 H; expose; rewrite ?dec_inert; fin
  | v_ok (FootnoteReference _ _ _) = true => brk H; okinv3 H; expose; rewrite ?dec_inert; fin
  | v_ok (Link _ _) = true =>
    brk H; okinv3 H; expose; rewrite ?url_parts_ps; rewrite ?url_parts_vs by exact U; fin
  | v_ok (WikiLink _) = true =>
    brk H; okinv3 H; expose; rewrite ?url_parts_ps; rewrite ?url_parts_vs by exact U; fin
  | _ => brk H; okinv3 H; fin
  end.
Qed.

Lemma backref_loop_safe name fnix : forall total k,
  forallb safe_ev (backref_loop name fnix total k) = true.
Proof.
  induction total as [|t IH]; intro k; [reflexivity|].
  cbn [backref_loop]. rewrite !forallb_app, IH.
  destruct (1 <? N.of_nat k)%N; expose; rewrite ?forallb_app; cbn [forallb]; rewrite ?dec_inert; fin.
Qed.

Lemma put_backref_safe name total st :
  forallb safe_ev (fst (fst (put_footnote_backref name total st))) = true.
Proof.
  unfold put_footnote_backref. destruct (_ <=? _)%N; [reflexivity|].
  cbn [fst]. apply backref_loop_safe.
Qed.

Ltac use_backref :=
  match goal with
  | E : put_footnote_backref ?n ?t ?s = (?l, _, _) |- _ =>
    let PB := fresh "PB" in
    pose proof (put_backref_safe n t s) as PB; rewrite E in PB; cbn [fst] in PB;
    cbn [forallb]; rewrite ?forallb_app, PB
  end.

Lemma exit_safe o c v sp ch st e st' :
  o_unsafe o = false -> v_ok v = true ->
  exit_ o c (Node v sp ch) st = Ok (e, st') -> forallb safe_ev e = true.
Proof.
  intros U V H. destruct v; try discriminate V;
  unfold exit_, sp_attr in H; cbv beta iota zeta in H.
  all: lazymatch type of V with
  | v_ok (Heading _ _) = true =>
    apply heading_levels in V; okinv2 H;
    repeat (destruct V as [-> | V]; [fin|]); subst level; fin
  | v_ok (EscapedTag _) = true =>
    cbn [v_ok] in V; okinv2 H; expose; rewrite V; reflexivity
  | v_ok (Image _ _) = true =>
    brk H; okinv2 H; rewrite ?forallb_app; expose;
    rewrite ?url_parts_ps; rewrite ?url_parts_vs by exact U; 
    rewrite ?plain_list_is_escape, ?unescape_escape; fin
  | v_ok Paragraph = true => brk H; okinv2 H; try use_backref; fin
  | v_ok (FootnoteDefinition _ _) = true => brk H; okinv2 H; try use_backref; fin
  | _ => brk H; okinv2 H; fin
  end.
Qed.

(* ------------------------------------------------------------------ Part 4 *)
(* the children loop written inside `render` is `render_list` *)
Lemma render_unfold slug o c v sp ch st :
  render slug o c (Node v sp ch) st =
  (do r1 <- enter slug o c (Node v sp ch) st;
   let '(e1, st1, m) := r1 in
   do r2 <- match m with
            | MPlain => Ok ([], st1)
            | MHtml => render_list slug o v (c_parent c) ch 0 None st1
            end;
   let (e2, st2) := r2 in
   do r3 <- exit_ o c (Node v sp ch) st2;
   let (e3, st3) := r3 in
   Ok (e1 ++ e2 ++ e3, st3)).
Proof.
  cbn [render].
  destruct (enter slug o c (Node v sp ch) st) as [[[e1 st1] m]| |]; cbn [bind]; try reflexivity.
  destruct m; [|reflexivity].
  f_equal.
  generalize 0, (@None node_value), st1. clear.
  induction ch as [|x r IH]; intros i prev s; [reflexivity|].
  cbn [render_list].
  destruct (render slug o _ x s) as [[ex sx]| |]; cbn [bind]; try reflexivity.
  rewrite IH. reflexivity.
Qed.

Section Traversal.
  Variable slug : bytes -> bytes.
  Variable o : opts.
  Hypothesis U : o_unsafe o = false.
  Hypothesis SL : forall h, forallb inert_byte (slug h) = true.

  Definition render_safe_at (n : node) : Prop :=
    s7 n = true -> s4 n = true ->
    forall c st e st', render slug o c n st = Ok (e, st') -> forallb safe_ev e = true.

  Lemma render_list_safe v pv : forall l,
    Forall render_safe_at l -> forallb s7 l = true -> forallb s4 l = true ->
    forall i prev s e s', render_list slug o v pv l i prev s = Ok (e, s') -> forallb safe_ev e = true.
  Proof.
    induction 1 as [|x r Hx _ IH]; intros H7 H4 i prev s e s' H; cbn [render_list] in H.
    - injection H as <- <-. reflexivity.
    - cbn [forallb] in H7, H4. apply andb_true_iff in H7, H4.
      destruct H7 as [X7 R7], H4 as [X4 R4].
      destruct (render slug o _ x s) as [[ex sx]| |] eqn:RX; cbn [bind] in H; try discriminate H.
      destruct (render_list slug o v pv r _ _ sx) as [[er sr]| |] eqn:RR; cbn [bind] in H; try discriminate H.
      injection H as <- <-. rewrite forallb_app.
      rewrite (Hx X7 X4 _ _ _ _ RX), (IH R7 R4 _ _ _ _ _ RR). reflexivity.
  Qed.

  Lemma render_safe : forall n, render_safe_at n.
  Proof.
    induction n as [v sp ch IH] using node_ind2. intros H7 H4 c st e st' H.
    destruct (s7_s4_node _ _ _ H7 H4) as (V & C7 & C4).
    rewrite render_unfold in H.
    destruct (enter slug o c (Node v sp ch) st) as [[[e1 st1] m]| |] eqn:EN; cbn [bind] in H; try discriminate H.
    apply (enter_safe _ _ _ _ _ _ _ _ _ _ U SL V) in EN.
    destruct m.
    - destruct (render_list slug o v _ ch 0 None st1) as [[e2 st2]| |] eqn:RL; cbn [bind] in H; try discriminate H.
      destruct (exit_ o c (Node v sp ch) st2) as [[e3 st3]| |] eqn:EX; cbn [bind] in H; try discriminate H.
      injection H as <- <-. rewrite !forallb_app, EN.
      rewrite (render_list_safe _ _ _ IH C7 C4 _ _ _ _ _ RL), (exit_safe _ _ _ _ _ _ _ _ U V EX). reflexivity.
    - cbn [bind] in H.
      destruct (exit_ o c (Node v sp ch) st1) as [[e3 st3]| |] eqn:EX; cbn [bind] in H; try discriminate H.
      injection H as <- <-. rewrite !forallb_app, EN, (exit_safe _ _ _ _ _ _ _ _ U V EX). reflexivity.
  Qed.

  Lemma finish_safe st : forallb safe_ev (finish st) = true.
  Proof. unfold finish. destruct (0 <? fn_ix st)%N; fin. Qed.

  Lemma events_safe t evs :
    s7 t = true -> s4 t = true -> events slug o t = Ok evs -> forallb safe_ev evs = true.
  Proof.
    intros H7 H4 H. unfold events in H.
    destruct (render slug o root_ctx t _) as [[e st]| |] eqn:R; cbn [bind] in H; try discriminate H.
    injection H as <-. rewrite forallb_app, (render_safe t H7 H4 _ _ _ _ R), finish_safe. reflexivity.
  Qed.
End Traversal.

Lemma c02_events : forall slug o t evs,
  o_unsafe o = false -> s7 t = true -> s4 t = true ->
  (forall h, forallb inert_byte (slug h) = true) ->
  events slug o t = Ok evs -> forallb safe_ev evs = true.
Proof. intros slug o t evs U H7 H4 SL H. exact (events_safe slug o U SL t evs H7 H4 H). Qed.

(* the statement without S4 is false: a heading of level 7 is written as the element h7 *)
Definition no_s4_tree : node :=
  Node Document (mkSp 1 1 1 1) [Node (Heading 7 false) (mkSp 1 1 1 1) []].
Definition opts_default : opts :=
  mkOpts false None false false false false false false false 0 false false 0 false false false
         false false false 0 false false.

Lemma c02_events_without_s4_refuted :
  ~ (forall slug o t evs,
       o_unsafe o = false -> s7 t = true ->
       (forall h, forallb inert_byte (slug h) = true) ->
       events slug o t = Ok evs -> forallb safe_ev evs = true).
Proof.
  intro H.
  specialize (H (fun _ => []) opts_default no_s4_tree
                [Cr; Open [x68; x37] []; Close [x68; x37]; Lit [x0a]]
                eq_refl eq_refl (fun _ => eq_refl)).
  assert (events (fun _ => []) opts_default no_s4_tree
          = Ok [Cr; Open [x68; x37] []; Close [x68; x37]; Lit [x0a]]) as E by (vm_compute; reflexivity).
  specialize (H E). vm_compute in H. discriminate H.
Qed.

(* ------------------------------------------------------------------ Part 5 *)
(* (a) raw bytes in the events are inert *)
Lemma c02_no_raw_html : forall slug o t evs,
  o_unsafe o = false -> s7 t = true -> s4 t = true ->
  (forall h, forallb inert_byte (slug h) = true) ->
  events slug o t = Ok evs ->
  forall b, In (RawHtml b) evs -> forallb inert_byte b = true.
Proof.
  intros slug o t evs U H7 H4 SL H b Hin.
  pose proof (c02_events slug o t evs U H7 H4 SL H) as S.
  rewrite forallb_forall in S. exact (S _ Hin).
Qed.

(* (b) where the raw bytes come from: with unsafe off every RawHtml event carries the literal of
   an EscapedTag (or Raw) node of the tree — never the literal of an HtmlBlock / HtmlInline, a
   title, a URL, ...  No shape hypothesis is needed for this one. *)
(* raws, raw_lit, raw_lits: Spec/HtmlSpec.v *)

Lemma raws_app a b : raws (a ++ b) = raws a ++ raws b.
Proof. apply flat_map_app. Qed.

Lemma enter_raws slug o c v sp ch st e st' m :
  o_unsafe o = false ->
  enter slug o c (Node v sp ch) st = Ok (e, st', m) -> raws e = raw_lit v.
Proof.
  intros U H. destruct v;
  unfold enter, sp_attr in H; cbv beta iota zeta in H; try rewrite U in H; cbn [negb] in H.
  all: lazymatch type of H with
  | context [h_anchorize] =>
    destruct (o_header_ids o) as [prefix|];
    [ destruct (h_anchorize _ _ _) as [[iss' id]| |]; cbn [bind] in H; try discriminate H |];
    okinv3 H; reflexivity
  | _ => brk H; okinv3 H; reflexivity
  end.
Qed.

Lemma backref_loop_raws name fnix : forall total k, raws (backref_loop name fnix total k) = [].
Proof.
  induction total as [|t IH]; intro k; [reflexivity|].
  cbn [backref_loop]. rewrite !raws_app, IH. destruct (1 <? N.of_nat k)%N; reflexivity.
Qed.

Lemma put_backref_raws name total st : raws (fst (fst (put_footnote_backref name total st))) = [].
Proof.
  unfold put_footnote_backref. destruct (_ <=? _)%N; [reflexivity|]. apply backref_loop_raws.
Qed.

Ltac use_backref_raws :=
  match goal with
  | E : put_footnote_backref ?n ?t ?s = (?l, _, _) |- _ =>
    let PB := fresh "PB" in
    pose proof (put_backref_raws n t s) as PB; rewrite E in PB; cbn [fst] in PB;
    change (raws (?x :: ?r)) with (raws ([x] ++ r)); rewrite ?raws_app, PB
  end.

Lemma exit_raws o c v sp ch st e st' :
  exit_ o c (Node v sp ch) st = Ok (e, st') -> incl (raws e) (raw_lit v).
Proof.
  intros H. destruct v; unfold exit_ in H; cbv beta iota zeta in H.
  all: brk H; okinv2 H; try use_backref_raws;
       first [ apply incl_nil_l | apply incl_refl ].
Qed.

Lemma render_list_raws slug o (U : o_unsafe o = false) v pv : forall l,
  Forall (fun n => forall c st e st', render slug o c n st = Ok (e, st') -> incl (raws e) (raw_lits n)) l ->
  forall i prev s e s', render_list slug o v pv l i prev s = Ok (e, s') ->
  incl (raws e) (flat_map raw_lits l).
Proof.
  induction 1 as [|x r Hx _ IH]; intros i prev s e s' H; cbn [render_list] in H.
  - injection H as <- <-. apply incl_nil_l.
  - destruct (render slug o _ x s) as [[ex sx]| |] eqn:RX; cbn [bind] in H; try discriminate H.
    destruct (render_list slug o v pv r _ _ sx) as [[er sr]| |] eqn:RR; cbn [bind] in H; try discriminate H.
    injection H as <- <-. rewrite raws_app. cbn [flat_map].
    apply incl_app; [apply incl_appl, (Hx _ _ _ _ RX) | apply incl_appr, (IH _ _ _ _ _ RR)].
Qed.

Lemma render_raws slug o (U : o_unsafe o = false) : forall n c st e st',
  render slug o c n st = Ok (e, st') -> incl (raws e) (raw_lits n).
Proof.
  induction n as [v sp ch IH] using node_ind2. intros c st e st' H.
  rewrite render_unfold in H. cbn [raw_lits].
  destruct (enter slug o c (Node v sp ch) st) as [[[e1 st1] m]| |] eqn:EN; cbn [bind] in H; try discriminate H.
  apply (enter_raws _ _ _ _ _ _ _ _ _ _ U) in EN.
  destruct m.
  - destruct (render_list slug o v _ ch 0 None st1) as [[e2 st2]| |] eqn:RL; cbn [bind] in H; try discriminate H.
    destruct (exit_ o c (Node v sp ch) st2) as [[e3 st3]| |] eqn:EX; cbn [bind] in H; try discriminate H.
    injection H as <- <-. rewrite !raws_app, EN.
    apply incl_app; [apply incl_appl, incl_refl|].
    apply incl_app; [apply incl_appr, (render_list_raws slug o U _ _ _ IH _ _ _ _ _ RL)|].
    apply incl_appl, (exit_raws _ _ _ _ _ _ _ _ EX).
  - cbn [bind] in H.
    destruct (exit_ o c (Node v sp ch) st1) as [[e3 st3]| |] eqn:EX; cbn [bind] in H; try discriminate H.
    injection H as <- <-. rewrite !raws_app, EN. cbn [app].
    apply incl_app; [apply incl_appl, incl_refl|].
    apply incl_appl, (exit_raws _ _ _ _ _ _ _ _ EX).
Qed.

Lemma c02_raw_origin : forall slug o t evs,
  o_unsafe o = false -> events slug o t = Ok evs ->
  forall b, In (RawHtml b) evs -> In b (raw_lits t).
Proof.
  intros slug o t evs U H b Hin. unfold events in H.
  destruct (render slug o root_ctx t _) as [[e st]| |] eqn:R; cbn [bind] in H; try discriminate H.
  injection H as <-. apply (render_raws slug o U _ _ _ _ _ R).
  assert (In b (raws (e ++ finish st))) as Hb.
  { unfold raws. apply in_flat_map. exists (RawHtml b). split; [exact Hin | left; reflexivity]. }
  rewrite raws_app in Hb. apply in_app_or in Hb. destruct Hb as [Hb|Hb]; [exact Hb|].
  unfold finish in Hb. destruct (0 <? fn_ix st)%N; destruct Hb.
Qed.

(* (c) the only trace of an HtmlBlock / HtmlInline node: the placeholder, or escaped text *)
Lemma c02_html_block slug o c bt l sp ch st :
  o_unsafe o = false ->
  enter slug o c (Node (HtmlBlock bt l) sp ch) st =
    Ok ((if o_escape o then [Cr; Txt l; Cr] else [Cr; Cmt; Cr]), st, MHtml) /\
  exit_ o c (Node (HtmlBlock bt l) sp ch) st = Ok ([], st).
Proof.
  intro U. split; [|reflexivity]. unfold enter. cbv beta iota zeta. rewrite U.
  destruct (o_escape o); reflexivity.
Qed.

Lemma c02_html_inline slug o c l sp ch st :
  o_unsafe o = false ->
  enter slug o c (Node (HtmlInline l) sp ch) st =
    Ok ((if o_escape o then [Txt l] else [Cmt]), st, MHtml) /\
  exit_ o c (Node (HtmlInline l) sp ch) st = Ok ([], st).
Proof.
  intro U. split; [|reflexivity]. unfold enter. cbv beta iota zeta. rewrite U.
  destruct (o_escape o); reflexivity.
Qed.

(* (d) URL attributes *)
(* url_shape, attrs_of: Spec/HtmlSpec.v *)

Lemma url_value_safe_shape v : url_value_safe v = true -> url_shape v.
Proof.
  unfold url_value_safe, url_shape. destruct v as [|p r]; [left; reflexivity|]. intro H.
  destruct p as [b|b|b|b].
  - destruct r; discriminate H.
  - destruct r; [|discriminate H]. right; left. exists b. split; [reflexivity|].
    destruct (dangerous_spec b); [discriminate H | reflexivity].
  - right; right. apply andb_true_iff in H. destruct H as [H1 H2].
    destruct b as [|x c]; [discriminate H1|].
    destruct (beqb_spec x x23) as [->|N]; [exists c, r; split; [reflexivity | exact H2]|].
    exfalso. revert H1 N. clear. destruct x; intros H1 N; try discriminate H1. apply N. reflexivity.
  - destruct r; discriminate H.
Qed.


Lemma attr_safe_url t n v :
  attr_safe t (Attr n v) = true -> is_url_attr n = true -> url_value_safe v = true.
Proof.
  cbn [attr_safe]. intros H Hn. rewrite Hn in H. apply andb_true_iff in H. exact (proj2 H).
Qed.

Lemma safe_ev_attrs e x : safe_ev e = true -> In x (attrs_of e) -> exists t, attr_safe t x = true.
Proof.
  intros S Hx. destruct e as [tg a|tg|tg a|b|b|b| |]; cbn [attrs_of] in Hx; try contradiction;
  cbn [safe_ev] in S; apply andb_true_iff in S; destruct S as [_ S];
  rewrite forallb_forall in S; exists tg; apply S; exact Hx.
Qed.

Lemma c02_urls : forall slug o t evs,
  o_unsafe o = false -> s7 t = true -> s4 t = true ->
  (forall h, forallb inert_byte (slug h) = true) ->
  events slug o t = Ok evs ->
  forall e n v, In e evs -> In (Attr n v) (attrs_of e) -> is_url_attr n = true -> url_shape v.
Proof.
  intros slug o t evs U H7 H4 SL H e n v He Ha Hn.
  pose proof (c02_events slug o t evs U H7 H4 SL H) as S.
  rewrite forallb_forall in S. specialize (S _ He).
  destruct (safe_ev_attrs _ _ S Ha) as [tg A].
  exact (url_value_safe_shape _ (attr_safe_url _ _ _ A Hn)).
Qed.

(* a slug function satisfying the hypothesis on every input (used by the non-vacuity example) *)
Lemma filter_inert_slug : forall h, forallb inert_byte (filter inert_byte h) = true.
Proof. intro h. apply forallb_forall. intros x Hx. apply filter_In in Hx. exact (proj2 Hx). Qed.
