(* Proofs/BlocksTotal3Tab.v — totality of the block phase, third round, step 1 (tree side completed): the walk of
   Proofs/BlocksTotal2Walk.v through the two families of functions it had left out,

     table.rs   try_inserting_table_header_paragraph, try_opening_header, try_opening_row, try_opening_block
     mod.rs     parse_desc_list_details (reopen_ast_nodes), handle_description_list

   so that the invariant J of the handlers (W, the container present, `a paragraph container is the last matched one`,
   self.current untouched and present or equal to the last matched container) holds through open_new_blocks for EVERY
   option set.  Result: parse_blocks_no_tree_panic_all — none of the eleven tree-lookup sites (tree_sites) is reachable,
   for every input byte string and every option set.

   What is new with respect to the second round:
     * upd_keep / edit_kids_in: what the tree primitives keep of the OTHER nodes when a child list grows (append of a
       node, insertion of the header paragraph, replacement of the paragraph by the table);
     * add_child_gen_keep: add_child under a parent that is no paragraph keeps every node and its kind (needed because
       parse_desc_list_details keeps using the nodes it has just created);
     * the description-list walk: the last child (a paragraph, hence a leaf) leaves the tree (bdetach; the invariant is
       TI with ex = its identifiers, as in Proofs/ParserShapeTables.v) and comes back under the new DescriptionTerm, so
       every identifier that was present before the call is present after it;
     * the table walk: the paragraph that becomes a table is the last matched container (J), so self.current either is
       that paragraph (and the closing loop of add_text_to_container stops at once) or is kept. *)
From Coq Require Import List NArith Arith Bool Lia Strings.String.
From V Require Import Base.Bytes Base.Res Gen.Nodes Model.Ast Model.Strings Model.Feed Model.FrontMatter Model.RefDef
  Model.Scan Model.Blocks Spec.Shape Spec.Valid Proofs.BlocksProofs Proofs.BlocksCursor Proofs.BlocksTight
  Proofs.ParserShapeBlocks Proofs.ParserShapeTree Proofs.ParserShapeTabPrim Proofs.ParserShapeTables
  Proofs.BlocksTotal Proofs.BlocksTotal2Safe Proofs.BlocksTotal2Root Proofs.BlocksTotal2Tree Proofs.BlocksTotal2Walk.
From V Require Proofs.BlocksNestTab.
Import ListNotations.
Local Open Scope string_scope.
Local Open Scope list_scope.

(* ================================================================== what upd / edit_kids keep *)
Lemma last_opt_none {A} (l : list A) : last_opt l = None -> l = [].
Proof.
  unfold last_opt. intro H. destruct (rev l) eqn:E; [|discriminate H].
  apply (f_equal (@rev A)) in E. rewrite rev_involutive in E. exact E.
Qed.

(* an update that relates the info of the node by R and only adds children keeps every node up to R *)
Lemma upd_keep (R : binfo -> binfo -> Prop) id f :
  (forall i, R i i) ->
  (forall n, R (binf n) (binf (f n)) /\ incl (bkids n) (bkids (f n))) ->
  forall t t', upd id f t = Some t' -> forall n, In n (bsub t) -> exists n', In n' (bsub t') /\ R (binf n) (binf n').
Proof.
  intros Rr Hf. induction t as [i ch IH] using bnode_ind2. intros t' U n Hn. cbn [upd] in U.
  destruct (Nat.eqb (bi_id i) id).
  { inversion U; subst. clear U. destruct (Hf (BNode i ch)) as [A B]. cbn [bsub] in Hn. destruct Hn as [<-|Hn].
    - exists (f (BNode i ch)). split; [apply bsub_self | exact A].
    - exists n. split; [|apply Rr]. apply in_flat_map in Hn. destruct Hn as [x [Hx Hn]].
      destruct (f (BNode i ch)) as [j k]. cbn [bkids] in B. eapply bsub_kid; [apply B; exact Hx | exact Hn]. }
  match type of U with match ?g with _ => _ end = _ => destruct g as [ch'|] eqn:G; [|discriminate] end.
  inversion U; subst. clear U. cbn [bsub] in Hn. destruct Hn as [<-|Hn].
  { exists (BNode i ch'). split; [apply bsub_self | apply Rr]. }
  apply in_flat_map in Hn. destruct Hn as [x [Hx Hn]].
  enough (exists y n', In y ch' /\ In n' (bsub y) /\ R (binf n) (binf n')) as (y & n' & A & B & C).
  { exists n'. split; [eapply bsub_kid; eassumption | exact C]. }
  revert ch' G. induction ch as [|c r IHr]; intros ch' G; [destruct Hx|].
  inversion IH as [|? ? IHc IHrest]; subst.
  destruct (upd id f c) as [c'|] eqn:Uc.
  - inversion G; subst. destruct Hx as [Hx|Hx].
    + subst x. destruct (IHc c' eq_refl n Hn) as (n' & A & B). exists c', n'. split; [now left | auto].
    + exists x, n. split; [now right | auto].
  - match type of G with match ?g with _ => _ end = _ => destruct g as [r'|] eqn:Gr; [|discriminate] end.
    inversion G; subst. destruct Hx as [Hx|Hx].
    + subst x. exists c, n. split; [now left | auto].
    + destruct (IHr IHrest Hx r' eq_refl) as (y & n' & A & B & C). exists y, n'. split; [now right | auto].
Qed.

(* the rewritten child list is in the new tree *)
Lemma edit_kids_in id g : forall t t', edit_kids id g t = Some t' ->
  exists pk pre c post, bid c = id /\ In c (bsub t) /\ forall k, In k (g pk pre c post) -> In k (bsub t').
Proof.
  induction t as [i ch IH] using bnode_ind2. intros t' U. cbn [edit_kids] in U.
  destruct (split_kid id ch) as [[[pre c] post]|] eqn:S.
  { inversion U; subst. exists (kind_of (bi_val i)), pre, c, post.
    split; [eapply split_kid_bid; exact S|]. split.
    - eapply bsub_kid; [|apply bsub_self]. rewrite (split_kid_eq _ _ _ _ _ S). apply in_or_app. right. now left.
    - intros k Hk. eapply bsub_kid; [exact Hk | apply bsub_self]. }
  clear S.
  match type of U with match ?gg with _ => _ end = _ => destruct gg as [ch'|] eqn:G; [|discriminate] end.
  inversion U; subst. clear U.
  enough (exists pk pre c post, bid c = id /\ (exists y, In y ch /\ In c (bsub y)) /\
            forall k, In k (g pk pre c post) -> exists y', In y' ch' /\ In k (bsub y')) as (pk & pre & c & post & A & (y & Hy & B) & C).
  { exists pk, pre, c, post. split; [exact A|]. split; [eapply bsub_kid; eassumption|].
    intros k Hk. destruct (C k Hk) as (y' & Hy' & Hk'). eapply bsub_kid; eassumption. }
  revert ch' G. induction ch as [|c r IHr]; intros ch' G; [discriminate|].
  inversion IH as [|? ? IHc IHrest]; subst.
  destruct (edit_kids id g c) as [c'|] eqn:Uc.
  - inversion G; subst. destruct (IHc c' eq_refl) as (pk & pre & c0 & post & A & B & C).
    exists pk, pre, c0, post. split; [exact A|]. split; [exists c; split; [now left | exact B]|].
    intros k Hk. exists c'. split; [now left | now apply C].
  - match type of G with match ?gg with _ => _ end = _ => destruct gg as [r'|] eqn:Gr; [|discriminate] end.
    inversion G; subst. destruct (IHr IHrest r' eq_refl) as (pk & pre & c0 & post & A & (y & Hy & B) & C).
    exists pk, pre, c0, post. split; [exact A|]. split; [exists y; split; [now right | exact B]|].
    intros k Hk. destruct (C k Hk) as (y' & Hy' & Hk'). exists y'. split; [now right | exact Hk'].
Qed.

(* ================================================================== nodes of a W state *)
Lemma in_bsub_has st n : In n (bsub (ps_root st)) -> has st (bid n).
Proof. intro H. apply has_cnt. now apply bsub_cnt. Qed.

Lemma in_bsub_para o st n : W o st -> In n (bsub (ps_root st)) -> ispara st (bid n) = is_paragraph n.
Proof. intros V H. now rewrite (ispara_get _ _ _ (get_unique _ _ _ V H)). Qed.

Lemma has_node st y : has st y -> exists n, In n (bsub (ps_root st)) /\ bid n = y.
Proof. intro H. destruct (in_ids_find _ _ H) as [n F]. destruct (find_node_sub _ _ _ F) as [A B]. eauto. Qed.

Lemma TI_weaken o ex st : TI o ex st -> TI o [] st.
Proof.
  intros [N [U B]]. split; [exact N|]. split; [|exact B]. intro x. destruct (U x) as [U1 U2]. cnt_norm. split; [lia|].
  intro H. apply U2. lia.
Qed.

Lemma modify_fields st id f st' : modify st id f = Ok st' ->
  ps_next st' = ps_next st /\ ps_current st' = ps_current st /\ ps_line_number st' = ps_line_number st /\ ps_cur st' = ps_cur st.
Proof. unfold modify. intro M. destruct (upd id f (ps_root st)); [|discriminate M]. inversion M; subst. repeat split. Qed.

Lemma modify_keep (R : binfo -> binfo -> Prop) st id f st' :
  modify st id f = Ok st' -> (forall i, R i i) ->
  (forall n, R (binf n) (binf (f n)) /\ incl (bkids n) (bkids (f n))) ->
  forall n, In n (bsub (ps_root st)) -> exists n', In n' (bsub (ps_root st')) /\ R (binf n) (binf n').
Proof.
  unfold modify. intros M Rr Hf n Hn. destruct (upd id f (ps_root st)) as [r|] eqn:U; [|discriminate M].
  inversion M; subst. cbn [ps_root st_root]. eapply upd_keep; eassumption.
Qed.

(* append keeps every node with its info *)
Lemma append_child_keep o st pid nd st' : append_child st pid nd = Ok st' -> W o st' ->
  forall y, has st y -> has st' y /\ ispara st' y = ispara st y.
Proof.
  intros A V' y Hy. destruct (in_ids_find _ _ Hy) as [n F]. destruct (find_node_sub _ _ _ F) as [Bn Hn].
  unfold append_child in A.
  destruct (modify_keep (fun i j => j = i) _ _ _ _ A (fun i => eq_refl)) with (n := n) as (n' & Hn' & E); [|exact Hn|].
  { intros [i ch]. split; [reflexivity|]. cbn [bkids]. apply incl_appl, incl_refl. }
  assert (By : bid n' = y) by (unfold bid; rewrite E; exact Bn).
  split; [rewrite <- By; now apply in_bsub_has|].
  rewrite <- By at 1. rewrite (in_bsub_para _ _ _ V' Hn'). unfold ispara. rewrite F. now apply para_binf.
Qed.

(* add_child under a parent that is no paragraph: every node stays, with its kind; the kids handed over are in the tree *)
Lemma add_child_gen_keep o st parent v col post kids id st' :
  add_child_gen o st parent v col post kids = Ok (id, st') -> W o st -> W o st' -> has st parent -> ispara st parent = false ->
  (forall i, bi_id (post i) = bi_id i) ->
  has st' id /\ ispara st' id = is_pv (bi_val (post (new_info id v (ps_line_number st') col))) /\
  ps_current st' = ps_current st /\ id = ps_next st /\
  (forall y, has st y -> has st' y /\ ispara st' y = ispara st y) /\
  (forall k, In k kids -> In k (bsub (ps_root st'))).
Proof.
  unfold add_child_gen. intros H V V' Hp NP Hpost.
  match type of H with bind ?r _ = _ => destruct r as [[p' s1]| |] eqn:E; cbn [bind] in H; try discriminate H end.
  destruct (add_child_loop_post _ _ _ _ _ _ _ E V Hp) as (V1 & H1 & _ & Sm). specialize (Sm NP).
  mon H. rename E1 into A.
  destruct (modify_fields _ _ _ _ A) as (F1 & F2 & F3 & _). cbn [ps_next ps_current ps_line_number st_next] in F1, F2, F3.
  pose proof (BlocksNestTab.append_child_in _ _ _ _ A) as Hin.
  match type of Hin with In ?x _ => set (nd := x) in * end.
  assert (Bn : bid nd = ps_next s1) by (unfold bid, nd; cbn [binf]; rewrite Hpost; reflexivity).
  split; [rewrite <- Bn; now apply in_bsub_has|].
  split; [rewrite <- Bn at 1; rewrite (in_bsub_para _ _ _ V' Hin), F3; reflexivity|].
  split; [rewrite F2; exact (sm_cur _ _ Sm)|].
  split; [exact (sm_next _ _ Sm)|].
  split.
  - intros y Hy. assert (Hy1 : has (st_next s1 (S (ps_next s1))) y) by (apply (same_has _ _ _ Sm); exact Hy).
    destruct (append_child_keep _ _ _ _ _ A V' y Hy1) as [K1 K2]. split; [exact K1|].
    rewrite K2. exact (sm_para _ _ Sm y).
  - intros k Hk. eapply bsub_kid_of; [exact Hin | exact Hk].
Qed.

(* a node that is not the root sits in a child list *)
Lemma edit_kids_ok o st c g : W o st -> has st c -> c <> root_id -> exists r, edit_kids c g (ps_root st) = Some r.
Proof.
  intros V H N. destruct (parent_some_st _ _ _ V H N) as [p P].
  destruct (parent_of_kid _ _ _ P) as (pn & k & A & _ & C & D).
  destruct (edit_kids c g (ps_root st)) as [r|] eqn:E; [eauto|]. exfalso.
  rewrite <- D in E. exact (edit_kids_some g _ _ _ A C E).
Qed.

Lemma W_st_next_le o st n : ps_next st <= n -> W o st -> W o (st_next st n).
Proof. intros L (T & S & R). split; [now apply TI_st_next_le | split; assumption]. Qed.

(* ================================================================== description lists *)
(* the invariant while the paragraph is out of the tree *)
Definition DX (o : bopts) (ex : list nat) (cur0 : nat) (P : nat -> Prop) (s : pstate) : Prop :=
  TI o ex s /\ SV s /\ R0 o s /\ ps_current s = cur0 /\ (forall y, P y -> has s y).

Lemma DX_W o ex cur0 P s : DX o ex cur0 P s -> W o s.
Proof. intros (T & S & R & _). split; [eapply TI_weaken; exact T | split; assumption]. Qed.

Lemma DX_same o ex cur0 P s s' : same s s' -> TI o ex s' -> SV s' -> R0 o s' -> DX o ex cur0 P s -> DX o ex cur0 P s'.
Proof.
  intros Sm T' S' R' (_ & _ & _ & C & K). split; [exact T'|]. split; [exact S'|]. split; [exact R'|].
  split; [rewrite (sm_cur _ _ Sm); exact C|]. intros y Py. apply (same_has _ _ _ Sm). now apply K.
Qed.

Definition DN (o : bopts) (ex : list nat) (cur0 : nat) (P : nat -> Prop) (r : nat * pstate) : Prop :=
  DX o ex cur0 P (snd r) /\ has (snd r) (fst r) /\ ispara (snd r) (fst r) = false.

Lemma DX_add_child o ex cur0 P s p v col :
  DX o ex cur0 P s -> has s p -> ispara s p = false ->
  bvok o v = true -> vrowcell v = false -> vplain v = true -> is_pv v = false ->
  safe (fun r => DN o ex cur0 P r /\ (forall y, has s y -> has (snd r) y /\ ispara (snd r) y = ispara s y))
       (add_child o s p v col).
Proof.
  intros D Hp NP B1 B2 B3 B4. pose proof (DX_W _ _ _ _ _ D) as V. destruct D as (T & S & R & C & K).
  apply nb_safe; [unfold add_child; now apply add_child_gen_nb|]. intros [id s1] A. unfold DN. cbn [fst snd].
  assert (T1 : TI o ex s1) by (eapply add_child_TI; eassumption).
  assert (S1 : SV s1) by (eapply add_child_valid; eassumption).
  assert (R1 : R0 o s1) by (eapply add_child_R0; eassumption).
  assert (V1 : W o s1) by (split; [eapply TI_weaken; exact T1 | split; assumption]).
  unfold add_child in A.
  destruct (add_child_gen_keep _ _ _ _ _ _ _ _ _ A V V1 Hp NP (fun i => eq_refl)) as (G1 & G2 & G3 & _ & G5 & _).
  cbn [new_info bi_val] in G2. split; [|exact G5].
  split; [|split; [exact G1 | rewrite G2; exact B4]].
  split; [exact T1|]. split; [exact S1|]. split; [exact R1|]. split; [congruence|].
  intros y Py. apply G5. now apply K.
Qed.

Lemma DX_set_start o ex cur0 P s x l c :
  DX o ex cur0 P s -> has s x ->
  safe (fun s' => DX o ex cur0 P s' /\ same s s') (modify_info s x (set_start l c)).
Proof.
  intros D Hx. apply nb_safe; [now apply nb_modify_info|]. intros s' M.
  assert (Hg : forall i, bi_id (set_start l c i) = bi_id i /\ bi_val (set_start l c i) = bi_val i) by (intro; split; reflexivity).
  pose proof (modify_info_set_same _ _ _ _ M Hg) as Sm. split; [|exact Sm].
  pose proof D as (T & S & R & _).
  eapply DX_same; [exact Sm | | | | exact D].
  - eapply modify_info_set_TI; [exact M | intro; split; reflexivity | exact T].
  - eapply modify_info_set_valid; [exact M | intro; reflexivity | exact S].
  - eapply modify_info_set_R0; [exact M | intro; reflexivity | exact R].
Qed.

Lemma reopen_spec o ex : forall fuel s id, TI o ex s -> SV s -> R0 o s -> has s id ->
  safe (fun s' => TI o ex s' /\ SV s' /\ R0 o s' /\ same s s') (reopen_ast_nodes fuel s id).
Proof.
  induction fuel as [|f IH]; intros s id T S R H; cbn [reopen_ast_nodes]; [exact I|].
  apply sbind; [now apply nb_modify_info|]. intros s1 M.
  assert (Hg : forall i, bi_id (set_open true i) = bi_id i /\ bi_val (set_open true i) = bi_val i) by (intro; split; reflexivity).
  pose proof (modify_info_set_same _ _ _ _ M Hg) as Sm.
  assert (T1 : TI o ex s1) by (eapply modify_info_set_TI; [exact M | intro; split; reflexivity | exact T]).
  assert (S1 : SV s1) by (eapply modify_info_set_valid; [exact M | intro; reflexivity | exact S]).
  assert (R1 : R0 o s1) by (eapply modify_info_set_R0; [exact M | intro; reflexivity | exact R]).
  destruct (parent_of id (ps_root s1)) as [p|] eqn:Pp; [|cbn; auto].
  eapply safe_weaken; [apply IH; [exact T1 | exact S1 | exact R1 | eapply parent_has; exact Pp]|].
  intros s' _ (T' & S' & R' & Sm'). split; [exact T'|]. split; [exact S'|]. split; [exact R'|]. eapply same_trans; eassumption.
Qed.

Section DescList.
Variables (o : bopts) (lmc cur0 : nat).
Notation Jx := (J o lmc cur0).
Notation HJx := (HJ o lmc cur0).

(* the paragraph branch: lc, the last child of c1, is a paragraph *)
Lemma pdld_paragraph st c1 c1n lc tight matched col :
  Jx st c1 -> ispara st c1 = false -> get st c1 = Ok c1n -> In lc (bkids c1n) -> bval lc = Paragraph ->
  safe HJx
    (do st1 <- bdetach st (bid lc);
     let lsl := bi_sl (binf lc) in let lsc := bi_sc (binf lc) in
     do c1' <- get st1 c1;
     do lr <- (match last_opt (bkids c1') with
               | Some l2 =>
                 match bval l2 with
                 | DescriptionList => do s <- reopen_ast_nodes (S (ps_next st1)) st1 (bid l2); Ok (bid l2, s)
                 | _ => do a <- add_child o st1 c1 DescriptionList col;
                        do s <- modify_info (snd a) (fst a) (set_start lsl lsc); Ok (fst a, s)
                 end
               | None => do a <- add_child o st1 c1 DescriptionList col;
                         do s <- modify_info (snd a) (fst a) (set_start lsl lsc); Ok (fst a, s)
               end);
     let '(list, st2) := lr in
     do a <- add_child o st2 list (DescriptionItem (N.of_nat (indent st2)) (N.of_nat matched) tight) col;
     let '(item, st3) := a in
     do st4 <- modify_info st3 item (set_start lsl lsc);
     do a <- add_child_gen o st4 item DescriptionTerm col (fun i => i) [lc];
     let '(term, st5) := a in
     do a <- add_child o st5 item DescriptionDetails col;
     let '(details, st6) := a in
     Ok (true, details, st6)).
Proof.
  intros Jc NP1 G1 Hl Bl. pose proof Jc as (V & Hc1 & _ & Cc & Kc).
  assert (Hs : In lc (bsub (ps_root st))) by (eapply bsub_kid_of; [eapply get_sub; exact G1 | exact Hl]).
  pose proof (get_unique _ _ _ V Hs) as Gl.
  assert (Pl : is_paragraph lc = true) by (unfold is_paragraph; now rewrite Bl).
  pose proof (para_leaf _ _ _ _ V Gl Pl) as Kl.
  pose proof (kid_ne _ _ _ _ _ V G1 Hl) as Ne.
  pose proof (get_ball _ _ _ _ (TI_NI _ _ _ (W_TI _ _ V)) Gl) as Ball.
  pose proof (get_btab _ _ _ _ _ (W_TI _ _ V) Gl) as Btl.
  pose proof (get_valid _ _ _ (W_SV _ _ V) Gl) as Tvl.
  set (P := fun y => has st y /\ y <> bid lc).
  cbv zeta.
  apply sbind; [apply nb_bdetach|]. intros st1 D.
  assert (T1 : TI o (ids lc ++ []) st1).
  { eapply bdetach_TI_keep; [exact D | exact (W_TI _ _ V) | eapply get_sub; exact G1 | exact Hl | rewrite Bl; reflexivity]. }
  assert (S1 : SV st1) by (eapply bdetach_valid'; [exact D | exact (W_SV _ _ V)]).
  assert (R1 : R0 o st1) by (eapply bdetach_R0; [exact D | exact (W_R0 _ _ V)]).
  assert (V1 : W o st1) by (split; [eapply TI_weaken; exact T1 | split; assumption]).
  pose proof (bdetach_lose _ _ _ _ _ V V1 Gl Kl D) as L.
  assert (D1 : DX o (ids lc ++ []) cur0 P st1).
  { split; [exact T1|]. split; [exact S1|]. split; [exact R1|]. split; [rewrite (ls_cur _ _ _ L); exact Cc|].
    intros y [Hy Ny]. apply has_cnt. rewrite (ls_cnt _ _ _ L y Ny). now apply has_cnt. }
  assert (Hc1' : has st1 c1) by (apply D1; split; [exact Hc1 | congruence]).
  assert (NP1' : ispara st1 c1 = false) by (rewrite (ls_para _ _ _ L); [exact NP1 | congruence]).
  eapply sb_get; [exact Hc1'|]. intros c1' G1'.
  (* the list *)
  match goal with |- safe _ (bind ?r _) => assert (SL : safe (DN o (ids lc ++ []) cur0 P) r) end.
  { assert (SB : safe (DN o (ids lc ++ []) cur0 P)
                   (do a <- add_child o st1 c1 DescriptionList col;
                    do s <- modify_info (snd a) (fst a) (set_start (bi_sl (binf lc)) (bi_sc (binf lc))); Ok (fst a, s))).
    { pose proof (DX_add_child _ _ _ _ _ c1 DescriptionList col D1 Hc1' NP1' eq_refl eq_refl eq_refl eq_refl) as S.
      apply sbind; [eapply safe_nb; exact S|]. intros [a sa] Ea. destruct (safe_ok _ _ _ S Ea) as [(Da & Ha & Pa) _].
      cbn [fst snd] in *.
      pose proof (DX_set_start _ _ _ _ _ a (bi_sl (binf lc)) (bi_sc (binf lc)) Da Ha) as S2.
      apply sbind; [eapply safe_nb; exact S2|]. intros sb Eb. destruct (safe_ok _ _ _ S2 Eb) as [Db Sm].
      split; [exact Db|]. cbn [fst snd]. split; [apply (same_has _ _ _ Sm); exact Ha | rewrite (sm_para _ _ Sm); exact Pa]. }
    destruct (last_opt (bkids c1')) as [l2|] eqn:L2; [|exact SB].
    destruct (bval l2) eqn:B2; try exact SB.
    apply last_opt_in in L2.
    pose proof (kid_has _ _ _ _ G1' L2) as H2.
    assert (Hs2 : In l2 (bsub (ps_root st1))) by (eapply bsub_kid_of; [eapply get_sub; exact G1' | exact L2]).
    pose proof (reopen_spec o (ids lc ++ []) (S (ps_next st1)) st1 (bid l2) T1 S1 R1 H2) as S.
    apply sbind; [eapply safe_nb; exact S|]. intros s2 E2. destruct (safe_ok _ _ _ S E2) as (T2 & S2 & R2 & Sm).
    split; [eapply DX_same; eassumption|]. cbn [fst snd].
    split; [apply (same_has _ _ _ Sm); exact H2|].
    rewrite (sm_para _ _ Sm), (in_bsub_para _ _ _ V1 Hs2). unfold is_paragraph. now rewrite B2. }
  apply sbind; [eapply safe_nb; exact SL|]. intros [list st2] E2. destruct (safe_ok _ _ _ SL E2) as (D2 & H2 & P2).
  cbn [fst snd] in D2, H2, P2. clear SL.
  (* the item *)
  match goal with |- safe _ (bind (add_child o st2 list ?vv col) _) =>
    pose proof (DX_add_child _ _ _ _ _ list vv col D2 H2 P2 eq_refl eq_refl eq_refl eq_refl) as S3 end.
  apply sbind; [eapply safe_nb; exact S3|]. intros [item st3] E3. destruct (safe_ok _ _ _ S3 E3) as [(D3 & H3 & P3) _].
  cbn [fst snd] in D3, H3, P3. clear S3.
  pose proof (DX_set_start _ _ _ _ _ item (bi_sl (binf lc)) (bi_sc (binf lc)) D3 H3) as S4.
  apply sbind; [eapply safe_nb; exact S4|]. intros st4 E4. destruct (safe_ok _ _ _ S4 E4) as [D4 Sm4]. clear S4.
  assert (H4 : has st4 item) by (apply (same_has _ _ _ Sm4); exact H3).
  assert (P4 : ispara st4 item = false) by (rewrite (sm_para _ _ Sm4); exact P3).
  pose proof (DX_W _ _ _ _ _ D4) as V4.
  (* the term takes the paragraph back *)
  apply sbind; [now apply add_child_gen_nb|]. intros [term st5] E5.
  assert (V5 : W o st5).
  { destruct D4 as (T4 & S4 & R4 & _). split; [|split].
    - eapply add_child_gen_TI; [exact E5 | eapply TI_ex_ext; [|exact T4]; intro x; cnt_norm; lia | | reflexivity | |].
      + intros; cbn [new_info bi_val bi_id map]. repeat split; try reflexivity.
        rewrite kshape_plain by reflexivity. cbn [forallb]. rewrite tsig_free by (rewrite Bl; reflexivity). reflexivity.
      + apply forallb_cons. split; [exact Ball | reflexivity].
      + apply forallb_cons. split; [exact Btl | reflexivity].
    - eapply add_child_gen_valid; [exact E5 | exact S4 | intros; reflexivity |].
      apply kids_ok_cons. split; [split; [unfold allowed, bkind; rewrite Bl; reflexivity | exact Tvl] | apply kids_ok_nil].
    - eapply add_child_gen_R0; eassumption. }
  destruct (add_child_gen_keep _ _ _ _ _ _ _ _ _ E5 V4 V5 H4 P4 (fun i => eq_refl)) as (_ & _ & C5 & _ & K5 & I5).
  assert (H5 : has st5 item) by (apply K5; exact H4).
  assert (P5 : ispara st5 item = false) by (rewrite (proj2 (K5 _ H4)); exact P4).
  assert (Hl5 : has st5 (bid lc)) by (apply in_bsub_has; apply I5; now left).
  (* the details *)
  apply sbind; [unfold add_child; now apply add_child_gen_nb|]. intros [details st6] E6.
  pose proof (add_child_W _ _ _ _ _ _ _ E6 V5 eq_refl eq_refl eq_refl) as V6. unfold add_child in E6.
  destruct (add_child_gen_keep _ _ _ _ _ _ _ _ _ E6 V5 V6 H5 P5 (fun i => eq_refl)) as (H6 & P6 & C6 & _ & K6 & _).
  cbn [new_info bi_val is_pv] in P6.
  cbn [safe]. unfold HJ. cbn [fst snd]. split; [exact V6|]. split; [exact H6|]. split; [rewrite P6; discriminate|].
  split; [destruct D4 as (_ & _ & _ & C4 & _); congruence|].
  destruct Kc as [Kc|Kc]; [now left | right].
  apply K6. destruct (Nat.eq_dec cur0 (bid lc)) as [->|Nc]; [exact Hl5|].
  apply K5. destruct D4 as (_ & _ & _ & _ & K4). apply K4. split; assumption.
Qed.

Lemma parse_desc_list_details_spec st c matched : Jx st c -> safe HJx (parse_desc_list_details o st c matched).
Proof.
  intro Jc. pose proof Jc as (V & Hc & Pc & Cc & Kc). unfold parse_desc_list_details.
  eapply sb_get; [exact Hc|]. intros cn G.
  match goal with |- safe _ (bind ?r _) =>
    assert (SR : safe (fun x => match x with
                               | None => True
                               | Some (tight, c1, lc) => Jx st c1 /\ ispara st c1 = false /\ exists c1n, get st c1 = Ok c1n /\ In lc (bkids c1n)
                               end) r) end.
  { destruct (last_opt (bkids cn)) as [lc|] eqn:L.
    - apply last_opt_in in L. cbn [safe].
      assert (NP : ispara st c = false).
      { rewrite (ispara_get _ _ _ G). destruct (is_paragraph cn) eqn:Pp; [|reflexivity].
        rewrite (para_leaf _ _ _ _ V G Pp) in L. destruct L. }
      split; [exact Jc|]. split; [exact NP | eauto].
    - destruct (negb (is_paragraph cn)); [exact I|].
      destruct (parent_of c (ps_root st)) as [p|] eqn:Pp; [|exact I].
      destruct (parent_facts _ _ _ _ V Pp) as (Hp & _ & _ & NPp).
      eapply sb_get; [exact Hp|]. intros pn Gp.
      destruct (last_opt (bkids pn)) as [lc|] eqn:L2.
      + apply last_opt_in in L2. cbn [safe]. split; [|split; [exact NPp | eauto]].
        split; [exact V|]. split; [exact Hp|]. split; [rewrite NPp; discriminate|]. split; assumption.
      + exfalso. apply last_opt_none in L2.
        destruct (parent_of_kid _ _ _ Pp) as (pn' & k & A & B & C & _).
        pose proof (get_unique _ _ _ V A) as Gu. rewrite B, Gp in Gu. inversion Gu; subst pn'. rewrite L2 in C. destruct C. }
  apply sbind; [eapply safe_nb; exact SR|]. intros r Er. pose proof (safe_ok _ _ _ SR Er) as K. clear SR Er.
  destruct r as [[[tight c1] lc]|]; [|cbn [safe HJ fst snd]; exact Jc].
  destruct K as (J1 & NP1 & c1n & G1 & Hl).
  destruct (bval lc) eqn:Bl; try (cbn [safe HJ fst snd]; exact J1).
  - (* DescriptionItem *)
    pose proof J1 as (_ & Hc1 & _ & _ & _).
    pose proof (kid_has _ _ _ _ G1 Hl) as Hlc.
    pose proof (kid_not_root _ _ _ _ _ V G1 Hl) as Nr. rewrite (W_R0 _ _ V) in Nr.
    destruct (parent_some_st _ _ _ V Hlc Nr) as [parent Pp]. rewrite Pp.
    destruct (parent_facts _ _ _ _ V Pp) as (Hp & _ & _ & NPp).
    assert (Jp : Jx st parent).
    { split; [exact V|]. split; [exact Hp|]. split; [rewrite NPp; discriminate|]. split; assumption. }
    hgo.
  - (* Paragraph *)
    eapply pdld_paragraph; eassumption.
Qed.

Lemma handle_description_list_spec' st c line ind : Jx st c -> safe HJx (handle_description_list o st c line ind).
Proof.
  intro Jc. unfold handle_description_list, rest_at_fns.
  destruct (ind || negb (bo_description_lists o)); [hgo|].
  apply sb_pure; [auto with nb|]. intro rest.
  destruct (scan_description_item_start rest) as [matched|]; [|hgo].
  pose proof (parse_desc_list_details_spec st c matched Jc) as S.
  apply sbind; [eapply safe_nb; exact S|]. intros [[ok c1] s1] E. pose proof (safe_ok _ _ _ S E) as J1.
  cbn [HJ fst snd] in J1. clear S E.
  destruct ok; cbn [negb]; hgo.
Qed.
End DescList.

(* ================================================================== tables *)
(* what a table opener leaves: self.current, and for a new node its presence, its kind, and every other node *)
Definition TBP (st : pstate) (c : nat) (r : table_result * pstate) : Prop :=
  ps_current (snd r) = ps_current st /\
  match fst r with
  | TNew id => (exists n, In n (bsub (ps_root (snd r))) /\ bid n = id /\ is_paragraph n = false) /\
               (forall y, has st y -> (y = c /\ ispara st c = true) \/ has (snd r) y)
  | _ => snd r = st
  end.

Lemma try_inserting_spec o st c po : W o st -> has st c -> c <> root_id ->
  safe (fun s1 => W o s1 /\ has s1 c /\ ispara s1 c = ispara st c /\ ps_current s1 = ps_current st /\ ps_next st <= ps_next s1 /\
                  (forall y, has st y -> has s1 y))
       (try_inserting_table_header_paragraph st c po).
Proof.
  intros V Hc Nr. apply nb_safe.
  { unfold try_inserting_table_header_paragraph.
    apply nb_bind; [now apply nb_get|]. intro cn.
    destruct (Nat.ltb _ po); [vm_compute; reflexivity|].
    apply nb_bind; [auto with nb|]. intro pc.
    destruct (parent_of c (ps_root st)) as [pid|] eqn:Pp; [|exact I].
    apply nb_bind; [apply nb_get; eapply parent_has; exact Pp|]. intro p.
    destruct (negb _); [exact I|].
    apply nb_bind; [auto with nb|]. intro el.
    apply nb_bind; [auto with nb|]. intro lo.
    apply nb_bind; [auto with nb|]. intro content.
    apply nb_bind_eq; [apply nb_modify_info; exact Hc|]. intros s1 M.
    match type of M with modify_info _ c ?f = Ok _ =>
      assert (Hg : forall i, bi_id (f i) = bi_id i /\ bi_val (f i) = bi_val i) by (intro; split; reflexivity) end.
    assert (V0 : W o (st_next st (S (ps_next st)))) by (apply W_st_next_le; [lia | exact V]).
    pose proof (modify_info_set_W _ _ _ _ _ M Hg V0) as V1.
    pose proof (modify_info_set_same _ _ _ _ M Hg) as Sm.
    assert (H1 : has s1 c) by (apply (same_has _ _ _ Sm); exact Hc).
    match goal with |- nb (match edit_kids c ?g _ with _ => _ end) => destruct (edit_kids_ok o s1 c g V1 H1 Nr) as [r ->] end.
    exact I. }
  intros s' E.
  assert (V' : W o s').
  { destruct V as (T & S & R). split; [exact (proj1 (try_inserting_TI _ _ _ _ _ _ E T))|].
    split; [eapply try_inserting_valid; eassumption | eapply try_inserting_R0; eassumption]. }
  split; [exact V'|].
  unfold try_inserting_table_header_paragraph in E. mon E; monall; try (repeat split; auto; fail).
  match goal with M : modify_info (st_next st ?n1) c ?f = Ok ?s1, Ek : edit_kids c _ (ps_root ?s1) = Some ?r |- _ =>
    assert (Hg : forall i, bi_id (f i) = bi_id i /\ bi_val (f i) = bi_val i) by (intro; split; reflexivity);
    assert (V0 : W o (st_next st n1)) by (apply W_st_next_le; [lia | exact V]);
    pose proof (modify_info_set_W _ _ _ _ _ M Hg V0) as V1;
    pose proof (modify_info_set_same _ _ _ _ M Hg) as Sm;
    destruct (edit_kids_in _ _ _ _ Ek) as (pk & pre & x & post & Bx & Hx & Kx);
    destruct (edit_kids_cnt _ _ _ _ Ek) as (pk2 & pre2 & x2 & post2 & _ & _ & Cx);
    assert (Hx' : In x (bsub (ps_root (st_root s1 r))))
      by (cbn [ps_root st_root]; apply Kx; destruct (can_contain pk KParagraph);
          [ apply in_or_app; right; right; now left | apply in_or_app; right; now left ]);
    split; [rewrite <- Bx; now apply in_bsub_has|];
    split; [rewrite <- Bx at 1; rewrite (in_bsub_para _ _ _ V' Hx'), <- (in_bsub_para _ _ _ V1 Hx), Bx; exact (sm_para _ _ Sm c)|];
    split; [exact (sm_cur _ _ Sm)|];
    split; [cbn [ps_next st_root]; rewrite (sm_next _ _ Sm); cbn [ps_next st_next]; lia|];
    intros y Hy; apply has_cnt; cbn [ps_root st_root];
    assert (Hy1 : 1 <= cnt y (ids (ps_root s1))) by (apply has_cnt; apply (same_has _ _ _ Sm); exact Hy);
    specialize (Cx y); cbv beta in Cx; destruct (can_contain pk2 KParagraph); cnt_norm; lia
  end.
Qed.

Ltac tbp_same := cbn [safe]; unfold TBP; cbn [fst snd]; split; reflexivity.

Lemma try_opening_header_spec o st c line cn : bo_table o = true -> W o st -> get st c = Ok cn -> is_paragraph cn = true ->
  safe (fun r => W o (snd r) /\ TBP st c r) (try_opening_header o st c line).
Proof.
  intros Tb V G Pc. pose proof (get_has _ _ _ G) as Hc.
  assert (IPc : ispara st c = true) by (rewrite (ispara_get _ _ _ G); exact Pc).
  assert (Nr : c <> root_id) by (intro E; subst c; rewrite (ispara_root _ _ V) in IPc; discriminate IPc).
  eapply safe_weaken with (P := TBP st c).
  2:{ intros [r s'] E K. split; [|exact K]. destruct V as (T & S & R). cbn [snd].
      split; [eapply try_opening_header_TI; eassumption|].
      split; [eapply try_opening_header_valid; eassumption | eapply try_opening_header_R0; eassumption]. }
  unfold try_opening_header. rewrite G. cbn [bind].
  destruct (bi_tv (binf cn)); [tbp_same|].
  apply sb_pure; [auto with nb|]. intro rest.
  destruct (scan_table_start rest); [|tbp_same].
  apply sb_pure; [auto with nb|]. intros [[po0 dcells]|]; [|tbp_same].
  apply sb_pure; [auto with nb|]. intros [[po hcells]|]; [|tbp_same].
  destruct (negb (Nat.eqb (List.length hcells) (List.length dcells))); [tbp_same|].
  match goal with |- safe _ (bind ?r _) =>
    assert (S1 : safe (fun s1 => W o s1 /\ has s1 c /\ ispara s1 c = true /\ ps_current s1 = ps_current st /\
                                 (forall y, has st y -> has s1 y)) r) end.
  { destruct (Nat.ltb 0 po); [|cbn; auto 10].
    eapply safe_weaken; [apply try_inserting_spec; eassumption|].
    intros s1 _ (A1 & A2 & A3 & A4 & _ & A6). rewrite IPc in A3. auto 10. }
  apply sbind; [eapply safe_nb; exact S1|]. intros s1 E1. destruct (safe_ok _ _ _ S1 E1) as (V1 & H1 & P1 & C1 & K1). clear S1 E1.
  eapply sb_get; [exact H1|]. intros c1 G1. cbv zeta.
  destruct (Nat.eqb (bi_sc (binf c1)) 0); [vm_compute; reflexivity|].
  apply sb_pure; [auto with nb|]. intro k0.
  apply sb_pure; [auto with nb|]. intro k.
  apply sb_pure; [auto with nb|]. intro cells.
  apply sb_pure; [auto with nb|]. intro k2.
  destruct (Nat.eqb (List.length line) 0); [vm_compute; reflexivity|].
  apply sbind; [auto with nb|]. intros s3 A.
  pose proof (adv_eqtree _ _ _ _ _ A) as T3.
  match type of A with adv (st_next s1 ?n1) _ _ _ = _ => assert (V2 : W o (st_next s1 n1)) by (apply W_st_next_le; [lia | exact V1]) end.
  pose proof (W_eqtree _ _ _ T3 V2) as V3.
  assert (H3 : has s3 c) by (eapply has_eqtree; [exact T3 | exact H1]).
  match goal with |- safe _ (match edit_kids c ?g _ with _ => _ end) => destruct (edit_kids_ok o s3 c g V3 H3 Nr) as [r Ek] end.
  rewrite Ek.
  destruct (edit_kids_in _ _ _ _ Ek) as (pk & pre & x & post & Bx & Hx & Kx).
  destruct (edit_kids_cnt _ _ _ _ Ek) as (pk2 & pre2 & x2 & post2 & Bx2 & Hx2 & Cx).
  assert (Px : forall z, In z (bsub (ps_root s3)) -> bid z = c -> is_paragraph z = true /\ bkids z = []).
  { intros z Hz Bz. pose proof (get_unique _ _ _ V3 Hz) as Gz. rewrite Bz in Gz.
    assert (Pz : is_paragraph z = true).
    { rewrite <- (ispara_get _ _ _ Gz). rewrite (sm_para _ _ (eqtree_same _ _ T3)). exact P1. }
    split; [exact Pz | eapply para_leaf; eassumption]. }
  destruct (Px x Hx Bx) as [Px1 _]. destruct (Px x2 Hx2 Bx2) as [Px2 Kx2].
  cbv beta in Kx, Cx. rewrite Px1 in Kx. rewrite Px2 in Cx.
  cbn [safe]. unfold TBP. cbn [fst snd ps_current ps_root st_root].
  split; [destruct T3 as (_ & _ & T3); cbn [ps_current st_next] in T3; congruence|].
  split.
  - eexists. split; [apply Kx; apply in_or_app; right; left; reflexivity|]. split; reflexivity.
  - intros y Hy. destruct (Nat.eq_dec y c) as [->|Ny]; [left; auto|]. right.
    apply has_cnt. cbn [ps_root st_root]. specialize (Cx y).
    assert (Hy3 : 1 <= cnt y (ids (ps_root s3))).
    { apply has_cnt. eapply has_eqtree; [exact T3|]. apply K1. exact Hy. }
    destruct x2 as [ix kx]. cbn [bkids] in Kx2. subst kx. unfold bid in Bx2. cbn [binf] in Bx2.
    cnt_norm. unfold one in Cx. destruct (Nat.eq_dec (bi_id ix) y); [congruence|]. lia.
Qed.

Lemma try_opening_row_spec o st c t line cn : bo_table o = true -> W o st -> get st c = Ok cn -> bval cn = Table t ->
  safe (fun r => W o (snd r) /\ TBP st c r) (try_opening_row o st c t line).
Proof.
  intros Tb V G Bv. pose proof (get_has _ _ _ G) as Hc.
  apply nb_safe.
  { unfold try_opening_row. rewrite G. cbn [bind].
    destruct (blank st); [exact I|]. destruct (_ <? _)%N; [exact I|].
    apply nb_bind; [auto with nb|]. intro rest. apply nb_bind; [auto with nb|]. intros [[po cells]|]; [|exact I].
    cbv zeta. destruct (Nat.eqb _ 0); [vm_compute; reflexivity|].
    apply nb_bind; [auto with nb|]. intros [parsed lastc].
    destruct (_ && _); [vm_compute; reflexivity|].
    apply nb_bind; [apply nb_modify; exact Hc|]. intro s1.
    destruct (Nat.eqb _ 0); [vm_compute; reflexivity|].
    apply nb_bind; [auto with nb|]. intro k. apply nb_bind; [auto with nb|]. intro s2. exact I. }
  intros [r s'] E. cbn [snd].
  assert (V' : W o s').
  { destruct V as (T & S & R).
    split; [eapply try_opening_row_TI; [exact Tb | exists cn; split; [exact G | exact Bv] | exact E | exact T]|].
    split; [eapply try_opening_row_valid; [exists cn; split; [exact G | exact Bv] | exact E | exact S]
           | eapply try_opening_row_R0; eassumption]. }
  split; [exact V'|].
  unfold try_opening_row in E. rewrite G in E. cbn [bind] in E. mon E; monall; try (split; reflexivity).
  match goal with M : modify _ c ?f = Ok ?s1, A : adv ?s1 _ _ _ = Ok ?s2 |- _ =>
    pose proof (adv_eqtree _ _ _ _ _ A) as T2; destruct (modify_fields _ _ _ _ M) as (_ & F2 & _);
    pose proof (modify_keep (fun i j => bi_id j = bi_id i) _ _ _ _ M (fun i => eq_refl)) as Kp;
    unfold modify in M; cbn [ps_root st_next] in M;
    match type of M with match upd ?i ?ff ?tt with _ => _ end = _ => destruct (upd i ff tt) as [r1|] eqn:Eu; [|discriminate M] end;
    inversion M; subst; clear M
  end.
  destruct T2 as (T21 & _ & T23). cbn [ps_root ps_current st_root st_next] in *.
  unfold TBP. cbn [fst snd]. split; [congruence|].
  split.
  - destruct (BlocksNestTab.upd_in _ _ _ _ Eu) as (nq & Fq & Hn0). destruct nq as [iq chq].
    eexists. split.
    + rewrite T21. eapply bsub_kid_of; [exact Hn0|]. cbn [bkids]. apply in_or_app. right. left. reflexivity.
    + split; reflexivity.
  - intros y Hy. right. destruct (has_node _ _ Hy) as (ny & Hny & Bny).
    destruct (Kp) with (n := ny) as (ny' & Hny' & Eny); [|exact Hny|].
    { intros [i ch]. split; [reflexivity|]. cbn [bkids]. apply incl_appl, incl_refl. }
    cbn [ps_root st_root st_next] in Hny'. rewrite <- Bny.
    assert (Eb : bid ny = bid ny') by (unfold bid; now rewrite Eny). rewrite Eb.
    apply in_bsub_has. rewrite T21. exact Hny'.
Qed.

Lemma try_opening_block_spec o lmc cur0 st c line : bo_table o = true -> J o lmc cur0 st c ->
  safe (fun r => match fst r with TNew id => J o lmc cur0 (snd r) id | _ => J o lmc cur0 (snd r) c end)
       (try_opening_block o st c line).
Proof.
  intros Tb Jc. pose proof Jc as (V & Hc & Pc & Cc & Kc). unfold try_opening_block.
  eapply sb_get; [exact Hc|]. intros cn G.
  assert (Fin : forall r, W o (snd r) /\ TBP st c r ->
                match fst r with TNew id => J o lmc cur0 (snd r) id | _ => J o lmc cur0 (snd r) c end).
  { intros [tr s'] [V' [C' K']]. cbn [fst snd] in *. destruct tr as [|mk|id]; try (subst s'; exact Jc).
    destruct K' as [(n & Hn & Bn & Pn) K']. split; [exact V'|].
    split; [rewrite <- Bn; now apply in_bsub_has|].
    split; [rewrite <- Bn, (in_bsub_para _ _ _ V' Hn), Pn; discriminate|].
    split; [congruence|].
    destruct Kc as [Kc|Kc]; [now left|]. destruct (K' _ Kc) as [[E1 E2]|K2]; [left; rewrite E1; now apply Pc | now right]. }
  destruct (bval cn) eqn:Bv; try (cbn [safe fst snd]; exact Jc).
  - eapply safe_weaken; [eapply try_opening_header_spec; [exact Tb | exact V | exact G | unfold is_paragraph; now rewrite Bv]|].
    intros r _ K. now apply Fin.
  - eapply safe_weaken; [eapply try_opening_row_spec; [exact Tb | exact V | exact G | exact Bv]|].
    intros r _ K. now apply Fin.
Qed.

(* ================================================================== open_new_blocks, every option set *)
Lemma open_new_blocks_step_spec' o lmc cur0 st c line am ml d :
  J o lmc cur0 st c -> safe (HJ o lmc cur0) (open_new_blocks_step o st c line am ml d).
Proof.
  intros Jc. unfold open_new_blocks_step.
  eapply sb_eq; [exact Jc | auto with nb | intros s1 E; eapply ffn_eqtree; exact E |]. intros s0 J0.
  match goal with |- safe _ (bind ?r _) =>
    assert (S : safe (HJ o lmc cur0) r) end.
  { apply or_else_spec; [now apply handle_alert_spec|]. intros c1 s1 J1.
    apply or_else_spec; [now apply handle_mbq_spec|]. clear c1 s1 J1. intros c1 s1 J1.
    apply or_else_spec; [now apply handle_blockquote_spec|]. clear c1 s1 J1. intros c1 s1 J1.
    apply or_else_spec; [now apply handle_atx_spec|]. clear c1 s1 J1. intros c1 s1 J1.
    apply or_else_spec; [now apply handle_code_fence_spec|]. clear c1 s1 J1. intros c1 s1 J1.
    apply or_else_spec; [now apply handle_html_block_spec|]. clear c1 s1 J1. intros c1 s1 J1.
    apply or_else_spec; [now apply handle_setext_spec|]. clear c1 s1 J1. intros c1 s1 J1.
    apply or_else_spec; [now apply handle_thematic_break_spec|]. clear c1 s1 J1. intros c1 s1 J1.
    apply or_else_spec; [now apply handle_footnote_spec|]. clear c1 s1 J1. intros c1 s1 J1.
    apply or_else_spec; [now apply handle_description_list_spec'|]. clear c1 s1 J1. intros c1 s1 J1.
    apply or_else_spec; [now apply handle_list_spec|]. clear c1 s1 J1. intros c1 s1 J1.
    now apply handle_code_block_spec. }
  apply sbind; [eapply safe_nb; exact S|]. intros [[handled c1] s1] E. pose proof (safe_ok _ _ _ S E) as J1.
  cbn [HJ fst snd] in J1. clear S E.
  assert (Tail : forall c2 s2, J o lmc cur0 s2 c2 ->
            safe (HJ o lmc cur0) (do r <- Ok (true, c2, s2);
                                  let '(go_on, container, st0) := r in
                                  if negb go_on then Ok (false, container, st0) else
                                  do c0 <- get st0 container;
                                  if accepts_lines (bkind c0) then Ok (false, container, st0) else Ok (true, container, st0))).
  { intros c2 s2 J2. cbn [bind negb]. eapply sb_get; [eapply J_has; exact J2|]. intros n G.
    destruct (accepts_lines (bkind n)); cbn [safe HJ fst snd]; exact J2. }
  destruct handled; [apply Tail; exact J1|].
  destruct (negb (Nat.leb code_indent (indent s0)) && bo_table o) eqn:ET.
  - apply andb_true_iff in ET. destruct ET as [_ Tb].
    pose proof (try_opening_block_spec o lmc cur0 s1 c1 line Tb J1) as S.
    apply sb_assoc. apply sbind; [eapply safe_nb; exact S|]. intros [tr s2] E2. pose proof (safe_ok _ _ _ S E2) as K.
    cbn [fst snd] in K. clear S E2.
    destruct tr as [|mk|id].
    + cbn [bind negb safe HJ fst snd]. exact K.
    + apply sb_assoc. destruct mk.
      * eapply sb_mi; [exact K | eapply J_has; exact K | intro; split; reflexivity|]. intros s3 J3. apply Tail. exact J3.
      * cbn [bind]. apply Tail. exact K.
    + apply Tail. exact K.
  - cbn [bind negb safe HJ fst snd]. exact J1.
Qed.

Lemma open_new_blocks_loop_spec' o lmc cur0 line am :
  forall fuel st c ml d, J o lmc cur0 st c ->
  safe (fun r => J o lmc cur0 (snd r) (fst r)) (open_new_blocks_loop fuel o st c line am ml d).
Proof.
  induction fuel as [|f IH]; intros st c ml d Jc; cbn [open_new_blocks_loop]; [exact I|].
  eapply sb_get; [eapply J_has; exact Jc|]. intros n G.
  destruct (is_code_or_html n); [cbn; exact Jc|].
  pose proof (open_new_blocks_step_spec' o lmc cur0 st c line am ml (S d) Jc) as S.
  apply sbind; [eapply safe_nb; exact S|]. intros [[go c1] s1] E. pose proof (safe_ok _ _ _ S E) as J1.
  cbn [HJ fst snd] in J1. destruct go; [now apply IH | cbn; exact J1].
Qed.

Lemma open_new_blocks_spec' o st c line am :
  W o st -> has st c -> has st (ps_current st) ->
  safe (fun r => J o c (ps_current st) (snd r) (fst r)) (open_new_blocks o st c line am).
Proof.
  intros V Hc Hcur. unfold open_new_blocks.
  eapply sb_get; [exact Hcur|]. intros n G. apply open_new_blocks_loop_spec'.
  split; [exact V|]. split; [exact Hc|]. split; [reflexivity|]. split; [reflexivity | now right].
Qed.

(* ================================================================== process_line and the rest, every option set *)
Lemma process_line_spec' o st line0 : LI o st -> safe (LI o) (process_line o st line0).
Proof.
  intros L0. unfold process_line. cbv zeta.
  match goal with |- safe _ (bind (check_open_blocks o ?sa ?line) _) =>
    assert (La : LI o sa) by (eapply LI_eqtree; [|exact L0]; repeat split); set (s_a := sa) in *; set (ln := line) in * end.
  destruct La as [Va Ha].
  pose proof (check_open_blocks_spec o s_a ln Va) as S.
  apply sbind; [eapply safe_nb; exact S|]. intros [r s1] E. pose proof (safe_ok _ _ _ S E) as K. clear S.
  assert (S2 : safe (LI o)
     (match (r, s1) with
      | (Some (last_matched_container, all_matched), st1) =>
        let current := ps_current st1 in
        do r2 <- open_new_blocks o st1 last_matched_container ln all_matched;
        let '(container, st2) := r2 in
        if Nat.eqb current (ps_current st2) then add_text_to_container o st2 container last_matched_container ln
        else Ok st2
      | (None, st1) => Ok st1
      end)).
  { destruct r as [[lmc am]|]; cbn in K.
    - destruct K as [T Hl]. pose proof (W_eqtree _ _ _ T Va) as V1.
      assert (H1 : has s1 (ps_current s1)) by (destruct T as (T1 & T2 & T3); unfold has in *; now rewrite T1, T3).
      cbv zeta. pose proof (open_new_blocks_spec' o s1 lmc ln am V1 Hl H1) as S.
      apply sbind; [eapply safe_nb; exact S|]. intros [c s2] E2. pose proof (safe_ok _ _ _ S E2) as J2. cbn [fst snd] in J2.
      destruct (Nat.eqb (ps_current s1) (ps_current s2)) eqn:Eq.
      + eapply safe_weaken; [eapply add_text_to_container_spec; exact J2|]. intros s' _ R. exact R.
      + exfalso. destruct J2 as (_ & _ & _ & C & _). rewrite C, Nat.eqb_refl in Eq. discriminate Eq.
    - exact K. }
  apply sbind; [eapply safe_nb; exact S2|]. intros s3 E3. pose proof (safe_ok _ _ _ S2 E3) as L3.
  cbn [safe]. eapply LI_eqtree; [|exact L3]. repeat split.
Qed.

Lemma process_lines_spec' o : forall ls st, LI o st -> safe (LI o) (process_lines o st ls).
Proof.
  induction ls as [|l r IH]; intros st L0; cbn [process_lines]; [exact L0|].
  pose proof (process_line_spec' o st l L0) as S.
  apply sbind; [eapply safe_nb; exact S|]. intros s1 E. apply IH. exact (safe_ok _ _ _ S E).
Qed.

Lemma run_lines_nb' o st ls : LI o st -> nb (run_lines o st ls).
Proof.
  intros L0. unfold run_lines. pose proof (process_lines_spec' o ls st L0) as S.
  apply nb_bind_eq; [eapply safe_nb; exact S|]. intros s1 E. apply finalize_document_nb. exact (safe_ok _ _ _ S E).
Qed.

Theorem parse_blocks_nb_all o x : nb (parse_blocks o x).
Proof.
  unfold parse_blocks.
  pose proof (front_matter_prologue_spec o init_state x (LI_init o)) as S.
  apply nb_bind_eq; [eapply safe_nb; exact S|]. intros [st rest] E. pose proof (safe_ok _ _ _ S E) as L0. cbn [fst] in L0.
  destruct (feed_lines rest) as [lines total].
  apply nb_bind; [now apply run_lines_nb' | intros; exact I].
Qed.

(* no tree-lookup Panic site is reachable: every input, EVERY option set *)
Theorem parse_blocks_no_tree_panic_all o x s : In s tree_sites -> parse_blocks o x <> Panic s.
Proof.
  intros Hs E. pose proof (parse_blocks_nb_all o x) as N. rewrite E in N. unfold nb, safe in N.
  rewrite (bad_in _ Hs) in N. discriminate N.
Qed.
