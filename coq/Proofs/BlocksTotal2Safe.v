(* Proofs/BlocksTotal2Safe.v — totality of the block phase, step 1 (tree side): the vocabulary.

   `tree_sites` is the list of Panic sites of Model/Blocks.v that are tree lookups: a node identifier that is not in
   the arena (model:no-such-node), an `unwrap` of a parent / of the result of finalize, a last child that does not
   exist, insert_after on a node without parent.  `bad s` = s is one of them.

     safe Q r  :=  r = Ok a -> Q a,   r = Panic s -> bad s = false,   r = OutOfFuel -> True
     nb r      :=  safe (fun _ => True) r                  (r does not panic at a tree site)

   `safe` composes over `bind` (safe_bind), so a function is walked statement by statement; the leaf functions of
   the other model files (Strings, Entity, LinkUrl, ListMarker, FrontMatter, RefDef) and the table row scanner are
   shown `nb` here: their Panic sites are their own. *)
From Coq Require Import List NArith Arith Bool Lia Strings.String.
From V Require Import Base.Bytes Base.Res Gen.Nodes Model.Ast Model.Strings Model.Entity Model.LinkUrl Model.ListMarker
  Model.Feed Model.FrontMatter Model.RefDef Model.Scan Model.Blocks Spec.EscapeSpec Proofs.StrLeafProofs Proofs.StrLeafEntity.
Import ListNotations.
Local Open Scope string_scope.
Local Open Scope list_scope.

Definition tree_sites : list string :=
  [ "model:no-such-node";
    "mod.rs:check_open_blocks:container.parent().unwrap()";
    "mod.rs:parse_code_block_prefix:finalize_borrowed(container, ast).unwrap()";
    "mod.rs:parse_multiline_block_quote_prefix:finalize_borrowed(child, child_ast).unwrap()";
    "mod.rs:parse_multiline_block_quote_prefix:finalize_borrowed(container, ast).unwrap()";
    "mod.rs:parse_desc_list_details:container.last_child().unwrap()";
    "mod.rs:parse_desc_list_details:last_child.parent().unwrap()";
    "arena_tree.rs:insert_after:self.parent (no parent)";
    "mod.rs:add_text_to_container:self.finalize(container).unwrap()";
    "mod.rs:finalize_document:self.finalize(self.current).unwrap()";
    "mod.rs:feed:self.finalize(node).unwrap()" ].

Definition bad (s : string) : bool := existsb (String.eqb s) tree_sites.

Definition safe {A} (Q : A -> Prop) (r : res A) : Prop :=
  match r with Ok a => Q a | Panic s => bad s = false | OutOfFuel => True end.

Definition nb {A} (r : res A) : Prop := safe (fun _ => True) r.

Lemma safe_bind {A B} (r : res A) (k : A -> res B) (P : A -> Prop) (Q : B -> Prop) :
  safe P r -> (forall a, r = Ok a -> P a -> safe Q (k a)) -> safe Q (bind r k).
Proof. destruct r as [a| |]; cbn [safe bind]; intros H K; [now apply K | exact H | exact I]. Qed.

Lemma safe_weaken {A} (P Q : A -> Prop) (r : res A) : safe P r -> (forall a, r = Ok a -> P a -> Q a) -> safe Q r.
Proof. destruct r; cbn [safe]; intros H K; auto. Qed.

Lemma safe_nb {A} (P : A -> Prop) (r : res A) : safe P r -> nb r.
Proof. intro H. eapply safe_weaken; [exact H | auto]. Qed.

Lemma nb_safe {A} (P : A -> Prop) (r : res A) : nb r -> (forall a, r = Ok a -> P a) -> safe P r.
Proof. intros H K. eapply safe_weaken; [exact H | auto]. Qed.

Lemma nb_bind {A B} (r : res A) (k : A -> res B) : nb r -> (forall a, nb (k a)) -> nb (bind r k).
Proof. intros H K. eapply safe_bind; [exact H | intros; apply K]. Qed.

Lemma nb_res_map {A B} (f : A -> B) (r : res A) : nb r -> nb (res_map f r).
Proof. destruct r; cbn; auto. Qed.

Lemma nb_ok {A} (r : res A) a : r = Ok a -> nb r.
Proof. intros ->. exact I. Qed.

Lemma nb_ex {A} (r : res A) : (exists a, r = Ok a) -> nb r.
Proof. intros [a ->]. exact I. Qed.

Create HintDb nb.

(* walks through a leaf function; a Panic site that is a literal is compared with the list by computation *)
Ltac nbstep :=
  match goal with
  | |- nb (bind ?r _) => apply nb_bind; [ try solve [auto with nb] | intros ]
  | |- nb (Ok _) => exact I
  | |- nb OutOfFuel => exact I
  | |- nb (Panic _) => first [assumption | vm_compute; reflexivity]
  | |- nb (OutOfScope _) => vm_compute; reflexivity
  | |- nb no_node => fail 1
  | |- nb (res_map _ _) => apply nb_res_map
  | |- nb (if ?b then _ else _) => destruct b
  | |- nb (match ?x with _ => _ end) => destruct x
  | |- nb (let (_, _) := ?x in _) => destruct x
  end.
Ltac nbgo := repeat nbstep; auto with nb.

(* ---- Model/Blocks.v: the helpers with a site argument *)
Lemma nb_idx site l i : bad site = false -> nb (idx site l i).
Proof. intro H. unfold idx. destruct (nth_error l i); [exact I | exact H]. Qed.
Lemma nb_sub site a b : bad site = false -> nb (sub site a b).
Proof. intro H. unfold sub. destruct (Nat.ltb a b); [exact H | exact I]. Qed.
Lemma nb_slice_from site l i : bad site = false -> nb (Blocks.slice_from site l i).
Proof. intro H. unfold Blocks.slice_from. destruct (Nat.ltb (List.length l) i); [exact H | exact I]. Qed.
Lemma nb_from_utf8 site b : bad site = false -> nb (from_utf8 site b).
Proof. intro H. unfold from_utf8. destruct (utf8_valid b); [exact I | exact H]. Qed.
#[export] Hint Extern 1 (nb (idx _ _ _)) => (apply nb_idx; first [assumption | vm_compute; reflexivity]) : nb.
#[export] Hint Extern 1 (nb (sub _ _ _)) => (apply nb_sub; first [assumption | vm_compute; reflexivity]) : nb.
#[export] Hint Extern 1 (nb (Blocks.slice_from _ _ _)) => (apply nb_slice_from; first [assumption | vm_compute; reflexivity]) : nb.
#[export] Hint Extern 1 (nb (from_utf8 _ _)) => (apply nb_from_utf8; first [assumption | vm_compute; reflexivity]) : nb.

(* ---- Model/Strings.v, Model/Entity.v *)
Lemma nb_trim s : nb (Strings.trim s).
Proof. rewrite trim_ok. exact I. Qed.
Lemma nb_rtrim s : nb (Strings.rtrim s).
Proof. rewrite rtrim_ok. exact I. Qed.
Lemma nb_unescape s : nb (Strings.unescape s).
Proof. rewrite unescape_is_spec. exact I. Qed.
Lemma nb_unescape_html s : nb (unescape_html s).
Proof. apply nb_ex. apply unescape_html_total. Qed.
#[export] Hint Resolve nb_trim nb_rtrim nb_unescape nb_unescape_html : nb.

Lemma nb_remove_trailing_blank_lines s : nb (remove_trailing_blank_lines s).
Proof. unfold remove_trailing_blank_lines. nbgo. Qed.
Lemma nb_chop_trailing_hashtags s : nb (chop_trailing_hashtags s).
Proof. unfold chop_trailing_hashtags. nbgo. Qed.
Lemma nb_clean_url s : nb (clean_url s).
Proof. unfold clean_url. nbgo. Qed.
Lemma nb_clean_title s : nb (clean_title s).
Proof. unfold clean_title. nbgo. Qed.
#[export] Hint Resolve nb_remove_trailing_blank_lines nb_chop_trailing_hashtags nb_clean_url nb_clean_title : nb.

(* ---- Model/LinkUrl.v, Model/ListMarker.v *)
Lemma nb_manual_scan_link_url s : nb (manual_scan_link_url s).
Proof. unfold manual_scan_link_url. nbgo. Qed.
#[export] Hint Resolve nb_manual_scan_link_url : nb.

Lemma nb_after_spaces : forall s, nb (after_spaces s).
Proof. induction s as [|c r IH]; cbn [after_spaces]; nbgo. Qed.
Lemma nb_digits_loop : forall left s start digits, nb (digits_loop left s start digits).
Proof. induction left as [|l IH]; intros s start digits; destruct s as [|d r]; cbn [digits_loop]; nbgo. Qed.
#[export] Hint Resolve nb_after_spaces nb_digits_loop : nb.
Lemma nb_parse_list_marker line pos ip : nb (parse_list_marker line pos ip).
Proof. unfold parse_list_marker. nbgo. Qed.
#[export] Hint Resolve nb_parse_list_marker : nb.

(* ---- Model/FrontMatter.v *)
Lemma nb_fm_line_at s k : nb (fm_line_at s k).
Proof. unfold fm_line_at, fm_slice, byte_slice_from. nbgo. Qed.
#[export] Hint Resolve nb_fm_line_at : nb.
Lemma nb_find_closing_line : forall fuel s d e, nb (find_closing_line fuel s d e).
Proof. induction fuel as [|f IH]; intros s d e; cbn [find_closing_line]; nbgo. Qed.
#[export] Hint Resolve nb_find_closing_line : nb.
Lemma nb_split_off_front_matter s d : nb (split_off_front_matter s d).
Proof. unfold split_off_front_matter, slice_to, FrontMatter.slice_from. nbgo. Qed.
#[export] Hint Resolve nb_split_off_front_matter : nb.

(* ---- Model/RefDef.v *)
Lemma nb_peek s p : nb (peek s p).
Proof. unfold peek. nbgo. Qed.
#[export] Hint Resolve nb_peek : nb.
Lemma nb_skip_spaces : forall s, nb (skip_spaces s).
Proof. induction s as [|c r IH]; cbn [skip_spaces]; nbgo. Qed.
#[export] Hint Resolve nb_skip_spaces : nb.
Lemma nb_skip_line_end s p : nb (skip_line_end s p).
Proof. unfold skip_line_end. nbgo. Qed.
#[export] Hint Resolve nb_skip_line_end : nb.
Lemma nb_spnl s p : nb (spnl s p).
Proof. unfold spnl. nbgo. Qed.
#[export] Hint Resolve nb_spnl : nb.
Lemma nb_label_loop : forall fuel s pos len c, nb (label_loop fuel s pos len c).
Proof. induction fuel as [|f IH]; intros s pos len c; cbn [label_loop]; nbgo. Qed.
#[export] Hint Resolve nb_label_loop : nb.
Lemma nb_link_label s : nb (link_label s).
Proof. unfold link_label. nbgo. Qed.
#[export] Hint Resolve nb_link_label : nb.
Lemma nb_parse_reference_inline fold m s : nb (parse_reference_inline fold m s).
Proof. unfold parse_reference_inline. nbgo. Qed.
#[export] Hint Resolve nb_parse_reference_inline : nb.

(* ---- Model/Blocks.v: functions that do not touch the tree *)
Lemma nb_resolve_loop fold : forall fuel m seek seeked, nb (resolve_loop fuel fold m seek seeked).
Proof. induction fuel as [|f IH]; intros m seek seeked; cbn [resolve_loop]; nbgo. Qed.
#[export] Hint Resolve nb_resolve_loop : nb.
Lemma nb_resolve_refdefs fold m c : nb (resolve_refdefs fold m c).
Proof. unfold resolve_refdefs. nbgo. Qed.
#[export] Hint Resolve nb_resolve_refdefs : nb.

Lemma nb_find_first_nonspace c line : nb (find_first_nonspace c line).
Proof. unfold find_first_nonspace. nbgo. Qed.
Lemma nb_advance_loop line columns : forall fuel off col pct count, nb (advance_loop fuel line off col pct count columns).
Proof. induction fuel as [|f IH]; intros off col pct count; destruct count; cbn [advance_loop]; nbgo. Qed.
#[export] Hint Resolve nb_find_first_nonspace nb_advance_loop : nb.
Lemma nb_advance_offset c line count columns : nb (advance_offset c line count columns).
Proof. unfold advance_offset. nbgo. Qed.
#[export] Hint Resolve nb_advance_offset : nb.

Lemma nb_cell_start_loop s : forall fuel so io po, nb (cell_start_loop fuel s so io po).
Proof. induction fuel as [|f IH]; intros so io po; cbn [cell_start_loop]; nbgo. Qed.
#[export] Hint Resolve nb_cell_start_loop : nb.
Lemma nb_row_loop s sp : forall fuel off po cells, nb (row_loop fuel s sp off po cells).
Proof. induction fuel as [|f IH]; intros off po cells; cbn [row_loop]; nbgo. Qed.
#[export] Hint Resolve nb_row_loop : nb.
Lemma nb_row s sp : nb (row s sp).
Proof. unfold row. nbgo. Qed.
#[export] Hint Resolve nb_row : nb.
Lemma nb_table_matches s sp : nb (table_matches s sp).
Proof. unfold table_matches. nbgo. Qed.
#[export] Hint Resolve nb_table_matches : nb.

Lemma nb_copy_line_offsets : forall n lo k, nb (copy_line_offsets n lo k).
Proof. induction n as [|m IH]; intros lo k; cbn [copy_line_offsets]; nbgo. Qed.
Lemma nb_header_cells : forall cells id ln sl sc po, nb (header_cells cells id ln sl sc po).
Proof. induction cells as [|c r IH]; intros; cbn [header_cells]; nbgo. Qed.
Lemma nb_row_cells : forall n cells id ln sc lc, nb (row_cells n cells id ln sc lc).
Proof. induction n as [|m IH]; intros cells id ln sc lc; destruct cells; cbn [row_cells]; nbgo. Qed.
#[export] Hint Resolve nb_copy_line_offsets nb_header_cells nb_row_cells : nb.

Lemma nb_alert_title_loop line : forall fuel pos fl, nb (alert_title_loop fuel line pos fl).
Proof. induction fuel as [|f IH]; intros pos fl; cbn [alert_title_loop]; nbgo. Qed.
Lemma nb_count_hashes : forall s, nb (count_hashes s).
Proof. induction s as [|b r IH]; cbn [count_hashes]; nbgo. Qed.
Lemma nb_parse_html_block_prefix st t : nb (parse_html_block_prefix st t).
Proof. unfold parse_html_block_prefix. nbgo. Qed.
Lemma nb_is_not_greentext o st line : nb (is_not_greentext o st line).
Proof. unfold is_not_greentext. nbgo. Qed.
#[export] Hint Resolve nb_alert_title_loop nb_count_hashes nb_parse_html_block_prefix nb_is_not_greentext : nb.
