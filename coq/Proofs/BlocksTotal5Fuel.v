(* Proofs/BlocksTotal5Fuel.v — totality of the block phase, fifth round, step 1, part 1: no handler of open_new_blocks
   runs out of fuel under the tree invariant W (the fuelled loops inside them: add_child, parse_desc_list_details with
   reopen_ast_nodes, list_spaces_loop, resolve_refdefs, row, advance_offset), and the answer-Ok facts about the cursor
   the advance argument of Proofs/BlocksTotal5Loop.v needs (a byte advance moves the offset by exactly count; no
   advance moves it back; tree operations keep the cursor). *)
From Coq Require Import List NArith Arith Bool Lia Strings.String.
From V Require Import Base.Bytes Base.Res Gen.Nodes Gen.BlocksConst Gen.StrLeafGen Model.Ast Model.Strings Model.ListMarker Model.Feed Model.FrontMatter Model.RefDef
  Model.Scan Model.Blocks Spec.Shape Spec.Valid Proofs.BlocksProofs Proofs.BlocksCursor Proofs.BlocksTight
  Proofs.ParserShapeBlocks Proofs.ParserShapeTree Proofs.ParserShapeTabPrim Proofs.ParserShapeTables
  Proofs.BlocksTotal Proofs.BlocksTotal2Safe Proofs.BlocksTotal2Root Proofs.BlocksTotal2Tree Proofs.BlocksTotal2Walk
  Proofs.BlocksTotal3Cur Proofs.BlocksTotal4Fuel Proofs.BlocksTotal4FuelTree Proofs.BlocksTotal4FuelFin Proofs.BlocksTotal4FuelText.
From V Require Proofs.BlocksTotal3Tab Proofs.BlocksTotal4Frame.
Import ListNotations.
Local Open Scope string_scope.
Local Open Scope list_scope.

(* ================================================================== W of an intermediate state *)
Ltac wso :=
  match goal with
  | V : W _ ?s |- W _ ?s => exact V
  | V : W _ _ |- W _ _ => solve [Wgo V]
  end.

Lemma nf_add_child_W o st p v col : W o st -> nf (add_child o st p v col).
Proof. intro V. apply nf_of. now apply add_child_fuel. Qed.
Lemma nf_add_child_gen_W o st p v col post kids : W o st -> nf (add_child_gen o st p v col post kids).
Proof. intro V. apply nf_of. now apply add_child_gen_fuel. Qed.
Lemma nf_reopen_W o st id : W o st -> nf (reopen_ast_nodes (S (ps_next st)) st id).
Proof. intro V. apply nf_of. now apply (reopen_ast_nodes_fuel o). Qed.

Lemma nf_row s sp : nf (row s sp). Proof. apply nf_of, row_fuel. Qed.
Lemma nf_alert_title_loop line fuel pos fl : nf (alert_title_loop fuel line pos fl).
Proof. apply nf_of, alert_title_loop_fuel. Qed.
Lemma nf_count_hashes : forall s, nf (count_hashes s).
Proof. induction s as [|b r IH]; cbn [count_hashes]; [exact I|]. destruct (beqb b x23); [|exact I]. apply nf_bind; [exact IH | intros; exact I]. Qed.
Lemma nf_after_spaces : forall s, nf (after_spaces s).
Proof. induction s as [|b r IH]; cbn [after_spaces]; [exact I|]. destruct (is_space_or_tab b); [exact IH | exact I]. Qed.
Lemma nf_digits_loop : forall left s start digits, nf (digits_loop left s start digits).
Proof.
  induction left as [|l IH]; intros s start digits; destruct s as [|d r]; cbn [digits_loop]; try exact I.
  - destruct (N.ltb _ _); exact I.
  - destruct (N.ltb _ _); [exact I|]. destruct l; [exact I|]. destruct r as [|e r']; [exact I|].
    destruct (sl_isdigit e); [apply IH | exact I].
Qed.
#[export] Hint Resolve nf_row nf_alert_title_loop nf_count_hashes nf_after_spaces nf_digits_loop : fuel.
Lemma nf_parse_list_marker line pos ip : nf (parse_list_marker line pos ip).
Proof. unfold parse_list_marker. fgo. Qed.
#[export] Hint Resolve nf_parse_list_marker : fuel.
Lemma nf_copy_line_offsets : forall n lo k, nf (copy_line_offsets n lo k).
Proof. induction n as [|m IH]; intros lo k; cbn [copy_line_offsets]; fgo. Qed.
Lemma nf_header_cells : forall cells id ln sl sc po, nf (header_cells cells id ln sl sc po).
Proof. induction cells as [|c r IH]; intros; cbn [header_cells]; fgo. Qed.
Lemma nf_row_cells : forall n cells id ln sc lc, nf (row_cells n cells id ln sc lc).
Proof. induction n as [|m IH]; intros cells id ln sc lc; destruct cells; cbn [row_cells]; fgo. Qed.
#[export] Hint Resolve nf_copy_line_offsets nf_header_cells nf_row_cells : fuel.
Lemma nf_try_inserting st c po : nf (try_inserting_table_header_paragraph st c po).
Proof. unfold try_inserting_table_header_paragraph. fgo. Qed.
#[export] Hint Resolve nf_try_inserting : fuel.

(* ---- the table openers: no fuelled loop besides row and advance_offset *)
Lemma nf_try_opening_header o st c line : nf (try_opening_header o st c line).
Proof. unfold try_opening_header. fgo. Qed.
Lemma nf_try_opening_row o st c t line : nf (try_opening_row o st c t line).
Proof. unfold try_opening_row. fgo. Qed.
Lemma nf_try_opening_block o st c line : nf (try_opening_block o st c line).
Proof.
  unfold try_opening_block. apply nf_bind; [auto with fuel|]. intros cn _.
  destruct (bval cn); try exact I; [apply nf_try_opening_header | apply nf_try_opening_row].
Qed.

(* ---- the handlers under W *)
#[export] Hint Extern 2 (nf (add_child _ _ _ _ _)) => (apply nf_add_child_W; wso) : fuel.
#[export] Hint Extern 2 (nf (add_child_gen _ _ _ _ _ _ _)) => (apply nf_add_child_gen_W; wso) : fuel.
#[export] Hint Extern 2 (nf (reopen_ast_nodes (S (ps_next ?s)) ?s _)) => (eapply nf_reopen_W; wso) : fuel.

Section Handlers.
Variables (o : bopts) (line : bytes).

Lemma nf_handle_alert st c ind : W o st -> nf (handle_alert o st c line ind).
Proof. intro V. unfold handle_alert. fgo. Qed.
Lemma nf_handle_mbq st c ind : W o st -> nf (handle_multiline_blockquote o st c line ind).
Proof. intro V. unfold handle_multiline_blockquote, rest_at_fns. fgo. Qed.
Lemma nf_handle_blockquote st c ind : W o st -> nf (handle_blockquote o st c line ind).
Proof. intro V. unfold handle_blockquote. fgo. Qed.
Lemma nf_handle_atx st c ind : W o st -> nf (handle_atx_heading o st c line ind).
Proof. intro V. unfold handle_atx_heading, rest_at_fns. fgo. Qed.
Lemma nf_handle_code_fence st c ind : W o st -> nf (handle_code_fence o st c line ind).
Proof. intro V. unfold handle_code_fence, rest_at_fns. fgo. Qed.
Lemma nf_handle_html_block st c ind : W o st -> nf (handle_html_block o st c line ind).
Proof. intro V. unfold handle_html_block, rest_at_fns. fgo. Qed.
Lemma nf_handle_setext st c ind : nf (handle_setext_heading o st c line ind).
Proof. unfold handle_setext_heading, rest_at_fns. fgo. Qed.
Lemma nf_handle_thematic_break st c ind am : W o st -> nf (handle_thematic_break o st c line ind am).
Proof. intro V. unfold handle_thematic_break. fgo. Qed.
Lemma nf_handle_footnote st c ind d : W o st -> nf (handle_footnote o st c line ind d).
Proof. intro V. unfold handle_footnote, rest_at_fns. fgo. Qed.
Lemma nf_handle_code_block st c ind ml : W o st -> nf (handle_code_block o st c line ind ml).
Proof. intro V. unfold handle_code_block. fgo. Qed.
End Handlers.

Section Handlers2.
Variables (o : bopts) (line : bytes).

Lemma nf_handle_list st c ind d : W o st -> nf (handle_list o st c line ind d).
Proof.
  intro V. unfold handle_list.
  apply nf_bind; [auto with fuel|]. intros cn _. cbv zeta.
  destruct (_ || _ || _); [exact I|].
  apply nf_bind; [auto with fuel|]. intros [[matched nl0]|] _; [|exact I].
  apply nf_bind; [auto with fuel|]. intros k _.
  apply nf_bind; [auto with fuel|]. intros s1 E1. pose proof (W_adv _ _ _ _ _ _ E1 V) as V1.
  apply nf_bind; [auto with fuel|]. intros s2 E2.
  pose proof (W_eqtree _ _ _ (list_spaces_loop_eqtree _ _ _ _ _ E2) V1) as V2.
  apply nf_bind; [auto with fuel|]. intros i _.
  apply nf_bind; [auto with fuel|]. intros b _.
  apply nf_bind.
  { destruct (_ || _); [|exact I]. apply nf_bind; [|intros; exact I]. destruct (Nat.ltb 0 i); [auto with fuel | exact I]. }
  intros [padding s5] E5.
  assert (V5 : W o s5).
  { destruct (_ || _) in E5.
    - match type of E5 with bind ?r _ = _ => destruct r as [s4| |] eqn:E4; cbn [bind] in E5; try discriminate E5 end.
      inversion E5; subst. destruct (Nat.ltb 0 i).
      + eapply W_adv; [exact E4|]. eapply W_eqtree; [|exact V2]. repeat split.
      + inversion E4; subst. eapply W_eqtree; [|exact V2]. repeat split.
    - inversion E5; subst. exact V2. }
  apply nf_bind; [auto with fuel|]. intros c5 _.
  apply nf_bind.
  { destruct (match bval c5 with NList _ => _ | _ => true end); [auto with fuel | exact I]. }
  intros [lid s6] E6.
  assert (V6 : W o s6).
  { destruct (match bval c5 with NList _ => _ | _ => true end); [Wgo V5 | inversion E6; subst; exact V5]. }
  apply nf_bind; [auto with fuel | intros; exact I].
Qed.
End Handlers2.
