(* Proofs/InertParse2Fn.v -- property C13, footnotes, the part Proofs/InertParseFeatures.v left open: with the switch
   off the inline parser creates no FootnoteReference (and never a FootnoteDefinition), so the tree handed to the footnote
   pass of a document without left bracket holds neither, and Footnotes.process is the identity on such a tree.

   1. nfr_parse_inlines: the invariant `no FootnoteReference / FootnoteDefinition among the siblings` through
      parse_inline / process_emphasis for io_footnotes = false.  Same walk as Proofs/ParserShapeInl.v (section 1 of that
      file with another node predicate); the one place where the switch is read is handle_close_bracket.
   2. process_clean: Footnotes.process fold pres perm t = t when t holds no such node.
      With definitions absent and references present the pass is NOT the identity: every reference becomes the text
      [^name] (process_no_defs_example). *)
From Coq Require Import List NArith ZArith Bool Strings.String Lia.
From V Require Import Base.Bytes Base.Res Gen.StrLeafGen Gen.Consts Gen.Special Model.Special
     Model.Scan Model.Strings Model.Entity Model.LinkUrl Model.AutolinkLeaf Model.Spx Model.Ast Model.Inlines Model.Footnotes
     Proofs.InlinesProofs Spec.Shape Spec.HtmlSpec.
Import ListNotations.
Local Open Scope list_scope.

(* ================================================================== 0. the predicate *)
Definition nfr_val (v : node_value) : bool :=
  match v with FootnoteReference _ _ _ | FootnoteDefinition _ _ => false | _ => true end.

Fixpoint nfr_tree (n : node) : bool :=
  match n with Node v _ ch => nfr_val v && forallb nfr_tree ch end.

Lemma nfr_tree_node v sp ch :
  nfr_tree (Node v sp ch) = true <-> nfr_val v = true /\ forallb nfr_tree ch = true.
Proof. cbn [nfr_tree]. apply andb_true_iff. Qed.

Lemma nfr_forallb_Forall l : forallb nfr_tree l = true <-> Forall (fun n => nfr_tree n = true) l.
Proof. rewrite forallb_forall, Forall_forall. tauto. Qed.

Lemma nfr_forallb_app a b : forallb nfr_tree (a ++ b) = true <-> forallb nfr_tree a = true /\ forallb nfr_tree b = true.
Proof. rewrite forallb_app. apply andb_true_iff. Qed.

(* ================================================================== 1. parse_inlines *)
Definition nfr_FI (l : list item) : Prop := Forall (fun it => nfr_tree (snd it) = true) l.
Definition nfr_INV (s : st) : Prop := nfr_FI (sibs s).

(* ------------------------------------------------------------------ generic lemmas *)
Lemma nfr_mk s v a b n : mk s v a b = Ok n -> exists sp, n = Node v sp [].
Proof. unfold mk. intro H. inv. eexists. reflexivity. Qed.

Lemma nfr_mk_val s v a b n : mk s v a b = Ok n -> nval n = v.
Proof. intro H. apply nfr_mk in H. destruct H as [sp ->]. reflexivity. Qed.

Lemma nfr_set_sp_tree7 n sp : nfr_tree (set_sp n sp) = nfr_tree n.
Proof. destruct n; reflexivity. Qed.

Lemma nfr_set_text_tree7 n t : nfr_tree n = true -> nfr_tree (set_text n t) = true.
Proof. destruct n as [v sp ch]. intro H. apply nfr_tree_node in H. apply nfr_tree_node. split; [reflexivity|exact (proj2 H)]. Qed.

Lemma nfr_split_at_id id l : forall a x b, split_at_id id l = Some (a, x, b) -> l = a ++ x :: b.
Proof.
  induction l as [|y r IH]; intros a x b H; cbn [split_at_id] in H; [discriminate|].
  destruct (Nat.eqb (fst y) id).
  - inversion H; subst. reflexivity.
  - destruct (split_at_id id r) as [[[a' y'] b']|]; [|discriminate].
    inversion H; subst. rewrite (IH a' x b eq_refl). reflexivity.
Qed.

Lemma nfr_FI_app a b : nfr_FI (a ++ b) <-> nfr_FI a /\ nfr_FI b.
Proof. unfold nfr_FI. apply Forall_app. Qed.

Lemma nfr_FI_cons x l : nfr_FI (x :: l) <-> nfr_tree (snd x) = true /\ nfr_FI l.
Proof. unfold nfr_FI. split; [intro H; inversion H; auto|intros [H1 H2]; constructor; assumption]. Qed.

Lemma nfr_FI_nil : nfr_FI [].
Proof. constructor. Qed.

Lemma nfr_FI_rev l : nfr_FI l -> nfr_FI (rev l).
Proof. unfold nfr_FI. apply Forall_rev. Qed.

Lemma nfr_FI_rev_inv l : nfr_FI (rev l) -> nfr_FI l.
Proof. intro H. apply nfr_FI_rev in H. rewrite rev_involutive in H. exact H. Qed.

Lemma nfr_FI_map_snd l : nfr_FI l -> forallb nfr_tree (map snd l) = true.
Proof.
  induction 1 as [|x l Hx Hl IH]; cbn [map forallb]; [reflexivity|]. rewrite Hx, IH. reflexivity.
Qed.

Lemma nfr_FI_filter f l : nfr_FI l -> nfr_FI (filter f l).
Proof.
  unfold nfr_FI. intro H. apply Forall_forall. intros x Hx. apply filter_In in Hx.
  rewrite Forall_forall in H. apply H, Hx.
Qed.

Lemma nfr_FI_split id l a x b :
  split_at_id id l = Some (a, x, b) -> nfr_FI l -> nfr_FI a /\ nfr_tree (snd x) = true /\ nfr_FI b.
Proof.
  intros H Hl. apply nfr_split_at_id in H. subst l. apply nfr_FI_app in Hl. destruct Hl as [Ha Hb].
  apply nfr_FI_cons in Hb. tauto.
Qed.



Lemma nfr_emph_value_val7 o c n : nfr_val (emph_value o c n) = true.
Proof. unfold emph_value. repeat match goal with |- context [if ?b then _ else _] => destruct b end; reflexivity. Qed.

(* ------------------------------------------------------------------ the one lemma about scan_to_closing_backtick
   (its body is being changed: nothing else in this file unfolds it) *)
Lemma nfr_stcb_sibs memo inp s otl : sibs (snd (scan_to_closing_backtick memo inp s otl)) = sibs s.
Proof.
  unfold scan_to_closing_backtick.
  repeat match goal with
         | |- context [if ?b then _ else _] => destruct b
         | |- context [match ?x with _ => _ end] => destruct x
         end; reflexivity.
Qed.

(* ------------------------------------------------------------------ handlers that return (state, node) *)
Ltac nfr_mks :=
  repeat match goal with
         | E : mk _ _ _ _ = Ok _ |- _ => apply nfr_mk in E; destruct E as [? ->]
         end.
Ltac nfr_fin :=
  nfr_mks; split; [reflexivity | cbn [set_ch set_sp set_text]; reflexivity].

Lemma nfr_adjust inp lo s n ml ex s' n' :
  adjust_node_newlines inp lo s n ml ex = Ok (s', n') -> sibs s' = sibs s /\ nfr_tree n' = nfr_tree n.
Proof.
  unfold adjust_node_newlines. intro H. inv; (split; [reflexivity|]); try reflexivity. apply nfr_set_sp_tree7.
Qed.

Lemma nfr_handle_newline inp s s' n :
  handle_newline inp s = Ok (s', n) -> sibs s' = sibs s /\ nfr_tree n = true.
Proof. unfold handle_newline. intro H. inv; nfr_fin. Qed.

Lemma nfr_handle_backticks memo inp lo s s' n :
  handle_backticks memo inp lo s = Ok (s', n) -> sibs s' = sibs s /\ nfr_tree n = true.
Proof.
  unfold handle_backticks. intro H. cbv zeta in H.
  match type of H with (let (_, _) := ?x in _) = _ =>
    pose proof (nfr_stcb_sibs memo inp (set_pos s (pos s + count_eq inp x60 (pos s))) (count_eq inp x60 (pos s))) as Hs;
    destruct x as [e s2] end.
  cbn [snd sibs set_pos] in Hs.
  destruct e as [endpos|].
  - inv. apply nfr_adjust in H. destruct H as [H1 H2]. nfr_mks. rewrite H1, H2. split; [exact Hs|reflexivity].
  - inv. nfr_mks. split; [exact Hs|reflexivity].
Qed.

Lemma nfr_handle_backslash o inp s s' n :
  handle_backslash o inp s = Ok (s', n) -> sibs s' = sibs s /\ nfr_tree n = true.
Proof. unfold handle_backslash, skip_line_end. intro H. inv; nfr_fin. Qed.

Lemma nfr_handle_entity inp s s' n :
  handle_entity inp s = Ok (s', n) -> sibs s' = sibs s /\ nfr_tree n = true.
Proof. unfold handle_entity. intro H. inv; nfr_fin. Qed.

Lemma nfr_make_autolink s url email a b n : make_autolink s url email a b = Ok n -> nfr_tree n = true.
Proof. unfold make_autolink. intro H. inv. nfr_mks. reflexivity. Qed.

Lemma nfr_handle_pointy_brace inp lo s s' n :
  handle_pointy_brace inp lo s = Ok (s', n) -> sibs s' = sibs s /\ nfr_tree n = true.
Proof.
  unfold handle_pointy_brace. intro H.
  inv1. inv1.
  { inv. match goal with E : make_autolink _ _ _ _ _ = Ok _ |- _ => apply nfr_make_autolink in E; rewrite E end. split; reflexivity. }
  inv1.
  { inv. match goal with E : make_autolink _ _ _ _ _ = Ok _ |- _ => apply nfr_make_autolink in E; rewrite E end. split; reflexivity. }
  match type of H with (let '(_, _) := ?x in _) = _ => destruct x as [ml [[[fc fd] fp] fm]] end.
  destruct ml.
  - inv. apply nfr_adjust in H. destruct H as [H1 H2]. nfr_mks. rewrite H1, H2. split; reflexivity.
  - inv. nfr_fin.
Qed.

Lemma nfr_handle_delim o u inp s c s' n d :
  handle_delim o u inp s c = Ok (s', n, d) -> sibs s' = sibs s /\ nfr_tree n = true.
Proof.
  unfold handle_delim. intro H.
  destruct (scan_delims o u inp (pos s) c) as [[[p' nd] co] cc].
  inv; nfr_fin.
Qed.

Lemma nfr_handle_hyphen o inp s s' n :
  handle_hyphen o inp s = Ok (s', n) -> sibs s' = sibs s /\ nfr_tree n = true.
Proof. unfold handle_hyphen. intro H. inv; nfr_fin. Qed.

Lemma nfr_handle_period o inp s s' n :
  handle_period o inp s = Ok (s', n) -> sibs s' = sibs s /\ nfr_tree n = true.
Proof. unfold handle_period. intro H. inv; nfr_fin. Qed.

Lemma nfr_handle_dollars o inp lo s s' n :
  handle_dollars o inp lo s = Ok (s', n) -> sibs s' = sibs s /\ nfr_tree n = true.
Proof.
  unfold handle_dollars. intro H.
  inv1. { inv; nfr_fin. }
  inv1. inv1.
  all: match type of H with match ?e with _ => _ end = _ => destruct e as [endpos|] end.
  all: inv; try (apply nfr_adjust in H; destruct H as [H1 H2]; nfr_mks; rewrite H1, H2; split; reflexivity); nfr_fin.
Qed.

(* ------------------------------------------------------------------ emphasis *)
Lemma nfr_replace_item_text site id t items items' :
  replace_item_text site id t items = Ok items' -> nfr_FI items -> nfr_FI items'.
Proof.
  unfold replace_item_text. intros H Hi.
  destruct (split_at_id id items) as [[[a it] b]|] eqn:Es; [|discriminate].
  destruct (nfr_FI_split _ _ _ _ _ Es Hi) as (Ha & Hx & Hb).
  destruct (text_of (snd it)); [|discriminate]. inversion H; subst.
  apply nfr_FI_app. split; [exact Ha|]. apply nfr_FI_cons. split; [|exact Hb].
  cbn [snd]. apply nfr_set_text_tree7, Hx.
Qed.

Lemma nfr_insert_emph o s n0 items op cl items' k1 k2 n1 :
  insert_emph o s n0 items op cl = Ok (Some (items', k1, k2, n1)) -> nfr_FI items -> nfr_FI items'.
Proof.
  unfold insert_emph. intros H Hi.
  destruct (split_at_id (d_id op) items) as [[[pre opi] rest1]|] eqn:Es1; [|discriminate].
  destruct (nfr_FI_split _ _ _ _ _ Es1 Hi) as (Hpre & Hop & Hrest1).
  destruct (split_at_id (d_id cl) rest1) as [[[mid cli] post]|] eqn:Es2; [|discriminate].
  destruct (nfr_FI_split _ _ _ _ _ Es2 Hrest1) as (Hmid & Hcl & Hpost).
  destruct (text_of (snd opi)) as [ot|]; [|discriminate].
  destruct (text_of (snd cli)) as [ct|]; [|discriminate].
  destruct ot as [|oc ot']; [discriminate|].
  cbv zeta in H.
  remember (if Nat.leb 2 (List.length ct) && Nat.leb 2 (List.length (oc :: ot')) then 2 else 1) as ud.
  inv1. inv1. inv1. inv1. inv1.
  match goal with E : mk _ _ _ _ = Ok ?t |- _ => apply nfr_mk_val in E; rename E into Etmp end.
  inv1.
  match type of H with bind ?r _ = _ => destruct r as [opl| |] eqn:Eopl; cbn [bind] in H; try discriminate H end.
  assert (nfr_FI opl) as Hl.
  { inv; [apply nfr_FI_nil|]. apply nfr_FI_cons. split; [|apply nfr_FI_nil].
    cbn [snd]. rewrite nfr_set_sp_tree7. apply nfr_set_text_tree7, Hop. }
  clear Eopl. inversion H; subst items'.
  apply nfr_FI_app. split; [exact Hpre|].
  apply nfr_FI_app. split; [exact Hl|].
  cbn [app]. apply nfr_FI_cons. split.
  { cbn [snd]. apply nfr_tree_node. split.
    - rewrite Etmp. apply nfr_emph_value_val7.
    - apply nfr_FI_map_snd, Hmid. }
  apply nfr_FI_app. split; [|exact Hpost].
  match goal with |- nfr_FI (if ?b then _ else _) => destruct b end; [apply nfr_FI_nil|].
  apply nfr_FI_cons. split; [|apply nfr_FI_nil].
  cbn [snd]. rewrite nfr_set_sp_tree7. apply nfr_set_text_tree7, Hcl.
Qed.

Lemma nfr_pe_loop o : forall fuel s n0 items ob below closer above items' n1,
  pe_loop o fuel s n0 items ob below closer above = Ok (items', n1) -> nfr_FI items -> nfr_FI items'.
Proof.
  induction fuel as [|f IH]; intros s n0 items ob below closer above items' n1 H Hi; [discriminate|].
  cbn [pe_loop] in H.
  destruct closer as [c|]; [|inversion H; subst; exact Hi].
  cbv zeta in H.
  destruct (d_close c); [|eapply IH; eassumption].
  match type of H with bind ?r _ = _ => destruct r as [ix| |]; cbn [bind] in H; try discriminate H end.
  match type of H with (let (_, _) := ?x in _) = _ => destruct x as [found mod3] end.
  destruct (is_emph_char o (d_char c)).
  - destruct found as [[[between op] rest]|]; [|eapply IH; eassumption].
    match type of H with bind ?r _ = _ => destruct r as [r0| |] eqn:Er; cbn [bind] in H; try discriminate H end.
    destruct r0 as [[[[items1 k1] k2] n2]|].
    + pose proof (nfr_insert_emph _ _ _ _ _ _ _ _ _ _ Er Hi) as Hi1.
      destruct k2; eapply IH; eassumption.
    + inversion H; subst; exact Hi.
  - destruct (beqb (d_char c) x27 || beqb (d_char c) x22); [|discriminate].
    match type of H with bind ?r _ = _ => destruct r as [it1| |] eqn:Er1; cbn [bind] in H; try discriminate H end.
    pose proof (nfr_replace_item_text _ _ _ _ _ Er1 Hi) as Hi1.
    destruct found as [[[between op] rest]|]; [|eapply IH; eassumption].
    match type of H with bind ?r _ = _ => destruct r as [it2| |] eqn:Er2; cbn [bind] in H; try discriminate H end.
    pose proof (nfr_replace_item_text _ _ _ _ _ Er2 Hi1) as Hi2.
    eapply IH; eassumption.
Qed.

Lemma nfr_process_emphasis o inp s n0 items ds bottom items' n1 :
  process_emphasis o inp s n0 items ds bottom = Ok (items', n1) -> nfr_FI items -> nfr_FI items'.
Proof.
  unfold process_emphasis. intros H Hi. destruct ds as [|c above]; [inversion H; subst; exact Hi|].
  eapply nfr_pe_loop; eassumption.
Qed.

(* ------------------------------------------------------------------ brackets *)
Lemma nfr_close_bracket_match o inp s img url title s' :
  close_bracket_match o inp s img url title = Ok s' -> nfr_INV s -> nfr_INV s'.
Proof.
  unfold close_bracket_match, nfr_INV. intros H Hi.
  match type of H with bind ?r _ = _ => destruct r as [b| |]; cbn [bind] in H; try discriminate H end.
  match type of H with bind ?r _ = _ => destruct r as [tmp| |] eqn:Etmp; cbn [bind] in H; try discriminate H end.
  apply nfr_mk_val in Etmp.
  destruct (split_at_id (b_id b) (sibs s)) as [[[after_rev bi] before_rev]|] eqn:Es; [|discriminate].
  destruct (nfr_FI_split _ _ _ _ _ Es Hi) as (Ha & Hb & Hbe).
  match type of H with bind ?r _ = _ => destruct r as [ecol| |]; cbn [bind] in H; try discriminate H end.
  cbv zeta in H. unfold fresh_id in H.
  match type of H with bind ?r _ = _ => destruct r as [[kids n1]| |] eqn:Epe; cbn [bind] in H; try discriminate H end.
  apply nfr_process_emphasis in Epe; [|apply nfr_FI_rev, Ha].
  assert (nfr_tree (Node (nval tmp) (mkSp (sl (nsp (snd bi))) (sc (nsp (snd bi))) (el (nsp tmp)) ecol) (map snd kids)) = true) as Hl.
  { apply nfr_tree_node. split; [|apply nfr_FI_map_snd, Epe]. rewrite Etmp. destruct img; reflexivity. }
  inversion H; subst s'. clear H.
  destruct img; cbn [sibs set_nlo pop_bracket set_brackets set_delims set_sibs];
    (apply nfr_FI_cons; split; [exact Hl|exact Hbe]).
Qed.

Lemma nfr_ref_lookup refmap maxref s lab s' r : ref_lookup refmap maxref s lab = Ok (s', r) -> sibs s' = sibs s.
Proof. unfold ref_lookup. intro H. inv; reflexivity. Qed.

Definition nfr_opt7 (n : option node) : Prop := match n with Some n => nfr_tree n = true | None => True end.

Lemma nfr_close_text s s' n :
  (do n <- mk s (Text [x5d]) (pos s - 1) (pos s - 1); Ok (s, Some n)) = Ok (s', n) -> s' = s /\ nfr_opt7 n.
Proof. intro H. inv. nfr_mks. split; reflexivity. Qed.

Lemma nfr_handle_close_bracket o u inp refmap maxref s0 s' n :
  io_footnotes o = false ->
  handle_close_bracket o u inp refmap maxref s0 = Ok (s', n) -> nfr_INV s0 -> nfr_INV s' /\ nfr_opt7 n.
Proof.
  unfold handle_close_bracket, nfr_INV. intros Hfn H Hi. cbv zeta in H.
  remember (set_pos s0 (S (pos s0))) as s eqn:Hs.
  assert (nfr_FI (sibs s)) as His by (subst s; exact Hi). clear Hs Hi.
  destruct (brackets s) as [|b br] eqn:Ebr.
  { apply nfr_close_text in H. destruct H as [-> H]. split; assumption. }
  match type of H with (if ?c then _ else _) = _ => destruct c end.
  { apply nfr_close_text in H. destruct H as [-> H]. split; assumption. }
  destruct (split_at_id (b_id b) (sibs s)) as [[[after_rev bi] before_rev]|] eqn:Es; [|discriminate].
  destruct (nfr_FI_split _ _ _ _ _ Es His) as (Ha & Hb & Hbe).
  match type of H with (if ?c then _ else _) = _ => destruct c end.
  { apply nfr_close_text in H. destruct H as [-> H]. split; assumption. }
  match type of H with bind ?r _ = _ => destruct r as [il| |]; cbn [bind] in H; try discriminate H end.
  destruct il as [[[p' cu] ct]|].
  { match type of H with bind ?r _ = _ => destruct r as [s1| |] eqn:Ecb; cbn [bind] in H; try discriminate H end.
    inversion H; subst. apply nfr_close_bracket_match in Ecb; [|exact His]. split; [exact Ecb|exact I]. }
  match type of H with (let '(_, _) := ?x in _) = _ => destruct x as [[lab0 found0] p1] end.
  match type of H with bind ?r _ = _ => destruct r as [[lab found_label]| |]; cbn [bind] in H; try discriminate H end.
  match type of H with bind ?r _ = _ => destruct r as [[s2 reff]| |] eqn:Elk; cbn [bind] in H; try discriminate H end.
  assert (sibs s2 = sibs s) as Hs2.
  { destruct found_label; [apply nfr_ref_lookup in Elk; exact Elk|inversion Elk; reflexivity]. }
  destruct reff as [[url title]|].
  { match type of H with bind ?r _ = _ => destruct r as [s3| |] eqn:Ecb; cbn [bind] in H; try discriminate H end.
    inversion H; subst. apply nfr_close_bracket_match in Ecb; [|unfold nfr_INV; rewrite Hs2; exact His].
    split; [exact Ecb|exact I]. }
  rewrite Hfn in H. cbn [andb] in H.
  apply nfr_close_text in H. destruct H as [-> H]. split; [|exact H].
  cbn [sibs set_pos pop_bracket set_brackets]. rewrite Hs2. exact His.
Qed.

(* ------------------------------------------------------------------ wikilinks *)
Lemma nfr_lbe_loop_n o s sc0 : forall k rest, List.length rest <= k -> forall offset startpos cur acc l,
  lbe_loop o s sc0 rest offset startpos cur acc = Ok l ->
  forallb nfr_tree acc = true -> forallb nfr_tree l = true.
Proof.
  induction k as [|k IH]; intros rest Hk offset startpos cur acc l H Ha.
  - destruct rest as [|c r]; [|cbn [List.length] in Hk; lia]. cbn [lbe_loop] in H.
    assert (forallb nfr_tree (rev acc) = true) as Hr.
    { apply nfr_forallb_Forall, Forall_rev, nfr_forallb_Forall, Ha. }
    destruct (Nat.eqb startpos offset); [inversion H; subst; exact Hr|].
    inv. nfr_mks. cbn [rev]. apply nfr_forallb_app. split; [exact Hr|reflexivity].
  - destruct rest as [|c r].
    { apply (IH [] (Nat.le_0_l _) offset startpos cur acc l H Ha). }
    cbn [List.length] in Hk. cbn [lbe_loop] in H.
    destruct r as [|c2 r2]; [eapply (IH []); [cbn; lia|eassumption|assumption]|].
    cbn [List.length] in Hk.
    destruct (beqb c x5c && sl_ispunct c2); [|eapply (IH (c2 :: r2)); [cbn [List.length]; lia|eassumption|assumption]].
    match type of H with bind ?r _ = _ => destruct r as [e| |]; cbn [bind] in H; try discriminate H end.
    match type of H with bind ?r _ = _ => destruct r as [pre| |] eqn:Epre; cbn [bind] in H; try discriminate H end.
    match type of H with bind ?r _ = _ => destruct r as [t| |] eqn:Et; cbn [bind] in H; try discriminate H end.
    match type of H with bind ?r _ = _ => destruct r as [x| |] eqn:Ex; cbn [bind] in H; try discriminate H end.
    assert (nfr_tree x = true) as Hx by (inv; nfr_mks; reflexivity).
    assert (nfr_tree pre = true) as Hpre by (nfr_mks; reflexivity).
    clear Ex Et Epre.
    eapply (IH r2); [lia|exact H|].
    cbn [forallb]. rewrite Hx, Hpre, Ha. reflexivity.
Qed.

Lemma nfr_lbe_loop o s sc0 rest offset startpos cur acc l :
  lbe_loop o s sc0 rest offset startpos cur acc = Ok l ->
  forallb nfr_tree acc = true -> forallb nfr_tree l = true.
Proof. apply (nfr_lbe_loop_n o s sc0 (List.length rest) rest (Nat.le_refl _)). Qed.

Lemma nfr_handle_wikilink o inp s s' n :
  handle_wikilink o inp s = Ok (Some (s', n)) -> sibs s' = sibs s /\ nfr_tree n = true.
Proof.
  unfold handle_wikilink. intro H.
  destruct (wikilink_url_link_label o inp (pos s)) as [[[url ll] p']|]; [|discriminate].
  cbv zeta in H.
  match type of H with bind ?r _ = _ => destruct r as [cu| |]; cbn [bind] in H; try discriminate H end.
  match type of H with bind ?r _ = _ => destruct r as [lab| |]; cbn [bind] in H; try discriminate H end.
  match type of H with bind ?r _ = _ => destruct r as [a| |]; cbn [bind] in H; try discriminate H end.
  match type of H with bind ?r _ = _ => destruct r as [n0| |] eqn:En; cbn [bind] in H; try discriminate H end.
  match type of H with bind ?r _ = _ => destruct r as [kids| |] eqn:Ek; cbn [bind] in H; try discriminate H end.
  apply nfr_lbe_loop in Ek; [|reflexivity].
  inversion H; subst. nfr_mks. split; [reflexivity|].
  cbn [set_ch]. apply nfr_tree_node. split; [reflexivity|exact Ek].
Qed.

(* ------------------------------------------------------------------ autolink extension *)
Lemma nfr_rewind_loop : forall fuel reverse l l', rewind_loop fuel reverse l = Ok l' -> nfr_FI l -> nfr_FI l'.
Proof.
  induction fuel as [|f IH]; intros reverse l l' H Hl.
  - destruct reverse; [inversion H; subst; exact Hl|discriminate].
  - cbn [rewind_loop] in H. destruct reverse as [|rv]; [inversion H; subst; exact Hl|].
    destruct l as [|[id n] r]; [discriminate|].
    apply nfr_FI_cons in Hl. destruct Hl as [Hn Hr]. cbn [snd] in Hn.
    destruct (text_of n) as [prev|]; [|discriminate].
    match type of H with (if ?c then _ else _) = _ => destruct c end.
    + cbv zeta in H. inv. apply nfr_FI_cons. split; [|exact Hr].
      cbn [snd]. rewrite nfr_set_sp_tree7. apply nfr_set_text_tree7, Hn.
    + eapply IH; eassumption.
Qed.

Lemma nfr_handle_autolink_with o s m s' n :
  handle_autolink_with o s m = Ok (Some (s', n)) -> nfr_INV s -> nfr_INV s' /\ nfr_tree n = true.
Proof.
  unfold handle_autolink_with, nfr_INV. intros H Hi.
  match type of H with (if ?c then _ else _) = _ => destruct c; [discriminate|] end.
  cbv zeta in H.
  match type of H with bind ?r _ = _ => destruct r as [r0| |]; cbn [bind] in H; try discriminate H end.
  destruct r0 as [[[[url text] need_reverse] skip]|]; [|discriminate].
  match type of H with bind ?r _ = _ => destruct r as [adv| |]; cbn [bind] in H; try discriminate H end.
  match type of H with bind ?r _ = _ => destruct r as [l'| |] eqn:Er; cbn [bind] in H; try discriminate H end.
  apply nfr_rewind_loop in Er; [|exact Hi].
  inversion H; subst. split; [exact Er|reflexivity].
Qed.

(* ------------------------------------------------------------------ parse_inline *)
Lemma nfr_append_inv r s s2 :
  (forall s1 n, r = Ok (s1, n) -> sibs s1 = sibs s /\ nfr_tree n = true) ->
  append r = Ok (Some s2) -> nfr_FI (sibs s) -> nfr_INV s2.
Proof.
  unfold append, nfr_INV. intros Hr H Hs. destruct r as [[s1 n]| |]; cbn [bind] in H; try discriminate H.
  destruct (Hr s1 n eq_refl) as [H1 H2]. inversion H; subst.
  cbn [push_item fst sibs set_sibs]. apply nfr_FI_cons. split; [exact H2|rewrite H1; exact Hs].
Qed.

Lemma nfr_text1 s c s2 : text1 s c = Ok (Some s2) -> nfr_FI (sibs s) -> nfr_INV s2.
Proof.
  unfold text1. intros H Hs. cbv zeta in H. eapply nfr_append_inv; [|exact H|exact Hs].
  intros s1 n E. inv. nfr_fin.
Qed.

Lemma nfr_push_item s n : nfr_FI (sibs s) -> nfr_tree n = true -> nfr_FI (sibs (fst (push_item s n))).
Proof. intros Hs Hn. cbn [push_item fst sibs set_sibs]. apply nfr_FI_cons. split; assumption. Qed.

Lemma nfr_push_bracket s img id : sibs (push_bracket s img id) = sibs s.
Proof. unfold push_bracket. destruct img; reflexivity. Qed.

Ltac nfr_app L := (eapply nfr_append_inv; [|eassumption|eassumption]); intros ? ? ?; eapply L; eassumption.

Lemma nfr_parse_inline memo o u inp lo sl refmap maxref s0 s' :
  io_footnotes o = false ->
  parse_inline memo o u inp lo sl refmap maxref s0 = Ok (Some s') -> nfr_INV s0 -> nfr_INV s'.
Proof.
  intros Hfn H Hi. unfold parse_inline in H.
  destruct (peek inp (pos s0)) as [c|]; [|discriminate].
  match type of H with bind ?r _ = _ => destruct r as [adj| |]; cbn [bind] in H; try discriminate H end.
  destruct (nth_error lo (N.to_nat adj)) as [off|]; [|discriminate].
  cbv zeta in H.
  remember (set_lineoff s0 off) as s eqn:Hs.
  assert (nfr_FI (sibs s)) as His by (subst s; exact Hi). clear Hs Hi s0 adj.
  match type of H with (if ?c then _ else _) = _ => destruct c; [discriminate|] end.
  match type of H with (if ?c then _ else _) = _ => destruct c end. { nfr_app nfr_handle_newline. }
  match type of H with (if ?c then _ else _) = _ => destruct c end. { nfr_app nfr_handle_backticks. }
  match type of H with (if ?c then _ else _) = _ => destruct c end. { nfr_app nfr_handle_backslash. }
  match type of H with (if ?c then _ else _) = _ => destruct c end. { nfr_app nfr_handle_entity. }
  match type of H with (if ?c then _ else _) = _ => destruct c end. { nfr_app nfr_handle_pointy_brace. }
  match type of H with (if ?c then _ else _) = _ => destruct c end.
  { match type of H with bind ?r _ = _ => destruct r as [r0| |] eqn:Er; cbn [bind] in H; try discriminate H end.
    destruct r0 as [[s1 n]|]; [|eapply nfr_text1; eassumption].
    destruct (io_autolink o); [|discriminate].
    apply nfr_handle_autolink_with in Er; [|exact His]. destruct Er as [H1 H2].
    inversion H; subst. apply nfr_push_item; assumption. }
  match type of H with (if ?c then _ else _) = _ => destruct c end.
  { match type of H with bind ?r _ = _ => destruct r as [r0| |] eqn:Er; cbn [bind] in H; try discriminate H end.
    destruct r0 as [[s1 n]|]; [|eapply nfr_text1; eassumption].
    apply nfr_handle_autolink_with in Er; [|exact His]. destruct Er as [H1 H2].
    inversion H; subst. apply nfr_push_item; assumption. }
  match type of H with (if ?c then _ else _) = _ => destruct c end.
  { match type of H with bind ?r _ = _ => destruct r as [[[s1 n] d]| |] eqn:Er; cbn [bind] in H; try discriminate H end.
    apply nfr_handle_delim in Er. destruct Er as [H1 H2].
    unfold push_item in H. inversion H; subst. unfold nfr_INV.
    destruct d; cbn [sibs set_delims set_sibs]; (apply nfr_FI_cons; split; [exact H2|rewrite H1; exact His]). }
  match type of H with (if ?c then _ else _) = _ => destruct c end. { nfr_app nfr_handle_hyphen. }
  match type of H with (if ?c then _ else _) = _ => destruct c end. { nfr_app nfr_handle_period. }
  match type of H with (if ?c then _ else _) = _ => destruct c end.
  { match type of H with bind ?r _ = _ => destruct r as [w| |] eqn:Ew; cbn [bind] in H; try discriminate H end.
    destruct w as [[s2 n]|].
    - match type of Ew with (if ?c then _ else _) = _ => destruct c; [|discriminate] end.
      apply nfr_handle_wikilink in Ew. destruct Ew as [H1 H2]. cbn [sibs set_pos] in H1.
      inversion H; subst. apply nfr_push_item; [rewrite H1; exact His|exact H2].
    - match type of H with bind ?r _ = _ => destruct r as [n| |] eqn:En; cbn [bind] in H; try discriminate H end.
      unfold push_item in H. inversion H; subst. unfold nfr_INV.
      cbn [sibs set_within]. try rewrite nfr_push_bracket. cbn [sibs set_within set_nlo set_brackets set_sibs set_pos].
      apply nfr_FI_cons. split; [|exact His]. nfr_mks. reflexivity. }
  match type of H with (if ?c then _ else _) = _ => destruct c end.
  { match type of H with bind ?r _ = _ => destruct r as [[s1 n]| |] eqn:Er; cbn [bind] in H; try discriminate H end.
    apply nfr_handle_close_bracket in Er; [|exact Hfn|exact His]. destruct Er as [H1 H2].
    inversion H; subst. destruct n as [n|]; [|exact H1]. apply nfr_push_item; assumption. }
  match type of H with (if ?c then _ else _) = _ => destruct c end.
  { match type of H with (if ?c then _ else _) = _ => destruct c end.
    - match type of H with bind ?r _ = _ => destruct r as [n| |] eqn:En; cbn [bind] in H; try discriminate H end.
      unfold push_item in H. inversion H; subst. unfold nfr_INV.
      cbn [sibs set_within]. try rewrite nfr_push_bracket. cbn [sibs set_within set_nlo set_brackets set_sibs set_pos].
      apply nfr_FI_cons. split; [|exact His]. nfr_mks. reflexivity.
    - eapply nfr_append_inv; [|exact H|exact His]. intros s1 n E. inv. nfr_fin. }
  match type of H with (if ?c then _ else _) = _ => destruct c end. { nfr_app nfr_handle_dollars. }
  match type of H with bind ?r _ = _ => destruct r as [contents| |]; cbn [bind] in H; try discriminate H end.
  match type of H with bind ?r _ = _ => destruct r as [[contents1 endpos1]| |]; cbn [bind] in H; try discriminate H end.
  match type of H with bind ?r _ = _ => destruct r as [[contents2 startpos2]| |]; cbn [bind] in H; try discriminate H end.
  match type of H with bind ?r _ = _ => destruct r as [e| |]; cbn [bind] in H; try discriminate H end.
  eapply nfr_append_inv; [|exact H|exact His]. intros s1 n E. inv. nfr_fin.
Qed.

Lemma nfr_inline_loop memo o u inp lo sl refmap maxref : io_footnotes o = false -> forall fuel s s',
  inline_loop memo o u inp lo sl refmap maxref fuel s = Ok s' -> nfr_INV s -> nfr_INV s'.
Proof.
  intro Hfn. induction fuel as [|f IH]; intros s s' H Hi; [discriminate|]. cbn [inline_loop] in H.
  destruct (parse_inline memo o u inp lo sl refmap maxref s) as [[s1|]| |] eqn:E; cbn [bind] in H; try discriminate H.
  - apply (IH s1 s' H). eapply nfr_parse_inline; eassumption.
  - inversion H; subst; exact Hi.
Qed.

Theorem nfr_parse_inlines : forall memo o u inp lo sl refmap maxref rs0 ch rs,
  io_footnotes o = false ->
  parse_inlines memo o u inp lo sl refmap maxref rs0 = Ok (ch, rs) -> forallb nfr_tree ch = true.
Proof.
  intros memo o u inp lo sl refmap maxref rs0 ch rs Hfn H. unfold parse_inlines in H.
  match type of H with bind ?r _ = _ => destruct r as [s| |] eqn:El; cbn [bind] in H; try discriminate H end.
  match type of H with bind ?r _ = _ => destruct r as [[items n1]| |] eqn:Ep; cbn [bind] in H; try discriminate H end.
  apply nfr_inline_loop in El; [|exact Hfn|apply nfr_FI_nil].
  apply nfr_process_emphasis in Ep; [|apply nfr_FI_rev, El].
  inversion H; subst. cbn [fst]. apply nfr_FI_map_snd, Ep.
Qed.

(* ================================================================== 2. Footnotes.process on a clean tree *)
From V Require Import Proofs.FootnoteProofs.

Lemma nfr_not_ref v : nfr_val v = true -> is_ref v = false.
Proof. destruct v; intro H; try discriminate H; reflexivity. Qed.

Lemma refs_clean fold pres : forall n st, nfr_tree n = true -> refs fold pres n st = (n, st).
Proof.
  induction n as [v sp ch IH] using node_ind2. intros st H. apply nfr_tree_node in H. destruct H as [Hv Hc].
  rewrite (refs_nonref fold pres v sp ch st (nfr_not_ref v Hv)).
  assert (forall st, refs_list fold pres ch st = (ch, st)) as L.
  { clear st. induction IH as [|c r Hcr _ IHr]; intro st; cbn [refs_list]; [reflexivity |].
    cbn [forallb] in Hc. apply andb_true_iff in Hc. destruct Hc as [H1 H2].
    rewrite (Hcr st H1), (IHr H2 st). reflexivity. }
  rewrite L. reflexivity.
Qed.

Lemma top_defs_clean : forall n, nfr_tree n = true -> top_defs n = [].
Proof.
  induction n as [v sp ch IH] using node_ind2. intro H. apply nfr_tree_node in H. destruct H as [Hv Hc].
  assert (flat_map top_defs ch = []) as L.
  { induction IH as [|c r Hcr _ IHr]; [reflexivity |]. cbn [flat_map forallb] in *.
    apply andb_true_iff in Hc. destruct Hc as [H1 H2]. rewrite (Hcr H1), (IHr H2). reflexivity. }
  destruct v; try discriminate Hv; cbn [top_defs]; exact L.
Qed.

Theorem process_clean fold pres perm t : nfr_tree t = true -> process fold pres perm t = t.
Proof.
  intro H. unfold process. rewrite (top_defs_clean t H). cbn [collect].
  rewrite (refs_clean fold pres t _ H). cbn [N.ltb N.compare]. reflexivity.
Qed.

(* with the switch on and NO definition, references are not left alone: each becomes the text [^name] *)
Example process_no_defs_example :
  process (fun x => x) (fun x => x) (fun m => m)
    (Node Document (mkSp 1 1 1 4) [Node Paragraph (mkSp 1 1 1 4) [Node (FootnoteReference [x61] 0 0) (mkSp 1 1 1 4) []]])
  = Node Document (mkSp 1 1 1 4) [Node Paragraph (mkSp 1 1 1 4) [Node (Text [x5b; x5e; x61; x5d]) (mkSp 1 1 1 4) []]].
Proof. vm_compute. reflexivity. Qed.

Print Assumptions nfr_parse_inlines.
Print Assumptions process_clean.
