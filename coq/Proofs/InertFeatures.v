(* Proofs/InertFeatures.v — C13, inline phase, per feature of Spec/Triggers.v: the generic theorem of
   Proofs/InertInlines.v instantiated with T = the head bytes of the feature's trigger strings; the two table
   hypotheses come from Proofs/SpecialProofs.v (table_inert, find_special_inert_heads, special_delta). *)
From Coq Require Import List NArith ZArith Bool Strings.String.
From V Require Import Base.Bytes Base.Res Gen.Special Model.Special Model.Ast Model.Inlines Spec.Triggers
     Proofs.SpecialProofs Proofs.InertInlines.
Import ListNotations.
Local Open Scope string_scope.
Local Open Scope list_scope.

(* the field of the inline option record that a feature switches (features of the block phase / the renderer
   have none: the record is unchanged) *)
Definition io_with (F : feature) (v : bool) (o : iopts) : iopts :=
  match F with
  | Autolink => mkIO v (io_strikethrough o) (io_subscript o) (io_superscript o) (io_underline o) (io_spoiler o) (io_math_dollars o) (io_math_code o) (io_wikilinks_after o) (io_wikilinks_before o) (io_footnotes o) (io_tasklist o) (io_smart o) (io_relaxed_autolinks o) (io_relaxed_tasklist o) (io_escaped_char_spans o) (io_ignore_empty_links o)
  | Strikethrough => mkIO (io_autolink o) v (io_subscript o) (io_superscript o) (io_underline o) (io_spoiler o) (io_math_dollars o) (io_math_code o) (io_wikilinks_after o) (io_wikilinks_before o) (io_footnotes o) (io_tasklist o) (io_smart o) (io_relaxed_autolinks o) (io_relaxed_tasklist o) (io_escaped_char_spans o) (io_ignore_empty_links o)
  | Subscript => mkIO (io_autolink o) (io_strikethrough o) v (io_superscript o) (io_underline o) (io_spoiler o) (io_math_dollars o) (io_math_code o) (io_wikilinks_after o) (io_wikilinks_before o) (io_footnotes o) (io_tasklist o) (io_smart o) (io_relaxed_autolinks o) (io_relaxed_tasklist o) (io_escaped_char_spans o) (io_ignore_empty_links o)
  | Superscript => mkIO (io_autolink o) (io_strikethrough o) (io_subscript o) v (io_underline o) (io_spoiler o) (io_math_dollars o) (io_math_code o) (io_wikilinks_after o) (io_wikilinks_before o) (io_footnotes o) (io_tasklist o) (io_smart o) (io_relaxed_autolinks o) (io_relaxed_tasklist o) (io_escaped_char_spans o) (io_ignore_empty_links o)
  | Underline => mkIO (io_autolink o) (io_strikethrough o) (io_subscript o) (io_superscript o) v (io_spoiler o) (io_math_dollars o) (io_math_code o) (io_wikilinks_after o) (io_wikilinks_before o) (io_footnotes o) (io_tasklist o) (io_smart o) (io_relaxed_autolinks o) (io_relaxed_tasklist o) (io_escaped_char_spans o) (io_ignore_empty_links o)
  | Spoiler => mkIO (io_autolink o) (io_strikethrough o) (io_subscript o) (io_superscript o) (io_underline o) v (io_math_dollars o) (io_math_code o) (io_wikilinks_after o) (io_wikilinks_before o) (io_footnotes o) (io_tasklist o) (io_smart o) (io_relaxed_autolinks o) (io_relaxed_tasklist o) (io_escaped_char_spans o) (io_ignore_empty_links o)
  | MathDollars => mkIO (io_autolink o) (io_strikethrough o) (io_subscript o) (io_superscript o) (io_underline o) (io_spoiler o) v (io_math_code o) (io_wikilinks_after o) (io_wikilinks_before o) (io_footnotes o) (io_tasklist o) (io_smart o) (io_relaxed_autolinks o) (io_relaxed_tasklist o) (io_escaped_char_spans o) (io_ignore_empty_links o)
  | MathCode => mkIO (io_autolink o) (io_strikethrough o) (io_subscript o) (io_superscript o) (io_underline o) (io_spoiler o) (io_math_dollars o) v (io_wikilinks_after o) (io_wikilinks_before o) (io_footnotes o) (io_tasklist o) (io_smart o) (io_relaxed_autolinks o) (io_relaxed_tasklist o) (io_escaped_char_spans o) (io_ignore_empty_links o)
  | WikilinksAfterPipe => mkIO (io_autolink o) (io_strikethrough o) (io_subscript o) (io_superscript o) (io_underline o) (io_spoiler o) (io_math_dollars o) (io_math_code o) v (io_wikilinks_before o) (io_footnotes o) (io_tasklist o) (io_smart o) (io_relaxed_autolinks o) (io_relaxed_tasklist o) (io_escaped_char_spans o) (io_ignore_empty_links o)
  | WikilinksBeforePipe => mkIO (io_autolink o) (io_strikethrough o) (io_subscript o) (io_superscript o) (io_underline o) (io_spoiler o) (io_math_dollars o) (io_math_code o) (io_wikilinks_after o) v (io_footnotes o) (io_tasklist o) (io_smart o) (io_relaxed_autolinks o) (io_relaxed_tasklist o) (io_escaped_char_spans o) (io_ignore_empty_links o)
  | Footnotes => mkIO (io_autolink o) (io_strikethrough o) (io_subscript o) (io_superscript o) (io_underline o) (io_spoiler o) (io_math_dollars o) (io_math_code o) (io_wikilinks_after o) (io_wikilinks_before o) v (io_tasklist o) (io_smart o) (io_relaxed_autolinks o) (io_relaxed_tasklist o) (io_escaped_char_spans o) (io_ignore_empty_links o)
  | Tasklist => mkIO (io_autolink o) (io_strikethrough o) (io_subscript o) (io_superscript o) (io_underline o) (io_spoiler o) (io_math_dollars o) (io_math_code o) (io_wikilinks_after o) (io_wikilinks_before o) (io_footnotes o) v (io_smart o) (io_relaxed_autolinks o) (io_relaxed_tasklist o) (io_escaped_char_spans o) (io_ignore_empty_links o)
  | Smart => mkIO (io_autolink o) (io_strikethrough o) (io_subscript o) (io_superscript o) (io_underline o) (io_spoiler o) (io_math_dollars o) (io_math_code o) (io_wikilinks_after o) (io_wikilinks_before o) (io_footnotes o) (io_tasklist o) v (io_relaxed_autolinks o) (io_relaxed_tasklist o) (io_escaped_char_spans o) (io_ignore_empty_links o)
  | RelaxedAutolinks => mkIO (io_autolink o) (io_strikethrough o) (io_subscript o) (io_superscript o) (io_underline o) (io_spoiler o) (io_math_dollars o) (io_math_code o) (io_wikilinks_after o) (io_wikilinks_before o) (io_footnotes o) (io_tasklist o) (io_smart o) v (io_relaxed_tasklist o) (io_escaped_char_spans o) (io_ignore_empty_links o)
  | RelaxedTasklist => mkIO (io_autolink o) (io_strikethrough o) (io_subscript o) (io_superscript o) (io_underline o) (io_spoiler o) (io_math_dollars o) (io_math_code o) (io_wikilinks_after o) (io_wikilinks_before o) (io_footnotes o) (io_tasklist o) (io_smart o) (io_relaxed_autolinks o) v (io_escaped_char_spans o) (io_ignore_empty_links o)
  | _ => o
  end.
Definition T_of (F : feature) (b : byte) : bool := mem_byte b (trigger_heads F).

Lemma T_of_free F inp : free_of_heads F inp = true -> forall b, In b inp -> T_of F b = false.
Proof.
  unfold free_of_heads, T_of. intros H b Hb. rewrite forallb_forall in H. specialize (H b Hb).
  apply negb_true_iff in H. exact H.
Qed.

Lemma T_of_ascii : forall F b, is_ascii b = false -> T_of F b = false.
Proof.
  intros F b H.
  assert (forall b, implb (negb (is_ascii b)) (negb (T_of F b)) = true) as K
    by (destruct F; apply forall_bytes; vm_compute; reflexivity).
  specialize (K b). rewrite H in K. cbn in K. apply negb_true_iff in K. exact K.
Qed.

Lemma io_fn_agree F o : agree_except F (io_fn (io_with F true o)) (io_fn (io_with F false o)).
Proof.
  intros p Hn. destruct F; try reflexivity; unfold io_fn; cbn [io_with io_autolink io_strikethrough io_subscript io_superscript
    io_underline io_spoiler io_smart io_wikilinks_after io_wikilinks_before];
    repeat match goal with
           | |- context [String.eqb p ?q] =>
             let E := fresh "E" in destruct (String.eqb p q) eqn:E;
             [apply String.eqb_eq in E; try reflexivity; exfalso; apply Hn; subst p; cbn; auto |]
           end; reflexivity.
Qed.

Lemma T_of_skip F o b : T_of F b = false ->
  skip_chars (io_fn (io_with F true o)) b = skip_chars (io_fn (io_with F false o)) b.
Proof.
  intro H. apply (table_inert F _ _ b (io_fn_agree F o)).
  intro K. apply special_delta in K. apply mem_byte_In in K. unfold T_of in H. congruence.
Qed.

Theorem inline_inert : forall F memo o u inp lo sl refmap maxref r0,
  free_of_heads F inp = true ->
  parse_inlines memo (io_with F true o) u inp lo sl refmap maxref r0
  = parse_inlines memo (io_with F false o) u inp lo sl refmap maxref r0.
Proof.
  intros F memo o u inp lo sl refmap maxref r0 Hf.
  apply (parse_inlines_inert memo (T_of F)).
  - exact (T_of_free F inp Hf).
  - exact (T_of_ascii F).
  - destruct F; first [left; reflexivity | right; vm_compute; auto].
  - destruct F; first [left; reflexivity | right; vm_compute; auto].
  - destruct F; first [left; reflexivity | right; vm_compute; auto].
  - destruct F; first [left; reflexivity | right; vm_compute; auto].
  - destruct F; first [left; reflexivity | right; vm_compute; auto].
  - destruct F; first [left; reflexivity | right; vm_compute; auto].
  - destruct F; first [left; reflexivity | right; vm_compute; auto].
  - destruct F; first [left; reflexivity | right; vm_compute; auto].
  - destruct F; first [left; reflexivity | right; vm_compute; auto].
  - destruct F; first [left; reflexivity | right; vm_compute; auto].
  - destruct F; first [left; reflexivity | right; vm_compute; auto].
  - destruct F; first [left; reflexivity | right; vm_compute; auto].
  - destruct F; first [left; reflexivity | right; vm_compute; auto].
  - destruct F; reflexivity.
  - destruct F; reflexivity.
  - intros wb p. apply (find_special_inert_heads F); [apply io_fn_agree | exact Hf].
  - intros b Hb. apply T_of_skip. exact Hb.
Qed.

(* ------------------------------------------------------------------ the statement under the specification's own
   free_of (trigger STRINGS instead of their first bytes) is false at the level of the parse: a lone hyphen is a
   text node of its own under smart punctuation (the HTML is the same: the pieces are merged when rendered). *)
Definition inline_inert_full_statement : Prop :=
  forall F memo o u inp lo sl refmap maxref r0,
    free_of F inp = true ->
    parse_inlines memo (io_with F true o) u inp lo sl refmap maxref r0
    = parse_inlines memo (io_with F false o) u inp lo sl refmap maxref r0.

Definition smart_witness : bytes := Eval compute in B "a-b".

Lemma inline_inert_free_refuted : ~ inline_inert_full_statement.
Proof.
  intro H. specialize (H Smart true InlinesProofs.io_default InlinesProofs.oracle_ascii smart_witness [0%N] 1%N [] 100000%N 0%N eq_refl).
  vm_compute in H. discriminate H.
Qed.

(* non-vacuity: with the trigger present the switch matters; without it the theorem applies *)
Lemma inline_inert_nonvacuous :
  let run F v d := parse_inlines true (io_with F v InlinesProofs.io_default) InlinesProofs.oracle_ascii d [0%N] 1%N [] 100000%N 0%N in
  run Strikethrough true (B "~~a~~") <> run Strikethrough false (B "~~a~~") /\
  free_of_heads Strikethrough (B "*a* b") = true /\
  run Strikethrough true (B "*a* b") = run Strikethrough false (B "*a* b") /\
  run Footnotes true (B "x[^a]") <> run Footnotes false (B "x[^a]") /\
  run Smart true (B "a--b") <> run Smart false (B "a--b").
Proof. vm_compute. repeat split; try reflexivity; intro H; discriminate H. Qed.

(* ------------------------------------------------------------------ postprocess_text_nodes works on the DECODED text:
   a character reference for the at sign / the left bracket is enough for the autolink / tasklist extension,
   although the content has none of the trigger bytes.  Replayed on the compiled library: class C13-f. *)
Definition inline_post (o : iopts) (ctx : option N) (content : bytes) : res (list node) :=
  do r <- run_inlines o InlinesProofs.oracle_ascii content [0%N] 1%N [] 100000%N 0%N;
  match r with
  | Done ch _ => do p <- postprocess_block o ctx ch; Ok (fst p)
  | OutOfScope w => Panic w
  end.

Definition at_witness : bytes := Eval compute in B "a&#64;b.co".
Definition lbracket_witness : bytes := Eval compute in B "&#91;x] a".

Lemma postprocess_autolink_refuted :
  free_of_heads Autolink at_witness = true /\
  is_ok (inline_post (io_with Autolink false InlinesProofs.io_default) None at_witness) = true /\
  inline_post (io_with Autolink true InlinesProofs.io_default) None at_witness
  <> inline_post (io_with Autolink false InlinesProofs.io_default) None at_witness.
Proof. vm_compute. repeat split; try reflexivity. intro H; discriminate H. Qed.

Lemma postprocess_tasklist_refuted :
  free_of_heads Tasklist lbracket_witness = true /\
  is_ok (inline_post (io_with Tasklist false InlinesProofs.io_default) (Some 1%N) lbracket_witness) = true /\
  inline_post (io_with Tasklist true InlinesProofs.io_default) (Some 1%N) lbracket_witness
  <> inline_post (io_with Tasklist false InlinesProofs.io_default) (Some 1%N) lbracket_witness.
Proof. vm_compute. repeat split; try reflexivity. intro H; discriminate H. Qed.

Lemma iagree_feature F o inp : free_of_heads F inp = true -> iagree (T_of F) (io_with F true o) (io_with F false o) inp.
Proof.
  intro Hf. constructor.
  - exact (T_of_ascii F).
  - destruct F; first [left; reflexivity | right; vm_compute; auto].
  - destruct F; first [left; reflexivity | right; vm_compute; auto].
  - destruct F; first [left; reflexivity | right; vm_compute; auto].
  - destruct F; first [left; reflexivity | right; vm_compute; auto].
  - destruct F; first [left; reflexivity | right; vm_compute; auto].
  - destruct F; first [left; reflexivity | right; vm_compute; auto].
  - destruct F; first [left; reflexivity | right; vm_compute; auto].
  - destruct F; first [left; reflexivity | right; vm_compute; auto].
  - destruct F; first [left; reflexivity | right; vm_compute; auto].
  - destruct F; first [left; reflexivity | right; vm_compute; auto].
  - destruct F; first [left; reflexivity | right; vm_compute; auto].
  - destruct F; first [left; reflexivity | right; vm_compute; auto].
  - destruct F; first [left; reflexivity | right; vm_compute; auto].
  - destruct F; reflexivity.
  - destruct F; reflexivity.
  - intros wb p. apply (find_special_inert_heads F); [apply io_fn_agree | exact Hf].
  - intros b Hb. apply T_of_skip. exact Hb.
Qed.

(* (a) one dispatcher step, per feature *)
Lemma inline_step_inert F memo o u inp lo sl refmap maxref s :
  free_of_heads F inp = true -> Inv (T_of F) s ->
  parse_inline memo (io_with F true o) u inp lo sl refmap maxref s
  = parse_inline memo (io_with F false o) u inp lo sl refmap maxref s.
Proof. intros Hf I. apply (step_eq_rec memo (T_of F)); [exact (T_of_free F inp Hf) | apply iagree_feature; exact Hf | exact I]. Qed.
