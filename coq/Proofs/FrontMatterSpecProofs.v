(* Proofs/FrontMatterSpecProofs.v — Part 3: the splitter agrees with the line-based spec on every
   input outside the four known classes (fm_class = 0), for every well-formed delimiter. *)
From Coq Require Import List NArith Bool Lia Arith.
From V Require Import Base.Bytes Base.Res Model.FrontMatter Spec.FrontMatterSpec Spec.EscapeSpec
  Proofs.FrontMatterProofs.
Import ListNotations.
Local Open Scope list_scope.

Definition clean (c : bytes) : bool := negb (existsb is_nl c).

Inductive wf : list line -> Prop :=
| wf_last c : clean c = true -> wf [(c, EEOF)]
| wf_cons c e rest : clean c = true -> terminated e = true ->
    (e = ECR -> starts_with (join rest) fm_lf = false) -> wf rest -> wf ((c, e) :: rest).

Lemma join_cons c e ls : join ((c, e) :: ls) = c ++ eol_bytes e ++ join ls.
Proof. unfold join. cbn [flat_map]. unfold join1. cbn [fst snd]. rewrite app_assoc. reflexivity. Qed.

Lemma join_app a b : join (a ++ b) = join a ++ join b.
Proof. unfold join. apply flat_map_app. Qed.

Lemma lines_lf r : lines (x0a :: r) = ([], ELF) :: lines r.
Proof. reflexivity. Qed.
Lemma lines_crlf r : lines (x0d :: x0a :: r) = ([], ECRLF) :: lines r.
Proof. reflexivity. Qed.
Lemma lines_cr r : starts_with r fm_lf = false -> lines (x0d :: r) = ([], ECR) :: lines r.
Proof.
  destruct r as [|b r]; [reflexivity|]. unfold fm_lf. cbn [starts_with]. rewrite andb_true_r. intro H.
  change (lines (x0d :: b :: r)) with (if beqb b x0a then ([], ECRLF) :: lines r else ([], ECR) :: lines (b :: r)).
  rewrite H. reflexivity.
Qed.
Lemma lines_other b r : is_nl b = false ->
  lines (b :: r) = match lines r with (c, e) :: ls => (b :: c, e) :: ls | [] => [([b], EEOF)] end.
Proof.
  unfold is_nl. intro H. apply orb_false_elim in H. destruct H as [H1 H2].
  cbn [lines]. rewrite H1, H2. reflexivity.
Qed.

Lemma bytes_ind2 (P : bytes -> Prop) :
  P [] -> (forall b r, P r -> (forall b2 r', r = b2 :: r' -> P r') -> P (b :: r)) -> forall s, P s.
Proof.
  intros H0 HS. assert (G : forall n s, List.length s <= n -> P s).
  { induction n as [|n IH]; intros s L.
    - destruct s; [exact H0 | simpl in L; lia].
    - destruct s as [|b r]; [exact H0|]. simpl in L. apply HS.
      + apply IH. lia.
      + intros b2 r' ->. apply IH. simpl in L. lia. }
  intro s. apply (G (List.length s)). lia.
Qed.

Lemma clean_cons b c : clean (b :: c) = negb (is_nl b) && clean c.
Proof. unfold clean. cbn [existsb]. rewrite negb_orb. reflexivity. Qed.

Lemma lines_facts : forall s, join (lines s) = s /\ wf (lines s).
Proof.
  apply bytes_ind2.
  - split; [reflexivity | apply wf_last; reflexivity].
  - intros b r [Jr Wr] IH2.
    destruct (beqb b x0a) eqn:Ea.
    { apply beqb_eq in Ea. subst b. rewrite lines_lf, join_cons, Jr. split; [reflexivity|].
      apply wf_cons; [reflexivity | reflexivity | discriminate | exact Wr]. }
    destruct (beqb b x0d) eqn:Ed.
    { apply beqb_eq in Ed. subst b.
      destruct (starts_with r fm_lf) eqn:Er.
      - destruct r as [|b2 r']; [discriminate|]. unfold fm_lf in Er. cbn [starts_with] in Er.
        rewrite andb_true_r in Er. apply beqb_eq in Er. subst b2.
        destruct (IH2 x0a r' eq_refl) as [J2 W2].
        rewrite lines_crlf, join_cons, J2. split; [reflexivity|].
        apply wf_cons; [reflexivity | reflexivity | discriminate | exact W2].
      - rewrite (lines_cr r Er), join_cons, Jr. split; [reflexivity|].
        apply wf_cons; [reflexivity | reflexivity | intros _; rewrite Jr; exact Er | exact Wr]. }
    assert (Nb : is_nl b = false) by (unfold is_nl; rewrite Ea, Ed; reflexivity).
    rewrite (lines_other b r Nb).
    destruct (lines r) as [|[c e] ls] eqn:El; [inversion Wr|].
    rewrite join_cons in *. split; [rewrite <- Jr; reflexivity|].
    inversion Wr; subst.
    + apply wf_last. rewrite clean_cons, Nb. assumption.
    + apply wf_cons; try assumption. rewrite clean_cons, Nb. assumption.
Qed.

Lemma join_lines s : join (lines s) = s.
Proof. apply lines_facts. Qed.
Lemma lines_wf s : wf (lines s).
Proof. apply lines_facts. Qed.

(* ------------------------------------------------------------------------------------------------ *)
(* find of a pattern that begins with LF, over joined lines *)

Definition shift (k : nat) (o : option nat) : option nat :=
  match o with Some n => Some (k + n) | None => None end.

Lemma shift_shift a b o : shift a (shift b o) = shift (a + b) o.
Proof. destruct o; simpl; [f_equal; lia | reflexivity]. Qed.

Lemma find_cons_lf r q :
  find (x0a :: r) (x0a :: q) = if starts_with r q then Some 0 else shift 1 (find r (x0a :: q)).
Proof.
  cbn [find starts_with]. rewrite beqb_refl. cbn [andb].
  destruct (starts_with r q); [reflexivity|]. destruct (find r (x0a :: q)); reflexivity.
Qed.

Lemma find_cons_other b r q : beqb b x0a = false ->
  find (b :: r) (x0a :: q) = shift 1 (find r (x0a :: q)).
Proof.
  intro H. cbn [find starts_with]. rewrite H. cbn [andb]. destruct (find r (x0a :: q)); reflexivity.
Qed.

Lemma not_nl_not_lf b : is_nl b = false -> beqb b x0a = false.
Proof. unfold is_nl. intro H. apply orb_false_elim in H. tauto. Qed.

Lemma find_app_clean c r q : clean c = true ->
  find (c ++ r) (x0a :: q) = shift (List.length c) (find r (x0a :: q)).
Proof.
  induction c as [|b c IH]; intro H.
  - cbn [app List.length]. destruct (find r (x0a :: q)); reflexivity.
  - rewrite clean_cons in H. apply andb_true_iff in H. destruct H as [Hb Hc].
    apply negb_true_iff in Hb. cbn [app]. rewrite (find_cons_other b _ q (not_nl_not_lf b Hb)).
    rewrite (IH Hc), shift_shift. reflexivity.
Qed.

Lemma find_join_cons c e rest q : clean c = true ->
  find (join ((c, e) :: rest)) (x0a :: q) =
  match e with
  | EEOF => shift (List.length c) (find (join rest) (x0a :: q))
  | ECR => shift (List.length c + 1) (find (join rest) (x0a :: q))
  | ELF => if starts_with (join rest) q then Some (List.length c)
           else shift (List.length c + 1) (find (join rest) (x0a :: q))
  | ECRLF => if starts_with (join rest) q then Some (List.length c + 1)
             else shift (List.length c + 2) (find (join rest) (x0a :: q))
  end.
Proof.
  intro H. rewrite join_cons, (find_app_clean c _ q H).
  destruct e; cbn [eol_bytes app].
  - rewrite find_cons_lf. destruct (starts_with (join rest) q); cbn [shift]; [f_equal; lia | apply shift_shift].
  - rewrite (find_cons_other x0d _ q eq_refl), find_cons_lf.
    destruct (starts_with (join rest) q); cbn [shift]; [f_equal; lia|].
    rewrite !shift_shift. f_equal. lia.
  - rewrite (find_cons_other x0d _ q eq_refl), shift_shift. reflexivity.
  - reflexivity.
Qed.

Definition hdP (P : line -> bool) (ls : list line) : bool :=
  match ls with l :: _ => P l | [] => false end.

Fixpoint scanP (P : line -> bool) (ls : list line) : option nat :=
  match ls with
  | [] => None
  | (c, e) :: rest =>
    match e with
    | EEOF => None
    | ECR => shift (List.length c + 1) (scanP P rest)
    | ELF => if hdP P rest then Some (List.length c) else shift (List.length c + 1) (scanP P rest)
    | ECRLF => if hdP P rest then Some (List.length c + 1) else shift (List.length c + 2) (scanP P rest)
    end
  end.

Lemma find_scanP P q ls : wf ls ->
  (forall rest, wf rest -> starts_with (join rest) q = hdP P rest) ->
  find (join ls) (x0a :: q) = scanP P ls.
Proof.
  intros W H. induction W as [c Hc | c e rest Hc He Hcr W IH].
  - rewrite (find_join_cons c EEOF [] q Hc). reflexivity.
  - rewrite (find_join_cons c e rest q Hc). cbn [scanP].
    rewrite (H rest W), IH. destruct e; try reflexivity. discriminate.
Qed.

(* head matches *)
Definition hd_nl (x : bytes) : bool := match x with [] => true | h :: _ => is_nl h end.

Lemma sw_clean_exact c : forall d x y, clean c = true -> clean d = true -> hd_nl x = true ->
  (exists h y', y = h :: y' /\ is_nl h = true) ->
  starts_with (c ++ x) (d ++ y) = bytes_eqb c d && starts_with x y.
Proof.
  induction c as [|a c IH]; intros d x y Hc Hd Hx Hy.
  - destruct d as [|b d]; [reflexivity|].
    rewrite clean_cons in Hd. apply andb_true_iff in Hd. destruct Hd as [Hb _]. apply negb_true_iff in Hb.
    cbn [app bytes_eqb andb]. destruct x as [|h x]; [reflexivity|]. cbn [starts_with hd_nl] in *.
    destruct (beqb h b) eqn:E; [|reflexivity]. apply beqb_eq in E. subst. congruence.
  - rewrite clean_cons in Hc. apply andb_true_iff in Hc. destruct Hc as [Ha Hc]. apply negb_true_iff in Ha.
    destruct d as [|b d].
    + destruct Hy as [h [y' [-> Hh]]]. cbn [app bytes_eqb andb starts_with].
      destruct (beqb a h) eqn:E; [|reflexivity]. apply beqb_eq in E. subst. congruence.
    + rewrite clean_cons in Hd. apply andb_true_iff in Hd. destruct Hd as [_ Hd].
      cbn [app bytes_eqb starts_with]. rewrite (IH d x y Hc Hd Hx Hy). rewrite andb_assoc. reflexivity.
Qed.

Lemma sw_clean_prefix c : forall d x, clean c = true -> clean d = true -> hd_nl x = true ->
  starts_with (c ++ x) d = starts_with c d.
Proof.
  induction c as [|a c IH]; intros d x Hc Hd Hx.
  - destruct d as [|b d]; [reflexivity|].
    rewrite clean_cons in Hd. apply andb_true_iff in Hd. destruct Hd as [Hb _]. apply negb_true_iff in Hb.
    cbn [app]. destruct x as [|h x]; [reflexivity|]. cbn [starts_with hd_nl] in *.
    destruct (beqb h b) eqn:E; [|reflexivity]. apply beqb_eq in E. subst. congruence.
  - rewrite clean_cons in Hc. apply andb_true_iff in Hc. destruct Hc as [_ Hc].
    destruct d as [|b d]; [reflexivity|].
    rewrite clean_cons in Hd. apply andb_true_iff in Hd. destruct Hd as [_ Hd].
    cbn [app starts_with]. rewrite (IH d x Hc Hd Hx). reflexivity.
Qed.

Lemma wf_tail_hd_nl c e rest : wf ((c, e) :: rest) -> hd_nl (eol_bytes e ++ join rest) = true.
Proof.
  intro W. inversion W; subst.
  - reflexivity.
  - destruct e; try reflexivity. discriminate.
Qed.

Lemma head_exact_lf d rest : clean d = true -> wf rest ->
  starts_with (join rest) (d ++ fm_lf) = hdP (exact_with d ELF) rest.
Proof.
  intros Hd W. destruct rest as [|[c e] rest']; [inversion W|].
  pose proof (wf_tail_hd_nl _ _ _ W) as Hx.
  assert (Hc : clean c = true) by (inversion W; assumption).
  rewrite join_cons. rewrite (sw_clean_exact c d _ fm_lf Hc Hd Hx) by (exists x0a, []; split; reflexivity).
  cbn [hdP]. unfold exact_with. cbn [fst snd]. f_equal.
  inversion W; subst; [reflexivity|]. destruct e; try reflexivity.
  match goal with H : terminated EEOF = true |- _ => discriminate H end.
Qed.

Lemma head_exact_crlf d rest : clean d = true -> wf rest ->
  starts_with (join rest) (d ++ fm_crlf) = hdP (exact_with d ECRLF) rest.
Proof.
  intros Hd W. destruct rest as [|[c e] rest']; [inversion W|].
  pose proof (wf_tail_hd_nl _ _ _ W) as Hx.
  assert (Hc : clean c = true) by (inversion W; assumption).
  rewrite join_cons. rewrite (sw_clean_exact c d _ fm_crlf Hc Hd Hx) by (exists x0d, [x0a]; split; reflexivity).
  cbn [hdP]. unfold exact_with. cbn [fst snd]. f_equal.
  inversion W; subst; [reflexivity|]. destruct e; try reflexivity.
  - (* ECR: CR matches, then the next byte is not LF *)
    cbn [eol_bytes app fm_crlf starts_with]. rewrite beqb_refl. cbn [andb].
    match goal with H : ECR = ECR -> _ |- _ => apply (H eq_refl) end.
  - match goal with H : terminated EEOF = true |- _ => discriminate H end.
Qed.

Lemma head_prefix d rest : clean d = true -> wf rest ->
  starts_with (join rest) d = hdP (fun l => starts_with (fst l) d) rest.
Proof.
  intros Hd W. destruct rest as [|[c e] rest']; [inversion W|].
  pose proof (wf_tail_hd_nl _ _ _ W) as Hx.
  assert (Hc : clean c = true) by (inversion W; assumption).
  rewrite join_cons. apply (sw_clean_prefix c d _ Hc Hd Hx).
Qed.

Definition chainP (d : bytes) (ls : list line) : option nat :=
  or_else (scanP (exact_with d ECRLF) ls)
    (fun _ => or_else (scanP (exact_with d ELF) ls)
    (fun _ => scanP (fun l => starts_with (fst l) d) ls)).

Lemma chain_scan d ls : clean d = true -> wf ls -> chain (join ls) d = chainP d ls.
Proof.
  intros Hd W. unfold chain, chainP.
  change (fm_lf ++ d ++ fm_crlf) with (x0a :: (d ++ fm_crlf)).
  change (fm_lf ++ d ++ fm_lf) with (x0a :: (d ++ fm_lf)).
  change (fm_lf ++ d) with (x0a :: d).
  rewrite (find_scanP (exact_with d ECRLF) _ ls W (fun r => head_exact_crlf d r Hd)).
  rewrite (find_scanP (exact_with d ELF) _ ls W (fun r => head_exact_lf d r Hd)).
  rewrite (find_scanP (fun l => starts_with (fst l) d) _ ls W (fun r => head_prefix d r Hd)).
  reflexivity.
Qed.

(* ------------------------------------------------------------------------------------------------ *)
(* scanP on a list of lines *)

Lemma scanP_none P ls : (forall l, In l (tl ls) -> P l = false) -> scanP P ls = None.
Proof.
  induction ls as [|[c e] rest IH]; intro H; [reflexivity|].
  cbn [scanP]. cbn [tl] in H.
  assert (Hh : hdP P rest = false) by (destruct rest as [|l r]; [reflexivity | apply H; left; reflexivity]).
  assert (Hr : scanP P rest = None) by (apply IH; intros l Hl; apply H; destruct rest; [destruct Hl | right; exact Hl]).
  rewrite Hh, Hr. destruct e; reflexivity.
Qed.

Lemma scanP_cons P c e rest :
  scanP P ((c, e) :: rest) =
  match e with
  | EEOF => None
  | ECR => shift (List.length c + 1) (scanP P rest)
  | ELF => if hdP P rest then Some (List.length c) else shift (List.length c + 1) (scanP P rest)
  | ECRLF => if hdP P rest then Some (List.length c + 1) else shift (List.length c + 2) (scanP P rest)
  end.
Proof. reflexivity. Qed.

Definition lf_ended (e : eol) : bool := match e with ELF | ECRLF => true | _ => false end.

Lemma scanP_first P l after : forall pre, pre <> [] ->
  (forall x, In x (tl pre) -> P x = false) -> P l = true ->
  (forall x, In x pre -> lf_ended (snd x) = true) ->
  exists n, scanP P (pre ++ l :: after) = Some n /\ n + 1 = List.length (join pre).
Proof.
  induction pre as [|[c e] pre IH]; intros Hne Hn Hl He; [congruence|].
  assert (Ee : lf_ended e = true) by (apply (He (c, e)); left; reflexivity).
  destruct pre as [|p2 pre'].
  - cbn [app scanP hdP]. rewrite Hl. rewrite join_cons. cbn [join flat_map]. rewrite app_nil_r, app_length.
    destruct e; try discriminate; eexists; (split; [reflexivity | simpl; lia]).
  - destruct IH as [n' [Hs Hn']]; [discriminate | | exact Hl | |].
    + intros x Hx. apply Hn. right. exact Hx.
    + intros x Hx. apply He. right. exact Hx.
    + assert (Hp2 : P p2 = false) by (apply Hn; left; reflexivity).
      cbn [app]. rewrite scanP_cons. cbn [hdP]. cbn [app] in Hs. rewrite Hs, Hp2.
      rewrite (join_cons c e), !app_length.
      destruct e; try discriminate; cbn [shift]; eexists; (split; [reflexivity | cbn [eol_bytes List.length]; lia]).
Qed.

Lemma scanP_some_inv P : forall ls n, scanP P ls = Some n ->
  exists pre l after, ls = pre ++ l :: after /\ pre <> [] /\ P l = true /\ n + 1 = List.length (join pre).
Proof.
  induction ls as [|[c e] rest IH]; intros n H; [discriminate|].
  cbn [scanP] in H.
  assert (Rec : forall k m, List.length (eol_bytes e) = k -> scanP P rest = Some m ->
            exists pre l after, (c, e) :: rest = pre ++ l :: after /\ pre <> [] /\ P l = true /\
              (List.length c + k + m) + 1 = List.length (join pre)).
  { intros k m Hk Hm. destruct (IH m Hm) as [pre [l [after [-> [Hne [Hl Hlen]]]]]].
    exists ((c, e) :: pre), l, after. repeat split; try assumption; [discriminate|].
    rewrite join_cons, !app_length. lia. }
  assert (Hit : forall k, List.length (eol_bytes e) = k -> 1 <= k -> hdP P rest = true ->
            exists pre l after, (c, e) :: rest = pre ++ l :: after /\ pre <> [] /\ P l = true /\
              (List.length c + k - 1) + 1 = List.length (join pre)).
  { intros k Hk Hk1 Hh. destruct rest as [|l after]; [discriminate|]. exists [(c, e)], l, after.
    repeat split; [discriminate | exact Hh |].
    rewrite join_cons. cbn [join flat_map]. rewrite app_nil_r, app_length.
    rewrite Hk. lia. }
  destruct e.
  - destruct (hdP P rest) eqn:Hh.
    + injection H as <-. destruct (Hit 1 eq_refl (le_n 1) eq_refl) as [pre [l [after G]]]. exists pre, l, after.
      replace (List.length c + 1 - 1) with (List.length c) in G by lia. exact G.
    + destruct (scanP P rest) as [m|] eqn:Hm; [|discriminate]. injection H as <-. apply (Rec 1 m eq_refl eq_refl).
  - destruct (hdP P rest) eqn:Hh.
    + injection H as <-. destruct (Hit 2 eq_refl (le_S 1 1 (le_n 1)) eq_refl) as [pre [l [after G]]]. exists pre, l, after.
      replace (List.length c + 2 - 1) with (List.length c + 1) in G by lia. exact G.
    + destruct (scanP P rest) as [m|] eqn:Hm; [|discriminate]. injection H as <-. apply (Rec 2 m eq_refl eq_refl).
  - destruct (scanP P rest) as [m|] eqn:Hm; [|discriminate]. injection H as <-. apply (Rec 1 m eq_refl eq_refl).
  - discriminate.
Qed.

(* ------------------------------------------------------------------------------------------------ *)
(* find_closer *)

Lemma find_closer_some d : forall ls body after, find_closer d ls = Some (body, after) ->
  exists pre e, body = pre ++ [(d, e)] /\ ls = pre ++ (d, e) :: after /\
    (forall x, In x pre -> bytes_eqb (fst x) d = false).
Proof.
  induction ls as [|[c e] rest IH]; intros body after H; [discriminate|].
  cbn [find_closer] in H. destruct (bytes_eqb c d) eqn:E.
  - injection H as <- <-. apply bytes_eqb_eq in E. subst c.
    exists [], e. repeat split. intros x [].
  - destruct (find_closer d rest) as [[a b]|] eqn:F; [|discriminate].
    injection H as <- <-. destruct (IH a b eq_refl) as [pre [e' [-> [-> Hp]]]].
    exists ((c, e) :: pre), e'. repeat split. intros x [<- | Hx]; [exact E | apply Hp; exact Hx].
Qed.

Lemma find_closer_none d : forall ls, find_closer d ls = None ->
  forall x, In x ls -> bytes_eqb (fst x) d = false.
Proof.
  induction ls as [|[c e] rest IH]; intros H x Hx; [destruct Hx|].
  cbn [find_closer] in H. destruct (bytes_eqb c d) eqn:E; [discriminate|].
  destruct (find_closer d rest) as [[a b]|] eqn:F; [discriminate|].
  destruct Hx as [<- | Hx]; [exact E | apply (IH eq_refl x Hx)].
Qed.

Lemma exact_with_false d e x : bytes_eqb (fst x) d = false -> exact_with d e x = false.
Proof. unfold exact_with. intros ->. reflexivity. Qed.

(* ------------------------------------------------------------------------------------------------ *)
(* well-formed line lists: auxiliary facts *)

Lemma wf_clean_in ls : wf ls -> forall c e, In (c, e) ls -> clean c = true.
Proof.
  induction 1 as [c Hc | c e rest Hc He Hcr W IH]; intros c' e' [E | Hin]; try (injection E as <- <-; assumption).
  - destruct Hin.
  - apply (IH c' e' Hin).
Qed.

Lemma wf_suffix a : forall b, b <> [] -> wf (a ++ b) -> wf b.
Proof.
  induction a as [|[c e] a IH]; intros b Hb W; [exact W|].
  cbn [app] in W. inversion W; subst.
  - destruct a; [destruct b; [congruence | discriminate] | discriminate].
  - apply (IH b Hb). assumption.
Qed.

Lemma wf_prefix_terminated a : forall b, b <> [] -> wf (a ++ b) ->
  forall x, In x a -> terminated (snd x) = true.
Proof.
  induction a as [|[c e] a IH]; intros b Hb W x Hx; [destruct Hx|].
  cbn [app] in W. inversion W; subst.
  - destruct a; [destruct b; [congruence | discriminate] | discriminate].
  - destruct Hx as [<- | Hx]; [assumption | apply (IH b Hb); assumption].
Qed.

Lemma wf_eof_last a : forall c b, wf (a ++ (c, EEOF) :: b) -> b = [].
Proof.
  induction a as [|[c' e'] a IH]; intros c b W; cbn [app] in W; inversion W; subst.
  - reflexivity.
  - discriminate.
  - destruct a; discriminate.
  - apply (IH c b). assumption.
Qed.

Definition is_cr (l : line) : bool := match snd l with ECR => true | _ => false end.

Lemma hlc_clean c r : clean c = true -> has_lone_cr (c ++ r) = has_lone_cr r.
Proof.
  induction c as [|b c IH]; intro H; [reflexivity|].
  rewrite clean_cons in H. apply andb_true_iff in H. destruct H as [Hb Hc]. apply negb_true_iff in Hb.
  unfold is_nl in Hb. apply orb_false_elim in Hb. destruct Hb as [_ Hd].
  cbn [app has_lone_cr]. rewrite Hd. apply IH. exact Hc.
Qed.

Lemma hlc_join L : forall M, wf (L ++ M) -> has_lone_cr (join L) = existsb is_cr L.
Proof.
  induction L as [|[c e] L IH]; intros M W; [reflexivity|].
  cbn [app] in W.
  assert (Hc : clean c = true) by (inversion W; assumption).
  rewrite join_cons, (hlc_clean c _ Hc). cbn [existsb]. unfold is_cr at 1. cbn [snd].
  inversion W; subst.
  - destruct L; [reflexivity | discriminate].
  - specialize (IH M ltac:(assumption)).
    destruct e; cbn [eol_bytes app orb].
    + cbn [has_lone_cr]. change (beqb x0a x0d) with false. cbn iota. exact IH.
    + cbn [has_lone_cr]. change (beqb x0d x0d) with true. change (beqb x0a x0a) with true.
      change (beqb x0a x0d) with false. cbn iota. exact IH.
    + match goal with H : ECR = ECR -> _ |- _ => specialize (H eq_refl); rename H into Hn end.
      rewrite join_app in Hn. cbn [has_lone_cr]. change (beqb x0d x0d) with true. cbn iota.
      destruct (join L) as [|h t]; [reflexivity|].
      cbn [app] in Hn. unfold fm_lf in Hn. cbn [starts_with] in Hn. rewrite andb_true_r in Hn. rewrite Hn. reflexivity.
    + discriminate.
Qed.

Lemma cut_eol_not_nl h t : is_nl h = false -> cut_eol (h :: t) = None.
Proof.
  unfold is_nl. intro H. apply orb_false_elim in H. destruct H as [H1 H2].
  unfold cut_eol, fm_lf, fm_crlf. cbn [starts_with]. rewrite H1, H2. reflexivity.
Qed.

Lemma cut_eol_lf r : cut_eol (x0a :: r) = Some (fm_lf, r).
Proof. reflexivity. Qed.
Lemma cut_eol_crlf r : cut_eol (x0d :: x0a :: r) = Some (fm_crlf, r).
Proof. reflexivity. Qed.
Lemma cut_eol_cr r : starts_with r fm_lf = false -> cut_eol (x0d :: r) = None.
Proof.
  destruct r as [|b r]; [reflexivity|]. unfold fm_lf. cbn [starts_with]. rewrite andb_true_r. intro H.
  unfold cut_eol, fm_lf, fm_crlf. cbn [starts_with]. rewrite H. reflexivity.
Qed.

Lemma clean_hd h t : clean (h :: t) = true -> is_nl h = false.
Proof. rewrite clean_cons. intro H. apply andb_true_iff in H. destruct H as [H _]. apply negb_true_iff in H. exact H. Qed.

Lemma clean_app a b : clean (a ++ b) = clean a && clean b.
Proof. unfold clean. rewrite existsb_app, negb_orb. reflexivity. Qed.

Lemma delim_ok_clean d : delim_ok d = true -> clean d = true /\ d <> [].
Proof. unfold delim_ok, clean. destruct d; [discriminate|]. intro H. split; [exact H | discriminate]. Qed.

Lemma starts_with_self_app d x : starts_with (d ++ x) d = true.
Proof. apply starts_with_app. exists x. reflexivity. Qed.

Lemma strip_prefix_app d x : strip_prefix (d ++ x) d = Some x.
Proof. unfold strip_prefix. rewrite starts_with_self_app, skipn_app_len. reflexivity. Qed.

Lemma bytes_eqb_refl d : bytes_eqb d d = true.
Proof. apply bytes_eqb_eq. reflexivity. Qed.

Lemma starts_with_refl d : starts_with d d = true.
Proof. apply starts_with_app. exists []. symmetry. apply app_nil_r. Qed.

(* ------------------------------------------------------------------------------------------------ *)
(* what happens after the closing delimiter *)

Definition tailproc (s front t2 : bytes) : option (bytes * bytes) :=
  match t2 with
  | [] => Some (s, [])
  | _ :: _ =>
    match cut_eol t2 with
    | None => None
    | Some (e2, t3) =>
      match cut_eol t3 with
      | Some (e3, t4) => Some (front ++ e2 ++ e3, t4)
      | None => Some (front ++ e2, t3)
      end
    end
  end.

Lemma core_unfold s d : core s d =
  match strip_prefix s d with
  | None => None
  | Some t =>
    match cut_eol t with
    | None => None
    | Some (e0, t1) =>
      match chain t1 d with
      | None => None
      | Some n => tailproc s (d ++ e0 ++ firstn n t1 ++ fm_lf ++ d) (skipn (n + 1 + List.length d) t1)
      end
    end
  end.
Proof.
  unfold core, tailproc. destruct (strip_prefix s d) as [t|]; [|reflexivity].
  destruct (cut_eol t) as [[e0 t1]|]; [|reflexivity]. destruct (chain t1 d) as [n|]; [|reflexivity].
  destruct (skipn (n + 1 + List.length d) t1) as [|x t2]; [reflexivity|].
  destruct (cut_eol (x :: t2)) as [[e2 t3]|]; [|reflexivity].
  destruct (cut_eol t3) as [[e3 t4]|]; assoc; reflexivity.
Qed.

Definition blank_cr (l : line) : bool :=
  match l with ([], ECR) => true | _ => false end.

Lemma tail_spec s front ec after :
  (after = [] \/ wf after) -> lf_ended ec = true -> hdP blank_cr after = false ->
  tailproc s front (eol_bytes ec ++ join after) =
  let (bl, after') := absorb_blank after in Some (front ++ eol_bytes ec ++ join bl, join after').
Proof.
  intros W He Hb.
  assert (T : forall e2, cut_eol (eol_bytes ec ++ join after) = Some (e2, join after) -> e2 = eol_bytes ec ->
          (exists x t, eol_bytes ec ++ join after = x :: t) ->
          match cut_eol (join after) with
          | Some (e3, t4) => Some (front ++ e2 ++ e3, t4)
          | None => Some (front ++ e2, join after)
          end = (let (bl, after') := absorb_blank after in Some (front ++ eol_bytes ec ++ join bl, join after')) ->
          tailproc s front (eol_bytes ec ++ join after) =
          (let (bl, after') := absorb_blank after in Some (front ++ eol_bytes ec ++ join bl, join after'))).
  { intros e2 Hc _ [x [t Hx]] G. unfold tailproc. rewrite Hc. rewrite Hx at 1. exact G. }
  assert (G : match cut_eol (join after) with
          | Some (e3, t4) => Some (front ++ eol_bytes ec ++ e3, t4)
          | None => Some (front ++ eol_bytes ec, join after)
          end = (let (bl, after') := absorb_blank after in Some (front ++ eol_bytes ec ++ join bl, join after'))).
  { destruct after as [|[c1 e1] rest1].
    - cbn. rewrite app_nil_r. reflexivity.
    - destruct W as [W | W]; [discriminate|].
      destruct c1 as [|h c1'].
      + destruct e1.
        * rewrite join_cons. cbn [app eol_bytes]. rewrite cut_eol_lf. reflexivity.
        * rewrite join_cons. cbn [app eol_bytes]. rewrite cut_eol_crlf. reflexivity.
        * discriminate Hb.
        * inversion W; subst; [|discriminate]. cbn. rewrite app_nil_r. reflexivity.
      + assert (Hh : is_nl h = false) by (apply (clean_hd h c1'); inversion W; assumption).
        cbn [absorb_blank]. change (join []) with (@nil byte). rewrite app_nil_r.
        rewrite join_cons. cbn [app]. rewrite (cut_eol_not_nl h _ Hh). reflexivity. }
  destruct ec; try discriminate.
  - apply (T fm_lf); [reflexivity | reflexivity | eexists; eexists; reflexivity | exact G].
  - apply (T fm_crlf); [reflexivity | reflexivity | eexists; eexists; reflexivity | exact G].
Qed.

(* ------------------------------------------------------------------------------------------------ *)
(* the closer search on lines, under the class conditions *)

Lemma in_tl {A} (x : A) l : In x (tl l) -> In x l.
Proof. destruct l; [intros [] | intro H; right; exact H]. Qed.

Lemma tl_app_ne {A} (a b : list A) : a <> [] -> tl (a ++ b) = tl a ++ b.
Proof. destruct a; [congruence | reflexivity]. Qed.

Lemma existsb_false_in {A} (f : A -> bool) l : existsb f l = false -> forall x, In x l -> f x = false.
Proof.
  intros H x Hx. destruct (f x) eqn:E; [|reflexivity].
  assert (existsb f l = true) by (apply existsb_exists; exists x; split; assumption). congruence.
Qed.

Lemma closer_chain d ls pre ec after :
  ls = pre ++ (d, ec) :: after -> pre <> [] ->
  (forall x, In x pre -> bytes_eqb (fst x) d = false) ->
  (forall x, In x pre -> lf_ended (snd x) = true) ->
  ec <> ECR ->
  (ec = ELF -> existsb (exact_with d ECRLF) after = false) ->
  (ec = EEOF -> after = [] /\ existsb (fun l => starts_with (fst l) d) (tl pre) = false) ->
  exists n, chainP d ls = Some n /\ n + 1 = List.length (join pre).
Proof.
  intros -> Hne Hnx Hlf Hcr Hc3 Hc4. unfold chainP, or_else.
  assert (Tl : forall P : line -> bool, (forall x, In x (tl pre) -> P x = false) -> P (d, ec) = false ->
               (forall x, In x after -> P x = false) -> scanP P (pre ++ (d, ec) :: after) = None).
  { intros P H1 H2 H3. apply scanP_none. rewrite (tl_app_ne pre _ Hne). intros l Hl.
    apply in_app_or in Hl. destruct Hl as [Hl | [<- | Hl]]; [apply H1 | exact H2 | apply H3]; assumption. }
  assert (Nx : forall e x, In x (tl pre) -> exact_with d e x = false).
  { intros e x Hx. apply exact_with_false, Hnx, in_tl, Hx. }
  destruct ec.
  - (* closer LF *)
    rewrite (Tl (exact_with d ECRLF) (Nx ECRLF)); [| unfold exact_with; cbn [fst snd]; rewrite andb_false_r; reflexivity
                                                  | apply existsb_false_in, Hc3; reflexivity].
    destruct (scanP_first (exact_with d ELF) (d, ELF) after pre Hne (Nx ELF)) as [n [Hs Hn]]; [|exact Hlf|].
    { unfold exact_with. cbn [fst snd]. rewrite bytes_eqb_refl. reflexivity. }
    rewrite Hs. exists n. split; [reflexivity | exact Hn].
  - destruct (scanP_first (exact_with d ECRLF) (d, ECRLF) after pre Hne (Nx ECRLF)) as [n [Hs Hn]]; [|exact Hlf|].
    { unfold exact_with. cbn [fst snd]. rewrite bytes_eqb_refl. reflexivity. }
    rewrite Hs. exists n. split; [reflexivity | exact Hn].
  - congruence.
  - destruct (Hc4 eq_refl) as [-> Hp].
    rewrite (Tl (exact_with d ECRLF) (Nx ECRLF)); [| unfold exact_with; cbn [fst snd]; rewrite andb_false_r; reflexivity | intros x []].
    rewrite (Tl (exact_with d ELF) (Nx ELF)); [| unfold exact_with; cbn [fst snd]; rewrite andb_false_r; reflexivity | intros x []].
    destruct (scanP_first (fun l : line => starts_with (fst l) d) (d, EEOF) [] pre Hne) as [n [Hs Hn]];
      [apply existsb_false_in, Hp | apply starts_with_refl | exact Hlf |].
    rewrite Hs. exists n. split; [reflexivity | exact Hn].
Qed.

(* ------------------------------------------------------------------------------------------------ *)
(* assembly *)

Definition spec_on (Ls : list line) (d : bytes) : option (bytes * bytes) :=
  match Ls with
  | (c0, e0) :: ls =>
    if bytes_eqb c0 d && terminated e0 then
      match find_closer d ls with
      | Some (body, after) =>
        let (bl, after') := absorb_blank after in
        Some (join ((c0, e0) :: body ++ bl), join after')
      | None => None
      end
    else None
  | [] => None
  end.

Definition class_on (Ls : list line) (d : bytes) : N :=
  match Ls with
  | (c0, e0) :: ls =>
    if bytes_eqb c0 d && terminated e0 then
      match find_closer d ls with
      | Some (body, after) =>
        let (bl, _) := absorb_blank after in
        if has_lone_cr (join ((c0, e0) :: body ++ bl)) then 1%N
        else match body with
             | [_] => 2%N
             | _ =>
               match last_eol body with
               | ELF => if existsb (exact_with d ECRLF) after then 3%N else 0%N
               | EEOF => if existsb (fun l => starts_with (fst l) d) (removelast (tl body)) then 4%N else 0%N
               | _ => 0%N
               end
             end
      | None => 0%N
      end
    else 0%N
  | [] => 0%N
  end.

Lemma spec_split_on s d : delim_ok d = true -> spec_split s d = spec_on (lines (strip_bom s)) d.
Proof. intro H. unfold spec_split, spec_split_gen. rewrite H. reflexivity. Qed.

Lemma fm_class_on s d : delim_ok d = true -> fm_class s d = class_on (lines (strip_bom s)) d.
Proof. intro H. unfold fm_class. rewrite H. reflexivity. Qed.

Lemma absorb_app after bl after' : absorb_blank after = (bl, after') -> after = bl ++ after'.
Proof.
  unfold absorb_blank. destruct after as [|[c e] r]; [intros [= <- <-]; reflexivity|].
  destruct c; [|intros [= <- <-]; reflexivity].
  destruct (terminated e); intros [= <- <-]; reflexivity.
Qed.

Lemma body_match {A} (pre : list line) x (a b : A) : pre <> [] ->
  match pre ++ [x] with [_] => a | _ => b end = b.
Proof. destruct pre as [|p pre]; [congruence|]. intros _. destruct pre; reflexivity. Qed.

Lemma last_eol_snoc pre d ec : last_eol (pre ++ [(d, ec)]) = ec.
Proof. unfold last_eol. rewrite rev_app_distr. reflexivity. Qed.

Lemma lf_ended_of e : terminated e = true -> e <> ECR -> lf_ended e = true.
Proof. destruct e; try reflexivity; [congruence | discriminate]. Qed.

Lemma main2 d e0 ls : clean d = true -> d <> [] -> wf ((d, e0) :: ls) -> wf ls ->
  class_on ((d, e0) :: ls) d = 0%N -> terminated e0 = true ->
  match chain (join ls) d with
  | None => None
  | Some n => tailproc (d ++ eol_bytes e0 ++ join ls)
                (d ++ eol_bytes e0 ++ firstn n (join ls) ++ fm_lf ++ d)
                (skipn (n + 1 + List.length d) (join ls))
  end =
  match find_closer d ls with
  | Some (body, after) =>
    let (bl, after') := absorb_blank after in Some (join ((d, e0) :: body ++ bl), join after')
  | None => None
  end.
Proof.
  intros Cd Nd W Wls Hk Te0.
  pose proof (chain_scan d ls Cd Wls) as Hcs.
  destruct (find_closer d ls) as [[body after]|] eqn:F.
  - destruct (find_closer_some d ls body after F) as [pre [ec [-> [Hls Hnx]]]].
    unfold class_on in Hk. rewrite bytes_eqb_refl, Te0, F in Hk. cbn [andb] in Hk.
    destruct (absorb_blank after) as [bl after'] eqn:Ab. cbn beta iota in Hk.
    pose proof (absorb_app _ _ _ Ab) as Haf.
    assert (Wall : wf (((d, e0) :: (pre ++ [(d, ec)]) ++ bl) ++ after')).
    { replace (((d, e0) :: (pre ++ [(d, ec)]) ++ bl) ++ after') with ((d, e0) :: ls); [exact W|].
      rewrite Hls, Haf. cbn [app]. f_equal. rewrite <- !app_assoc. reflexivity. }
    pose proof (hlc_join _ after' Wall) as HJ.
    match type of Hk with (if ?b then _ else _) = _ => destruct b eqn:HL end; [discriminate Hk|].
    assert (Ecr : existsb is_cr ((d, e0) :: (pre ++ [(d, ec)]) ++ bl) = false).
    { etransitivity; [symmetry; exact HJ | exact HL]. }
    clear HJ HL.
    cbn [existsb] in Ecr. apply orb_false_elim in Ecr. destruct Ecr as [_ Ecr].
    rewrite !existsb_app in Ecr. apply orb_false_elim in Ecr. destruct Ecr as [Ecr Ebl].
    apply orb_false_elim in Ecr. destruct Ecr as [Epre Eec]. cbn [existsb] in Eec. rewrite orb_false_r in Eec.
    assert (Hec : ec <> ECR) by (intros ->; discriminate Eec).
    assert (Hne : pre <> []) by (intros ->; cbn [app] in Hk; discriminate Hk).
    pose proof Wls as Wsplit. rewrite Hls in Wsplit.
    rewrite (body_match pre (d, ec) _ _ Hne), last_eol_snoc in Hk.
    assert (Hlf : forall x, In x pre -> lf_ended (snd x) = true).
    { intros x Hx. apply lf_ended_of.
      - apply (wf_prefix_terminated pre ((d, ec) :: after)); [discriminate | exact Wsplit | exact Hx].
      - pose proof (existsb_false_in _ _ Epre x Hx) as Hx'. unfold is_cr in Hx'. intro Hcr. rewrite Hcr in Hx'. discriminate. }
    destruct (closer_chain d ls pre ec after Hls Hne Hnx Hlf Hec) as [n [Hn Hlen]].
    { intros ->. match type of Hk with (if ?b then _ else _) = _ => destruct b eqn:Eb end; [discriminate Hk | first [exact Eb | reflexivity]]. }
    { intros ->. split.
      - apply (wf_eof_last pre d after). exact Wsplit.
      - match type of Hk with (if existsb ?f ?l then _ else _) = _ =>
          assert (Hrl : l = tl pre) by (destruct pre; [congruence|]; cbn [app tl]; apply removelast_last);
          rewrite Hrl in Hk end.
        match type of Hk with (if ?b then _ else _) = _ => destruct b eqn:Eb end; [discriminate Hk | first [exact Eb | reflexivity]]. }
    rewrite Hcs, Hn.
    assert (Ht1 : join ls = (join pre ++ d) ++ eol_bytes ec ++ join after).
    { rewrite Hls, join_app, join_cons, <- app_assoc. reflexivity. }
    assert (Hch : chain (join ls) d = Some n) by (rewrite Hcs; exact Hn).
    pose proof (chain_some _ _ _ Hch) as Hsome.
    assert (Hsk : skipn (n + 1 + List.length d) (join ls) = eol_bytes ec ++ join after).
    { replace (n + 1 + List.length d) with (List.length (join pre ++ d)) by (rewrite app_length; lia).
      rewrite Ht1. apply skipn_app_len. }
    rewrite Hsk in *.
    assert (Hpre : firstn n (join ls) ++ fm_lf = join pre).
    { apply (app_inv_tail (d ++ eol_bytes ec ++ join after)).
      rewrite <- !app_assoc. rewrite <- Hsome. rewrite Ht1, <- !app_assoc. reflexivity. }
    assert (Hfront : d ++ eol_bytes e0 ++ firstn n (join ls) ++ fm_lf ++ d = d ++ eol_bytes e0 ++ join pre ++ d).
    { rewrite <- Hpre, <- !app_assoc. reflexivity. }
    rewrite Hfront.
    destruct (lf_ended ec) eqn:Lec.
    + rewrite tail_spec; [| | exact Lec |].
      * rewrite Ab. f_equal. f_equal.
        rewrite join_cons, !join_app, join_cons. cbn [join flat_map]. rewrite app_nil_r, <- !app_assoc. reflexivity.
      * destruct after as [|a af]; [left; reflexivity | right].
        apply (wf_suffix (pre ++ [(d, ec)])); [discriminate|]. rewrite <- app_assoc. exact Wsplit.
      * destruct after as [|[[|h c1] e1] af]; try reflexivity. destruct e1; try reflexivity.
        cbn in Ab. injection Ab as <- <-. discriminate Ebl.
    + destruct ec; try discriminate Lec; [congruence|].
      assert (Haft : after = []) by (apply (wf_eof_last pre d after); exact Wsplit).
      rewrite Haft in Ab, Hls |- *. cbn in Ab. injection Ab as <- <-.
      change (join []) with (@nil byte). cbn [eol_bytes app tailproc].
      f_equal. f_equal. rewrite app_nil_r, join_cons, Hls. reflexivity.
  - pose proof (find_closer_none d ls F) as Hnx.
    rewrite Hcs. unfold chainP, or_else.
    rewrite (scanP_none (exact_with d ECRLF) ls) by (intros l Hl; apply exact_with_false, Hnx, in_tl, Hl).
    rewrite (scanP_none (exact_with d ELF) ls) by (intros l Hl; apply exact_with_false, Hnx, in_tl, Hl).
    destruct (scanP (fun l : line => starts_with (fst l) d) ls) as [n|] eqn:Hs; [|reflexivity].
    destruct (scanP_some_inv _ ls n Hs) as [pre [[cl el] [after [Hls [Hne [Hp Hlen]]]]]].
    cbn [fst] in Hp. apply starts_with_app in Hp. destruct Hp as [r' ->].
    assert (Hcl : clean (d ++ r') = true) by (apply (wf_clean_in ls Wls _ el); rewrite Hls; apply in_or_app; right; left; reflexivity).
    assert (Hx : bytes_eqb (fst (d ++ r', el)) d = false) by (apply Hnx; rewrite Hls; apply in_or_app; right; left; reflexivity).
    cbn [fst] in Hx.
    destruct r' as [|h r'']; [rewrite app_nil_r, bytes_eqb_refl in Hx; discriminate|].
    rewrite clean_app in Hcl. apply andb_true_iff in Hcl. destruct Hcl as [_ Hcl]. apply clean_hd in Hcl.
    assert (Hsk : skipn (n + 1 + List.length d) (join ls) = h :: r'' ++ eol_bytes el ++ join after).
    { replace (n + 1 + List.length d) with (List.length (join pre ++ d)) by (rewrite app_length; lia).
      rewrite Hls, join_app, join_cons.
      replace (join pre ++ (d ++ h :: r'') ++ eol_bytes el ++ join after)
        with ((join pre ++ d) ++ (h :: r'' ++ eol_bytes el ++ join after)) by (rewrite <- !app_assoc; reflexivity).
      apply skipn_app_len. }
    rewrite Hsk. unfold tailproc. rewrite (cut_eol_not_nl h _ Hcl). reflexivity.
Qed.

Lemma core_spec_on Ls d : wf Ls -> delim_ok d = true -> class_on Ls d = 0%N ->
  core (join Ls) d = spec_on Ls d.
Proof.
  intros W Hd Hk. destruct (delim_ok_clean d Hd) as [Cd Nd].
  destruct Ls as [|[c0 e0] ls]; [inversion W|].
  assert (Hc0 : clean c0 = true) by (inversion W; assumption).
  pose proof (wf_tail_hd_nl _ _ _ W) as Hx.
  rewrite core_unfold. unfold spec_on.
  destruct (bytes_eqb c0 d) eqn:E0.
  2:{ cbn [andb]. rewrite join_cons. unfold strip_prefix. rewrite (sw_clean_prefix c0 d _ Hc0 Cd Hx).
      destruct (starts_with c0 d) eqn:Es; [|reflexivity].
      apply starts_with_app in Es. destruct Es as [r' ->].
      destruct r' as [|h r'']; [rewrite app_nil_r, bytes_eqb_refl in E0; discriminate|].
      rewrite <- app_assoc, skipn_app_len. cbn [app].
      rewrite cut_eol_not_nl; [reflexivity|].
      rewrite clean_app in Hc0. apply andb_true_iff in Hc0. destruct Hc0 as [_ Hc0]. apply (clean_hd h r'' Hc0). }
  apply bytes_eqb_eq in E0. subst c0. cbn [andb]. rewrite join_cons, strip_prefix_app.
  inversion W as [c Hc | c e rest Hc He Hcr Wls]; subst.
  - reflexivity.
  - destruct e0.
    + cbn [eol_bytes app terminated]. rewrite cut_eol_lf.
      apply (main2 d ELF ls Cd Nd W Wls Hk eq_refl).
    + cbn [eol_bytes app terminated]. rewrite cut_eol_crlf.
      apply (main2 d ECRLF ls Cd Nd W Wls Hk eq_refl).
    + cbn [eol_bytes app terminated]. rewrite (cut_eol_cr _ (Hcr eq_refl)).
      destruct (find_closer d ls) as [[body after]|] eqn:F; [|reflexivity].
      exfalso. unfold class_on in Hk. rewrite bytes_eqb_refl, F in Hk. cbn [andb terminated] in Hk.
      destruct (absorb_blank after) as [bl after'] eqn:Ab. cbn beta iota in Hk.
      destruct (find_closer_some d ls body after F) as [pre [ec [-> [Hls _]]]].
      pose proof (absorb_app _ _ _ Ab) as Haf.
      assert (Wall : wf (((d, ECR) :: (pre ++ [(d, ec)]) ++ bl) ++ after')).
      { replace (((d, ECR) :: (pre ++ [(d, ec)]) ++ bl) ++ after') with ((d, ECR) :: ls); [exact W|].
        rewrite Hls, Haf. cbn [app]. f_equal. rewrite <- !app_assoc. reflexivity. }
      pose proof (hlc_join _ after' Wall) as HJ.
      match type of Hk with (if ?b then _ else _) = _ => destruct b eqn:HL end; [discriminate Hk|].
      assert (Ecr : existsb is_cr ((d, ECR) :: (pre ++ [(d, ec)]) ++ bl) = false).
      { etransitivity; [symmetry; exact HJ | exact HL]. }
      discriminate Ecr.
    + discriminate He.
Qed.

Lemma core_is_spec s d : delim_ok d = true -> fm_class s d = 0%N ->
  core (trim_start_match s fm_bom) d = spec_split s d.
Proof.
  intros Hd Hk. rewrite trim_is_strip_bom, (spec_split_on s d Hd).
  rewrite (fm_class_on s d Hd) in Hk.
  rewrite <- (join_lines (strip_bom s)) at 1.
  apply core_spec_on; [apply lines_wf | exact Hd | exact Hk].
Qed.

(* the conditional theorem: outside the four classes the model returns exactly what the spec says,
   whenever it returns at all; on valid UTF-8 it always returns *)
Lemma split_spec_partial s d r : delim_ok d = true -> fm_class s d = 0%N ->
  split_off_front_matter s d = Ok r -> r = spec_split s d.
Proof.
  intros Hd Hk H. apply split_ok_core in H. rewrite H. apply core_is_spec; assumption.
Qed.

Lemma split_spec_partial_utf8 s d : utf8_valid s = true -> utf8_valid d = true ->
  delim_ok d = true -> fm_class s d = 0%N ->
  split_off_front_matter s d = Ok (spec_split s d).
Proof.
  intros Vs Vd Hd Hk. rewrite (split_total s d Vs Vd). f_equal. apply core_is_spec; assumption.
Qed.

(* the spec never finds front matter where the splitter's shape is absent: the two readings of the
   documentation differ by at most the one absorbed blank line *)
Lemma spec_absorb_only_moves_blank s d fm rest :
  spec_split_doc s d = Some (fm, rest) ->
  exists bl, (bl = [] \/ bl = [x0a] \/ bl = [x0d; x0a] \/ bl = [x0d]) /\
    exists rest', rest = bl ++ rest' /\ spec_split s d = Some (fm ++ bl, rest').
Proof.
  unfold spec_split_doc, spec_split, spec_split_gen.
  destruct (negb (delim_ok d)); [discriminate|].
  destruct (lines (strip_bom s)) as [|[c0 e0] ls]; [discriminate|].
  destruct (bytes_eqb c0 d && terminated e0); [|discriminate].
  destruct (find_closer d ls) as [[body after]|]; [|discriminate].
  intros [= <- <-].
  destruct (absorb_blank after) as [bl after'] eqn:Ab.
  pose proof (absorb_app _ _ _ Ab) as Haf.
  exists (join bl). split.
  - unfold absorb_blank in Ab. destruct after as [|[[|h c] e] r]; try (injection Ab as <- <-; left; reflexivity).
    destruct e; cbn in Ab; injection Ab as <- <-; cbn; tauto.
  - exists (join after'). split; [rewrite Haf; apply join_app|].
    f_equal. f_equal. rewrite app_nil_r.
    change ((c0, e0) :: body ++ bl) with (((c0, e0) :: body) ++ bl). apply join_app.
Qed.
