(* Proofs/FrontMatterSpecProofs.v — facts about the line-based specification Spec/FrontMatterSpec.v alone
   (nothing about the model here): `lines` is a partition of the input into well-formed lines, one line at a
   time (`cut_line`), what `find_closer` returns, the two readings of the documentation, and the line count. *)
From Coq Require Import List NArith Bool Lia Arith.
From V Require Import Base.Bytes Base.Res Model.FrontMatter Spec.FrontMatterSpec.
Import ListNotations.
Local Open Scope list_scope.

Definition clean (c : bytes) : bool := negb (existsb is_nl c).

Inductive wf : list line -> Prop :=
| wf_last c : clean c = true -> wf [(c, EEOF)]
| wf_cons c e rest : clean c = true -> terminated e = true ->
    (e = ECR -> starts_with (join rest) fm_lf = false) -> wf rest -> wf ((c, e) :: rest).

Lemma join_cons c e ls : join ((c, e) :: ls) = c ++ eol_bytes e ++ join ls.
Proof. unfold join. cbn [flat_map]. unfold join1. cbn [fst snd]. rewrite app_assoc. reflexivity. Qed.

Lemma join_app a b : join (a ++ b) = join a ++ join b.
Proof. unfold join. apply flat_map_app. Qed.

Lemma lines_lf r : lines (x0a :: r) = ([], ELF) :: lines r.
Proof. reflexivity. Qed.
Lemma lines_crlf r : lines (x0d :: x0a :: r) = ([], ECRLF) :: lines r.
Proof. reflexivity. Qed.
Lemma lines_cr r : starts_with r fm_lf = false -> lines (x0d :: r) = ([], ECR) :: lines r.
Proof.
  destruct r as [|b r]; [reflexivity|]. unfold fm_lf. cbn [starts_with]. rewrite andb_true_r. intro H.
  change (lines (x0d :: b :: r)) with (if beqb b x0a then ([], ECRLF) :: lines r else ([], ECR) :: lines (b :: r)).
  rewrite H. reflexivity.
Qed.
Lemma lines_other b r : is_nl b = false ->
  lines (b :: r) = match lines r with (c, e) :: ls => (b :: c, e) :: ls | [] => [([b], EEOF)] end.
Proof.
  unfold is_nl. intro H. apply orb_false_elim in H. destruct H as [H1 H2].
  cbn [lines]. rewrite H1, H2. reflexivity.
Qed.

Lemma bytes_ind2 (P : bytes -> Prop) :
  P [] -> (forall b r, P r -> (forall b2 r', r = b2 :: r' -> P r') -> P (b :: r)) -> forall s, P s.
Proof.
  intros H0 HS. assert (G : forall n s, List.length s <= n -> P s).
  { induction n as [|n IH]; intros s L.
    - destruct s; [exact H0 | simpl in L; lia].
    - destruct s as [|b r]; [exact H0|]. simpl in L. apply HS.
      + apply IH. lia.
      + intros b2 r' ->. apply IH. simpl in L. lia. }
  intro s. apply (G (List.length s)). lia.
Qed.

Lemma clean_cons b c : clean (b :: c) = negb (is_nl b) && clean c.
Proof. unfold clean. cbn [existsb]. rewrite negb_orb. reflexivity. Qed.

Lemma lines_facts : forall s, join (lines s) = s /\ wf (lines s).
Proof.
  apply bytes_ind2.
  - split; [reflexivity | apply wf_last; reflexivity].
  - intros b r [Jr Wr] IH2.
    destruct (beqb b x0a) eqn:Ea.
    { apply beqb_eq in Ea. subst b. rewrite lines_lf, join_cons, Jr. split; [reflexivity|].
      apply wf_cons; [reflexivity | reflexivity | discriminate | exact Wr]. }
    destruct (beqb b x0d) eqn:Ed.
    { apply beqb_eq in Ed. subst b.
      destruct (starts_with r fm_lf) eqn:Er.
      - destruct r as [|b2 r']; [discriminate|]. unfold fm_lf in Er. cbn [starts_with] in Er.
        rewrite andb_true_r in Er. apply beqb_eq in Er. subst b2.
        destruct (IH2 x0a r' eq_refl) as [J2 W2].
        rewrite lines_crlf, join_cons, J2. split; [reflexivity|].
        apply wf_cons; [reflexivity | reflexivity | discriminate | exact W2].
      - rewrite (lines_cr r Er), join_cons, Jr. split; [reflexivity|].
        apply wf_cons; [reflexivity | reflexivity | intros _; rewrite Jr; exact Er | exact Wr]. }
    assert (Nb : is_nl b = false) by (unfold is_nl; rewrite Ea, Ed; reflexivity).
    rewrite (lines_other b r Nb).
    destruct (lines r) as [|[c e] ls] eqn:El; [inversion Wr|].
    rewrite join_cons in *. split; [rewrite <- Jr; reflexivity|].
    inversion Wr; subst.
    + apply wf_last. rewrite clean_cons, Nb. assumption.
    + apply wf_cons; try assumption. rewrite clean_cons, Nb. assumption.
Qed.

Lemma join_lines s : join (lines s) = s.
Proof. apply lines_facts. Qed.
Lemma lines_wf s : wf (lines s).
Proof. apply lines_facts. Qed.

(* ------------------------------------------------------------------------------------------------ *)
(* one line at a time: the first line, its terminator, the text after it *)

Fixpoint cut_line (t : bytes) : bytes * eol * bytes :=
  match t with
  | [] => ([], EEOF, [])
  | b :: r =>
    if beqb b x0a then ([], ELF, r)
    else if beqb b x0d then
      match r with
      | b2 :: r' => if beqb b2 x0a then ([], ECRLF, r') else ([], ECR, r)
      | [] => ([], ECR, r)
      end
    else let '(c, e, r') := cut_line r in (b :: c, e, r')
  end.

(* the lines after a line with terminator e and following text r *)
Definition rest_lines (e : eol) (r : bytes) : list line := if terminated e then lines r else [].

Lemma lines_cut t : lines t = let '(c, e, r) := cut_line t in (c, e) :: rest_lines e r.
Proof.
  induction t as [|b r IH]; [reflexivity|].
  cbn [lines cut_line]. destruct (beqb b x0a); [reflexivity|].
  destruct (beqb b x0d).
  - destruct r as [|b2 r']; [reflexivity|]. destruct (beqb b2 x0a); reflexivity.
  - rewrite IH. destruct (cut_line r) as [[c e] r']. reflexivity.
Qed.

Lemma cut_line_facts : forall t c e r, cut_line t = (c, e, r) ->
  t = c ++ eol_bytes e ++ r /\ clean c = true /\ (e = EEOF -> r = []) /\
  (e = ECR -> starts_with r fm_lf = false).
Proof.
  induction t as [|b t IH]; intros c e r H.
  - injection H as <- <- <-. repeat split; try reflexivity; discriminate.
  - cbn [cut_line] in H. destruct (beqb b x0a) eqn:Ea.
    { apply beqb_eq in Ea. subst b. injection H as <- <- <-. repeat split; try reflexivity; discriminate. }
    destruct (beqb b x0d) eqn:Ed.
    { apply beqb_eq in Ed. subst b. destruct t as [|b2 t'].
      - injection H as <- <- <-. repeat split; try reflexivity; discriminate.
      - destruct (beqb b2 x0a) eqn:E2.
        + apply beqb_eq in E2. subst b2. injection H as <- <- <-. repeat split; try reflexivity; discriminate.
        + injection H as <- <- <-. repeat split; try reflexivity; try discriminate.
          intros _. unfold fm_lf. cbn [starts_with]. rewrite E2. reflexivity. }
    destruct (cut_line t) as [[c1 e1] r1] eqn:C. injection H as <- <- <-.
    destruct (IH c1 e1 r1 eq_refl) as [Ht [Hc [He Hr]]].
    repeat split; try assumption.
    + cbn [app]. f_equal. exact Ht.
    + rewrite clean_cons, Hc. unfold is_nl. rewrite Ea, Ed. reflexivity.
Qed.

Lemma cut_line_nonempty t c e r : cut_line t = (c, e, r) -> t <> [] -> List.length r < List.length t.
Proof.
  intros H Ht. destruct (cut_line_facts _ _ _ _ H) as [E [_ [He _]]].
  rewrite E, !app_length. destruct e; cbn [eol_bytes List.length]; try lia.
  rewrite (He eq_refl) in *. destruct c; [exfalso; apply Ht; rewrite E; reflexivity|]. cbn [List.length]. lia.
Qed.

(* ------------------------------------------------------------------------------------------------ *)
(* find_closer, absorb_blank *)

Lemma find_closer_some d : forall ls body after, find_closer d ls = Some (body, after) ->
  exists pre e, body = pre ++ [(d, e)] /\ ls = pre ++ (d, e) :: after /\
    (forall x, In x pre -> bytes_eqb (fst x) d = false).
Proof.
  induction ls as [|[c e] rest IH]; intros body after H; [discriminate|].
  cbn [find_closer] in H. destruct (bytes_eqb c d) eqn:E.
  - injection H as <- <-. apply bytes_eqb_eq in E. subst c.
    exists [], e. repeat split. intros x [].
  - destruct (find_closer d rest) as [[a b]|] eqn:F; [|discriminate].
    injection H as <- <-. destruct (IH a b eq_refl) as [pre [e' [-> [-> Hp]]]].
    exists ((c, e) :: pre), e'. repeat split. intros x [<- | Hx]; [exact E | apply Hp; exact Hx].
Qed.

Lemma find_closer_none d : forall ls, find_closer d ls = None ->
  forall x, In x ls -> bytes_eqb (fst x) d = false.
Proof.
  induction ls as [|[c e] rest IH]; intros H x Hx; [destruct Hx|].
  cbn [find_closer] in H. destruct (bytes_eqb c d) eqn:E; [discriminate|].
  destruct (find_closer d rest) as [[a b]|] eqn:F; [discriminate|].
  destruct Hx as [<- | Hx]; [exact E | apply (IH eq_refl x Hx)].
Qed.

Lemma absorb_app after bl after' : absorb_blank after = (bl, after') -> after = bl ++ after'.
Proof.
  unfold absorb_blank. destruct after as [|[c e] r]; [intros [= <- <-]; reflexivity|].
  destruct c; [|intros [= <- <-]; reflexivity].
  destruct (terminated e); intros [= <- <-]; reflexivity.
Qed.


Lemma bytes_eqb_refl d : bytes_eqb d d = true.
Proof. apply bytes_eqb_eq. reflexivity. Qed.

Lemma clean_app a b : clean (a ++ b) = clean a && clean b.
Proof. unfold clean. rewrite existsb_app, negb_orb. reflexivity. Qed.

Lemma delim_ok_clean d : delim_ok d = true -> clean d = true /\ d <> [].
Proof. unfold delim_ok, clean. destruct d; [discriminate|]. intro H. split; [exact H | discriminate]. Qed.

Lemma find_closer_nil_line d : d <> [] -> find_closer d [([], EEOF)] = None.
Proof. intro H. cbn [find_closer]. destruct d; [congruence | reflexivity]. Qed.

(* well-formed line lists: auxiliary facts *)

Lemma wf_clean_in ls : wf ls -> forall c e, In (c, e) ls -> clean c = true.
Proof.
  induction 1 as [c Hc | c e rest Hc He Hcr W IH]; intros c' e' [E | Hin]; try (injection E as <- <-; assumption).
  - destruct Hin.
  - apply (IH c' e' Hin).
Qed.

Lemma wf_suffix a : forall b, b <> [] -> wf (a ++ b) -> wf b.
Proof.
  induction a as [|[c e] a IH]; intros b Hb W; [exact W|].
  cbn [app] in W. inversion W; subst.
  - destruct a; [destruct b; [congruence | discriminate] | discriminate].
  - apply (IH b Hb). assumption.
Qed.

Lemma wf_prefix_terminated a : forall b, b <> [] -> wf (a ++ b) ->
  forall x, In x a -> terminated (snd x) = true.
Proof.
  induction a as [|[c e] a IH]; intros b Hb W x Hx; [destruct Hx|].
  cbn [app] in W. inversion W; subst.
  - destruct a; [destruct b; [congruence | discriminate] | discriminate].
  - destruct Hx as [<- | Hx]; [assumption | apply (IH b Hb); assumption].
Qed.

Lemma wf_eof_last a : forall c b, wf (a ++ (c, EEOF) :: b) -> b = [].
Proof.
  induction a as [|[c' e'] a IH]; intros c b W; cbn [app] in W; inversion W; subst.
  - reflexivity.
  - discriminate.
  - destruct a; discriminate.
  - apply (IH c b). assumption.
Qed.

(* what find_closer cuts off the lines of a text: the body is a prefix of the text, and the lines after it
   are the lines of the remaining text (none when the closing line was the unterminated last line) *)
Lemma find_closer_lines d : forall n t body after, List.length t <= n ->
  find_closer d (lines t) = Some (body, after) ->
  exists ec r, t = join body ++ r /\ after = rest_lines ec r /\ (ec = EEOF -> r = []).
Proof.
  induction n as [|n IH]; intros t body after Hn H; rewrite lines_cut in H;
    destruct (cut_line t) as [[c e] r] eqn:C; destruct (cut_line_facts _ _ _ _ C) as [Et [_ [He _]]];
    cbn [find_closer] in H; destruct (bytes_eqb c d) eqn:E.
  1,3: injection H as <- <-; exists e, r; split; [|split; [reflexivity | exact He]];
       rewrite join_cons; cbn [join flat_map]; rewrite app_nil_r, <- app_assoc; exact Et.
  - destruct t; [|cbn in Hn; lia]. injection C as <- <- <-. discriminate H.
  - destruct (find_closer d (rest_lines e r)) as [[a b]|] eqn:F; [|discriminate H].
    injection H as <- <-. unfold rest_lines in F. destruct (terminated e) eqn:Te; [|discriminate F].
    assert (Hl : List.length r <= n).
    { assert (t <> []) by (intros ->; injection C as <- <- <-; discriminate Te).
      pose proof (cut_line_nonempty _ _ _ _ C H). lia. }
    destruct (IH r a b Hl F) as [ec [r2 [Er [Ha Hec]]]].
    exists ec, r2. split; [|split; assumption].
    rewrite join_cons, Et, Er, <- !app_assoc. reflexivity.
Qed.

(* the number of terminated lines is the number of line endings the parser counts *)
Lemma count_line_endings_lines : forall s,
  count_line_endings s = List.length (filter (fun l : line => terminated (snd l)) (lines s)).
Proof.
  apply bytes_ind2; [reflexivity|]. intros b r IHr IH2.
  destruct (beqb b x0a) eqn:Ea.
  { apply beqb_eq in Ea. subst b. rewrite lines_lf. cbn [count_line_endings filter snd terminated List.length beqb].
    rewrite IHr. reflexivity. }
  destruct (beqb b x0d) eqn:Ed.
  { apply beqb_eq in Ed. subst b. destruct (starts_with r fm_lf) eqn:Er.
    - destruct r as [|b2 r']; [discriminate|]. unfold fm_lf in Er. cbn [starts_with] in Er.
      rewrite andb_true_r in Er. apply beqb_eq in Er. subst b2.
      rewrite lines_crlf. cbn [filter snd terminated List.length]. rewrite <- (IH2 x0a r' eq_refl). reflexivity.
    - rewrite (lines_cr r Er). cbn [filter snd terminated List.length]. rewrite <- IHr.
      cbn [count_line_endings]. destruct r as [|b2 r']; [reflexivity|].
      unfold fm_lf in Er. cbn [starts_with] in Er. rewrite andb_true_r in Er. rewrite Er. reflexivity. }
  assert (Nb : is_nl b = false) by (unfold is_nl; rewrite Ea, Ed; reflexivity).
  rewrite (lines_other b r Nb). cbn [count_line_endings]. rewrite Ea, Ed. cbn [andb orb Nat.add]. rewrite IHr.
  pose proof (lines_wf r) as W. destruct (lines r) as [|[c e] ls]; [inversion W|].
  cbn [filter snd]. destruct (terminated e); reflexivity.
Qed.

Lemma line_count_spec fm : N.of_nat (count_line_endings fm) = spec_line_count fm.
Proof. unfold spec_line_count. rewrite count_line_endings_lines. reflexivity. Qed.

(* the spec never finds front matter where the splitter's shape is absent: the two readings of the
   documentation differ by at most the one absorbed blank line *)
Lemma spec_absorb_only_moves_blank s d fm rest :
  spec_split_doc s d = Some (fm, rest) ->
  exists bl, (bl = [] \/ bl = [x0a] \/ bl = [x0d; x0a] \/ bl = [x0d]) /\
    exists rest', rest = bl ++ rest' /\ spec_split s d = Some (fm ++ bl, rest').
Proof.
  unfold spec_split_doc, spec_split, spec_split_gen.
  destruct (negb (delim_ok d)); [discriminate|].
  destruct (lines (strip_bom s)) as [|[c0 e0] ls]; [discriminate|].
  destruct (bytes_eqb c0 d && terminated e0); [|discriminate].
  destruct (find_closer d ls) as [[body after]|]; [|discriminate].
  intros [= <- <-].
  destruct (absorb_blank after) as [bl after'] eqn:Ab.
  pose proof (absorb_app _ _ _ Ab) as Haf.
  exists (join bl). split.
  - unfold absorb_blank in Ab. destruct after as [|[[|h c] e] r]; try (injection Ab as <- <-; left; reflexivity).
    destruct e; cbn in Ab; injection Ab as <- <-; cbn; tauto.
  - exists (join after'). split; [rewrite Haf; apply join_app|].
    f_equal. f_equal. rewrite app_nil_r.
    change ((c0, e0) :: body ++ bl) with (((c0, e0) :: body) ++ bl). apply join_app.
Qed.
