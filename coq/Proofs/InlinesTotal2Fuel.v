(* Proofs/InlinesTotal2Fuel.v — propagation: no leaf function and no arm of parse_inline answers OutOfFuel, except
   through process_emphasis inside close_bracket_match.  (The fuel-carrying loops other than pe_loop are in
   InlinesTotalFuel.v; pe_loop is in InlinesTotal2Pe.v.)  No axioms. *)
From Coq Require Import List NArith ZArith Arith Bool Strings.String Lia.
From V Require Import Base.Bytes Base.Res Gen.StrLeafGen Gen.Consts Gen.Special Model.Special
     Model.Scan Model.Strings Model.Entity Model.LinkUrl Model.AutolinkLeaf Model.Spx Model.Ast Model.Inlines
     Proofs.StrLeafProofs Proofs.StrLeafEntity Proofs.StrLeafParse
     Proofs.InlinesProofs Proofs.InlinesTotalFuel Proofs.InlinesTotal Proofs.InlinesTotal2Pe.
Import ListNotations.
Local Open Scope list_scope.

(* ------------------------------------------------------------------ leaves *)
Lemma entity_unescape_nofuel t : Entity.unescape t <> OutOfFuel.
Proof. destruct (entity_unescape_total t) as [r [E _]]. rewrite E. discriminate. Qed.

Lemma unescape_html_nofuel t : Entity.unescape_html t <> OutOfFuel.
Proof. destruct (unescape_html_total t) as [r E]. rewrite E. discriminate. Qed.

Lemma normalize_code_nofuel t : normalize_code t <> OutOfFuel.
Proof. rewrite normalize_code_is_spec. discriminate. Qed.

Lemma clean_autolink_nofuel t e : clean_autolink t e <> OutOfFuel.
Proof. destruct (clean_autolink_total t e) as [r E]. rewrite E. discriminate. Qed.

Lemma clean_url_nofuel t : clean_url t <> OutOfFuel.
Proof. destruct (clean_url_spec t) as [h [_ E]]. rewrite E. discriminate. Qed.

Lemma clean_title_nofuel t : clean_title t <> OutOfFuel.
Proof.
  unfold clean_title. destruct t as [|a t]; [discriminate|]. cbv zeta.
  match goal with |- bind ?r _ <> _ => destruct r as [b| |] eqn:E; cbn [bind] end.
  - rewrite unescape_is_spec. discriminate.
  - discriminate.
  - exfalso. revert E.
    repeat match goal with |- (if ?c then _ else _) = _ -> _ => destruct c end; try discriminate;
      apply unescape_html_nofuel.
Qed.

Lemma manual_scan_nofuel t : manual_scan_link_url t <> OutOfFuel.
Proof. destruct (manual_scan_link_url_total t) as [r [E _]]. rewrite E. discriminate. Qed.

Lemma rtrim_nofuel t : rtrim t <> OutOfFuel.
Proof. rewrite rtrim_ok. discriminate. Qed.

Lemma ltrim_nofuel t : ltrim t <> OutOfFuel.
Proof. rewrite ltrim_ok. discriminate. Qed.

Lemma usub_nofuel site a b : usub site a b <> OutOfFuel.
Proof. unfold usub. destruct (Nat.ltb a b); discriminate. Qed.

Lemma nsub_nofuel site a b : nsub site a b <> OutOfFuel.
Proof. unfold nsub. destruct (a <? b)%N; discriminate. Qed.

Lemma slice_nofuel inp site a b : slice inp site a b <> OutOfFuel.
Proof. unfold slice. destruct (_ || _); discriminate. Qed.

Lemma from_nofuel inp site a : from inp site a <> OutOfFuel.
Proof. unfold from. destruct (Nat.ltb _ _); discriminate. Qed.

Lemma end_col_nofuel s : end_col s <> OutOfFuel.
Proof. unfold end_col, to_usize. destruct (_ <? _)%Z; discriminate. Qed.

Create HintDb nofuel.
#[export] Hint Resolve entity_unescape_nofuel unescape_html_nofuel normalize_code_nofuel clean_autolink_nofuel
  clean_url_nofuel clean_title_nofuel manual_scan_nofuel rtrim_nofuel ltrim_nofuel usub_nofuel nsub_nofuel
  slice_nofuel from_nofuel end_col_nofuel mk_nofuel : nofuel.

(* walk a monadic term: every bind either continues, stops at a Panic, or its scrutinee must not be OutOfFuel *)
Ltac nf :=
  repeat match goal with
         | |- Ok _ <> OutOfFuel => discriminate
         | |- Panic _ <> OutOfFuel => discriminate
         | |- _ <> OutOfFuel => solve [auto with nofuel]
         | |- bind ?r _ <> OutOfFuel =>
           let E := fresh "E" in
           destruct r eqn:E; cbn [bind];
           [ | discriminate | exfalso; generalize E; clear E; change (r <> OutOfFuel) ]
         | |- (let (_, _) := ?x in _) <> OutOfFuel => destruct x
         | |- match ?x with _ => _ end <> OutOfFuel => destruct x
         end.

(* ------------------------------------------------------------------ the handlers that return (state, node) *)
Lemma adjust_nofuel inp lo s n ml ex : adjust_node_newlines inp lo s n ml ex <> OutOfFuel.
Proof. unfold adjust_node_newlines. nf. Qed.
#[export] Hint Resolve adjust_nofuel : nofuel.

Lemma handle_newline_nofuel inp s : handle_newline inp s <> OutOfFuel.
Proof. unfold handle_newline. cbv zeta. nf. Qed.

Lemma handle_backticks_nofuel memo inp lo s : handle_backticks memo inp lo s <> OutOfFuel.
Proof. unfold handle_backticks. cbv zeta. nf. Qed.

Lemma handle_backslash_nofuel o inp s : handle_backslash o inp s <> OutOfFuel.
Proof. unfold handle_backslash. cbv zeta. nf. Qed.

Lemma handle_entity_nofuel inp s : handle_entity inp s <> OutOfFuel.
Proof. unfold handle_entity. cbv zeta. nf. Qed.

Lemma make_autolink_nofuel s url e a b : make_autolink s url e a b <> OutOfFuel.
Proof. unfold make_autolink. nf. Qed.
#[export] Hint Resolve make_autolink_nofuel : nofuel.

Lemma handle_pointy_brace_nofuel inp lo s : handle_pointy_brace inp lo s <> OutOfFuel.
Proof. unfold handle_pointy_brace. cbv zeta. nf. Qed.

Lemma handle_delim_nofuel o u inp s c : handle_delim o u inp s c <> OutOfFuel.
Proof. unfold handle_delim. nf. Qed.

Lemma handle_hyphen_nofuel o inp s : handle_hyphen o inp s <> OutOfFuel.
Proof. unfold handle_hyphen. cbv zeta. nf. Qed.

Lemma handle_period_nofuel o inp s : handle_period o inp s <> OutOfFuel.
Proof. unfold handle_period. cbv zeta. nf. Qed.

(* label_backslash_escapes *)
Lemma lbe_loop_nofuel o s sc0 : forall k rest, List.length rest <= k -> forall offset startpos cur acc,
  lbe_loop o s sc0 rest offset startpos cur acc <> OutOfFuel.
Proof.
  induction k as [|k IH]; intros rest Hk offset startpos cur acc.
  - destruct rest as [|c r]; [|cbn [List.length] in Hk; lia]. cbn [lbe_loop]. nf.
  - destruct rest as [|c r]; [cbn [lbe_loop]; nf|].
    cbn [List.length] in Hk. cbn [lbe_loop].
    destruct r as [|c2 r2]; [apply IH; cbn [List.length]; lia|]. cbn [List.length] in Hk.
    destruct (beqb c x5c && sl_ispunct c2); [|apply IH; cbn [List.length]; lia].
    repeat match goal with
           | |- bind ?r _ <> OutOfFuel =>
             let E := fresh "E" in
             destruct r eqn:E; cbn [bind];
             [ | discriminate | exfalso; generalize E; clear E; change (r <> OutOfFuel); nf ]
           end.
    apply IH. lia.
Qed.

Lemma handle_wikilink_nofuel o inp s : handle_wikilink o inp s <> OutOfFuel.
Proof.
  unfold handle_wikilink. destruct (wikilink_url_link_label o inp (pos s)) as [[[url ll] p']|]; [|discriminate].
  cbv zeta.
  repeat match goal with
         | |- bind ?r _ <> OutOfFuel =>
           let E := fresh "E" in
           destruct r eqn:E; cbn [bind];
           [ | discriminate | exfalso; generalize E; clear E; change (r <> OutOfFuel) ]
         end; try discriminate.
  all: try solve [nf].
  eapply lbe_loop_nofuel. apply Nat.le_refl.
Qed.

Lemma ref_lookup_nofuel refmap maxref s lab : ref_lookup refmap maxref s lab <> OutOfFuel.
Proof. unfold ref_lookup. nf. Qed.
#[export] Hint Resolve ref_lookup_nofuel : nofuel.

Lemma text1_nofuel s c : text1 s c <> OutOfFuel.
Proof. unfold text1, append. cbv zeta. nf. Qed.

(* close_bracket_match: only process_emphasis can run out of fuel *)
Lemma close_bracket_match_nofuel o inp s img url title :
  (forall b, brackets s = b :: tl (brackets s) ->
     forall after_rev bi before_rev, split_at_id (b_id b) (sibs s) = Some (after_rev, bi, before_rev) ->
     process_emphasis o inp (fst (fresh_id s)) (nid (fst (fresh_id s))) (rev after_rev)
       (delims_from (delims s) (b_pos b)) (b_pos b) <> OutOfFuel) ->
  close_bracket_match o inp s img url title <> OutOfFuel.
Proof.
  intro Hpe. unfold close_bracket_match, top_bracket.
  destruct (brackets s) as [|b br] eqn:Eb; cbn [bind]; [discriminate|].
  match goal with |- bind ?r _ <> _ => destruct r as [tmp| |] eqn:Etmp; cbn [bind];
    [| discriminate | exfalso; eapply mk_nofuel; exact Etmp] end.
  destruct (split_at_id (b_id b) (sibs s)) as [[[after_rev bi] before_rev]|] eqn:Es; [|discriminate].
  match goal with |- bind ?r _ <> _ => destruct r as [ecol| |] eqn:Ee; cbn [bind];
    [| discriminate | exfalso; eapply end_col_nofuel; exact Ee] end.
  cbv zeta. specialize (Hpe b eq_refl after_rev bi before_rev Es).
  unfold fresh_id in *. cbn [fst nid set_sibs delims] in *.
  match goal with |- bind ?r _ <> _ => destruct r as [[kids n1]| |] eqn:Ep; cbn [bind];
    [| discriminate | exfalso; apply Hpe; reflexivity] end.
  destruct img; discriminate.
Qed.
