(* Proofs/InertParse2Blocks.v -- property C13, block phase, the two switches Proofs/InertBlocks.v leaves out (Props/C13.v GAP 4):
   bo_spoiler (read by table.rs `row` through scanners::table_cell(s, spoiler)) and bo_front_matter_delimiter (read by the
   feed prologue only).

   1. scan_table_cell s true = scan_table_cell s false on an s without vertical bar.  The two rule blocks differ by the
      alternative table_spoiler = ['|']['|'], which re2c reads as TWO BYTES OF THE CLASS { apostrophe, vertical bar }: it
      matches the four strings  ''  '|  |'  ||.  Without a bar only '' is left, which the third alternative matches as
      well (twice).  The documented trigger (two bars) is NOT enough: scan_table_cell_quote_bar_refuted.
   2. row s sp = row s sp' on such an s.
   3. one chain through the block phase for two option records  bsf sp fm o / bsf sp' fm' o  (same base, the spoiler
      switch and the delimiter replaced): every function that reads neither is equal on both sides; the readers of the
      spoiler switch (check_container on a Table, try_opening_header, try_opening_row) are equal when sp = sp' or when
      the line has no bar and no leaf content of the tree has one (invariant CQ of Proofs/InertParseContent.v: the header
      row is read from the paragraph CONTENT).
   4. parse_blocks: EQUALITY of the two runs (panics included)
        spoiler_blocks_inert          nob x7c x -> parse_blocks (spoiler on) x = parse_blocks (spoiler off) x
        front_matter_blocks_inert     split_off_front_matter x d = Ok None ->
                                      parse_blocks (delimiter Some d) x = parse_blocks (delimiter None) x
        front_matter_blocks_inert_spec / _no_first_line: the same from the line-based specification of Props/C20.v. *)
From Coq Require Import List NArith Arith Bool Lia Strings.String.
From V Require Import Base.Bytes Base.Res Base.Regex Base.Re2c Gen.StrLeafGen Gen.FeedConst Gen.Nodes Gen.BlocksConst
  Gen.ScannersRe Model.Ast Model.Strings
  Model.Scan Model.Feed Model.FrontMatter Spec.LineEndings Spec.FrontMatterSpec Proofs.FrontMatterProofs
  Model.RefDef Model.Blocks Proofs.BlocksProofs Proofs.FeedProofs Proofs.RegexProofs Proofs.ScanProofs Proofs.InertRegex
  Proofs.InertBlocks Proofs.InertParseContent.
From V Require Spec.Triggers Spec.EscapeSpec.
Import ListNotations.
Local Open Scope string_scope.
Local Open Scope list_scope.

(* ================================================================== 1. the two rule blocks of scanners::table_cell *)
Lemma star_rel (P : bytes -> Prop) a b :
  (forall u v, P (u ++ v) -> P u /\ P v) ->
  (forall u, P u -> matches a u -> matches (Star b) u) ->
  forall s, matches (Star a) s -> P s -> matches (Star b) s.
Proof.
  intros Hsplit Hab s H. remember (Star a) as r eqn:Er. revert Er.
  induction H as [| | | | | a0 | a0 u v Hu IHu Hv IHv]; intros Er HP; try discriminate Er.
  - constructor.
  - inversion Er; subst a0. destruct (Hsplit _ _ HP) as [Pu Pv].
    apply matches_Star_app; [apply Hab; assumption | apply IHv; [reflexivity | exact Pv]].
Qed.

Lemma star_plus r p : matches (Star r) p -> p <> [] -> matches (Plus r) p.
Proof.
  intros H Hp. destruct p as [|c s]; [congruence |].
  apply matches_Star_cons in H. destruct H as (s1 & s2 & -> & H1 & H2).
  change (c :: s1 ++ s2) with ((c :: s1) ++ s2). apply matches_Plus. exists (c :: s1), s2. auto.
Qed.

Lemma plus_star r p : matches (Plus r) p -> matches (Star r) p.
Proof. intro H. apply matches_Plus in H. destruct H as (s1 & s2 & -> & H1 & H2). constructor; assumption. Qed.

Lemma plus_nonempty r p : 1 <= min_len r -> matches (Plus r) p -> p <> [].
Proof.
  intros Hm H. apply matches_Plus in H. destruct H as (s1 & s2 & -> & H1 & _).
  apply min_len_le in H1. destruct s1; [cbn in H1; lia | discriminate].
Qed.

Definition cell_alt : re := AltL [re_escaped_char; cls_35].
Definition cell_alt_spoiler : re := AltL [re_escaped_char; re_table_spoiler; cls_35].

Lemma re_table_cell_eq : re_table_cell = Plus cell_alt. Proof. reflexivity. Qed.
Lemma re_table_cell_spoiler_eq : re_table_cell_spoiler = Plus cell_alt_spoiler. Proof. reflexivity. Qed.

Lemma cell_alt_sub u : matches cell_alt u -> matches cell_alt_spoiler u.
Proof.
  unfold cell_alt, cell_alt_spoiler. cbn [AltL]. intro H. apply matches_Alt in H.
  destruct H as [H | H]; [apply MAltL; exact H | apply MAltR, MAltR; exact H].
Qed.

(* the byte class of table_spoiler: apostrophe or bar (the set is taken from the regenerated term) *)
Lemma cls_29_bytes s : matches cls_29 s -> exists b, s = [b] /\ (b = x27 \/ b = x7c).
Proof.
  unfold cls_29. intro H. apply matches_Chr in H. destruct H as (b & -> & M). exists b. split; [reflexivity |].
  revert b M.
  match goal with
  | |- forall b, cs_mem ?cs b = true -> _ =>
    assert (forall b, implb (cs_mem cs b) (beqb b x27 || beqb b x7c) = true) as K
      by (apply forall_bytes; vm_compute; reflexivity)
  end.
  intros b M. specialize (K b). rewrite M in K. cbn [implb] in K. apply orb_true_iff in K.
  destruct K as [K | K]; apply beqb_eq in K; auto.
Qed.

Lemma quote_in_cls_35 : matches cls_35 [x27].
Proof. apply matchb_spec. vm_compute. reflexivity. Qed.

Lemma spoiler_alt_nobar u : nob x7c u -> matches cell_alt_spoiler u -> matches (Star cell_alt) u.
Proof.
  intros Hn H. unfold cell_alt_spoiler in H. cbn [AltL] in H. apply matches_Alt in H. destruct H as [H | H].
  { apply matches_Star_one. unfold cell_alt. cbn [AltL]. apply MAltL. exact H. }
  apply matches_Alt in H. destruct H as [H | H].
  2:{ apply matches_Star_one. unfold cell_alt. cbn [AltL]. apply MAltR. exact H. }
  unfold re_table_spoiler in H. cbn [CatL] in H. apply matches_Cat in H.
  destruct H as (s1 & s2 & -> & H1 & H2).
  apply cls_29_bytes in H1. apply cls_29_bytes in H2.
  destruct H1 as (b1 & -> & M1). destruct H2 as (b2 & -> & M2).
  assert (b1 = x27) as ->.
  { destruct M1 as [-> | ->]; [reflexivity |]. specialize (Hn x7c (or_introl eq_refl)). discriminate Hn. }
  assert (b2 = x27) as ->.
  { destruct M2 as [-> | ->]; [reflexivity |]. specialize (Hn x7c (or_intror (or_introl eq_refl))). discriminate Hn. }
  change ([x27] ++ [x27]) with ([x27] ++ [x27] ++ []).
  constructor; [| constructor; [| constructor]]; unfold cell_alt; cbn [AltL]; apply MAltR; exact quote_in_cls_35.
Qed.

Lemma nob_app_inv t u v : nob t (u ++ v) -> nob t u /\ nob t v.
Proof. intro H. split; intros b Hb; apply H; apply in_or_app; [left | right]; exact Hb. Qed.

Lemma cell_alt_min : 1 <= min_len cell_alt_spoiler.
Proof. vm_compute. lia. Qed.

Theorem table_cell_regex_nobar p : nob x7c p -> (matches re_table_cell_spoiler p <-> matches re_table_cell p).
Proof.
  intro Hn. rewrite re_table_cell_eq, re_table_cell_spoiler_eq. split; intro H.
  - apply star_plus; [| eapply plus_nonempty; [exact cell_alt_min | exact H]].
    apply plus_star in H. revert H Hn. apply (star_rel (nob x7c)); [apply nob_app_inv | apply spoiler_alt_nobar].
  - apply star_plus.
    + apply plus_star in H. revert H. intro H.
      apply (star_rel (fun _ => True) cell_alt cell_alt_spoiler); [tauto | | exact H | exact I].
      intros u _ Hu. apply matches_Star_one, cell_alt_sub, Hu.
    + apply matches_Plus in H. destruct H as (s1 & s2 & -> & H1 & _).
      apply cell_alt_sub in H1. apply min_len_le in H1. pose proof cell_alt_min.
      destruct s1; [cbn in H1; lia | discriminate].
Qed.

Lemma longest_match_ext r1 r2 s :
  (forall m, m <= List.length s -> (matches r1 (firstn m s) <-> matches r2 (firstn m s))) ->
  longest_match r1 s = longest_match r2 s.
Proof.
  intro H. destruct (longest_match r2 s) as [n|] eqn:E.
  - apply longest_match_spec in E. destruct E as (E1 & E2 & E3). apply longest_match_spec.
    split; [exact E1 |]. split; [apply H; assumption |]. intros m Hlt Hle Hm. apply (E3 m Hlt Hle). apply H; assumption.
  - apply longest_match_none. intros m Hm Hc. eapply longest_match_none in E; [apply E | exact Hm]. apply H; assumption.
Qed.

Lemma run_rules_single r a d s :
  run_rules [RPlain r a] d 0 s
  = match longest_match r s with Some n => mkOutcome a n 0 | None => mkOutcome d 1 0 end.
Proof.
  unfold run_rules. cbn [repeat]. rewrite app_nil_r. cbn [pick_rule rule_re].
  destruct (longest_match r s); reflexivity.
Qed.

Theorem scan_table_cell_nobar s sp sp' : nob x7c s -> scan_table_cell s sp = scan_table_cell s sp'.
Proof.
  intro Hn.
  assert (scan_table_cell s true = scan_table_cell s false) as K.
  { unfold scan_table_cell, rules_table_cell_spoiler, rules_table_cell, pad_table_cell_spoiler, pad_table_cell.
    rewrite !run_rules_single.
    rewrite (longest_match_ext re_table_cell_spoiler re_table_cell s); [reflexivity |].
    intros m _. apply table_cell_regex_nobar. apply nob_firstn. exact Hn. }
  destruct sp, sp'; auto.
Qed.

(* the documented trigger (two bars) is not enough: an apostrophe before a bar glues two cells together *)
Definition quote_bar : bytes := [x61; x27; x7c; x62].
Theorem scan_table_cell_quote_bar_refuted :
  Triggers.occurs [x7c; x7c] quote_bar = false /\ scan_table_cell quote_bar true = Some 4 /\ scan_table_cell quote_bar false = Some 2.
Proof. vm_compute. repeat split; reflexivity. Qed.

(* ================================================================== 2. table.rs row *)
Lemma row_loop_nobar s sp sp' : nob x7c s -> forall fuel offset po cells,
  row_loop fuel s sp offset po cells = row_loop fuel s sp' offset po cells.
Proof.
  intros Hn fuel. induction fuel as [|f IH]; intros offset po cells; cbn [row_loop]; [reflexivity |].
  rewrite (scan_table_cell_nobar (skipn offset s) sp sp') by (apply nob_skipn; exact Hn).
  par_with ltac:(apply IH).
Qed.

Theorem row_nobar s sp sp' : nob x7c s -> row s sp = row s sp'.
Proof. intro Hn. unfold row. rewrite (row_loop_nobar s sp sp' Hn). reflexivity. Qed.

(* ================================================================== 3. the two option records *)
Definition bsf (sp : bool) (fm : option bytes) (o : bopts) : bopts :=
  mkBO (bo_table o) (bo_footnotes o) (bo_description_lists o) (bo_multiline_block_quotes o) (bo_alerts o) sp
       (bo_greentext o) (bo_ignore_setext o) fm (bo_default_info_string o) (bo_fold o).

Definition bo_with_spoiler (v : bool) (o : bopts) : bopts := bsf v (bo_front_matter_delimiter o) o.
Definition bo_with_front_matter (d : option bytes) (o : bopts) : bopts := bsf (bo_spoiler o) d o.

Lemma bsf_id o : bsf (bo_spoiler o) (bo_front_matter_delimiter o) o = o.
Proof. destruct o; reflexivity. Qed.

Lemma bsf_table sp fm o : bo_table (bsf sp fm o) = bo_table o. Proof. reflexivity. Qed.
Lemma bsf_footnotes sp fm o : bo_footnotes (bsf sp fm o) = bo_footnotes o. Proof. reflexivity. Qed.
Lemma bsf_description_lists sp fm o : bo_description_lists (bsf sp fm o) = bo_description_lists o. Proof. reflexivity. Qed.
Lemma bsf_multiline_block_quotes sp fm o : bo_multiline_block_quotes (bsf sp fm o) = bo_multiline_block_quotes o. Proof. reflexivity. Qed.
Lemma bsf_alerts sp fm o : bo_alerts (bsf sp fm o) = bo_alerts o. Proof. reflexivity. Qed.
Lemma bsf_spoiler sp fm o : bo_spoiler (bsf sp fm o) = sp. Proof. reflexivity. Qed.
Lemma bsf_greentext sp fm o : bo_greentext (bsf sp fm o) = bo_greentext o. Proof. reflexivity. Qed.
Lemma bsf_ignore_setext sp fm o : bo_ignore_setext (bsf sp fm o) = bo_ignore_setext o. Proof. reflexivity. Qed.
Lemma bsf_front_matter_delimiter sp fm o : bo_front_matter_delimiter (bsf sp fm o) = fm. Proof. reflexivity. Qed.
Lemma bsf_default_info_string sp fm o : bo_default_info_string (bsf sp fm o) = bo_default_info_string o. Proof. reflexivity. Qed.
Lemma bsf_fold sp fm o : bo_fold (bsf sp fm o) = bo_fold o. Proof. reflexivity. Qed.

Ltac bsf_proj :=
  rewrite ?bsf_table, ?bsf_footnotes, ?bsf_description_lists, ?bsf_multiline_block_quotes, ?bsf_alerts,
          ?bsf_spoiler, ?bsf_greentext, ?bsf_ignore_setext, ?bsf_front_matter_delimiter,
          ?bsf_default_info_string, ?bsf_fold.

Create HintDb bsf.
#[export] Hint Resolve unwrap_parent_ext : bsf.
Ltac bsf_leaf := solve [auto 4 with bsf nocore].

Ltac bpar_step :=
  first
  [ same_sides
  | lazymatch goal with
    | |- bind _ _ = bind _ _ => apply bind_ext; [| intro]; lazy beta
    | |- match ?x with _ => _ end = _ => destruct x
    | |- (let _ := _ in _) = _ => lazy zeta
    end
  | bsf_leaf ].

Ltac bpar_with tac := repeat first [ tac | bpar_step ].
Ltac bpar := bpar_with fail.

(* ---- functions that read neither switch *)
Lemma finalize_bsf sp fm sp' fm' o st id :
  finalize (bsf sp fm o) st id = finalize (bsf sp' fm' o) st id.
Proof. reflexivity. Qed.
#[export] Hint Resolve finalize_bsf : bsf.

Lemma add_child_loop_bsf sp fm sp' fm' o fuel : forall st parent k,
  add_child_loop fuel (bsf sp fm o) st parent k = add_child_loop fuel (bsf sp' fm' o) st parent k.
Proof.
  induction fuel as [|fuel IH]; intros; cbn [add_child_loop]; [reflexivity |].
  bpar_with ltac:(apply IH).
Qed.
#[export] Hint Resolve add_child_loop_bsf : bsf.

Lemma add_child_gen_bsf sp fm sp' fm' o st parent v sc post kids :
  add_child_gen (bsf sp fm o) st parent v sc post kids = add_child_gen (bsf sp' fm' o) st parent v sc post kids.
Proof. unfold add_child_gen. bsf_proj. bpar. Qed.
#[export] Hint Resolve add_child_gen_bsf : bsf.

Lemma add_child_bsf sp fm sp' fm' o st parent v sc :
  add_child (bsf sp fm o) st parent v sc = add_child (bsf sp' fm' o) st parent v sc.
Proof. unfold add_child. bsf_proj. bpar. Qed.
#[export] Hint Resolve add_child_bsf : bsf.

Lemma is_not_greentext_bsf sp fm sp' fm' o st line :
  is_not_greentext (bsf sp fm o) st line = is_not_greentext (bsf sp' fm' o) st line.
Proof. reflexivity. Qed.
#[export] Hint Resolve is_not_greentext_bsf : bsf.

Lemma parse_block_quote_prefix_bsf sp fm sp' fm' o st line :
  parse_block_quote_prefix (bsf sp fm o) st line = parse_block_quote_prefix (bsf sp' fm' o) st line.
Proof. reflexivity. Qed.
#[export] Hint Resolve parse_block_quote_prefix_bsf : bsf.

Lemma parse_code_block_prefix_bsf sp fm sp' fm' o st line c cb :
  parse_code_block_prefix (bsf sp fm o) st line c cb = parse_code_block_prefix (bsf sp' fm' o) st line c cb.
Proof. reflexivity. Qed.
#[export] Hint Resolve parse_code_block_prefix_bsf : bsf.

Lemma parse_multiline_block_quote_prefix_bsf sp fm sp' fm' o st line c fl fo :
  parse_multiline_block_quote_prefix (bsf sp fm o) st line c fl fo = parse_multiline_block_quote_prefix (bsf sp' fm' o) st line c fl fo.
Proof. reflexivity. Qed.
#[export] Hint Resolve parse_multiline_block_quote_prefix_bsf : bsf.

Lemma parse_desc_list_details_bsf sp fm sp' fm' o st c matched :
  parse_desc_list_details (bsf sp fm o) st c matched = parse_desc_list_details (bsf sp' fm' o) st c matched.
Proof. unfold parse_desc_list_details. bsf_proj. bpar. Qed.
#[export] Hint Resolve parse_desc_list_details_bsf : bsf.

Lemma handle_blockquote_bsf sp fm sp' fm' o st c line ind :
  handle_blockquote (bsf sp fm o) st c line ind = handle_blockquote (bsf sp' fm' o) st c line ind.
Proof. unfold handle_blockquote. bsf_proj. bpar. Qed.
#[export] Hint Resolve handle_blockquote_bsf : bsf.

Lemma handle_atx_heading_bsf sp fm sp' fm' o st c line ind :
  handle_atx_heading (bsf sp fm o) st c line ind = handle_atx_heading (bsf sp' fm' o) st c line ind.
Proof. unfold handle_atx_heading. bsf_proj. bpar. Qed.
#[export] Hint Resolve handle_atx_heading_bsf : bsf.

Lemma handle_code_fence_bsf sp fm sp' fm' o st c line ind :
  handle_code_fence (bsf sp fm o) st c line ind = handle_code_fence (bsf sp' fm' o) st c line ind.
Proof. unfold handle_code_fence. bsf_proj. bpar. Qed.
#[export] Hint Resolve handle_code_fence_bsf : bsf.

Lemma handle_html_block_bsf sp fm sp' fm' o st c line ind :
  handle_html_block (bsf sp fm o) st c line ind = handle_html_block (bsf sp' fm' o) st c line ind.
Proof. unfold handle_html_block. bsf_proj. bpar. Qed.
#[export] Hint Resolve handle_html_block_bsf : bsf.

Lemma handle_setext_heading_bsf sp fm sp' fm' o st c line ind :
  handle_setext_heading (bsf sp fm o) st c line ind = handle_setext_heading (bsf sp' fm' o) st c line ind.
Proof. reflexivity. Qed.
#[export] Hint Resolve handle_setext_heading_bsf : bsf.

Lemma handle_thematic_break_bsf sp fm sp' fm' o st c line ind am :
  handle_thematic_break (bsf sp fm o) st c line ind am = handle_thematic_break (bsf sp' fm' o) st c line ind am.
Proof. unfold handle_thematic_break. bsf_proj. bpar. Qed.
#[export] Hint Resolve handle_thematic_break_bsf : bsf.

Lemma handle_list_bsf sp fm sp' fm' o st c line ind depth :
  handle_list (bsf sp fm o) st c line ind depth = handle_list (bsf sp' fm' o) st c line ind depth.
Proof. unfold handle_list. bsf_proj. bpar. Qed.
#[export] Hint Resolve handle_list_bsf : bsf.

Lemma handle_code_block_bsf sp fm sp' fm' o st c line ind ml :
  handle_code_block (bsf sp fm o) st c line ind ml = handle_code_block (bsf sp' fm' o) st c line ind ml.
Proof. unfold handle_code_block. bsf_proj. bpar. Qed.
#[export] Hint Resolve handle_code_block_bsf : bsf.

Lemma finalize_up_to_bsf sp fm sp' fm' o fuel : forall st target site,
  finalize_up_to fuel (bsf sp fm o) st target site = finalize_up_to fuel (bsf sp' fm' o) st target site.
Proof.
  induction fuel as [|fuel IH]; intros; cbn [finalize_up_to]; [reflexivity |].
  bpar_with ltac:(apply IH).
Qed.
#[export] Hint Resolve finalize_up_to_bsf : bsf.

Lemma add_text_to_container_bsf sp fm sp' fm' o st c lmc line :
  add_text_to_container (bsf sp fm o) st c lmc line = add_text_to_container (bsf sp' fm' o) st c lmc line.
Proof. unfold add_text_to_container. bsf_proj. bpar. Qed.
#[export] Hint Resolve add_text_to_container_bsf : bsf.

Lemma finalize_document_bsf sp fm sp' fm' o st :
  finalize_document (bsf sp fm o) st = finalize_document (bsf sp' fm' o) st.
Proof. unfold finalize_document. bsf_proj. bpar. Qed.
#[export] Hint Resolve finalize_document_bsf : bsf.
Lemma handle_alert_bsf sp fm sp' fm' o st c line ind :
  handle_alert (bsf sp fm o) st c line ind = handle_alert (bsf sp' fm' o) st c line ind.
Proof. unfold handle_alert. bsf_proj. bpar. Qed.
#[export] Hint Resolve handle_alert_bsf : bsf.

Lemma handle_multiline_blockquote_bsf sp fm sp' fm' o st c line ind :
  handle_multiline_blockquote (bsf sp fm o) st c line ind = handle_multiline_blockquote (bsf sp' fm' o) st c line ind.
Proof. unfold handle_multiline_blockquote. bsf_proj. bpar. Qed.
#[export] Hint Resolve handle_multiline_blockquote_bsf : bsf.

Lemma handle_footnote_bsf sp fm sp' fm' o st c line ind depth :
  handle_footnote (bsf sp fm o) st c line ind depth = handle_footnote (bsf sp' fm' o) st c line ind depth.
Proof. unfold handle_footnote. bsf_proj. bpar. Qed.
#[export] Hint Resolve handle_footnote_bsf : bsf.

Lemma handle_description_list_bsf sp fm sp' fm' o st c line ind :
  handle_description_list (bsf sp fm o) st c line ind = handle_description_list (bsf sp' fm' o) st c line ind.
Proof. unfold handle_description_list. bsf_proj. bpar. Qed.
#[export] Hint Resolve handle_description_list_bsf : bsf.

(* ================================================================== the readers of the spoiler switch *)
Definition Qbar (b : byte) : bool := negb (beqb b x7c).
Lemma Qbar_sp : Qbar x20 = true. Proof. reflexivity. Qed.

Lemma Qbar_nob s : forallb Qbar s = true <-> nob x7c s.
Proof.
  unfold nob, Qbar. rewrite forallb_forall. split; intros H b Hb; specialize (H b Hb).
  - apply negb_true_iff in H. exact H.
  - rewrite H. reflexivity.
Qed.

Lemma bind_ext_ok {A B} (r r' : res A) (k k' : A -> res B) :
  r = r' -> (forall a, r' = Ok a -> k a = k' a) -> bind r k = bind r' k'.
Proof. intros -> H. destruct r' as [a| |]; cbn [bind]; auto. Qed.

Lemma slice_from_nob t site l i r : Blocks.slice_from site l i = Ok r -> nob t l -> nob t r.
Proof.
  unfold Blocks.slice_from. destruct (Nat.ltb _ _); [discriminate |]. intro H. inversion H; subst. apply nob_skipn.
Qed.

Create HintDb cqb.
#[local] Hint Resolve Qbar_sp handle_alert_q handle_mbq_q handle_blockquote_q handle_atx_q handle_code_fence_q
  handle_html_block_q handle_setext_q handle_thematic_break_q handle_footnote_q
  handle_description_list_q handle_list_q handle_code_block_q : cqb.

Section chain2.
Variables sp sp' : bool.
Variables fm fm' : option bytes.
Variable o : bopts.
Let O1 := bsf sp fm o.
Let O2 := bsf sp' fm' o.

(* the line condition and the state condition *)
Definition LK (line : bytes) : Prop := sp = sp' \/ nob x7c line.
Definition SK (st : pstate) : Prop := sp = sp' \/ CQ Qbar st.

Lemma row_LK s : LK s -> row s sp = row s sp'.
Proof. intros [-> | H]; [reflexivity | apply row_nobar; exact H]. Qed.

Lemma LK_slice site line i r : Blocks.slice_from site line i = Ok r -> LK line -> LK r.
Proof. intros H [E | L]; [left; exact E | right; eapply slice_from_nob; eassumption]. Qed.

Lemma check_container_bsf st line c : LK line ->
  check_container O1 st line c = check_container O2 st line c.
Proof.
  intro L. unfold check_container, O1, O2.
  destruct (bval c); try reflexivity.
  bsf_proj. apply bind_ext_ok; [reflexivity |]. intros rest R.
  unfold table_matches. rewrite (row_LK rest); [reflexivity |]. eapply LK_slice; eassumption.
Qed.

Lemma check_open_blocks_inner_bsf line : LK line -> forall fuel st container,
  check_open_blocks_inner fuel O1 st line container = check_open_blocks_inner fuel O2 st line container.
Proof.
  intros L fuel. induction fuel as [|fuel IH]; intros; cbn [check_open_blocks_inner]; [reflexivity |].
  bpar_with ltac:(first [apply IH | apply check_container_bsf; exact L]).
Qed.

Lemma check_open_blocks_bsf st line : LK line -> check_open_blocks O1 st line = check_open_blocks O2 st line.
Proof.
  intro L. unfold check_open_blocks. rewrite (check_open_blocks_inner_bsf line L). reflexivity.
Qed.

Lemma try_opening_row_bsf st c t line : LK line ->
  try_opening_row O1 st c t line = try_opening_row O2 st c t line.
Proof.
  intro L. unfold try_opening_row, O1, O2. bsf_proj.
  destruct (blank st); [reflexivity |]. destruct (_ <? _)%N; [reflexivity |].
  apply bind_ext; [reflexivity |]. intro cn. lazy zeta.
  apply bind_ext_ok; [reflexivity |]. intros rest R.
  rewrite (row_LK rest); [reflexivity |]. eapply LK_slice; eassumption.
Qed.

Lemma try_opening_header_bsf st container line cn : LK line ->
  get st container = Ok cn -> (sp = sp' \/ nob x7c (bi_content (binf cn))) ->
  try_opening_header O1 st container line = try_opening_header O2 st container line.
Proof.
  intros L G HC. unfold try_opening_header, O1, O2. bsf_proj. rewrite G. cbn [bind].
  destruct (bi_tv (binf cn)); [reflexivity |].
  apply bind_ext_ok; [reflexivity |]. intros rest R.
  destruct (scan_table_start rest); [| reflexivity].
  rewrite (row_LK rest) by (eapply LK_slice; eassumption).
  rewrite (row_LK (bi_content (binf cn))) by exact HC.
  reflexivity.
Qed.

Lemma get_paragraph_content st id cn :
  SK st -> get st id = Ok cn -> bval cn = Paragraph -> sp = sp' \/ nob x7c (bi_content (binf cn)).
Proof.
  intros [E | V] G P; [left; exact E | right].
  pose proof (get_q Qbar st id cn V G) as A. apply allq_cq in A.
  apply Qbar_nob. apply (cq_leaf Qbar); [| exact A].
  unfold bval in P. rewrite P. reflexivity.
Qed.

Lemma try_opening_block_bsf st c line : LK line -> SK st ->
  try_opening_block O1 st c line = try_opening_block O2 st c line.
Proof.
  intros L S. unfold try_opening_block.
  destruct (get st c) as [cn| |] eqn:G; cbn [bind]; try reflexivity.
  destruct (bval cn) eqn:Ev; try reflexivity.
  - eapply try_opening_header_bsf; [exact L | exact G |]. eapply get_paragraph_content; eassumption.
  - apply try_opening_row_bsf. exact L.
Qed.

(* ---- the state condition is kept *)
Lemma SK_keep st st' : (CQ Qbar st -> CQ Qbar st') -> SK st -> SK st'.
Proof. intros H [E | V]; [left; exact E | right; apply H; exact V]. Qed.

Lemma SK_line line st st' : LK line -> SK st -> (nob x7c line -> CQ Qbar st -> CQ Qbar st') -> SK st'.
Proof. intros [E | L] [E' | V] H; try (left; assumption). right. apply H; assumption. Qed.

Lemma or_else_h_qb (r : hres) k b c st st' :
  or_else_h r k = Ok (b, c, st') -> CQ Qbar st ->
  (forall b1 c1 s1, r = Ok (b1, c1, s1) -> CQ Qbar st -> CQ Qbar s1) ->
  (forall c1 s1 b2 c2 s2, k c1 s1 = Ok (b2, c2, s2) -> CQ Qbar s1 -> CQ Qbar s2) ->
  CQ Qbar st'.
Proof. apply or_else_h_q. Qed.

Lemma open_new_blocks_step_bsf line st c am ml depth : LK line -> SK st ->
  open_new_blocks_step O1 st c line am ml depth = open_new_blocks_step O2 st c line am ml depth.
Proof.
  intros L S. unfold open_new_blocks_step, O1, O2.
  apply bind_ext_ok; [reflexivity |]. intros st1 F1. lazy zeta.
  assert (S1 : SK st1) by (revert S; apply SK_keep; intro V; eapply (ffn_q Qbar); eassumption).
  apply bind_ext_ok.
  - repeat (apply or_else_h_ext; [bsf_leaf | intros ? ?]). bsf_leaf.
  - intros [[handled c1] s1] R.
    assert (S2 : SK s1).
    { revert S1. apply SK_keep. intro V.
      repeat (eapply (or_else_h_qb _ _ _ _ _ _ R); clear R;
              [ eassumption | intros ? ? ? ? ?; eauto with cqb | intros ? ? ? ? ? R ?; cbv beta in R ]).
      eauto with cqb. }
    clear R. bsf_proj.
    apply bind_ext; [| intro; reflexivity].
    destruct handled; [reflexivity |].
    apply bind_ext; [| intro; reflexivity].
    destruct (negb _ && bo_table o); [| reflexivity].
    apply try_opening_block_bsf; assumption.
Qed.

Lemma open_new_blocks_loop_bsf line : LK line -> forall fuel st c am ml depth, SK st ->
  open_new_blocks_loop fuel O1 st c line am ml depth = open_new_blocks_loop fuel O2 st c line am ml depth.
Proof.
  intros L fuel. induction fuel as [|fuel IH]; intros st c am ml depth S; cbn [open_new_blocks_loop]; [reflexivity |].
  apply bind_ext; [reflexivity |]. intro n.
  destruct (is_code_or_html n); [reflexivity |].
  apply bind_ext_ok; [apply open_new_blocks_step_bsf; assumption |].
  intros [[g c1] s1] R. destruct g; [| reflexivity].
  apply IH. eapply SK_line; [exact L | exact S |]. intros Ln V.
  eapply (open_new_blocks_step_q Qbar); [exact R | apply Qbar_nob; exact Ln | exact V].
Qed.

Lemma open_new_blocks_bsf line st c am : LK line -> SK st ->
  open_new_blocks O1 st c line am = open_new_blocks O2 st c line am.
Proof.
  intros L S. unfold open_new_blocks. apply bind_ext; [reflexivity |]. intro n.
  apply open_new_blocks_loop_bsf; assumption.
Qed.

Lemma process_line_bsf line0 st : LK (norm_line line0) -> SK st ->
  process_line O1 st line0 = process_line O2 st line0.
Proof.
  intros L S. unfold process_line. lazy zeta.
  apply bind_ext_ok; [apply check_open_blocks_bsf; exact L |].
  intros [[[lmc am]|] st1] C; [| reflexivity].
  assert (S1 : SK st1).
  { eapply SK_line; [exact L | exact S |]. intros _ V.
    eapply (check_open_blocks_q Qbar); [exact C |]. exact V. }
  apply bind_ext; [| intro; reflexivity].
  apply bind_ext; [apply open_new_blocks_bsf; assumption |].
  intros [c2 st2]. unfold O1, O2. bpar.
Qed.

Lemma process_lines_bsf ls : (forall l, In l ls -> LK (norm_line l)) -> forall st, SK st ->
  process_lines O1 st ls = process_lines O2 st ls.
Proof.
  induction ls as [|l ls IH]; intros H st S; cbn [process_lines]; [reflexivity |].
  apply bind_ext_ok; [apply process_line_bsf; [apply H; left; reflexivity | exact S] |].
  intros st1 P. apply IH; [intros l' Hl'; apply H; right; exact Hl' |].
  eapply SK_line; [apply (H l); left; reflexivity | exact S |]. intros Ln V.
  eapply (process_line_q Qbar Qbar_sp); [exact P | apply Qbar_nob; exact Ln | exact V].
Qed.

Lemma run_lines_bsf ls : (forall l, In l ls -> LK (norm_line l)) -> forall st, SK st ->
  run_lines O1 st ls = run_lines O2 st ls.
Proof.
  intros H st S. unfold run_lines.
  apply bind_ext; [apply process_lines_bsf; assumption |].
  intro st1. unfold O1, O2. bpar.
Qed.
End chain2.



(* ================================================================== 4. parse_blocks *)
Lemma block_lines_rest o x st rest l :
  front_matter_prologue o init_state x = Ok (st, rest) -> In l (Feed.lines rest) -> block_lines o x l.
Proof. intros E Hl. exists st, rest. split; assumption. Qed.

Lemma plain_7c : plain_trigger x7c. Proof. split; [reflexivity | intros b [<- | [<- | [<- | []]]]; reflexivity]. Qed.

Lemma front_matter_prologue_sp sp sp' fm o st s :
  front_matter_prologue (bsf sp fm o) st s = front_matter_prologue (bsf sp' fm o) st s.
Proof. unfold front_matter_prologue. bsf_proj. bpar. Qed.

(* the spoiler switch, hypothesis on the lines handed to process_line *)
Theorem spoiler_blocks_inert_lines : forall v v' o x,
  (forall l, block_lines o x l -> nob x7c (norm_line l)) ->
  parse_blocks (bo_with_spoiler v o) x = parse_blocks (bo_with_spoiler v' o) x.
Proof.
  intros v v' o x H. unfold bo_with_spoiler, parse_blocks.
  assert (forall w, front_matter_prologue (bsf w (bo_front_matter_delimiter o) o) init_state x
                    = front_matter_prologue o init_state x) as P.
  { intro w. transitivity (front_matter_prologue (bsf (bo_spoiler o) (bo_front_matter_delimiter o) o) init_state x);
      [apply front_matter_prologue_sp | rewrite bsf_id; reflexivity]. }
  rewrite !P.
  destruct (front_matter_prologue o init_state x) as [[st rest]| |] eqn:E; cbn [bind]; try reflexivity.
  pose proof (fun l Hl => H l (block_lines_rest o x st rest l E Hl)) as H'. unfold Feed.lines in H'.
  destruct (feed_lines rest) as [ls total] eqn:F. cbn [fst] in H'.
  apply bind_ext; [| intro; reflexivity].
  apply run_lines_bsf.
  - intros l Hl. right. apply H'. exact Hl.
  - right. eapply (front_matter_prologue_q Qbar); [exact E | apply CQ_init].
Qed.

Theorem spoiler_blocks_inert : forall v v' o x, nob x7c x ->
  parse_blocks (bo_with_spoiler v o) x = parse_blocks (bo_with_spoiler v' o) x.
Proof.
  intros v v' o x H. apply spoiler_blocks_inert_lines. intros l Hl.
  eapply block_lines_nob; [apply plain_7c | exact H | exact Hl].
Qed.

(* the front matter delimiter: nothing but the feed prologue reads it *)
Theorem run_lines_front_matter_blind : forall d d' o st ls,
  run_lines (bo_with_front_matter d o) st ls = run_lines (bo_with_front_matter d' o) st ls.
Proof.
  intros d d' o st ls. unfold bo_with_front_matter. apply run_lines_bsf.
  - intros l _. left. reflexivity.
  - left. reflexivity.
Qed.

Theorem front_matter_prologue_none : forall d o st x,
  split_off_front_matter x d = Ok None ->
  front_matter_prologue (bo_with_front_matter (Some d) o) st x = Ok (st, x).
Proof.
  intros d o st x H. unfold front_matter_prologue, bo_with_front_matter. bsf_proj. rewrite H. reflexivity.
Qed.

Theorem front_matter_blocks_inert : forall d o x,
  split_off_front_matter x d = Ok None ->
  parse_blocks (bo_with_front_matter (Some d) o) x = parse_blocks (bo_with_front_matter None o) x.
Proof.
  intros d o x H. unfold parse_blocks. rewrite (front_matter_prologue_none d o init_state x H).
  assert (front_matter_prologue (bo_with_front_matter None o) init_state x = Ok (init_state, x)) as -> by reflexivity.
  cbn [bind].
  destruct (feed_lines x) as [ls total].
  rewrite (run_lines_front_matter_blind (Some d) None). reflexivity.
Qed.

(* ---- when does the splitter answer None.
   (a) by the line-based specification (Props/C20.v C20_split_vs_spec: on every Rust str the splitter IS spec_split):
       the first line of the document (after the byte order mark) is not exactly the delimiter, or is not terminated *)
Definition first_line_is (d x : bytes) : bool :=
  match lines (strip_bom x) with
  | (c0, e0) :: _ => bytes_eqb c0 d && terminated e0
  | [] => false
  end.

Lemma spec_split_first_line d x : first_line_is d x = false -> spec_split x d = None.
Proof.
  unfold first_line_is, spec_split, spec_split_gen. intro H.
  destruct (negb (delim_ok d)); [reflexivity |].
  destruct (lines (strip_bom x)) as [|[c0 e0] ls]; [reflexivity |]. rewrite H. reflexivity.
Qed.

Theorem front_matter_blocks_inert_spec : forall d o x,
  EscapeSpec.utf8_valid x = true -> delim_ok d = true -> spec_split x d = None ->
  parse_blocks (bo_with_front_matter (Some d) o) x = parse_blocks (bo_with_front_matter None o) x.
Proof.
  intros d o x U D S. apply front_matter_blocks_inert. rewrite (split_vs_spec x d U D), S. reflexivity.
Qed.

Theorem front_matter_blocks_inert_first_line : forall d o x,
  EscapeSpec.utf8_valid x = true -> delim_ok d = true -> first_line_is d x = false ->
  parse_blocks (bo_with_front_matter (Some d) o) x = parse_blocks (bo_with_front_matter None o) x.
Proof. intros d o x U D F. apply front_matter_blocks_inert_spec; [exact U | exact D | apply spec_split_first_line; exact F]. Qed.

(* (b) on arbitrary bytes, from the model alone: some byte of the delimiter does not occur in the document (the splitter
   may panic on input that is not UTF-8: okle) *)
Lemma fm_line_at_In s l n b : fm_line_at s 0 = Ok (l, n) -> In b l -> In b s.
Proof.
  unfold fm_line_at. intros H Hb.
  destruct (byte_slice_from s _) as [tail| |]; cbn [bind] in H; try discriminate H.
  destruct (fm_slice s 0 _) as [line| |] eqn:E; cbn [bind] in H; try discriminate H.
  inversion H; subst. unfold fm_slice in E.
  match type of E with (if ?c then _ else _) = _ => destruct c; [| discriminate E] end.
  inversion E; subst. cbn [skipn] in Hb. eapply firstn_In'. exact Hb.
Qed.

Lemma trim_start_match_In s p b : In b (trim_start_match s p) -> In b s.
Proof.
  unfold trim_start_match, strip_prefix. destruct (starts_with s p); [apply skipn_In | exact (fun H => H)].
Qed.

Lemma split_none_missing_byte x d t r :
  In t d -> nob t x -> split_off_front_matter x d = Ok r -> r = None.
Proof.
  intros Ht Hx H. unfold split_off_front_matter in H.
  destruct (fm_line_at (trim_start_match x fm_bom) 0) as [[l n]| |] eqn:E; cbn [bind] in H; try discriminate H.
  cbn [fst snd] in H.
  destruct (bytes_eqb l d) eqn:B.
  - exfalso. apply bytes_eqb_eq in B. subst l.
    assert (In t x) as K by (eapply trim_start_match_In, fm_line_at_In; eassumption).
    specialize (Hx t K). rewrite beqb_refl in Hx. discriminate Hx.
  - cbn [negb orb] in H. inversion H. reflexivity.
Qed.

Theorem front_matter_blocks_inert_missing_byte : forall d t o x,
  In t d -> nob t x ->
  okle (parse_blocks (bo_with_front_matter (Some d) o) x) (parse_blocks (bo_with_front_matter None o) x).
Proof.
  intros d t o x Ht Hx r H.
  destruct (split_off_front_matter x d) as [sp| |] eqn:S.
  - pose proof (split_none_missing_byte x d t sp Ht Hx S) as ->.
    rewrite <- (front_matter_blocks_inert d o x S). exact H.
  - unfold parse_blocks, front_matter_prologue, bo_with_front_matter in H. revert H. bsf_proj. rewrite S. discriminate.
  - unfold parse_blocks, front_matter_prologue, bo_with_front_matter in H. revert H. bsf_proj. rewrite S. discriminate.
Qed.

(* ================================================================== non-vacuity *)
Definition o_table : bopts := mkBO true false false false false false false false None None (fun x => x).
(* a table without any bar (one column): both runs agree; with an apostrophe before a bar the spoiler switch changes
   the block structure although the document has no double bar (finding: class spoiler_quote_bar) *)
Definition doc_one_column : bytes := [x61; x0a; x3a; x2d; x0a; x62; x0a].
Definition doc_quote_bar : bytes := [x61; x27; x7c; x62; x0a; x2d; x7c; x2d; x0a].

Example spoiler_blocks_nonvacuous :
  (nob x7c doc_one_column /\
   res_map (fun r => kinds (br_root r)) (parse_blocks (bo_with_spoiler true o_table) doc_one_column)
   = Ok [KDocument; KTable; KTableRow; KTableCell; KTableRow; KTableCell]) /\
  (Triggers.occurs [x7c; x7c] doc_quote_bar = false /\
   res_map (fun r => kinds (br_root r)) (parse_blocks (bo_with_spoiler true o_table) doc_quote_bar) = Ok [KDocument; KParagraph] /\
   res_map (fun r => kinds (br_root r)) (parse_blocks (bo_with_spoiler false o_table) doc_quote_bar)
   = Ok [KDocument; KTable; KTableRow; KTableCell; KTableCell]).
Proof.
  split; [split; [apply nob_dec_true; vm_compute; reflexivity | vm_compute; reflexivity] |].
  vm_compute. repeat split; reflexivity.
Qed.

Definition fm_doc : bytes := [x2d; x2d; x2d; x0a; x61; x0a; x2d; x2d; x2d; x0a; x62; x0a].
Example front_matter_blocks_nonvacuous :
  res_map (fun r => kinds (br_root r)) (parse_blocks (bo_with_front_matter (Some [x2d; x2d; x2d]) o_plain) fm_doc)
  = Ok [KDocument; KFrontMatter; KParagraph] /\
  res_map (fun r => kinds (br_root r)) (parse_blocks (bo_with_front_matter None o_plain) fm_doc)
  <> Ok [KDocument; KFrontMatter; KParagraph] /\
  first_line_is [x2d; x2d; x2d] [x61; x0a; x2d; x2d; x2d; x0a] = false.
Proof. vm_compute. repeat split; try reflexivity. intro H; discriminate H. Qed.
