(* Proofs/InlinesTotal.v — progress and totality of the inline phase (C01, inline half).

   PROVED here (all options, all inputs):
   * every call of parse_inline that answers true moves `pos` forward (parse_inline_advances_all; the autolink arms
     are in InlinesTotalAutolink.v), so the fuel |input| + 1 of the main loop is never exhausted by the loop itself
     (inline_loop_fuel_all);
   * the bounded inner loops never exhaust the fuel their callers give them (InlinesTotalFuel.v), so handle_dollars
     and handle_autolink_with never answer OutOfFuel (handle_dollars_fuel, handle_autolink_with_fuel);
   * the opener search of process_emphasis returns a split of the part of the stack it was given
     (find_opener_inside): the positions it uses are inside the stack;
   * the local arithmetic of handle_backticks cannot fail (backticks_local_sites): a closer the scan reports lies
     after the opening run and inside the input, so none of its five subtractions / slices panics;
   * the model reproduces finding C01-a: the inline pipeline of one block (parse, footnote resolution, text
     post-processing) PANICS on a footnote reference that spans a line break (pipeline_total_refuted_lemma).

   NOT proved (statements kept in Props/Inlines.v): absence of Panic for the whole phase (the source-position
   arithmetic of make_inline / adjust_node_newlines / insert_emph needs an invariant that ties column_offset and
   the sibling nodes' positions to `pos`; the delimiter stack needs: every delimiter's node is a Text sibling with
   a unique id whose text is d_len copies of d_char), and the fuel of pe_loop (needs: the texts of the delimiter
   nodes at or above the closer have at most 2 |input| bytes in total). *)
From Coq Require Import List NArith ZArith Bool Strings.String Lia.
From V Require Import Base.Bytes Base.Res Gen.StrLeafGen Gen.Consts Gen.Special Model.Special
     Model.Scan Model.Strings Model.Entity Model.LinkUrl Model.AutolinkLeaf Model.Spx Model.Ast Model.Inlines
     Proofs.InlinesProofs Proofs.InlinesTotalAutolink Proofs.InlinesMemo Proofs.InlinesTotalFuel.
Import ListNotations.
Local Open Scope list_scope.

(* ------------------------------------------------------------------ progress of the main loop *)
Theorem parse_inline_advances_all memo o u inp lo sl refmap maxref s s' :
  parse_inline memo o u inp lo sl refmap maxref s = Ok (Some s') -> pos s < pos s'.
Proof.
  intro H. apply parse_inline_cases in H.
  destruct H as [[Hb (off & s2 & n & A & ->)]|[_ K]]; [|exact K].
  unfold bq in Hb. destruct (nth_error inp (pos s)) as [c|] eqn:Ec; [|discriminate].
  eapply adv_backticks in A; [|cbn [pos set_lineoff]; exact Ec|exact Hb].
  cbn [push_item fst pos set_sibs set_lineoff] in *. exact A.
Qed.

Theorem inline_loop_fuel_all memo o u inp lo sl refmap maxref :
  forall fuel s, List.length inp - pos s < fuel ->
    inline_loop memo o u inp lo sl refmap maxref fuel s = OutOfFuel ->
    exists s', parse_inline memo o u inp lo sl refmap maxref s' = OutOfFuel.
Proof.
  induction fuel as [|f IH]; intros s Hf H; [lia|].
  simpl in H. destruct (parse_inline memo o u inp lo sl refmap maxref s) as [[s'|]| |] eqn:E; cbn [bind] in H; try discriminate.
  - pose proof (parse_inline_advances_all _ _ _ _ _ _ _ _ _ _ E).
    pose proof (parse_inline_some_lt _ _ _ _ _ _ _ _ _ _ E).
    apply (IH s'); [lia|exact H].
  - eauto.
Qed.

Theorem inlines_loop_total_lemma memo o u inp lo sl refmap maxref rs0 :
  inline_loop memo o u inp lo sl refmap maxref (S (List.length inp)) (init_st sl rs0) = OutOfFuel ->
  exists s', parse_inline memo o u inp lo sl refmap maxref s' = OutOfFuel.
Proof.
  intro H. eapply inline_loop_fuel_all; [|exact H]. cbn [pos init_st]. lia.
Qed.

(* the number of iterations of the main loop is at most the number of bytes: with fuel f >= |input| - pos + 1 the
   loop gives the same answer as with any larger fuel (the fuel is not observable) *)
Theorem inline_loop_fuel_irrelevant memo o u inp lo sl refmap maxref :
  forall f1 f2 s r, inline_loop memo o u inp lo sl refmap maxref f1 s = Ok r -> f1 <= f2 ->
    inline_loop memo o u inp lo sl refmap maxref f2 s = Ok r.
Proof.
  induction f1 as [|f IH]; intros f2 s r H Hle; [discriminate|].
  destruct f2 as [|g]; [lia|]. simpl in *.
  destruct (parse_inline memo o u inp lo sl refmap maxref s) as [[s'|]| |]; cbn [bind] in *; try discriminate; auto.
  apply IH; [exact H|lia].
Qed.

(* ------------------------------------------------------------------ inner loops *)
Theorem handle_dollars_fuel o inp lo s : handle_dollars o inp lo s <> OutOfFuel.
Proof.
  unfold handle_dollars.
  destruct (negb (io_math_dollars o || io_math_code o)).
  { unfold mk, make_inline_cols, to_usize. repeat match goal with |- context [if ?b then _ else _] => destruct b end; cbn [bind]; discriminate. }
  cbv zeta.
  match goal with |- bind ?r _ <> _ => destruct r as [e0| |] eqn:E0 end; cbn [bind]; [|discriminate|].
  2:{ exfalso. match type of E0 with (if ?b then _ else _) = _ => destruct b end.
      - eapply stccd_loop_fuel; [|exact E0]. lia.
      - eapply scan_to_closing_dollar_fuel; exact E0. }
  match goal with |- match ?e with _ => _ end <> _ => destruct e as [endpos|] end.
  - unfold usub, slice, mk, make_inline_cols, to_usize, adjust_node_newlines, usub, nsub, slice.
    repeat match goal with
           | |- context [if ?b then _ else _] => destruct b; cbn [bind]
           | |- bind ?r _ <> _ => destruct r eqn:?; cbn [bind]; try discriminate
           | |- (let (_, _) := ?x in _) <> _ => destruct x
           | |- match ?x with _ => _ end <> _ => destruct x; cbn [bind]; try discriminate
           end; try discriminate.
    all: match goal with E : normalize_code _ = OutOfFuel |- _ => unfold normalize_code in E end.
    all: repeat match goal with
           | E : (if ?b then _ else _) = OutOfFuel |- _ => destruct b
           | E : match ?x with _ => _ end = OutOfFuel |- _ => destruct x
           | E : Ok _ = OutOfFuel |- _ => discriminate E
           | E : Panic _ = OutOfFuel |- _ => discriminate E
           end.
  - unfold usub, mk, make_inline_cols, to_usize.
    repeat match goal with
           | |- context [if ?b then _ else _] => destruct b; cbn [bind]
           end; try discriminate.
Qed.

(* ------------------------------------------------------------------ the opener search stays inside the stack *)
Theorem find_opener_inside c bottom : forall below between_rev mod3 between op rest m,
  find_opener c bottom below between_rev mod3 = (Some (between, op, rest), m) ->
  rev between_rev ++ below = between ++ op :: rest.
Proof.
  induction below as [|d below IH]; intros between_rev mod3 between op rest m H; simpl in H; [discriminate|].
  destruct (Nat.leb bottom (d_pos d)); [|discriminate].
  destruct (d_open d && beqb (d_char d) (d_char c)).
  - destruct (negb _).
    + inversion H; subst. reflexivity.
    + apply IH in H. cbn [rev] in H. rewrite <- app_assoc in H. exact H.
  - apply IH in H. cbn [rev] in H. rewrite <- app_assoc in H. exact H.
Qed.

(* the opener it reports can open, has the closer's character and lies at or above the bottom *)
Theorem find_opener_props c bottom : forall below between_rev mod3 between op rest m,
  find_opener c bottom below between_rev mod3 = (Some (between, op, rest), m) ->
  d_open op = true /\ beqb (d_char op) (d_char c) = true /\ bottom <= d_pos op.
Proof.
  induction below as [|d below IH]; intros between_rev mod3 between op rest m H; simpl in H; [discriminate|].
  destruct (Nat.leb bottom (d_pos d)) eqn:El; [|discriminate].
  destruct (d_open d && beqb (d_char d) (d_char c)) eqn:Eo.
  - destruct (negb _).
    + inversion H; subst. apply andb_prop in Eo. destruct Eo. apply Nat.leb_le in El. auto.
    + eapply IH; exact H.
  - eapply IH; exact H.
Qed.

(* ------------------------------------------------------------------ handle_backticks: the local sites *)
Lemma stcb_loop_le_len inp rest : forall p run otl fr b e b' sc,
  rest = skipn p inp -> p <= List.length inp ->
  stcb_loop rest p run otl fr b = (Some e, b', sc) -> e <= List.length inp.
Proof.
  induction rest as [|c r IH]; intros p run otl fr b e b' sc Hr Hp H; simpl in H.
  - destruct run; [discriminate|]. destruct (Nat.eqb (S run) otl); inversion H; subst; lia.
  - symmetry in Hr. pose proof (skipn_cons_nth inp p c r Hr) as [Hn Hr2].
    assert (p < List.length inp) as Hlt by (apply nth_error_Some; congruence).
    symmetry in Hr2.
    destruct (beqb c x60); [eapply IH; [exact Hr2| |exact H]; lia|].
    destruct run; [eapply IH; [exact Hr2| |exact H]; lia|].
    destruct (Nat.eqb (S run) otl); [inversion H; subst; lia|eapply IH; [exact Hr2| |exact H]; lia].
Qed.

(* when the scan reports a closer for the run of otl >= 1 backticks that ends at p1:
   p1 + otl < endpos <= |input| *)
Theorem backticks_closer_bounds memo inp s otl e s2 :
  bq inp (pos s) = false -> pos s <= List.length inp ->
  scan_to_closing_backtick memo inp s otl = (Some e, s2) ->
  pos s + otl < e /\ e <= List.length inp.
Proof.
  intros Hb Hp H. unfold scan_to_closing_backtick in H.
  destruct (Nat.ltb maxbt otl); [inversion H|].
  destruct (_ && _ && _); [inversion H|].
  destruct (stcb_loop _ _ _ _ _ _) as [[r b'] sc] eqn:El. inversion H; subst. clear H.
  split.
  - apply stcb_found0 in El; [|exact Hb]. destruct El as [(R1 & _) Hlt]. lia.
  - eapply stcb_loop_le_len; [reflexivity|exact Hp|exact El].
Qed.

(* the five local sites of handle_backticks are unreachable: a Panic of handle_backticks comes from make_inline,
   normalize_code or adjust_node_newlines *)
Definition backticks_local_site (site : string) : bool :=
  String.eqb site "inlines.rs:handle_backticks:pos-1" || String.eqb site "inlines.rs:handle_backticks:endpos-openticks"
  || String.eqb site "inlines.rs:handle_backticks:buf" || String.eqb site "inlines.rs:handle_backticks:endpos-1"
  || String.eqb site "inlines.rs:handle_backticks:matchlen".

Lemma count_eq_le inp c p : p + count_eq inp c p <= Nat.max p (List.length inp).
Proof.
  unfold count_eq. pose proof (count_while_b_le (beqb c) (skipn p inp)) as H. rewrite skipn_length in H. lia.
Qed.

Theorem backticks_local_sites memo inp lo s c site :
  nth_error inp (pos s) = Some c -> beqb c x60 = true ->
  handle_backticks memo inp lo s = Panic site -> backticks_local_site site = false.
Proof.
  intros Ec Hc H. unfold handle_backticks in H.
  pose proof (count_eq_pos inp x60 (pos s) c Ec Hc) as Hn.
  assert (pos s < List.length inp) as Hlt by (apply nth_error_Some; congruence).
  pose proof (count_eq_le inp x60 (pos s)) as Hle.
  set (otl := count_eq inp x60 (pos s)) in *.
  destruct (scan_to_closing_backtick memo inp (set_pos s (pos s + otl)) otl) as [e s2] eqn:Es.
  destruct e as [endpos|].
  - apply backticks_closer_bounds in Es; [|cbn [pos set_pos]; apply count_eq_stop; reflexivity|cbn [pos set_pos]; lia].
    cbn [pos set_pos] in Es. destruct Es as [B1 B2].
    unfold usub in H.
    assert (Nat.ltb endpos otl = false) as Hx by (apply Nat.ltb_ge; lia); rewrite Hx in H; clear Hx. cbn [bind] in H.
    unfold slice in H.
    assert (Nat.ltb (endpos - otl) (pos s + otl) || Nat.ltb (len inp) (endpos - otl) = false) as Hx.
    { apply orb_false_iff. split; apply Nat.ltb_ge; unfold len; lia. }
    rewrite Hx in H; clear Hx.
    cbn [bind] in H.
    destruct (normalize_code _) as [code|site'|] eqn:En; cbn [bind] in H; [|inversion H; subst|discriminate].
    2:{ unfold normalize_code in En.
        repeat match type of En with
               | (if ?b then _ else _) = _ => destruct b
               | match ?x with _ => _ end = _ => destruct x
               | Ok _ = Panic _ => discriminate En
               end; inversion En; reflexivity. }
    assert (Nat.ltb endpos 1 = false) as Hx by (apply Nat.ltb_ge; lia); rewrite Hx in H; clear Hx. cbn [bind] in H.
    destruct (mk _ _ _ _) as [n|site'|] eqn:Em; cbn [bind] in H; [|inversion H; subst|discriminate].
    2:{ unfold mk, make_inline_cols, to_usize in Em.
        repeat match type of Em with
               | context [if ?b then _ else _] => destruct b; cbn [bind] in Em
               end; try discriminate Em; inversion Em; reflexivity. }
    assert (Nat.ltb (endpos - pos s) otl = false) as Hx by (apply Nat.ltb_ge; lia); rewrite Hx in H; clear Hx. cbn [bind] in H.
    unfold adjust_node_newlines, usub, nsub, slice in H.
    repeat match type of H with
           | context [if ?b then _ else _] => destruct b; cbn [bind] in H
           | (let (_, _) := ?x in _) = _ => destruct x
           | match ?x with _ => _ end = _ => destruct x; cbn [bind] in H
           end; try discriminate H; inversion H; reflexivity.
  - cbn [pos set_pos] in H. unfold usub in H.
    assert (Nat.ltb (pos s + otl) 1 = false) as Hx by (apply Nat.ltb_ge; lia); rewrite Hx in H; clear Hx. cbn [bind] in H.
    unfold mk, make_inline_cols, to_usize in H.
    repeat match type of H with
           | context [if ?b then _ else _] => destruct b; cbn [bind] in H
           end; try discriminate H; inversion H; reflexivity.
Qed.

(* ------------------------------------------------------------------ finding C01-a in the model *)
(* the pipeline of one block as the tie runs it: inline phase, footnote resolution against the registered
   definitions, text post-processing (e-mail autolinks, task list) *)
Definition block_pipeline (o : iopts) (u : oracle) (content : bytes) (lo : list N) (sl : N) (defs : list bytes)
  : res (list node * option tl_effect) :=
  do r <- run_inlines o u content lo sl [] 100000%N 0%N;
  match r with
  | Done ch _ => postprocess_block o None (map (fn_resolve (u_fold u) defs) ch)
  | OutOfScope w => Ok ([], None)
  end.

Definition pipeline_total_full_statement : Prop :=
  forall o u content lo sl defs site,
    has_nul content = false -> rtrim_slice content = content ->
    List.length (filter (beqb x0a) content) < List.length lo ->
    block_pipeline o u content lo sl defs <> Panic site.

(* [^-@.c NEWLINE ] with autolink, footnotes, relaxed_autolinks *)
Definition io_c01a : iopts :=
  mkIO true false false false false false false false false false true false false true false false false.
Definition c01a_witness : bytes := [x5b; x5e; x2d; x40; x2e; x63; x0a; x5d].

Lemma c01a_values :
  run_inlines io_c01a oracle_ascii c01a_witness [0%N; 0%N] 1%N [] 100000%N 0%N
  = Ok (Done [Node (FootnoteReference [x2d; x40; x2e; x63] 0 0) (mkSp 2 1 2 1) [];
              Node SoftBreak (mkSp 1 7 1 7) []] 0%N)
  /\ block_pipeline io_c01a oracle_ascii c01a_witness [0%N; 0%N] 1%N [] = Panic site_assert.
Proof. split; vm_compute; reflexivity. Qed.

Theorem pipeline_total_refuted_lemma : ~ pipeline_total_full_statement.
Proof.
  intro H. apply (H io_c01a oracle_ascii c01a_witness [0%N; 0%N] 1%N [] site_assert); vm_compute; try reflexivity; lia.
Qed.

Theorem autolink_url_fuel_lemma o u inp s : handle_autolink_with o s (url_match o u inp) <> OutOfFuel.
Proof. apply handle_autolink_with_fuel. exact (url_match_fuel o u inp). Qed.

Theorem autolink_www_fuel_lemma o u inp s : handle_autolink_with o s (www_match o u inp) <> OutOfFuel.
Proof. apply handle_autolink_with_fuel. exact (www_match_fuel o u inp). Qed.

Theorem inlines_total_partial_lemma memo o u inp lo sl refmap maxref rs0 :
  io_autolink o = false ->
  inline_loop memo o u inp lo sl refmap maxref (S (List.length inp)) (init_st sl rs0) = OutOfFuel ->
  exists s', parse_inline memo o u inp lo sl refmap maxref s' = OutOfFuel.
Proof. intros _. apply inlines_loop_total_lemma. Qed.
