(* Proofs/ParserShapeTree.v — tree-level facts about the arena primitives of Model/Blocks.v (find_node, upd,
   edit_kids) needed for the table clause s3:
     * identifiers: `ids`, counted with `cnt` (count_occ) so that every rearrangement is linear arithmetic;
       under pairwise distinct identifiers find_node returns THE node with the identifier, and edit_kids edits
       the child list that holds it;
     * `btab`: the table shape, top down, every parent looking at its children only through their signature
       `tsig` (header / body row with its number of cells, cell, anything else), and how upd / edit_kids
       preserve it;
     * btab of a tree whose root is no row / cell gives Spec.Valid.tables_ok of the public tree. *)
From Coq Require Import List NArith Arith Bool Lia.
From V Require Import Base.Bytes Base.Res Gen.Nodes Model.Ast Model.Blocks Spec.Shape Spec.Valid
  Proofs.BlocksProofs Proofs.ParserShapeBlocks.
Import ListNotations.
Local Open Scope list_scope.

(* ================================================================== identifiers *)
Fixpoint ids (t : bnode) : list nat := match t with BNode i ch => bi_id i :: flat_map ids ch end.
Fixpoint bsub (t : bnode) : list bnode := match t with BNode i ch => t :: flat_map bsub ch end.

Definition cnt (x : nat) (l : list nat) : nat := count_occ Nat.eq_dec l x.
Definition one (i x : nat) : nat := if Nat.eq_dec i x then 1 else 0.

Lemma cnt_nil x : cnt x [] = 0. Proof. reflexivity. Qed.
Lemma cnt_cons x i l : cnt x (i :: l) = one i x + cnt x l.
Proof. unfold cnt, one. cbn [count_occ]. destruct (Nat.eq_dec i x); reflexivity. Qed.
Lemma cnt_app x a b : cnt x (a ++ b) = cnt x a + cnt x b.
Proof. unfold cnt. apply count_occ_app. Qed.
Lemma one_same i : one i i = 1.
Proof. unfold one. destruct (Nat.eq_dec i i); [reflexivity | congruence]. Qed.
Lemma one_le i x : one i x <= 1.
Proof. unfold one. destruct (Nat.eq_dec i x); lia. Qed.
Lemma one_pos i x : 1 <= one i x -> i = x.
Proof. unfold one. destruct (Nat.eq_dec i x); [auto | lia]. Qed.
Lemma cnt_in x l : 1 <= cnt x l <-> In x l.
Proof. unfold cnt. split; intro H; [apply (count_occ_In Nat.eq_dec); lia | apply (count_occ_In Nat.eq_dec) in H; lia]. Qed.

Definition fids (l : list bnode) : list nat := flat_map ids l.
Lemma ids_node i ch : ids (BNode i ch) = bi_id i :: fids ch. Proof. reflexivity. Qed.
Lemma fids_cons c r : fids (c :: r) = ids c ++ fids r. Proof. reflexivity. Qed.
Lemma fids_app a b : fids (a ++ b) = fids a ++ fids b. Proof. unfold fids. apply flat_map_app. Qed.
Lemma fids_nil : fids [] = []. Proof. reflexivity. Qed.

Ltac cnt_norm := repeat rewrite ?ids_node, ?fids_cons, ?fids_app, ?fids_nil, ?cnt_cons, ?cnt_app, ?cnt_nil, ?app_nil_r in *.

Lemma bsub_self t : In t (bsub t). Proof. destruct t. left. reflexivity. Qed.

Lemma bsub_kid c i ch x : In x ch -> In c (bsub x) -> In c (bsub (BNode i ch)).
Proof. intros Hx Hc. cbn [bsub]. right. apply in_flat_map. eauto. Qed.

Lemma bsub_cnt : forall t c, In c (bsub t) -> 1 <= cnt (bid c) (ids t).
Proof.
  induction t as [i ch IH] using bnode_ind2. intros c Hc. cbn [bsub] in Hc. destruct Hc as [<-|Hc].
  - unfold bid. cbn [binf]. cnt_norm. rewrite one_same. lia.
  - apply in_flat_map in Hc. destruct Hc as [x [Hx Hc]]. rewrite Forall_forall in IH. specialize (IH x Hx c Hc).
    cnt_norm. apply in_split in Hx. destruct Hx as [l1 [l2 ->]]. cnt_norm. lia.
Qed.

Lemma find_node_sub id : forall t n, find_node id t = Some n -> bid n = id /\ In n (bsub t).
Proof.
  induction t as [i ch IH] using bnode_ind2. intros n F. cbn [find_node] in F.
  destruct (Nat.eqb (bi_id i) id) eqn:E.
  { inversion F; subst. split; [apply Nat.eqb_eq in E; exact E | apply bsub_self]. }
  assert (exists x, In x ch /\ find_node id x = Some n) as [x [Hx Fx]].
  { clear IH E. induction ch as [|c r IHr]; [discriminate|].
    destruct (find_node id c) eqn:Ec.
    - inversion F; subst. exists c. split; [left; reflexivity | exact Ec].
    - destruct (IHr F) as [x [Hx Fx]]. exists x. split; [right; exact Hx | exact Fx]. }
  rewrite Forall_forall in IH. destruct (IH x Hx n Fx) as [A B]. split; [exact A | eapply bsub_kid; eassumption].
Qed.

Lemma find_node_cnt id t n : find_node id t = Some n -> 1 <= cnt id (ids t).
Proof. intro F. destruct (find_node_sub _ _ _ F) as [A B]. rewrite <- A. now apply bsub_cnt. Qed.

(* pairwise distinct identifiers: find_node returns the node itself *)
Lemma find_node_unique : forall t c,
  (forall x, cnt x (ids t) <= 1) -> In c (bsub t) -> find_node (bid c) t = Some c.
Proof.
  induction t as [i ch IH] using bnode_ind2. intros c U Hc. cbn [bsub] in Hc. destruct Hc as [<-|Hc].
  { cbn [find_node]. unfold bid. cbn [binf]. now rewrite Nat.eqb_refl. }
  apply in_flat_map in Hc. destruct Hc as [x [Hx Hc]].
  pose proof (U (bid c)) as Uc. cnt_norm.
  assert (Hk : 1 <= cnt (bid c) (fids ch)).
  { pose proof (bsub_cnt _ _ Hc) as B. apply in_split in Hx. destruct Hx as [l1 [l2 ->]]. cnt_norm. lia. }
  cbn [find_node]. destruct (Nat.eqb (bi_id i) (bid c)) eqn:E.
  { apply Nat.eqb_eq in E. rewrite E, one_same in Uc. lia. }
  assert (Uk : forall y, cnt y (fids ch) <= 1) by (intro y; specialize (U y); cnt_norm; lia).
  clear U Uc Hk E. revert Uk. induction ch as [|y r IHr]; intro Uk; [destruct Hx|].
  inversion IH as [|? ? IHy IHrest]; subst.
  assert (Uy : forall z, cnt z (ids y) <= 1) by (intro z; specialize (Uk z); cnt_norm; lia).
  assert (Ur : forall z, cnt z (fids r) <= 1) by (intro z; specialize (Uk z); cnt_norm; lia).
  destruct (find_node (bid c) y) as [n|] eqn:Fy.
  - (* the identifier occurs in y: then c is in y *)
    destruct Hx as [<-|Hx]; [rewrite (IHy c Uy Hc) in Fy; symmetry; exact Fy|].
    exfalso. pose proof (find_node_cnt _ _ _ Fy) as A.
    assert (B : 1 <= cnt (bid c) (fids r)).
    { pose proof (bsub_cnt _ _ Hc) as B. apply in_split in Hx. destruct Hx as [l1 [l2 ->]]. cnt_norm. lia. }
    specialize (Uk (bid c)). cnt_norm. lia.
  - destruct Hx as [<-|Hx]; [rewrite (IHy c Uy Hc) in Fy; discriminate Fy|].
    apply IHr; assumption.
Qed.

(* ---- upd and the identifiers *)
Lemma upd_cnt id f t : forall t' (d : nat -> nat),
  upd id f t = Some t' ->
  (forall n, find_node id t = Some n -> forall x, cnt x (ids (f n)) = cnt x (ids n) + d x) ->
  forall x, cnt x (ids t') = cnt x (ids t) + d x.
Proof.
  induction t as [i ch IH] using bnode_ind2. intros t' d U Hf x. cbn [upd] in U. cbn [find_node] in Hf.
  destruct (Nat.eqb (bi_id i) id). { inversion U; subst. now apply Hf. }
  match type of U with match ?g with _ => _ end = _ => destruct g as [ch'|] eqn:G; [|discriminate] end.
  inversion U; subst. clear U. cnt_norm.
  enough (cnt x (fids ch') = cnt x (fids ch) + d x) by lia.
  revert ch' G Hf. induction ch as [|c r IHr]; intros ch' G Hf; [discriminate|].
  inversion IH as [|? ? IHc IHrest]; subst.
  destruct (upd id f c) as [c'|] eqn:Uc.
  - inversion G; subst. cnt_norm.
    rewrite (IHc c' d eq_refl); [lia|]. intros n Fn. apply Hf. now rewrite Fn.
  - match type of G with match ?g with _ => _ end = _ => destruct g as [r'|] eqn:Gr; [|discriminate] end.
    inversion G; subst. cnt_norm.
    assert (Fc : find_node id c = None) by (eapply upd_none_find; eassumption).
    rewrite (IHr IHrest r' eq_refl); [lia|]. intros n Fn. apply Hf. now rewrite Fc.
Qed.

(* the node found after an update that keeps the identifier of the node *)
Lemma upd_find id f t : forall t' n,
  upd id f t = Some t' -> find_node id t = Some n -> Nat.eqb (bid (f n)) id = true -> find_node id t' = Some (f n).
Proof.
  induction t as [i ch IH] using bnode_ind2. intros t' n U F B. cbn [upd] in U. cbn [find_node] in F.
  destruct (Nat.eqb (bi_id i) id) eqn:E.
  { injection U as <-. injection F as <-. destruct (f (BNode i ch)) as [j k] eqn:Ef. cbn [find_node].
    unfold bid in B. cbn [binf] in B. rewrite B. reflexivity. }
  match type of U with match ?g with _ => _ end = _ => destruct g as [ch'|] eqn:G; [|discriminate] end.
  inversion U; subst. clear U. cbn [find_node]. rewrite E.
  revert ch' G F. induction ch as [|c r IHr]; intros ch' G F; [discriminate|].
  inversion IH as [|? ? IHc IHrest]; subst.
  destruct (upd id f c) as [c'|] eqn:Uc.
  - inversion G; subst.
    destruct (find_node id c) as [m|] eqn:Fc.
    + inversion F; subst. rewrite (IHc c' n eq_refl eq_refl B). reflexivity.
    + exfalso. clear - Uc Fc. revert c' Uc Fc. induction c as [j k IHk] using bnode_ind2. intros c' Uc Fc.
      cbn [upd] in Uc. cbn [find_node] in Fc. destruct (Nat.eqb (bi_id j) id); [discriminate|].
      match type of Uc with match ?g with _ => _ end = _ => destruct g as [k'|] eqn:G; [|discriminate] end.
      clear Uc. revert k' G Fc. induction k as [|y ys IHys]; intros k' G Fc; [discriminate|].
      inversion IHk as [|? ? IHy IHrest]; subst.
      destruct (upd id f y) as [y'|] eqn:Uy.
      * destruct (find_node id y) eqn:Fy; [discriminate|]. eapply IHy; eauto.
      * destruct (find_node id y) eqn:Fy; [discriminate|].
        match type of G with match ?g with _ => _ end = _ => destruct g as [r'|] eqn:Gr; [|discriminate] end.
        eapply IHys; eauto.
  - match type of G with match ?g with _ => _ end = _ => destruct g as [r'|] eqn:Gr; [|discriminate] end.
    inversion G; subst.
    assert (Fc : find_node id c = None) by (eapply upd_none_find; eassumption).
    rewrite Fc in F |- *. now apply IHr.
Qed.

(* ---- edit_kids and the identifiers *)
Lemma split_kid_bid id l pre c post : split_kid id l = Some (pre, c, post) -> bid c = id.
Proof.
  revert pre c post. induction l as [|x r IH]; intros pre c post H; [discriminate|]. cbn [split_kid] in H.
  destruct (Nat.eqb (bid x) id) eqn:E. { inversion H; subst. now apply Nat.eqb_eq. }
  destruct (split_kid id r) as [[[pre' c'] post']|]; [|discriminate].
  inversion H; subst. eapply IH; reflexivity.
Qed.

Lemma split_kid_some l : forall c, In c l -> split_kid (bid c) l <> None.
Proof.
  induction l as [|x r IH]; intros c Hc; [destruct Hc|]. cbn [split_kid].
  destruct (Nat.eqb (bid x) (bid c)) eqn:E; [discriminate|].
  destruct Hc as [<-|Hc]; [rewrite Nat.eqb_refl in E; discriminate|].
  specialize (IH c Hc). destruct (split_kid (bid c) r) as [[[? ?] ?]|]; [discriminate | congruence].
Qed.

(* the edited child list: its place, and the balance of identifiers *)
Lemma edit_kids_cnt id g t : forall t',
  edit_kids id g t = Some t' ->
  exists pk pre c post, bid c = id /\ In c (bsub t) /\
    forall x, cnt x (ids t') + cnt x (fids (pre ++ c :: post)) = cnt x (ids t) + cnt x (fids (g pk pre c post)).
Proof.
  induction t as [i ch IH] using bnode_ind2. intros t' U. cbn [edit_kids] in U.
  destruct (split_kid id ch) as [[[pre c] post]|] eqn:S.
  { inversion U; subst. exists (kind_of (bi_val i)), pre, c, post.
    pose proof (split_kid_eq _ _ _ _ _ S) as Eq. split; [eapply split_kid_bid; exact S|]. split.
    - eapply bsub_kid; [|apply bsub_self]. rewrite Eq. apply in_or_app. right. left. reflexivity.
    - intro x. cnt_norm. rewrite Eq. cnt_norm. lia. }
  clear S.
  match type of U with match ?gg with _ => _ end = _ => destruct gg as [ch'|] eqn:G; [|discriminate] end.
  inversion U; subst. clear U.
  enough (exists pk pre c post, bid c = id /\ (exists y, In y ch /\ In c (bsub y)) /\
            forall x, cnt x (fids ch') + cnt x (fids (pre ++ c :: post)) = cnt x (fids ch) + cnt x (fids (g pk pre c post))) as (pk & pre & c & post & A & (y & Hy & B) & C).
  { exists pk, pre, c, post. split; [exact A|]. split; [eapply bsub_kid; eassumption|].
    intro x. specialize (C x). cnt_norm. cnt_norm. lia. }
  revert ch' G. induction ch as [|c r IHr]; intros ch' G; [discriminate|].
  inversion IH as [|? ? IHc IHrest]; subst.
  destruct (edit_kids id g c) as [c'|] eqn:Uc.
  - inversion G; subst. destruct (IHc c' eq_refl) as (pk & pre & c0 & post & A & B & C).
    exists pk, pre, c0, post. split; [exact A|]. split; [exists c; split; [left; reflexivity | exact B]|].
    intro x. specialize (C x). cnt_norm. lia.
  - match type of G with match ?gg with _ => _ end = _ => destruct gg as [r'|] eqn:Gr; [|discriminate] end.
    inversion G; subst. destruct (IHr IHrest r' eq_refl) as (pk & pre & c0 & post & A & (y & Hy & B) & C).
    exists pk, pre, c0, post. split; [exact A|]. split; [exists y; split; [right; exact Hy | exact B]|].
    intro x. specialize (C x). cnt_norm. lia.
Qed.

(* edit_kids finds a child of every node of the tree *)
Lemma edit_kids_some g : forall t p c, In p (bsub t) -> In c (bkids p) -> edit_kids (bid c) g t <> None.
Proof.
  induction t as [i ch IH] using bnode_ind2. intros p c Hp Hc. cbn [edit_kids].
  destruct (split_kid (bid c) ch) as [[[pre c0] post]|] eqn:S; [discriminate|].
  cbn [bsub] in Hp. destruct Hp as [<-|Hp].
  { cbn [bkids] in Hc. exfalso. now apply (split_kid_some ch c Hc). }
  apply in_flat_map in Hp. destruct Hp as [x [Hx Hp]].
  clear S. induction ch as [|y r IHr]; [destruct Hx|].
  inversion IH as [|? ? IHy IHrest]; subst.
  destruct (edit_kids (bid c) g y) eqn:Ey; [discriminate|].
  destruct Hx as [<-|Hx]; [exfalso; now apply (IHy p c Hp Hc)|].
  specialize (IHr IHrest Hx).
  match goal with |- match match ?gg with _ => _ end with _ => _ end <> None => destruct gg; [discriminate | congruence] end.
Qed.

(* ================================================================== the table shape, top down *)
Inductive tsg := SgRow (h : bool) (n : nat) | SgCell | SgFree.

Definition tsig (c : bnode) : tsg :=
  match bval c with
  | TableRow h => SgRow h (List.length (bkids c))
  | TableCell => SgCell
  | _ => SgFree
  end.

Definition g_free (s : tsg) : bool := match s with SgFree => true | _ => false end.
Definition g_cell (s : tsg) : bool := match s with SgCell => true | _ => false end.
Definition g_row (h : bool) (n : nat) (s : tsg) : bool :=
  match s with SgRow h' n' => Bool.eqb h h' && Nat.eqb n' n | _ => false end.

(* what a node of value v asks of the signatures of its children *)
Definition kshape (v : node_value) (sg : list tsg) : bool :=
  match v with
  | Table tb =>
    N.eqb (t_cols tb) (N.of_nat (List.length (t_aligns tb))) &&
    match sg with
    | [] => false
    | h :: rs => g_row true (List.length (t_aligns tb)) h && forallb (g_row false (List.length (t_aligns tb))) rs
    end
  | TableRow _ => forallb g_cell sg
  | _ => forallb g_free sg
  end.

Fixpoint btab (t : bnode) : bool :=
  match t with BNode i ch => kshape (bi_val i) (map tsig ch) && forallb btab ch end.

Lemma btab_node i ch : btab (BNode i ch) = true <-> kshape (bi_val i) (map tsig ch) = true /\ forallb btab ch = true.
Proof. cbn [btab]. apply andb_true_iff. Qed.

Definition vfree (v : node_value) : bool := match v with Table _ | TableRow _ | TableCell => false | _ => true end.
Definition vrowcell (v : node_value) : bool := match v with TableRow _ | TableCell => true | _ => false end.

Lemma tsig_free c : vrowcell (bval c) = false -> tsig c = SgFree.
Proof. unfold tsig. destruct (bval c); try reflexivity; discriminate. Qed.

(* a node that is neither a table nor a row asks its children to be free-standing *)
Lemma kshape_free v sg : vfree v = true -> kshape v sg = forallb g_free sg.
Proof. destruct v; try reflexivity; discriminate. Qed.

Lemma find_node_btab id t : forall n, btab t = true -> find_node id t = Some n -> btab n = true.
Proof.
  induction t as [i ch IH] using bnode_ind2. intros n V F. cbn [find_node] in F.
  destruct (Nat.eqb (bi_id i) id). { now inversion F; subst. }
  apply btab_node in V. destruct V as [_ V].
  induction ch as [|c r IHr]; [discriminate|].
  inversion IH; subst. apply forallb_cons in V. destruct V as [Vc Vr].
  destruct (find_node id c) eqn:E.
  - inversion F; subst. eauto.
  - eauto.
Qed.

Lemma upd_btab id f t : forall t',
  btab t = true -> upd id f t = Some t' ->
  (forall n, find_node id t = Some n -> btab n = true -> btab (f n) = true /\ tsig (f n) = tsig n) ->
  btab t' = true /\ tsig t' = tsig t.
Proof.
  induction t as [i ch IH] using bnode_ind2. intros t' V U Hf. cbn [upd] in U. cbn [find_node] in Hf.
  destruct (Nat.eqb (bi_id i) id). { inversion U; subst. apply Hf; auto. }
  match type of U with match ?g with _ => _ end = _ => destruct g as [ch'|] eqn:G; [|discriminate] end.
  inversion U; subst. clear U.
  apply btab_node in V. destruct V as [Vi V].
  enough (map tsig ch' = map tsig ch /\ forallb btab ch' = true) as [A B].
  { split.
    - apply btab_node. rewrite A. split; assumption.
    - unfold tsig, bval. cbn [binf bkids]. rewrite <- (map_length tsig ch'), A, map_length. reflexivity. }
  clear Vi. revert ch' G Hf. induction ch as [|c r IHr]; intros ch' G Hf; [discriminate|].
  inversion IH as [|? ? IHc IHrest]; subst.
  apply forallb_cons in V. destruct V as [Vc Vr].
  destruct (upd id f c) as [c'|] eqn:Uc.
  - inversion G; subst. destruct (IHc c' Vc eq_refl) as [A B].
    { intros n Fn. apply Hf. now rewrite Fn. }
    cbn [map]. rewrite B. split; [reflexivity|]. apply forallb_cons. split; assumption.
  - match type of G with match ?g with _ => _ end = _ => destruct g as [r'|] eqn:Gr; [|discriminate] end.
    inversion G; subst.
    assert (Fc : find_node id c = None) by (eapply upd_none_find; eassumption).
    destruct (IHr IHrest Vr r' eq_refl) as [A B].
    { intros n Fn. apply Hf. now rewrite Fc. }
    cbn [map]. rewrite A. split; [reflexivity|]. apply forallb_cons. split; assumption.
Qed.

Lemma edit_kids_btab id g (Q : bnode -> Prop) t : forall t',
  btab t = true -> edit_kids id g t = Some t' ->
  (forall c, In c (bsub t) -> bid c = id -> Q c) ->
  (forall i pre c post, Q c -> btab (BNode i (pre ++ c :: post)) = true ->
     btab (BNode i (g (kind_of (bi_val i)) pre c post)) = true /\
     tsig (BNode i (g (kind_of (bi_val i)) pre c post)) = tsig (BNode i (pre ++ c :: post))) ->
  btab t' = true /\ tsig t' = tsig t.
Proof.
  induction t as [i ch IH] using bnode_ind2. intros t' V U HQ Hg. cbn [edit_kids] in U.
  destruct (split_kid id ch) as [[[pre c] post]|] eqn:S.
  { inversion U; subst. pose proof (split_kid_eq _ _ _ _ _ S) as Eq. rewrite Eq in V |- *. apply Hg; [|exact V].
    apply HQ; [|eapply split_kid_bid; exact S]. eapply bsub_kid; [|apply bsub_self].
    rewrite Eq. apply in_or_app. right. left. reflexivity. }
  clear S.
  match type of U with match ?gg with _ => _ end = _ => destruct gg as [ch'|] eqn:G; [|discriminate] end.
  inversion U; subst. clear U.
  apply btab_node in V. destruct V as [Vi V].
  enough (map tsig ch' = map tsig ch /\ forallb btab ch' = true) as [A B].
  { split.
    - apply btab_node. rewrite A. split; assumption.
    - unfold tsig, bval. cbn [binf bkids]. rewrite <- (map_length tsig ch'), A, map_length. reflexivity. }
  clear Vi.
  assert (HQ' : forall y c, In y ch -> In c (bsub y) -> bid c = id -> Q c).
  { intros y c Hy Hc. apply HQ. eapply bsub_kid; eassumption. }
  clear HQ. revert ch' G HQ'. induction ch as [|c r IHr]; intros ch' G HQ'; [discriminate|].
  inversion IH as [|? ? IHc IHrest]; subst.
  apply forallb_cons in V. destruct V as [Vc Vr].
  destruct (edit_kids id g c) as [c'|] eqn:Uc.
  - inversion G; subst. destruct (IHc c' Vc eq_refl) as [A B]; [intros c0 H0; apply (HQ' c c0); [left; reflexivity | exact H0] | exact Hg |].
    cbn [map]. rewrite B. split; [reflexivity|]. apply forallb_cons. split; assumption.
  - match type of G with match ?gg with _ => _ end = _ => destruct gg as [r'|] eqn:Gr; [|discriminate] end.
    inversion G; subst. destruct (IHr IHrest Vr r' eq_refl) as [A B]; [intros y c0 Hy; apply (HQ' y c0); right; exact Hy|].
    cbn [map]. rewrite A. split; [reflexivity|]. apply forallb_cons. split; assumption.
Qed.

(* ================================================================== btab gives tables_ok of the public tree *)
Lemma to_node_kids t : nch (to_node t) = map to_node (bkids t).
Proof. destruct t; reflexivity. Qed.

Lemma g_row_inv h n c : g_row h n (tsig c) = true -> bval c = TableRow h /\ List.length (bkids c) = n.
Proof.
  unfold tsig. destruct (bval c); try discriminate. cbn [g_row]. intro H. apply andb_true_iff in H. destruct H as [A B].
  apply eqb_prop in A. apply Nat.eqb_eq in B. subst. auto.
Qed.
Lemma g_cell_inv c : g_cell (tsig c) = true -> bval c = TableCell.
Proof. unfold tsig. destruct (bval c); try discriminate; reflexivity. Qed.
Lemma g_free_inv c : g_free (tsig c) = true -> vrowcell (bval c) = false.
Proof. unfold tsig. destruct (bval c); try discriminate; reflexivity. Qed.

Lemma btab_row_ok n h r : btab r = true -> g_row h n (tsig r) = true -> row_ok n h (to_node r) = true.
Proof.
  intros V G. destruct (g_row_inv _ _ _ G) as [A B]. destruct r as [i ch]. unfold bval in A. cbn [binf bkids] in *.
  apply btab_node in V. destruct V as [K _]. rewrite A in K. cbn [kshape] in K.
  unfold row_ok. cbn [to_node nval nch]. rewrite A. rewrite eqb_reflx, map_length, B, Nat.eqb_refl. cbn [andb].
  rewrite andb_true_r. rewrite forallb_map_c. rewrite forallb_map_c in K.
  apply forallb_forall. intros c Hc. rewrite forallb_forall in K. specialize (K c Hc). apply g_cell_inv in K.
  unfold is_cell_node. rewrite to_node_val, K. reflexivity.
Qed.

Lemma btab_tables_ok_in : forall t, btab t = true -> tables_ok_in (to_node t) = true.
Proof.
  induction t as [i ch IH] using bnode_ind2. intro V. apply btab_node in V. destruct V as [K Vk].
  cbn [to_node tables_ok_in]. rewrite !andb_true_iff. split; [split|].
  - destruct (bi_val i) eqn:Ev; try reflexivity. cbn [kshape] in K. apply andb_true_iff in K. destruct K as [K1 K2].
    unfold table_node_ok. rewrite K1. cbn [andb]. destruct ch as [|h rs]; [discriminate K2|].
    cbn [map] in K2 |- *. apply forallb_cons in Vk. destruct Vk as [Vh Vrs].
    apply andb_true_iff in K2. destruct K2 as [Kh Krs]. apply andb_true_iff. split; [now apply btab_row_ok|].
    rewrite forallb_map_c. rewrite forallb_map_c in Krs. apply forallb_forall. intros r Hr.
    rewrite forallb_forall in Krs, Vrs. apply btab_row_ok; auto.
  - rewrite forallb_map_c. apply forallb_forall. intros c Hc. unfold placed. rewrite to_node_val.
    assert (Kc : match bi_val i with
                 | Table _ => exists h n, g_row h n (tsig c) = true
                 | TableRow _ => g_cell (tsig c) = true
                 | _ => g_free (tsig c) = true
                 end).
    { destruct (bi_val i); cbn [kshape] in K; try (rewrite forallb_map_c in K; rewrite forallb_forall in K; now apply K).
      apply andb_true_iff in K. destruct K as [_ K]. destruct ch as [|h rs]; [discriminate K|].
      cbn [map] in K. apply andb_true_iff in K. destruct K as [Kh Krs].
      destruct Hc as [<-|Hc]; [eauto|]. rewrite forallb_map_c in Krs. rewrite forallb_forall in Krs. eauto. }
    destruct (bi_val i); try (apply g_free_inv in Kc; destruct (bval c); try reflexivity; discriminate Kc).
    + destruct Kc as [h [n Kc]]. apply g_row_inv in Kc. destruct Kc as [-> _]. reflexivity.
    + apply g_cell_inv in Kc. rewrite Kc. reflexivity.
  - rewrite forallb_map_c. apply forallb_forall. intros c Hc. rewrite Forall_forall in IH. apply IH; [exact Hc|].
    rewrite forallb_forall in Vk. now apply Vk.
Qed.

Lemma btab_tables_ok t : bval t = Document -> btab t = true -> tables_ok (to_node t) = true.
Proof. intros D V. unfold tables_ok. rewrite to_node_val, D. now apply btab_tables_ok_in. Qed.
