(* Proofs/LeafPremWalk.v — C01, the premises of the inline phase, part 3: the per-leaf clause LP (Proofs/LeafPremBytes.v)
   along the Ok path of every function of the block phase (the scheme, the lemma order and most scripts are those of
   Proofs/BlocksTotal6Val.v; the tree predicate all_info is that of Proofs/BlocksPos.v).  For every node of the tree (Ln):

     a node whose value contains inlines (Paragraph, Heading, TableCell) has a content without NUL and CR that is valid
     UTF-8, at least as many line offsets as LF bytes, and - after the right-trim the inline phase does - is empty or has
     strictly fewer LF bytes than line offsets.

   Where it is established: add_line (one offset per line suffix; the suffix is valid UTF-8 on the Ok path: from_utf8),
   finalize / handle_setext_heading (content[seeked..] at a char boundary: the test of the Ok path), the cells of
   try_opening_header / try_opening_row (LeafPremRow.row_ok), the paragraph try_inserting_table_header_paragraph makes of
   the preface (its last byte is the LF before the header row: row_ok). *)
From Coq Require Import List NArith Arith Bool Lia Strings.String.
From V Require Import Base.Bytes Base.Res Gen.StrLeafGen Gen.FeedConst Gen.Nodes Gen.BlocksConst Model.Ast Model.Strings
  Model.AutolinkLeaf Model.Scan Spec.EscapeSpec Model.Feed Model.FrontMatter Model.RefDef Model.Blocks Spec.LineEndings Proofs.FeedProofs Proofs.StrLeafProofs
  Proofs.BlocksProofs Proofs.BlocksPos Proofs.BlocksTotal6Val Proofs.LeafPremBytes Proofs.LeafPremRow.
Import ListNotations.
Local Open Scope string_scope.
Local Open Scope list_scope.

(* ================================================================== the per-node invariant *)
Definition leafv (v : node_value) : bool := match v with Paragraph | Heading _ _ | TableCell => true | _ => false end.

Definition Ln (i : binfo) : Prop := leafv (bi_val i) = true -> LP (bi_content i) (bi_lo i).

Inductive LI (st : pstate) : Prop := LI_intro : all_info Ln (ps_root st) -> LI st.
Lemma LI_all st : LI st -> all_info Ln (ps_root st). Proof. now intros [H]. Qed.

Lemma LI_st_next st n : LI st -> LI (st_next st n). Proof. intros [H]. constructor. exact H. Qed.
Lemma LI_st_current st n : LI st -> LI (st_current st n). Proof. intros [H]. constructor. exact H. Qed.
Lemma LI_st_refmap st m : LI st -> LI (st_refmap st m). Proof. intros [H]. constructor. exact H. Qed.
Lemma LI_st_cur st c : LI st -> LI (st_cur st c). Proof. intros [H]. constructor. exact H. Qed.
Lemma LI_st_curline st a b : LI st -> LI (st_curline st a b). Proof. intros [H]. constructor. exact H. Qed.
Lemma LI_st_last_line_length st n : LI st -> LI (st_last_line_length st n). Proof. intros [H]. constructor. exact H. Qed.
Lemma LI_st_line_number st n : LI st -> LI (st_line_number st n). Proof. intros [H]. constructor. exact H. Qed.

Lemma get_alll st id n : LI st -> get st id = Ok n -> all_info Ln n.
Proof. intros [A] G. apply get_find in G. exact (find_node_all _ _ _ _ A G). Qed.
Lemma get_ln st id n : LI st -> get st id = Ok n -> Ln (binf n).
Proof. intros P G. apply all_info_binf. eapply get_alll; eassumption. Qed.

Lemma modify_li st id f st' :
  LI st -> modify st id f = Ok st' ->
  (forall n, find_node id (ps_root st) = Some n -> all_info Ln n -> all_info Ln (f n)) -> LI st'.
Proof.
  unfold modify. intros [A] M Hf. destruct (upd id f (ps_root st)) as [r|] eqn:U; [|discriminate].
  inversion M; subst. constructor. cbn. exact (upd_all _ _ _ _ _ A U Hf).
Qed.

Lemma modify_info_li st id f st' :
  modify_info st id f = Ok st' -> (forall i, Ln i -> Ln (f i)) -> LI st -> LI st'.
Proof.
  intros M Hf P. eapply modify_li; [exact P | exact M |].
  intros n _ An. destruct n as [i ch]. cbn [on_info]. apply all_info_node in An. apply all_info_node.
  split; [apply Hf; apply An | apply An].
Qed.

Lemma modify_info_const_li st id n i' st' :
  modify_info st id (fun _ => i') = Ok st' -> get st id = Ok n -> (Ln (binf n) -> Ln i') -> LI st -> LI st'.
Proof.
  intros M G Hf P. eapply modify_li; [exact P | exact M |].
  intros m Fm Am. apply get_find in G. rewrite G in Fm. inversion Fm; subst m.
  destruct n as [i ch]. cbn [on_info binf] in *. apply all_info_node in Am. apply all_info_node.
  split; [apply Hf; apply Am | apply Am].
Qed.

(* modify_info with a function of the info found under the identifier *)
Lemma modify_info_get_li st id n f st' :
  modify_info st id f = Ok st' -> get st id = Ok n -> (Ln (binf n) -> Ln (f (binf n))) -> LI st -> LI st'.
Proof.
  intros M G Hf P. eapply modify_li; [exact P | exact M |].
  intros m Fm Am. apply get_find in G. rewrite G in Fm. inversion Fm; subst m.
  destruct n as [i ch]. cbn [on_info binf] in *. apply all_info_node in Am. apply all_info_node.
  split; [apply Hf; apply Am | apply Am].
Qed.

Lemma edit_root_li st id g r :
  edit_kids id g (ps_root st) = Some r -> LI st ->
  (forall pk pre c post, Forall (all_info Ln) (pre ++ c :: post) -> Forall (all_info Ln) (g pk pre c post)) ->
  LI (st_root st r).
Proof. intros E [A] Hg. constructor. cbn. eapply edit_kids_all; eassumption. Qed.

Lemma bdetach_li st id st' : bdetach st id = Ok st' -> LI st -> LI st'.
Proof.
  unfold bdetach. intros D P.
  destruct (edit_kids id (fun _ pre _ post => pre ++ post) (ps_root st)) as [r|] eqn:E.
  - inversion D; subst. eapply edit_root_li; [exact E | exact P |].
    intros pk pre c post K. apply Forall_app in K. destruct K as [K1 K2]. inversion K2; subst.
    apply Forall_app. split; assumption.
  - now inversion D; subst.
Qed.

Lemma append_child_li st pid c st' : append_child st pid c = Ok st' -> all_info Ln c -> LI st -> LI st'.
Proof.
  intros A Ac P. eapply modify_li; [exact P | exact A |].
  intros n _ An. destruct n as [i ch]. apply all_info_node in An. apply all_info_node. split; [apply An|].
  apply Forall_app. split; [apply An|]. constructor; [exact Ac | constructor].
Qed.

(* setters that touch neither the value, the content nor line_offsets *)
Ltac ln_side :=
  let i := fresh "i" in let H := fresh "H" in
  intros i H; destruct i; unfold Ln in *; cbn in *; try exact H.

Create HintDb li.
#[export] Hint Resolve LI_st_next LI_st_current LI_st_refmap LI_st_cur LI_st_curline LI_st_last_line_length LI_st_line_number
  bdetach_li modify_info_li : li.
#[export] Hint Extern 1 (forall i : binfo, Ln i -> Ln _) => ln_side : li.

Ltac ligo H := mon H; monall; repeat match goal with p : (_ * _)%type |- _ => destruct p end; cbn [fst snd] in *; eauto 20 with li.

Lemma adv_li st line n b st' : adv st line n b = Ok st' -> LI st -> LI st'.
Proof. unfold adv. intros H P. mon H. now apply LI_st_cur. Qed.
Lemma ffn_li st line st' : ffn st line = Ok st' -> LI st -> LI st'.
Proof. unfold ffn. intros H P. mon H. now apply LI_st_cur. Qed.
#[export] Hint Resolve adv_li ffn_li : li.

(* ================================================================== finalize *)
Lemma retighten_li st p st' : retighten st p = Ok st' -> LI st -> LI st'.
Proof.
  unfold retighten. intros H P. destruct p as [item|]; [|inversion H; subst; exact P].
  destruct (parent_of item (ps_root st)) as [lid|]; [|inversion H; subst; exact P].
  destruct (get st lid) as [l| |] eqn:G; cbn [bind] in H; try discriminate H.
  destruct (bi_open (binf l)); [inversion H; subst; exact P|].
  destruct (bval l) eqn:Bv; try (inversion H; subst; exact P).
  eapply modify_info_get_li; [exact H | exact G | | exact P].
  intros _. unfold Ln. cbn. intro D; discriminate D.
Qed.
#[export] Hint Resolve retighten_li : li.

Lemma finalize_li o st id p st' : finalize o st id = Ok (p, st') -> LI st -> LI st'.
Proof.
  intros F P. unfold finalize in F.
  mstep F. pose proof (get_ln _ _ _ P E) as Qa.
  mstep F; [discriminate F|]. mstep F. clear E1.
  destruct (bi_val (binf a)) eqn:Ev; mon F;
  try match goal with R : resolve_refdefs _ _ _ = Ok _ |- _ => pose proof (fun lo => LP_refdefs _ _ _ _ _ _ lo R) as Ek end;
  repeat first [ match goal with |- LI (st_refmap _ _) => apply LI_st_refmap end
               | (eapply retighten_li; [eassumption|])
               | (eapply bdetach_li; [eassumption|])
               | (eapply modify_info_const_li; [eassumption | exact E | | exact P]; intros _) ];
  destruct a as [ia cha]; destruct ia; unfold Ln in *; cbn in *; subst; cbn in *;
  first [ exact Qa
        | (intro D; discriminate D)
        | (intros _; apply Ek, Qa; reflexivity) ].
Qed.
#[export] Hint Resolve finalize_li : li.

Lemma unwrap_parent_fin_li site o st id p st' : unwrap_parent site (finalize o st id) = Ok (p, st') -> LI st -> LI st'.
Proof.
  unfold unwrap_parent. intros H P.
  destruct (finalize o st id) as [[op s1]| |] eqn:E; cbn [bind fst snd] in H; try discriminate H.
  destruct op; inversion H; subst. eapply finalize_li; eassumption.
Qed.
#[export] Hint Resolve unwrap_parent_fin_li : li.

(* ================================================================== add_child *)
Lemma add_child_loop_li o k : forall fuel st parent p' st',
  add_child_loop fuel o st parent k = Ok (p', st') -> LI st -> LI st'.
Proof.
  induction fuel as [|f IH]; intros st parent p' st' H P; [discriminate|].
  cbn [add_child_loop] in H.
  destruct (get st parent) as [pn| |] eqn:G; cbn [bind] in H; try discriminate H.
  destruct (can_contain (bkind pn) k).
  - inversion H; subst. exact P.
  - match type of H with bind ?r _ = _ => destruct r as [[q s1]| |] eqn:U; cbn [bind fst snd] in H; try discriminate H end.
    eapply IH; [exact H|]. eapply unwrap_parent_fin_li; eassumption.
Qed.

Lemma Ln_new id v l c : Ln (new_info id v l c).
Proof. unfold Ln. cbn. intros _. apply LP_nil. Qed.

Lemma add_child_gen_li o st parent v col post kids id st' :
  add_child_gen o st parent v col post kids = Ok (id, st') ->
  (forall i, bi_val i = v -> Ln i -> Ln (post i)) -> Forall (all_info Ln) kids ->
  LI st -> LI st'.
Proof.
  unfold add_child_gen. intros H Hp Hk P.
  match type of H with bind ?r _ = _ => destruct r as [[p' s1]| |] eqn:E; cbn [bind] in H; try discriminate H end.
  pose proof (add_child_loop_li _ _ _ _ _ _ _ E P) as P1.
  mon H. eapply append_child_li; [eassumption | | apply LI_st_next; exact P1].
  apply all_info_node. split; [|exact Hk]. apply Hp; [reflexivity|]. apply Ln_new.
Qed.

Lemma add_child_li o st parent v col id st' : add_child o st parent v col = Ok (id, st') -> LI st -> LI st'.
Proof.
  unfold add_child. intros H P. eapply add_child_gen_li; [exact H | auto | constructor | exact P].
Qed.
#[export] Hint Resolve add_child_li : li.

(* ================================================================== check_open_blocks *)
Lemma skip_one_space_li st line site st' : skip_one_space st line site = Ok st' -> LI st -> LI st'.
Proof. unfold skip_one_space. intros H P. ligo H. Qed.
#[export] Hint Resolve skip_one_space_li : li.
Lemma parse_block_quote_prefix_li o st line b st' : parse_block_quote_prefix o st line = Ok (b, st') -> LI st -> LI st'.
Proof. unfold parse_block_quote_prefix. intros H P. ligo H. Qed.
#[export] Hint Resolve parse_block_quote_prefix_li : li.
Lemma parse_footnote_prefix_li st line b st' : parse_footnote_definition_block_prefix st line = Ok (b, st') -> LI st -> LI st'.
Proof. unfold parse_footnote_definition_block_prefix. intros H P. ligo H. Qed.
#[export] Hint Resolve parse_footnote_prefix_li : li.
Lemma parse_item_prefix_li st line c mo pad b st' : parse_item_prefix st line c mo pad = Ok (b, st') -> LI st -> LI st'.
Proof. unfold parse_item_prefix. intros H P. ligo H. Qed.
#[export] Hint Resolve parse_item_prefix_li : li.
Lemma skip_fence_offset_li line site : forall i st st', skip_fence_offset i st line site = Ok st' -> LI st -> LI st'.
Proof. induction i as [|j IH]; intros st st' H P; cbn [skip_fence_offset] in H; ligo H. Qed.
#[export] Hint Resolve skip_fence_offset_li : li.
Lemma parse_code_block_prefix_li o st line c cb a b st' : parse_code_block_prefix o st line c cb = Ok (a, b, st') -> LI st -> LI st'.
Proof. unfold parse_code_block_prefix. intros H P. ligo H. Qed.
#[export] Hint Resolve parse_code_block_prefix_li : li.
Lemma parse_mbq_prefix_li o st line c fl fo a b st' : parse_multiline_block_quote_prefix o st line c fl fo = Ok (a, b, st') -> LI st -> LI st'.
Proof. unfold parse_multiline_block_quote_prefix. intros H P. ligo H. Qed.
#[export] Hint Resolve parse_mbq_prefix_li : li.
Lemma check_container_li o st line c a b st' : check_container o st line c = Ok (a, b, st') -> LI st -> LI st'.
Proof. unfold check_container. intros H P. destruct (bval c); ligo H. Qed.
#[export] Hint Resolve check_container_li : li.
Lemma check_open_blocks_inner_li o line : forall fuel st container a c b st',
  check_open_blocks_inner fuel o st line container = Ok (a, c, b, st') -> LI st -> LI st'.
Proof. induction fuel as [|f IH]; intros st container a c b st' H P; cbn [check_open_blocks_inner] in H; ligo H. Qed.
#[export] Hint Resolve check_open_blocks_inner_li : li.
Lemma check_open_blocks_li o st line r st' : check_open_blocks o st line = Ok (r, st') -> LI st -> LI st'.
Proof. unfold check_open_blocks. intros H P. ligo H. Qed.
#[export] Hint Resolve check_open_blocks_li : li.

(* ================================================================== tables *)
Lemma Ln_trivial i : leafv (bi_val i) = false -> Ln i.
Proof. unfold Ln. intros H D. rewrite H in D. discriminate D. Qed.

Lemma try_inserting_li st c po st' :
  try_inserting_table_header_paragraph st c po = Ok st' ->
  (forall cn, get st c = Ok cn -> is_paragraph cn = true /\ exists p, firstn po (bi_content (binf cn)) = p ++ [x0a]) ->
  LI st -> LI st'.
Proof.
  unfold try_inserting_table_header_paragraph. intros H Hc P.
  destruct (get st c) as [cn| |] eqn:G; cbn [bind] in H; try discriminate H.
  destruct (Hc _ eq_refl) as [Hp [pp Epp]].
  pose proof (is_paragraph_val _ Hp) as Bv. pose proof (get_ln _ _ _ P G) as Qc.
  unfold bval in Bv. unfold Ln in Qc. rewrite Bv in Qc. specialize (Qc eq_refl).
  mstep H; [discriminate H|]. cbv zeta in H. rewrite trim_ok in H. cbn [bind] in H.
  mon H; monall; try exact P.
  match goal with M : modify_info _ _ _ = Ok ?s |- _ => assert (P1 : LI s) end.
  { eapply modify_info_li; [eassumption | | apply LI_st_next; exact P]. ln_side. }
  eapply edit_root_li; [eassumption | exact P1 |].
  intros pk pre x post K. cbv beta. destruct (can_contain pk KParagraph); [|exact K].
  apply Forall_app in K. destruct K as [K1 K2]. apply Forall_app. split; [exact K1|].
  cbn [app]. constructor; [|exact K2]. apply all_info_node. split; [|constructor].
  unfold Ln. cbn. intros _.
  match goal with U : Blocks.from_utf8 _ _ = Ok _ |- _ => apply from_utf8_valid in U; destruct U as [-> U] end.
  eapply LP_preface; [exact Qc | exact Epp | assumption |].
  match goal with C : copy_line_offsets _ _ _ = Ok _ |- _ => exact (copy_line_offsets_length _ _ _ _ C) end.
Qed.

Lemma header_cells_ln s : cln s -> forall cells id ln sl sc po l,
  Forall (cell_ok s) cells -> header_cells cells id ln sl sc po = Ok l -> Forall (all_info Ln) l.
Proof.
  intro Cs. induction cells as [|c r IH]; intros id ln sl sc po l F H; cbn [header_cells] in H.
  - inversion H. constructor.
  - inversion F; subst. mon H. constructor; [|eapply IH; eassumption].
    apply all_info_node. split; [|constructor]. unfold Ln. cbn. intros _. eapply cell_ok_LP; eassumption.
Qed.

Lemma try_opening_header_li o st c line r st' :
  try_opening_header o st c line = Ok (r, st') ->
  (forall cn, get st c = Ok cn -> is_paragraph cn = true) -> LI st -> LI st'.
Proof.
  unfold try_opening_header. intros H Hc P.
  destruct (get st c) as [cn0| |] eqn:G0; cbn [bind] in H; try discriminate H.
  pose proof (Hc _ eq_refl) as Hp. clear Hc.
  pose proof (is_paragraph_val _ Hp) as Bv. pose proof (get_ln _ _ _ P G0) as Q0.
  unfold bval in Bv. unfold Ln in Q0. rewrite Bv in Q0. specialize (Q0 eq_refl). destruct Q0 as [Cs _].
  mon H; monall; try exact P;
  match goal with R : row (bi_content (binf cn0)) _ = Ok (Some (_, _)) |- _ => destruct (row_ok _ _ _ _ R) as [Fc Po] end;
  match goal with
  | I : try_inserting_table_header_paragraph _ _ ?po = Ok ?s |- _ =>
    assert (P1 : LI s)
      by (eapply try_inserting_li; [exact I | intros cn' G'; rewrite G0 in G'; inversion G'; subst; split; [exact Hp|];
          destruct Po as [Po|Po]; [exfalso; subst; match goal with L : Nat.ltb 0 0 = true |- _ => discriminate L end | exact Po] | exact P])
  | _ => pose proof P as P1
  end;
  (eapply edit_root_li; [eassumption | eauto 10 with li |]);
  intros pk pre x post K; cbv beta; (destruct (is_paragraph x); [|exact K]);
  apply Forall_app in K; destruct K as [K1 K2]; inversion K2; subst;
  apply Forall_app; (split; [exact K1|]); cbn [app]; (constructor; [|assumption]);
  apply all_info_node; (split; [apply Ln_trivial; reflexivity|]);
  (constructor; [|constructor]); apply all_info_node;
  (split; [apply Ln_trivial; reflexivity|]);
  eapply header_cells_ln; eassumption.
Qed.

Lemma row_cells_ln s : cln s -> forall n cells id ln sc lc l lc',
  Forall (cell_ok s) cells -> row_cells n cells id ln sc lc = Ok (l, lc') -> Forall (all_info Ln) l.
Proof.
  intro Cs. induction n as [|m IH]; intros cells id ln sc lc l lc' F H; cbn [row_cells] in H.
  - destruct cells; inversion H; subst; constructor.
  - destruct cells as [|c r]; [inversion H; subst; constructor|]. inversion F; subst.
    mon H. repeat match goal with p : (_ * _)%type |- _ => destruct p end. cbn [fst snd] in *.
    constructor; [|eapply IH; eassumption]. apply all_info_node. split; [|constructor].
    unfold Ln. cbn. intros _. eapply cell_ok_LP; eassumption.
Qed.

Lemma filler_cells_ln : forall n id ln lc, Forall (all_info Ln) (filler_cells n id ln lc).
Proof.
  induction n as [|m IH]; intros id ln lc; cbn [filler_cells]; constructor; [|apply IH].
  apply all_info_node. split; [|constructor]. apply Ln_new.
Qed.

Lemma slice_from_eq site (l : bytes) i r : slice_from site l i = Ok r -> r = skipn i l.
Proof. unfold slice_from. destruct (Nat.ltb _ _); intro H; inversion H; reflexivity. Qed.

Lemma try_opening_row_li o st c t line r st' : LK line -> try_opening_row o st c t line = Ok (r, st') -> LI st -> LI st'.
Proof.
  unfold try_opening_row. intros HL H P.
  mon H; monall; try exact P.
  match goal with R : row _ _ = Ok (Some (_, _)) |- _ => destruct (row_ok _ _ _ _ R) as [Fc _] end.
  match goal with S : slice_from _ line _ = Ok _ |- _ => apply slice_from_eq in S; subst end.
  match goal with M : modify _ _ _ = Ok ?s |- _ => assert (LI s) end.
  { eapply modify_li; [apply LI_st_next; exact P | eassumption |].
    intros nn Fn An. destruct nn as [i ch]. apply all_info_node in An. destruct An as [Ai Ak].
    apply all_info_node. split; [apply Ln_trivial; reflexivity|].
    apply Forall_app. split; [exact Ak|]. constructor; [|constructor].
    apply all_info_node. split; [apply Ln_trivial; reflexivity|].
    apply Forall_app. split; [eapply row_cells_ln; [apply cln_skipn, LK_cln, HL | eassumption | eassumption] | apply filler_cells_ln]. }
  eauto 10 with li.
Qed.

Lemma try_opening_block_li o st c line r st' : LK line -> try_opening_block o st c line = Ok (r, st') -> LI st -> LI st'.
Proof.
  unfold try_opening_block. intros HL H P.
  destruct (get st c) as [cn| |] eqn:G; cbn [bind] in H; try discriminate H.
  destruct (bval cn) eqn:Bv; try (inversion H; subst; exact P).
  - eapply try_opening_header_li; [exact H | | exact P].
    intros cn' G'. rewrite G in G'. inversion G'; subst. unfold is_paragraph. now rewrite Bv.
  - eapply try_opening_row_li; [exact HL | exact H | exact P].
Qed.

(* ================================================================== description lists *)
Lemma reopen_li : forall fuel st id st', reopen_ast_nodes fuel st id = Ok st' -> LI st -> LI st'.
Proof. induction fuel as [|f IH]; intros st id st' H P; cbn [reopen_ast_nodes] in H; ligo H. Qed.
#[export] Hint Resolve reopen_li : li.

Lemma parse_desc_list_details_li o st c m b c' st' : parse_desc_list_details o st c m = Ok (b, c', st') -> LI st -> LI st'.
Proof.
  unfold parse_desc_list_details. intros H P.
  destruct (get st c) as [cn| |] eqn:G; cbn [bind] in H; try discriminate H.
  match type of H with bind ?r _ = _ => destruct r as [[[[tight c1] lc]|]| |] eqn:R; cbn [bind] in H; try discriminate H end;
    [|inversion H; subst; exact P].
  assert (Alc : all_info Ln lc).
  { pose proof (get_alll _ _ _ P G) as Ac.
    destruct (last_opt (bkids cn)) eqn:Lk.
    - inversion R; subst. eapply last_kid_all; eassumption.
    - mon R. eapply last_kid_all; [eapply get_alll; [exact P | eassumption] | eassumption]. }
  clear R.
  destruct (bval lc) eqn:Bl; try (inversion H; subst; exact P).
  - (* DescriptionItem *) ligo H.
  - (* Paragraph *)
    mon H; monall; repeat match goal with p : (_ * _)%type |- _ => destruct p end; cbn [fst snd] in *;
    match goal with A : add_child_gen _ ?s _ DescriptionTerm _ _ _ = Ok (_, ?s') |- _ =>
      assert (LI s -> LI s') by
        (intro; eapply add_child_gen_li; [exact A | auto | constructor; [exact Alc | constructor] | assumption])
    end; eauto 20 with li.
Qed.

(* ================================================================== the handlers of open_new_blocks *)
Section handlers.
Variables (o : bopts) (line : bytes).
Hypothesis HLine : LK line.

Lemma handle_alert_li st c ind b c' st' : handle_alert o st c line ind = Ok (b, c', st') -> LI st -> LI st'.
Proof. unfold handle_alert. intros H P. ligo H. Qed.
Lemma handle_mbq_li st c ind b c' st' : handle_multiline_blockquote o st c line ind = Ok (b, c', st') -> LI st -> LI st'.
Proof. unfold handle_multiline_blockquote, rest_at_fns. intros H P. ligo H. Qed.
Lemma handle_blockquote_li st c ind b c' st' : handle_blockquote o st c line ind = Ok (b, c', st') -> LI st -> LI st'.
Proof. unfold handle_blockquote. intros H P. ligo H. Qed.
Lemma handle_atx_li st c ind b c' st' : handle_atx_heading o st c line ind = Ok (b, c', st') -> LI st -> LI st'.
Proof.
  unfold handle_atx_heading, rest_at_fns. intros H P. mon H; monall; repeat match goal with p : (_ * _)%type |- _ => destruct p end; cbn [fst snd] in *; eauto with li.
  eapply add_child_gen_li; [eassumption | | constructor | eauto with li].
  intros i Ev Hi. destruct i. unfold Ln in *. cbn in *. subst. intros _. apply Hi. reflexivity.
Qed.
Lemma handle_code_fence_li st c ind b c' st' : handle_code_fence o st c line ind = Ok (b, c', st') -> LI st -> LI st'.
Proof. unfold handle_code_fence, rest_at_fns. intros H P. ligo H. Qed.
Lemma handle_html_block_li st c ind b c' st' : handle_html_block o st c line ind = Ok (b, c', st') -> LI st -> LI st'.
Proof. unfold handle_html_block, rest_at_fns. intros H P. ligo H. Qed.
Lemma handle_footnote_li st c ind d b c' st' : handle_footnote o st c line ind d = Ok (b, c', st') -> LI st -> LI st'.
Proof. unfold handle_footnote, rest_at_fns. intros H P. ligo H. Qed.
Lemma list_spaces_loop_li sc : forall fuel st st', list_spaces_loop fuel st line sc = Ok st' -> LI st -> LI st'.
Proof. induction fuel as [|f IH]; intros st st' H P; cbn [list_spaces_loop] in H; ligo H. Qed.
Hint Resolve list_spaces_loop_li : li.
Lemma handle_list_li st c ind d b c' st' : handle_list o st c line ind d = Ok (b, c', st') -> LI st -> LI st'.
Proof. unfold handle_list. intros H P. ligo H. Qed.
Lemma handle_code_block_li st c ind ml b c' st' : handle_code_block o st c line ind ml = Ok (b, c', st') -> LI st -> LI st'.
Proof. unfold handle_code_block. intros H P. ligo H. Qed.

Lemma handle_setext_li st c ind b c' st' : handle_setext_heading o st c line ind = Ok (b, c', st') -> LI st -> LI st'.
Proof.
  unfold handle_setext_heading, rest_at_fns. intros H P.
  mstep H; [inversion H; subst; exact P|].
  destruct (get st c) as [cn| |] eqn:G; cbn [bind] in H; try discriminate H.
  destruct (is_paragraph cn) eqn:Pa; cbn [negb] in H; [|inversion H; subst; exact P].
  apply is_paragraph_val in Pa. pose proof (get_ln _ _ _ P G) as Qc.
  mon H; monall; repeat match goal with p : (_ * _)%type |- _ => destruct p end; cbn [fst snd] in *; eauto 10 with li;
  match goal with R : resolve_refdefs _ _ _ = Ok _ |- _ => pose proof (fun lo => LP_refdefs _ _ _ _ _ _ lo R) as Ek end;
  match goal with M1 : modify_info (st_refmap st _) _ _ = Ok ?s1 |- _ => assert (P1 : LI s1) end;
  try (eapply modify_info_get_li; [eassumption | exact G | | apply LI_st_refmap; exact P]; intros _;
       destruct cn as [i ch]; destruct i; unfold bval, Ln in *; cbn in *; subst; cbn in *;
       intros _; apply Ek, Qc; reflexivity);
  eauto 10 with li.
Qed.

Lemma handle_thematic_break_li st c ind am b c' st' : handle_thematic_break o st c line ind am = Ok (b, c', st') -> LI st -> LI st'.
Proof. unfold handle_thematic_break. intros H P. ligo H. Qed.

Lemma handle_description_list_li st c ind b c' st' : handle_description_list o st c line ind = Ok (b, c', st') -> LI st -> LI st'.
Proof.
  unfold handle_description_list, rest_at_fns. intros H P.
  mon H; monall; repeat match goal with p : (_ * _)%type |- _ => destruct p end; cbn [fst snd] in *; try exact P;
  match goal with D : parse_desc_list_details _ _ _ _ = Ok (_, _, ?s) |- _ =>
    assert (LI s) by (eapply parse_desc_list_details_li; eassumption) end; eauto with li.
Qed.

Hint Resolve handle_alert_li handle_mbq_li handle_blockquote_li handle_atx_li handle_code_fence_li
  handle_html_block_li handle_setext_li handle_thematic_break_li handle_footnote_li
  handle_description_list_li handle_list_li handle_code_block_li : li.

Lemma or_else_h_li (r : hres) k b c st st' :
  or_else_h r k = Ok (b, c, st') -> LI st ->
  (forall b1 c1 s1, r = Ok (b1, c1, s1) -> LI st -> LI s1) ->
  (forall c1 s1 b2 c2 s2, k c1 s1 = Ok (b2, c2, s2) -> LI s1 -> LI s2) ->
  LI st'.
Proof.
  unfold or_else_h. intros H P Hr Hk.
  destruct r as [[[b1 c1] s1]| |]; cbn [bind] in H; try discriminate H.
  destruct b1.
  - inversion H; subst. eapply Hr; [reflexivity | exact P].
  - eapply Hk; [exact H|]. eapply Hr; [reflexivity | exact P].
Qed.

Ltac chain_l :=
  match goal with
  | R : or_else_h _ _ = Ok _ |- LI _ =>
    eapply (or_else_h_li _ _ _ _ _ _ R); clear R;
    [ eassumption | intros ? ? ? ? ?; eauto with li | intros ? ? ? ? ? R ?; cbv beta in R; chain_l ]
  | |- LI _ => eauto with li
  end.

(* the state after the chain of handlers *)
Lemma handlers_chain_li st ind am ml d c hd c1 s1 :
  or_else_h (handle_alert o st c line ind) (fun container st =>
          or_else_h (handle_multiline_blockquote o st container line ind) (fun container st =>
          or_else_h (handle_blockquote o st container line ind) (fun container st =>
          or_else_h (handle_atx_heading o st container line ind) (fun container st =>
          or_else_h (handle_code_fence o st container line ind) (fun container st =>
          or_else_h (handle_html_block o st container line ind) (fun container st =>
          or_else_h (handle_setext_heading o st container line ind) (fun container st =>
          or_else_h (handle_thematic_break o st container line ind am) (fun container st =>
          or_else_h (handle_footnote o st container line ind d) (fun container st =>
          or_else_h (handle_description_list o st container line ind) (fun container st =>
          or_else_h (handle_list o st container line ind d) (fun container st =>
          handle_code_block o st container line ind ml))))))))))) = Ok (hd, c1, s1) -> LI st -> LI s1.
Proof. intros R P. chain_l. Qed.

Lemma open_new_blocks_step_li st c am ml d g c' st' :
  open_new_blocks_step o st c line am ml d = Ok (g, c', st') -> LI st -> LI st'.
Proof.
  unfold open_new_blocks_step. intros H P.
  destruct (ffn st line) as [s0| |] eqn:F0; cbn [bind] in H; try discriminate H.
  assert (P0 : LI s0) by eauto with li.
  match type of H with bind ?r _ = _ => destruct r as [[[hd c1] s1]| |] eqn:R; cbn [bind] in H; try discriminate H end.
  assert (P1 : LI s1) by (eapply handlers_chain_li; eassumption).
  clear R.
  destruct hd.
  - ligo H.
  - destruct (negb (Nat.leb code_indent (indent s0)) && bo_table o) eqn:Tb.
    + destruct (try_opening_block o s1 c1 line) as [[tr s2]| |] eqn:TO; cbn [bind] in H; try discriminate H.
      assert (P2 : LI s2) by (eapply try_opening_block_li; eassumption).
      destruct tr; ligo H.
    + ligo H.
Qed.
Hint Resolve open_new_blocks_step_li : li.

Lemma open_new_blocks_loop_li am : forall fuel st c ml d c' st',
  open_new_blocks_loop fuel o st c line am ml d = Ok (c', st') -> LI st -> LI st'.
Proof. induction fuel as [|f IH]; intros st c ml d c' st' H P; cbn [open_new_blocks_loop] in H; ligo H. Qed.
Hint Resolve open_new_blocks_loop_li : li.

Lemma open_new_blocks_li st c am c' st' : open_new_blocks o st c line am = Ok (c', st') -> LI st -> LI st'.
Proof. unfold open_new_blocks. intros H P. ligo H. Qed.

Lemma clear_llb_up_li : forall fuel st id st', clear_llb_up fuel st id = Ok st' -> LI st -> LI st'.
Proof. induction fuel as [|f IH]; intros st id st' H P; cbn [clear_llb_up] in H; ligo H. Qed.

Lemma finalize_up_to_li target site : forall fuel st st', finalize_up_to fuel o st target site = Ok st' -> LI st -> LI st'.
Proof. induction fuel as [|f IH]; intros st st' H P; cbn [finalize_up_to] in H; ligo H. Qed.

(* add_line with any LK line (chop_trailing_hashtags hands it a prefix of the line) *)
Lemma Ln_add_line i pad s off : Ln i -> (exists n, pad = repeat_bytes n x20) -> LK s -> utf8_valid s = true ->
  Ln (set_lo (bi_lo i ++ [off]) (set_content ((bi_content i ++ pad) ++ s) i)).
Proof.
  destruct i as [f1 f2 f3 f4 f5 f6 f7 f8 f9 f10 f11 f12]. unfold Ln. cbn [bi_val bi_content bi_lo set_lo set_content]. intros A P1 S1 S2 Ev.
  apply LP_push; auto.
Qed.
Lemma Ln_add_pad i pad : Ln i -> (exists n, pad = repeat_bytes n x20) -> Ln (set_content (bi_content i ++ pad) i).
Proof.
  destruct i as [f1 f2 f3 f4 f5 f6 f7 f8 f9 f10 f11 f12]. unfold Ln. cbn [bi_val bi_content bi_lo set_lo set_content]. intros A P1 Ev.
  apply LP_pad; auto.
Qed.

Lemma add_line_li_gen l st id st' : LK l -> add_line st id l = Ok st' -> LI st -> LI st'.
Proof.
  unfold add_line. intros L1 H P.
  destruct (get st id) as [n| |] eqn:G; cbn [bind] in H; try discriminate H.
  pose proof (get_ln _ _ _ P G) as Qc.
  destruct (negb (bi_open (binf n))); [discriminate H|]. cbv zeta in H.
  destruct (c_pct (ps_cur st)); cbv iota beta in H;
  (mstep H; mon E; try match goal with U : Blocks.from_utf8 _ _ = Ok _ |- _ => apply from_utf8_valid in U; destruct U as [-> U] end; mon H; apply LI_st_cur;
   (eapply modify_info_const_li; [eassumption | exact G | | exact P]); intros _;
   first [ apply Ln_add_line; [exact Qc | first [eexists; reflexivity | exists 0; reflexivity] | now apply LK_skipn | assumption]
         | apply Ln_add_pad; [exact Qc | first [eexists; reflexivity | exists 0; reflexivity]] ]).
Qed.
End handlers.

(* ================================================================== add_text_to_container, process_line, parse_blocks *)
Section text.
Variables (o : bopts) (line : bytes).
Hypothesis HLine : LK line.

Lemma add_line_li st id st' : add_line st id line = Ok st' -> LI st -> LI st'.
Proof. now apply add_line_li_gen. Qed.
Hint Resolve add_line_li clear_llb_up_li finalize_up_to_li : li.

Lemma add_text_to_container_li st c lm st' : add_text_to_container o st c lm line = Ok st' -> LI st -> LI st'.
Proof.
  unfold add_text_to_container. intros H P.
  destruct (ffn st line) as [s0| |] eqn:E0; cbn [bind] in H; try discriminate H. assert (P0 : LI s0) by eauto with li.
  destruct (get s0 c) as [cn| |] eqn:G0; cbn [bind] in H; try discriminate H.
  match type of H with bind ?r _ = _ => destruct r as [s1| |] eqn:E1; cbn [bind] in H; try discriminate H end.
  assert (P1 : LI s1) by (mon E1; eauto with li).
  match type of H with bind ?r _ = _ => destruct r as [s2| |] eqn:E2; cbn [bind] in H; try discriminate H end.
  assert (P2 : LI s2) by eauto with li.
  match type of H with bind ?r _ = _ => destruct r as [s3| |] eqn:E3; cbn [bind] in H; try discriminate H end.
  assert (P3 : LI s3) by eauto with li.
  match type of H with bind ?r _ = _ => destruct r as [lz| |] eqn:E4; cbn [bind] in H; try discriminate H end.
  destruct lz; [eauto with li|].
  match type of H with bind ?r _ = _ => destruct r as [s4| |] eqn:E5; cbn [bind] in H; try discriminate H end.
  assert (P4 : LI s4) by eauto with li.
  destruct (get s4 c) as [c4| |] eqn:G4; cbn [bind] in H; try discriminate H.
  match type of H with bind ?r _ = _ => destruct r as [[rc rs]| |] eqn:E6; cbn [bind fst snd] in H; try discriminate H end.
  inversion H; subst. apply LI_st_current. clear H E1 E2 E3 E4 E5.
  destruct (bval c4); mon E6; repeat match goal with p : (_ * _)%type |- _ => destruct p end; cbn [fst snd] in *;
  try match goal with E2 : (if negb _ then chop_trailing_hashtags line else Ok line) = Ok _ |- _ => mon E2 end;
  repeat match goal with E2 : Ok _ = Ok _ |- _ => inversion E2; subst; clear E2 end;
  first [ solve [eauto 10 with li]
        | (eapply add_line_li_gen; [ | eassumption | ]; [first [exact HLine | eapply chop_LK; [eassumption | exact HLine]] | eauto with li]) ].
Qed.
End text.

Lemma process_line_li o st line0 st' : LK (norm_line line0) -> process_line o st line0 = Ok st' -> LI st -> LI st'.
Proof.
  unfold process_line. intros HL H P.
  match type of H with context [check_open_blocks o ?s ?l] => assert (P0 : LI s) by (apply LI_st_line_number, LI_st_cur, LI_st_curline; exact P) end.
  mon H; monall; repeat match goal with p : (_ * _)%type |- _ => destruct p end; cbn [fst snd] in *;
  apply LI_st_curline; apply LI_st_last_line_length;
  repeat match goal with
         | C : check_open_blocks _ _ _ = Ok (_, ?s) |- _ =>
           assert (LI s) by (eapply check_open_blocks_li; eassumption); clear C
         | C : open_new_blocks _ _ _ _ _ = Ok (_, ?s) |- _ =>
           assert (LI s) by (eapply open_new_blocks_li; eassumption); clear C
         | C : add_text_to_container _ _ _ _ _ = Ok ?s |- _ =>
           assert (LI s) by (eapply add_text_to_container_li; eassumption); clear C
         end; assumption.
Qed.

Lemma process_lines_li o : forall ls st st', Forall (fun l => LK (norm_line l)) ls -> process_lines o st ls = Ok st' -> LI st -> LI st'.
Proof.
  induction ls as [|l r IH]; intros st st' F H P; cbn [process_lines] in H.
  - now inversion H; subst.
  - inversion F; subst. destruct (process_line o st l) as [s1| |] eqn:E; cbn [bind] in H; try discriminate H.
    eapply IH; [assumption | exact H|]. eapply process_line_li; eassumption.
Qed.

Lemma LI_init : LI init_state.
Proof. constructor. cbn [ps_root init_state all_info]. split; [|exact I]. apply Ln_trivial. reflexivity. Qed.

Lemma front_matter_prologue_li o x st rest : front_matter_prologue o init_state x = Ok (st, rest) -> LI st.
Proof.
  unfold front_matter_prologue. intro H.
  destruct (bo_front_matter_delimiter o) as [d|]; [|inversion H; subst; apply LI_init].
  mon H; monall; repeat match goal with p : (_ * _)%type |- _ => destruct p end; cbn [fst snd] in *; try apply LI_init.
  apply LI_st_line_number.
  eapply modify_info_li; [eassumption | ln_side |].
  eapply unwrap_parent_fin_li; [eassumption|]. eapply add_child_li; [eassumption | apply LI_init].
Qed.

Lemma finalize_document_li o st st' : finalize_document o st = Ok st' -> LI st -> LI st'.
Proof.
  unfold finalize_document. intros H P. mon H; monall. repeat match goal with p : (_ * _)%type |- _ => destruct p end. cbn [fst snd] in *.
  eapply finalize_li; [eassumption|]. eapply finalize_up_to_li; eassumption.
Qed.

(* the stored-value invariant holds of the tree the block phase answers: every input, every option set *)
Theorem parse_blocks_leaves o x r : parse_blocks o x = Ok r -> all_info Ln (br_root r).
Proof.
  unfold parse_blocks. intro H.
  destruct (front_matter_prologue o init_state x) as [[st rest]| |] eqn:E; cbn [bind] in H; try discriminate H.
  pose proof (front_matter_prologue_li _ _ _ _ E) as P.
  pose proof (lines_LK rest) as LK. unfold lines in LK. destruct (feed_lines rest) as [ls total]. cbn [fst] in LK.
  unfold run_lines in H.
  destruct (process_lines o st ls) as [s1| |] eqn:R; cbn [bind] in H; try discriminate H.
  destruct (finalize_document o s1) as [s2| |] eqn:F; cbn [bind] in H; try discriminate H.
  inversion H; subst. cbn [br_root]. apply LI_all.
  eapply finalize_document_li; [exact F|]. eapply process_lines_li; eassumption.
Qed.
