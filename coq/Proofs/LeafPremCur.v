(* Proofs/LeafPremCur.v — C01, the premises of the inline phase, part 8 (bricks for the clause `first line not blank`):
   what the cursor knows after find_first_nonspace (FF: the bytes between offset and first_nonspace are spaces / tabs, the
   byte at first_nonspace is not, `blank` is the line-end test of that byte), and when add_line appends a NON-BLANK line
   suffix (RDY): the lazy continuation (cursor just rescanned, line not blank) and the add_line that follows
   advance_offset(first_nonspace - offset) on the line or on a prefix of it (chop_trailing_hashtags). *)
From Coq Require Import List NArith Arith Bool Lia Strings.String.
From V Require Import Base.Bytes Base.Res Gen.StrLeafGen Model.Ast Model.Strings Spec.EscapeSpec Model.RefDef Model.Blocks
  Proofs.StrLeafProofs Proofs.BlocksProofs Proofs.BlocksCursor Proofs.BlocksTotal Proofs.BlocksTotal3Cur Proofs.BlocksTotal6Val
  Proofs.LeafPremBytes Proofs.LeafPremBlank Proofs.LeafPremPct.
Import ListNotations.
Local Open Scope list_scope.

Lemma ws_len_split s : exists w r, s = w ++ r /\ List.length w = ws_len s /\ forallb is_space_or_tab w = true
  /\ (forall b, nth_error r 0 = Some b -> is_space_or_tab b = false).
Proof.
  induction s as [|b s IH]; [exists [], []; repeat split; intros b H; discriminate H|].
  cbn [ws_len]. destruct IH as (w & r & Es & L & W & N).
  destruct (beqb b x20) eqn:E1.
  { apply beqb_eq in E1. subst b. exists (x20 :: w), r. rewrite Es at 1. repeat split; [cbn; now rewrite L | cbn [forallb]; now rewrite W | exact N]. }
  destruct (beqb b x09) eqn:E2.
  { apply beqb_eq in E2. subst b. exists (x09 :: w), r. rewrite Es at 1. repeat split; [cbn; now rewrite L | cbn [forallb]; now rewrite W | exact N]. }
  exists [], (b :: s). repeat split. intros b' H. cbn in H. inversion H; subst b'.
  destruct b; try reflexivity; [vm_compute in E2; discriminate E2 | vm_compute in E1; discriminate E1].
Qed.

Lemma skipn_nth {A} (l : list A) : forall k x, nth_error l k = Some x -> skipn k l = x :: skipn (S k) l.
Proof. revert l. intros l k. revert l. induction k as [|k IH]; intros l x H; destruct l; try discriminate H; [now inversion H | now apply IH]. Qed.

Definition FF (c : cursor) (line : bytes) : Prop :=
  c_offset c <= c_fns c /\ c_fns c <= List.length line /\
  (exists w, skipn (c_offset c) line = w ++ skipn (c_fns c) line /\ forallb is_space_or_tab w = true
             /\ List.length w = c_fns c - c_offset c) /\
  (forall b, nth_error line (c_fns c) = Some b -> is_space_or_tab b = false) /\
  c_blank c = match nth_error line (c_fns c) with Some b => is_line_end_char b | None => false end.

Lemma ffn_FF c line c' : CI c line -> find_first_nonspace c line = Ok c' ->
  FF c' line /\ c_offset c' = c_offset c /\ c_pct c' = c_pct c.
Proof.
  intros I H. destruct (ffn_total c line I) as (c2 & E & Fr & _ & Eo & _ & Ep & Le & _). rewrite E in H. inversion H; subst c2.
  split; [|split; assumption].
  destruct Fr as [Ff _].
  destruct (ws_len_split (skipn (c_offset c') line)) as (w & r & Es & Lw & Ww & Nr).
  assert (Er : r = skipn (c_fns c') line).
  { rewrite Ff, <- skipn_add, <- Lw. rewrite Es at 1. rewrite skipn_app, skipn_all, Nat.sub_diag. reflexivity. }
  unfold FF. split; [lia|]. split; [lia|]. split; [|split].
  - exists w. split; [now rewrite <- Er|]. split; [exact Ww | lia].
  - intros b Hb. apply Nr. rewrite Er, nth_error_skipn', Nat.add_0_r. exact Hb.
  - clear -E. unfold find_first_nonspace in E.
    destruct (if Nat.leb (c_fns c) (c_offset c) then _ else _) as [f fc].
    destruct (sub _ fc (c_column c)) as [ind| |]; cbn [bind] in E; try discriminate E. inversion E; subst. reflexivity.
Qed.

Lemma FF_nonblank c line : FF c line -> c_blank c = false -> c_fns c < List.length line ->
  exists b r, skipn (c_fns c) line = b :: r /\ is_space_or_tab b = false /\ is_line_end_char b = false.
Proof.
  intros (_ & _ & _ & N & B) Bk Lt.
  destruct (nth_error line (c_fns c)) as [b|] eqn:E; [|apply nth_error_None in E; lia].
  exists b, (skipn (S (c_fns c)) line). split; [now apply skipn_nth|]. split; [now apply N | congruence].
Qed.

Lemma FF_lf c line : lf_terminated line -> FF c line -> c_offset c < List.length line -> c_fns c < List.length line.
Proof.
  intros [l ->] (Le & Lf & (w & Es & Ww & Lw) & _) Lt.
  destruct (Nat.eq_dec (c_fns c) (List.length (l ++ [x0a]))) as [E|]; [|lia]. exfalso.
  rewrite E, skipn_all, app_nil_r in Es. rewrite app_length in Lt. cbn [List.length] in Lt.
  rewrite skipn_app in Es. replace (c_offset c - List.length l) with 0 in Es by lia. cbn [skipn] in Es.
  rewrite forallb_forall in Ww. assert (In x0a w) as Hin by (rewrite <- Es; apply in_or_app; right; now left).
  specialize (Ww _ Hin). discriminate Ww.
Qed.

(* ------------------------------------------------------------------ what add_line appends *)
Definition aoff (c : cursor) : nat := if c_pct c then S (c_offset c) else c_offset c.
Definition RDY (c : cursor) (l : bytes) : Prop :=
  (aoff c < List.length l -> is_blank (skipn (aoff c) l) = false) /\ (c_pct c = true -> aoff c < List.length l).

Lemma nonblank_cons b r : is_space_or_tab b = false -> is_line_end_char b = false -> is_blank (b :: r) = false.
Proof. intros A B. cbn [is_blank]. now rewrite B, A. Qed.

Lemma RDY_lazy c line : lf_terminated line -> FF c line -> PCT line c -> c_blank c = false -> RDY c line.
Proof.
  intros LN F P Bk. pose proof F as (Le & Lf & (w & Es & Ww & Lw) & N & _).
  unfold RDY, aoff. destruct (c_pct c) eqn:Pc.
  - specialize (P Pc). assert (Lo : c_offset c < List.length line) by (apply nth_error_Some; congruence).
    pose proof (FF_lf _ _ LN F Lo) as Lt.
    destruct w as [|t w'].
    { exfalso. cbn [List.length] in Lw. assert (c_fns c = c_offset c) as Ef by lia. rewrite Ef in N. specialize (N _ P). discriminate N. }
    cbn [List.length] in Lw. cbn [forallb] in Ww. apply andb_true_iff in Ww as [_ Ww].
    assert (E1 : skipn (S (c_offset c)) line = w' ++ skipn (c_fns c) line).
    { replace (S (c_offset c)) with (c_offset c + 1) by lia. rewrite <- skipn_add, Es. reflexivity. }
    split; [|intros _; lia]. intros _. rewrite E1, is_blank_ws_app by exact Ww.
    destruct (FF_nonblank _ _ F Bk Lt) as (b & r & -> & A & B). now apply nonblank_cons.
  - split; [|discriminate]. intro Lo. pose proof (FF_lf _ _ LN F Lo) as Lt.
    rewrite Es, is_blank_ws_app by exact Ww.
    destruct (FF_nonblank _ _ F Bk Lt) as (b & r & -> & A & B). now apply nonblank_cons.
Qed.

Lemma RDY_at_fns c5 cs line k : FF cs line -> c_blank cs = false -> c_pct c5 = false -> c_offset c5 = c_fns cs ->
  RDY c5 (firstn k line).
Proof.
  intros F Bk P O. unfold RDY, aoff. rewrite P, O. split; [|discriminate]. intro Lt.
  rewrite firstn_length in Lt. assert (Lf : c_fns cs < List.length line) by lia.
  destruct (FF_nonblank _ _ F Bk Lf) as (b & r & E & A & B).
  rewrite skipn_firstn_comm, E. destruct (k - c_fns cs) as [|d] eqn:D; [lia|]. cbn [firstn]. now apply nonblank_cons.
Qed.

(* advance_offset(first_nonspace - offset, false): the offset is first_nonspace, the tab flag is off *)
Lemma adv_to_fns line st l1 count st' :
  FF (ps_cur st) line -> PCT line (ps_cur st) ->
  c_fns (ps_cur st) <= List.length l1 -> count = c_fns (ps_cur st) - c_offset (ps_cur st) ->
  adv st l1 count false = Ok st' ->
  c_offset (ps_cur st') = c_fns (ps_cur st) /\ c_pct (ps_cur st') = false.
Proof.
  intros F P Lf -> H. pose proof F as (Le & _ & _ & N & _).
  unfold adv, advance_offset in H.
  destruct (advance_bytes_exact l1 (c_fns (ps_cur st) - c_offset (ps_cur st)) (c_offset (ps_cur st)) (c_column (ps_cur st)) (c_pct (ps_cur st))
              (c_fns (ps_cur st) - c_offset (ps_cur st)) (le_n _) ltac:(lia)) as [col' E].
  rewrite E in H. cbn [bind] in H. inversion H; subst. cbn. split; [lia|].
  destruct (Nat.eqb (c_fns (ps_cur st) - c_offset (ps_cur st)) 0) eqn:Z; [|reflexivity].
  apply Nat.eqb_eq in Z. destruct (c_pct (ps_cur st)) eqn:Pc; [|reflexivity]. exfalso.
  specialize (P Pc). assert (c_fns (ps_cur st) = c_offset (ps_cur st)) as Ef by lia. rewrite Ef in N. specialize (N _ P). discriminate N.
Qed.

Lemma chop_prefix l l1 : chop_trailing_hashtags l = Ok l1 -> exists k, l1 = firstn k l.
Proof.
  unfold chop_trailing_hashtags. rewrite rtrim_ok. cbn [bind fst]. intro H.
  destruct (rtrim_prefix l) as [k Ek].
  destruct (rtrim_slice l) as [|x r] eqn:R; [discriminate H|]. rewrite <- R in *. clear R.
  destruct (Nat.leb _ _); [inversion H; subst; now exists k|].
  destruct (nth_error _ _); [|discriminate H].
  destruct (_ && _); [|inversion H; subst; now exists k].
  rewrite rtrim_ok in H. cbn [bind fst] in H. inversion H; subst.
  match goal with |- exists _, rtrim_slice ?y = _ => destruct (rtrim_prefix y) as [k2 E2]; rewrite E2 end.
  rewrite Ek, !firstn_firstn. eexists. reflexivity.
Qed.
