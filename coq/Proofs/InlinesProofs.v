(* Proofs/InlinesProofs.v — lemmas about Model/Inlines.v. *)
From Coq Require Import List NArith ZArith Bool Strings.String Lia.
From V Require Import Base.Bytes Base.Res Gen.StrLeafGen Gen.Consts Gen.Special Model.Special
     Model.Scan Model.Strings Model.Entity Model.LinkUrl Model.AutolinkLeaf Model.Spx Model.Ast Model.Inlines.
Import ListNotations.
Local Open Scope list_scope.

Definition io_default : iopts :=
  mkIO false false false false false false false false false false false false false false false false false.
Definition oracle_ascii : oracle := mkOracle (fun _ => false) (fun _ => false) (fun s => map to_lower_ascii s).

Lemma inlines_example_proof :
  run_inlines io_default oracle_ascii [x2a; x61; x2a] [0%N] 1%N [] 100000%N 0%N
  = Ok (Done [Node Emph (mkSp 1 1 1 3) [Node (Text [x61]) (mkSp 1 2 1 2) []]] 0%N).
Proof. vm_compute. reflexivity. Qed.
