(* Proofs/InlinesProofs.v — lemmas about Model/Inlines.v. *)
From Coq Require Import List NArith ZArith Bool Strings.String Lia.
From V Require Import Base.Bytes Base.Res Gen.StrLeafGen Gen.Consts Gen.Special Model.Special
     Model.Scan Model.Strings Model.Entity Model.LinkUrl Model.AutolinkLeaf Model.Spx Model.Ast Model.Inlines.
Import ListNotations.
Local Open Scope list_scope.

Definition io_default : iopts :=
  mkIO false false false false false false false false false false false false false false false false false.
Definition oracle_ascii : oracle := mkOracle (fun _ => false) (fun _ => false) (fun s => map to_lower_ascii s).

Lemma inlines_example_proof :
  run_inlines io_default oracle_ascii [x2a; x61; x2a] [0%N] 1%N [] 100000%N 0%N
  = Ok (Done [Node Emph (mkSp 1 1 1 3) [Node (Text [x61]) (mkSp 1 2 1 2) []]] 0%N).
Proof. vm_compute. reflexivity. Qed.

(* ------------------------------------------------------------------ generic inversion of monadic code *)
Ltac inv1 :=
  match goal with
  | H : _ = Ok _ |- _ => progress cbv zeta in H
  | H : Ok _ = Ok _ |- _ => inversion H; subst; clear H
  | H : (_, _) = (_, _) |- _ => inversion H; subst; clear H
  | H : Panic _ = Ok _ |- _ => discriminate H
  | H : OutOfFuel = Ok _ |- _ => discriminate H
  | H : bind ?r _ = Ok _ |- _ => let E := fresh "E" in destruct r eqn:E; cbn [bind] in H; try discriminate H
  | H : (let (_, _) := ?x in _) = Ok _ |- _ => let E := fresh "E" in destruct x eqn:E
  | H : (if ?b then _ else _) = Ok _ |- _ => let E := fresh "E" in destruct b eqn:E
  | H : match ?x with _ => _ end = Ok _ |- _ => let E := fresh "E" in destruct x eqn:E; try discriminate H
  end.
Ltac inv := repeat inv1.

(* ------------------------------------------------------------------ positions *)
Lemma count_while_b_le p s : count_while_b p s <= List.length s.
Proof. induction s; simpl; [lia|]. destruct (p a); simpl; lia. Qed.

Lemma adjust_pos inp lo s n ml ex s' n' :
  adjust_node_newlines inp lo s n ml ex = Ok (s', n') -> pos s' = pos s.
Proof. unfold adjust_node_newlines. intro H. inv; reflexivity. Qed.

Lemma stcb_loop_ge rest : forall p run otl fr b e b' sc,
  stcb_loop rest p run otl fr b = (Some e, b', sc) -> p <= e.
Proof.
  induction rest as [|c r IH]; intros p run otl fr b e b' sc H; simpl in H.
  - destruct run; [discriminate|]. destruct (Nat.eqb (S run) otl); inversion H; lia.
  - destruct (beqb c x60).
    + apply IH in H. lia.
    + destruct run.
      * apply IH in H. lia.
      * destruct (Nat.eqb (S run) otl); [inversion H; lia|]. apply IH in H. lia.
Qed.

Lemma beqb_sym a b : beqb a b = beqb b a.
Proof. unfold beqb. apply N.eqb_sym. Qed.

Lemma count_eq_pos inp c p c' : nth_error inp p = Some c' -> beqb c' c = true -> 1 <= count_eq inp c p.
Proof.
  unfold count_eq. intros E H.
  assert (exists r, skipn p inp = c' :: r) as [r Hr].
  { clear H. revert inp E. induction p; intros [|x l] E; simpl in *; try discriminate.
    - inversion E. eauto.
    - eauto. }
  rewrite Hr. simpl. rewrite beqb_sym, H. lia.
Qed.

Lemma label_loop_ge stop rest : forall skip p length p' c,
  label_loop stop rest skip p length = Some (p', c) -> p <= p'.
Proof.
  induction rest as [|x r IH]; intros skip p length p' c H; simpl in H.
  - inversion H; lia.
  - destruct skip.
    + destruct (stop x); [inversion H; lia|].
      destruct (beqb x x5c).
      * destruct r as [|c2 r2].
        -- destruct (Nat.ltb maxlabel (length + 1)); [discriminate|]. apply IH in H. lia.
        -- destruct (sl_ispunct c2).
           ++ destruct (Nat.ltb maxlabel (length + 2)); [discriminate|]. apply IH in H. lia.
           ++ destruct (Nat.ltb maxlabel (length + 1)); [discriminate|]. apply IH in H. lia.
      * destruct (Nat.ltb maxlabel (length + 1)); [discriminate|]. apply IH in H. lia.
    + apply IH in H. lia.
Qed.

Section Advance.
Variable memo : bool.
Variable o : iopts.
Variable u : oracle.
Variable inp : bytes.
Variable lo : list N.
Variable start_line : N.
Variable refmap : list (bytes * (bytes * bytes)).
Variable maxref : N.

Lemma skip_spaces_ge p : p <= skip_spaces inp p.
Proof. unfold skip_spaces. lia. Qed.

Ltac fin :=
  cbn [pos set_pos set_linecol set_flags set_lineoff set_refsize set_delims set_brackets set_within set_bt set_nlo set_sibs
       push_item fresh_id fst snd];
  repeat match goal with |- context [if ?b then _ else _] => destruct b end;
  try match goal with |- _ < skip_spaces _ ?p => pose proof (skip_spaces_ge p) end;
  try lia.

Lemma adv_newline s s' n c :
  nth_error inp (pos s) = Some c -> beqb c x0d || beqb c x0a = true ->
  handle_newline inp s = Ok (s', n) -> pos s < pos s'.
Proof.
  unfold handle_newline. intros E0 Hc H. rewrite E0 in H.
  destruct (beqb c x0d) eqn:Ecr.
  - destruct (nth_error inp (S (pos s))) as [c1|]; [|discriminate].
    inv; fin.
  - rewrite E0 in H. simpl in Hc. rewrite Hc in H.
    inv; fin.
Qed.

Lemma adv_backticks s s' n c :
  nth_error inp (pos s) = Some c -> beqb c x60 = true ->
  handle_backticks memo inp lo s = Ok (s', n) -> pos s < pos s'.
Proof.
  intros E0 Hc H. unfold handle_backticks in H.
  pose proof (count_eq_pos inp x60 (pos s) c E0 Hc) as Hn.
  destruct (scan_to_closing_backtick memo inp (set_pos s (pos s + count_eq inp x60 (pos s))) (count_eq inp x60 (pos s))) as [e s2] eqn:Es.
  destruct e as [endpos|].
  - assert (pos s + count_eq inp x60 (pos s) <= endpos) as Hge.
    { unfold scan_to_closing_backtick in Es.
      destruct (Nat.ltb maxbt (count_eq inp x60 (pos s))); [inversion Es|].
      destruct (_ && _ && _); [inversion Es|].
      cbn [pos set_pos] in Es.
      destruct (stcb_loop _ _ _ _ _ _) as [[r b'] sc] eqn:El. inversion Es; subst.
      apply stcb_loop_ge in El. exact El. }
    inv. apply adjust_pos in H. rewrite H. cbn [pos set_pos]. lia.
  - inv. cbn [pos set_pos]. lia.
Qed.

Lemma adv_backslash s s' n : handle_backslash o inp s = Ok (s', n) -> pos s < pos s'.
Proof.
  unfold handle_backslash, skip_line_end. intro H.
  inv; fin.
Qed.

Lemma adv_entity s s' n : handle_entity inp s = Ok (s', n) -> pos s < pos s'.
Proof. unfold handle_entity. intro H. inv; cbn [pos set_pos]; lia. Qed.

Lemma adv_pointy s s' n : handle_pointy_brace inp lo s = Ok (s', n) -> pos s < pos s'.
Proof.
  unfold handle_pointy_brace. intro H.
  inv1. inv1.
  { inv; cbn [pos set_pos]; lia. }
  inv1.
  { inv; cbn [pos set_pos]; lia. }
  match type of H with (let '(_, _) := ?x in _) = _ => destruct x as [ml [[[fc fd] fp] fm]] end.
  destruct ml.
  - inv. apply adjust_pos in H. rewrite H. cbn [pos set_pos set_flags]. lia.
  - inv. cbn [pos set_pos set_flags]. lia.
Qed.

Lemma adv_delim s s' n d c c0 :
  nth_error inp (pos s) = Some c0 -> beqb c0 c = true ->
  handle_delim o u inp s c = Ok (s', n, d) -> pos s < pos s'.
Proof.
  intros E0 Hc H. unfold handle_delim in H.
  pose proof (count_eq_pos inp c (pos s) c0 E0 Hc) as Hn.
  destruct (scan_delims o u inp (pos s) c) as [[[p' nd] co] cc] eqn:Es.
  assert (pos s < p') as Hlt.
  { unfold scan_delims in Es. cbv zeta in Es.
    repeat match type of Es with (if ?b then _ else _) = _ => destruct b end; inversion Es; subst;
      repeat match goal with |- context [if ?b then _ else _] => destruct b end; lia. }
  inv; fin.
Qed.

Lemma adv_hyphen s s' n : handle_hyphen o inp s = Ok (s', n) -> pos s < pos s'.
Proof. unfold handle_hyphen. intro H. inv; fin. Qed.

Lemma adv_period s s' n : handle_period o inp s = Ok (s', n) -> pos s < pos s'.
Proof. unfold handle_period. intro H. inv; fin. Qed.

Lemma adv_dollars s s' n c :
  nth_error inp (pos s) = Some c -> beqb c x24 = true ->
  handle_dollars o inp lo s = Ok (s', n) -> pos s < pos s'.
Proof.
  intros E0 Hc H. unfold handle_dollars in H.
  pose proof (count_eq_pos inp x24 (pos s) c E0 Hc) as Hn.
  inv1. { inv; fin. }
  inv1. inv1.
  all: match type of H with match ?e with _ => _ end = _ => destruct e as [endpos|] eqn:Ee end.
  all: try (assert (pos s < endpos) as Hlt by
      (match type of Ee with match ?a with _ => _ end = _ => destruct a as [ep|]; [|discriminate] end;
       match type of Ee with (if ?b then _ else _) = _ => destruct b eqn:El; [|discriminate] end;
       inversion Ee; subst; apply Nat.leb_le in El; lia)).
  all: inv; try (apply adjust_pos in H; rewrite H); fin.
Qed.

Lemma wikilink_component_ge p p' : wikilink_component inp p = Some p' -> p < p'.
Proof.
  unfold wikilink_component. destruct (_ && _); [discriminate|].
  destruct (label_loop _ _ _ _ _) as [[q c]|] eqn:E; [|discriminate].
  intro H. inversion H; subst. apply label_loop_ge in E. lia.
Qed.

Lemma adv_wikilink s s' n : handle_wikilink o inp s = Ok (Some (s', n)) -> pos s < pos s'.
Proof.
  unfold handle_wikilink. intro H.
  destruct (wikilink_url_link_label o inp (pos s)) as [[[url ll] p']|] eqn:E; [|discriminate].
  assert (pos s < p') as Hlt.
  { unfold wikilink_url_link_label in E.
    destruct (negb _); [discriminate|].
    destruct (wikilink_component inp (pos s)) as [p1|] eqn:E1; [|discriminate].
    apply wikilink_component_ge in E1.
    destruct (_ && _); [inversion E; lia|].
    destruct (negb _); [discriminate|].
    destruct (wikilink_component inp p1) as [p2|] eqn:E2; [|discriminate].
    apply wikilink_component_ge in E2.
    destruct (_ && _); [|discriminate].
    destruct (wikilinks_mode o) as [[|]|]; inversion E; lia. }
  inv; fin.
Qed.

Lemma link_label_gt p l p' : link_label inp p = Some (l, p') -> p < p'.
Proof.
  unfold link_label. destruct (negb _); [discriminate|].
  destruct (label_loop _ _ _ _ _) as [[q [c|]]|] eqn:E; try discriminate.
  destruct (beqb c x5d); [|discriminate]. intro H; inversion H; subst.
  apply label_loop_ge in E. lia.
Qed.

Lemma close_bracket_match_pos s img url title s' :
  close_bracket_match o inp s img url title = Ok s' -> pos s' = pos s.
Proof. unfold close_bracket_match, top_bracket, pop_bracket, fresh_id. intro H. inv; fin; reflexivity. Qed.

Lemma ref_lookup_pos s lab s' r : ref_lookup refmap maxref s lab = Ok (s', r) -> pos s' = pos s.
Proof. unfold ref_lookup. intro H. inv; fin; reflexivity. Qed.

Lemma adv_close_bracket s0 s' n : handle_close_bracket o u inp refmap maxref s0 = Ok (s', n) -> pos s0 < pos s'.
Proof.
  unfold handle_close_bracket. intro H. cbv zeta in H. cbn [pos set_pos] in H.
  destruct (link_label inp (S (pos s0))) as [[l pl]|] eqn:El.
  - apply link_label_gt in El.
    inv;
      repeat match goal with
             | Hc : close_bracket_match _ _ _ _ _ _ = Ok _ |- _ => apply close_bracket_match_pos in Hc; rewrite Hc; clear Hc
             | Hr : ref_lookup _ _ _ _ = Ok _ |- _ => apply ref_lookup_pos in Hr; try rewrite Hr
             end; unfold pop_bracket, fresh_id in *; inv; fin.
  - inv;
      repeat match goal with
             | Hc : close_bracket_match _ _ _ _ _ _ = Ok _ |- _ => apply close_bracket_match_pos in Hc; rewrite Hc; clear Hc
             | Hr : ref_lookup _ _ _ _ = Ok _ |- _ => apply ref_lookup_pos in Hr; try rewrite Hr
             end; unfold pop_bracket, fresh_id in *; inv; fin.
Qed.

(* the bytes some arm of parse_inline takes before the default arm *)
Definition handled (w : bool) (c : byte) : bool :=
  beqb c x00 || (beqb c x0d || beqb c x0a) || beqb c x60 || beqb c x5c || beqb c x26 || beqb c x3c || beqb c x3a
  || (beqb c x77 && io_autolink o)
  || (beqb c x2a || beqb c x5f || beqb c x27 || beqb c x22
      || (beqb c x7e && (io_strikethrough o || io_subscript o))
      || (beqb c x5e && io_superscript o && negb w)
      || (beqb c x7c && io_spoiler o))
  || beqb c x2d || beqb c x2e || beqb c x5b || beqb c x5d || beqb c x21 || beqb c x24.
End Advance.

Lemma stop_handled_bool : forall a b c d e f g w,
  let o := mkIO a b c d e f false false false false false false g false false false false in
  forall x, implb (stops_at (io_fn o) w x) (handled o w x) = true.
Proof.
  intros a b c d e f g w.
  destruct a, b, c, d, e, f, g, w; cbv zeta; apply forall_bytes; vm_compute; reflexivity.
Qed.

Lemma io_fn_tables o :
  let o' := mkIO (io_autolink o) (io_strikethrough o) (io_subscript o) (io_superscript o) (io_underline o) (io_spoiler o)
                 false false false false false false (io_smart o) false false false false in
  forall w x, stops_at (io_fn o) w x = stops_at (io_fn o') w x.
Proof.
  intros o' w x. unfold stops_at, special_chars, skip_chars, smart_chars, table_of.
  reflexivity.
Qed.

Ltac fin :=
  cbn [pos set_pos set_linecol set_flags set_lineoff set_refsize set_delims set_brackets set_within set_bt set_nlo set_sibs
       push_item fresh_id fst snd];
  repeat match goal with |- context [if ?b then _ else _] => destruct b end;
  try match goal with |- _ < skip_spaces ?i ?p => pose proof (skip_spaces_ge i p) end;
  try lia.

Lemma scan_ge o w l : forall n, (n <= scan o w l n)%N.
Proof. induction l as [|c r IH]; intro n; simpl; [lia|]. destruct (stops_at o w c); [lia|]. specialize (IH (N.succ n)). lia. Qed.

Lemma skipn_nth {A} (l : list A) : forall p c, nth_error l p = Some c -> exists r, skipn p l = c :: r.
Proof. induction l as [|x l IH]; intros [|p] c E; simpl in *; try discriminate; [inversion E; eauto|eauto]. Qed.

Lemma find_special_gt o w inp p c :
  nth_error inp p = Some c -> stops_at o w c = false -> p < N.to_nat (find_special_char o w inp p).
Proof.
  intros E Hs. unfold find_special_char.
  assert (p < List.length inp) as Hl by (apply nth_error_Some; congruence).
  destruct (Nat.leb p (List.length inp)) eqn:El; [|apply Nat.leb_gt in El; lia].
  destruct (skipn_nth inp p c E) as [r Hr]. rewrite Hr. simpl. rewrite Hs.
  pose proof (scan_ge o w r (N.succ (N.of_nat p))). lia.
Qed.

Theorem parse_inline_advances_lemma memo o u inp lo sl refmap maxref s s' :
  io_autolink o = false ->
  parse_inline memo o u inp lo sl refmap maxref s = Ok (Some s') -> pos s < pos s'.
Proof.
  intros Ha H. unfold parse_inline in H.
  destruct (peek inp (pos s)) as [c|] eqn:Ec; [|discriminate]. unfold peek in Ec.
  inv1. destruct (nth_error lo (N.to_nat a)) as [off|]; [|discriminate].
  remember (set_lineoff s off) as s1 eqn:Hs1.
  assert (pos s1 = pos s) as Hp by (subst s1; reflexivity).
  rewrite <- Hp in *. clear Hs1 Hp E a s.
  destruct (beqb c x00) eqn:E00; [discriminate|].
  destruct (beqb c x0d || beqb c x0a) eqn:Enl.
  { unfold append in H. inv. fin. eapply adv_newline; eauto. }
  destruct (beqb c x60) eqn:Ebt.
  { unfold append in H. inv. fin. eapply adv_backticks; eauto. }
  destruct (beqb c x5c) eqn:Ebs.
  { unfold append in H. inv. fin. eapply adv_backslash; eauto. }
  destruct (beqb c x26) eqn:Eamp.
  { unfold append in H. inv. fin. eapply adv_entity; eauto. }
  destruct (beqb c x3c) eqn:Elt.
  { unfold append in H. inv. fin. eapply adv_pointy; eauto. }
  destruct (beqb c x3a) eqn:Ecolon.
  { rewrite Ha in H. cbv iota in H. cbn [bind] in H. unfold text1, append in H. inv. fin. }
  rewrite Ha in H. rewrite andb_false_r in H. cbv iota in H.
  match type of H with (if ?b then _ else _) = _ => destruct b eqn:Edel end.
  { inv; match goal with E : handle_delim _ _ _ _ _ = Ok _ |- _ => eapply adv_delim in E; [|exact Ec|unfold beqb; apply N.eqb_refl] end; unfold push_item in *; inv; match goal with |- context [match ?x with Some _ => _ | None => _ end] => destruct x end; fin. }
  destruct (beqb c x2d) eqn:Ehy.
  { unfold append in H. inv. fin. eapply adv_hyphen; eauto. }
  destruct (beqb c x2e) eqn:Epe.
  { unfold append in H. inv. fin. eapply adv_period; eauto. }
  destruct (beqb c x5b) eqn:Eob.
  { cbv zeta in H. inv1.
    match type of H with match ?w with _ => _ end = _ => destruct w as [[s2 n]|] end.
    - match goal with E : (if ?b then _ else _) = Ok _ |- _ =>
        destruct b; [|discriminate E]; apply adv_wikilink in E; cbn [pos set_pos] in E end.
      inv. fin.
    - inv; unfold push_item, push_bracket in *; inv; fin. }
  destruct (beqb c x5d) eqn:Ecb.
  { inv1. match goal with E : handle_close_bracket _ _ _ _ _ _ = Ok ?p |- _ => destruct p as [s2 n]; apply adv_close_bracket in E; cbn [pos set_within] in E end. unfold push_item in *; inv; repeat match goal with |- context [match ?x with Some _ => _ | None => _ end] => destruct x end; fin. }
  destruct (beqb c x21) eqn:Ebang.
  { cbv zeta in H. unfold append, push_bracket, push_item in H. inv; fin. }
  destruct (beqb c x24) eqn:Edol.
  { unfold append in H. inv. fin. eapply adv_dollars; eauto. }
  (* default arm *)
  assert (stops_at (io_fn o) (within s1) c = false) as Hstop.
  { rewrite io_fn_tables. cbv zeta.
    match goal with |- stops_at (io_fn ?o') ?w c = false => 
      pose proof (stop_handled_bool (io_autolink o) (io_strikethrough o) (io_subscript o) (io_superscript o)
                                    (io_underline o) (io_spoiler o) (io_smart o) w c) as Hh end.
    cbv zeta in Hh.
    destruct (stops_at _ _ c); [|reflexivity].
    simpl in Hh. unfold handled in Hh. cbn [io_autolink io_strikethrough io_subscript io_superscript io_spoiler] in Hh.
    rewrite E00, Enl, Ebt, Ebs, Eamp, Elt, Ecolon, Ha, Ehy, Epe, Eob, Ecb, Ebang, Edol in Hh.
    rewrite andb_false_r in Hh. simpl in Hh. rewrite orb_false_r in Hh.
    rewrite Edel in Hh. discriminate. }
  pose proof (find_special_gt (io_fn o) (within s1) inp (pos s1) c Ec Hstop) as Hgt.
  cbv zeta in H. unfold append in H. inv; fin.
Qed.

Lemma parse_inline_some_lt memo o u inp lo sl refmap maxref s s' :
  parse_inline memo o u inp lo sl refmap maxref s = Ok (Some s') -> pos s < List.length inp.
Proof.
  unfold parse_inline, peek. destruct (nth_error inp (pos s)) eqn:E; [|discriminate].
  intros _. apply nth_error_Some. congruence.
Qed.

Theorem inline_loop_fuel_lemma memo o u inp lo sl refmap maxref :
  io_autolink o = false ->
  forall fuel s, List.length inp - pos s < fuel ->
    inline_loop memo o u inp lo sl refmap maxref fuel s = OutOfFuel ->
    exists s', parse_inline memo o u inp lo sl refmap maxref s' = OutOfFuel.
Proof.
  intros Ha. induction fuel as [|f IH]; intros s Hf H; [lia|].
  simpl in H. destruct (parse_inline memo o u inp lo sl refmap maxref s) as [[s'|]| |] eqn:E; cbn [bind] in H; try discriminate.
  - pose proof (parse_inline_advances_lemma _ _ _ _ _ _ _ _ _ _ Ha E).
    pose proof (parse_inline_some_lt _ _ _ _ _ _ _ _ _ _ E).
    apply (IH s'); [lia|exact H].
  - eauto.
Qed.

(* ------------------------------------------------------------------ the backtick memo (C06) *)
Definition backtick_memo_sound_full_statement : Prop :=
  forall o u content lo sl refmap maxref rs0,
    run_inlines_gen true o u content lo sl refmap maxref rs0
    = run_inlines_gen false o u content lo sl refmap maxref rs0.

(* three backticks, a, a two-backtick span holding a single backtick, d, then a one-backtick span x *)
Definition memo_witness : bytes :=
  [x60; x60; x60; x20; x61; x20; x60; x60; x20; x62; x20; x60; x20; x63; x20; x60; x60; x20; x64; x20; x60; x20; x78; x20; x60].

(* what both parsers find at the end of the witness (before the repair of INL-1 the parser with the memo left a
   literal backtick there: the table entry of the last one-backtick run had been overwritten by an earlier one) *)
Definition last_child (r : res outcome) : option node :=
  match r with Ok (Done l _) => Some (last l (Node Document (mkSp 0 0 0 0) [])) | _ => None end.

Lemma memo_witness_values :
  last_child (run_inlines_gen false io_default oracle_ascii memo_witness [0%N] 1%N [] 100000%N 0%N)
    = Some (Node (Code 1 [x78]) (mkSp 1 21 1 25) [])
  /\ last_child (run_inlines_gen true io_default oracle_ascii memo_witness [0%N] 1%N [] 100000%N 0%N)
    = Some (Node (Code 1 [x78]) (mkSp 1 21 1 25) []).
Proof. split; vm_compute; reflexivity. Qed.

(* the memo only ever turns an answer into None; it never invents a closer *)
Lemma backtick_memo_partial_lemma inp s otl :
  fst (scan_to_closing_backtick true inp s otl) = None
  \/ scan_to_closing_backtick true inp s otl = scan_to_closing_backtick false inp s otl.
Proof.
  unfold scan_to_closing_backtick. destruct (Nat.ltb maxbt otl); [left; reflexivity|].
  cbn [andb]. destruct (scanned s && Nat.leb (nth otl (bt s) 0) (pos s)); [left; reflexivity|right; reflexivity].
Qed.

(* and without a completed scan (scanned_for_backticks = false) the memo is not consulted *)
Lemma backtick_memo_unscanned inp s otl :
  scanned s = false -> scan_to_closing_backtick true inp s otl = scan_to_closing_backtick false inp s otl.
Proof. unfold scan_to_closing_backtick. intros ->. reflexivity. Qed.

(* ------------------------------------------------------------------ node kinds (C04, inline half) *)
From V Require Gen.Nodes.
Definition ival (v : node_value) : bool :=
  match v with
  | Text _ | SoftBreak | LineBreak | Code _ _ | HtmlInline _ | Emph | Strong | Strikethrough | Superscript
  | Link _ _ | Image _ _ | FootnoteReference _ _ _ | Math _ _ _ | Escaped | WikiLink _ | Underline | Subscript
  | SpoileredText | EscapedTag _ => true
  | _ => false
  end.

Fixpoint itree (n : node) : bool :=
  match n with Node v _ ch => ival v && forallb itree ch end.

(* an inline value may be a child of every block that holds inlines and of every inline the model nests under
   (the table is regenerated from can_contain_type of src/nodes.rs) *)
Lemma ival_can_contain v :
  ival v = true ->
  Gen.Nodes.can_contain KParagraph (kind_of v) = true /\ Gen.Nodes.can_contain KHeading (kind_of v) = true
  /\ Gen.Nodes.can_contain KEmph (kind_of v) = true
  /\ Gen.Nodes.can_contain KStrong (kind_of v) = true /\ Gen.Nodes.can_contain KLink (kind_of v) = true
  /\ Gen.Nodes.can_contain KImage (kind_of v) = true /\ Gen.Nodes.can_contain KStrikethrough (kind_of v) = true
  /\ Gen.Nodes.can_contain KSuperscript (kind_of v) = true /\ Gen.Nodes.can_contain KSubscript (kind_of v) = true
  /\ Gen.Nodes.can_contain KUnderline (kind_of v) = true /\ Gen.Nodes.can_contain KSpoileredText (kind_of v) = true
  /\ Gen.Nodes.can_contain KEscapedTag (kind_of v) = true /\ Gen.Nodes.can_contain KWikiLink (kind_of v) = true
  /\ Gen.Nodes.can_contain KEscaped (kind_of v) = true.
Proof. destruct v; intro H; try discriminate H; vm_compute; repeat split; reflexivity. Qed.

(* a table cell takes every inline kind but the two breaks (its content is a single line) *)
Lemma ival_can_contain_cell v :
  ival v = true -> (match v with SoftBreak | LineBreak => false | _ => true end) = true ->
  Gen.Nodes.can_contain KTableCell (kind_of v) = true.
Proof. destruct v; intros H1 H2; try discriminate H1; try discriminate H2; reflexivity. Qed.

Lemma emph_value_inline o c n : ival (emph_value o c n) = true.
Proof. unfold emph_value. repeat match goal with |- context [if ?b then _ else _] => destruct b end; reflexivity. Qed.

Definition inline_kinds_valid_full_statement : Prop :=
  forall memo o u inp lo sl refmap maxref rs0 ch rs,
    parse_inlines memo o u inp lo sl refmap maxref rs0 = Ok (ch, rs) -> forallb itree ch = true.

(* ------------------------------------------------------------------ reference definitions: the title does not survive the
   rewind (INL-2 repaired: `title.clear()`).  content: [a]: /u NEWLINE "t" junk NEWLINE *)
Definition refdef_witness : bytes :=
  [x5b; x61; x5d; x3a; x20; x2f; x75; x0a; x22; x74; x22; x20; x6a; x75; x6e; x6b; x0a].

Lemma refdef_title_dropped_lemma :
  refdefs (map to_lower_ascii) refdef_witness
  = Ok ([x22; x74; x22; x20; x6a; x75; x6e; x6b; x0a], [([x61], ([x2f; x75], []))]).
Proof. vm_compute. reflexivity. Qed.
