(* Proofs/BlocksTotal4Frame.v — totality of the block phase, fourth round, step 2 (cursor), part 2: the list of sites
   the cursor walk excludes (cur_sites), the leaf functions and tree primitives under `but cur_sites`, and the frame
   lemmas (tree operations keep the cursor).  The walk itself is Proofs/BlocksTotal4Walk.v.

   al = but cur_sites: the walk proves the sites of `cur_sites` unreachable and allows every other one (they belong to
   other walks).  The invariants, for the line L = norm_line line0 that process_line works on (L ends with LF):

     C0 L st   CI (ps_cur st) L   (offset <= |L|; first_nonspace stale or the one a rescan would compute)
               and self.curline_len = |L|
     C1 L st   C0 and offset < |L|   (the cursor has not consumed the final LF)
     F0 / F1   the same after find_first_nonspace: the cursor is fresh, offset <= first_nonspace <= |L|,
               indent = first_nonspace_column - column, blank -> first_nonspace < |L|

   Tree operations do not touch the cursor (KC: frame lemmas for modify, finalize, add_child, the closing loops,
   parse_desc_list_details, the table functions). *)
From Coq Require Import List NArith Arith Bool Lia Strings.String.
From V Require Import Base.Bytes Base.Res Gen.Nodes Gen.BlocksConst Model.Ast Model.Strings Model.Entity Model.LinkUrl Model.ListMarker
  Model.Feed Model.FrontMatter Model.RefDef Model.Scan Model.Blocks Spec.EscapeSpec
  Proofs.StrLeafProofs Proofs.StrLeafEntity Proofs.BlocksProofs Proofs.BlocksCursor Proofs.BlocksTotal
  Proofs.BlocksTotal2Safe Proofs.BlocksTotal3Cur Proofs.BlocksTotal4Safe Proofs.BlocksTotal4Cur.
From V Require Proofs.BlocksTotal4Row.
Import ListNotations.
Local Open Scope string_scope.
Local Open Scope list_scope.

(* the sites this walk excludes: every index / slice / usize subtraction of mod.rs on the line and the cursor,
   parse_list_marker's indices, and the line / cursor sites of table.rs *)
Definition cur_sites : list string :=
  [ "mod.rs:find_first_nonspace:first_nonspace_column - column";
    "mod.rs:advance_offset:line[self.offset]";
    "mod.rs:is_not_greentext:line[self.first_nonspace + 1]";
    "mod.rs:parse_block_quote_prefix:line[self.first_nonspace]";
    "mod.rs:parse_block_quote_prefix:line[self.offset]";
    "mod.rs:parse_node_item_prefix:self.first_nonspace - self.offset";
    "mod.rs:parse_code_block_prefix:self.first_nonspace - self.offset";
    "mod.rs:parse_code_block_prefix:line[self.first_nonspace]";
    "mod.rs:parse_code_block_prefix:line[self.offset]";
    "mod.rs:parse_multiline_block_quote_prefix:line[self.first_nonspace]";
    "mod.rs:parse_multiline_block_quote_prefix:line[self.offset]";
    "mod.rs:check_open_blocks_inner:line[self.first_nonspace..]";
    "mod.rs:detect_alert:line[self.first_nonspace]";
    "mod.rs:handle_alert:line[title_startpos]";
    "mod.rs:handle_alert:line[title_startpos..]";
    "mod.rs:handle_alert:self.first_nonspace - self.offset";
    "mod.rs:handle_alert:self.curline_len - self.offset";
    "mod.rs:handle_alert:self.curline_len - self.offset - 1";
    "mod.rs:detect_multiline_blockquote:line[self.first_nonspace..]";
    "mod.rs:handle_multiline_blockquote:first_nonspace - offset";
    "mod.rs:handle_multiline_blockquote:first_nonspace + *matched - offset";
    "mod.rs:detect_blockquote:line[self.first_nonspace]";
    "mod.rs:handle_blockquote:self.first_nonspace + 1 - self.offset";
    "mod.rs:handle_blockquote:line[self.offset]";
    "mod.rs:detect_atx_heading:line[self.first_nonspace..]";
    "mod.rs:handle_atx_heading:heading_startpos + *matched - offset";
    "mod.rs:handle_atx_heading:position(|&c| c == b'#').unwrap()";
    "mod.rs:handle_atx_heading:line[hashpos]";
    "mod.rs:handle_atx_heading:level += 1";
    "mod.rs:detect_code_fence:line[self.first_nonspace..]";
    "mod.rs:handle_code_fence:line[first_nonspace]";
    "mod.rs:handle_code_fence:first_nonspace - offset";
    "mod.rs:handle_code_fence:first_nonspace + *matched - offset";
    "mod.rs:detect_html_block:line[self.first_nonspace..]";
    "mod.rs:detect_setext_heading:line[self.first_nonspace..]";
    "mod.rs:handle_setext_heading:line.len() - 1";
    "mod.rs:handle_setext_heading:line.len() - 1 - self.offset";
    "mod.rs:handle_thematic_break:line.len() - 1";
    "mod.rs:handle_thematic_break:line.len() - 1 - self.offset";
    "mod.rs:detect_footnote:line[self.first_nonspace..]";
    "mod.rs:handle_footnote:line[first_nonspace + 2..first_nonspace + matched]";
    "mod.rs:handle_footnote:self.first_nonspace + *matched - self.offset";
    "mod.rs:detect_description_list:line[self.first_nonspace..]";
    "mod.rs:handle_description_list:self.first_nonspace + *matched - self.offset";
    "mod.rs:handle_description_list:line[self.offset]";
    "parser/mod.rs:parse_list_marker:line[pos]";
    "parser/mod.rs:parse_list_marker:line[i]";
    "parser/mod.rs:parse_list_marker:line[pos] - b'0'";
    "mod.rs:handle_list:self.first_nonspace + *matched - self.offset";
    "mod.rs:handle_list:self.column - save_column";
    "mod.rs:handle_list:line[self.offset]";
    "mod.rs:add_text_to_container:self.first_nonspace - self.offset";
    "mod.rs:add_text_to_container:line[self.first_nonspace..]";
    "table.rs:try_opening_header:line[parser.first_nonspace..]";
    "table.rs:try_opening_header:line.len() - 1";
    "table.rs:try_opening_header:line.len() - 1 - parser.offset";
    "table.rs:try_opening_row:line[parser.first_nonspace..]";
    "table.rs:try_opening_row:line.len() - 1";
    "table.rs:try_opening_row:line.len() - 1 - parser.offset";
    "table.rs:row:string[offset + cell_matched..]";
    "table.rs:row:string[offset..offset + cell_matched]";
    "table.rs:row:string[start_offset - 1]";
    "table.rs:row:offset + cell_matched - 1";
    "table.rs:row:string[offset..]";
    "table.rs:row:String::from_utf8(cell).unwrap()" ].

Definition al : string -> bool := but cur_sites.
Notation sgc := (sg al true).
Notation ngc := (ng al true).

Ltac allowed := vm_compute; reflexivity.

(* walks through a leaf function none of whose sites is a cursor site *)
Ltac ngstep :=
  match goal with
  | |- ng _ _ (bind ?r _) => apply ng_bind; [ try solve [auto with ngc] | intros ]
  | |- ng _ _ (Ok _) => exact I
  | |- ng _ _ OutOfFuel => reflexivity
  | |- ng _ _ (Panic _) => first [assumption | allowed]
  | |- ng _ _ (OutOfScope _) => allowed
  | |- ng _ _ no_node => allowed
  | |- ng _ _ (res_map _ _) => apply ng_res_map
  | |- ng _ _ (if ?b then _ else _) => destruct b
  | |- ng _ _ (match ?x with _ => _ end) => destruct x
  | |- ng _ _ (let (_, _) := ?x in _) => destruct x
  end.
Ltac nggo := repeat ngstep; auto with ngc.

Create HintDb ngc.

Lemma ngc_idx site l i : al site = true -> ngc (idx site l i).
Proof. intro H. apply ng_idx. now right. Qed.
Lemma ngc_sub site a b : al site = true -> ngc (sub site a b).
Proof. intro H. apply ng_sub. now right. Qed.
Lemma ngc_slice_from site l i : al site = true -> ngc (Blocks.slice_from site l i).
Proof. intro H. apply ng_slice_from. now right. Qed.
Lemma ngc_from_utf8 site b : al site = true -> ngc (from_utf8 site b).
Proof. intro H. apply ng_from_utf8. now right. Qed.
#[export] Hint Extern 1 (ng _ _ (idx _ _ _)) => (apply ngc_idx; first [assumption | allowed]) : ngc.
#[export] Hint Extern 1 (ng _ _ (sub _ _ _)) => (apply ngc_sub; first [assumption | allowed]) : ngc.
#[export] Hint Extern 1 (ng _ _ (Blocks.slice_from _ _ _)) => (apply ngc_slice_from; first [assumption | allowed]) : ngc.
#[export] Hint Extern 1 (ng _ _ (from_utf8 _ _)) => (apply ngc_from_utf8; first [assumption | allowed]) : ngc.

(* ---- the leaf functions (their sites are their own) *)
Lemma ngc_trim s : ngc (Strings.trim s). Proof. rewrite trim_ok. exact I. Qed.
Lemma ngc_rtrim s : ngc (Strings.rtrim s). Proof. rewrite rtrim_ok. exact I. Qed.
Lemma ngc_unescape s : ngc (Strings.unescape s). Proof. rewrite unescape_is_spec. exact I. Qed.
Lemma ngc_unescape_html s : ngc (unescape_html s). Proof. apply ng_ex. apply unescape_html_total. Qed.
#[export] Hint Resolve ngc_trim ngc_rtrim ngc_unescape ngc_unescape_html : ngc.
Lemma ngc_remove_trailing_blank_lines s : ngc (remove_trailing_blank_lines s).
Proof. unfold remove_trailing_blank_lines. nggo. Qed.
Lemma ngc_chop_trailing_hashtags s : ngc (chop_trailing_hashtags s).
Proof. unfold chop_trailing_hashtags. nggo. Qed.
Lemma ngc_clean_url s : ngc (clean_url s). Proof. unfold clean_url. nggo. Qed.
Lemma ngc_clean_title s : ngc (clean_title s). Proof. unfold clean_title. nggo. Qed.
#[export] Hint Resolve ngc_remove_trailing_blank_lines ngc_chop_trailing_hashtags ngc_clean_url ngc_clean_title : ngc.
Lemma ngc_manual_scan_link_url s : ngc (manual_scan_link_url s). Proof. unfold manual_scan_link_url. nggo. Qed.
#[export] Hint Resolve ngc_manual_scan_link_url : ngc.
Lemma ngc_fm_line_at s k : ngc (fm_line_at s k). Proof. unfold fm_line_at, fm_slice, byte_slice_from. nggo. Qed.
#[export] Hint Resolve ngc_fm_line_at : ngc.
Lemma ngc_find_closing_line : forall fuel s d e, ngc (find_closing_line fuel s d e).
Proof. induction fuel as [|f IH]; intros s d e; cbn [find_closing_line]; nggo. Qed.
#[export] Hint Resolve ngc_find_closing_line : ngc.
Lemma ngc_split_off_front_matter s d : ngc (split_off_front_matter s d).
Proof. unfold split_off_front_matter, slice_to, FrontMatter.slice_from. nggo. Qed.
#[export] Hint Resolve ngc_split_off_front_matter : ngc.
Lemma ngc_peek s p : ngc (peek s p). Proof. unfold peek. nggo. Qed.
#[export] Hint Resolve ngc_peek : ngc.
Lemma ngc_skip_spaces : forall s, ngc (skip_spaces s).
Proof. induction s as [|c r IH]; cbn [skip_spaces]; nggo. Qed.
#[export] Hint Resolve ngc_skip_spaces : ngc.
Lemma ngc_skip_line_end s p : ngc (skip_line_end s p). Proof. unfold skip_line_end. nggo. Qed.
#[export] Hint Resolve ngc_skip_line_end : ngc.
Lemma ngc_spnl s p : ngc (spnl s p). Proof. unfold spnl. nggo. Qed.
#[export] Hint Resolve ngc_spnl : ngc.
Lemma ngc_label_loop : forall fuel s pos len c, ngc (label_loop fuel s pos len c).
Proof. induction fuel as [|f IH]; intros s pos len c; cbn [label_loop]; nggo. Qed.
#[export] Hint Resolve ngc_label_loop : ngc.
Lemma ngc_link_label s : ngc (link_label s). Proof. unfold link_label. nggo. Qed.
#[export] Hint Resolve ngc_link_label : ngc.
Lemma ngc_parse_reference_inline fold m s : ngc (parse_reference_inline fold m s).
Proof. unfold parse_reference_inline. nggo. Qed.
#[export] Hint Resolve ngc_parse_reference_inline : ngc.
Lemma ngc_resolve_loop fold : forall fuel m seek seeked, ngc (resolve_loop fuel fold m seek seeked).
Proof. induction fuel as [|f IH]; intros m seek seeked; cbn [resolve_loop]; nggo. Qed.
#[export] Hint Resolve ngc_resolve_loop : ngc.
Lemma ngc_resolve_refdefs fold m c : ngc (resolve_refdefs fold m c).
Proof. unfold resolve_refdefs. nggo. Qed.
#[export] Hint Resolve ngc_resolve_refdefs : ngc.
(* table.rs row / matches are total for every byte string (Proofs/BlocksTotal4Row.v) *)
Lemma ngc_row s sp : ngc (row s sp). Proof. apply ng_ex. apply BlocksTotal4Row.row_total. Qed.
#[export] Hint Resolve ngc_row : ngc.
Lemma ngc_table_matches s sp : ngc (table_matches s sp). Proof. apply ng_ex. apply BlocksTotal4Row.table_matches_total. Qed.
#[export] Hint Resolve ngc_table_matches : ngc.
Lemma ngc_copy_line_offsets : forall n lo k, ngc (copy_line_offsets n lo k).
Proof. induction n as [|m IH]; intros lo k; cbn [copy_line_offsets]; nggo. Qed.
Lemma ngc_header_cells : forall cells id ln sl sc po, ngc (header_cells cells id ln sl sc po).
Proof. induction cells as [|c r IH]; intros; cbn [header_cells]; nggo. Qed.
Lemma ngc_row_cells : forall n cells id ln sc lc, ngc (row_cells n cells id ln sc lc).
Proof. induction n as [|m IH]; intros cells id ln sc lc; destruct cells; cbn [row_cells]; nggo. Qed.
#[export] Hint Resolve ngc_copy_line_offsets ngc_header_cells ngc_row_cells : ngc.
Lemma ngc_parse_html_block_prefix st t : ngc (parse_html_block_prefix st t).
Proof. unfold parse_html_block_prefix. nggo. Qed.
#[export] Hint Resolve ngc_parse_html_block_prefix : ngc.

(* ---- tree primitives: any result is fine for this walk *)
Lemma ngc_get st x : ngc (get st x).
Proof. unfold get. destruct (find_node x (ps_root st)); [exact I | allowed]. Qed.
Lemma ngc_modify st x f : ngc (modify st x f).
Proof. unfold modify. destruct (upd x f (ps_root st)); [exact I | allowed]. Qed.
Lemma ngc_modify_info st x f : ngc (modify_info st x f).
Proof. apply ngc_modify. Qed.
Lemma ngc_bdetach st x : ngc (bdetach st x).
Proof. unfold bdetach. destruct (edit_kids _ _ _); exact I. Qed.
Lemma ngc_retighten st p : ngc (retighten st p).
Proof. apply ng_ex. apply retighten_total. Qed.
#[export] Hint Resolve ngc_get ngc_modify ngc_modify_info ngc_bdetach ngc_retighten : ngc.
Lemma ngc_append_child st p c : ngc (append_child st p c).
Proof. apply ngc_modify. Qed.
Lemma ngc_last_child st x : ngc (last_child st x). Proof. unfold last_child. nggo. Qed.
Lemma ngc_last_child_is_open st x : ngc (last_child_is_open st x).
Proof. unfold last_child_is_open. apply ng_bind; [apply ngc_last_child|]. intros. nggo. Qed.
#[export] Hint Resolve ngc_append_child ngc_last_child ngc_last_child_is_open : ngc.
Lemma ngc_finalize o st id : ngc (finalize o st id).
Proof. unfold finalize. nggo. Qed.
#[export] Hint Resolve ngc_finalize : ngc.
Lemma ngc_unwrap_parent site o st id : al site = true -> ngc (unwrap_parent site (finalize o st id)).
Proof. intro H. unfold unwrap_parent. nggo. Qed.
Lemma ngc_add_child_loop o k : forall fuel st parent, ngc (add_child_loop fuel o st parent k).
Proof.
  induction fuel as [|f IH]; intros st parent; cbn [add_child_loop]; [reflexivity|].
  apply ng_bind; [auto with ngc|]. intros p _. destruct (can_contain (bkind p) k); [exact I|].
  apply ng_bind; [apply ngc_unwrap_parent; allowed | intros; apply IH].
Qed.
#[export] Hint Resolve ngc_add_child_loop : ngc.
Lemma ngc_add_child_gen o st parent v col post kids : ngc (add_child_gen o st parent v col post kids).
Proof. unfold add_child_gen. nggo. Qed.
Lemma ngc_add_child o st parent v col : ngc (add_child o st parent v col).
Proof. apply ngc_add_child_gen. Qed.
#[export] Hint Resolve ngc_add_child_gen ngc_add_child : ngc.
Lemma ngc_clear_llb_up : forall fuel st id, ngc (clear_llb_up fuel st id).
Proof. induction fuel as [|f IH]; intros st id; cbn [clear_llb_up]; nggo. Qed.
Lemma ngc_finalize_up_to o target site : al site = true -> forall fuel st, ngc (finalize_up_to fuel o st target site).
Proof.
  intro H. induction fuel as [|f IH]; intros st; cbn [finalize_up_to]; [reflexivity|].
  destruct (Nat.eqb _ _); [exact I|]. apply ng_bind; [now apply ngc_unwrap_parent | intros; apply IH].
Qed.
Lemma ngc_reopen : forall fuel st id, ngc (reopen_ast_nodes fuel st id).
Proof. induction fuel as [|f IH]; intros st id; cbn [reopen_ast_nodes]; nggo. Qed.
#[export] Hint Resolve ngc_clear_llb_up ngc_reopen : ngc.
Lemma ngc_parse_desc_list_details o st c m : ngc (parse_desc_list_details o st c m).
Proof. unfold parse_desc_list_details. nggo. Qed.
#[export] Hint Resolve ngc_parse_desc_list_details : ngc.
Lemma ngc_try_inserting st c po : ngc (try_inserting_table_header_paragraph st c po).
Proof. unfold try_inserting_table_header_paragraph. nggo. Qed.
#[export] Hint Resolve ngc_try_inserting : ngc.
Lemma ngc_add_line st id line : ngc (add_line st id line).
Proof. unfold add_line. nggo. Qed.
#[export] Hint Resolve ngc_add_line : ngc.

(* ================================================================== frame: tree operations keep the cursor *)
Definition KC (c : cursor) (n : nat) (st : pstate) : Prop := ps_cur st = c /\ ps_curline_len st = n.

Lemma KC_self st : KC (ps_cur st) (ps_curline_len st) st. Proof. split; reflexivity. Qed.
Lemma KC_st_next c n st k : KC c n st -> KC c n (st_next st k). Proof. exact (fun H => H). Qed.
Lemma KC_st_current c n st k : KC c n st -> KC c n (st_current st k). Proof. exact (fun H => H). Qed.
Lemma KC_st_refmap c n st m : KC c n st -> KC c n (st_refmap st m). Proof. exact (fun H => H). Qed.
Lemma KC_st_root c n st r : KC c n st -> KC c n (st_root st r). Proof. exact (fun H => H). Qed.

Lemma modify_KC c n st id f st' : modify st id f = Ok st' -> KC c n st -> KC c n st'.
Proof. unfold modify. intros M K. destruct (upd id f (ps_root st)); [|discriminate M]. inversion M; subst. exact K. Qed.
Lemma modify_info_KC c n st id f st' : modify_info st id f = Ok st' -> KC c n st -> KC c n st'.
Proof. apply modify_KC. Qed.
Lemma append_child_KC c n st p x st' : append_child st p x = Ok st' -> KC c n st -> KC c n st'.
Proof. apply modify_KC. Qed.
Lemma bdetach_KC c n st id st' : bdetach st id = Ok st' -> KC c n st -> KC c n st'.
Proof. unfold bdetach. intros D K. destruct (edit_kids _ _ _); inversion D; subst; exact K. Qed.

Create HintDb kc.
#[export] Hint Resolve KC_st_next KC_st_current KC_st_refmap KC_st_root modify_KC modify_info_KC append_child_KC bdetach_KC : kc.
Ltac kcgo H := mon H; monall; repeat match goal with p : (_ * _)%type |- _ => destruct p end; cbn [fst snd] in *; eauto 20 with kc.

Lemma retighten_KC c n st p st' : retighten st p = Ok st' -> KC c n st -> KC c n st'.
Proof. unfold retighten. intros H K. kcgo H. Qed.
#[export] Hint Resolve retighten_KC : kc.

Lemma finalize_KC c n o st id p st' : finalize o st id = Ok (p, st') -> KC c n st -> KC c n st'.
Proof.
  intros F K. unfold finalize in F.
  mstep F. mstep F; [discriminate F|]. mstep F. clear E1.
  destruct (bi_val (binf a)) eqn:Ev; mon F; eauto 10 with kc.
Qed.
#[export] Hint Resolve finalize_KC : kc.

Lemma unwrap_parent_KC c n site o st id p st' :
  unwrap_parent site (finalize o st id) = Ok (p, st') -> KC c n st -> KC c n st'.
Proof.
  unfold unwrap_parent. intros H K.
  destruct (finalize o st id) as [[op s1]| |] eqn:E; cbn [bind fst snd] in H; try discriminate H.
  destruct op; inversion H; subst. eapply finalize_KC; eassumption.
Qed.
#[export] Hint Resolve unwrap_parent_KC : kc.

Lemma add_child_loop_KC c n o k : forall fuel st parent p' st',
  add_child_loop fuel o st parent k = Ok (p', st') -> KC c n st -> KC c n st'.
Proof.
  induction fuel as [|f IH]; intros st parent p' st' H K; [discriminate|].
  cbn [add_child_loop] in H.
  destruct (get st parent) as [pn| |] eqn:G; cbn [bind] in H; try discriminate H.
  destruct (can_contain (bkind pn) k) eqn:C.
  - inversion H; subst. exact K.
  - match type of H with bind ?r _ = _ => destruct r as [[q s1]| |] eqn:U; cbn [bind fst snd] in H; try discriminate H end.
    eapply IH; [exact H|]. eapply unwrap_parent_KC; eassumption.
Qed.

Lemma add_child_gen_KC c n o st parent v col post kids id st' :
  add_child_gen o st parent v col post kids = Ok (id, st') -> KC c n st -> KC c n st'.
Proof.
  unfold add_child_gen. intros H K.
  match type of H with bind ?r _ = _ => destruct r as [[p' s1]| |] eqn:E; cbn [bind] in H; try discriminate H end.
  pose proof (add_child_loop_KC _ _ _ _ _ _ _ _ _ E K) as K1.
  mon H. eapply append_child_KC; [eassumption | apply KC_st_next; exact K1].
Qed.
Lemma add_child_KC c n o st parent v col id st' : add_child o st parent v col = Ok (id, st') -> KC c n st -> KC c n st'.
Proof. apply add_child_gen_KC. Qed.
#[export] Hint Resolve add_child_gen_KC add_child_KC : kc.

Lemma clear_llb_up_KC c n : forall fuel st id st', clear_llb_up fuel st id = Ok st' -> KC c n st -> KC c n st'.
Proof. induction fuel as [|f IH]; intros st id st' H K; cbn [clear_llb_up] in H; kcgo H. Qed.
Lemma finalize_up_to_KC c n o target site : forall fuel st st', finalize_up_to fuel o st target site = Ok st' -> KC c n st -> KC c n st'.
Proof. induction fuel as [|f IH]; intros st st' H K; cbn [finalize_up_to] in H; kcgo H. Qed.
Lemma reopen_KC c n : forall fuel st id st', reopen_ast_nodes fuel st id = Ok st' -> KC c n st -> KC c n st'.
Proof. induction fuel as [|f IH]; intros st id st' H K; cbn [reopen_ast_nodes] in H; kcgo H. Qed.
#[export] Hint Resolve clear_llb_up_KC finalize_up_to_KC reopen_KC : kc.

Lemma parse_desc_list_details_KC c n o st cc m b c' st' :
  parse_desc_list_details o st cc m = Ok (b, c', st') -> KC c n st -> KC c n st'.
Proof. unfold parse_desc_list_details. intros H K. kcgo H. Qed.
#[export] Hint Resolve parse_desc_list_details_KC : kc.

Lemma try_inserting_KC c n st cc po st' : try_inserting_table_header_paragraph st cc po = Ok st' -> KC c n st -> KC c n st'.
Proof. unfold try_inserting_table_header_paragraph. intros H K. kcgo H. Qed.
#[export] Hint Resolve try_inserting_KC : kc.

