(* Proofs/CmUtf8.v — `output` (every escaping mode, wrap flag on or off) keeps the output vector
   valid UTF-8 when no line wrapping can happen (render.width = 0): everything it inserts (prefix,
   newlines, backslashes, percent escapes, numeric entities) is ASCII and is inserted only where an
   ASCII byte of the input stands; bytes >= 0x80 are copied unchanged and in order. *)
From Coq Require Import List NArith Bool Lia Arith Strings.String.
From V Require Import Base.Bytes Base.Res Gen.Ctype Gen.CmGen Model.Ast Model.Cm Spec.EscapeSpec.
Import ListNotations.
Local Open Scope list_scope.

Fixpoint urun (q : ust) (s : bytes) : option ust :=
  match s with
  | [] => Some q
  | b :: r => match ustep q b with Some q' => urun q' r | None => None end
  end.

Lemma utf8_run_urun s : forall q, utf8_run q s = true <-> urun q s = Some U0.
Proof.
  induction s as [|b r IH]; intro q; cbn [utf8_run urun].
  - destruct q; split; intro H; try reflexivity; try discriminate.
  - destruct (ustep q b); [apply IH | split; discriminate].
Qed.

Lemma urun_app a : forall q b, urun q (a ++ b) = match urun q a with Some q' => urun q' b | None => None end.
Proof.
  induction a as [|x a IH]; intros q b; cbn [app urun]; [reflexivity|].
  destruct (ustep q x); [apply IH | reflexivity].
Qed.

Definition isU0 (q : ust) : bool := match q with U0 => true | _ => false end.
Definition all_ust : list ust := [U0; U1; U2; U2e0; U2ed; U3; U3f0; U3f4].

Definition ascii_step_chk (c : byte) : bool :=
  forallb (fun q => if is_ascii c then match ustep q c with Some q' => isU0 q && isU0 q' | None => true end else true) all_ust.

Lemma ascii_step_all : forall c, ascii_step_chk c = true.
Proof. apply forall_bytes. vm_compute. reflexivity. Qed.

Lemma ascii_step q c q' : is_ascii c = true -> ustep q c = Some q' -> q = U0 /\ q' = U0.
Proof.
  intros Ha Hs. pose proof (ascii_step_all c) as H. unfold ascii_step_chk in H. rewrite forallb_forall in H.
  assert (In q all_ust) as Hin by (destruct q; cbn; tauto).
  specialize (H q Hin). rewrite Ha, Hs in H. apply andb_true_iff in H. destruct H as [H1 H2].
  destruct q; try discriminate. destruct q'; try discriminate. split; reflexivity.
Qed.

Lemma ascii_step_U0 c : is_ascii c = true -> ustep U0 c = Some U0.
Proof. intro H. cbn [ustep]. rewrite H. reflexivity. Qed.

Lemma urun_ascii a : forallb is_ascii a = true -> urun U0 a = Some U0.
Proof.
  induction a as [|x a IH]; intro H; [reflexivity|]. cbn [forallb] in H. apply andb_true_iff in H. destruct H as [Hx Ha].
  cbn [urun]. rewrite (ascii_step_U0 x Hx). apply IH. exact Ha.
Qed.

(* ---- the invariant ---- *)
Definition fwd (s : st) : bytes := rev (rv s).
Definition Inv0 (s : st) (q : ust) : Prop :=
  urun U0 (fwd s) = Some q /\ forallb is_ascii (rprefix s) = true.
Definition Inv (s : st) (q : ust) : Prop := Inv0 s q /\ (begin_line s = true -> q = U0).

Lemma inv0_push s q c q' : Inv0 s q -> ustep q c = Some q' -> Inv0 (push c s) q'.
Proof.
  intros [H1 H2] Hs. split; [|exact H2]. unfold fwd, push. cbn [rv set_v]. cbn [rev].
  rewrite urun_app. unfold fwd in H1. rewrite H1. cbn [urun]. rewrite Hs. reflexivity.
Qed.

Lemma inv0_push_ascii s c : Inv0 s U0 -> is_ascii c = true -> Inv0 (push c s) U0.
Proof. intros H Hc. eapply inv0_push; [exact H | apply ascii_step_U0; exact Hc]. Qed.

Lemma inv0_extend s b : Inv0 s U0 -> forallb is_ascii b = true -> Inv0 (extend b s) U0.
Proof.
  intros [H1 H2] Hb. split; [|exact H2]. unfold fwd, extend. cbn [rv set_v].
  rewrite rev_append_rev, rev_app_distr, rev_involutive. rewrite urun_app. unfold fwd in H1. rewrite H1.
  apply urun_ascii. exact Hb.
Qed.

Lemma forallb_rev {A} (f : A -> bool) l : forallb f (rev l) = forallb f l.
Proof.
  induction l as [|x l IH]; [reflexivity|]. cbn [rev]. rewrite forallb_app. cbn [forallb]. rewrite IH.
  rewrite andb_true_r. apply andb_comm.
Qed.

Lemma inv0_extend_prefix s : Inv0 s U0 -> Inv0 (extend_prefix s) U0.
Proof.
  intros [H1 H2]. split; [|exact H2]. unfold fwd, extend_prefix. cbn [rv set_v].
  rewrite rev_app_distr. rewrite urun_app. unfold fwd in H1. rewrite H1.
  apply urun_ascii. rewrite forallb_rev. exact H2.
Qed.

(* setters that touch neither v nor the prefix *)
Ltac frame := unfold Inv0, fwd; cbn [rv rprefix set_column set_need_cr set_last_breakable set_begin_line set_begin_content
                                     set_no_linebreaks set_in_tight set_custom_escape set_footnote_ix set_ol_stack set_cur].

Lemma inv0_set_column s q x : Inv0 (set_column x s) q <-> Inv0 s q. Proof. frame. reflexivity. Qed.
Lemma inv0_set_need_cr s q x : Inv0 (set_need_cr x s) q <-> Inv0 s q. Proof. frame. reflexivity. Qed.
Lemma inv0_set_last_breakable s q x : Inv0 (set_last_breakable x s) q <-> Inv0 s q. Proof. frame. reflexivity. Qed.
Lemma inv0_set_begin_line s q x : Inv0 (set_begin_line x s) q <-> Inv0 s q. Proof. frame. reflexivity. Qed.
Lemma inv0_set_begin_content s q x : Inv0 (set_begin_content x s) q <-> Inv0 s q. Proof. frame. reflexivity. Qed.

(* ---- the flush loop ---- *)
Lemma flush_loop_inv0 n : forall look s, Inv0 s U0 -> Inv0 (flush_loop n look s) U0.
Proof.
  induction n as [|n IH]; intros look s H; [exact H|]. cbn [flush_loop].
  destruct look as [|c r].
  - apply IH. apply inv0_set_need_cr, inv0_set_begin_content, inv0_set_begin_line, inv0_set_last_breakable, inv0_set_column. exact H.
  - destruct (beqb c x0a).
    + apply IH. apply inv0_set_need_cr, inv0_set_begin_content, inv0_set_begin_line, inv0_set_last_breakable, inv0_set_column. exact H.
    + apply IH. apply inv0_set_need_cr, inv0_set_begin_content, inv0_set_begin_line, inv0_set_last_breakable, inv0_set_column.
      apply inv0_push_ascii; [|reflexivity].
      destruct (rv s) as [|l v']; [exact H|]. destruct (beqb l x0a); [apply inv0_extend_prefix|]; exact H.
Qed.

(* ---- one step ---- *)
Definition outc_ok (outc_f : byte -> esc -> option byte -> st -> st) : Prop :=
  forall c e nc s q q', Inv0 s q -> ustep q c = Some q' -> Inv0 (outc_f c e nc s) q'.

Lemma step_prefix_inv s q : Inv s q -> Inv0 (step_prefix s) q.
Proof.
  intros [H0 Hb]. unfold step_prefix. destruct (begin_line s); [|exact H0].
  rewrite (Hb eq_refl) in *. apply inv0_set_column. apply inv0_extend_prefix. exact H0.
Qed.

Lemma step_custom_inv c s q q' : Inv0 s q -> ustep q c = Some q' -> Inv0 (step_custom c s) q.
Proof.
  intros H0 Hs. unfold step_custom. destruct (custom_escape s && table_escape (cur s) c) eqn:E; [|exact H0].
  apply andb_true_iff in E. destruct E as [_ E].
  assert (c = x7c) as -> by (unfold table_escape in E; destruct (cur s); try discriminate; apply beqb_eq; exact E).
  destruct (ascii_step q x7c q' eq_refl Hs) as [-> ->]. apply inv0_push_ascii; [exact H0 | reflexivity].
Qed.

Lemma step_main_inv outc_f wrap e c rest s q q' :
  (e = Literal \/ outc_ok outc_f) -> Inv0 s q -> ustep q c = Some q' ->
  Inv (fst (step_main outc_f wrap e c rest s)) q'.
Proof.
  intros He H0 Hs. unfold step_main.
  destruct (beqb c x20 && wrap) eqn:Esp.
  - apply andb_true_iff in Esp. destruct Esp as [Esp _]. apply beqb_eq in Esp. subst c.
    destruct (ascii_step q x20 q' eq_refl Hs) as [-> ->].
    destruct (negb (begin_line s)) eqn:Ebl.
    + cbn [fst]. split; [|intros _; reflexivity].
      destruct (negb (head_no_break (drop_spaces rest)));
        [apply inv0_set_last_breakable|]; apply inv0_set_begin_content, inv0_set_begin_line, inv0_set_column;
        (apply inv0_push_ascii; [exact H0 | reflexivity]).
    + cbn [fst]. split; [exact H0 | intros _; reflexivity].
  - destruct (esc_eqb e Literal) eqn:El.
    + destruct (beqb c x0a) eqn:Enl.
      * apply beqb_eq in Enl. subst c. destruct (ascii_step q x0a q' eq_refl Hs) as [-> ->].
        cbn [fst]. split; [|intros _; reflexivity].
        apply inv0_set_last_breakable, inv0_set_begin_content, inv0_set_begin_line, inv0_set_column.
        apply inv0_push_ascii; [exact H0 | reflexivity].
      * cbn [fst]. split.
        -- apply inv0_set_begin_content, inv0_set_begin_line, inv0_set_column. eapply inv0_push; [exact H0 | exact Hs].
        -- cbn [begin_line set_begin_content set_begin_line]. discriminate.
    + destruct He as [->|Hok]; [discriminate|]. cbn [fst]. split.
      * apply inv0_set_begin_content, inv0_set_begin_line. eapply Hok; [exact H0 | exact Hs].
      * cbn [begin_line set_begin_content set_begin_line]. discriminate.
Qed.

Lemma wrap_check_0 s : wrap_check 0 s = s.
Proof. unfold wrap_check. reflexivity. Qed.

Lemma out_step_inv outc_f wrap e c rest s q q' :
  (e = Literal \/ outc_ok outc_f) -> Inv s q -> ustep q c = Some q' ->
  Inv (fst (out_step 0%N outc_f wrap e c rest s)) q'.
Proof.
  intros He Hi Hs. unfold out_step.
  pose proof (step_main_inv outc_f wrap e c rest (step_custom c (step_prefix s)) q q' He) as H.
  destruct (step_main outc_f wrap e c rest (step_custom c (step_prefix s))) as [s' sk].
  cbn [fst] in *. rewrite wrap_check_0. apply H; [|exact Hs].
  eapply step_custom_inv; [|exact Hs]. apply step_prefix_inv. exact Hi.
Qed.

Lemma out_loop_inv outc_f wrap e : (e = Literal \/ outc_ok outc_f) ->
  forall buf sk s q qf, Inv s q -> urun q buf = Some qf ->
  Inv (out_loop 0%N outc_f wrap e buf sk s) qf.
Proof.
  intro He. induction buf as [|c r IH]; intros sk s q qf Hi Hr.
  - cbn [urun] in Hr. inversion Hr; subst. exact Hi.
  - cbn [urun] in Hr. destruct (ustep q c) as [q'|] eqn:Hs; [|discriminate].
    cbn [out_loop]. destruct (sk && beqb c x20) eqn:Esk.
    + apply andb_true_iff in Esk. destruct Esk as [_ Esp]. apply beqb_eq in Esp. subst c.
      destruct (ascii_step q x20 q' eq_refl Hs) as [-> ->]. eapply IH; [exact Hi | exact Hr].
    + pose proof (out_step_inv outc_f wrap e c r s q q' He Hi Hs) as H.
      destruct (out_step 0%N outc_f wrap e c r s) as [s' sk']. cbn [fst] in H.
      eapply IH; [exact H | exact Hr].
Qed.

Lemma output_gen_inv outc_f buf wrap e s qf :
  (e = Literal \/ outc_ok outc_f) -> Inv0 s U0 -> urun U0 buf = Some qf ->
  Inv0 (output_gen 0%N outc_f buf wrap e s) qf.
Proof.
  intros He H0 Hr. unfold output_gen.
  eapply (proj1 (out_loop_inv outc_f _ e He buf false _ U0 qf _ Hr)).
  Unshelve. split; [|intros _; reflexivity].
  apply flush_loop_inv0. destruct (in_tight s && N.ltb 1 (need_cr s)); [apply inv0_set_need_cr|]; exact H0.
Qed.

(* ---- outc ---- *)
Lemma pct_ascii : forall c, forallb is_ascii (x25 :: hex2 c) = true.
Proof. apply forall_bytes. vm_compute. reflexivity. Qed.

Lemma ent_ascii : forall c, forallb is_ascii ([x26; x23] ++ dec (bN c) ++ [x3b]) = true.
Proof. apply forall_bytes. vm_compute. reflexivity. Qed.

Lemma outc_is_ok : outc_ok outc.
Proof.
  intros c e nc s q q' H0 Hs. unfold outc.
  match goal with |- context [if ?b then _ else _] => destruct b eqn:En end.
  - assert (is_ascii c = true) as Hc.
    { unfold needs_escaping in En. apply andb_true_iff in En. destruct En as [En _].
      apply andb_true_iff in En. destruct En as [En _]. exact En. }
    destruct (ascii_step q c q' Hc Hs) as [-> ->].
    destruct (esc_eqb e Url && isspace c).
    + apply inv0_set_column. apply inv0_extend; [exact H0 | apply pct_ascii].
    + destruct (ispunct c).
      * apply inv0_set_column. apply inv0_extend; [exact H0|]. cbn [forallb]. rewrite Hc. reflexivity.
      * apply inv0_set_column. apply inv0_extend; [exact H0 | apply ent_ascii].
  - apply inv0_set_column. eapply inv0_push; [exact H0 | exact Hs].
Qed.

Theorem cm_output_utf8 buf wrap e s :
  utf8_valid (rev (rv s)) = true ->
  forallb is_ascii (rprefix s) = true ->
  utf8_valid buf = true ->
  utf8_valid (rev (rv (output 0%N buf wrap e s))) = true.
Proof.
  unfold utf8_valid. intros Hv Hp Hb. apply utf8_run_urun in Hv. apply utf8_run_urun in Hb.
  apply utf8_run_urun.
  assert (Inv0 s U0) as H0 by (split; [exact Hv | exact Hp]).
  pose proof (output_gen_inv outc buf wrap e s U0 (or_intror outc_is_ok) H0 Hb) as [H _].
  exact H.
Qed.
