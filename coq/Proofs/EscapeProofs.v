(* Proofs/EscapeProofs.v — lemmas behind Props/C19.v *)
From Coq Require Import List NArith Bool Lia Strings.String.
From V Require Import Base.Bytes Base.Res Gen.Tables Model.Escape Spec.EscapeSpec.
Import ListNotations.
Local Open Scope list_scope.

(* ---------------------------------------------------------------- escape *)

(* finite check over the 256 bytes: the generated table and arms agree with the per-byte spec,
   and in particular the unreachable!() arm is unreachable *)
Definition esc_byte_ok (b : byte) : bool :=
  if html_unsafe b then
    match escape_arm b with Some e => bytes_eqb e (esc1_spec b) | None => false end
  else bytes_eqb (esc1_spec b) [b].

Lemma esc_byte_ok_all : forall b, esc_byte_ok b = true.
Proof. apply forall_bytes. vm_compute. reflexivity. Qed.

Lemma escape_loop_spec : forall s out pending,
  escape_loop out pending s = Ok (out ++ pending ++ escape_spec s).
Proof.
  induction s as [|b s IH]; intros out pending; cbn [escape_loop escape_spec flat_map].
  - rewrite app_nil_r. reflexivity.
  - pose proof (esc_byte_ok_all b) as Hb. unfold esc_byte_ok in Hb.
    destruct (html_unsafe b).
    + destruct (escape_arm b) as [e|]; [|discriminate].
      apply bytes_eqb_eq in Hb. subst e. rewrite IH. cbn [app].
      rewrite <- !app_assoc. reflexivity.
    + apply bytes_eqb_eq in Hb. rewrite Hb. rewrite IH.
      rewrite <- !app_assoc. reflexivity.
Qed.

Lemma escape_flat_map s : escape s = Ok (escape_spec s).
Proof. unfold escape. rewrite escape_loop_spec. reflexivity. Qed.

Lemma escape_total s : exists o, escape s = Ok o.
Proof. eexists. apply escape_flat_map. Qed.

Lemma escape_spec_app a b : escape_spec (a ++ b) = escape_spec a ++ escape_spec b.
Proof. apply flat_map_app. Qed.

Lemma escape_app a b oa ob :
  escape a = Ok oa -> escape b = Ok ob -> escape (a ++ b) = Ok (oa ++ ob).
Proof.
  rewrite !escape_flat_map. intros Ha Hb. inversion Ha; inversion Hb; subst.
  rewrite escape_spec_app. reflexivity.
Qed.

(* no raw < > quote *)
Lemma esc1_no_active : forall b, forallb no_active_byte (esc1_spec b) = true.
Proof. apply forall_bytes. vm_compute. reflexivity. Qed.

Lemma escape_no_active s : forallb no_active_byte (escape_spec s) = true.
Proof.
  induction s as [|b s IH]; [reflexivity|].
  cbn [escape_spec flat_map]. rewrite forallb_app, esc1_no_active. exact IH.
Qed.

(* decoding returns the original: every ampersand begins one of the four entities, and the
   encoding is injective *)
Lemma unescape_skip_app : forall p r, html_unescape_skip (List.length p) (p ++ r) = html_unescape_skip 0 r.
Proof. induction p as [|x p IH]; intros r; [reflexivity|]. cbn. apply IH. Qed.

Definition esc1_shape (b : byte) : bool :=
  (* for each byte: either it is one of the four specials, or it is passed through and is inert *)
  if beqb b x26 then bytes_eqb (esc1_spec b) amp_ent
  else if beqb b x3c then bytes_eqb (esc1_spec b) lt_ent
  else if beqb b x3e then bytes_eqb (esc1_spec b) gt_ent
  else if beqb b x22 then bytes_eqb (esc1_spec b) quot_ent
  else bytes_eqb (esc1_spec b) [b].

Lemma esc1_shape_all : forall b, esc1_shape b = true.
Proof. apply forall_bytes. vm_compute. reflexivity. Qed.

Lemma unescape_step b r :
  html_unescape_skip 0 (esc1_spec b ++ r) = option_map (cons b) (html_unescape_skip 0 r).
Proof.
  pose proof (esc1_shape_all b) as H. unfold esc1_shape in H.
  destruct (beqb_spec b x26) as [->|N1].
  { apply bytes_eqb_eq in H. rewrite H. rewrite <- (unescape_skip_app (tl amp_ent) r). vm_compute. reflexivity. }
  destruct (beqb_spec b x3c) as [->|N2].
  { apply bytes_eqb_eq in H. rewrite H. rewrite <- (unescape_skip_app (tl lt_ent) r). vm_compute. reflexivity. }
  destruct (beqb_spec b x3e) as [->|N3].
  { apply bytes_eqb_eq in H. rewrite H. rewrite <- (unescape_skip_app (tl gt_ent) r). vm_compute. reflexivity. }
  destruct (beqb_spec b x22) as [->|N4].
  { apply bytes_eqb_eq in H. rewrite H. rewrite <- (unescape_skip_app (tl quot_ent) r). vm_compute. reflexivity. }
  apply bytes_eqb_eq in H. rewrite H. cbn [app html_unescape_skip].
  apply beqb_neq in N1, N2, N3, N4. rewrite N1, N2, N3, N4. reflexivity.
Qed.

Lemma unescape_escape s : html_unescape (escape_spec s) = Some s.
Proof.
  unfold html_unescape. induction s as [|b s IH]; [reflexivity|].
  cbn [escape_spec flat_map]. rewrite unescape_step. fold (escape_spec s). rewrite IH. reflexivity.
Qed.

Lemma escape_spec_injective a b : escape_spec a = escape_spec b -> a = b.
Proof.
  intro H. pose proof (unescape_escape a) as Ha. rewrite H, unescape_escape in Ha. congruence.
Qed.

(* ---------------------------------------------------------------- UTF-8 *)

Definition ascii_stays (b : byte) : bool :=
  (* an ASCII byte is only accepted in state U0 and leaves the state at U0 *)
  if is_ascii b then
    forallb (fun st => match ustep st b with
                       | Some st' => match st, st' with U0, U0 => true | _, _ => false end
                       | None => match st with U0 => false | _ => true end end)
            [U0; U1; U2; U2e0; U2ed; U3; U3f0; U3f4]
  else true.
Lemma ascii_stays_all : forall b, ascii_stays b = true.
Proof. apply forall_bytes. vm_compute. reflexivity. Qed.

Lemma ustep_ascii st b : is_ascii b = true ->
  ustep st b = match st with U0 => Some U0 | _ => None end.
Proof.
  intro Ha. pose proof (ascii_stays_all b) as H. unfold ascii_stays in H. rewrite Ha in H.
  rewrite forallb_forall in H.
  assert (In st [U0; U1; U2; U2e0; U2ed; U3; U3f0; U3f4]) as Hin by (destruct st; simpl; tauto).
  specialize (H st Hin). destruct (ustep st b) as [st'|]; destruct st; try destruct st'; try discriminate; reflexivity.
Qed.

Lemma utf8_run_ascii_prefix p r : forallb is_ascii p = true -> utf8_run U0 (p ++ r) = utf8_run U0 r.
Proof.
  induction p as [|x p IH]; intro H; [reflexivity|].
  cbn in H. apply andb_true_iff in H. destruct H as [Hx Hp].
  cbn [app utf8_run]. rewrite (ustep_ascii U0 x Hx). apply IH. exact Hp.
Qed.

(* generic: a per-byte map that sends ASCII bytes to ASCII strings and leaves other bytes alone
   preserves UTF-8 validity (from any decoder state) *)
Lemma utf8_flat_map (f : byte -> bytes) :
  (forall b, is_ascii b = true -> forallb is_ascii (f b) = true) ->
  (forall b, is_ascii b = false -> f b = [b]) ->
  forall s st, utf8_run st s = true -> utf8_run st (flat_map f s) = true.
Proof.
  intros Hasc Hnon. induction s as [|b s IH]; intros st H; [exact H|].
  cbn [flat_map]. cbn [utf8_run] in H.
  destruct (is_ascii b) eqn:Ha.
  - rewrite (ustep_ascii st b Ha) in H. destruct st; try discriminate.
    rewrite utf8_run_ascii_prefix by (apply Hasc; exact Ha). apply IH. exact H.
  - rewrite (Hnon b Ha). cbn [app utf8_run]. destruct (ustep st b) as [st'|]; [|discriminate].
    apply IH. exact H.
Qed.

Definition esc1_ascii_ok (b : byte) : bool :=
  if is_ascii b then forallb is_ascii (esc1_spec b) else bytes_eqb (esc1_spec b) [b].
Lemma esc1_ascii_ok_all : forall b, esc1_ascii_ok b = true.
Proof. apply forall_bytes. vm_compute. reflexivity. Qed.

Lemma escape_utf8 s : utf8_valid s = true -> utf8_valid (escape_spec s) = true.
Proof.
  unfold utf8_valid, escape_spec. apply utf8_flat_map.
  - intros b Ha. pose proof (esc1_ascii_ok_all b) as H. unfold esc1_ascii_ok in H. rewrite Ha in H. exact H.
  - intros b Ha. pose proof (esc1_ascii_ok_all b) as H. unfold esc1_ascii_ok in H. rewrite Ha in H.
    apply bytes_eqb_eq. exact H.
Qed.

(* ---------------------------------------------------------------- escape_href *)

Definition href1_model (b : byte) : bytes := if href_safe b then [b] else href_unsafe_out b.

Definition href_byte_ok (b : byte) : bool :=
  bytes_eqb (href1_model b) (href1_spec b) && Bool.eqb (href_safe b) (url_safe_spec b).
Lemma href_byte_ok_all : forall b, href_byte_ok b = true.
Proof. apply forall_bytes. vm_compute. reflexivity. Qed.

Lemma href1_model_spec b : href1_model b = href1_spec b.
Proof.
  pose proof (href_byte_ok_all b) as H. unfold href_byte_ok in H.
  apply andb_true_iff in H. destruct H as [H _]. apply bytes_eqb_eq. exact H.
Qed.

Lemma safe_run_spec : forall s run rest,
  safe_run s = (run, rest) ->
  s = run ++ rest /\ flat_map href1_model run = run /\
  match rest with [] => True | b :: _ => href_safe b = false end.
Proof.
  induction s as [|b s IH]; intros run rest H; cbn [safe_run] in H.
  - inversion H; subst. repeat split.
  - destruct (href_safe b) eqn:Hs.
    + destruct (safe_run s) as [r t] eqn:E. inversion H; subst.
      destruct (IH r rest eq_refl) as [E1 [E2 E3]]. repeat split.
      * cbn [app]. f_equal. exact E1.
      * cbn [flat_map]. unfold href1_model at 1. rewrite Hs. cbn [app]. f_equal. exact E2.
      * exact E3.
    + inversion H; subst. repeat split. exact Hs.
Qed.

Lemma href_loop_spec : forall fuel s out,
  List.length s < fuel -> href_loop fuel out s = Ok (out ++ flat_map href1_model s).
Proof.
  induction fuel as [|f IH]; intros s out Hlen; [lia|].
  cbn [href_loop]. destruct s as [|b0 s0].
  - rewrite app_nil_r. reflexivity.
  - remember (b0 :: s0) as s eqn:Es.
    destruct (safe_run s) as [run rest] eqn:E.
    destruct (safe_run_spec s run rest E) as [E1 [E2 E3]].
    destruct rest as [|b rest'].
    + rewrite app_nil_r in E1. rewrite E1, E2. reflexivity.
    + rewrite IH.
      * assert (href1_model b = href_unsafe_out b) as Hb by (unfold href1_model; rewrite E3; reflexivity).
        rewrite E1. rewrite flat_map_app, E2. cbn [flat_map].
        rewrite Hb. rewrite <- !app_assoc. reflexivity.
      * rewrite E1, app_length in Hlen. cbn [List.length] in Hlen. lia.
Qed.

Lemma escape_href_flat_map s : escape_href s = Ok (escape_href_spec s).
Proof.
  unfold escape_href. rewrite href_loop_spec by lia. cbn [app]. unfold escape_href_spec.
  f_equal. induction s as [|b s IH]; [reflexivity|]. cbn [flat_map]. rewrite href1_model_spec, IH. reflexivity.
Qed.

Lemma escape_href_total s : exists o, escape_href s = Ok o.
Proof. eexists. apply escape_href_flat_map. Qed.

Lemma escape_href_spec_app a b : escape_href_spec (a ++ b) = escape_href_spec a ++ escape_href_spec b.
Proof. apply flat_map_app. Qed.

(* output language *)
Definition href1_wf (b : byte) : bool :=
  (* the per-byte output followed by anything well-formed is well-formed: check it against the
     three shapes *)
  let o := href1_spec b in
  bytes_eqb o amp_ent || bytes_eqb o apos_ent ||
  (forallb (fun c => url_safe_spec c && negb (beqb c x26)) o).
Lemma href1_wf_all : forall b, href1_wf b = true.
Proof. apply forall_bytes. vm_compute. reflexivity. Qed.

Lemma href_wf_safe_prefix p r :
  forallb (fun c => url_safe_spec c && negb (beqb c x26)) p = true ->
  href_wf (p ++ r) = href_wf r.
Proof.
  induction p as [|x p IH]; intro H; [reflexivity|].
  cbn in H. apply andb_true_iff in H. destruct H as [Hx Hp].
  apply andb_true_iff in Hx. destruct Hx as [Hs Hn].
  cbn [app href_wf]. apply negb_true_iff in Hn. rewrite Hn, Hs. cbn. apply IH. exact Hp.
Qed.

Lemma href_wf_spec s : href_wf (escape_href_spec s) = true.
Proof.
  induction s as [|b s IH]; [reflexivity|].
  cbn [escape_href_spec flat_map]. fold (escape_href_spec s).
  pose proof (href1_wf_all b) as H. unfold href1_wf in H.
  apply orb_true_iff in H. destruct H as [H|H].
  - apply orb_true_iff in H. destruct H as [H|H]; apply bytes_eqb_eq in H; rewrite H.
    + change (href_wf (amp_ent ++ escape_href_spec s)) with (href_wf (tl amp_ent ++ escape_href_spec s)).
      rewrite href_wf_safe_prefix by (vm_compute; reflexivity). exact IH.
    + change (href_wf (apos_ent ++ escape_href_spec s)) with (href_wf (tl apos_ent ++ escape_href_spec s)).
      rewrite href_wf_safe_prefix by (vm_compute; reflexivity). exact IH.
  - rewrite href_wf_safe_prefix by exact H. exact IH.
Qed.

Lemma href_ascii s : forallb is_ascii (escape_href_spec s) = true.
Proof.
  induction s as [|b s IH]; [reflexivity|].
  cbn [escape_href_spec flat_map]. rewrite forallb_app. fold (escape_href_spec s). rewrite IH, andb_true_r.
  revert b. apply forall_bytes. vm_compute. reflexivity.
Qed.

(* ---------------------------------------------------------------- href decoding *)

(* the helper is not injective: SPACE and the three bytes PERCENT 2 0 have the same image *)
Lemma href_not_injective :
  exists a b, a <> b /\ escape_href a = escape_href b.
Proof. exists [x20], [x25; x32; x30]. split; [discriminate | vm_compute; reflexivity]. Qed.

Lemma href_roundtrip_refuted :
  exists s o, escape_href s = Ok o /\ href_decode o <> Some s.
Proof. exists [x25; x32; x30], [x25; x32; x30]. split; [vm_compute; reflexivity | vm_compute; discriminate]. Qed.

(* ---------------------------------------------------------------- write_opening_tag *)

Definition attr_str (av : bytes * bytes) : bytes :=
  [x20] ++ fst av ++ [x3d; x22] ++ escape_spec (snd av) ++ [x22].

Lemma write_attrs_spec : forall attrs out,
  write_attrs out attrs = Ok (out ++ flat_map attr_str attrs).
Proof.
  induction attrs as [|[a v] attrs IH]; intros out; cbn [write_attrs flat_map].
  - rewrite app_nil_r. reflexivity.
  - rewrite escape_flat_map. cbn [bind]. rewrite IH. unfold attr_str. cbn [fst snd].
    rewrite <- !app_assoc. reflexivity.
Qed.

Lemma write_opening_tag_spec tag attrs :
  write_opening_tag tag attrs = Ok ([x3c] ++ tag ++ flat_map attr_str attrs ++ [x3e]).
Proof.
  unfold write_opening_tag. rewrite write_attrs_spec. cbn [bind]. rewrite <- !app_assoc. reflexivity.
Qed.

Lemma take_name_app : forall n r,
  forallb name_byte n = true ->
  match r with [] => True | c :: _ => name_byte c = false end ->
  take_name (n ++ r) = (n, r).
Proof.
  induction n as [|x n IH]; intros r Hn Hr.
  - cbn [app]. destruct r as [|c r]; [reflexivity|]. cbn [take_name]. rewrite Hr. reflexivity.
  - cbn in Hn. apply andb_true_iff in Hn. destruct Hn as [Hx Hn].
    cbn [app take_name]. rewrite Hx, (IH r Hn Hr). reflexivity.
Qed.

Lemma take_value_app : forall v r,
  forallb no_active_byte v = true -> take_value (v ++ x22 :: r) = Some (v, r).
Proof.
  induction v as [|x v IH]; intros r Hv.
  - reflexivity.
  - cbn in Hv. apply andb_true_iff in Hv. destruct Hv as [Hx Hv].
    cbn [app take_value]. unfold no_active_byte in Hx. apply negb_true_iff in Hx.
    apply orb_false_iff in Hx. destruct Hx as [Hx Hq]. rewrite Hq, Hx.
    rewrite (IH r Hv). reflexivity.
Qed.

Lemma name_ok_forallb n : name_ok n = true -> forallb name_byte n = true.
Proof. destruct n; [discriminate | auto]. Qed.

Lemma lex_attrs_spec : forall attrs fuel tail,
  Forall (fun av => name_ok (fst av) = true) attrs ->
  List.length attrs < fuel ->
  lex_attrs fuel (flat_map attr_str attrs ++ x3e :: tail) = Some (attrs, tail).
Proof.
  induction attrs as [|[a v] attrs IH]; intros fuel tail Hok Hf.
  - destruct fuel; [cbn in Hf; lia|]. reflexivity.
  - destruct fuel as [|f]; [lia|]. cbn [List.length] in Hf.
    inversion Hok as [|? ? Ha Hrest]; subst. cbn [fst] in Ha.
    cbn [flat_map]. unfold attr_str at 1. cbn [fst snd].
    rewrite <- !app_assoc. cbn [app lex_attrs].
    change (beqb x20 x3e) with false. change (beqb x20 x20) with true. cbn iota.
    rewrite (take_name_app a) by (try (apply name_ok_forallb; exact Ha); reflexivity).
    rewrite Ha. change (beqb x3d x3d && beqb x22 x22) with true. cbn iota.
    change ([x22] ++ flat_map attr_str attrs ++ x3e :: tail) with (x22 :: (flat_map attr_str attrs ++ x3e :: tail)).
    rewrite take_value_app by apply escape_no_active.
    rewrite unescape_escape. rewrite IH by (assumption || lia). reflexivity.
Qed.

Lemma opening_tag_parses tag attrs :
  name_ok tag = true ->
  Forall (fun av => name_ok (fst av) = true) attrs ->
  exists o, write_opening_tag tag attrs = Ok o /\ lex_start_tag o = Some (tag, attrs, []).
Proof.
  intros Ht Ha. eexists. split; [apply write_opening_tag_spec|].
  cbn [app lex_start_tag]. change (beqb x3c x3c) with true. cbn iota.
  assert (take_name (tag ++ flat_map attr_str attrs ++ [x3e]) = (tag, flat_map attr_str attrs ++ [x3e])) as E.
  { apply take_name_app; [apply name_ok_forallb; exact Ht|].
    destruct attrs as [|[a v] attrs]; reflexivity. }
  rewrite E, Ht.
  rewrite lex_attrs_spec; [reflexivity | exact Ha |].
  rewrite app_length. cbn [List.length].
  assert (forall l, List.length l <= List.length (flat_map attr_str l)) as Hl.
  { induction l as [|x l IHl]; [apply le_n|]. cbn [flat_map]. rewrite app_length. unfold attr_str at 1. cbn [app]. cbn [List.length]. lia. }
  specialize (Hl attrs). lia.
Qed.
