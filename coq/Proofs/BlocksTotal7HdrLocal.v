(* Proofs/BlocksTotal7HdrLocal.v — totality of the block phase, seventh round, the two sites of hdr_sites
   (Proofs/BlocksTotal7Hdr.v): the LOCAL step.  try_opening_header panics only outside hdr_sites when the content X of
   the container is empty or ends with LF (par_content_ok; ng7h_try_opening_header).  The state premise is GI c X st: every node of the tree with
   identifier c has content X; try_inserting_table_header_paragraph keeps it (try_inserting_gi: it changes the start
   position of the container and inserts a sibling with the fresh identifier ps_next st; the content is NOT cut).

   NOT PROVED: the premise along parse_blocks.  What is false: `every Paragraph of the tree has a content that is
   empty or ends with LF` (preface_paragraph_refuted: the preface paragraph try_inserting_table_header_paragraph
   creates has the TRIMMED preface as content, is open, and stays in the tree); on such a content `row` answers
   Some (0, [cell]) with |content| = 1 (row_on_trimmed_preface), so the per-node (all_info) scheme cannot exclude
   the sites: what excludes them is that the preface paragraph is never the container (it is never a last child:
   the right-edge invariant of Proofs/BlocksTotal4Spine.v, evaluated there, not proved). *)
From Coq Require Import List NArith Arith Bool Lia Strings.String.
From V Require Import Base.Bytes Base.Res Gen.Nodes Gen.BlocksConst Model.Ast Model.Strings Model.Scan Model.Blocks Spec.EscapeSpec
  Proofs.StrLeafProofs Proofs.BlocksProofs Proofs.BlocksCursor Proofs.BlocksTotal
  Proofs.BlocksTotal2Safe Proofs.BlocksTotal3Cur Proofs.BlocksTotal4Safe Proofs.BlocksPos Proofs.BlocksPosRun Proofs.BlocksTotal6Row Proofs.BlocksTotal7Hdr.
From V Require Proofs.BlocksTotal4Row.
Import ListNotations.
Local Open Scope string_scope.
Local Open Scope list_scope.

Definition al7h : string -> bool := but hdr_sites.
Notation ng7h := (ng al7h true).

Ltac allowed := vm_compute; reflexivity.

Create HintDb ng7h.

Ltac ngstep :=
  match goal with
  | |- ng _ _ (bind ?r _) => apply ng_bind; [ try solve [auto with ng7h] | intros ]
  | |- ng _ _ (Ok _) => exact I
  | |- ng _ _ OutOfFuel => reflexivity
  | |- ng _ _ (Panic _) => first [assumption | allowed]
  | |- ng _ _ no_node => allowed
  | |- ng _ _ (res_map _ _) => apply ng_res_map
  | |- ng _ _ (if ?b then _ else _) => destruct b
  | |- ng _ _ (match ?x with _ => _ end) => destruct x
  | |- ng _ _ (let (_, _) := ?x in _) => destruct x
  end.
Ltac nggo := repeat ngstep; auto with ng7h.

Lemma ng7h_idx site l i : al7h site = true -> ng7h (idx site l i).
Proof. intro H. apply ng_idx. now right. Qed.
Lemma ng7h_sub site a b : al7h site = true -> ng7h (sub site a b).
Proof. intro H. apply ng_sub. now right. Qed.
Lemma ng7h_slice_from site l i : al7h site = true -> ng7h (Blocks.slice_from site l i).
Proof. intro H. apply ng_slice_from. now right. Qed.
Lemma ng7h_from_utf8 site b : al7h site = true -> ng7h (from_utf8 site b).
Proof. intro H. apply ng_from_utf8. now right. Qed.
#[export] Hint Extern 1 (ng _ _ (idx _ _ _)) => (apply ng7h_idx; first [assumption | allowed]) : ng7h.
#[export] Hint Extern 1 (ng _ _ (sub _ _ _)) => (apply ng7h_sub; first [assumption | allowed]) : ng7h.
#[export] Hint Extern 1 (ng _ _ (Blocks.slice_from _ _ _)) => (apply ng7h_slice_from; first [assumption | allowed]) : ng7h.
#[export] Hint Extern 1 (ng _ _ (from_utf8 _ _)) => (apply ng7h_from_utf8; first [assumption | allowed]) : ng7h.

Lemma ng7h_trim s : ng7h (Strings.trim s). Proof. rewrite trim_ok. exact I. Qed.
Lemma ng7h_row s sp : ng7h (row s sp). Proof. apply ng_ex. apply BlocksTotal4Row.row_total. Qed.
#[export] Hint Resolve ng7h_trim ng7h_row : ng7h.
Lemma ng7h_copy_line_offsets : forall n lo k, ng7h (copy_line_offsets n lo k).
Proof. induction n as [|m IH]; intros lo k; cbn [copy_line_offsets]; nggo. Qed.
Lemma ng7h_header_cells : forall cells id ln sl sc po, ng7h (header_cells cells id ln sl sc po).
Proof. induction cells as [|c r IH]; intros; cbn [header_cells]; nggo. Qed.
#[export] Hint Resolve ng7h_copy_line_offsets ng7h_header_cells : ng7h.
Lemma ng7h_find_first_nonspace c line : ng7h (find_first_nonspace c line).
Proof. unfold find_first_nonspace. destruct (if Nat.leb _ _ then _ else _) as [f fc]. nggo. Qed.
Lemma ng7h_advance_loop line columns : forall fuel off col pct count, ng7h (advance_loop fuel line off col pct count columns).
Proof. induction fuel as [|f IH]; intros off col pct count; destruct count; cbn [advance_loop]; nggo. Qed.
#[export] Hint Resolve ng7h_find_first_nonspace ng7h_advance_loop : ng7h.
Lemma ng7h_advance_offset c line count columns : ng7h (advance_offset c line count columns).
Proof. unfold advance_offset. nggo. Qed.
#[export] Hint Resolve ng7h_advance_offset : ng7h.
Lemma ng7h_adv st line n b : ng7h (adv st line n b). Proof. unfold adv. nggo. Qed.
Lemma ng7h_get st x : ng7h (get st x).
Proof. unfold get. destruct (find_node x (ps_root st)); [exact I | allowed]. Qed.
Lemma ng7h_modify st x f : ng7h (modify st x f).
Proof. unfold modify. destruct (upd x f (ps_root st)); [exact I | allowed]. Qed.
Lemma ng7h_modify_info st x f : ng7h (modify_info st x f).
Proof. apply ng7h_modify. Qed.
#[export] Hint Resolve ng7h_adv ng7h_get ng7h_modify ng7h_modify_info : ng7h.

Lemma ng7h_try_inserting st c po : ng7h (try_inserting_table_header_paragraph st c po).
Proof. unfold try_inserting_table_header_paragraph. nggo. Qed.

(* ================================================================== the state premise *)
Definition Gn (c : nat) (X : bytes) (i : binfo) : Prop := bi_id i = c -> bi_content i = X.
Inductive GI (c : nat) (X : bytes) (st : pstate) : Prop := GI_intro : all_info (Gn c X) (ps_root st) -> GI c X st.

Lemma find_node_bid id t : forall n, find_node id t = Some n -> bi_id (binf n) = id.
Proof.
  induction t as [i ch IH] using bnode_ind2. intros n F. cbn [find_node] in F.
  destruct (Nat.eqb (bi_id i) id) eqn:E. { inversion F; subst. cbn. now apply Nat.eqb_eq. }
  induction ch as [|c r IHr]; [discriminate|].
  inversion IH; subst.
  destruct (find_node id c) eqn:E1.
  - inversion F; subst. eauto.
  - eauto.
Qed.

Lemma get_gi c X st n : GI c X st -> get st c = Ok n -> bi_content (binf n) = X.
Proof.
  intros [A] G. apply get_find in G.
  apply (all_info_binf _ _ (find_node_all _ _ _ _ A G)). eapply find_node_bid; exact G.
Qed.

Lemma try_inserting_gi c X st po st' :
  try_inserting_table_header_paragraph st c po = Ok st' -> c <> ps_next st -> GI c X st -> GI c X st'.
Proof.
  unfold try_inserting_table_header_paragraph. intros H Hne P.
  destruct (get st c) as [cn| |] eqn:G; cbn [bind] in H; try discriminate H.
  mstep H; [discriminate H|]. cbv zeta in H. rewrite trim_ok in H. cbn [bind] in H.
  mon H; monall; try exact P.
  match goal with M : modify_info _ _ _ = Ok ?s |- _ => assert (P1 : all_info (Gn c X) (ps_root s)) end.
  { match goal with M : modify_info _ _ _ = Ok _ |- _ => unfold modify_info, modify in M;
      match type of M with match ?u with _ => _ end = _ => destruct u as [r0|] eqn:U; [|discriminate M] end;
      inversion M; subst; cbn [ps_root st_root] end.
    destruct P as [A]. eapply upd_all; [exact A | exact U |].
    intros n0 _ An. destruct n0 as [i0 ch0]. cbn [on_info]. apply all_info_node in An. apply all_info_node.
    split; [|apply An]. destruct An as [An _]. unfold Gn in *. cbn. exact An. }
  constructor. cbn [ps_root st_root]. eapply edit_kids_all; [exact P1 | eassumption |].
  intros pk pre x post K. cbv beta. destruct (can_contain pk KParagraph); [|exact K].
  apply Forall_app in K. destruct K as [K1 K2]. apply Forall_app. split; [exact K1|].
  cbn [app]. constructor; [|exact K2]. apply all_info_node. split; [|constructor].
  unfold Gn. cbn. intro Eid. exfalso. apply Hne. symmetry. exact Eid.
Qed.

(* ================================================================== the local step *)
Theorem ng7h_try_opening_header o line st c X :
  par_content_ok X -> GI c X st -> c <> ps_next st -> ng7h (try_opening_header o st c line).
Proof.
  intros LF P Hne. unfold try_opening_header.
  apply ng_bind; [auto with ng7h|]. intros cn G. pose proof (get_gi _ _ _ _ P G) as EX.
  destruct (bi_tv (binf cn)); [exact I|].
  apply ng_bind; [auto with ng7h|]. intros rest _. destruct (scan_table_start rest); [|exact I].
  apply ng_bind; [auto with ng7h|]. intros [[dpo dcells]|] _; [|exact I].
  apply ng_bind; [auto with ng7h|]. intros [[po hcells]|] HR; [|exact I].
  destruct (negb _); [exact I|].
  apply ng_bind; [destruct (Nat.ltb 0 po); [apply ng7h_try_inserting | exact I]|].
  intros st1 E1.
  assert (P1 : GI c X st1).
  { destruct (Nat.ltb 0 po); [eapply try_inserting_gi; eassumption | inversion E1; subst; exact P]. }
  apply ng_bind; [auto with ng7h|]. intros c1 G1. pose proof (get_gi _ _ _ _ P1 G1) as EX1.
  cbv zeta. destruct (Nat.eqb (bi_sc (binf c1)) 0); [allowed|].
  rewrite EX in HR. pose proof (row_po_room_ok _ _ _ _ LF HR) as Room.
  apply ng_bind; [apply ng_sub; left; rewrite EX1; lia|]. intros k0 K0.
  assert (Ek : k0 = List.length X - 2).
  { unfold sub in K0. rewrite EX1 in K0. destruct (Nat.ltb (List.length X) 2); inversion K0; reflexivity. }
  apply ng_bind; [apply ng_sub; left; lia|]. intros k _.
  nggo.
Qed.

Corollary try_opening_header_no_hdr_panic o line st c X s :
  par_content_ok X -> GI c X st -> c <> ps_next st -> In s hdr_sites -> try_opening_header o st c line <> Panic s.
Proof.
  intros LF P Hne Hs E. pose proof (ng7h_try_opening_header o line st c X LF P Hne) as N. rewrite E in N.
  cbn [ng sg] in N. unfold al7h, but in N.
  destruct Hs as [<-|[<-|[]]]; vm_compute in N; discriminate N.
Qed.

(* ================================================================== what is false *)
Definition o_tab7 : bopts := mkBO true false false false false false false false None None (fun v => v).

(* "p\n|a|\n|-|\n": the result contains an OPEN Paragraph whose content is "p" (no final LF) *)
Lemma preface_paragraph_refuted :
  res_map (fun r => existsb (fun n => is_paragraph n && bi_open (binf n) && bytes_eqb (bi_content (binf n)) (B "p"))
                            (bsub (br_root r)))
          (parse_blocks o_tab7 (B "p" ++ [x0a] ++ B "|a|" ++ [x0a] ++ B "|-|" ++ [x0a])) = Ok true.
Proof. vm_compute. reflexivity. Qed.

(* on such a content row answers a header row with paragraph_offset 0: content.len() - 2 would underflow *)
Lemma row_on_trimmed_preface : row (B "p") false = Ok (Some (0, [mkTCell 0 0 0 (B "p")])).
Proof. vm_compute. reflexivity. Qed.
