(* Proofs/CmProofs.v — lemmas about Model/Cm.v: run lengths, shortest_unused_sequence,
   longest_char_sequence, code span delimiters, fences. *)
From Coq Require Import List NArith Bool Lia Arith Strings.String FinFun.
From V Require Import Base.Bytes Base.Res Gen.Ctype Gen.CmGen Model.Ast Model.Cm Spec.CmSpec.
Import ListNotations.
Local Open Scope list_scope.

(* ------------------------------------------------------------------ maximal runs *)
Lemma all_f_ends (f : byte) (l : bytes) : l <> [] -> (forall x, In x l -> x = f) -> ends_with_byte l f.
Proof.
  intros Hne Hall. destruct (exists_last Hne) as [l' [a E]]. subst l.
  exists l'. rewrite (Hall a); [reflexivity|]. apply in_or_app. right. left. reflexivity.
Qed.

Lemma all_f_begins (f : byte) (l : bytes) : l <> [] -> (forall x, In x l -> x = f) -> begins_with_byte l f.
Proof.
  intros Hne Hall. destruct l as [|a l]; [congruence|]. exists l. rewrite (Hall a); [reflexivity | left; reflexivity].
Qed.

Lemma is_run_repeat f k n : is_run (repeat f k) f n <-> n = k /\ 1 <= k.
Proof.
  split.
  - intros [Hn [pre [post [E [Hpre Hpost]]]]].
    assert (Hall : forall x, In x (pre ++ repeat f n ++ post) -> x = f).
    { intros x Hx. rewrite <- E in Hx. eapply repeat_spec. exact Hx. }
    assert (pre = []) as ->.
    { destruct pre as [|a pre]; [reflexivity|]. exfalso. apply Hpre. apply all_f_ends; [discriminate|].
      intros x Hx. apply Hall. apply in_or_app. left. exact Hx. }
    assert (post = []) as ->.
    { destruct post as [|a post]; [reflexivity|]. exfalso. apply Hpost. apply all_f_begins; [discriminate|].
      intros x Hx. apply Hall. apply in_or_app. right. apply in_or_app. right. exact Hx. }
    cbn [app] in E. rewrite app_nil_r in E.
    apply (f_equal (@List.length byte)) in E. rewrite !repeat_length in E. lia.
  - intros [-> Hk]. split; [exact Hk|]. exists [], []. cbn [app]. rewrite app_nil_r.
    split; [reflexivity|]. split; intros [l' E]; [destruct l'; discriminate | discriminate].
Qed.

Lemma is_run_split a c b f n : c <> f -> (is_run (a ++ c :: b) f n <-> is_run a f n \/ is_run b f n).
Proof.
  intro Hc. split.
  - intros [Hn [pre [post [E [Hpre Hpost]]]]].
    apply app_eq_app in E. destruct E as [l [[E1 E2] | [E1 E2]]].
    + (* a = pre ++ l *)
      symmetry in E2. apply app_eq_app in E2. destruct E2 as [l2 [[E3 E4] | [E3 E4]]].
      * (* l = repeat ++ l2, post = ... wait: orientation decided below *)
        (* l ++ c :: b = repeat ++ post with l = repeat f n ++ l2 and post = l2 ++ c :: b *)
        left. split; [exact Hn|]. exists pre, l2. split; [subst; reflexivity|]. split; [exact Hpre|].
        intros [l' El]. apply Hpost. exists (l' ++ c :: b). subst. reflexivity.
      * (* repeat f n = l ++ l2, c :: b = l2 ++ post *)
        destruct l2 as [|c' l2].
        -- left. split; [exact Hn|]. exists pre, []. rewrite app_nil_r in E3. subst. rewrite app_nil_r.
           split; [reflexivity|]. split; [exact Hpre|]. intros [l' El]. discriminate.
        -- exfalso. cbn [app] in E4. inversion E4; subst c'. apply Hc.
           eapply repeat_spec. rewrite E3. apply in_or_app. right. left. reflexivity.
    + (* pre = a ++ l, c :: b = l ++ repeat ++ post *)
      destruct l as [|c' l].
      * exfalso. cbn [app] in E2. destruct n; [lia|]. cbn [repeat app] in E2. inversion E2. congruence.
      * cbn [app] in E2. inversion E2; subst c'. right. split; [exact Hn|]. exists l, post.
        split; [reflexivity|]. split; [|exact Hpost].
        intros [l' El]. apply Hpre. exists (a ++ c :: l'). subst. rewrite <- app_assoc. reflexivity.
  - intros [[Hn [pre [post [E [Hpre Hpost]]]]] | [Hn [pre [post [E [Hpre Hpost]]]]]].
    + split; [exact Hn|]. exists pre, (post ++ c :: b). split; [subst; rewrite <- !app_assoc; reflexivity|].
      split; [exact Hpre|]. intros [l' El]. destruct post as [|p post].
      * cbn [app] in El. inversion El. congruence.
      * apply Hpost. cbn [app] in El. inversion El. exists post. reflexivity.
    + split; [exact Hn|]. exists (a ++ c :: pre), post. split; [subst; rewrite <- app_assoc; reflexivity|].
      split; [|exact Hpost]. intros [l' El]. destruct (exists_last (l:=pre)) as [pre' [x Ex]].
      * intro Hnil. subst pre. change (a ++ [c]) with (a ++ [c]) in El.
        apply app_inj_tail in El. destruct El as [_ Ec]. congruence.
      * apply Hpre. subst pre. change (c :: pre' ++ [x]) with ((c :: pre') ++ [x]) in El.
        rewrite app_assoc in El. apply app_inj_tail in El. destruct El as [_ Ex]. subst x. exists pre'. reflexivity.
Qed.

Lemma repeat_snoc (f : byte) n : repeat f n ++ [f] = repeat f (S n).
Proof. induction n as [|n IH]; [reflexivity|]. cbn [repeat app]. rewrite IH. reflexivity. Qed.

Lemma is_run_run_list f l : forall cur n, is_run (repeat f cur ++ l) f n <-> In n (run_list l f cur).
Proof.
  induction l as [|c r IH]; intros cur n.
  - rewrite app_nil_r. rewrite is_run_repeat. cbn [run_list]. destruct cur; cbn [In]; split; intro H.
    + lia. + contradiction. + left. lia. + destruct H as [H|[]]. lia.
  - cbn [run_list]. destruct (beqb c f) eqn:Ecf.
    + apply beqb_eq in Ecf. subst c. rewrite <- IH. rewrite <- repeat_snoc. rewrite <- app_assoc. reflexivity.
    + apply beqb_neq in Ecf. rewrite (is_run_split _ _ _ _ _ Ecf). rewrite is_run_repeat.
      specialize (IH 0 n). cbn [repeat app] in IH. rewrite IH.
      destruct cur; cbn [In]; split; intro H.
      * destruct H as [H|H]; [lia | exact H].
      * right. exact H.
      * destruct H as [H|H]; [left; lia | right; exact H].
      * destruct H as [H|H]; [left; lia | right; exact H].
Qed.

Lemma is_run_runs l f n : is_run l f n <-> In n (runs l f).
Proof. unfold runs. rewrite <- is_run_run_list. reflexivity. Qed.

Lemma has_run_spec l f n : has_run l f n = true <-> is_run l f n.
Proof.
  rewrite is_run_runs. unfold has_run. rewrite existsb_exists. split.
  - intros [x [Hx E]]. apply Nat.eqb_eq in E. subst. exact Hx.
  - intro H. exists n. split; [exact H | apply Nat.eqb_refl].
Qed.

(* ------------------------------------------------------------------ shortest_unused_sequence *)
Lemma set_insert_In n s m : In m (set_insert n s) <-> m = n \/ In m s.
Proof.
  unfold set_insert. destruct (existsb (N.eqb n) s) eqn:E.
  - split; [intro H; right; exact H|]. intros [->|H]; [|exact H].
    apply existsb_exists in E. destruct E as [x [Hx Ex]]. apply N.eqb_eq in Ex. subst. exact Hx.
  - cbn [In]. split; intros [H|H]; auto.
Qed.

Lemma sus_runs_In f l : forall used cur m,
  In m (sus_runs l f used cur) <-> In m used \/ In m (map N.of_nat (run_list l f (N.to_nat cur))).
Proof.
  induction l as [|c r IH]; intros used cur m.
  - cbn [sus_runs run_list]. destruct (N.ltb_spec 0 cur) as [Hc|Hc].
    + rewrite set_insert_In. destruct (N.to_nat cur) eqn:E; [lia|]. cbn [map In].
      rewrite <- E. rewrite N2Nat.id. intuition congruence.
    + replace (N.to_nat cur) with 0%nat by lia. cbn [map In]. tauto.
  - cbn [sus_runs run_list]. destruct (beqb c f).
    + rewrite IH. replace (N.to_nat (cur + 1)) with (S (N.to_nat cur)) by lia. reflexivity.
    + rewrite IH. change (N.to_nat 0) with 0%nat. destruct (N.ltb_spec 0 cur) as [Hc|Hc].
      * rewrite set_insert_In. destruct (N.to_nat cur) eqn:E; [lia|]. cbn [map In].
        rewrite <- E. rewrite N2Nat.id. intuition congruence.
      * replace (N.to_nat cur) with 0%nat by lia. tauto.
Qed.

Lemma sus_search_ok fuel used : forall i r,
  sus_search fuel used i = Ok r ->
  ~ In r used /\ (i <= r)%N /\ forall j, (i <= j < r)%N -> In j used.
Proof.
  induction fuel as [|fuel IH]; intros i r H; [discriminate|].
  cbn [sus_search] in H. unfold set_contains in H. destruct (existsb (N.eqb i) used) eqn:E.
  - apply IH in H. destruct H as [H1 [H2 H3]]. split; [exact H1|]. split; [lia|].
    intros j Hj. destruct (N.eq_dec j i) as [->|Hne].
    + apply existsb_exists in E. destruct E as [x [Hx Ex]]. apply N.eqb_eq in Ex. subst. exact Hx.
    + apply H3. lia.
  - inversion H; subst r. split.
    + intro Hin. assert (existsb (N.eqb i) used = true) as E2; [|congruence].
      apply existsb_exists. exists i. split; [exact Hin | apply N.eqb_refl].
    + split; [lia|]. intros j Hj. lia.
Qed.

Lemma sus_search_no_panic fuel used : forall i site, sus_search fuel used i <> Panic site.
Proof.
  induction fuel as [|fuel IH]; intros i site; cbn [sus_search]; [discriminate|].
  destruct (set_contains used i); [apply IH | discriminate].
Qed.

Lemma sus_search_fuel fuel used : forall i,
  sus_search fuel used i = OutOfFuel -> forall j, (i <= j < i + N.of_nat fuel)%N -> In j used.
Proof.
  induction fuel as [|fuel IH]; intros i H j Hj; [lia|].
  cbn [sus_search] in H. unfold set_contains in H. destruct (existsb (N.eqb i) used) eqn:E; [|discriminate].
  destruct (N.eq_dec j i) as [->|Hne].
  - apply existsb_exists in E. destruct E as [x [Hx Ex]]. apply N.eqb_eq in Ex. subst. exact Hx.
  - apply (IH _ H). lia.
Qed.

Lemma sus_search_total used i : exists r, sus_search (S (List.length used)) used i = Ok r.
Proof.
  destruct (sus_search (S (List.length used)) used i) as [r|site|] eqn:E.
  - exists r. reflexivity.
  - exfalso. exact (sus_search_no_panic _ _ _ _ E).
  - exfalso. pose proof (sus_search_fuel _ _ _ E) as H.
    set (l := map (fun k => (i + N.of_nat k)%N) (seq 0 (S (List.length used)))).
    assert (Hnd : NoDup l).
    { apply Injective_map_NoDup; [intros a b Hab; lia | apply seq_NoDup]. }
    assert (Hincl : incl l used).
    { intros x Hx. apply in_map_iff in Hx. destruct Hx as [k [<- Hk]]. apply in_seq in Hk. apply H. lia. }
    pose proof (NoDup_incl_length Hnd Hincl) as Hlen. unfold l in Hlen. rewrite map_length, seq_length in Hlen. lia.
Qed.

Theorem shortest_unused_spec l f :
  exists r, shortest_unused_sequence l f = Ok r /\
    (1 <= N.to_nat r)%nat /\
    ~ is_run l f (N.to_nat r) /\
    forall k, (1 <= k < N.to_nat r)%nat -> is_run l f k.
Proof.
  unfold shortest_unused_sequence. set (used := sus_runs l f [] 0).
  destruct (sus_search_total used 1) as [r Hr]. exists r. split; [exact Hr|].
  apply sus_search_ok in Hr. destruct Hr as [H1 [H2 H3]].
  assert (Hused : forall m, In m used <-> In m (map N.of_nat (runs l f))).
  { intro m. unfold used. rewrite sus_runs_In. cbn [In]. change (N.to_nat 0) with 0%nat. unfold runs. tauto. }
  split; [lia|]. split.
  - intro Hrun. apply H1. apply Hused. apply in_map_iff. exists (N.to_nat r). split; [apply N2Nat.id|].
    apply is_run_runs. exact Hrun.
  - intros k Hk. apply is_run_runs. assert (In (N.of_nat k) used) as Hin by (apply H3; lia).
    apply Hused in Hin. apply in_map_iff in Hin. destruct Hin as [k' [E Hk']]. apply Nat2N.inj in E. subst. exact Hk'.
Qed.

(* ------------------------------------------------------------------ longest_char_sequence *)
Lemma lcs_loop_max ch l : forall lg cur,
  lcs_loop l ch lg cur = N.max lg (N.of_nat (list_max (run_list l ch (N.to_nat cur)))).
Proof.
  induction l as [|c r IH]; intros lg cur.
  - cbn [lcs_loop run_list]. destruct (N.to_nat cur) eqn:E.
    + cbn [list_max fold_right]. destruct (N.ltb_spec lg cur); lia.
    + cbn [list_max fold_right]. rewrite Nat.max_0_r. rewrite <- E. rewrite N2Nat.id.
      destruct (N.ltb_spec lg cur); lia.
  - cbn [lcs_loop run_list]. destruct (beqb c ch).
    + rewrite IH. replace (N.to_nat (cur + 1)) with (S (N.to_nat cur)) by lia. reflexivity.
    + rewrite IH. change (N.to_nat 0) with 0%nat. destruct (N.to_nat cur) eqn:E.
      * destruct (N.ltb_spec lg cur); lia.
      * change (list_max (S n :: run_list r ch 0)) with (Nat.max (S n) (list_max (run_list r ch 0))).
        rewrite Nat2N.inj_max. rewrite <- E. rewrite N2Nat.id.
        destruct (N.ltb_spec lg cur); lia.
Qed.

Lemma list_max_In (l : list nat) : l <> [] -> In (list_max l) l.
Proof.
  induction l as [|a l IH]; [congruence|]. intros _.
  change (list_max (a :: l)) with (Nat.max a (list_max l)).
  destruct l as [|b l].
  - cbn [list_max fold_right]. rewrite Nat.max_0_r. left. reflexivity.
  - destruct (Nat.max_spec a (list_max (b :: l))) as [[_ ->]|[_ ->]].
    + right. apply IH. discriminate.
    + left. reflexivity.
Qed.

Theorem longest_char_sequence_spec l ch :
  let r := N.to_nat (longest_char_sequence l ch) in
  (forall n, is_run l ch n -> (n <= r)%nat) /\ (r = 0%nat \/ is_run l ch r).
Proof.
  cbv zeta. unfold longest_char_sequence. rewrite lcs_loop_max. change (N.to_nat 0) with 0%nat.
  rewrite N.max_0_l. rewrite Nat2N.id. fold (runs l ch). split.
  - intros n Hn. apply is_run_runs in Hn.
    assert (Forall (fun k => (k <= list_max (runs l ch))%nat) (runs l ch)) as HF by (apply list_max_le; lia).
    rewrite Forall_forall in HF. apply HF. exact Hn.
  - destruct (runs l ch) eqn:E; [left; reflexivity|]. right. apply is_run_runs. rewrite E.
    apply list_max_In. discriminate.
Qed.

(* ------------------------------------------------------------------ fences and code spans *)
Theorem fence_safe literal fc n :
  is_run literal fc n -> (n < N.to_nat (fence_length literal fc))%nat /\ (3 <= N.to_nat (fence_length literal fc))%nat.
Proof.
  intro H. destruct (longest_char_sequence_spec literal fc) as [Hle _]. apply Hle in H.
  unfold fence_length. lia.
Qed.

Lemma is_run_pad lit f sp n : sp <> f -> (is_run ([sp] ++ lit ++ [sp]) f n <-> is_run lit f n).
Proof.
  intro Hs. change ([sp] ++ lit ++ [sp]) with ([] ++ sp :: (lit ++ sp :: [])).
  rewrite (is_run_split _ _ _ _ _ Hs). rewrite (is_run_split _ _ _ _ _ Hs).
  split; [|tauto]. intros [H|[H|H]]; [|exact H|].
  - change (@nil byte) with (repeat f 0) in H. apply is_run_repeat in H. lia.
  - change (@nil byte) with (repeat f 0) in H. apply is_run_repeat in H. lia.
Qed.

Lemma last_snoc_ne (l : bytes) (d x : byte) : last (l ++ [x]) d = x.
Proof. apply last_last. Qed.

Theorem code_span_delimiter_safe lit :
  lit <> [] ->
  exists n, shortest_unused_sequence lit x60 = Ok n /\ (1 <= N.to_nat n)%nat /\
    ~ is_run lit x60 (N.to_nat n) /\
    ~ is_run (code_body lit) x60 (N.to_nat n) /\
    ~ begins_with_byte (code_body lit) x60 /\ ~ ends_with_byte (code_body lit) x60.
Proof.
  intro Hne. destruct (shortest_unused_spec lit x60) as [n [E [H1 [H2 _]]]]. exists n.
  split; [exact E|]. split; [exact H1|]. split; [exact H2|].
  unfold code_body. destruct (code_pad lit) eqn:Ep.
  - split; [rewrite is_run_pad; [exact H2 | discriminate]|]. split.
    + intros [l' El]. cbn [app] in El. inversion El.
    + intros [l' El]. rewrite app_assoc in El. apply app_inj_tail in El. destruct El as [_ El]. discriminate.
  - split; [exact H2|]. unfold code_pad in Ep. apply orb_false_iff in Ep. destruct Ep as [Ep _].
    apply orb_false_iff in Ep. destruct Ep as [Ef El]. split.
    + intros [l' E']. subst lit. cbn [hd] in Ef. rewrite beqb_refl in Ef. discriminate.
    + intros [l' E']. subst lit. rewrite last_last in El. rewrite beqb_refl in El. discriminate.
Qed.
