(* Proofs/BlocksTight.v — list tightness after the repair of BLK-1 (finalize_borrowed, Paragraph arm: when a
   paragraph that held only reference definitions is detached and the list around its item is already closed, the
   tightness of that list is computed again).

   retighten_post            the postcondition of the new statement, for every state: afterwards the closed list
                             around the item has tight = items_tight of the children it has now
   finalize_removed_paragraph  the same seen from finalize: whenever finalize removes a paragraph (no content left
                             after the reference definitions), the closed list two levels up is tight iff
                             items_tight of its present children
   items_tight_reads         what list_is_tight reads: a list is tight iff no item but the last has
                             last_line_blank and no block of an item other than the last block of the last item
                             ends with a blank line
   items_tight_single        (consequence) a list whose only item has a single block is tight *)
From Coq Require Import List NArith Arith Bool Lia Strings.String.
From V Require Import Base.Bytes Base.Res Gen.Nodes Model.Ast Model.Strings Model.RefDef Model.Blocks Proofs.BlocksProofs.
Import ListNotations.
Local Open Scope string_scope.
Local Open Scope list_scope.

(* ------------------------------------------------------------------ find_node after upd *)
Lemma find_none_upd id f t : find_node id t = None -> upd id f t = None.
Proof.
  induction t as [i ch IH] using bnode_ind2. cbn [upd find_node].
  destruct (Nat.eqb (bi_id i) id); [discriminate|].
  induction ch as [|x xs IHxs]; [reflexivity|].
  inversion IH as [|? ? Hx Hxs]; subst. intro F.
  destruct (find_node id x) eqn:Fx; [discriminate|]. rewrite (Hx eq_refl).
  specialize (IHxs Hxs F).
  match type of IHxs with match ?g with _ => _ end = None => destruct g; [discriminate|reflexivity] end.
Qed.

Lemma find_root_id n : find_node (bid n) n = Some n.
Proof. destruct n as [i ch]. cbn [find_node bid binf]. now rewrite Nat.eqb_refl. Qed.

Lemma find_upd_same id f t : forall t',
  (forall n, bid (f n) = bid n) -> upd id f t = Some t' ->
  find_node id t' = option_map f (find_node id t).
Proof.
  induction t as [i ch IH] using bnode_ind2. intros t' Hf U. cbn [upd] in U. cbn [find_node].
  destruct (Nat.eqb (bi_id i) id) eqn:E.
  - inversion U; subst. cbn [option_map]. apply Nat.eqb_eq in E.
    pose proof (find_root_id (f (BNode i ch))) as R. rewrite Hf in R. change (bid (BNode i ch)) with (bi_id i) in R.
    rewrite E in R. exact R.
  - match type of U with match ?g with _ => _ end = _ => destruct g as [ch'|] eqn:G; [|discriminate] end.
    inversion U; subst. clear U. cbn [find_node]. rewrite E.
    revert ch' G. induction ch as [|c r IHr]; intros ch' G; [discriminate|].
    inversion IH as [|? ? IHc IHrest]; subst.
    destruct (upd id f c) as [c'|] eqn:Uc.
    + inversion G; subst. rewrite (IHc c' Hf eq_refl).
      destruct (find_node id c) eqn:Fc; [reflexivity|]. now rewrite (find_none_upd _ f _ Fc) in Uc.
    + match type of G with match ?g with _ => _ end = _ => destruct g as [r'|] eqn:Gr; [|discriminate] end.
      inversion G; subst. rewrite (upd_none_find _ _ _ Uc). now apply IHr.
Qed.

(* upd with a change of the info only: identifiers and shape are kept, so parent_of is unchanged *)
Lemma upd_info_bid id g t t' : (forall i, bi_id (g i) = bi_id i) -> upd id (on_info g) t = Some t' -> bid t' = bid t.
Proof.
  destruct t as [i ch]. intros Hg U. cbn [upd] in U.
  destruct (Nat.eqb (bi_id i) id).
  - inversion U; subst. cbn. apply Hg.
  - match type of U with match ?gg with _ => _ end = _ => destruct gg; [|discriminate] end. now inversion U.
Qed.

Lemma split_kid_none_iff x l : split_kid x l = None <-> existsb (fun b => Nat.eqb b x) (map bid l) = false.
Proof.
  induction l as [|c r IH]; cbn [split_kid map existsb]; [tauto|].
  destruct (Nat.eqb (bid c) x); cbn [orb]; [split; discriminate|].
  rewrite <- IH. destruct (split_kid x r) as [[[? ?] ?]|]; split; (discriminate || reflexivity).
Qed.

Lemma parent_of_upd_info id g x t : forall t',
  (forall i, bi_id (g i) = bi_id i) -> upd id (on_info g) t = Some t' -> parent_of x t' = parent_of x t.
Proof.
  induction t as [i ch IH] using bnode_ind2. intros t' Hg U. cbn [upd] in U.
  destruct (Nat.eqb (bi_id i) id).
  - inversion U; subst. cbn [on_info parent_of]. rewrite Hg. reflexivity.
  - match type of U with match ?gg with _ => _ end = _ => destruct gg as [ch'|] eqn:G; [|discriminate] end.
    inversion U; subst. clear U. cbn [parent_of].
    assert (M : map bid ch' = map bid ch).
    { clear IH. revert ch' G. induction ch as [|c r IHr]; intros ch' G; [discriminate|].
      destruct (upd id (on_info g) c) as [c'|] eqn:Uc.
      - inversion G; subst. cbn [map]. now rewrite (upd_info_bid _ _ _ _ Hg Uc).
      - match type of G with match ?gg with _ => _ end = _ => destruct gg as [r'|] eqn:Gr; [|discriminate] end.
        inversion G; subst. cbn [map]. f_equal. now apply IHr. }
    pose proof (split_kid_none_iff x ch') as S1. pose proof (split_kid_none_iff x ch) as S2. rewrite M in S1.
    destruct (split_kid x ch') as [[[? ?] ?]|]; destruct (split_kid x ch) as [[[? ?] ?]|]; try reflexivity.
    + exfalso. assert (Z : @None (list bnode * bnode * list bnode) = None) by reflexivity.
      apply S2 in Z. apply S1 in Z. discriminate Z.
    + exfalso. assert (Z : @None (list bnode * bnode * list bnode) = None) by reflexivity.
      apply S1 in Z. apply S2 in Z. discriminate Z.
    + clear S1 S2 M. revert ch' G. induction ch as [|c r IHr]; intros ch' G; [discriminate|].
      inversion IH as [|? ? IHc IHrest]; subst.
      destruct (upd id (on_info g) c) as [c'|] eqn:Uc.
      * inversion G; subst. rewrite (IHc c' Hg eq_refl). reflexivity.
      * match type of G with match ?gg with _ => _ end = _ => destruct gg as [r'|] eqn:Gr; [|discriminate] end.
        inversion G; subst. destruct (parent_of x c); [reflexivity|]. now apply IHr.
Qed.

Lemma modify_info_get st id g st' :
  (forall i, bi_id (g i) = bi_id i) -> modify_info st id g = Ok st' ->
  forall l, get st' id = Ok l -> exists l0, get st id = Ok l0 /\ l = on_info g l0.
Proof.
  unfold modify_info, modify, get. intros Hg M l G.
  destruct (upd id (on_info g) (ps_root st)) as [r|] eqn:U; [|discriminate M]. inversion M; subst. cbn [ps_root st_root] in G.
  assert (Hb : forall n, bid (on_info g n) = bid n) by (intros [i ch]; apply Hg).
  rewrite (find_upd_same _ _ _ _ Hb U) in G.
  destruct (find_node id (ps_root st)) as [l0|]; cbn [option_map] in G; [|discriminate G].
  inversion G; subst. now exists l0.
Qed.

Lemma modify_info_parent_of st id g st' x :
  (forall i, bi_id (g i) = bi_id i) -> modify_info st id g = Ok st' -> parent_of x (ps_root st') = parent_of x (ps_root st).
Proof.
  unfold modify_info, modify. intros Hg M.
  destruct (upd id (on_info g) (ps_root st)) as [r|] eqn:U; [|discriminate M]. inversion M; subst. cbn [ps_root st_root].
  eapply parent_of_upd_info; eassumption.
Qed.

(* ------------------------------------------------------------------ the new statement *)
Theorem retighten_post st item st' :
  retighten st (Some item) = Ok st' ->
  forall lid l nl, parent_of item (ps_root st') = Some lid -> get st' lid = Ok l ->
    bi_open (binf l) = false -> bval l = NList nl -> l_tight nl = items_tight (bkids l).
Proof.
  unfold retighten. intros H lid l nl P G O B.
  destruct (parent_of item (ps_root st)) as [lid0|] eqn:P0.
  2:{ inversion H; subst. congruence. }
  destruct (get st lid0) as [l0| |] eqn:G0; cbn [bind] in H; try discriminate H.
  destruct (bi_open (binf l0)) eqn:O0.
  { inversion H; subst. rewrite P0 in P. inversion P; subst. rewrite G0 in G. inversion G; subst. congruence. }
  destruct (bval l0) eqn:B0;
    try (inversion H; subst; rewrite P0 in P; inversion P; subst; rewrite G0 in G; inversion G; subst; congruence).
  assert (Hg : forall i, bi_id (set_val (NList (mkList (l_type l1) (l_marker_offset l1) (l_padding l1) (l_start l1) (l_delim l1) (l_bullet l1)
                                               (items_tight (bkids l0)) (l_task l1))) i) = bi_id i) by reflexivity.
  rewrite (modify_info_parent_of _ _ _ _ item Hg H) in P. rewrite P0 in P. inversion P; subst.
  destruct (modify_info_get _ _ _ _ Hg H _ G) as [l0' [G0' El]]. rewrite G0 in G0'. inversion G0'; subst.
  destruct l0' as [i0 ch0]. unfold bval in B. cbn [on_info binf set_val bi_val bkids] in *. inversion B; subst. reflexivity.
Qed.

Theorem finalize_removed_paragraph o st id n content' m' item st' :
  get st id = Ok n -> bval n = Paragraph ->
  resolve_refdefs (bo_fold o) (ps_refmap st) (bi_content (binf n)) = Ok (content', false, m') ->
  finalize o st id = Ok (Some item, st') ->
  forall lid l nl, parent_of item (ps_root st') = Some lid -> get st' lid = Ok l ->
    bi_open (binf l) = false -> bval l = NList nl -> l_tight nl = items_tight (bkids l).
Proof.
  intros G B R F. unfold finalize in F. rewrite G in F. cbn [bind] in F.
  destruct (negb (bi_open (binf n))); [discriminate F|].
  match type of F with bind ?r _ = _ => destruct r as [ends| |]; cbn [bind] in F; try discriminate F end.
  unfold bval in B. rewrite B in F. rewrite R in F. cbn [bind] in F.
  match type of F with bind ?r _ = _ => destruct r as [st1| |]; cbn [bind] in F; try discriminate F end.
  match type of F with bind ?r _ = _ => destruct r as [st3| |]; cbn [bind] in F; try discriminate F end.
  match type of F with bind ?r _ = _ => destruct r as [st4| |] eqn:RT; cbn [bind] in F; try discriminate F end.
  inversion F as [[Ep Es]]. subst st4. rewrite Ep in RT. eapply retighten_post. exact RT.
Qed.

(* ------------------------------------------------------------------ what list_is_tight reads *)
Lemma subitems_tight_reads nx subs :
  subitems_tight nx subs = true <->
  (forall spre s spost, subs = spre ++ s :: spost -> ends_with_blank_line s = true -> nx = false /\ spost = []).
Proof.
  induction subs as [|s0 r IH]; cbn [subitems_tight].
  - split; [|reflexivity]. intros _ spre s spost E. destruct spre; discriminate E.
  - destruct ((nx || is_cons r) && ends_with_blank_line s0) eqn:C.
    + split; [discriminate|]. intro H. exfalso.
      apply andb_true_iff in C. destruct C as [C1 C2].
      destruct (H [] s0 r eq_refl C2) as [N E]. subst. now rewrite orb_false_r in C1.
    + rewrite IH. split.
      * intros H spre s spost E Hs. destruct spre as [|x spre']; cbn [app] in E; inversion E; subst.
        -- rewrite Hs, andb_true_r in C. apply orb_false_iff in C. destruct C as [C1 C2].
           split; [exact C1|]. destruct spost; [reflexivity|discriminate C2].
        -- eapply H; [reflexivity | exact Hs].
      * intros H spre s spost E Hs. apply (H (s0 :: spre) s spost); [cbn [app]; now rewrite E | exact Hs].
Qed.

Theorem items_tight_reads items :
  items_tight items = true <->
  (forall pre it post, items = pre ++ it :: post ->
     (bi_llb (binf it) = true -> post = []) /\
     (forall spre s spost, bkids it = spre ++ s :: spost -> ends_with_blank_line s = true -> post = [] /\ spost = [])).
Proof.
  induction items as [|i0 r IH]; cbn [items_tight].
  - split; [|reflexivity]. intros _ pre it post E. destruct pre; discriminate E.
  - destruct (bi_llb (binf i0) && is_cons r) eqn:C1.
    { split; [discriminate|]. intro H. exfalso. apply andb_true_iff in C1. destruct C1 as [A B].
      destruct (H [] i0 r eq_refl) as [H1 _]. rewrite (H1 A) in B. discriminate B. }
    destruct (subitems_tight (is_cons r) (bkids i0)) eqn:C2; cbn [negb].
    + rewrite IH. pose proof (proj1 (subitems_tight_reads _ _) C2) as S. split.
      * intros H pre it post E. destruct pre as [|x pre']; cbn [app] in E; inversion E; subst.
        -- split.
           ++ intro L. rewrite L in C1. destruct post; [reflexivity|discriminate C1].
           ++ intros spre s spost Es Hs. destruct (S _ _ _ Es Hs) as [N Z]. split; [|exact Z].
              destruct post; [reflexivity|discriminate N].
        -- eapply H. reflexivity.
      * intros H pre it post E. apply (H (i0 :: pre)). cbn [app]. now rewrite E.
    + split; [discriminate|]. intro H. exfalso.
      assert (S : subitems_tight (is_cons r) (bkids i0) = true); [|congruence].
      apply subitems_tight_reads. intros spre s spost Es Hs.
      destruct (H [] i0 r eq_refl) as [_ H2]. destruct (H2 _ _ _ Es Hs) as [Z1 Z2]. subst. split; reflexivity.
Qed.

Corollary items_tight_single it s : bkids it = [s] -> items_tight [it] = true.
Proof.
  intro K. apply items_tight_reads. intros pre x post E.
  destruct pre as [|? [|? ?]]; cbn [app] in E; inversion E; subst. split; [reflexivity|].
  intros spre s' spost Es _. split; [reflexivity|]. rewrite K in Es.
  destruct spre as [|? [|? ?]]; cbn [app] in Es; inversion Es; subst. reflexivity.
Qed.
