(* Proofs/BlocksTotal7SpineLeaf.v — totality of the block phase, seventh round, the open-spine sites: the allowed set
   alS = but spine_sites and the part of the walk that needs no invariant (a copy of the leaf / cursor / tree-primitive
   part of Proofs/BlocksTotal7Add.v with the new allowed set: none of these functions contains a spine site).
   finalize, add_line, finalize_up_to and their callers are in Proofs/BlocksTotal7Spine.v. *)
From Coq Require Import List NArith Arith Bool Lia Strings.String.
From V Require Import Base.Bytes Base.Res Gen.Nodes Gen.BlocksConst Gen.FeedConst Model.Ast Model.Strings Model.Entity Model.LinkUrl Model.ListMarker
  Model.Feed Model.FrontMatter Model.RefDef Model.Scan Model.Blocks Spec.EscapeSpec Spec.Shape Spec.Valid
  Proofs.StrLeafProofs Proofs.StrLeafEntity Proofs.StrLeafParse Proofs.BlocksProofs Proofs.BlocksCursor Proofs.BlocksTight Proofs.BlocksTotal
  Proofs.ParserShapeBlocks Proofs.ParserShapeTree Proofs.ParserShapeTabPrim Proofs.ParserShapeTables
  Proofs.BlocksTotal2Safe Proofs.BlocksTotal3Cur Proofs.BlocksTotal4Safe Proofs.BlocksTotal4Frame.
From V Require Proofs.BlocksTotal4Row Proofs.BlocksTotal4Scan Proofs.BlocksTotal4Fuel Proofs.BlocksTotal2Tree Proofs.BlocksTotal4Spine.
Import ListNotations.
Local Open Scope string_scope.
Local Open Scope list_scope.

Definition S1 : string := "mod.rs:finalize_borrowed:assert!(ast.open)".
Definition S2 : string := "mod.rs:add_line:assert!(ast.open)".
Definition S3 : string := "mod.rs:add_text_to_container:self.finalize(self.current).unwrap()".
Definition spine_sites : list string := [S1; S2; S3].
Definition alS : string -> bool := but spine_sites.
Notation ngS := (ng alS true).

Ltac allowed := vm_compute; reflexivity.

Create HintDb ngS.

Ltac ngstep :=
  match goal with
  | |- ng _ _ (bind ?r _) => apply ng_bind; [ try solve [auto with ngS] | intros ]
  | |- ng _ _ (Ok _) => exact I
  | |- ng _ _ OutOfFuel => reflexivity
  | |- ng _ _ (Panic _) => first [assumption | allowed]
  | |- ng _ _ no_node => allowed
  | |- ng _ _ (not_handled _ _) => exact I
  | |- ng _ _ (res_map _ _) => apply ng_res_map
  | |- ng _ _ (if ?b then _ else _) => destruct b
  | |- ng _ _ (match ?x with _ => _ end) => destruct x
  | |- ng _ _ (let (_, _) := ?x in _) => destruct x
  end.
Ltac nggo := repeat ngstep; auto with ngS.

Lemma ngS_idx site l i : alS site = true -> ngS (idx site l i).
Proof. intro H. apply ng_idx. now right. Qed.
Lemma ngS_sub site a b : alS site = true -> ngS (sub site a b).
Proof. intro H. apply ng_sub. now right. Qed.
Lemma ngS_slice_from site l i : alS site = true -> ngS (Blocks.slice_from site l i).
Proof. intro H. apply ng_slice_from. now right. Qed.
Lemma ngS_from_utf8 site b : alS site = true -> ngS (from_utf8 site b).
Proof. intro H. apply ng_from_utf8. now right. Qed.
#[export] Hint Extern 1 (ng _ _ (idx _ _ _)) => (apply ngS_idx; first [assumption | allowed]) : ngS.
#[export] Hint Extern 1 (ng _ _ (sub _ _ _)) => (apply ngS_sub; first [assumption | allowed]) : ngS.
#[export] Hint Extern 1 (ng _ _ (Blocks.slice_from _ _ _)) => (apply ngS_slice_from; first [assumption | allowed]) : ngS.
#[export] Hint Extern 1 (ng _ _ (from_utf8 _ _)) => (apply ngS_from_utf8; first [assumption | allowed]) : ngS.

(* ---- leaf functions: total for all arguments *)
Lemma ngS_trim s : ngS (Strings.trim s). Proof. rewrite trim_ok. exact I. Qed.
Lemma ngS_rtrim s : ngS (Strings.rtrim s). Proof. rewrite rtrim_ok. exact I. Qed.
Lemma ngS_unescape s : ngS (Strings.unescape s). Proof. rewrite unescape_is_spec. exact I. Qed.
Lemma ngS_unescape_html s : ngS (unescape_html s). Proof. apply ng_ex. apply unescape_html_total. Qed.
Lemma ngS_manual_scan_link_url s : ngS (manual_scan_link_url s).
Proof. apply ng_ex. destruct (manual_scan_link_url_total s) as [r [E _]]. exists r. exact E. Qed.
Lemma ngS_row s sp : ngS (row s sp). Proof. apply ng_ex. apply BlocksTotal4Row.row_total. Qed.
Lemma ngS_table_matches s sp : ngS (table_matches s sp). Proof. apply ng_ex. apply BlocksTotal4Row.table_matches_total. Qed.
#[export] Hint Resolve ngS_trim ngS_rtrim ngS_unescape ngS_unescape_html ngS_manual_scan_link_url ngS_row ngS_table_matches : ngS.

(* ---- leaf functions with sites of their own *)
Lemma ngS_remove_trailing_blank_lines s : ngS (remove_trailing_blank_lines s).
Proof. unfold remove_trailing_blank_lines. nggo. Qed.
Lemma ngS_chop_trailing_hashtags s : ngS (chop_trailing_hashtags s).
Proof. unfold chop_trailing_hashtags. nggo. Qed.
Lemma ngS_clean_url s : ngS (clean_url s). Proof. unfold clean_url. nggo. Qed.
(* clean_title panics on a title of length 1 only (Props/StrLeaf.v); its one caller hands it a scan_link_title match *)
Lemma ngS_clean_title s : List.length s <> 1 -> ngS (clean_title s).
Proof. intro H. apply ng_ex. now apply clean_title_total. Qed.
#[export] Hint Resolve ngS_remove_trailing_blank_lines ngS_chop_trailing_hashtags ngS_clean_url : ngS.
Lemma scan_link_title_ge s m : scan_link_title s = Some m -> 2 <= m.
Proof. BlocksTotal4Scan.scan_ge. Qed.
Lemma scan_link_title_le s m : scan_link_title s = Some m -> m <= List.length s.
Proof. intro H. eapply as_opt_usize_cursor_le; [|exact H]. vm_compute. reflexivity. Qed.
(* line_at: bytes[end..] is inside the string as long as the start is; split_off_front_matter starts at 0 and goes on
   from the `next` of the line before *)
Lemma sg7_fm_line_at s k : k <= List.length s -> sg alS true (fun r => snd r <= List.length s) (fm_line_at s k).
Proof.
  intro H. unfold fm_line_at. pose proof (BlocksTotal4Fuel.scan_line_end_bounds (skipn k s) k) as B. rewrite skipn_length in B.
  set (e := scan_line_end (skipn k s) k) in *. unfold byte_slice_from.
  destruct (Nat.leb e (List.length s)) eqn:L; [|apply Nat.leb_gt in L; lia]. apply Nat.leb_le in L. cbn [bind].
  unfold fm_slice. destruct (_ && _ && _); [cbn [bind sg snd] | allowed].
  destruct (starts_with (skipn e s) fm_crlf) eqn:Sw.
  - apply starts_with_app in Sw. destruct Sw as [r Er]. apply (f_equal (@List.length byte)) in Er.
    rewrite skipn_length, app_length in Er. change (List.length fm_crlf) with 2 in Er. lia.
  - destruct (Nat.ltb e (List.length s)) eqn:Lt; [apply Nat.ltb_lt in Lt; lia | lia].
Qed.
Lemma sg7_find_closing_line : forall fuel s d e, e <= List.length s ->
  sg alS true (fun c => match c with Some e' => e' <= List.length s | None => True end) (find_closing_line fuel s d e).
Proof.
  induction fuel as [|f IH]; intros s d e H; cbn [find_closing_line]; [reflexivity|].
  destruct (Nat.eqb e (List.length s)); [exact I|].
  eapply sg_bind; [now apply sg7_fm_line_at|]. intros ln _ Hn.
  destruct (bytes_eqb (fst ln) d); [exact Hn | now apply IH].
Qed.
Lemma ngS_split_off_front_matter s d : ngS (split_off_front_matter s d).
Proof.
  unfold split_off_front_matter, slice_to, FrontMatter.slice_from.
  eapply sg_bind; [apply sg7_fm_line_at; lia|]. intros l0 _ H0.
  destruct (_ || _); [exact I|].
  eapply sg_bind; [now apply sg7_find_closing_line|]. intros [e|] _ He; [|exact I].
  eapply sg_bind; [now apply sg7_fm_line_at|]. intros l1 _ _. cbv zeta. match goal with |- sg ?a ?f _ ?r => change (ng a f r) end. nggo.
Qed.
#[export] Hint Resolve ngS_split_off_front_matter : ngS.
Lemma ngS_peek s p : ngS (peek s p). Proof. unfold peek. nggo. Qed.
#[export] Hint Resolve ngS_peek : ngS.
Lemma ngS_skip_spaces : forall s, ngS (skip_spaces s).
Proof. induction s as [|c r IH]; cbn [skip_spaces]; nggo. Qed.
#[export] Hint Resolve ngS_skip_spaces : ngS.
Lemma ngS_skip_line_end s p : ngS (skip_line_end s p). Proof. unfold skip_line_end. nggo. Qed.
#[export] Hint Resolve ngS_skip_line_end : ngS.
Lemma ngS_spnl s p : ngS (spnl s p). Proof. unfold spnl. nggo. Qed.
#[export] Hint Resolve ngS_spnl : ngS.
Lemma ngS_label_loop : forall fuel s pos len c, ngS (label_loop fuel s pos len c).
Proof. induction fuel as [|f IH]; intros s pos len c; cbn [label_loop]; nggo. Qed.
#[export] Hint Resolve ngS_label_loop : ngS.
Lemma ngS_link_label s : ngS (link_label s). Proof. unfold link_label. nggo. Qed.
#[export] Hint Resolve ngS_link_label : ngS.
Lemma ngS_parse_reference_inline fold m s : ngS (parse_reference_inline fold m s).
Proof.
  unfold parse_reference_inline.
  apply ng_bind; [auto with ngS|]. intros [[lab pos]|] _; [|exact I]. destruct lab as [|l0 lab]; [exact I|].
  apply ng_bind; [auto with ngS|]. intros [c|] _; [|exact I]. destruct (negb (beqb c x3a)); [exact I|]. cbv zeta.
  apply ng_bind; [auto with ngS|]. intros pos1 _.
  apply ng_bind; [auto with ngS|]. intros [[url matchlen]|] _; [|exact I].
  apply ng_bind; [auto with ngS|]. intros pos2 _.
  match goal with |- ng _ _ (let '(title, pos) := ?tp in _) =>
    assert (HT : List.length (fst tp) <> 1); [|destruct tp as [title pos3]; cbn [fst] in HT] end.
  { destruct (Nat.eqb pos2 (pos1 + matchlen)); [cbn; lia|].
    destruct (scan_link_title (skipn pos2 s)) as [ml|] eqn:Sc; [|cbn; lia].
    pose proof (scan_link_title_ge _ _ Sc). pose proof (scan_link_title_le _ _ Sc). cbn [fst]. rewrite firstn_length. lia. }
  apply ng_bind; [auto with ngS|]. intros n _.
  apply ng_bind; [auto with ngS|]. intros [p1 ok] _.
  eapply sg_bind with (P := fun fin : option (nat * bytes) => match fin with Some (_, t) => List.length t <> 1 | None => True end).
  { destruct ok; [exact HT|]. destruct title; [exact I|].
    apply sgb; [auto with ngS|]. intros n2 _. apply sgb; [auto with ngS|]. intros [p2 ok2] _.
    destruct ok2; cbn [sg List.length]; [lia | exact I]. }
  intros [[posf t]|] _ Hf; [|exact I].
  destruct (normalize_label fold (l0 :: lab) true); [exact I|].
  apply ng_bind; [auto with ngS|]. intros cu _.
  apply ng_bind; [now apply ngS_clean_title|]. intros ct _. nggo.
Qed.
#[export] Hint Resolve ngS_parse_reference_inline : ngS.
Lemma ngS_resolve_loop fold : forall fuel m seek seeked, ngS (resolve_loop fuel fold m seek seeked).
Proof. induction fuel as [|f IH]; intros m seek seeked; cbn [resolve_loop]; nggo. Qed.
#[export] Hint Resolve ngS_resolve_loop : ngS.
Lemma ngS_resolve_refdefs fold m c : ngS (resolve_refdefs fold m c).
Proof. unfold resolve_refdefs. nggo. Qed.
#[export] Hint Resolve ngS_resolve_refdefs : ngS.
Lemma ngS_copy_line_offsets : forall n lo k, ngS (copy_line_offsets n lo k).
Proof. induction n as [|m IH]; intros lo k; cbn [copy_line_offsets]; nggo. Qed.
Lemma ngS_header_cells : forall cells id ln sl sc po, ngS (header_cells cells id ln sl sc po).
Proof. induction cells as [|c r IH]; intros; cbn [header_cells]; nggo. Qed.
Lemma ngS_row_cells : forall n cells id ln sc lc, ngS (row_cells n cells id ln sc lc).
Proof. induction n as [|m IH]; intros cells id ln sc lc; destruct cells; cbn [row_cells]; nggo. Qed.
#[export] Hint Resolve ngS_copy_line_offsets ngS_header_cells ngS_row_cells : ngS.
Lemma ngS_parse_html_block_prefix st t : ngS (parse_html_block_prefix st t).
Proof. unfold parse_html_block_prefix. nggo. Qed.
#[export] Hint Resolve ngS_parse_html_block_prefix : ngS.
Lemma ngS_after_spaces : forall s, ngS (after_spaces s).
Proof. induction s as [|b r IH]; cbn [after_spaces]; nggo. Qed.
Lemma ngS_digits_loop : forall left s start digits, ngS (digits_loop left s start digits).
Proof.
  induction left as [|l IH]; intros s start digits; destruct s as [|d r]; cbn [digits_loop]; try allowed.
  - destruct (N.ltb _ _); [allowed | exact I].
  - destruct (N.ltb _ _); [allowed|]. destruct l; [exact I|]. destruct r as [|e r']; [allowed|].
    destruct (StrLeafGen.sl_isdigit e); [apply IH | exact I].
Qed.
#[export] Hint Resolve ngS_after_spaces ngS_digits_loop : ngS.
Lemma ngS_parse_list_marker line pos ip : ngS (parse_list_marker line pos ip).
Proof. unfold parse_list_marker. nggo. Qed.
#[export] Hint Resolve ngS_parse_list_marker : ngS.
Lemma ngS_alert_title_loop line : forall fuel pos fl, ngS (alert_title_loop fuel line pos fl).
Proof. induction fuel as [|f IH]; intros pos fl; cbn [alert_title_loop]; nggo. Qed.
Lemma ngS_count_hashes : forall s, ngS (count_hashes s).
Proof. induction s as [|b r IH]; cbn [count_hashes]; nggo. Qed.
#[export] Hint Resolve ngS_alert_title_loop ngS_count_hashes : ngS.

(* ---- the cursor *)
Lemma ngS_find_first_nonspace c line : ngS (find_first_nonspace c line).
Proof. unfold find_first_nonspace. destruct (if Nat.leb _ _ then _ else _) as [f fc]. nggo. Qed.
Lemma ngS_advance_loop line columns : forall fuel off col pct count, ngS (advance_loop fuel line off col pct count columns).
Proof. induction fuel as [|f IH]; intros off col pct count; destruct count; cbn [advance_loop]; nggo. Qed.
#[export] Hint Resolve ngS_find_first_nonspace ngS_advance_loop : ngS.
Lemma ngS_advance_offset c line count columns : ngS (advance_offset c line count columns).
Proof. unfold advance_offset. nggo. Qed.
#[export] Hint Resolve ngS_advance_offset : ngS.
Lemma ngS_adv st line n b : ngS (adv st line n b). Proof. unfold adv. nggo. Qed.
Lemma ngS_ffn st line : ngS (ffn st line). Proof. unfold ffn. nggo. Qed.
#[export] Hint Resolve ngS_adv ngS_ffn : ngS.
Lemma ngS_skip_one_space st line site : alS site = true -> ngS (skip_one_space st line site).
Proof. intro H. unfold skip_one_space. nggo. Qed.
Lemma ngS_skip_fence_offset line site : alS site = true -> forall i st, ngS (skip_fence_offset i st line site).
Proof. intro H. induction i as [|j IH]; intro st; cbn [skip_fence_offset]; nggo. Qed.
Lemma ngS_list_spaces_loop line sc : forall fuel st, ngS (list_spaces_loop fuel st line sc).
Proof. induction fuel as [|f IH]; intro st; cbn [list_spaces_loop]; nggo. Qed.
#[export] Hint Resolve ngS_list_spaces_loop : ngS.
#[export] Hint Extern 1 (ng _ _ (skip_one_space _ _ _)) => (apply ngS_skip_one_space; first [assumption | allowed]) : ngS.
#[export] Hint Extern 1 (ng _ _ (skip_fence_offset _ _ _ _)) => (apply ngS_skip_fence_offset; first [assumption | allowed]) : ngS.

(* ---- tree primitives *)
Lemma ngS_get st x : ngS (get st x).
Proof. unfold get. destruct (find_node x (ps_root st)); [exact I | allowed]. Qed.
Lemma ngS_modify st x f : ngS (modify st x f).
Proof. unfold modify. destruct (upd x f (ps_root st)); [exact I | allowed]. Qed.
Lemma ngS_modify_info st x f : ngS (modify_info st x f).
Proof. apply ngS_modify. Qed.
Lemma ngS_bdetach st x : ngS (bdetach st x).
Proof. unfold bdetach. destruct (edit_kids _ _ _); exact I. Qed.
Lemma ngS_retighten st p : ngS (retighten st p).
Proof. apply ng_ex. apply retighten_total. Qed.
#[export] Hint Resolve ngS_get ngS_modify ngS_modify_info ngS_bdetach ngS_retighten : ngS.
Lemma ngS_append_child st p c : ngS (append_child st p c).
Proof. apply ngS_modify. Qed.
Lemma ngS_last_child st x : ngS (last_child st x). Proof. unfold last_child. nggo. Qed.
#[export] Hint Resolve ngS_append_child ngS_last_child : ngS.
Lemma ngS_last_child_is_open st x : ngS (last_child_is_open st x).
Proof. unfold last_child_is_open. nggo. Qed.
#[export] Hint Resolve ngS_last_child_is_open : ngS.

Lemma ngS_clear_llb_up : forall fuel st id, ngS (clear_llb_up fuel st id).
Proof. induction fuel as [|f IH]; intros st id; cbn [clear_llb_up]; nggo. Qed.
Lemma ngS_reopen : forall fuel st id, ngS (reopen_ast_nodes fuel st id).
Proof. induction fuel as [|f IH]; intros st id; cbn [reopen_ast_nodes]; nggo. Qed.
#[export] Hint Resolve ngS_clear_llb_up ngS_reopen : ngS.

Lemma ngS_try_inserting st c po : ngS (try_inserting_table_header_paragraph st c po).
Proof. unfold try_inserting_table_header_paragraph. nggo. Qed.
#[export] Hint Resolve ngS_try_inserting : ngS.

Lemma ngS_is_not_greentext o st line : ngS (is_not_greentext o st line).
Proof. unfold is_not_greentext. nggo. Qed.
#[export] Hint Resolve ngS_is_not_greentext : ngS.
Lemma ngS_pbq o st line : ngS (parse_block_quote_prefix o st line).
Proof. unfold parse_block_quote_prefix. nggo. Qed.
Lemma ngS_pfn st line : ngS (parse_footnote_definition_block_prefix st line).
Proof. unfold parse_footnote_definition_block_prefix. nggo. Qed.
Lemma ngS_pip st line c mo pad : ngS (parse_item_prefix st line c mo pad).
Proof. unfold parse_item_prefix. nggo. Qed.
#[export] Hint Resolve ngS_pbq ngS_pfn ngS_pip : ngS.

Lemma ngS_try_opening_header o st c line : ngS (try_opening_header o st c line).
Proof. unfold try_opening_header. nggo. Qed.
Lemma ngS_try_opening_row o st c t line : ngS (try_opening_row o st c t line).
Proof. unfold try_opening_row. nggo. Qed.
Lemma ngS_try_opening_block o st c line : ngS (try_opening_block o st c line).
Proof.
  unfold try_opening_block. apply ng_bind; [auto with ngS|]. intros cn _.
  destruct (bval cn); try exact I; [apply ngS_try_opening_header | apply ngS_try_opening_row].
Qed.
#[export] Hint Resolve ngS_try_opening_block : ngS.
