(* Proofs/ParseValidTree.v — C04, the tree clause for the FINAL tree: the phases after the block phase keep the
   containment relation of Node::validate and the column-count equation of the tables.

   `gv t`  :=  above the leaves (Paragraph / Heading / TableCell) every edge satisfies can_contain_type, and the forest
               below a leaf consists of `ivt nb` trees (ParseValidInl.v) with nb = true exactly under a TableCell.
   gv t -> valid t (gv_valid).  gv is established by `attach` from a valid block tree and forests that are ivt at the
   positions of the leaves (attach_gv), and kept by the footnote pass (process_gv: a FootnoteReference becomes a Text or
   stays, both leaves accepted wherever the other is; definitions move under the Document, which accepts them), by
   the second attach, by recol (positions only) and by the task-list effects (taskify_gv: Item -> TaskItem accepts the
   same children and is accepted by the same parents).

   `tcols t` := num_columns = |alignments| at every Table; with Spec.Shape.s3 it gives Spec.Valid.tables_ok
   (s3_tcols_tables_ok); it is a value predicate, kept by all four rewrites. *)
From Coq Require Import List NArith Arith Bool Lia Strings.String.
From V Require Import Base.Bytes Base.Res Gen.Nodes Model.Ast Model.Inlines Model.Footnotes Model.Parse
  Spec.Shape Spec.HtmlSpec Spec.Valid Spec.ParseValidSpec
  Proofs.InlinesProofs Proofs.FootnoteProofs Proofs.ValidProofs Proofs.ParserShapeInl Proofs.ParserShapeFn Proofs.ParserShapeAttach
  Proofs.ParserShapeCompose Proofs.ParseProofs Proofs.ParseValidInl.
Import ListNotations.
Local Open Scope list_scope.

(* ================================================================== 0. definitions *)
Fixpoint gv (n : node) : bool :=
  match n with
  | Node v _ ch =>
    if inline_leaf v then forallb (ivt (is_cell_v v)) ch
    else forallb (child_allowed v) ch && forallb gv ch
  end.

(* the part of gv above the leaves *)
Fixpoint gvb (n : node) : bool :=
  match n with
  | Node v _ ch => if inline_leaf v then true else forallb (child_allowed v) ch && forallb gvb ch
  end.

(* value at a position (child indices from the node) *)
Fixpoint vat (t : node) (p : list nat) : option node_value :=
  match p with
  | [] => Some (nval t)
  | i :: q => match nth_error (nch t) i with Some c => vat c q | None => None end
  end.

Lemma forallb_imp {A} (f g : A -> bool) l :
  Forall (fun x => f x = true -> g x = true) l -> forallb f l = true -> forallb g l = true.
Proof.
  induction 1 as [|x r Hx _ IH]; cbn [forallb]; [reflexivity|].
  intro H. apply andb_true_iff in H as [H1 H2]. rewrite (Hx H1), (IH H2). reflexivity.
Qed.

Lemma inl_val7_leaf_false v : inl_val7 v = true -> inline_leaf v = false.
Proof. destruct v; cbn; intro H; try discriminate H; reflexivity. Qed.

(* ================================================================== 1. gv gives valid *)
Theorem gv_valid : forall n, gv n = true -> valid n = true.
Proof.
  induction n as [v sp ch IH] using node_ind2. intro H. cbn [gv] in H. cbn [valid].
  destruct (inline_leaf v) eqn:L.
  - apply andb_true_iff. split.
    + eapply forallb_imp; [|exact H]. apply Forall_forall. intros c _ Hc.
      eapply ivt_allowed_under; [exact Hc|]. destruct v; cbn in L; try discriminate L; try exact I. reflexivity.
    + eapply forallb_imp; [|exact H]. apply Forall_forall. intros c _ Hc. eapply ivt_valid; exact Hc.
  - apply andb_true_iff in H as [H1 H2]. rewrite H1. cbn [andb].
    eapply forallb_imp; [exact IH|exact H2].
Qed.

Lemma ivt_gv nb : forall n, ivt nb n = true -> gv n = true.
Proof.
  induction n as [v sp ch IH] using node_ind2. intro H. pose proof (ivt_valid nb _ H) as V.
  apply ivt_node in H as [Hv Hc]. cbn [gv]. rewrite (inl_val7_leaf_false v (proj1 (vok_inv _ _ _ Hv))).
  cbn [valid] in V. apply andb_true_iff in V as [V1 _]. rewrite V1. cbn [andb].
  eapply forallb_imp; [exact IH|exact Hc].
Qed.

Lemma gv_gvb : forall n, gv n = true -> gvb n = true.
Proof.
  induction n as [v sp ch IH] using node_ind2. intro H. cbn [gv] in H. cbn [gvb].
  destruct (inline_leaf v); [reflexivity|]. apply andb_true_iff in H as [H1 H2]. rewrite H1. cbn [andb].
  eapply forallb_imp; [exact IH|exact H2].
Qed.

Lemma valid_gvb : forall n, valid n = true -> gvb n = true.
Proof.
  induction n as [v sp ch IH] using node_ind2. intro H. cbn [valid] in H. cbn [gvb].
  destruct (inline_leaf v); [reflexivity|]. apply andb_true_iff in H as [H1 H2]. rewrite H1. cbn [andb].
  eapply forallb_imp; [exact IH|exact H2].
Qed.

(* ================================================================== 2. attach *)
Lemma child_allowed_nval pv a b : nval a = nval b -> child_allowed pv a = child_allowed pv b.
Proof. unfold child_allowed. intros ->. reflexivity. Qed.

Definition inl_at (inl : list nat -> list node) (path : list nat) (t : node) : Prop :=
  forall p v, vat t p = Some v -> inline_leaf v = true -> forallb (ivt (is_cell_v v)) (inl (path ++ p)) = true.

Lemma attach_kids_gv inl path : forall l i,
  Forall (fun c => forall p, gvb c = true -> inl_at inl p c -> gv (attach inl p c) = true) l ->
  forallb gvb l = true ->
  (forall k c, nth_error l k = Some c -> inl_at inl (path ++ [i + k]) c) ->
  forallb gv (attach_kids inl path i l) = true.
Proof.
  induction l as [|c r IH]; intros i F H A; [reflexivity|]. cbn [attach_kids forallb] in *.
  apply andb_true_iff in H as [Hc Hr]. inversion F as [|? ? Fc Fr]; subst.
  apply andb_true_iff. split.
  - apply Fc; [exact Hc|]. specialize (A 0 c eq_refl). now rewrite Nat.add_0_r in A.
  - apply IH; [exact Fr|exact Hr|]. intros k c' E. specialize (A (S k) c' E). now rewrite Nat.add_succ_r in A.
Qed.

Theorem attach_gv inl : forall t path, gvb t = true -> inl_at inl path t -> gv (attach inl path t) = true.
Proof.
  induction t as [v sp ch IH] using node_ind2. intros path H A. rewrite attach_node. cbn [gvb] in H.
  destruct (inline_leaf v) eqn:L; cbn [gv]; rewrite L.
  - specialize (A [] v eq_refl L). now rewrite app_nil_r in A.
  - apply andb_true_iff in H as [H1 H2]. apply andb_true_iff. split.
    + rewrite attach_kids_val_pred; [exact H1|]. intros a b. apply child_allowed_nval.
    + apply attach_kids_gv; [exact IH|exact H2|].
      intros k c E p w Hw Lw. rewrite <- app_assoc. cbn [app]. apply A; [|exact Lw].
      cbn [vat nch Nat.add]. now rewrite E.
Qed.

(* ================================================================== 3. recol *)
Lemma recol_gv col : forall t path, gv t = true -> gv (recol col path t) = true.
Proof.
  induction t as [v sp ch IH] using node_ind2. intros path H. rewrite recol_node.
  destruct (inline_leaf v) eqn:L; [cbn [gv] in *; rewrite L in *; exact H|].
  cbn [gv] in *. rewrite L in *. apply andb_true_iff in H as [H1 H2]. apply andb_true_iff. split.
  - rewrite recol_kids_val_pred; [exact H1|]. intros a b. apply child_allowed_nval.
  - eapply recol_kids_forallb; [|exact H2]. eapply Forall_impl; [|exact IH]. intros c Hc p. apply Hc.
Qed.

(* ================================================================== 4. taskify *)
(* TaskItem and Item are the same for the containment relation, as parent and as child *)
Definition kq (k : kind) : kind := match k with KTaskItem => KItem | _ => k end.

Lemma can_contain_kq : forall p c, can_contain p c = can_contain (kq p) (kq c).
Proof.
  intros p c.
  pose proof (forall_kinds2 (fun p c => Bool.eqb (can_contain p c) (can_contain (kq p) (kq c)))) as F.
  specialize (F ltac:(vm_compute; reflexivity) p c). cbv beta in F. apply Bool.eqb_prop in F. exact F.
Qed.

Lemma taskify_val_kq a v : kq (kind_of (taskify_val a v)) = kq (kind_of v).
Proof. unfold taskify_val. destruct (ta_symbol a); [|reflexivity]. destruct v; reflexivity. Qed.

Lemma taskify_val_inline a v : inl_val7 v = true -> taskify_val a v = v.
Proof. unfold taskify_val. destruct (ta_symbol a); [|reflexivity]. destruct v; cbn; intro H; try discriminate H; reflexivity. Qed.

Lemma taskify_val_leaf a v : inline_leaf (taskify_val a v) = inline_leaf v.
Proof. unfold taskify_val. destruct (ta_symbol a); [|reflexivity]. destruct v; reflexivity. Qed.

Lemma taskify_val_leaf_id a v : inline_leaf v = true -> taskify_val a v = v.
Proof. unfold taskify_val. destruct (ta_symbol a); [|reflexivity]. destruct v; cbn; intro H; try discriminate H; reflexivity. Qed.

Lemma taskify_ivt act nb : forall n path, ivt nb n = true -> ivt nb (taskify act path n) = true.
Proof.
  induction n as [v sp ch IH] using node_ind2. intros path H. rewrite taskify_node.
  apply ivt_node in H as [Hv Hc]. destruct (vok_inv _ _ _ Hv) as (V & _ & Lf).
  rewrite (taskify_val_inline _ _ V). apply ivt_node. split.
  - destruct (lkind v) eqn:L; [rewrite (Lf eq_refl) in *; exact Hv|]. rewrite (vok_nonleaf nb v _ ch L). exact Hv.
  - eapply taskify_kids_forallb; [|exact Hc]. eapply Forall_impl; [|exact IH]. intros c Hc' p. apply Hc'.
Qed.

Theorem taskify_gv act : forall t path, gv t = true -> gv (taskify act path t) = true.
Proof.
  induction t as [v sp ch IH] using node_ind2. intros path H. rewrite taskify_node.
  cbn [gv] in *. rewrite taskify_val_leaf. destruct (inline_leaf v) eqn:L.
  - rewrite (taskify_val_leaf_id _ _ L). eapply taskify_kids_forallb; [|exact H].
    apply Forall_forall. intros c _ p. apply taskify_ivt.
  - apply andb_true_iff in H as [H1 H2]. apply andb_true_iff. split.
    + eapply taskify_kids_forallb; [|exact H1]. apply Forall_forall. intros c _ p Hc.
      unfold child_allowed in *. destruct c as [cv csp cch]. rewrite taskify_node. cbn [nval] in *.
      rewrite can_contain_kq, !taskify_val_kq, <- can_contain_kq. exact Hc.
    + eapply taskify_kids_forallb; [|exact H2]. eapply Forall_impl; [|exact IH]. intros c Hc' p. apply Hc'.
Qed.

(* ================================================================== 5. the footnote pass *)
(* FootnoteReference and Text are the same for the containment relation as children, and neither has an arm as parent *)
Lemma can_contain_ref_text : forall p, can_contain p KText = can_contain p KFootnoteReference.
Proof.
  intro p. pose proof (forall_kinds (fun p => Bool.eqb (can_contain p KText) (can_contain p KFootnoteReference))) as F.
  specialize (F ltac:(vm_compute; reflexivity) p). cbv beta in F. apply Bool.eqb_prop in F. exact F.
Qed.

Lemma ref_tr_kinds v v' : is_ref v = true -> fnp_is_tr v' = true ->
  kind_of v = KFootnoteReference /\ (kind_of v' = KText \/ kind_of v' = KFootnoteReference).
Proof.
  destruct v; cbn [is_ref]; intro H; try discriminate H.
  destruct v'; cbn [fnp_is_tr]; intro H'; try discriminate H'; split; auto.
Qed.

Lemma rr_child_allowed pv c c' : fnp_rr c c' -> child_allowed pv c' = child_allowed pv c.
Proof.
  intro R. unfold child_allowed. destruct (fnp_rr_nval _ _ R) as [->|[A B]]; [reflexivity|].
  destruct (ref_tr_kinds _ _ A B) as [-> [-> | ->]]; [apply can_contain_ref_text|reflexivity].
Qed.

Lemma rr_ivt nb : forall n n', fnp_rr n n' -> ivt nb n = true -> ivt nb n' = true.
Proof.
  induction n as [v sp ch IH] using node_ind2. intros n' R H.
  inversion R as [? ? ? v' Rf T|? ? ? ch' Rf F]; subst.
  - apply ivt_node in H as [Hv Hc]. apply ivt_node. split; [|exact Hc].
    destruct v; cbn [is_ref] in Rf; try discriminate Rf.
    destruct v'; cbn [fnp_is_tr] in T; try discriminate T; exact Hv.
  - apply ivt_node in H as [Hv Hc]. apply ivt_node. split.
    + destruct (lkind v) eqn:L; [|rewrite (vok_nonleaf nb v ch' ch L); exact Hv].
      rewrite (proj2 (proj2 (vok_inv _ _ _ Hv)) L) in F. inversion F; subst. eapply vok_nil; exact Hv.
    + eapply fnp_F2_forallb_imp; [exact F|exact IH|exact Hc].
Qed.

Lemma no_child_of_ref v ch : is_ref v = true -> forallb (child_allowed v) ch = true -> ch = [].
Proof.
  destruct v; cbn [is_ref]; intro H; try discriminate H. destruct ch as [|c r]; [reflexivity|].
  cbn [forallb]. unfold child_allowed. cbn [kind_of]. intro A. apply andb_true_iff in A as [A _].
  rewrite (leaf_accepts_nothing KFootnoteReference _ eq_refl) in A. discriminate A.
Qed.

Lemma rr_gv : forall n n', fnp_rr n n' -> gv n = true -> gv n' = true.
Proof.
  induction n as [v sp ch IH] using node_ind2. intros n' R H.
  inversion R as [? ? ? v' Rf T|? ? ? ch' Rf F]; subst; cbn [gv] in *.
  - rewrite (is_ref_not_leaf _ Rf) in H. rewrite (is_tr_not_leaf _ T).
    apply andb_true_iff in H as [H1 _]. rewrite (no_child_of_ref _ _ Rf H1). reflexivity.
  - destruct (inline_leaf v).
    + eapply fnp_F2_forallb_imp; [exact F| |exact H]. apply Forall_forall. intros c _ c' Hc. now apply rr_ivt.
    + apply andb_true_iff in H as [H1 H2]. apply andb_true_iff. split.
      * eapply fnp_F2_forallb_imp; [exact F| |exact H1]. apply Forall_forall. intros c _ c' Hc Hca.
        now rewrite (rr_child_allowed _ _ _ Hc).
      * eapply fnp_F2_forallb_imp; [exact F|exact IH|exact H2].
Qed.

Lemma ivt_not_def nb n : ivt nb n = true -> is_fndef (nval n) = false.
Proof.
  destruct n as [v sp ch]. intro H. apply ivt_node in H as [Hv _]. cbn [nval].
  destruct v; try reflexivity. destruct (vok_inv _ _ _ Hv) as [V _]. discriminate V.
Qed.

Lemma cleanup_ivt nb : forall n, ivt nb n = true -> ivt nb (cleanup n) = true.
Proof.
  induction n as [v sp ch IH] using node_ind2. intro H. pose proof (ivt_not_def _ _ H) as D. cbn [nval] in D.
  rewrite fnp_cleanup_node by exact D. apply ivt_node in H as [Hv Hc]. apply ivt_node. rewrite fnp_cleanup_go_map. split.
  - destruct (lkind v) eqn:L; [|rewrite (vok_nonleaf nb v _ ch L); exact Hv].
    rewrite (proj2 (proj2 (vok_inv _ _ _ Hv)) L). exact (vok_nil _ _ _ Hv).
  - apply forallb_forall. intros x Hx. apply in_map_iff in Hx as [c [<- Hin]]. apply filter_In in Hin as [Hin _].
    rewrite Forall_forall in IH. apply IH; [exact Hin|]. rewrite forallb_forall in Hc. now apply Hc.
Qed.

Lemma cleanup_gv : forall n, gv n = true -> gv (cleanup n) = true.
Proof.
  induction n as [v sp ch IH] using node_ind2. intro H.
  destruct (is_fndef v) eqn:D; [rewrite fnp_cleanup_def by exact D; exact H|].
  rewrite fnp_cleanup_node by exact D. cbn [gv] in *. rewrite fnp_cleanup_go_map.
  destruct (inline_leaf v).
  - apply forallb_forall. intros x Hx. apply in_map_iff in Hx as [c [<- Hin]]. apply filter_In in Hin as [Hin _].
    apply cleanup_ivt. rewrite forallb_forall in H. now apply H.
  - apply andb_true_iff in H as [H1 H2]. apply andb_true_iff. split.
    + apply forallb_forall. intros x Hx. apply in_map_iff in Hx as [c [<- Hin]]. apply filter_In in Hin as [Hin _].
      rewrite (child_allowed_nval v (cleanup c) c (fnp_cleanup_nval c)). rewrite forallb_forall in H1. now apply H1.
    + apply forallb_forall. intros x Hx. apply in_map_iff in Hx as [c [<- Hin]]. apply filter_In in Hin as [Hin _].
      rewrite Forall_forall in IH. apply IH; [exact Hin|]. rewrite forallb_forall in H2. now apply H2.
Qed.

Lemma gv_top_defs : forall n, gv n = true -> Forall (fun d => gv d = true) (top_defs n).
Proof.
  induction n as [v sp ch IH] using node_ind2. intro H.
  destruct (is_fndef v) eqn:D; [rewrite fnp_top_defs_def by exact D; constructor; [exact H|constructor]|].
  rewrite fnp_top_defs_node by exact D. apply Forall_forall. intros d Hd. apply in_flat_map in Hd as [c [Hc Hd]].
  rewrite Forall_forall in IH. specialize (IH c Hc). cbn [gv] in H.
  assert (Lc : gv c = true).
  { destruct (inline_leaf v).
    - rewrite forallb_forall in H. eapply ivt_gv. now apply H.
    - apply andb_true_iff in H as [_ H]. rewrite forallb_forall in H. now apply H. }
  specialize (IH Lc). rewrite Forall_forall in IH. now apply IH.
Qed.

Lemma set_def_gv f d : is_def d = true -> gv d = true -> gv (set_def f d) = true.
Proof.
  intros D A. rewrite (fnp_set_def_def f d D). destruct d as [v sp ch]. rewrite fnp_is_def_eq in D. cbn [nval nsp nch] in *.
  destruct v; cbn [is_fndef] in D; try discriminate. exact A.
Qed.

Theorem process_gv fold pres perm root : s2 root = true -> gv root = true -> gv (process fold pres perm root) = true.
Proof.
  intros S A. destruct (fnp_process_shape fold pres perm root) as [root1 [root2 [app [R [Dj [FA E]]]]]]. rewrite E.
  assert (A1 : gv root1 = true) by (eapply rr_gv; eassumption).
  assert (V1 : nval root1 = Document).
  { unfold s2 in S. destruct (fnp_rr_nval _ _ R) as [->|[B _]].
    - destruct (nval root); try discriminate S; reflexivity.
    - destruct (nval root); try discriminate S; discriminate B. }
  assert (A2 : gv root2 = true /\ nval root2 = Document).
  { destruct Dj as [[-> _]| ->]; [split; assumption|]. split; [now apply cleanup_gv|]. now rewrite fnp_cleanup_nval. }
  destruct A2 as [A2 V2]. destruct root2 as [v2 sp2 ch2]. cbn [nval nsp nch] in *. subst v2. cbn [gv inline_leaf] in *.
  apply andb_true_iff in A2 as [A21 A22]. rewrite !forallb_app, A21, A22. cbn [andb].
  pose proof (gv_top_defs _ A1) as TL. rewrite Forall_forall in TL.
  pose proof (fnp_top_defs_are_defs root1) as TD. rewrite Forall_forall in TD.
  rewrite Forall_forall in FA. apply andb_true_iff. split.
  - apply forallb_forall. intros a Ha. destruct (FA a Ha) as [f [d [Hd ->]]].
    rewrite (fnp_set_def_def f d (TD d Hd)). reflexivity.
  - apply forallb_forall. intros a Ha. destruct (FA a Ha) as [f [d [Hd ->]]].
    apply set_def_gv; [now apply TD | now apply TL].
Qed.

(* ================================================================== 6. the column-count equation *)
Definition ptc (v : node_value) : bool :=
  match v with Table t => N.eqb (t_cols t) (N.of_nat (List.length (t_aligns t))) | _ => true end.
Definition tcols : node -> bool := fnp_allv ptc.

Lemma allv_imp (P Q : node_value -> bool) : (forall v, P v = true -> Q v = true) ->
  forall n, fnp_allv P n = true -> fnp_allv Q n = true.
Proof.
  intro PQ. induction n as [v sp ch IH] using node_ind2. cbn [fnp_allv]. intro H. apply andb_true_iff in H as [H1 H2].
  rewrite (PQ _ H1). cbn [andb]. eapply forallb_imp; [exact IH|exact H2].
Qed.

Lemma tree7_tcols n : inl_tree7 n = true -> tcols n = true.
Proof.
  rewrite inl_tree7_allv. apply allv_imp. intros v H. destruct v; try reflexivity. discriminate H.
Qed.

Lemma tables_ok_in_tcols : forall n, tables_ok_in n = true -> tcols n = true.
Proof.
  induction n as [v sp ch IH] using node_ind2. cbn [tables_ok_in]. intro H.
  apply andb_true_iff in H as [H H3]. apply andb_true_iff in H as [H1 _].
  unfold tcols. cbn [fnp_allv]. apply andb_true_iff. split.
  - destruct v; try reflexivity. unfold table_node_ok in H1. apply andb_true_iff in H1 as [H1 _]. exact H1.
  - eapply forallb_imp; [exact IH|exact H3].
Qed.

Lemma attach_allv P inl : (forall p, forallb (fnp_allv P) (inl p) = true) ->
  forall t path, fnp_allv P t = true -> fnp_allv P (attach inl path t) = true.
Proof.
  intro I. induction t as [v sp ch IH] using node_ind2. intros path H. rewrite attach_node.
  cbn [fnp_allv] in H. apply andb_true_iff in H as [H1 H2].
  destruct (inline_leaf v); cbn [fnp_allv]; rewrite H1; cbn [andb]; [apply I|].
  eapply attach_kids_forallb; [|exact H2]. eapply Forall_impl; [|exact IH]. intros c Hc p. apply Hc.
Qed.

Lemma recol_allv P col : forall t path, fnp_allv P t = true -> fnp_allv P (recol col path t) = true.
Proof.
  induction t as [v sp ch IH] using node_ind2. intros path H. rewrite recol_node.
  destruct (inline_leaf v); [exact H|].
  cbn [fnp_allv] in *. apply andb_true_iff in H as [H1 H2]. rewrite H1. cbn [andb].
  eapply recol_kids_forallb; [|exact H2]. eapply Forall_impl; [|exact IH]. intros c Hc p. apply Hc.
Qed.

Lemma taskify_allv P act : (forall a v, P v = true -> P (taskify_val a v) = true) ->
  forall t path, fnp_allv P t = true -> fnp_allv P (taskify act path t) = true.
Proof.
  intro PT. induction t as [v sp ch IH] using node_ind2. intros path H. rewrite taskify_node.
  cbn [fnp_allv] in *. apply andb_true_iff in H as [H1 H2]. rewrite (PT _ _ H1). cbn [andb].
  eapply taskify_kids_forallb; [|exact H2]. eapply Forall_impl; [|exact IH]. intros c Hc p. apply Hc.
Qed.

Lemma ptc_taskify a v : ptc v = true -> ptc (taskify_val a v) = true.
Proof. unfold taskify_val. destruct (ta_symbol a); [|tauto]. destruct v; intro H; try exact H; reflexivity. Qed.

(* s3 (rows and cells in their places, header first, one cell per alignment) + the column count = tables_ok *)
Lemma row_from_s3 t pv hdr r :
  is_row_of hdr r = true -> s3_go (Some (Table t)) pv r = true -> row_ok (List.length (t_aligns t)) hdr r = true.
Proof.
  destruct r as [v sp ch]. unfold is_row_of, row_ok. cbn [nval nch s3_go].
  destruct v; intro H; try discriminate H. intro S. apply andb_true_iff in S as [S _].
  apply andb_true_iff in S as [S1 S2]. rewrite S2, andb_true_r.
  apply andb_true_iff. split.
  - apply Bool.eqb_prop in H. subst. apply Bool.eqb_reflx.
  - erewrite fnp_forallb_eq; [exact S1|]. apply Forall_forall. intros c _. symmetry. apply is_cell_same.
Qed.

Lemma s3_placed v pv c : s3_go (Some v) pv c = true -> placed v c = true.
Proof.
  destruct c as [cv csp cch]. unfold placed. cbn [nval s3_go]. intro S. apply andb_true_iff in S as [S _].
  destruct cv; try reflexivity.
  - destruct v; try discriminate S; reflexivity.
  - destruct v; try discriminate S; reflexivity.
Qed.

Theorem s3_tcols_tables_ok_in : forall n pv gv', s3_go pv gv' n = true -> tcols n = true -> tables_ok_in n = true.
Proof.
  induction n as [v sp ch IH] using node_ind2. intros pv gv' S T. cbn [s3_go] in S. apply andb_true_iff in S as [Sv Sc].
  unfold tcols in T. cbn [fnp_allv] in T. apply andb_true_iff in T as [Tv Tc].
  cbn [tables_ok_in]. apply andb_true_iff. split; [apply andb_true_iff; split|].
  - destruct v; try reflexivity. unfold table_node_ok. cbn [ptc] in Tv. rewrite Tv. cbn [andb].
    destruct ch as [|h rs]; [discriminate Sv|]. cbn [table_children_ok] in Sv. apply andb_true_iff in Sv as [Sh Sr].
    cbn [forallb] in Sc. apply andb_true_iff in Sc as [Sch Scr]. apply andb_true_iff. split.
    + eapply row_from_s3; eassumption.
    + apply forallb_forall. intros r Hr. rewrite forallb_forall in Sr, Scr. eapply row_from_s3; [now apply Sr|now apply Scr].
  - eapply forallb_imp; [|exact Sc]. apply Forall_forall. intros c _. apply s3_placed.
  - apply forallb_forall. intros c Hc. rewrite Forall_forall in IH. rewrite forallb_forall in Sc, Tc.
    eapply IH; [exact Hc|now apply Sc|now apply Tc].
Qed.

Theorem s3_tcols_tables_ok t : s2 t = true -> s3 t = true -> tcols t = true -> tables_ok t = true.
Proof.
  intros S2 S3 T. unfold tables_ok. unfold s2 in S2. destruct t as [v sp ch]. cbn [nval] in *.
  destruct v; try discriminate S2. eapply s3_tcols_tables_ok_in; eassumption.
Qed.

Print Assumptions gv_valid.
Print Assumptions attach_gv.
Print Assumptions taskify_gv.
Print Assumptions process_gv.
Print Assumptions s3_tcols_tables_ok.
