(* Proofs/InlinesTotal2Main.v — FInv (InlinesTotal2Inv.v) through the dispatcher parse_inline and the main loop;
   the theorem inlines_fuel: parse_inlines never answers OutOfFuel, and the site process_emphasis:unreachable
   is never the answer of the final process_emphasis.  No axioms. *)
From Coq Require Import List NArith ZArith Arith Bool Strings.String Lia.
From V Require Import Base.Bytes Base.Res Gen.StrLeafGen Gen.Consts Gen.Special Model.Special
     Model.Scan Model.Strings Model.Entity Model.LinkUrl Model.AutolinkLeaf Model.Spx Model.Ast Model.Inlines
     Proofs.InlinesProofs Proofs.InlinesMemo Proofs.InlinesTotalAutolink Proofs.InlinesTotalFuel Proofs.InlinesTotal
     Proofs.InertInlines Proofs.InlinesTotal2Pe Proofs.InlinesTotal2Fuel Proofs.InlinesTotal2Inv.
Import ListNotations.
Local Open Scope list_scope.

Section Step.
Variable memo : bool.
Variable o : iopts.
Variable u : oracle.
Variable inp : bytes.
Variable lo : list N.
Variable start_line : N.
Variable refmap : list (bytes * (bytes * bytes)).
Variable maxref : N.

Notation FInv := (FInv o inp).
Notation FIN := (FIN o inp).
Notation FI0 := (FI0 o inp).

Lemma FInv_after s s2 : FInv s -> FIN s2 -> incl (delims s2) (delims s) -> pos s <= pos s2 -> FInv s2.
Proof. intros [_ P] H Hi Hp. split; [exact H|]. eapply PC_mono; eassumption. Qed.

Lemma FInv_push_after s s2 n :
  FInv s -> FIN s2 -> incl (delims s2) (delims s) -> pos s <= pos s2 -> FInv (fst (push_item s2 n)).
Proof.
  intros I H Hi Hp. apply (FInv_after s); [exact I|apply FIN_push; exact H|exact Hi|exact Hp].
Qed.

Lemma FInv_fr3 s s' : fr3 s s' -> pos s <= pos s' -> FInv s -> FInv s'.
Proof.
  intros F Hp I. apply (FInv_after s); [exact I|eapply FIN_fr3; [exact F|apply I]| |exact Hp].
  destruct F as [-> _]. apply incl_refl.
Qed.

Lemma fr3_bracket s img id : fr3 s (set_within (push_bracket s img id) true).
Proof. unfold fr3, push_bracket. destruct img; cbn [delims sibs nid set_within set_brackets set_nlo]; auto. Qed.

Ltac arm P I1 :=
  match goal with
  | H : append ?r = Ok (Some _) |- _ =>
    let Eh := fresh "Eh" in
    unfold append in H; destruct r as [[? ?]|?|] eqn:Eh; cbn [bind] in H; [|discriminate H|discriminate H];
    inversion H; subst; cbn [push_item fst pos set_sibs] in P;
    eapply FInv_step_frame;
      [exact I1
      | apply frame_fr3;
        first [eapply newline_frame; exact Eh | eapply backticks_frame; exact Eh | eapply backslash_frame; exact Eh
              | eapply entity_frame; exact Eh | eapply pointy_frame; exact Eh | eapply hyphen_frame; exact Eh
              | eapply period_frame; exact Eh | eapply dollars_frame; exact Eh]
      | lia]
  end.

Lemma step_FInv s s' :
  FInv s -> parse_inline memo o u inp lo start_line refmap maxref s = Ok (Some s') -> FInv s'.
Proof.
  intros I H. pose proof (parse_inline_advances_all _ _ _ _ _ _ _ _ _ _ H) as P.
  unfold parse_inline in H.
  destruct (peek inp (pos s)) as [c|] eqn:Ec; [|discriminate]. unfold peek in Ec.
  destruct (nsub _ _ _) as [adj|?|]; cbn [bind] in H; try discriminate.
  destruct (nth_error lo (N.to_nat adj)) as [off|]; [|discriminate].
  set (s1 := set_lineoff s off) in *.
  assert (FInv s1) as I1 by (apply (FInv_fr3 s); [unfold fr3, s1; cbn [delims sibs nid set_lineoff]; auto|apply Nat.le_refl|exact I]).
  assert (pos s1 = pos s) as Hp1 by reflexivity. rewrite <- Hp1 in P, Ec. clear Hp1.
  clearbody s1. clear I.
  destruct (beqb c x00); [discriminate|].
  destruct (beqb c x0d || beqb c x0a); [arm P I1|].
  destruct (beqb c x60); [arm P I1|].
  destruct (beqb c x5c); [arm P I1|].
  destruct (beqb c x26); [arm P I1|].
  destruct (beqb c x3c); [arm P I1|].
  assert (forall b, text1 s1 b = Ok (Some s') -> FInv s') as Htext.
  { intros b Hb. unfold text1 in Hb. apply append_mk_inv in Hb. destruct Hb as [n ->].
    eapply FInv_step_frame; [exact I1 | apply fr3_set_pos | cbn [pos set_pos]; lia]. }
  destruct (beqb c x3a).
  { match type of H with bind ?r _ = _ => destruct r as [[[s2 n]|]|?|] eqn:Er end; cbn [bind] in H; try discriminate.
    - inversion H; subst. destruct (io_autolink o); [|discriminate].
      apply (haw_FIN o inp) in Er; [|apply I1]. destruct Er as (A & B & C).
      apply (FInv_push_after s1); [exact I1|exact A|rewrite B; apply incl_refl|exact C].
    - eapply Htext; eauto. }
  destruct (beqb c x77 && io_autolink o).
  { match type of H with bind ?r _ = _ => destruct r as [[[s2 n]|]|?|] eqn:Er end; cbn [bind] in H; try discriminate.
    - inversion H; subst. apply (haw_FIN o inp) in Er; [|apply I1]. destruct Er as (A & B & C).
      apply (FInv_push_after s1); [exact I1|exact A|rewrite B; apply incl_refl|exact C].
    - eapply Htext; eauto. }
  match type of H with (if ?b then _ else _) = _ => destruct b eqn:Etest end.
  { destruct (handle_delim o u inp s1 c) as [[[s2 n] d]|?|] eqn:Ed; cbn [bind] in H; try discriminate.
    apply (handle_delim_shape o inp u s1 c s2 n d Ec) in Ed. destruct Ed as (F & Hlt & Hle & Hd).
    destruct (push_item s2 n) as [s3 i3] eqn:Ep. inversion H; subst s'. clear H.
    assert (s3 = fst (push_item s2 n)) as -> by (rewrite Ep; reflexivity).
    destruct d as [d'|]; [|eapply FInv_step_frame; [exact I1|exact F|lia]].
    destruct (Hd d' eq_refl) as (Hch & Hid & Hpos & Hlen & t & Ht & Htl).
    eapply (FInv_push_delim o inp s1 s2 n d' t); try eassumption.
    - rewrite Hch. eapply delim_test_ok. exact Etest.
    - rewrite Hch. exact Hlen. }
  destruct (beqb c x2d); [arm P I1|].
  destruct (beqb c x2e); [arm P I1|].
  destruct (beqb c x5b).
  { cbv zeta in H.
    match type of H with bind ?r _ = _ => destruct r as [[[s2 n]|]|?|] eqn:Er end; cbn [bind] in H; try discriminate.
    - inversion H; subst. match type of Er with (if ?b then _ else _) = _ => destruct b end; [|discriminate].
      pose proof (adv_wikilink _ _ _ _ _ Er) as Hadv. cbn [pos set_pos] in Hadv.
      apply wikilink_frame in Er. eapply FInv_step_frame; [exact I1| |lia].
      eapply fr3_trans; [apply fr3_set_pos | apply frame_fr3; exact Er].
    - match type of H with bind ?r _ = _ => destruct r as [n|?|] end; cbn [bind] in H; try discriminate.
      destruct (push_item _ n) as [s3 i3] eqn:Ep.
      assert (s' = set_within (push_bracket s3 false i3) true) as -> by congruence. clear H.
      assert (s3 = fst (push_item (set_pos s1 (S (pos s1))) n)) as -> by (rewrite Ep; reflexivity).
      apply (FInv_fr3 (fst (push_item (set_pos s1 (S (pos s1))) n))); [apply fr3_bracket| |].
      + unfold push_bracket. destruct (brackets _); cbn [pos set_within set_brackets set_nlo push_item fst set_sibs set_pos]; lia.
      + eapply FInv_step_frame; [exact I1 | apply fr3_set_pos | cbn [pos set_pos]; lia]. }
  destruct (beqb c x5d).
  { destruct (handle_close_bracket _ _ _ _ _ _) as [[s2 n]|?|] eqn:Eh; cbn [bind] in H; try discriminate.
    apply (hcb_FIN o inp) in Eh; [|apply (FIN_fr3 o inp s1); [unfold fr3; cbn [delims sibs nid set_within]; auto | apply I1]].
    destruct Eh as [A B]. cbn [delims set_within] in B.
    inversion H; subst. destruct n.
    - cbn [push_item fst pos set_sibs] in P. apply (FInv_push_after s1); [exact I1|exact A|exact B|lia].
    - apply (FInv_after s1); [exact I1|exact A|exact B|lia]. }
  destruct (beqb c x21).
  { cbv zeta in H. destruct (peek_eq inp (S (pos s1)) x5b && negb (peek_eq inp (S (S (pos s1))) x5e)).
    - match type of H with bind ?r _ = _ => destruct r as [n|?|] end; cbn [bind] in H; try discriminate.
      destruct (push_item _ n) as [s3 i3] eqn:Ep.
      assert (s' = set_within (push_bracket s3 true i3) true) as -> by congruence. clear H.
      assert (s3 = fst (push_item (set_pos s1 (S (S (pos s1)))) n)) as -> by (rewrite Ep; reflexivity).
      apply (FInv_fr3 (fst (push_item (set_pos s1 (S (S (pos s1)))) n))); [apply fr3_bracket| |].
      + unfold push_bracket. destruct (brackets _); cbn [pos set_within set_brackets set_nlo push_item fst set_sibs set_pos]; lia.
      + eapply FInv_step_frame; [exact I1 | apply fr3_set_pos | cbn [pos set_pos]; lia].
    - apply append_mk_inv in H. destruct H as [n ->].
      eapply FInv_step_frame; [exact I1 | apply fr3_set_pos | cbn [pos set_pos]; lia]. }
  destruct (beqb c x24); [arm P I1|].
  cbv zeta in H.
  match type of H with bind ?r _ = _ => destruct r as [contents|?|] end; cbn [bind] in H; try discriminate.
  match type of H with bind ?r _ = _ => destruct r as [[c1 e1]|?|] end; cbn [bind] in H; try discriminate.
  match type of H with bind ?r _ = _ => destruct r as [[c2 sp2]|?|] end; cbn [bind] in H; try discriminate.
  match type of H with bind ?r _ = _ => destruct r as [e|?|] end; cbn [bind] in H; try discriminate.
  apply append_mk_inv in H. destruct H as [n ->]. cbn [push_item fst pos set_sibs set_pos] in P.
  eapply FInv_step_frame; [exact I1 | apply fr3_set_pos | cbn [pos set_pos]; lia].
Qed.

(* ------------------------------------------------------------------ no arm answers OutOfFuel *)
Lemma append_nofuel r : r <> OutOfFuel -> append r <> OutOfFuel.
Proof. intro H. unfold append. destruct r as [[s n]|?|]; cbn [bind]; [discriminate|discriminate|congruence]. Qed.

Lemma step_nofuel s : FI0 s -> parse_inline memo o u inp lo start_line refmap maxref s <> OutOfFuel.
Proof.
  intro I. unfold parse_inline.
  destruct (peek inp (pos s)) as [c|]; [|discriminate].
  destruct (nsub _ _ _) as [adj|?|] eqn:En; cbn [bind]; [|discriminate|exfalso; eapply nsub_nofuel; exact En].
  destruct (nth_error lo (N.to_nat adj)) as [off|]; [|discriminate].
  set (s1 := set_lineoff s off).
  assert (FI0 s1) as I1 by (apply (FI0_fr3 o inp s); [unfold fr3, s1; cbn [delims sibs nid set_lineoff]; auto|exact I]).
  clearbody s1. clear I.
  destruct (beqb c x00); [discriminate|].
  destruct (beqb c x0d || beqb c x0a); [apply append_nofuel, handle_newline_nofuel|].
  destruct (beqb c x60); [apply append_nofuel, handle_backticks_nofuel|].
  destruct (beqb c x5c); [apply append_nofuel, handle_backslash_nofuel|].
  destruct (beqb c x26); [apply append_nofuel, handle_entity_nofuel|].
  destruct (beqb c x3c); [apply append_nofuel, handle_pointy_brace_nofuel|].
  destruct (beqb c x3a).
  { match goal with |- bind ?r _ <> _ => destruct r as [[[s2 n]|]|?|] eqn:Er; cbn [bind] end;
      [discriminate|apply text1_nofuel|discriminate|].
    exfalso. destruct (io_autolink o); [|discriminate Er]. revert Er. apply autolink_url_fuel_lemma. }
  destruct (beqb c x77 && io_autolink o).
  { match goal with |- bind ?r _ <> _ => destruct r as [[[s2 n]|]|?|] eqn:Er; cbn [bind] end;
      [discriminate|apply text1_nofuel|discriminate|].
    exfalso. revert Er. apply autolink_www_fuel_lemma. }
  match goal with |- (if ?b then _ else _) <> _ => destruct b end.
  { destruct (handle_delim o u inp s1 c) as [[[s2 n] d]|?|] eqn:Ed; cbn [bind];
      [|discriminate|exfalso; eapply handle_delim_nofuel; exact Ed].
    destruct (push_item s2 n). discriminate. }
  destruct (beqb c x2d); [apply append_nofuel, handle_hyphen_nofuel|].
  destruct (beqb c x2e); [apply append_nofuel, handle_period_nofuel|].
  destruct (beqb c x5b).
  { cbv zeta.
    match goal with |- bind ?r _ <> _ => destruct r as [[[s2 n]|]|?|] eqn:Er; cbn [bind] end; [discriminate| |discriminate|].
    - match goal with |- bind ?r _ <> _ => destruct r as [n|?|] eqn:Em; cbn [bind] end;
        [|discriminate|exfalso; eapply mk_nofuel; exact Em].
      destruct (push_item _ n). discriminate.
    - exfalso. match type of Er with (if ?b then _ else _) = _ => destruct b end; [|discriminate Er].
      revert Er. apply handle_wikilink_nofuel. }
  destruct (beqb c x5d).
  { destruct (handle_close_bracket _ _ _ _ _ _) as [[s2 n]|?|] eqn:Eh; cbn [bind]; [discriminate|discriminate|].
    exfalso. revert Eh. apply hcb_nofuel.
    apply (FI0_fr3 o inp s1); [unfold fr3; cbn [delims sibs nid set_within]; auto | exact I1]. }
  destruct (beqb c x21).
  { cbv zeta. destruct (peek_eq inp (S (pos s1)) x5b && negb (peek_eq inp (S (S (pos s1))) x5e)).
    - match goal with |- bind ?r _ <> _ => destruct r as [n|?|] eqn:Em; cbn [bind] end;
        [|discriminate|exfalso; eapply mk_nofuel; exact Em].
      destruct (push_item _ n). discriminate.
    - apply append_nofuel. nf. }
  destruct (beqb c x24); [apply append_nofuel, handle_dollars_fuel|].
  cbv zeta.
  repeat match goal with
         | |- bind ?r _ <> OutOfFuel =>
           let E := fresh "E" in
           destruct r eqn:E; cbn [bind];
           [ | discriminate | exfalso; generalize E; clear E; change (r <> OutOfFuel); nf ]
         | |- (let (_, _) := ?x in _) <> OutOfFuel => destruct x
         end.
  apply append_nofuel. nf.
Qed.

(* ------------------------------------------------------------------ the loop *)
Lemma FInv_init r0 : FInv (init_st start_line r0).
Proof.
  unfold Inlines.init_st. split; [split; [split; [|split]|split]|]; cbn [delims sibs nid pos].
  - intros d [].
  - exact I.
  - intros d1 d2 [].
  - intros d [].
  - intros it [].
  - intros d [].
Qed.

Lemma loop_FInv : forall fuel s, FInv s -> List.length inp - pos s < fuel ->
  inline_loop memo o u inp lo start_line refmap maxref fuel s <> OutOfFuel
  /\ forall s', inline_loop memo o u inp lo start_line refmap maxref fuel s = Ok s' -> FInv s'.
Proof.
  induction fuel as [|f IH]; intros s I Hf; [lia|].
  cbn [inline_loop].
  destruct (parse_inline memo o u inp lo start_line refmap maxref s) as [[s1|]|?|] eqn:E; cbn [bind].
  - pose proof (parse_inline_advances_all _ _ _ _ _ _ _ _ _ _ E).
    pose proof (parse_inline_some_lt _ _ _ _ _ _ _ _ _ _ E).
    apply IH; [eapply step_FInv; eassumption|lia].
  - split; [discriminate|]. intros s' H. inversion H; subst. exact I.
  - split; discriminate.
  - exfalso. revert E. apply step_nofuel. apply I.
Qed.

Theorem inlines_fuel_section rs0 : parse_inlines memo o u inp lo start_line refmap maxref rs0 <> OutOfFuel.
Proof.
  unfold parse_inlines.
  destruct (loop_FInv (S (len inp)) (init_st start_line rs0) (FInv_init rs0)) as [A B].
  { unfold len. cbn [pos Inlines.init_st]. lia. }
  destruct (inline_loop memo o u inp lo start_line refmap maxref (S (len inp)) (init_st start_line rs0)) as [s|?|] eqn:E;
    cbn [bind]; [|discriminate|congruence].
  specialize (B s eq_refl).
  assert (process_emphasis o inp s (nid s) (rev (sibs s)) (delims s) 0 <> OutOfFuel) as X.
  { pose proof (pe_nofuel_FI0 o inp s s (nid s) (rev (sibs s)) (fun _ => true) 0) as Y. rewrite filter_true in Y.
    apply Y; [apply B|]. intro j. rewrite tlsum_rev. lia. }
  destruct (process_emphasis o inp s (nid s) (rev (sibs s)) (delims s) 0) as [r|?|]; cbn [bind]; [discriminate|discriminate|congruence].
Qed.

(* the delimiter bytes on the stack at the end of the loop are delimiter bytes: the final process_emphasis never
   answers the site process_emphasis:unreachable *)
Theorem final_emphasis_unreachable_site rs0 s site :
  inline_loop memo o u inp lo start_line refmap maxref (S (len inp)) (init_st start_line rs0) = Ok s ->
  process_emphasis o inp s (nid s) (rev (sibs s)) (delims s) 0 = Panic site -> site <> site_pe_unreachable.
Proof.
  intros E H.
  destruct (loop_FInv (S (len inp)) (init_st start_line rs0) (FInv_init rs0)) as [_ B].
  { unfold len. cbn [pos Inlines.init_st]. lia. }
  specialize (B s E). destruct B as [[[G _] _] _].
  unfold process_emphasis in H. destruct (delims s) as [|c above] eqn:Ed; [discriminate|].
  eapply (pe_loop_unreachable_site o _ s (nid s) (rev (sibs s)) _ [] (c :: above)); [|exact H].
  apply Forall_forall. intros d Hd. apply (G d). exact Hd.
Qed.

End Step.

Theorem inlines_fuel memo o u inp lo sl refmap maxref rs0 :
  parse_inlines memo o u inp lo sl refmap maxref rs0 <> OutOfFuel.
Proof. apply inlines_fuel_section. Qed.

Theorem inlines_fuel_invariant_lemma memo o u inp lo sl refmap maxref rs0 fuel s :
  List.length inp < fuel ->
  inline_loop memo o u inp lo sl refmap maxref fuel (init_st sl rs0) = Ok s -> FInv o inp s.
Proof.
  intros Hf H.
  refine (proj2 (loop_FInv memo o u inp lo sl refmap maxref fuel (init_st sl rs0) (FInv_init o inp sl rs0) _) s H).
  cbn [pos Inlines.init_st]. lia.
Qed.
