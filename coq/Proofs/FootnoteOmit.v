(* Proofs/FootnoteOmit.v — "unreferenced definitions are omitted", the half that is TRUE of Model/Footnotes.process
   (the other half — a definition written inside a definition survives — is refuted in FootnoteProofs.v, finding F22):
   every definition at the tail of the root of the processed tree, i.e. every definition process_footnotes appends,
   has total_references >= 1.  For every tree whose root is no definition, every fold / preserve, every order in which
   the HashMap yields its values (a permutation of the entries).

   Invariant of the reference walk: a map entry that has a number has a positive reference count (both are set by the
   same step).  The appended nodes are set_def f d for the numbered entries f of the final map. *)
From Coq Require Import List NArith Bool Lia Permutation.
From V Require Import Base.Bytes Model.Ast Model.Footnotes Spec.FootnoteSpec Spec.Shape
  Proofs.FootnoteProofs Proofs.FootnoteOrder Proofs.ParserShapeFn.
Import ListNotations.
Local Open Scope list_scope.

Section MapForall.
  Variable P : fdef -> Prop.

  Lemma map_insert_Forall e m : Forall P m -> P e -> Forall P (map_insert e m).
  Proof.
    intros Jm He. induction Jm as [|x r Hx Hr IH]; cbn [map_insert].
    - constructor; [exact He | constructor].
    - destruct (bytes_eqb (f_key x) (f_key e)).
      + constructor; [exact He | exact Hr].
      + constructor; [exact Hx | exact IH].
  Qed.

  Lemma map_set_Forall e m : Forall P m -> P e -> Forall P (map_set e m).
  Proof.
    intros Jm He. induction Jm as [|x r Hx Hr IH]; cbn [map_set].
    - constructor.
    - destruct (bytes_eqb (f_key x) (f_key e)).
      + constructor; [exact He | exact Hr].
      + constructor; [exact Hx | exact IH].
  Qed.
End MapForall.

Definition Tot (f : fdef) : Prop := has_ix f = true -> (1 <= f_total f)%N.

Section Omit.
  Variable fold : bytes -> bytes.
  Variable pres : bytes -> bytes.

  Lemma collect_Tot ds : forall idx m, Forall Tot m -> Forall Tot (collect fold pres ds idx m).
  Proof.
    induction ds as [|a r IH]; intros idx m T; cbn [collect]; [exact T|].
    apply IH. apply map_insert_Forall; [exact T|]. unfold Tot, has_ix. cbn [f_ix]. discriminate.
  Qed.

  Lemma refs_Tot : forall n (st : fmap * N), Forall Tot (fst st) -> Forall Tot (fst (snd (refs fold pres n st))).
  Proof.
    induction n as [v sp ch IH] using node_ind2. intros st T.
    destruct (is_ref v) eqn:R.
    - destruct v; try discriminate. cbn [refs].
      destruct (map_get (fold name) (fst st)) as [f|] eqn:G; [|exact T].
      destruct (f_ix f); cbn [fst snd]; (apply map_set_Forall; [exact T|]); unfold Tot; cbn [f_total]; intros _; lia.
    - rewrite refs_nonref by exact R.
      assert (forall st : fmap * N, Forall Tot (fst st) -> Forall Tot (fst (snd (refs_list fold pres ch st)))) as L.
      { clear st T. induction IH as [|c r Hc _ IHr]; intros st T; cbn [refs_list]; [exact T|].
        specialize (Hc st T). destruct (refs fold pres c st) as [c' st1]. cbn [fst snd] in Hc.
        specialize (IHr st1 Hc). destruct (refs_list fold pres r st1) as [r' st2]. cbn [fst snd] in IHr |- *.
        exact IHr. }
      specialize (L st T). destruct (refs_list fold pres ch st) as [ch' st']. exact L.
  Qed.

  Variable perm : list fdef -> list fdef.
  Hypothesis perm_ok : forall m, Permutation (perm m) m.

  Lemma appended_tot m defs : Forall Tot m -> Forall (fun d => is_def d = true) defs ->
    Forall (fun a => is_fndef (nval a) = true /\ (1 <= fdef_total a)%N) (appended perm m defs).
  Proof.
    intros T D. unfold appended. apply Forall_forall. intros a Ha.
    apply in_flat_map in Ha. destruct Ha as [f [Hf Ha]]. cbv beta in Ha.
    destruct (nth_error defs (f_idx f)) as [d|] eqn:E; [|contradiction].
    destruct Ha as [<-|[]].
    apply filter_In in Hf. destruct Hf as [Hin Hix].
    assert (In f m) as Fm.
    { eapply Permutation_in; [apply perm_ok|]. eapply Permutation_in; [apply sort_by_ix_perm | exact Hin]. }
    rewrite Forall_forall in T, D.
    rewrite (fnp_set_def_def f d (D d (nth_error_In _ _ E))).
    unfold fdef_total. cbn [nval is_fndef]. split; [reflexivity|]. apply T; assumption.
  Qed.

  Theorem appended_defs_referenced root : is_def root = false ->
    forallb (fun d => (1 <=? fdef_total d)%N) (tail_part (nch (process fold pres perm root))) = true.
  Proof.
    intro D. unfold process.
    pose proof (fnp_refs_rr fold pres root (collect fold pres (top_defs root) 0 [], 0%N)) as R.
    pose proof (fnp_refs_maplen fold pres root (collect fold pres (top_defs root) 0 [], 0%N)) as L.
    assert (Forall Tot (fst (snd (refs fold pres root (collect fold pres (top_defs root) 0 [], 0%N))))) as T.
    { apply refs_Tot. cbn [fst]. apply collect_Tot. constructor. }
    destruct (refs fold pres root (collect fold pres (top_defs root) 0 [], 0%N)) as [root1 [m1 ix]].
    cbn [fst snd] in R, L, T. cbv beta iota zeta.
    remember (match m1 with [] => root1 | _ :: _ => cleanup root1 end) as root2 eqn:E2.
    assert ((root2 = root1 /\ top_defs root = []) \/ root2 = cleanup root1) as Dj.
    { destruct m1 as [|x r]; [left|right; exact E2]. split; [exact E2|].
      cbn [length] in L. symmetry in L. apply length_zero_iff_nil in L.
      apply fnp_collect_nil in L. destruct L as [L _]. exact L. }
    destruct (fnp_root2_facts root root1 root2 D R Dj) as [_ N].
    clear E2 Dj. destruct (0 <? ix)%N.
    - destruct root2 as [v sp ch]. cbn [nch] in N |- *.
      pose proof (appended_tot m1 (top_defs root1) T (fnp_top_defs_are_defs root1)) as A.
      assert (Forall (fun a => is_fndef (nval a) = true) (appended perm m1 (top_defs root1))) as FD.
      { eapply Forall_impl; [|exact A]. intros a [H _]. exact H. }
      destruct (fnp_tail_body_app _ _ N FD) as [-> _].
      apply forallb_forall. intros a Ha. rewrite Forall_forall in A. apply N.leb_le. apply A. exact Ha.
    - rewrite <- (app_nil_r (nch root2)).
      destruct (fnp_tail_body_app (nch root2) [] N (Forall_nil _)) as [-> _]. reflexivity.
  Qed.
End Omit.
