(* Proofs/BlocksTotal7CurLine.v — totality of the block phase, seventh round, the cursor-boundary walk, part 4: the
   invariant UB through open_new_blocks_step (the chain of the twelve handlers and the table openers), the loop and
   open_new_blocks.  The loop needs C1 at every iteration: it is taken from step_cur of the fourth round
   (Proofs/BlocksTotal4Line.v), which needs the tree invariant J of Proofs/BlocksTotal2Walk.v (the ATX heading). *)
From Coq Require Import List NArith Arith Bool Lia Strings.String.
From V Require Import Base.Bytes Base.Res Gen.Nodes Gen.BlocksConst Model.Ast Model.Strings Model.Entity Model.LinkUrl Model.ListMarker
  Model.Feed Model.FrontMatter Model.RefDef Model.Scan Model.Blocks Spec.EscapeSpec
  Proofs.StrLeafProofs Proofs.StrLeafEntity Proofs.BlocksProofs Proofs.BlocksCursor Proofs.BlocksTight Proofs.BlocksTotal
  Spec.Shape Spec.Valid Proofs.ParserShapeBlocks Proofs.ParserShapeTree Proofs.ParserShapeTabPrim Proofs.ParserShapeTables
  Proofs.BlocksTotal2Safe Proofs.BlocksTotal2Root Proofs.BlocksTotal2Tree Proofs.BlocksTotal2Walk Proofs.BlocksTotal3Tab Proofs.BlocksTotal3Cur Proofs.BlocksTotal4Safe
  Proofs.BlocksTotal4Cur Proofs.BlocksTotal4Frame Proofs.BlocksTotal4Walk Proofs.BlocksTotal4Atx Proofs.BlocksTotal4Open Proofs.BlocksTotal4Line
  Proofs.BlocksTotal5Adv Proofs.BlocksTotal7CurInv Proofs.BlocksTotal7CurOpen.
Import ListNotations.
Local Open Scope string_scope.
Local Open Scope list_scope.

Section Line.
Variables (o : bopts) (lmc cur0 : nat) (line : bytes).
Hypothesis LN : lf_terminated line.
Hypothesis UV : utf8_valid line = true.
Notation Jx := (J o lmc cur0).

(* not handled: the same fresh cursor *)
Definition NHc (s0 : pstate) (r : bool * nat * pstate) : Prop :=
  let '(h, c, s') := r in if h then True else F1 line s' /\ c_indent (ps_cur s') = c_indent (ps_cur s0).

Lemma HRc_NHc s0 r : HRc line s0 r -> NHc s0 r.
Proof. destruct r as [[h c] s]. cbn [HRc NHc]. destruct h; [intros _; exact I | exact (fun H => H)]. Qed.

Lemma NHc_indent s0 s1 r : c_indent (ps_cur s1) = c_indent (ps_cur s0) -> NHc s1 r -> NHc s0 r.
Proof. intros E. destruct r as [[h c] s]. cbn [NHc]. destruct h; [exact (fun H => H)|]. intros [A B]. split; [exact A | congruence]. Qed.

Definition NU (s0 : pstate) (r : bool * nat * pstate) : Prop := NHc s0 r /\ UB line (snd r).

Lemma or_else_UB s0 (r : hres) k x :
  or_else_h r k = Ok x ->
  (forall y, r = Ok y -> NU s0 y) ->
  (forall c s y, F1 line s -> c_indent (ps_cur s) = c_indent (ps_cur s0) -> UB line s -> k c s = Ok y -> NU s0 y) ->
  NU s0 x.
Proof.
  unfold or_else_h. intros H R K. destruct r as [[[h c] s]| |]; cbn [bind] in H; try discriminate H.
  destruct (R _ eq_refl) as [A B]. destruct h; [inversion H; subst; split; assumption|].
  cbn [NHc] in A. destruct A as [F I]. cbn [snd] in B. eapply K; eassumption.
Qed.

Ltac hstep II CUR UBL :=
  let y := fresh "y" in let Ey := fresh "Ey" in
  intros y Ey; split;
  [ eapply NHc_indent; [exact II|]; apply HRc_NHc; exact (sg_ok _ _ _ _ _ CUR Ey)
  | eapply UBL; eassumption ].

Lemma chain_UB s0 c am ml d x : F1 line s0 -> UB line s0 ->
  or_else_h (handle_alert o s0 c line (Nat.leb code_indent (indent s0))) (fun container st =>
  or_else_h (handle_multiline_blockquote o st container line (Nat.leb code_indent (indent s0))) (fun container st =>
  or_else_h (handle_blockquote o st container line (Nat.leb code_indent (indent s0))) (fun container st =>
  or_else_h (handle_atx_heading o st container line (Nat.leb code_indent (indent s0))) (fun container st =>
  or_else_h (handle_code_fence o st container line (Nat.leb code_indent (indent s0))) (fun container st =>
  or_else_h (handle_html_block o st container line (Nat.leb code_indent (indent s0))) (fun container st =>
  or_else_h (handle_setext_heading o st container line (Nat.leb code_indent (indent s0))) (fun container st =>
  or_else_h (handle_thematic_break o st container line (Nat.leb code_indent (indent s0)) am) (fun container st =>
  or_else_h (handle_footnote o st container line (Nat.leb code_indent (indent s0)) d) (fun container st =>
  or_else_h (handle_description_list o st container line (Nat.leb code_indent (indent s0))) (fun container st =>
  or_else_h (handle_list o st container line (Nat.leb code_indent (indent s0)) d) (fun container st =>
  handle_code_block o st container line (Nat.leb code_indent (indent s0)) ml))))))))))) = Ok x -> NU s0 x.
Proof.
  intros F U EX0. assert (I0 : c_indent (ps_cur s0) = c_indent (ps_cur s0)) by reflexivity.
  refine (or_else_UB s0 _ _ _ EX0 _ _); [hstep I0 uconstr:(handle_alert_cur line LN o _ _ _ F) handle_alert_UB|].
  clear I0. intros c1 s1 y1 F1' I1 U1 EX.
  refine (or_else_UB s0 _ _ _ EX _ _); [hstep I1 uconstr:(handle_mbq_cur line LN o _ _ _ F1') handle_mbq_UB|].
  clear dependent s1. clear c1 y1. intros c1 s1 y1 F1' I1 U1 EX.
  refine (or_else_UB s0 _ _ _ EX _ _); [hstep I1 uconstr:(handle_blockquote_cur line LN o _ _ _ F1') handle_blockquote_UB|].
  clear dependent s1. clear c1 y1. intros c1 s1 y1 F1' I1 U1 EX.
  refine (or_else_UB s0 _ _ _ EX _ _).
  { intros y Ey. split; [|eapply handle_atx_UB; eassumption].
    eapply NHc_indent; [exact I1|]. pose proof (sg_ok _ _ _ _ _ (handle_atx_cur line LN o _ _ _ F1') Ey) as K.
    destruct y as [[h c'] s']. cbn [NHc]. destruct h; [exact I | exact K]. }
  clear dependent s1. clear c1 y1. intros c1 s1 y1 F1' I1 U1 EX.
  refine (or_else_UB s0 _ _ _ EX _ _); [hstep I1 uconstr:(handle_code_fence_cur line LN o _ _ _ F1') handle_code_fence_UB|].
  clear dependent s1. clear c1 y1. intros c1 s1 y1 F1' I1 U1 EX.
  refine (or_else_UB s0 _ _ _ EX _ _); [hstep I1 uconstr:(handle_html_block_cur line LN o _ _ _ F1') handle_html_block_UB|].
  clear dependent s1. clear c1 y1. intros c1 s1 y1 F1' I1 U1 EX.
  refine (or_else_UB s0 _ _ _ EX _ _); [hstep I1 uconstr:(handle_setext_cur line LN o _ _ _ F1') handle_setext_UB|].
  clear dependent s1. clear c1 y1. intros c1 s1 y1 F1' I1 U1 EX.
  refine (or_else_UB s0 _ _ _ EX _ _); [hstep I1 uconstr:(handle_thematic_break_cur line LN o _ _ _ _ F1') handle_thematic_break_UB|].
  clear dependent s1. clear c1 y1. intros c1 s1 y1 F1' I1 U1 EX.
  refine (or_else_UB s0 _ _ _ EX _ _); [hstep I1 uconstr:(handle_footnote_cur line LN o _ _ _ _ F1') handle_footnote_UB|].
  clear dependent s1. clear c1 y1. intros c1 s1 y1 F1' I1 U1 EX.
  refine (or_else_UB s0 _ _ _ EX _ _); [hstep I1 uconstr:(handle_description_list_cur line LN o _ _ _ F1') handle_description_list_UB|].
  clear dependent s1. clear c1 y1. intros c1 s1 y1 F1' I1 U1 EX.
  refine (or_else_UB s0 _ _ _ EX _ _); [hstep I1 uconstr:(handle_list_cur line LN o _ _ _ _ F1') handle_list_UB|].
  clear dependent s1. clear c1 y1. intros c1 s1 y1 F1' I1 U1 EX.
  assert (Ei : Nat.leb code_indent (indent s0) = Nat.leb code_indent (c_indent (ps_cur s1))) by (unfold indent; now rewrite I1).
  split.
  - eapply NHc_indent; [exact I1|]. apply HRc_NHc. exact (sg_ok _ _ _ _ _ (handle_code_block_cur line LN o _ _ _ _ F1' Ei) EX).
  - eapply handle_code_block_UB; eassumption.
Qed.

Lemma step_UB st c am ml d r : C1 line st -> UB line st -> open_new_blocks_step o st c line am ml d = Ok r -> UB line (snd r).
Proof.
  intros C U H. unfold open_new_blocks_step in H.
  destruct (ffn st line) as [s0| |] eqn:E0; cbn [bind] in H; try discriminate H.
  destruct (sg_ok _ _ _ _ _ (ffn_cur line st (proj1 C)) E0) as (F0' & Eo & _).
  assert (F : F1 line s0) by (split; [exact F0' | rewrite Eo; exact (proj2 C)]).
  assert (U0 : UB line s0) by (eapply ffn_UB; eassumption).
  cbv zeta in H.
  match type of H with bind ?rr _ = _ => destruct rr as [[[handled c1] s1]| |] eqn:EX; cbn [bind] in H; try discriminate H end.
  destruct (chain_UB _ _ _ _ _ _ F U0 EX) as [N1 U1]. cbn [NHc snd] in N1, U1.
  match type of H with bind ?rr _ = _ => destruct rr as [[[go c2] s2]| |] eqn:EM; cbn [bind] in H; try discriminate H end.
  assert (U2 : UB line s2).
  { destruct handled; [inversion EM; subst; exact U1|]. destruct N1 as [F1s _].
    match type of EM with bind ?rr _ = _ => destruct rr as [[t s3]| |] eqn:ET; cbn [bind] in EM; try discriminate EM end.
    assert (U3 : UB line s3).
    { destruct (_ && _) in ET; [exact (try_opening_block_UB o line LN UV _ _ _ F1s U1 ET) | inversion ET; subst; exact U1]. }
    destruct t as [|mk|id].
    - inversion EM; subst. exact U3.
    - destruct mk; cbn [bind] in EM.
      + destruct (modify_info s3 c1 (set_tv true)) as [s4| |] eqn:M4; cbn [bind] in EM; try discriminate EM.
        inversion EM; subst. eapply UB_KC; [eapply modify_info_KC; [exact M4 | apply KC_self] | exact U3].
      + inversion EM; subst. exact U3.
    - inversion EM; subst. exact U3. }
  mon H; cbn [snd]; exact U2.
Qed.

Lemma loop_UB am : forall fuel st c ml d r, Jx st c -> C1 line st -> UB line st ->
  open_new_blocks_loop fuel o st c line am ml d = Ok r -> UB line (snd r).
Proof.
  induction fuel as [|f IH]; intros st c ml d r Jc C U H; cbn [open_new_blocks_loop] in H; [discriminate H|].
  destruct (get st c) as [n| |]; cbn [bind] in H; try discriminate H.
  destruct (is_code_or_html n); [inversion H; subst; exact U|].
  destruct (open_new_blocks_step o st c line am ml (S d)) as [[[go c1] s1]| |] eqn:ES; cbn [bind] in H; try discriminate H.
  pose proof (safe_ok _ _ _ (open_new_blocks_step_spec' o lmc cur0 st c line am ml (S d) Jc) ES) as J1.
  pose proof (sg_ok _ _ _ _ _ (step_cur o lmc cur0 line LN st c am ml (S d) Jc C) ES) as S1.
  pose proof (step_UB _ _ _ _ _ _ C U ES) as U1. cbn [HJ STc fst snd] in J1, S1, U1.
  destruct go; [eapply IH; eassumption | inversion H; subst; exact U1].
Qed.
End Line.

Lemma open_new_blocks_UB o line st c am r : lf_terminated line -> utf8_valid line = true ->
  W o st -> has st c -> has st (ps_current st) -> C1 line st -> UB line st ->
  open_new_blocks o st c line am = Ok r -> UB line (snd r).
Proof.
  intros LN UV V Hc Hcur C U H. unfold open_new_blocks in H.
  destruct (get st (ps_current st)) as [n| |]; cbn [bind] in H; try discriminate H.
  eapply (loop_UB o c (ps_current st) line LN UV); [| exact C | exact U | exact H].
  split; [exact V|]. split; [exact Hc|]. split; [reflexivity|]. split; [reflexivity | now right].
Qed.
